(* Soundness of the download validation pipeline (Model/ImmVerify.v): whatever the shares
   contain and however their contents change between calls, the node keeps only genuine
   hash-tree nodes, an accepted block is the uploader's block, a delivered segment is the
   uploader's ciphertext segment. *)
From Coq Require Import List ZArith NArith Bool Lia.
From Verif Require Import Gen.ImmConsts Model.HashTree Model.ImmFile Model.ImmVerify
  Proofs.HashTreeBase Proofs.HashTree Proofs.HashTreeBuild Proofs.ImmVerifyTree.
Import ListNotations.
Local Open Scope Z_scope.

(* a well-formed encoded file: what Encoder guarantees about its own parameters *)
Record ef_wf (f : efile) : Prop := {
  wf_k : (1 <= ef_k f)%N;
  wf_seg : (1 <= ef_segsize f)%N;
  wf_mod : (ef_segsize f mod ef_k f = 0)%N;
  wf_blocks : length (ef_blocks f) = N.to_nat (d_num_segments (calculate_sizes (ef_size f) (ef_k f) (ef_segsize f)));
  wf_segs : length (ef_segs f) = N.to_nat (d_num_segments (calculate_sizes (ef_size f) (ef_k f) (ef_segsize f))) }.

Lemma nth_map_seq : forall A (g : nat -> A) n i d, (i < n)%nat -> nth i (map g (seq 0 n)) d = g i.
Proof.
  intros A g n i d Hi. rewrite (nth_indep _ d (g 0%nat)) by (rewrite map_length, seq_length; exact Hi).
  rewrite map_nth. rewrite seq_nth by exact Hi. reflexivity.
Qed.

Lemma nth_map_lt : forall A B (g : A -> B) l i d d', (i < length l)%nat -> nth i (map g l) d = g (nth i l d').
Proof.
  intros A B g l i d d' Hi. rewrite (nth_indep _ d (g d')) by (rewrite map_length; exact Hi). apply map_nth.
Qed.

Section Soundness.
  Variable H : Type.
  Variable H_eqb : H -> H -> bool.
  Variable pair_hash : H -> H -> H.
  Variable truthy : H -> bool.
  Variable empty_leaf : Z -> H.
  Variable block_hash : list N -> H.
  Variable seg_hash : list N -> H.
  Variable UB : Type.
  Variable ueb_hash : UB -> H.
  Variable parse_ueb : UB -> option (ueb H).
  Variable dec : N -> N -> list (N * list N) -> list (list N).
  Variable ser_ueb : ueb H -> UB.

  Hypothesis H_eqb_spec : forall a b, H_eqb a b = true <-> a = b.
  Hypothesis all_truthy_H : forall h, truthy h = true.
  Hypothesis pair_inj : forall a b c d, pair_hash a b = pair_hash c d -> a = c /\ b = d.
  Hypothesis block_inj : forall a b, block_hash a = block_hash b -> a = b.
  Hypothesis seg_inj : forall a b, seg_hash a = seg_hash b -> a = b.
  Hypothesis ueb_inj : forall a b, ueb_hash a = ueb_hash b -> a = b.
  Hypothesis parse_ser : forall u, parse_ueb (ser_ueb u) = Some u.

  Variable f : efile.
  Variable key : list N.
  Hypothesis Hwf : ef_wf f.

  Notation c := (g_cap H pair_hash empty_leaf block_hash seg_hash UB ueb_hash ser_ueb key f).
  Notation set_hashes := (set_hashes H H_eqb pair_hash truthy).
  Notation TreeOK := (TreeOK H).
  Notation merkle := (merkle H pair_hash).
  Notation mk_tree := (mk_tree H pair_hash empty_leaf).
  Notation node_of := (node_of H empty_leaf).
  Notation get_block := (get_block H H_eqb pair_hash truthy block_hash UB ueb_hash parse_ueb).
  Notation decode_and_check := (decode_and_check H H_eqb pair_hash truthy seg_hash dec).
  Notation fetch_segment := (fetch_segment H H_eqb pair_hash truthy block_hash seg_hash UB ueb_hash parse_ueb dec).
  Notation collect_blocks := (collect_blocks H H_eqb pair_hash truthy block_hash UB ueb_hash parse_ueb).
  Notation serve := (serve H H_eqb pair_hash truthy block_hash seg_hash UB ueb_hash parse_ueb dec).

  Definition nn : Z := Z.of_N (ef_n f).
  Definition nseg : Z := Z.of_N (d_num_segments (calculate_sizes (ef_size f) (ef_k f) (ef_segsize f))).
  Definition ns : Z := 2 * roundup_pow2 nn - 1.
  Definition nc : Z := 2 * roundup_pow2 nseg - 1.
  Definition Gs : Z -> H := node_of (g_sht H pair_hash empty_leaf block_hash f).
  Definition Gc : Z -> H := node_of (g_cht H pair_hash empty_leaf seg_hash f).
  Definition Gb (s : Z) : Z -> H := node_of (g_bht H pair_hash empty_leaf block_hash f s).

  (* ---- the genuine trees ------------------------------------------------------------------ *)
  Lemma roundup_ge1 : forall x, 1 <= roundup_pow2 x.
  Proof.
    intros x. destruct (roundup_pow2_spec x) as [k [-> _]]. apply (Z.pow_le_mono_r 2 0 (Z.of_nat k)); lia.
  Qed.

  Lemma tree_facts : forall L,
    let t := mk_tree L in
    let P := roundup_pow2 (zlen L) in
    zlen t = 2 * P - 1 /\ merkle (node_of t) (2 * P - 1) /\
    (forall i, 0 <= i < zlen L -> node_of t (first_leaf_num (zlen L) + i) = nth (Z.to_nat i) L (empty_leaf 0)).
  Proof.
    intros L t P.
    destruct (hash_tree_merkle H pair_hash empty_leaf L (empty_leaf 0)) as [M1 [M2 [_ M4]]].
    cbv zeta in M1, M2, M4. fold (mk_tree L) in M1, M2, M4. fold t in M1, M2, M4. fold P in M1, M2.
    split; [exact M1|]. split.
    - intros p Hp Hlt. unfold ImmVerify.node_of. apply M4; [exact Hp|rewrite M1; exact Hlt].
    - intros i Hi. unfold ImmVerify.node_of, first_leaf_num. fold P. apply M2. exact Hi.
  Qed.

  Lemma zlen_blocks : zlen (ef_blocks f) = nseg.
  Proof. unfold zlen, nseg. rewrite (wf_blocks f Hwf). lia. Qed.
  Lemma zlen_segs : zlen (ef_segs f) = nseg.
  Proof. unfold zlen, nseg. rewrite (wf_segs f Hwf). lia. Qed.

  Lemma bht_facts : forall s,
    merkle (Gb s) nc /\
    (forall j, 0 <= j < nseg -> Gb s (first_leaf_num nseg + j) = block_hash (gblock f s j)).
  Proof.
    intros s. unfold Gb, ImmVerify.g_bht.
    set (L := map (fun blocks => block_hash (nth (Z.to_nat s) blocks [])) (ef_blocks f)).
    assert (HL : zlen L = nseg) by (unfold zlen, L; rewrite map_length; apply zlen_blocks).
    destruct (tree_facts L) as [_ [F2 F3]]. cbv zeta in F2, F3. rewrite HL in F2, F3.
    split; [exact F2|]. intros j Hj. rewrite (F3 j Hj). unfold L.
    rewrite (nth_map_lt _ _ _ _ _ _ []); [reflexivity|].
    pose proof zlen_blocks as Hb. unfold zlen in Hb. lia.
  Qed.

  Lemma sht_facts :
    merkle Gs ns /\ (forall s, 0 <= s < nn -> Gs (first_leaf_num nn + s) = Gb s 0).
  Proof.
    unfold Gs, ImmVerify.g_sht.
    set (L := map (fun i => nth 0 (g_bht H pair_hash empty_leaf block_hash f (Z.of_nat i)) (empty_leaf 0)) (seq 0 (N.to_nat (ef_n f)))).
    assert (HL : zlen L = nn) by (unfold zlen, L, nn; rewrite map_length, seq_length; lia).
    destruct (tree_facts L) as [_ [F2 F3]]. cbv zeta in F2, F3. rewrite HL in F2, F3.
    split; [exact F2|]. intros s Hs. rewrite (F3 s Hs). unfold L.
    rewrite nth_map_seq by (unfold nn in Hs; lia).
    unfold Gb, ImmVerify.node_of. rewrite Z2Nat.id by lia. reflexivity.
  Qed.

  Lemma cht_facts :
    merkle Gc nc /\ (forall j, 0 <= j < nseg -> Gc (first_leaf_num nseg + j) = seg_hash (gsegment f j)).
  Proof.
    unfold Gc, ImmVerify.g_cht.
    set (L := map seg_hash (ef_segs f)).
    assert (HL : zlen L = nseg) by (unfold zlen, L; rewrite map_length; apply zlen_segs).
    destruct (tree_facts L) as [_ [F2 F3]]. cbv zeta in F2, F3. rewrite HL in F2, F3.
    split; [exact F2|]. intros j Hj. rewrite (F3 j Hj). unfold L, gsegment.
    rewrite (nth_map_lt _ _ _ _ _ _ []); [reflexivity|].
    pose proof zlen_segs as Hb. unfold zlen in Hb. lia.
  Qed.

  Lemma fresh_is_repeat : forall nl, exists m, fresh_tree H nl = repeat None (S m) /\ Z.of_nat (S m) = 2 * roundup_pow2 nl - 1.
  Proof.
    intros nl. unfold fresh_tree, iht_init. pose proof (roundup_ge1 nl) as Hr.
    exists (Z.to_nat (2 * roundup_pow2 nl - 1) - 1)%nat.
    replace (S (Z.to_nat (2 * roundup_pow2 nl - 1) - 1)) with (Z.to_nat (2 * roundup_pow2 nl - 1)) by lia.
    split; [reflexivity|lia].
  Qed.

  Lemma fl_nonneg : forall x, 0 <= first_leaf_num x.
  Proof. intros x. unfold first_leaf_num. pose proof (roundup_ge1 x). lia. Qed.

  Lemma fl_leaf_range : forall x i, 0 <= i < x -> 0 <= first_leaf_num x + i < 2 * roundup_pow2 x - 1.
  Proof.
    intros x i Hi. unfold first_leaf_num. destruct (roundup_pow2_spec x) as [k [_ Hle]]. lia.
  Qed.

  (* ---- node invariant ----------------------------------------------------------------------- *)
  Definition bht_ok (dn : dnode H) : Prop :=
    forall s T, bht_get H (dn_bht dn) s = Some T -> 0 <= s < nn -> TreeOK (Gb s) nc T.

  Definition node_inv (dn : dnode H) : Prop :=
    match dn_segsize dn with
    | None => dn_sht dn = fresh_tree H nn
    | Some ss => ss = ef_segsize f /\ TreeOK Gs ns (dn_sht dn) /\ TreeOK Gc nc (dn_cht dn) /\ bht_ok dn
    end.

  Lemma node_init_inv : node_inv (node_init H c).
  Proof. reflexivity. Qed.

  Lemma bht_get_put : forall l s T s', bht_get H (bht_put H l s T) s' = if s' =? s then Some T else bht_get H l s'.
  Proof.
    induction l as [|[k v] l IH]; intros s T s'; unfold bht_put in *; cbn [dict_set bht_get].
    - destruct (s' =? s); reflexivity.
    - destruct (s =? k) eqn:E.
      + apply Z.eqb_eq in E. subst k. cbn [bht_get]. destruct (s' =? s); reflexivity.
      + cbn [bht_get]. rewrite IH. destruct (s' =? k) eqn:E2; [|reflexivity].
        apply Z.eqb_eq in E2. subst k. destruct (s' =? s) eqn:E3; [|reflexivity].
        apply Z.eqb_eq in E3. subst s'. rewrite Z.eqb_refl in E. discriminate.
  Qed.

  Lemma node_nseg_eq : node_nseg H c (ef_segsize f) = nseg.
  Proof. reflexivity. Qed.

  (* ---- the UEB -------------------------------------------------------------------------------- *)
  Lemma store_ueb_sound : forall dn b o1 o2 dn',
    node_inv dn -> dn_segsize dn = None ->
    store_ueb H H_eqb pair_hash truthy UB ueb_hash parse_ueb c dn b o1 o2 = inl dn' ->
    node_inv dn' /\ dn_segsize dn' = Some (ef_segsize f).
  Proof.
    intros dn b o1 o2 dn' Hinv Hnone Hst. unfold node_inv in Hinv. rewrite Hnone in Hinv.
    unfold store_ueb in Hst.
    destruct (H_eqb (ueb_hash b) (c_ueb_hash c)) eqn:Eh; cbn [negb] in Hst; [|discriminate].
    apply H_eqb_spec in Eh. cbn [g_cap c_ueb_hash] in Eh. apply ueb_inj in Eh. subst b.
    rewrite parse_ser in Hst.
    cbn [g_ueb u_segment_size u_crypttext_root u_share_root] in Hst.
    destruct ((ef_segsize f =? 0) || (c_k c =? 0) || negb (ef_segsize f mod c_k c =? 0))%N; [discriminate|].
    rewrite node_nseg_eq in Hst. cbn [g_cap c_n] in Hst. fold nn in Hst.
    unfold seed_root in Hst.
    destruct (fresh_is_repeat nseg) as [mc [Ec Lc]]. rewrite Ec in Hst. rewrite seed_fresh in Hst.
    rewrite Hinv in Hst.
    destruct (fresh_is_repeat nn) as [ms [Es Ls]]. rewrite Es in Hst. rewrite seed_fresh in Hst.
    inversion Hst. subst dn'. clear Hst.
    split; [|reflexivity]. unfold node_inv. cbn [dn_segsize dn_sht dn_cht dn_bht].
    split; [reflexivity|]. split; [|split].
    - unfold ns. rewrite <- Ls. apply seeded_ok. reflexivity.
    - unfold nc. rewrite <- Lc. apply seeded_ok. reflexivity.
    - intros s T Hg. cbn in Hg. discriminate.
  Qed.

  Lemma stage_ueb_sound : forall dn sh ords dn' r,
    node_inv dn ->
    stage_ueb H H_eqb pair_hash truthy UB ueb_hash parse_ueb c dn sh ords = (dn', r) ->
    node_inv dn' /\ (r = None -> dn_segsize dn' = Some (ef_segsize f)).
  Proof.
    intros dn sh ords dn' r Hinv Hst. unfold stage_ueb in Hst.
    destruct (dn_segsize dn) as [ss|] eqn:Ess.
    - inversion Hst. subst. split; [exact Hinv|]. intros _. unfold node_inv in Hinv. rewrite Ess in Hinv.
      destruct Hinv as [-> _]. exact Ess.
    - destruct (s_ueb sh) as [b|]; [|inversion Hst; subst; split; [exact Hinv|discriminate]].
      destruct (store_ueb H H_eqb pair_hash truthy UB ueb_hash parse_ueb c dn b (ords 0%nat) (ords 1%nat)) as [dn1|e] eqn:Es.
      + inversion Hst. subst. destruct (store_ueb_sound _ _ _ _ _ Hinv Ess Es) as [I1 I2]. split; [exact I1|intros _; exact I2].
      + inversion Hst. subst. split; [exact Hinv|discriminate].
  Qed.

  (* ---- stages after the UEB: they keep the invariant and the segment size --------------------- *)
  Definition after_ueb (dn : dnode H) : Prop := node_inv dn /\ dn_segsize dn = Some (ef_segsize f).

  Lemma after_ueb_parts : forall dn, after_ueb dn ->
    TreeOK Gs ns (dn_sht dn) /\ TreeOK Gc nc (dn_cht dn) /\ bht_ok dn.
  Proof.
    intros dn [Hinv Hss]. unfold node_inv in Hinv. rewrite Hss in Hinv. tauto.
  Qed.

  Lemma after_ueb_intro : forall ss sht cht bht,
    ss = ef_segsize f -> TreeOK Gs ns sht -> TreeOK Gc nc cht -> bht_ok (mkDn (Some ss) sht cht bht) ->
    after_ueb (mkDn (Some ss) sht cht bht).
  Proof.
    intros ss sht cht bht -> H1 H2 H3. split; [|reflexivity]. unfold node_inv. cbn. tauto.
  Qed.

  Lemma stage_share_hashes_sound : forall dn s sh ords dn' r,
    after_ueb dn ->
    stage_share_hashes H H_eqb pair_hash truthy UB c dn s sh ords = (dn', r) -> after_ueb dn'.
  Proof.
    intros dn s sh ords dn' r Hau Hst. destruct (after_ueb_parts dn Hau) as [Hs [Hc Hb]].
    destruct Hau as [Hinv Hss].
    unfold stage_share_hashes in Hst. cbn [g_cap c_n] in Hst. fold nn in Hst.
    destruct (needed_hashes H (first_leaf_num nn) (dn_sht dn) s false) as [[|x nd]|]; try (inversion Hst; subst; split; assumption).
    destruct (s_share_hashes sh) as [[|p l]|]; try (inversion Hst; subst; split; assumption).
    destruct (existsb _ _); [inversion Hst; subst; split; assumption|].
    pose proof (step_keeps H H_eqb pair_hash truthy H_eqb_spec all_truthy_H pair_inj Gs ns (first_leaf_num nn) (dn_sht dn)
                  (pydict (p :: l)) [] (ords 2%nat) (proj1 sht_facts) Hs) as Hk.
    destruct (set_hashes (first_leaf_num nn) (dn_sht dn) (pydict (p :: l)) [] (ords 2%nat)) as [T|e T];
      inversion Hst; subst; rewrite Hss; apply after_ueb_intro; auto.
  Qed.

  Definition has_bht (dn : dnode H) (s : Z) : Prop := bht_get H (dn_bht dn) s <> None.

  Lemma bht_ok_put : forall dn s T sht cht ss,
    bht_ok dn -> (0 <= s < nn -> TreeOK (Gb s) nc T) ->
    bht_ok (mkDn ss sht cht (bht_put H (dn_bht dn) s T)).
  Proof.
    intros dn s T sht cht ss Hb HT s' T' Hg Hr. cbn [dn_bht] in Hg. rewrite bht_get_put in Hg.
    destruct (s' =? s) eqn:E.
    - apply Z.eqb_eq in E. subst s'. inversion Hg. subst T'. apply HT. exact Hr.
    - apply (Hb s' T' Hg Hr).
  Qed.

  Lemma get0_fresh : forall nl, get (fresh_tree H nl) 0 = Some None.
  Proof.
    intros nl. destruct (fresh_is_repeat nl) as [m [-> _]]. unfold get, pyidx, zlen. rewrite repeat_length.
    assert ((0 <=? 0) && (0 <? Z.of_nat (S m)) = true) as -> by (apply andb_true_iff; split; [reflexivity|apply Z.ltb_lt; lia]).
    reflexivity.
  Qed.

  Lemma get_slot : forall (T : tree H) i v, 0 <= i -> get T i = Some v -> v = slot T i /\ i < zlen T.
  Proof.
    intros T i v Hi Hg. pose proof (get_some_valid _ _ _ _ Hg) as Hv.
    rewrite (get_valid _ _ _ Hv) in Hg. rewrite normz_nonneg in Hg by exact Hi. inversion Hg.
    unfold validz in Hv. split; [reflexivity|lia].
  Qed.

  Lemma stage_block_root_sound : forall dn s ords dn' r,
    after_ueb dn ->
    stage_block_root H H_eqb pair_hash truthy c dn nseg s ords = (dn', r) ->
    after_ueb dn' /\ (r = None -> has_bht dn' s).
  Proof.
    intros dn s ords dn' r Hau Hst. destruct (after_ueb_parts dn Hau) as [Hs [Hc Hb]].
    destruct Hau as [Hinv Hss].
    unfold stage_block_root, common_bht in Hst. cbn [g_cap c_n] in Hst. fold nn in Hst.
    destruct (bht_get H (dn_bht dn) s) as [T0|] eqn:Eg.
    - (* a CommonShare exists *)
      destruct (is_truthy H truthy match get T0 0 with Some v => v | None => None end) eqn:Et.
      + inversion Hst. subst. split; [split; assumption|]. intros _. unfold has_bht. rewrite Eg. discriminate.
      + (* its root is missing: only possible for a share number outside 0..N-1 *)
        assert (Hout : ~ (0 <= s < nn)).
        { intros Hr. destruct (Hb s T0 Eg Hr) as [Hl _ Hroot].
          assert (Hv : validz (zlen T0) 0) by (unfold validz; pose proof (roundup_ge1 nseg); unfold nc in Hl; lia).
          rewrite (get_valid _ _ _ Hv) in Et. rewrite normz_nonneg in Et by lia.
          destruct (slot T0 0) as [h|]; [|congruence]. cbn [is_truthy] in Et. rewrite all_truthy_H in Et. discriminate. }
        destruct (get (dn_sht dn) (first_leaf_num nn + s)) as [[h|]|]; try (inversion Hst; subst; split; [split; assumption|discriminate]).
        destruct (seed_root H H_eqb pair_hash truthy nseg T0 h (ords 3%nat)) as [T'|e T']; inversion Hst; subst; rewrite Hss.
        * split; [|intros _; unfold has_bht; cbn [dn_bht]; rewrite bht_get_put, Z.eqb_refl; discriminate].
          apply after_ueb_intro; auto. apply bht_ok_put; [exact Hb|tauto].
        * split; [|discriminate]. apply after_ueb_intro; auto. apply bht_ok_put; [exact Hb|tauto].
    - (* new CommonShare *)
      rewrite get0_fresh in Hst. cbn [is_truthy] in Hst.
      destruct (get (dn_sht dn) (first_leaf_num nn + s)) as [[h|]|] eqn:Egl; try (inversion Hst; subst; split; [split; assumption|discriminate]).
      unfold seed_root in Hst. destruct (fresh_is_repeat nseg) as [m [Ef Lf]]. rewrite Ef, seed_fresh in Hst.
      inversion Hst. subst. rewrite Hss.
      split; [|intros _; unfold has_bht; cbn [dn_bht]; rewrite bht_get_put, Z.eqb_refl; discriminate].
      apply after_ueb_intro; auto. apply bht_ok_put; [exact Hb|]. intros Hr.
      unfold nc. rewrite <- Lf. apply seeded_ok.
      pose proof (fl_nonneg nn) as Hfl.
      assert (Hnn : 0 <= first_leaf_num nn + s) by lia.
      destruct (get_slot _ _ _ Hnn Egl) as [Hv _].
      destruct Hs as [_ Hgen _]. rewrite (Hgen (first_leaf_num nn + s) h ltac:(lia) (eq_sym Hv)).
      apply (proj2 sht_facts). exact Hr.
  Qed.

  Lemma common_bht_has : forall dn s, has_bht dn s -> bht_get H (dn_bht dn) s = Some (common_bht H dn nseg s).
  Proof.
    intros dn s Hh. unfold has_bht in Hh. unfold common_bht. destruct (bht_get H (dn_bht dn) s); [reflexivity|congruence].
  Qed.

  Lemma stage_block_hashes_sound : forall dn s j sh ords dn' r,
    after_ueb dn -> has_bht dn s ->
    stage_block_hashes H H_eqb pair_hash truthy UB dn nseg s j sh ords = (dn', r) ->
    after_ueb dn' /\ has_bht dn' s.
  Proof.
    intros dn s j sh ords dn' r Hau Hh Hst. destruct (after_ueb_parts dn Hau) as [Hs [Hc Hb]].
    destruct Hau as [Hinv Hss]. pose proof (common_bht_has dn s Hh) as Eg.
    unfold stage_block_hashes in Hst. set (T := common_bht H dn nseg s) in *.
    destruct (needed_hashes H (first_leaf_num nseg) T j true) as [[|x nd]|]; try (inversion Hst; subst; split; [split; assumption|assumption]).
    destruct (gather H (s_block_hashes sh) (x :: nd)) as [hs|]; [|inversion Hst; subst; split; [split; assumption|assumption]].
    assert (Hk : 0 <= s < nn ->
                 match set_hashes (first_leaf_num nseg) T hs [] (ords 4%nat) with
                 | Accepted _ T1 => TreeOK (Gb s) nc T1 | Rejected _ _ T1 => TreeOK (Gb s) nc T1 end).
    { intros Hr. apply (step_keeps H H_eqb pair_hash truthy H_eqb_spec all_truthy_H pair_inj); [apply bht_facts|apply (Hb s T Eg Hr)]. }
    destruct (set_hashes (first_leaf_num nseg) T hs [] (ords 4%nat)) as [T1|e T1]; inversion Hst; subst; rewrite Hss;
      (split; [apply after_ueb_intro; auto; apply bht_ok_put; assumption
              |unfold has_bht; cbn [dn_bht]; rewrite bht_get_put, Z.eqb_refl; discriminate]).
  Qed.

  Lemma stage_ct_hashes_sound : forall dn s j sh ords dn' r,
    after_ueb dn -> has_bht dn s ->
    stage_ct_hashes H H_eqb pair_hash truthy UB dn nseg j sh ords = (dn', r) ->
    after_ueb dn' /\ has_bht dn' s.
  Proof.
    intros dn s j sh ords dn' r Hau Hh Hst. destruct (after_ueb_parts dn Hau) as [Hs [Hc Hb]].
    destruct Hau as [Hinv Hss].
    unfold stage_ct_hashes in Hst.
    destruct (needed_hashes H (first_leaf_num nseg) (dn_cht dn) j true) as [[|x nd]|]; try (inversion Hst; subst; split; [split; assumption|assumption]).
    destruct (gather H (s_ct_hashes sh) (x :: nd)) as [hs|]; [|inversion Hst; subst; split; [split; assumption|assumption]].
    pose proof (step_keeps H H_eqb pair_hash truthy H_eqb_spec all_truthy_H pair_inj Gc nc (first_leaf_num nseg) (dn_cht dn)
                  hs [] (ords 5%nat) (proj1 cht_facts) Hc) as Hk.
    destruct (set_hashes (first_leaf_num nseg) (dn_cht dn) hs [] (ords 5%nat)) as [T1|e T1]; inversion Hst; subst; rewrite Hss;
      (split; [apply after_ueb_intro; auto|exact Hh]).
  Qed.

  Lemma stage_block_sound : forall dn s j sh ords dn' r,
    after_ueb dn -> has_bht dn s -> 0 <= j < nseg ->
    stage_block H H_eqb pair_hash truthy block_hash UB dn nseg s j sh ords = (dn', r) ->
    after_ueb dn' /\ (forall b, r = GBlock b -> 0 <= s < nn -> b = gblock f s j).
  Proof.
    intros dn s j sh ords dn' r Hau Hh Hj Hst. destruct (after_ueb_parts dn Hau) as [Hs [Hc Hb]].
    destruct Hau as [Hinv Hss]. pose proof (common_bht_has dn s Hh) as Eg.
    unfold stage_block in Hst. set (T := common_bht H dn nseg s) in *.
    destruct (zassoc j (s_blocks sh)) as [b|]; [|inversion Hst; subst; split; [split; assumption|discriminate]].
    destruct (set_hashes (first_leaf_num nseg) T [] [(j, block_hash b)] (ords 6%nat)) as [T1|e T1] eqn:Esh;
      inversion Hst; subst; rewrite Hss.
    - split.
      + apply after_ueb_intro; auto. apply bht_ok_put; [exact Hb|]. intros Hr.
        apply (step_accepted H H_eqb pair_hash truthy H_eqb_spec all_truthy_H pair_inj (Gb s) nc (first_leaf_num nseg) T [] [(j, block_hash b)] (ords 6%nat) T1);
          [apply bht_facts|apply (Hb s T Eg Hr)|exact Esh].
      + intros b0 Hb0 Hr. inversion Hb0. subst b0.
        destruct (step_accepted H H_eqb pair_hash truthy H_eqb_spec all_truthy_H pair_inj (Gb s) nc (first_leaf_num nseg) T [] [(j, block_hash b)] (ords 6%nat) T1
                    (proj1 (bht_facts s)) (Hb s T Eg Hr) Esh) as [_ [V _]].
        specialize (V j (block_hash b) (or_introl eq_refl) (fl_leaf_range nseg j Hj)).
        rewrite (proj2 (bht_facts s) j Hj) in V. apply block_inj. exact V.
    - split; [|discriminate]. apply after_ueb_intro; auto. apply bht_ok_put; [exact Hb|]. intros Hr.
      rewrite (step_rejected H H_eqb pair_hash truthy H_eqb_spec all_truthy_H (Gb s) nc (first_leaf_num nseg) T [] [(j, block_hash b)] (ords 6%nat) e T1 (Hb s T Eg Hr) Esh).
      apply (Hb s T Eg Hr).
  Qed.

  (* ---- Share.get_block ---------------------------------------------------------------------------- *)
  Theorem get_block_sound : forall dn s j sh ords dn' r,
    node_inv dn -> get_block c dn s j sh ords = (dn', r) ->
    node_inv dn' /\ (forall b, r = GBlock b -> 0 <= s < nn -> b = gblock f s j).
  Proof.
    intros dn s j sh ords dn' r Hinv Hg. unfold ImmVerify.get_block in Hg.
    destruct (check_offsets H UB sh); [inversion Hg; subst; split; [exact Hinv|discriminate]|].
    destruct (stage_ueb H H_eqb pair_hash truthy UB ueb_hash parse_ueb c dn sh ords) as [dn1 [e1|]] eqn:E1;
      destruct (stage_ueb_sound _ _ _ _ _ Hinv E1) as [I1 S1]; cbn [and_then] in Hg;
      [inversion Hg; subst; split; [exact I1|discriminate]|].
    specialize (S1 eq_refl). rewrite S1 in Hg. rewrite node_nseg_eq in Hg.
    destruct ((j <? 0) || (nseg <=? j)) eqn:Ej; [inversion Hg; subst; split; [exact I1|discriminate]|].
    apply orb_false_iff in Ej. destruct Ej as [Ej1 Ej2]. apply Z.ltb_ge in Ej1. apply Z.leb_gt in Ej2.
    assert (A1 : after_ueb dn1) by (split; assumption).
    destruct (stage_share_hashes H H_eqb pair_hash truthy UB c dn1 s sh ords) as [dn2 [e2|]] eqn:E2;
      pose proof (stage_share_hashes_sound _ _ _ _ _ _ A1 E2) as A2; cbn [and_then] in Hg;
      [inversion Hg; subst; split; [apply A2|discriminate]|].
    destruct (stage_block_root H H_eqb pair_hash truthy c dn2 nseg s ords) as [dn3 [e3|]] eqn:E3;
      destruct (stage_block_root_sound _ _ _ _ _ A2 E3) as [A3 B3]; cbn [and_then] in Hg;
      [inversion Hg; subst; split; [apply A3|discriminate]|].
    specialize (B3 eq_refl).
    destruct (stage_block_hashes H H_eqb pair_hash truthy UB dn3 nseg s j sh ords) as [dn4 [e4|]] eqn:E4;
      destruct (stage_block_hashes_sound _ _ _ _ _ _ _ A3 B3 E4) as [A4 B4]; cbn [and_then] in Hg;
      [inversion Hg; subst; split; [apply A4|discriminate]|].
    destruct (stage_ct_hashes H H_eqb pair_hash truthy UB dn4 nseg j sh ords) as [dn5 [e5|]] eqn:E5;
      destruct (stage_ct_hashes_sound _ s _ _ _ _ _ A4 B4 E5) as [A5 B5]; cbn [and_then] in Hg;
      [inversion Hg; subst; split; [apply A5|discriminate]|].
    destruct (stage_block_sound _ _ _ _ _ _ _ A5 B5 (conj Ej1 Ej2) Hg) as [A6 V6].
    split; [apply A6|exact V6].
  Qed.

  (* ---- decode + ciphertext hash ---------------------------------------------------------------------- *)
  Theorem decode_and_check_sound : forall dn j blocks ord dn' r,
    node_inv dn -> decode_and_check c dn j blocks ord = (dn', r) ->
    node_inv dn' /\ (forall seg, r = inl seg -> 0 <= j < nseg -> seg = gsegment f j).
  Proof.
    intros dn j blocks ord dn' r Hinv Hd. unfold ImmVerify.decode_and_check in Hd.
    destruct (dn_segsize dn) as [ss|] eqn:Ess; [|inversion Hd; subst; split; [exact Hinv|discriminate]].
    assert (Hau : after_ueb dn).
    { split; [exact Hinv|]. unfold node_inv in Hinv. rewrite Ess in Hinv. destruct Hinv as [-> _]. exact Ess. }
    destruct (after_ueb_parts dn Hau) as [Hs [Hc Hb]]. destruct Hau as [_ Hss]. rewrite Ess in Hss. inversion Hss. subst ss.
    change (Z.of_N (d_num_segments (node_sizes H c (ef_segsize f)))) with nseg in Hd.
    set (segment := if j =? nseg - 1 then _ else _) in Hd.
    destruct (set_hashes (first_leaf_num nseg) (dn_cht dn) [] [(j, seg_hash segment)] ord) as [T1|e T1] eqn:Esh;
      inversion Hd; subst.
    - destruct (step_accepted H H_eqb pair_hash truthy H_eqb_spec all_truthy_H pair_inj Gc nc (first_leaf_num nseg) (dn_cht dn) [] [(j, seg_hash segment)] ord T1 (proj1 cht_facts) Hc Esh) as [Hk [V _]].
      split.
      + apply (fun a b c => proj1 (after_ueb_intro _ _ _ _ eq_refl a b c)); auto.
      + intros seg Hseg Hj. inversion Hseg. subst seg.
        specialize (V j (seg_hash segment) (or_introl eq_refl) (fl_leaf_range nseg j Hj)).
        rewrite (proj2 cht_facts j Hj) in V. apply seg_inj. exact V.
    - split; [|discriminate]. apply (fun a b c => proj1 (after_ueb_intro _ _ _ _ eq_refl a b c)); auto.
      rewrite (step_rejected H H_eqb pair_hash truthy H_eqb_spec all_truthy_H Gc nc (first_leaf_num nseg) (dn_cht dn) [] [(j, seg_hash segment)] ord e T1 Hc Esh). exact Hc.
  Qed.

  (* ---- SegmentFetcher ---------------------------------------------------------------------------- *)
  Lemma collect_blocks_sound : forall tries dn j have dn' have',
    node_inv dn ->
    (forall s b, In (s, b) have -> 0 <= s < nn -> b = gblock f s j) ->
    collect_blocks c dn j tries have = (dn', have') ->
    node_inv dn' /\ (forall s b, In (s, b) have' -> 0 <= s < nn -> b = gblock f s j).
  Proof.
    induction tries as [|[[s sh] ords] r IH]; intros dn j have dn' have' Hinv Hh Hc; cbn [ImmVerify.collect_blocks] in Hc.
    - destruct (Z.of_N (c_k c) <=? zlen have); inversion Hc; subst; split; assumption.
    - destruct (Z.of_N (c_k c) <=? zlen have); [inversion Hc; subst; split; assumption|].
      destruct (zassoc s have); [apply (IH dn j have dn' have' Hinv Hh Hc)|].
      destruct (get_block c dn s j sh ords) as [dn1 [b|e]] eqn:Eg;
        destruct (get_block_sound _ _ _ _ _ _ _ Hinv Eg) as [I1 V1].
      + apply (IH dn1 j (have ++ [(s, b)]) dn' have' I1); [|exact Hc]. intros s' b' Hin Hr. apply in_app_or in Hin. destruct Hin as [Hin|[Hin|[]]].
        * apply (Hh s' b' Hin Hr).
        * inversion Hin. subst. apply (V1 b' eq_refl Hr).
      + apply (IH dn1 j have dn' have' I1 Hh Hc).
  Qed.

  Theorem fetch_segment_sound : forall dn j tries ord dn' r,
    node_inv dn -> fetch_segment c dn j tries ord = (dn', r) ->
    node_inv dn' /\ (forall seg, r = inl seg -> 0 <= j < nseg -> seg = gsegment f j).
  Proof.
    intros dn j tries ord dn' r Hinv Hf. unfold ImmVerify.fetch_segment in Hf.
    destruct (collect_blocks c dn j tries []) as [dn1 have] eqn:Ec.
    assert (Hnil : forall s b, In (s, b) (@nil (Z * list N)) -> 0 <= s < nn -> b = gblock f s j) by (intros s b []).
    destruct (collect_blocks_sound tries dn j [] dn1 have Hinv Hnil Ec) as [I1 _].
    destruct (zlen have <? Z.of_N (c_k c)); [inversion Hf; subst; split; [exact I1|discriminate]|].
    apply (decode_and_check_sound _ _ _ _ _ _ I1 Hf).
  Qed.

  (* ---- Segmentation: what reaches the consumer ------------------------------------------------------- *)
  Definition gseg (j : N) : list N := gsegment f (Z.of_N j).

  Theorem serve_prefix : forall ws dn script chunks res,
    node_inv dn ->
    Forall (fun w => (w_segnum w < d_num_segments (calculate_sizes (ef_size f) (ef_k f) (ef_segsize f)))%N) ws ->
    serve c dn ws script = (chunks, res) ->
    (exists rest, apply_writes gseg ws = concat chunks ++ rest) /\
    (res = None -> concat chunks = apply_writes gseg ws).
  Proof.
    induction ws as [|w ws IH]; intros dn script chunks res Hinv Hws Hs; cbn [ImmVerify.serve] in Hs.
    - inversion Hs. subst. split; [exists []; reflexivity|reflexivity].
    - destruct (script (w_segnum w)) as [tries ord].
      destruct (fetch_segment c dn (Z.of_N (w_segnum w)) tries ord) as [dn1 [segment|e]] eqn:Ef.
      + destruct (fetch_segment_sound _ _ _ _ _ _ Hinv Ef) as [I1 V1].
        inversion Hws as [|w' ws' Hw Hws']. subst.
        assert (Hj : 0 <= Z.of_N (w_segnum w) < nseg) by (unfold nseg; lia).
        rewrite (V1 segment eq_refl Hj) in Hs.
        destruct (serve c dn1 ws script) as [chunks1 res1] eqn:Es1.
        destruct (IH _ _ _ _ I1 Hws' Es1) as [[rest Hr] Hok].
        inversion Hs. subst. unfold apply_writes in *. cbn [map concat]. fold (gseg (w_segnum w)).
        split.
        * exists rest. rewrite Hr. rewrite app_assoc. reflexivity.
        * intros Ht. rewrite (Hok Ht). reflexivity.
      + inversion Hs. subst. split; [eexists; reflexivity|discriminate].
  Qed.
End Soundness.
