(* C06, part 4: rounds of the encoder, the shape of a run, and the theorems of Props/C06.v. *)
From Coq Require Import List NArith ZArith Bool Lia.
From Verif Require Import Model.Matching Proofs.Matching
  Model.UploadSel Proofs.UploadSelBase Proofs.UploadSelSelector Proofs.UploadSelEncoder.
Import ListNotations.
Local Open Scope N_scope.

(* ---------------------------------------------------------------- the log *)
Lemma In_log_sends : forall l op x,
  In x (log_sends l op) -> exists s p o, In (s, p) l /\ op s = Some o /\ x = ((p, s), o).
Proof.
  intros l op x H. unfold log_sends in H. apply in_flat_map in H. destruct H as [[s p] [Hl H]]. cbn [fst snd] in H.
  destruct (op s) as [o|] eqn:Eo; [|destruct H]. destruct H as [<-|[]]. exists s, p, o. auto.
Qed.

Lemma log_sends_In : forall l op s p o, In (s, p) l -> op s = Some o -> In ((p, s), o) (log_sends l op).
Proof.
  intros l op s p o Hl Ho. unfold log_sends. apply in_flat_map. exists (s, p). split; [exact Hl|]. cbn [fst snd]. rewrite Ho. left; reflexivity.
Qed.

Lemma with_log_inv : forall happy E B e sends,
  (forall x, In x sends -> snd x <> OpAbort) -> enc_inv happy E B e -> enc_inv happy E B (with_log (e_log e ++ sends) e).
Proof.
  intros happy E B e sends Hs (I1 & I2 & I3 & I4 & I5 & I6 & I7 & I8). unfold enc_inv, with_log. cbn [e_landlords e_servermap e_log e_raised].
  split; [exact I1|]. split; [exact I2|]. split; [exact I3|]. split; [exact I4|]. split; [exact I5|].
  split; [|split].
  - intros p s H. destruct (I6 _ _ H) as [H'|H']; [left; exact H'|right; apply in_or_app; left; exact H'].
  - intros Hr s p H. apply in_or_app. left. apply I7; assumption.
  - intros Hr s p H Hab. apply in_app_or in Hab. destruct Hab as [Hab|Hab]; [exact (I8 Hr _ _ H Hab)|]. exact (Hs _ Hab eq_refl).
Qed.

Section Rounds2.
  Variable happy : Z.
  Variable E : dmap.
  Variable B : list bucket.

  (* what a write round guarantees *)
  Definition wround_facts (resps : list (N * wresp)) (e e' : enc) : Prop :=
    enc_inv happy E B e' /\
    (forall x, In x (e_landlords e') -> In x (e_landlords e)) /\
    (forall x, In x (e_log e) -> In x (e_log e')) /\
    (forall x, In x (e_log e') -> In x (e_log e) \/ snd x = OpAbort \/ snd x = OpWrite) /\
    (forall s p, In (s, p) (e_landlords e) -> lookup_w s resps = Some WErr -> ~ In s (map fst (e_landlords e'))) /\
    (forall s p, In (s, p) (e_landlords e) -> lookup_w s resps <> Some WErr -> In (s, p) (e_landlords e')).

  Lemma write_round_facts : forall resps e,
    enc_inv happy E B e ->
    match write_round happy resps e with
    | Continue e' => wround_facts resps e e' /\ e_raised e' = false
    | Stop e' => wround_facts resps e e' /\ e_raised e' = true
    | Hang => True
    end.
  Proof.
    intros resps e I. unfold write_round.
    set (sends := log_sends (e_landlords e) (fun _ => Some OpWrite)).
    assert (Hsends : forall x, In x sends -> snd x = OpWrite).
    { intros x H. apply In_log_sends in H. destruct H as (s & p & o & _ & Eo & ->). inversion Eo. reflexivity. }
    assert (I0 : enc_inv happy E B (with_log (e_log e ++ sends) e)).
    { apply with_log_inv; [|exact I]. intros x H. rewrite (Hsends _ H). discriminate. }
    destruct (write_answers happy resps (map fst (e_landlords e)) (with_log (e_log e ++ sends) e)) as [[e' pending]|] eqn:W; [|exact Logic.I].
    destruct (write_answers_facts happy E B _ _ _ _ _ W I0) as ((F1 & F2 & F3 & F4 & F5) & G1 & G2 & _).
    cbn [with_log e_landlords e_log e_raised] in *.
    assert (WF : wround_facts resps e e').
    { split; [exact F1|]. split; [exact F2|]. split; [intros x H; apply F3; apply in_or_app; left; exact H|]. split; [|split].
      - intros x H. destruct (F4 _ H) as [H'|H']; [|right; left; exact H']. apply in_app_or in H'.
        destruct H' as [H'|H']; [left; exact H'|right; right; apply Hsends; exact H'].
      - intros s p Hl L. apply G1; [|exact L]. apply in_map_iff. exists (s, p). auto.
      - intros s p Hl L. apply G2; [exact Hl|]. intros _. exact L. }
    destruct (negb (is_nil pending)); [exact Logic.I|]. destruct (e_raised e') eqn:R; auto.
  Qed.

  (* all write rounds *)
  Definition wrounds_facts (e e' : enc) : Prop :=
    enc_inv happy E B e' /\
    (forall x, In x (e_landlords e') -> In x (e_landlords e)) /\
    (forall x, In x (e_log e) -> In x (e_log e')) /\
    (forall x, In x (e_log e') -> In x (e_log e) \/ snd x = OpAbort \/ snd x = OpWrite).

  Lemma wround_to_wrounds : forall r a b c,
    wround_facts r a b -> wrounds_facts b c -> wrounds_facts a c.
  Proof.
    intros r a b c (A1 & A2 & A3 & A4 & _) (B1 & B2 & B3 & B4).
    split; [exact B1|]. split; [auto|]. split; [auto|]. intros x H. destruct (B4 _ H) as [H'|H']; [apply A4; exact H'|right; exact H'].
  Qed.

  Lemma wround_is_wrounds : forall r a b, wround_facts r a b -> wrounds_facts a b.
  Proof. intros r a b (A1 & A2 & A3 & A4 & _). split; [exact A1|]. split; [exact A2|]. split; [exact A3|exact A4]. Qed.

  Lemma write_rounds_facts : forall rounds e,
    enc_inv happy E B e -> e_raised e = false ->
    match write_rounds happy rounds e with
    | Continue e' =>
        wrounds_facts e e' /\ e_raised e' = false /\
        (forall s p, In (s, p) (e_landlords e) ->
           (In (s, p) (e_landlords e') <-> forall wr, In wr rounds -> lookup_w s wr <> Some WErr))
    | Stop e' => wrounds_facts e e' /\ e_raised e' = true
    | Hang => True
    end.
  Proof.
    induction rounds as [|r rest IH]; intros e I Re; cbn [write_rounds].
    - split; [|split; [exact Re|]].
      + split; [exact I|]. split; [auto|]. split; auto.
      + intros s p H. split; [intros _ wr []|intros _; exact H].
    - pose proof (write_round_facts r e I) as WR. destruct (write_round happy r e) as [e1|e1|]; [| |exact Logic.I].
      + destruct WR as [WF R1]. pose proof (IH e1 (proj1 WF) R1) as IH1.
        destruct (write_rounds happy rest e1) as [e2|e2|]; [| |exact Logic.I].
        * destruct IH1 as (WS & R2 & K). split; [eapply wround_to_wrounds; eassumption|]. split; [exact R2|].
          destruct WF as (W1 & W2 & W3 & W4 & W5 & W6). destruct WS as (_ & S2 & _).
          intros s p Hl. split.
          -- intros H2 wr [<-|Hwr].
             ++ intros L. apply (W5 _ _ Hl L). apply in_map_iff. exists (s, p). split; [reflexivity|]. apply S2. exact H2.
             ++ revert wr Hwr. apply (K s p); [apply S2; exact H2|exact H2].
          -- intros Hall. apply (K s p).
             ++ apply W6; [exact Hl|]. apply Hall. left; reflexivity.
             ++ intros wr Hwr. apply Hall. right; exact Hwr.
        * destruct IH1 as (WS & R2). split; [eapply wround_to_wrounds; eassumption|exact R2].
      + destruct WR as [WF R1]. split; [eapply wround_is_wrounds; exact WF|exact R1].
  Qed.

  (* the close round *)
  Definition cround_facts (resps : list (N * cresp)) (e e' : enc) : Prop :=
    enc_inv happy E B e' /\
    (forall x, In x (e_landlords e') -> In x (e_landlords e)) /\
    (forall x, In x (e_log e) -> In x (e_log e')) /\
    (forall x, In x (e_log e') ->
       In x (e_log e) \/ snd x = OpAbort \/
       exists s p o, In (s, p) (e_landlords e) /\ close_op resps s = Some o /\ x = ((p, s), o)) /\
    (forall s p o, In (s, p) (e_landlords e) -> close_op resps s = Some o -> In ((p, s), o) (e_log e')).

  Lemma close_op_not_abort : forall resps s o, close_op resps s = Some o -> o <> OpAbort.
  Proof.
    intros resps s o H. unfold close_op in H. destruct (lookup_c s resps) as [[| |x]|]; inversion H; discriminate.
  Qed.

  Lemma close_round_facts : forall resps e,
    enc_inv happy E B e ->
    match close_round happy resps e with
    | Continue e' =>
        cround_facts resps e e' /\ e_raised e' = false /\
        (forall s p, In (s, p) (e_landlords e) -> (In (s, p) (e_landlords e') <-> lookup_c s resps = Some COk))
    | Stop e' => cround_facts resps e e' /\ e_raised e' = true
    | Hang => True
    end.
  Proof.
    intros resps e I. unfold close_round.
    set (sends := log_sends (e_landlords e) (close_op resps)).
    assert (I0 : enc_inv happy E B (with_log (e_log e ++ sends) e)).
    { apply with_log_inv; [|exact I]. intros x H. apply In_log_sends in H. destruct H as (s & p & o & _ & Eo & ->).
      cbn [snd]. eapply close_op_not_abort; exact Eo. }
    destruct (close_answers happy resps (map fst (e_landlords e)) (with_log (e_log e ++ sends) e)) as [[e' pending]|] eqn:W; [|exact Logic.I].
    destruct (close_answers_facts happy E B _ _ _ _ _ W I0) as ((F1 & F2 & F3 & F4 & F5) & G1 & G2 & G3 & G4).
    cbn [with_log e_landlords e_log e_raised] in *.
    assert (CF : cround_facts resps e e').
    { split; [exact F1|]. split; [exact F2|]. split; [intros x H; apply F3; apply in_or_app; left; exact H|]. split.
      - intros x H. destruct (F4 _ H) as [H'|H']; [|right; left; exact H']. apply in_app_or in H'.
        destruct H' as [H'|H']; [left; exact H'|right; right]. apply In_log_sends in H'. exact H'.
      - intros s p o Hl Ho. apply F3. apply in_or_app. right. apply log_sends_In; assumption. }
    destruct (is_nil pending) eqn:NP; cbn [negb]; [|exact Logic.I].
    apply is_nil_true in NP. subst pending.
    destruct (e_raised e') eqn:R; [split; [exact CF|exact R]|].
    split; [exact CF|]. split; [exact R|]. intros s p Hl.
    assert (Hs : In s (map fst (e_landlords e))) by (apply in_map_iff; exists (s, p); auto).
    split.
    - intros H'. destruct (lookup_c s resps) as [r|] eqn:L.
      + destruct r; [reflexivity| |]; exfalso; (eapply G1; [exact Hs|exact L|discriminate|]); apply in_map_iff; exists (s, p); auto.
      + exfalso. exact (G4 _ Hs L).          (* every landlord has an answer: nothing is pending *)
    - intros L. apply G2; [exact Hl|]. intros _. left; exact L.
  Qed.
End Rounds2.

(* ---------------------------------------------------------------- the shape of a run *)
Definition enc0 (st : sel) : enc :=
  {| e_landlords := build_landlords st; e_servermap := merged st; e_log := []; e_raised := false |}.

Inductive run_shape (c : config) (x : script) : result -> Prop :=
| RS_pending : forall st qs, run_shape c x (mk_result VPending st qs [] [] [])
| RS_unhappy_sel : forall st1 st qs eff,
    phase1 c (x_existing x) (trackers c) (sel_init c) = (st1, []) ->
    sel_loop c (x_rounds x) None st1 [] = Some (st, qs) ->
    happiness st = Some eff -> (eff < c_happy c)%Z ->
    run_shape c x (mk_result VUnhappySel st qs (merged st) [] (sel_aborts st))
| RS_assert : forall st1 st qs eff,
    phase1 c (x_existing x) (trackers c) (sel_init c) = (st1, []) ->
    sel_loop c (x_rounds x) None st1 [] = Some (st, qs) ->
    happiness st = Some eff -> (c_happy c <= eff)%Z -> has_dup_share st = true ->
    run_shape c x (mk_result VAssert st qs (merged st) [] [])
| RS_unhappy_write : forall st1 st qs eff e,
    phase1 c (x_existing x) (trackers c) (sel_init c) = (st1, []) ->
    sel_loop c (x_rounds x) None st1 [] = Some (st, qs) ->
    happiness st = Some eff -> (c_happy c <= eff)%Z -> has_dup_share st = false ->
    write_rounds (c_happy c) (x_writes x) (enc0 st) = Stop e ->
    run_shape c x (mk_result VUnhappyEnc st qs (e_servermap e) [] (e_log e))
| RS_unhappy_close : forall st1 st qs eff e1 e,
    phase1 c (x_existing x) (trackers c) (sel_init c) = (st1, []) ->
    sel_loop c (x_rounds x) None st1 [] = Some (st, qs) ->
    happiness st = Some eff -> (c_happy c <= eff)%Z -> has_dup_share st = false ->
    write_rounds (c_happy c) (x_writes x) (enc0 st) = Continue e1 ->
    close_round (c_happy c) (x_close x) e1 = Stop e ->
    run_shape c x (mk_result VUnhappyEnc st qs (e_servermap e) [] (e_log e))
| RS_success : forall st1 st qs eff e1 e,
    phase1 c (x_existing x) (trackers c) (sel_init c) = (st1, []) ->
    sel_loop c (x_rounds x) None st1 [] = Some (st, qs) ->
    happiness st = Some eff -> (c_happy c <= eff)%Z -> has_dup_share st = false ->
    write_rounds (c_happy c) (x_writes x) (enc0 st) = Continue e1 ->
    close_round (c_happy c) (x_close x) e1 = Continue e ->
    run_shape c x (mk_result VSuccess st qs (e_servermap e) (e_landlords e) (e_log e)).

Lemma upload_run_shape : forall c x, run_shape c x (upload_run c x).
Proof.
  intros c x. unfold upload_run.
  destruct (phase1 c (x_existing x) (trackers c) (sel_init c)) as [st1 pending] eqn:P1.
  destruct (is_nil pending) eqn:NP; cbn [negb]; [|apply RS_pending].
  apply is_nil_true in NP. subst pending.
  destruct (sel_loop c (x_rounds x) None st1 []) as [[st qs]|] eqn:SL; [|apply RS_pending].
  destruct (happiness st) as [eff|] eqn:HP; [|apply RS_pending].
  destruct (Z.ltb eff (c_happy c)) eqn:L.
  - apply Z.ltb_lt in L. eapply RS_unhappy_sel; eassumption.
  - apply Z.ltb_ge in L. destruct (has_dup_share st) eqn:D; [eapply RS_assert; eassumption|].
    fold (enc0 st).
    destruct (write_rounds (c_happy c) (x_writes x) (enc0 st)) as [e1|e1|] eqn:WR; [| |apply RS_pending].
    + destruct (close_round (c_happy c) (x_close x) e1) as [e|e|] eqn:CR; [| |apply RS_pending].
      * eapply RS_success; eassumption.
      * eapply RS_unhappy_close; eassumption.
    + eapply RS_unhappy_write; eassumption.
Qed.

(* ---------------------------------------------------------------- the encoder's start state *)
Lemma In_build_landlords : forall st s p, In (s, p) (build_landlords st) <-> In (p, s) (sel_buckets st).
Proof.
  intros st s p. unfold build_landlords. rewrite in_map_iff. split.
  - intros [[q t] [Eq H]]. cbn in Eq. inversion Eq; subst. exact H.
  - intros H. exists (p, s). auto.
Qed.

Lemma enc0_inv : forall c st eff,
  happiness st = Some eff -> (c_happy c <= eff)%Z -> has_dup_share st = false ->
  enc_inv (c_happy c) (transpose (s_existing st)) (sel_buckets st) (enc0 st).
Proof.
  intros c st eff HP L D. unfold enc_inv, enc0. cbn [e_landlords e_servermap e_log e_raised].
  split; [|split; [apply merged_nodup|split; [|split; [|split; [|split; [|split; [discriminate|]]]]]]].
  - intros s p H. unfold merged in H. destruct (dm_in_merged_gen _ _ _ _ _ H) as [H'|H']; [right|left; exact H'].
    apply In_build_landlords. apply In_sel_buckets. exact H'.
  - intros s p H. apply In_build_landlords. exact H.
  - unfold build_landlords. rewrite map_map. cbn [fst]. apply nodupN_NoDup.
    unfold has_dup_share in D. destruct (nodupN (map snd (sel_buckets st))); [reflexivity|discriminate].
  - intros _. exists eff. split; [exact HP|exact L].
  - intros p s H. left. apply In_build_landlords. exact H.
  - intros _ s p _ [].
Qed.

(* ---------------------------------------------------------------- the server's bucket life cycle *)
Lemma bstep_not_open : forall s op, s <> BOpen -> bstep s op <> BOpen.
Proof. intros s op H. destruct s; [congruence| |]; destruct op as [|[|]|]; cbn; discriminate. Qed.

Lemma fold_bstep_not_open : forall ops s, s <> BOpen -> fold_left bstep ops s <> BOpen.
Proof. induction ops as [|op ops IH]; intros s H; cbn [fold_left]; [exact H|]. apply IH. apply bstep_not_open. exact H. Qed.

Lemma fold_bstep_abort : forall ops s, In OpAbort ops -> fold_left bstep ops s <> BOpen.
Proof.
  induction ops as [|op ops IH]; intros s H; [destruct H|]. cbn [fold_left]. destruct H as [->|H]; [|apply IH; exact H].
  apply fold_bstep_not_open. destruct s; cbn; discriminate.
Qed.

Lemma fold_bstep_closed_stays : forall ops, fold_left bstep ops BClosed = BClosed.
Proof. induction ops as [|op ops IH]; cbn [fold_left]; [reflexivity|]. destruct op as [|[|]|]; cbn [bstep]; exact IH. Qed.

Lemma fold_bstep_aborted_stays : forall ops, fold_left bstep ops BAborted = BAborted.
Proof. induction ops as [|op ops IH]; cbn [fold_left]; [reflexivity|]. destruct op as [|[|]|]; cbn [bstep]; exact IH. Qed.

Lemma fold_bstep_closed_inv : forall ops, fold_left bstep ops BOpen = BClosed -> In (OpClose true) ops.
Proof.
  induction ops as [|op ops IH]; cbn [fold_left]; [discriminate|].
  destruct op as [|[|]|]; cbn [bstep]; intros H.
  - right. apply IH. exact H.
  - left. reflexivity.
  - right. apply IH. exact H.
  - rewrite fold_bstep_aborted_stays in H. discriminate.
Qed.

Lemma fold_bstep_closed : forall ops, ~ In OpAbort ops -> In (OpClose true) ops -> fold_left bstep ops BOpen = BClosed.
Proof.
  induction ops as [|op ops IH]; intros Hn Hc; [destruct Hc|]. cbn [fold_left].
  destruct op as [|[|]|]; cbn [bstep].
  - apply IH; [intros H; apply Hn; right; exact H|]. destruct Hc as [Hc|Hc]; [discriminate|exact Hc].
  - apply fold_bstep_closed_stays.
  - apply IH; [intros H; apply Hn; right; exact H|]. destruct Hc as [Hc|Hc]; [discriminate|exact Hc].
  - exfalso. apply Hn. left; reflexivity.
Qed.

Lemma bucket_eqb_eq : forall a b, bucket_eqb a b = true <-> a = b.
Proof.
  intros [a1 a2] [b1 b2]. unfold bucket_eqb. cbn [fst snd]. rewrite andb_true_iff, !N.eqb_eq. split; [intros [-> ->]; reflexivity|intros H; inversion H; auto].
Qed.

Lemma In_ops_of : forall b l op, In op (ops_of b l) <-> In (b, op) l.
Proof.
  intros b l op. unfold ops_of. rewrite in_map_iff. split.
  - intros [[b' o] [Eo H]]. cbn in Eo. subst o. apply filter_In in H. destruct H as [H Eb]. cbn [fst] in Eb.
    apply bucket_eqb_eq in Eb. subst b'. exact H.
  - intros H. exists (b, op). split; [reflexivity|]. apply filter_In. split; [exact H|]. cbn [fst]. apply bucket_eqb_eq. reflexivity.
Qed.

Lemma aborted_not_open : forall l b, In (b, OpAbort) l -> final_state l b <> BOpen.
Proof. intros l b H. unfold final_state. apply fold_bstep_abort. apply In_ops_of. exact H. Qed.

Lemma closed_was_sent_close : forall l b, final_state l b = BClosed -> In (b, OpClose true) l.
Proof. intros l b H. apply In_ops_of. apply fold_bstep_closed_inv. exact H. Qed.

Lemma close_without_abort_closed : forall l b, ~ In (b, OpAbort) l -> In (b, OpClose true) l -> final_state l b = BClosed.
Proof.
  intros l b Hn Hc. unfold final_state. apply fold_bstep_closed; [intros H; apply Hn; apply In_ops_of; exact H|apply In_ops_of; exact Hc].
Qed.

(* ---------------------------------------------------------------- theorems *)
Definition write_failed (x : script) (s : N) : Prop :=
  exists wr, In wr (x_writes x) /\ lookup_w s wr = Some WErr.

Definition failed_unhappy (v : verdict) : Prop := v = VUnhappySel \/ v = VUnhappyEnc.

(* what holds of the encoder when the upload went through both phases *)
Lemma encoder_chain : forall c st eff e1,
  happiness st = Some eff -> (c_happy c <= eff)%Z -> has_dup_share st = false ->
  forall writes,
  write_rounds (c_happy c) writes (enc0 st) = Continue e1 ->
  wrounds_facts (c_happy c) (transpose (s_existing st)) (sel_buckets st) (enc0 st) e1 /\ e_raised e1 = false /\
  (forall s p, In (s, p) (e_landlords (enc0 st)) ->
     (In (s, p) (e_landlords e1) <-> forall wr, In wr writes -> lookup_w s wr <> Some WErr)).
Proof.
  intros c st eff e1 HP L D writes WR.
  pose proof (write_rounds_facts (c_happy c) _ _ writes (enc0 st) (enc0_inv c st eff HP L D) eq_refl) as H.
  rewrite WR in H. exact H.
Qed.

Theorem selector_verdict_is_happiness_test_full : forall c x,
  let r := upload_run c x in
  (r_verdict r = VUnhappySel -> exists eff, happiness (r_sel r) = Some eff /\ (eff < c_happy c)%Z) /\
  (r_verdict r = VSuccess \/ r_verdict r = VUnhappyEnc \/ r_verdict r = VAssert ->
     exists eff, happiness (r_sel r) = Some eff /\ (c_happy c <= eff)%Z).
Proof.
  intros c x r. subst r. destruct (upload_run_shape c x); cbn [mk_result r_verdict r_sel]; split; intros V;
    try discriminate; try (destruct V as [V|[V|V]]; discriminate); eauto.
Qed.

Theorem success_implies_happy_full : forall c x,
  r_verdict (upload_run c x) = VSuccess ->
  exists h, servers_of_happiness (r_servermap (upload_run c x)) = Some h /\ (c_happy c <= h)%Z.
Proof.
  intros c x V. destruct (upload_run_shape c x) as [| | | | |st1 st qs eff e1 e P1 SL HP L D WR CR]; cbn [mk_result r_verdict r_servermap] in *; try discriminate.
  destruct (encoder_chain c st eff e1 HP L D _ WR) as ((I1 & _) & R1 & _).
  pose proof (close_round_facts (c_happy c) _ _ (x_close x) e1 I1) as H. rewrite CR in H. destruct H as ((I & _) & R & _).
  destruct I as (_ & _ & _ & _ & I5 & _). exact (I5 R).
Qed.

Theorem servermap_edges_found_or_placed_full : forall c x s p,
  r_verdict (upload_run c x) = VSuccess ->
  dm_in (r_servermap (upload_run c x)) s p -> found x p s \/ In (s, p) (r_placed (upload_run c x)).
Proof.
  intros c x s p V. destruct (upload_run_shape c x) as [| | | | |st1 st qs eff e1 e P1 SL HP L D WR CR]; cbn [mk_result r_verdict r_servermap r_placed] in *; try discriminate.
  destruct (encoder_chain c st eff e1 HP L D _ WR) as ((I1 & _) & R1 & _).
  pose proof (close_round_facts (c_happy c) _ _ (x_close x) e1 I1) as H. rewrite CR in H. destruct H as ((I & _) & R & _).
  destruct I as (J1 & _). intros Hd. destruct (J1 _ _ Hd) as [H|H]; [left|right; exact H].
  destruct (selector_state_sound c x st1 [] st qs P1 SL) as [S1 _]. apply S1. apply dm_in_transpose. exact H.
Qed.

Theorem placed_shares_closed_full : forall c x s p,
  r_verdict (upload_run c x) = VSuccess ->
  (In (s, p) (r_placed (upload_run c x)) <->
   In (p, s) (sel_buckets (r_sel (upload_run c x))) /\ ~ write_failed x s /\ lookup_c s (x_close x) = Some COk).
Proof.
  intros c x s p V. destruct (upload_run_shape c x) as [| | | | |st1 st qs eff e1 e P1 SL HP L D WR CR]; cbn [mk_result r_verdict r_placed r_sel] in *; try discriminate.
  destruct (encoder_chain c st eff e1 HP L D _ WR) as ((I1 & S1 & _) & R1 & K1).
  pose proof (close_round_facts (c_happy c) _ _ (x_close x) e1 I1) as H. rewrite CR in H. destruct H as ((I & S2 & _) & R & K2).
  cbn [enc0 e_landlords] in K1. split.
  - intros H. pose proof (S2 _ H) as H1. pose proof (S1 _ H1) as H0. cbn [enc0 e_landlords] in H0.
    split; [apply In_build_landlords; exact H0|]. split.
    + intros [wr [Hwr Lw]]. apply (proj1 (K1 s p H0) H1 wr Hwr Lw).
    + apply (K2 s p H1). exact H.
  - intros (Hb & Hw & Hc). apply In_build_landlords in Hb.
    assert (H1 : In (s, p) (e_landlords e1)).
    { apply (K1 s p Hb). intros wr Hwr Lw. apply Hw. exists wr. auto. }
    apply (K2 s p H1). exact Hc.
Qed.

Theorem buckets_were_allocated_full : forall c x p s,
  r_verdict (upload_run c x) <> VPending ->
  In (p, s) (sel_buckets (r_sel (upload_run c x))) -> allocated x p s.
Proof.
  intros c x p s V Hb.
  destruct (upload_run_shape c x) as [|st1 st qs eff P1 SL|st1 st qs eff P1 SL|st1 st qs eff e P1 SL|st1 st qs eff e1 e P1 SL|st1 st qs eff e1 e P1 SL];
    cbn [mk_result r_verdict r_sel] in *; [congruence| | | | |];
    (destruct (selector_state_sound c x st1 [] st qs P1 SL) as [_ S2]; apply S2; apply In_sel_buckets in Hb; apply dm_get_in; tauto).
Qed.

Theorem placed_are_closed_on_server_full : forall c x s p,
  r_verdict (upload_run c x) = VSuccess -> In (s, p) (r_placed (upload_run c x)) ->
  final_state (r_log (upload_run c x)) (p, s) = BClosed.
Proof.
  intros c x s p V. destruct (upload_run_shape c x) as [| | | | |st1 st qs eff e1 e P1 SL HP L D WR CR]; cbn [mk_result r_verdict r_placed r_log] in *; try discriminate.
  destruct (encoder_chain c st eff e1 HP L D _ WR) as ((I1 & S1 & _) & R1 & K1).
  pose proof (close_round_facts (c_happy c) _ _ (x_close x) e1 I1) as H. rewrite CR in H. destruct H as ((I & S2 & _ & _ & C5) & R & K2).
  intros H. pose proof (S2 _ H) as H1. apply close_without_abort_closed.
  - destruct I as (_ & _ & _ & _ & _ & _ & _ & I8). exact (I8 R _ _ H).
  - apply (C5 s p (OpClose true) H1). unfold close_op. rewrite (proj1 (K2 s p H1) H). reflexivity.
Qed.

Theorem failure_aborts_all_full : forall c x b,
  failed_unhappy (r_verdict (upload_run c x)) ->
  In b (sel_buckets (r_sel (upload_run c x))) -> In (b, OpAbort) (r_log (upload_run c x)).
Proof.
  intros c x [p s] V Hb. unfold failed_unhappy in V.
  destruct (upload_run_shape c x) as [|st1 st qs eff P1 SL HP L|st1 st qs eff P1 SL|st1 st qs eff e P1 SL HP L D WR|st1 st qs eff e1 e P1 SL HP L D WR CR|];
    cbn [mk_result r_verdict r_sel r_log] in *; try (destruct V; discriminate).
  - unfold sel_aborts. apply in_map_iff. exists (p, s). auto.
  - pose proof (write_rounds_facts (c_happy c) _ _ (x_writes x) (enc0 st) (enc0_inv c st eff HP L D) eq_refl) as H.
    rewrite WR in H. destruct H as ((I & _) & R). destruct I as (_ & _ & _ & _ & _ & I6 & I7 & _).
    destruct (I6 _ _ Hb) as [H|H]; [exact (I7 R _ _ H)|exact H].
  - destruct (encoder_chain c st eff e1 HP L D _ WR) as ((I1 & _) & _).
    pose proof (close_round_facts (c_happy c) _ _ (x_close x) e1 I1) as H. rewrite CR in H. destruct H as ((I & _) & R).
    destruct I as (_ & _ & _ & _ & _ & I6 & I7 & _).
    destruct (I6 _ _ Hb) as [H|H]; [exact (I7 R _ _ H)|exact H].
Qed.

Theorem failure_leaves_no_open_bucket_full : forall c x b,
  failed_unhappy (r_verdict (upload_run c x)) ->
  In b (sel_buckets (r_sel (upload_run c x))) -> final_state (r_log (upload_run c x)) b <> BOpen.
Proof. intros c x b V Hb. apply aborted_not_open. apply failure_aborts_all_full; assumption. Qed.

(* a share a reader can see was closed after every write for it had been acknowledged *)
Theorem visible_share_complete_full : forall c x p s,
  final_state (r_log (upload_run c x)) (p, s) = BClosed ->
  In (p, s) (sel_buckets (r_sel (upload_run c x))) /\ ~ write_failed x s /\
  exists r, lookup_c s (x_close x) = Some r /\ r <> CFlushErr.
Proof.
  intros c x p s H. apply closed_was_sent_close in H.
  destruct (upload_run_shape c x) as [|st1 st qs eff P1 SL HP L|st1 st qs eff P1 SL|st1 st qs eff e P1 SL HP L D WR|st1 st qs eff e1 e P1 SL HP L D WR CR|st1 st qs eff e1 e P1 SL HP L D WR CR];
    cbn [mk_result r_verdict r_sel r_log] in *.
  - destruct H.
  - unfold sel_aborts in H. apply in_map_iff in H. destruct H as [b [Eb _]]. discriminate.
  - destruct H.
  - pose proof (write_rounds_facts (c_happy c) _ _ (x_writes x) (enc0 st) (enc0_inv c st eff HP L D) eq_refl) as F.
    rewrite WR in F. destruct F as ((_ & _ & _ & F4) & _). destruct (F4 _ H) as [[]|[F|F]]; discriminate.
  - destruct (encoder_chain c st eff e1 HP L D _ WR) as ((I1 & S1 & _ & F4) & R1 & K1).
    pose proof (close_round_facts (c_happy c) _ _ (x_close x) e1 I1) as F. rewrite CR in F. destruct F as ((_ & _ & _ & C4 & _) & _).
    destruct (C4 _ H) as [F|[F|(s' & p' & o & Hl & Ho & Ex)]]; [destruct (F4 _ F) as [[]|[G|G]]; discriminate|discriminate|].
    inversion Ex; subst. pose proof (S1 _ Hl) as H0. cbn [enc0 e_landlords] in H0, K1.
    split; [apply In_build_landlords; exact H0|]. split.
    + intros [wr [Hwr Lw]]. apply (proj1 (K1 _ _ H0) Hl wr Hwr Lw).
    + unfold close_op in Ho. destruct (lookup_c s' (x_close x)) as [r|]; [|discriminate]. exists r. split; [reflexivity|].
      intros ->. discriminate.
  - destruct (encoder_chain c st eff e1 HP L D _ WR) as ((I1 & S1 & _ & F4) & R1 & K1).
    pose proof (close_round_facts (c_happy c) _ _ (x_close x) e1 I1) as F. rewrite CR in F. destruct F as ((_ & _ & _ & C4 & _) & _).
    destruct (C4 _ H) as [F|[F|(s' & p' & o & Hl & Ho & Ex)]]; [destruct (F4 _ F) as [[]|[G|G]]; discriminate|discriminate|].
    inversion Ex; subst. pose proof (S1 _ Hl) as H0. cbn [enc0 e_landlords] in H0, K1.
    split; [apply In_build_landlords; exact H0|]. split.
    + intros [wr [Hwr Lw]]. apply (proj1 (K1 _ _ H0) Hl wr Hwr Lw).
    + unfold close_op in Ho. destruct (lookup_c s' (x_close x)) as [r|]; [|discriminate]. exists r. split; [reflexivity|].
      intros ->. discriminate.
Qed.
