(* C03: list facts, the fuel of _do_loop, and the two safety theorems that hold for
   every event sequence (no assumption on the environment):
     - blocks handed to process_blocks have >= k distinct share numbers,
     - NotEnoughShares/NoShares only after no_more_shares and with fewer than k
       distinct share numbers among blocks, active, overdue and unused shares. *)
From Coq Require Import List NArith Bool Arith Lia Permutation.
From Verif Require Import Model.Fetcher.
Import ListNotations.

(* ---- distinct ------------------------------------------------------------------ *)
Lemma distinct_incl a b : incl a b -> distinct a <= distinct b.
Proof.
  intros H. unfold distinct. apply NoDup_incl_length; [apply NoDup_nodup|].
  intros x Hx. apply nodup_In. apply H. eapply nodup_In; exact Hx.
Qed.

Lemma distinct_same a b : incl a b -> incl b a -> distinct a = distinct b.
Proof. intros H1 H2. apply Nat.le_antisymm; apply distinct_incl; assumption. Qed.

Lemma distinct_le_length l : distinct l <= length l.
Proof.
  unfold distinct. induction l as [|x r IH]; cbn [nodup length]; [lia|].
  destruct (in_dec N.eq_dec x r); cbn [length]; lia.
Qed.

Lemma distinct_nodup l : NoDup l -> distinct l = length l.
Proof. intros H. unfold distinct. now rewrite nodup_fixed_point. Qed.

(* ---- share lists ---------------------------------------------------------------- *)
Lemma sid_eqb_eq x y : sid_eqb x y = true <-> x = y.
Proof.
  unfold sid_eqb. rewrite !andb_true_iff, !N.eqb_eq. split.
  - intros [[[A B] C] D]. destruct x, y. cbn in *. congruence.
  - intros ->. auto.
Qed.

Lemma sid_eqb_refl x : sid_eqb x x = true.
Proof. now apply sid_eqb_eq. Qed.

Lemma sid_eqb_neq x y : sid_eqb x y = false <-> x <> y.
Proof.
  split.
  - intros H E. apply sid_eqb_eq in E. congruence.
  - intros H. destruct (sid_eqb x y) eqn:E; [apply sid_eqb_eq in E; contradiction|reflexivity].
Qed.

Lemma has_num_In n l : has_num n l = true <-> In n (nums l).
Proof.
  unfold has_num, nums. rewrite existsb_exists, in_map_iff. split.
  - intros (x & Hx & E). apply N.eqb_eq in E. eauto.
  - intros (x & E & Hx). exists x. split; [exact Hx|]. now apply N.eqb_eq.
Qed.

Lemma blk_has_In n bl : blk_has n bl = true <-> In n (bnums bl).
Proof.
  unfold blk_has, bnums. rewrite existsb_exists, in_map_iff. split.
  - intros (x & Hx & E). apply N.eqb_eq in E. eauto.
  - intros (x & E & Hx). exists x. split; [exact Hx|]. now apply N.eqb_eq.
Qed.

Lemma has_id_In x l : has_id x l = true <-> In x l.
Proof.
  unfold has_id. rewrite existsb_exists. split.
  - intros (y & Hy & E). apply sid_eqb_eq in E. now subst.
  - intros H. exists x. split; [exact H|apply sid_eqb_refl].
Qed.

Lemma has_id_false x l : has_id x l = false <-> ~ In x l.
Proof.
  split.
  - intros H Hin. apply has_id_In in Hin. congruence.
  - intros H. destruct (has_id x l) eqn:E; [apply has_id_In in E; contradiction|reflexivity].
Qed.

Lemma remove_first_incl x l : incl (remove_first x l) l.
Proof.
  induction l as [|y r IH]; cbn [remove_first]; [apply incl_refl|].
  destruct (sid_eqb y x); [apply incl_tl, incl_refl|].
  intros z [Hz|Hz]; [now left|right; now apply IH].
Qed.

Lemma remove_first_length x l : In x l -> S (length (remove_first x l)) = length l.
Proof.
  induction l as [|y r IH]; cbn [remove_first length In]; [tauto|].
  intros H. destruct (sid_eqb y x) eqn:E; [reflexivity|].
  destruct H as [H|H]; [subst; rewrite sid_eqb_refl in E; discriminate|].
  cbn [length]. now rewrite IH.
Qed.

(* everything but one copy of x stays *)
Lemma remove_first_keeps x l z : In z l -> z <> x -> In z (remove_first x l).
Proof.
  induction l as [|y r IH]; cbn [remove_first In]; [tauto|].
  intros [H|H] Hne.
  - subst y. destruct (sid_eqb z x) eqn:E; [apply sid_eqb_eq in E; contradiction|now left].
  - destruct (sid_eqb y x); [exact H|right; now apply IH].
Qed.

Lemma remove_first_perm x l : In x l -> Permutation l (x :: remove_first x l).
Proof.
  induction l as [|y r IH]; cbn [remove_first In]; [tauto|].
  intros H. destruct (sid_eqb y x) eqn:E.
  - apply sid_eqb_eq in E. subst. apply Permutation_refl.
  - destruct H as [H|H]; [subst; rewrite sid_eqb_refl in E; discriminate|].
    eapply perm_trans; [apply perm_skip, IH, H|apply perm_swap].
Qed.

Lemma remove_id_In x l z : In z (remove_id x l) <-> In z l /\ z <> x.
Proof.
  unfold remove_id. rewrite filter_In. split; intros [A B]; (split; [exact A|]).
  - intros E. subst. rewrite sid_eqb_refl in B. discriminate.
  - apply negb_true_iff. now apply sid_eqb_neq.
Qed.

Lemma filter_length_le {A} (f : A -> bool) (l : list A) : length (filter f l) <= length l.
Proof. induction l as [|y r IH]; cbn [filter length]; [lia|]. destruct (f y); cbn [length]; lia. Qed.

Lemma remove_id_length_le x l : length (remove_id x l) <= length l.
Proof. unfold remove_id. apply filter_length_le. Qed.

Lemma filter_length_lt {A} (f : A -> bool) (l : list A) x :
  In x l -> f x = false -> length (filter f l) < length l.
Proof.
  induction l as [|y r IH]; cbn [In filter length]; [tauto|].
  intros [H|H] Hf.
  - subst y. rewrite Hf. pose proof (filter_length_le f r). lia.
  - specialize (IH H Hf). destruct (f y); cbn [length]; lia.
Qed.

Lemma remove_id_length_lt x l : In x l -> length (remove_id x l) < length l.
Proof.
  intros H. unfold remove_id. apply filter_length_lt with (x := x); [exact H|].
  now rewrite sid_eqb_refl.
Qed.

Lemma remove_num_In n l z : In z (remove_num n l) <-> In z l /\ sh_num z <> n.
Proof.
  unfold remove_num. rewrite filter_In. split; intros [A B]; (split; [exact A|]).
  - intros E. rewrite E, N.eqb_refl in B. discriminate.
  - destruct (N.eqb_spec (sh_num z) n); [contradiction|reflexivity].
Qed.

Lemma set_add_In x l z : In z (set_add x l) <-> In z l \/ z = x.
Proof.
  unfold set_add. destruct (has_id x l) eqn:E.
  - apply has_id_In in E. split; [now left|intros [H|H]; [exact H|now subst]].
  - rewrite in_app_iff. cbn [In]. split; intros [H|H]; auto.
    destruct H as [H|[]]. now right.
Qed.

Lemma set_add_incl x l : incl l (set_add x l).
Proof. intros z Hz. apply set_add_In. now left. Qed.

Lemma set_add_length x l : length l <= length (set_add x l) <= S (length l).
Proof. unfold set_add. destruct (has_id x l); [lia|]. rewrite app_length. cbn [length]. lia. Qed.

(* ---- sorting ------------------------------------------------------------------- *)
Lemma insert_share_perm x l : Permutation (insert_share x l) (x :: l).
Proof.
  induction l as [|y r IH]; cbn [insert_share]; [apply Permutation_refl|].
  destruct (key_le x y); [apply Permutation_refl|].
  eapply perm_trans; [apply perm_skip, IH|apply perm_swap].
Qed.

Lemma sort_shares_perm l : Permutation (sort_shares l) l.
Proof.
  unfold sort_shares. induction l as [|x r IH]; cbn [fold_right]; [apply Permutation_refl|].
  eapply perm_trans; [apply insert_share_perm|now apply perm_skip].
Qed.

Lemma sort_shares_In l z : In z (sort_shares l) <-> In z l.
Proof. split; apply Permutation_in; [apply sort_shares_perm|apply Permutation_sym, sort_shares_perm]. Qed.

Lemma sort_shares_length l : length (sort_shares l) = length l.
Proof. apply Permutation_length, sort_shares_perm. Qed.

(* ---- blocks -------------------------------------------------------------------- *)
Lemma blk_set_bnums n id bl :
  bnums (blk_set n id bl) = if blk_has n bl then bnums bl else bnums bl ++ [n].
Proof.
  unfold bnums, blk_has. induction bl as [|p r IH]; cbn [blk_set map existsb]; [reflexivity|].
  destruct (N.eqb_spec (fst p) n) as [e|ne]; cbn [orb map fst].
  - now rewrite e.
  - rewrite IH. destruct (existsb _ r); reflexivity.
Qed.

Lemma NoDup_snoc {A} (l : list A) x : NoDup l -> ~ In x l -> NoDup (l ++ [x]).
Proof.
  intros H Hn. apply NoDup_rev in H. rewrite <- (rev_involutive (l ++ [x])). apply NoDup_rev.
  rewrite rev_app_distr. cbn [rev app]. constructor; [|exact H]. now rewrite <- in_rev.
Qed.

Lemma blk_set_nodup n id bl : NoDup (bnums bl) -> NoDup (bnums (blk_set n id bl)).
Proof.
  intros H. rewrite blk_set_bnums. destruct (blk_has n bl) eqn:E; [exact H|].
  apply NoDup_snoc; [exact H|].
  intros Hin. apply blk_has_In in Hin. congruence.
Qed.

Lemma blk_set_In n id bl p : In p (blk_set n id bl) -> p = (n, id) \/ In p bl.
Proof.
  induction bl as [|q r IH]; cbn [blk_set In].
  - intros [H|[]]; now left.
  - destruct (N.eqb (fst q) n); cbn [In].
    + intros [H|H]; [now left|right; now right].
    + intros [H|H]; [right; now left|]. destruct (IH H); [now left|right; now right].
Qed.

Lemma blk_set_incl n id bl : incl (bnums bl) (bnums (blk_set n id bl)).
Proof.
  rewrite blk_set_bnums. destruct (blk_has n bl); [apply incl_refl|apply incl_appl, incl_refl].
Qed.

Lemma blk_set_has n id bl : In n (bnums (blk_set n id bl)).
Proof.
  rewrite blk_set_bnums. destruct (blk_has n bl) eqn:E; [now apply blk_has_In|].
  apply in_or_app. right. now left.
Qed.

(* ---- find_share ------------------------------------------------------------------ *)
Lemma find_share_some bl act fs m l sh d :
  find_share bl act fs m l = (Some sh, d) ->
  In sh l /\ blk_has (sh_num sh) bl = false /\ has_num (sh_num sh) act = false /\
  count_srv (sh_srv sh) fs < m.
Proof.
  revert d. induction l as [|x r IH]; cbn [find_share]; intros d H; [discriminate|].
  destruct (blk_has (sh_num x) bl) eqn:B.
  { destruct (IH _ H) as (A & C). split; [now right|exact C]. }
  destruct (has_num (sh_num x) act) eqn:A.
  { destruct (IH _ H) as (A' & C). split; [now right|exact C]. }
  destruct (m <=? count_srv (sh_srv x) fs) eqn:M.
  - destruct (find_share bl act fs m r) as [o d'] eqn:R. cbn [fst] in H. inversion H; subst.
    destruct (IH _ eq_refl) as (A' & C). split; [now right|exact C].
  - inversion H; subst. apply Nat.leb_gt in M. repeat split; auto. now left.
Qed.

(* nothing found and no diversity wish: every unused share number is fetched or active *)
Lemma find_share_none bl act fs m l :
  find_share bl act fs m l = (None, false) ->
  forall x, In x l -> In (sh_num x) (bnums bl ++ nums act).
Proof.
  induction l as [|y r IH]; cbn [find_share]; intros H x Hx; [destruct Hx|].
  destruct (blk_has (sh_num y) bl) eqn:B.
  { destruct Hx as [Hx|Hx]; [subst; apply in_or_app; left; now apply blk_has_In|now apply IH]. }
  destruct (has_num (sh_num y) act) eqn:A.
  { destruct Hx as [Hx|Hx]; [subst; apply in_or_app; right; now apply has_num_In|now apply IH]. }
  destruct (m <=? count_srv (sh_srv y) fs); discriminate.
Qed.

(* the diversity wish needs a server that is at its limit *)
Lemma find_share_diversity bl act fs m l o :
  find_share bl act fs m l = (o, true) -> exists x, In x l /\ m <= count_srv (sh_srv x) fs.
Proof.
  revert o. induction l as [|y r IH]; cbn [find_share]; intros o H; [discriminate|].
  destruct (blk_has (sh_num y) bl).
  { destruct (IH _ H) as (x & Hx & L). exists x. split; [now right|exact L]. }
  destruct (has_num (sh_num y) act).
  { destruct (IH _ H) as (x & Hx & L). exists x. split; [now right|exact L]. }
  destruct (m <=? count_srv (sh_srv y) fs) eqn:M.
  - exists y. split; [now left|now apply Nat.leb_le].
  - discriminate.
Qed.

Lemma count_srv_le srv l : count_srv srv l <= length l.
Proof. unfold count_srv. apply filter_length_le. Qed.

(* ---- the fuel of _do_loop suffices --------------------------------------------- *)
Definition loop_measure (s : fstate) : nat :=
  length (f_shares s) + (length (f_shares s) + length (f_from_server s) + 1 - f_max_per_server s).

Lemma do_while_fuel : forall fuel s outs, loop_measure s < fuel -> do_while fuel s outs <> None.
Proof.
  induction fuel as [|f IH]; intros s outs Hm; [lia|].
  cbn [do_while]. destruct (have_or_active s <? f_k s).
  - destruct (find_share _ _ _ _ _) as [[sh|] d] eqn:F.
    + apply IH. apply find_share_some in F. destruct F as (Hin & _).
      unfold loop_measure in *. cbn [use_share f_shares f_from_server f_max_per_server].
      pose proof (remove_first_length sh (f_shares s) Hin).
      pose proof (set_add_length sh (f_from_server s)). lia.
    + destruct d.
      * apply IH. apply find_share_diversity in F. destruct F as (x & Hx & L).
        pose proof (count_srv_le (sh_srv x) (f_from_server s)).
        unfold loop_measure in *. cbn [bump_max f_shares f_from_server f_max_per_server]. lia.
      * destruct (f_no_more s); [destruct (have_active_overdue s <? f_k s)|]; discriminate.
  - destruct (f_k s <=? distinct (bnums (f_blocks s))); discriminate.
Qed.

Lemma loop_fuel_enough s : f_max_per_server s >= 1 -> loop_measure s < loop_fuel s.
Proof. unfold loop_measure, loop_fuel. lia. Qed.

(* ---- generic loop reasoning ----------------------------------------------------- *)
(* P is kept by the three moves of the loop; then it holds of the state the loop ends in *)
Lemma do_while_preserves (P : fstate -> Prop) :
  (forall s sh d, P s ->
     find_share (f_blocks s) (f_active s) (f_from_server s) (f_max_per_server s) (f_shares s) = (Some sh, d) ->
     P (use_share s sh)) ->
  (forall s, P s -> P (bump_max s)) ->
  (forall s, P s -> P (stop s)) ->
  forall fuel s outs s' outs', P s -> do_while fuel s outs = Some (s', outs') -> P s'.
Proof.
  intros Huse Hbump Hstop. induction fuel as [|f IH]; intros s outs s' outs' Hp H; [discriminate|].
  cbn [do_while] in H. destruct (have_or_active s <? f_k s).
  - destruct (find_share _ _ _ _ _) as [[sh|] d] eqn:F.
    + eapply IH; [|exact H]. eapply Huse; eauto.
    + destruct d; [eapply IH; [|exact H]; now apply Hbump|].
      destruct (f_no_more s); [destruct (have_active_overdue s <? f_k s)|]; inversion H; subst; auto.
  - destruct (f_k s <=? distinct (bnums (f_blocks s))); inversion H; subst; auto.
Qed.

(* outputs only grow, by OStart / OWantMore and at most one final call *)
Lemma do_while_outs : forall fuel s outs s' outs',
  do_while fuel s outs = Some (s', outs') -> exists o, outs' = outs ++ o.
Proof.
  induction fuel as [|f IH]; intros s outs s' outs' H; [discriminate|].
  cbn [do_while] in H. destruct (have_or_active s <? f_k s).
  - destruct (find_share _ _ _ _ _) as [[sh|] d].
    + destruct (IH _ _ _ _ H) as (o & E). exists ([OStart sh] ++ o). now rewrite app_assoc.
    + destruct d.
      * destruct (IH _ _ _ _ H) as (o & E). exists (ask s ++ o). now rewrite app_assoc.
      * destruct (f_no_more s); [destruct (have_active_overdue s <? f_k s)|]; inversion H; subst;
          eexists; try reflexivity. now rewrite app_nil_r.
  - destruct (f_k s <=? distinct (bnums (f_blocks s))); inversion H; subst; eexists; try reflexivity.
    now rewrite app_nil_r.
Qed.

(* ---- theorem 1: process_blocks gets k distinct share numbers -------------------- *)
Lemma do_while_process : forall fuel s outs s' outs' bl,
  NoDup (bnums (f_blocks s)) ->
  (forall b, In (OProcessBlocks b) outs -> NoDup (bnums b) /\ f_k s <= length b) ->
  do_while fuel s outs = Some (s', outs') -> In (OProcessBlocks bl) outs' ->
  NoDup (bnums bl) /\ f_k s <= length bl.
Proof.
  induction fuel as [|f IH]; intros s outs s' outs' bl Hnd Hold H Hin; [discriminate|].
  cbn [do_while] in H. destruct (have_or_active s <? f_k s).
  - destruct (find_share _ _ _ _ _) as [[sh|] d].
    + eapply (IH (use_share s sh)); [exact Hnd| |exact H|exact Hin].
      intros b Hb. apply in_app_or in Hb. destruct Hb as [Hb|[Hb|[]]]; [now apply Hold|discriminate].
    + destruct d.
      * eapply (IH (bump_max s)); [exact Hnd| |exact H|exact Hin].
        intros b Hb. apply in_app_or in Hb. destruct Hb as [Hb|Hb]; [now apply Hold|].
        unfold ask in Hb. destruct (f_no_more s); [destruct Hb|destruct Hb as [Hb|[]]; discriminate].
      * destruct (f_no_more s); [destruct (have_active_overdue s <? f_k s)|]; inversion H; subst;
          try (now apply Hold);
          apply in_app_or in Hin; destruct Hin as [Hin|[Hin|[]]]; try (now apply Hold); discriminate.
  - destruct (f_k s <=? distinct (bnums (f_blocks s))) eqn:K; inversion H; subst; [|now apply Hold].
    apply in_app_or in Hin. destruct Hin as [Hin|[Hin|[]]]; [now apply Hold|].
    inversion Hin; subst. split; [exact Hnd|].
    apply Nat.leb_le in K. rewrite distinct_nodup in K by exact Hnd. unfold bnums in K. now rewrite map_length in K.
Qed.

Lemma fstep_k s e : f_k (fst (fstep s e)) = f_k s.
Proof.
  destruct e as [l| |sh st|ns]; cbn [fstep].
  - destruct (f_running s); reflexivity.
  - reflexivity.
  - destruct (activity_raises s sh st); [reflexivity|]. unfold activity.
    destruct (negb (f_running s)); [reflexivity|]. destruct st; reflexivity.
  - destruct (f_loops s) as [|n]; [reflexivity|]. unfold do_loop.
    destruct (negb (f_running (set_loops s n))); [reflexivity|].
    destruct (match ns with Some n0 => N.leb n0 (f_segnum (set_loops s n)) | None => false end); [reflexivity|].
    destruct (do_while _ _ _) as [[s' o]|] eqn:D; [|reflexivity]. cbn [fst].
    change (f_k s) with (f_k (set_loops s n)).
    eapply (do_while_preserves (fun x => f_k x = f_k (set_loops s n))); [| | | |exact D]; auto.
Qed.

Lemma fstep_blocks_nodup s e : NoDup (bnums (f_blocks s)) -> NoDup (bnums (f_blocks (fst (fstep s e)))).
Proof.
  intros H. destruct e as [l| |sh st|ns]; cbn [fstep].
  - destruct (f_running s); exact H.
  - exact H.
  - destruct (activity_raises s sh st); [exact H|]. unfold activity.
    destruct (negb (f_running s)); [exact H|]. destruct st; cbn [is_terminal f_blocks set_loops]; try exact H.
    now apply blk_set_nodup.
  - destruct (f_loops s) as [|n]; [exact H|]. unfold do_loop.
    destruct (negb (f_running (set_loops s n))); [exact H|].
    destruct (match ns with Some n0 => N.leb n0 (f_segnum (set_loops s n)) | None => false end); [exact H|].
    destruct (do_while _ _ _) as [[s' o]|] eqn:D; [|exact H]. cbn [fst].
    eapply (do_while_preserves (fun x => NoDup (bnums (f_blocks x)))); [| | | |exact D]; auto.
Qed.

Lemma fstep_process s e bl :
  NoDup (bnums (f_blocks s)) -> In (OProcessBlocks bl) (snd (fstep s e)) ->
  NoDup (bnums bl) /\ f_k s <= length bl.
Proof.
  intros Hnd Hin. destruct e as [l| |sh st|ns]; cbn [fstep] in Hin.
  - destruct (f_running s); destruct Hin.
  - destruct Hin.
  - destruct (activity_raises s sh st); destruct Hin.
  - destruct (f_loops s) as [|n]; [destruct Hin|]. unfold do_loop in Hin.
    destruct (negb (f_running (set_loops s n))); [destruct Hin|].
    destruct (match ns with Some n0 => N.leb n0 (f_segnum (set_loops s n)) | None => false end).
    { destruct Hin as [Hin|[]]; discriminate. }
    destruct (do_while _ _ _) as [[s' o]|] eqn:D; [|destruct Hin]. cbn [snd] in Hin.
    change (f_k s) with (f_k (set_loops s n)).
    eapply do_while_process; [| |exact D|exact Hin]; [exact Hnd|intros b []].
Qed.

Lemma frun_k : forall evs s, f_k (fst (frun s evs)) = f_k s.
Proof.
  induction evs as [|e r IH]; intros s; cbn [frun]; [reflexivity|].
  pose proof (fstep_k s e) as K. destruct (fstep s e) as [s1 o1]. cbn [fst] in K.
  specialize (IH s1). destruct (frun s1 r). cbn [fst] in *. congruence.
Qed.

Lemma process_blocks_k_distinct : forall evs s bl,
  NoDup (bnums (f_blocks s)) -> In (OProcessBlocks bl) (snd (frun s evs)) ->
  NoDup (bnums bl) /\ f_k s <= length bl.
Proof.
  induction evs as [|e r IH]; intros s bl Hnd Hin; cbn [frun] in Hin; [destruct Hin|].
  pose proof (fstep_process s e bl Hnd) as P. pose proof (fstep_blocks_nodup s e Hnd) as N1.
  pose proof (fstep_k s e) as K.
  destruct (fstep s e) as [s1 o1]. cbn [fst snd] in *.
  specialize (IH s1 bl N1). destruct (frun s1 r) as [s2 o2]. cbn [snd] in *.
  apply in_app_or in Hin. destruct Hin as [Hin|Hin]; [now apply P|].
  rewrite <- K. now apply IH.
Qed.

(* ---- theorem 2: the error means fewer than k share numbers are left ------------- *)
Definition all_nums (s : fstate) : list N :=
  bnums (f_blocks s) ++ nums (f_active s) ++ nums (f_overdue s) ++ nums (f_shares s).

Lemma nums_app a b : nums (a ++ b) = nums a ++ nums b.
Proof. unfold nums. apply map_app. Qed.

Lemma nums_perm a b : Permutation a b -> Permutation (nums a) (nums b).
Proof. unfold nums. apply Permutation_map. Qed.

Lemma use_share_all_nums s sh :
  In sh (f_shares s) -> forall n, In n (all_nums (use_share s sh)) <-> In n (all_nums s).
Proof.
  intros Hin n. unfold all_nums. cbn [use_share f_blocks f_active f_overdue f_shares].
  pose proof (nums_perm _ _ (remove_first_perm sh (f_shares s) Hin)) as P. cbn [nums map] in P.
  rewrite nums_app. rewrite !in_app_iff. cbn [nums map In].
  assert (In n (nums (f_shares s)) <-> sh_num sh = n \/ In n (map sh_num (remove_first sh (f_shares s)))) as X.
  { split; intros H.
    - apply (Permutation_in _ P) in H. exact H.
    - apply (Permutation_in _ (Permutation_sym P)). exact H. }
  unfold nums in *. rewrite X. tauto.
Qed.

Lemma same_elems_nil (a b : list N) : (forall n, In n a <-> In n b) -> a = [] <-> b = [].
Proof.
  intros H. split; intros E; subst.
  - destruct b as [|n r]; [reflexivity|]. exfalso. apply (H n). now left.
  - destruct a as [|n r]; [reflexivity|]. exfalso. apply (H n). now left.
Qed.

Lemma do_while_error : forall fuel s outs s' outs' e,
  do_while fuel s outs = Some (s', outs') ->
  (forall x, ~ In (OFetchFailed x) outs) -> In (OFetchFailed e) outs' ->
  f_no_more s = true /\ distinct (all_nums s) < f_k s /\
  (e = NoSharesError /\ all_nums s = [] \/ e = NotEnoughSharesError /\ all_nums s <> []).
Proof.
  induction fuel as [|f IH]; intros s outs s' outs' e H Hold Hin; [discriminate|].
  cbn [do_while] in H. destruct (have_or_active s <? f_k s) eqn:HA.
  - destruct (find_share _ _ _ _ _) as [[sh|] d] eqn:F.
    + apply find_share_some in F. destruct F as (Hsh & _).
      destruct (IH _ _ _ _ e H) as (A & B & C); [| exact Hin |].
      { intros x Hx. apply in_app_or in Hx. destruct Hx as [Hx|[Hx|[]]]; [now apply (Hold x)|discriminate]. }
      pose proof (use_share_all_nums s sh Hsh) as U.
      split; [exact A|]. split.
      * rewrite (distinct_same (all_nums s) (all_nums (use_share s sh))); [exact B| |]; intros n Hn; now apply U.
      * destruct C as [[C1 C2]|[C1 C2]]; [left|right]; (split; [exact C1|]).
        -- apply (same_elems_nil _ _ U). exact C2.
        -- intros E. apply C2. apply (same_elems_nil _ _ U). exact E.
    + destruct d.
      * destruct (IH _ _ _ _ e H) as (A & B & C); [| exact Hin |].
        { intros x Hx. apply in_app_or in Hx. destruct Hx as [Hx|Hx]; [now apply (Hold x)|].
          unfold ask in Hx. destruct (f_no_more s); [destruct Hx|destruct Hx as [Hx|[]]; discriminate]. }
        auto.
      * destruct (f_no_more s) eqn:NM.
        -- destruct (have_active_overdue s <? f_k s) eqn:HO; inversion H; subst.
           ++ apply in_app_or in Hin. destruct Hin as [Hin|[Hin|[]]]; [exfalso; now apply (Hold e)|].
              inversion Hin; subst. apply Nat.ltb_lt in HO. split; [reflexivity|].
              pose proof (find_share_none _ _ _ _ _ F) as FN.
              assert (incl (all_nums s) (bnums (f_blocks s) ++ nums (f_active s) ++ nums (f_overdue s))) as I.
              { intros n Hn. unfold all_nums in Hn. rewrite !in_app_iff in *.
                destruct Hn as [Hn|[Hn|[Hn|Hn]]]; auto.
                unfold nums in Hn. apply in_map_iff in Hn. destruct Hn as (x & E & Hx). subst n.
                specialize (FN x Hx). apply in_app_or in FN. tauto. }
              split.
              ** eapply Nat.le_lt_trans; [apply distinct_incl, I|exact HO].
              ** unfold shares_error, all_nums.
                 destruct (f_shares s), (f_active s), (f_overdue s), (f_blocks s); cbn;
                   try (left; split; reflexivity); right; (split; [reflexivity|discriminate]).
           ++ exfalso. now apply (Hold e).
        -- inversion H; subst. apply in_app_or in Hin. destruct Hin as [Hin|[Hin|[]]]; [exfalso; now apply (Hold e)|discriminate].
  - destruct (f_k s <=? distinct (bnums (f_blocks s))); inversion H; subst.
    + apply in_app_or in Hin. destruct Hin as [Hin|[Hin|[]]]; [exfalso; now apply (Hold e)|discriminate].
    + exfalso. now apply (Hold e).
Qed.

Lemma fstep_error s ev e :
  In (OFetchFailed e) (snd (fstep s ev)) -> e <> BadSegmentNumberError ->
  f_no_more s = true /\ distinct (all_nums s) < f_k s /\
  (e = NoSharesError /\ all_nums s = [] \/ e = NotEnoughSharesError /\ all_nums s <> []).
Proof.
  intros Hin Hne. destruct ev as [l| |sh st|ns]; cbn [fstep] in Hin.
  - destruct (f_running s); destruct Hin.
  - destruct Hin.
  - destruct (activity_raises s sh st); destruct Hin.
  - destruct (f_loops s) as [|n]; [destruct Hin|]. unfold do_loop in Hin.
    destruct (negb (f_running (set_loops s n))); [destruct Hin|].
    destruct (match ns with Some n0 => N.leb n0 (f_segnum (set_loops s n)) | None => false end).
    { destruct Hin as [Hin|[]]. inversion Hin; subst. contradiction. }
    destruct (do_while _ _ _) as [[s' o]|] eqn:D; [|destruct Hin]. cbn [snd] in Hin.
    eapply (do_while_error _ (set_loops s n)) in D; [exact D|intros x []|exact Hin].
Qed.

(* a stopped fetcher is silent *)
Lemma fstep_stopped s e : f_running s = false -> snd (fstep s e) = [] /\ f_running (fst (fstep s e)) = false.
Proof.
  intros R. destruct e as [l| |sh st|ns]; cbn [fstep].
  - rewrite R. auto.
  - auto.
  - unfold activity_raises, activity. rewrite R. cbn. auto.
  - destruct (f_loops s) as [|n]; [auto|]. unfold do_loop. cbn [set_loops f_running]. rewrite R. cbn. auto.
Qed.
