(* Specification of "maximum matching between servers and the shares they hold" and
   the Koenig (easy direction) certificate theorem: a matching together with a vertex
   cover of the same size proves that the matching is maximum.  Fully general:
   any graph (association list), any claimed matching, any claimed cover. *)
From Coq Require Import List NArith ZArith Bool Arith Lia Permutation.
From Verif Require Import Model.Matching.
Import ListNotations.

(* ---------- specification --------------------------------------------------- *)

Definition edge (svm : servermap) (p s : N) : Prop :=
  exists l, In (p, l) svm /\ In s l.

Definition is_matching (svm : servermap) (M : list (N * N)) : Prop :=
  (forall p s, In (p, s) M -> edge svm p s) /\ NoDup (map fst M) /\ NoDup (map snd M).

Definition max_matching_size (svm : servermap) (n : nat) : Prop :=
  (exists M, is_matching svm M /\ length M = n) /\
  (forall M', is_matching svm M' -> length M' <= n).

Definition same_edges (a b : servermap) : Prop := forall p s, edge a p s <-> edge b p s.

(* ---------- boolean reflection ---------------------------------------------- *)

Lemma memN_In : forall x l, memN x l = true <-> In x l.
Proof.
  intros x l. unfold memN. rewrite existsb_exists. split.
  - intros [y [Hy E]]. apply N.eqb_eq in E. subst. exact Hy.
  - intros H. exists x. split; [exact H | apply N.eqb_refl].
Qed.

Lemma nodupN_NoDup : forall l, nodupN l = true -> NoDup l.
Proof.
  induction l as [|x r IH]; cbn [nodupN]; intros H.
  - constructor.
  - apply andb_true_iff in H. destruct H as [H1 H2]. constructor.
    + intro Hin. apply memN_In in Hin. rewrite Hin in H1. discriminate.
    + apply IH. exact H2.
Qed.

Lemma NoDup_nodupN : forall l, NoDup l -> nodupN l = true.
Proof.
  induction 1 as [|x r Hn _ IH]; cbn [nodupN]; [reflexivity|].
  apply andb_true_iff. split; [|exact IH].
  destruct (memN x r) eqn:E; [|reflexivity]. apply memN_In in E. contradiction.
Qed.

Lemma has_edge_edge : forall svm p s, has_edge svm p s = true <-> edge svm p s.
Proof.
  intros svm p s. unfold has_edge, edge. rewrite existsb_exists. split.
  - intros [[q l] [Hin H]]. cbn [fst snd] in H. apply andb_true_iff in H. destruct H as [H1 H2].
    apply N.eqb_eq in H1. subst q. apply memN_In in H2. exists l. split; assumption.
  - intros [l [Hin Hs]]. exists (p, l). split; [exact Hin|]. cbn [fst snd].
    apply andb_true_iff. split; [apply N.eqb_refl | apply memN_In; exact Hs].
Qed.

Lemma valid_matching_sound : forall svm M, valid_matching svm M = true -> is_matching svm M.
Proof.
  intros svm M H. unfold valid_matching in H.
  apply andb_true_iff in H. destruct H as [H H3].
  apply andb_true_iff in H. destruct H as [H1 H2].
  split; [|split].
  - intros p s Hin. rewrite forallb_forall in H1. specialize (H1 _ Hin). cbn [fst snd] in H1.
    apply has_edge_edge. exact H1.
  - apply nodupN_NoDup. exact H2.
  - apply nodupN_NoDup. exact H3.
Qed.

Lemma valid_matching_complete : forall svm M, is_matching svm M -> valid_matching svm M = true.
Proof.
  intros svm M [H1 [H2 H3]]. unfold valid_matching.
  rewrite (NoDup_nodupN _ H2), (NoDup_nodupN _ H3), !andb_true_r.
  apply forallb_forall. intros [p s] Hin. cbn [fst snd]. apply has_edge_edge. apply H1. exact Hin.
Qed.

Lemma covers_sound : forall svm CL CR, covers svm CL CR = true ->
  forall p s, edge svm p s -> In p CL \/ In s CR.
Proof.
  intros svm CL CR H p s [l [Hin Hs]]. unfold covers in H. rewrite forallb_forall in H.
  specialize (H _ Hin). cbn [fst snd] in H. apply orb_true_iff in H. destruct H as [H|H].
  - left. apply memN_In. exact H.
  - right. rewrite forallb_forall in H. apply memN_In. apply H. exact Hs.
Qed.

(* ---------- any matching is no larger than any cover ------------------------- *)

Lemma NoDup_map_filter : forall (A B : Type) (f : A -> B) (g : A -> bool) (l : list A),
  NoDup (map f l) -> NoDup (map f (filter g l)).
Proof.
  intros A B f g. induction l as [|a r IH]; cbn [map filter]; intros H.
  - constructor.
  - inversion H as [|x y Hn Hr]; subst. destruct (g a); cbn [map].
    + constructor; [|apply IH; exact Hr].
      intro Hin. apply Hn. apply in_map_iff in Hin. destruct Hin as [z [Ez Hz]].
      apply filter_In in Hz. apply in_map_iff. exists z. split; [exact Ez | apply Hz].
    + apply IH. exact Hr.
Qed.

Lemma filter_split_length : forall (A : Type) (g : A -> bool) (l : list A),
  length l = length (filter g l) + length (filter (fun x => negb (g x)) l).
Proof.
  intros A g. induction l as [|a r IH]; cbn [filter length]; [reflexivity|].
  destruct (g a); cbn [negb length]; lia.
Qed.

Lemma matching_le_cover : forall (M : list (N * N)) (CL CR : list N),
  NoDup (map fst M) -> NoDup (map snd M) ->
  (forall p s, In (p, s) M -> In p CL \/ In s CR) ->
  length M <= length CL + length CR.
Proof.
  intros M CL CR Hf Hs Hc.
  set (g := fun e : N * N => memN (fst e) CL).
  rewrite (filter_split_length _ g M).
  assert (HA : length (filter g M) <= length CL).
  { rewrite <- (map_length fst). apply NoDup_incl_length.
    - apply NoDup_map_filter. exact Hf.
    - intros p Hp. apply in_map_iff in Hp. destruct Hp as [[p' s] [E Hin]]. cbn [fst] in E. subst p'.
      apply filter_In in Hin. destruct Hin as [_ Hg]. unfold g in Hg. cbn [fst] in Hg.
      apply memN_In. exact Hg. }
  assert (HB : length (filter (fun x => negb (g x)) M) <= length CR).
  { rewrite <- (map_length snd). apply NoDup_incl_length.
    - apply NoDup_map_filter. exact Hs.
    - intros s Hp. apply in_map_iff in Hp. destruct Hp as [[p s'] [E Hin]]. cbn [snd] in E. subst s'.
      apply filter_In in Hin. destruct Hin as [Hin Hg]. unfold g in Hg. cbn [fst] in Hg.
      destruct (Hc _ _ Hin) as [H|H]; [|exact H].
      apply memN_In in H. rewrite H in Hg. discriminate. }
  lia.
Qed.

(* ---------- the certificate theorem ------------------------------------------ *)

Theorem certificate_sound : forall svm n M CL CR,
  valid_certificate svm n M CL CR = true ->
  is_matching svm M /\ n = Z.of_nat (length M) /\ max_matching_size svm (length M).
Proof.
  intros svm n M CL CR H. unfold valid_certificate in H.
  apply andb_true_iff in H. destruct H as [H H4].
  apply andb_true_iff in H. destruct H as [H H3].
  apply andb_true_iff in H. destruct H as [H1 H2].
  apply valid_matching_sound in H1. apply Z.eqb_eq in H3. apply Nat.eqb_eq in H4.
  split; [exact H1|]. split; [exact H3|]. split.
  - exists M. split; [exact H1 | reflexivity].
  - intros M' [E' [F' S']]. rewrite <- H4. apply matching_le_cover; try assumption.
    intros p s Hin. apply (covers_sound _ _ _ H2). apply E'. exact Hin.
Qed.

(* ---------- maximum matching size is a graph invariant ----------------------- *)

Lemma is_matching_same_edges : forall a b M, same_edges a b -> is_matching a M -> is_matching b M.
Proof.
  intros a b M E [H1 [H2 H3]]. split; [|split; assumption].
  intros p s Hin. apply E. apply H1. exact Hin.
Qed.

Lemma max_matching_size_unique : forall a b n m,
  same_edges a b -> max_matching_size a n -> max_matching_size b m -> n = m.
Proof.
  intros a b n m E [[Ma [HMa La]] Ua] [[Mb [HMb Lb]] Ub].
  assert (E' : same_edges b a) by (intros p s; symmetry; apply E).
  pose proof (Ub Ma (is_matching_same_edges _ _ _ E HMa)).
  pose proof (Ua Mb (is_matching_same_edges _ _ _ E' HMb)). lia.
Qed.

(* ---------- the results of the model, conditional on the certificate check ---- *)

Lemma soh_certified_inv : forall svm, soh_certified svm = true ->
  exists n M CL CR, soh_servermap svm = Some n /\ soh_certificate svm = Some (M, CL, CR) /\
                    valid_certificate svm n M CL CR = true.
Proof.
  intros svm H. unfold soh_certified in H.
  destruct (soh_servermap svm) as [n|] eqn:E1; [|discriminate].
  destruct (soh_certificate svm) as [[[M CL] CR]|] eqn:E2; [|discriminate].
  exists n, M, CL, CR. repeat split; assumption.
Qed.

Lemma soh_matching_of_certified : forall svm n,
  soh_certified svm = true -> soh_servermap svm = Some n ->
  exists M, is_matching svm M /\ n = Z.of_nat (length M).
Proof.
  intros svm n Hc Hn. destruct (soh_certified_inv _ Hc) as [n' [M [CL [CR [E1 [E2 V]]]]]].
  rewrite Hn in E1. inversion E1; subst n'.
  destruct (certificate_sound _ _ _ _ _ V) as [HM [En _]]. exists M. split; assumption.
Qed.

Lemma soh_maximum_of_certified : forall svm n,
  soh_certified svm = true -> soh_servermap svm = Some n ->
  (0 <= n)%Z /\ max_matching_size svm (Z.to_nat n).
Proof.
  intros svm n Hc Hn. destruct (soh_certified_inv _ Hc) as [n' [M [CL [CR [E1 [E2 V]]]]]].
  rewrite Hn in E1. inversion E1; subst n'.
  destruct (certificate_sound _ _ _ _ _ V) as [_ [En Hmax]]. subst n.
  rewrite Nat2Z.id. split; [lia | exact Hmax].
Qed.

Lemma soh_order_independent_of_certified : forall a b n m,
  same_edges a b -> soh_certified a = true -> soh_certified b = true ->
  soh_servermap a = Some n -> soh_servermap b = Some m -> n = m.
Proof.
  intros a b n m E Ca Cb Ha Hb.
  destruct (soh_maximum_of_certified _ _ Ca Ha) as [Pa Ma].
  destruct (soh_maximum_of_certified _ _ Cb Hb) as [Pb Mb].
  pose proof (max_matching_size_unique _ _ _ _ E Ma Mb). lia.
Qed.

(* ---------- shares_by_server transposes the sharemap -------------------------- *)

Definition sm_edge (sharemap : list (N * list N)) (p s : N) : Prop :=
  exists l, In (s, l) sharemap /\ In p l.

Lemma edge_nil : forall p s, edge [] p s <-> False.
Proof. intros p s. split; [intros [l [H _]]; exact H | tauto]. Qed.

Lemma edge_cons : forall q l r p s,
  edge ((q, l) :: r) p s <-> (p = q /\ In s l) \/ edge r p s.
Proof.
  intros q l r p s. unfold edge. split.
  - intros [l' [[E|Hin] Hs]].
    + inversion E; subst. left. split; [reflexivity | exact Hs].
    + right. exists l'. split; assumption.
  - intros [[E Hs]|[l' [Hin Hs]]].
    + subst. exists l. split; [left; reflexivity | exact Hs].
    + exists l'. split; [right; exact Hin | exact Hs].
Qed.

Lemma add_share_edge : forall svm p s q t,
  edge (add_share p s svm) q t <-> edge svm q t \/ (q = p /\ t = s).
Proof.
  induction svm as [|[q0 l] r IH]; intros p s q t; cbn [add_share].
  - rewrite edge_cons, edge_nil. cbn [In]. split.
    + intros [[E [H|[]]]|[]]. right. split; [exact E | symmetry; exact H].
    + intros [[]|[E1 E2]]. left. split; [exact E1 | left; symmetry; exact E2].
  - destruct (N.eqb p q0) eqn:E.
    + apply N.eqb_eq in E. subst q0. rewrite !edge_cons.
      destruct (existsb (N.eqb s) l) eqn:Ex.
      * assert (Hs : In s l) by (apply memN_In; exact Ex).
        split; [tauto|]. intros [H|[E1 E2]]; [exact H|]. subst. left. split; [reflexivity | exact Hs].
      * rewrite in_app_iff. cbn [In]. split.
        -- intros [[E1 [H|[H|[]]]]|H]; [left; left; tauto | right; split; [exact E1 | symmetry; exact H] | left; right; exact H].
        -- intros [[[E1 H]|H]|[E1 E2]]; [left; split; [exact E1 | left; exact H] | right; exact H |].
           left. split; [exact E1 | right; left; symmetry; exact E2].
    + rewrite !edge_cons, IH. tauto.
Qed.

Lemma shares_by_server_inner : forall s l acc q t,
  edge (fold_left (fun a p => add_share p s a) l acc) q t <-> edge acc q t \/ (In q l /\ t = s).
Proof.
  intros s. induction l as [|p r IH]; intros acc q t; cbn [fold_left In].
  - tauto.
  - rewrite IH, add_share_edge. split.
    + intros [[H|[E1 E2]]|[H1 H2]]; [tauto | right; split; [left; symmetry; exact E1 | exact E2] | tauto].
    + intros [H|[[E|H1] H2]]; [tauto | left; right; split; [symmetry; exact E | exact H2] | tauto].
Qed.

Lemma shares_by_server_outer : forall sm acc q t,
  edge (fold_left (fun acc e => fold_left (fun a p => add_share p (fst e) a) (snd e) acc) sm acc) q t
  <-> edge acc q t \/ sm_edge sm q t.
Proof.
  induction sm as [|[s l] r IH]; intros acc q t; cbn [fold_left fst snd].
  - unfold sm_edge. split; [tauto|]. intros [H|[l [[] _]]]. exact H.
  - rewrite IH, shares_by_server_inner. unfold sm_edge. split.
    + intros [[H|[H1 H2]]|[l' [H1 H2]]].
      * left. exact H.
      * right. subst t. exists l. split; [left; reflexivity | exact H1].
      * right. exists l'. split; [right; exact H1 | exact H2].
    + intros [H|[l' [[E|H1] H2]]].
      * left. left. exact H.
      * inversion E; subst. left. right. split; [exact H2 | reflexivity].
      * right. exists l'. split; assumption.
Qed.

Lemma shares_by_server_edges : forall sm p s, edge (shares_by_server sm) p s <-> sm_edge sm p s.
Proof.
  intros sm p s. unfold shares_by_server. rewrite shares_by_server_outer, edge_nil. tauto.
Qed.

(* A servermap presents a sharemap when it has the transposed edge relation;
   this is all the model uses of CPython's iteration order. *)
Definition presents (svm : servermap) (sm : list (N * list N)) : Prop :=
  forall p s, edge svm p s <-> sm_edge sm p s.

Lemma presents_shares_by_server : forall sm, presents (shares_by_server sm) sm.
Proof. intros sm p s. apply shares_by_server_edges. Qed.

Lemma sm_edge_perm : forall a b, Permutation a b -> forall p s, sm_edge a p s <-> sm_edge b p s.
Proof.
  intros a b P p s. unfold sm_edge. split; intros [l [H1 H2]]; exists l; split; try exact H2.
  - eapply Permutation_in; eassumption.
  - eapply Permutation_in; [apply Permutation_sym|]; eassumption.
Qed.

Lemma presents_same_edges : forall a b sa sb,
  presents a sa -> presents b sb -> (forall p s, sm_edge sa p s <-> sm_edge sb p s) -> same_edges a b.
Proof.
  intros a b sa sb Ha Hb E p s. rewrite (Ha p s), (Hb p s). apply E.
Qed.

(* ---------- enumerating small relations (for the examples in Props/C08.v) ----- *)

Fixpoint all_subsets (l : list N) : list (list N) :=
  match l with
  | [] => [[]]
  | x :: r => let s := all_subsets r in s ++ map (cons x) s
  end.

Fixpoint all_servermaps (peers : list N) (shares : list N) : list servermap :=
  match peers with
  | [] => [[]]
  | p :: r =>
      let rest := all_servermaps r shares in
      flat_map (fun shs => match shs with
                           | [] => rest                       (* shares_by_server never yields an empty set *)
                           | _ => map (cons (p, shs)) rest
                           end) (all_subsets shares)
  end.
