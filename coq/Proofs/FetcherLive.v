(* C03 / C46: liveness of the segment fetcher.

   A run is an infinite sequence of events r : nat -> fev accepted by the guard of
   Proofs/FetcherWorld.v.  It is fair when
     - a queued loop() eventually runs (the eventual-send queue is served),
     - every outstanding block request eventually stops being outstanding (its
       Share reports a terminal state, or the fetcher stops),
     - the finder eventually reports exhaustion (no_more_shares).
   Every fair run stops the fetcher, having called process_blocks or fetch_failed;
   with k distinct good share numbers in the world it is process_blocks.
   The proof is by the measure
       4 * (shares not yet delivered) + 3 * unused + outstanding + active. *)
From Coq Require Import List NArith Bool Arith Lia Permutation.
From Verif Require Import Lib.Sched Model.Fetcher Proofs.FetcherBase Proofs.FetcherWorld.
Import ListNotations.

Definition mu_f (s : fstate) : nat :=
  3 * length (f_shares s) + length (f_from_server s) + length (f_active s).

Definition mu (w : world) (g : gst) : nat :=
  4 * (length (w_shares w) - length (snd g)) + mu_f (fst g).

Definition is_final (o : fout) : Prop :=
  match o with OProcessBlocks _ | OFetchFailed _ => True | _ => False end.

(* ---- the loop and the measure ------------------------------------------------------ *)
Lemma use_share_mu s sh : In sh (f_shares s) -> mu_f (use_share s sh) < mu_f s.
Proof.
  intros H. unfold mu_f. cbn [use_share f_shares f_from_server f_active].
  pose proof (remove_first_length sh (f_shares s) H). pose proof (set_add_length sh (f_from_server s)).
  rewrite app_length. cbn [length]. lia.
Qed.

Lemma do_while_progress s0 : forall fuel s outs s' outs',
  (f_running s = false \/ mu_f s < mu_f s0 \/ (f_from_server s = f_from_server s0 /\ mu_f s <= mu_f s0)) ->
  do_while fuel s outs = Some (s', outs') ->
  f_running s' = false \/ mu_f s' < mu_f s0 \/ (f_from_server s' = f_from_server s0 /\ mu_f s' <= mu_f s0).
Proof.
  intros fuel s outs s' outs' P H.
  eapply (do_while_preserves (fun x => f_running x = false \/ mu_f x < mu_f s0 \/ (f_from_server x = f_from_server s0 /\ mu_f x <= mu_f s0)));
    [| | |exact P|exact H].
  - intros x sh d Px F. apply find_share_some in F. destruct F as (Hin & _).
    pose proof (use_share_mu x sh Hin). cbn [use_share f_running].
    destruct Px as [Px|[Px|[_ Px]]]; [now left|right; left; lia|right; left; lia].
  - intros x Px. exact Px.
  - intros x _. now left.
Qed.

Lemma do_while_mu_le fuel s outs s' outs' : do_while fuel s outs = Some (s', outs') -> mu_f s' <= mu_f s.
Proof.
  intros H. eapply (do_while_preserves (fun x => mu_f x <= mu_f s)); [| | | |exact H]; auto.
  - intros x sh d Px F. apply find_share_some in F. destruct F as (Hin & _).
    pose proof (use_share_mu x sh Hin). lia.
  - intros x _. unfold mu_f. cbn. lia.
Qed.

Lemma do_while_no_more fuel s outs s' outs' : do_while fuel s outs = Some (s', outs') -> f_no_more s' = f_no_more s.
Proof. intros H. eapply (do_while_preserves (fun x => f_no_more x = f_no_more s)); [| | | |exact H]; auto. Qed.

Lemma do_while_keeps_requests fuel s outs s' outs' :
  do_while fuel s outs = Some (s', outs') -> f_running s' = false \/ incl (f_from_server s) (f_from_server s').
Proof.
  intros H. eapply (do_while_preserves (fun x => f_running x = false \/ incl (f_from_server s) (f_from_server x))); [| | | |exact H].
  - intros x sh d [Px|Px] _; [now left|right]. cbn [use_share f_from_server].
    intros z Hz. apply set_add_incl. now apply Px.
  - auto.
  - intros x _. now left.
  - right. apply incl_refl.
Qed.

Lemma do_while_stop_output : forall fuel s outs s' outs',
  do_while fuel s outs = Some (s', outs') -> f_running s = true -> f_running s' = false ->
  exists o, In o outs' /\ is_final o.
Proof.
  induction fuel as [|f IH]; intros s outs s' outs' H R R'; [discriminate|].
  cbn [do_while] in H. destruct (have_or_active s <? f_k s).
  - destruct (find_share _ _ _ _ _) as [[sh|] d].
    + eapply IH; [exact H|exact R|exact R'].
    + destruct d; [eapply IH; [exact H|exact R|exact R']|].
      destruct (f_no_more s); [destruct (have_active_overdue s <? f_k s)|]; inversion H; subst; try congruence.
      eexists. split; [apply in_or_app; right; now left|exact I].
  - destruct (f_k s <=? distinct (bnums (f_blocks s))); inversion H; subst; try congruence.
    eexists. split; [apply in_or_app; right; now left|exact I].
Qed.

(* ---- one guarded step and the measure ---------------------------------------------- *)
Lemma added_bound w g : Inv w g -> length (snd g) <= length (w_shares w).
Proof. intros [I _]. apply NoDup_incl_length; [apply (i_added_nd _ _ _ I)|apply (i_added_w _ _ _ I)]. Qed.

Lemma gstep_mu_le w g e : NoDup (w_shares w) -> Inv w g -> ev_ok w g e -> mu w (fst (gstep g e)) <= mu w g.
Proof.
  intros Hw HI Hok. pose proof (added_bound w _ (gstep_inv w g e Hw HI Hok)) as B.
  destruct g as [s added]. unfold mu, gstep in *. cbn [fst snd] in *.
  destruct e as [l| |sh st|ns]; cbn [fstep fst snd] in *.
  - destruct (f_running s); cbn [fst snd] in *; rewrite app_length in *.
    + unfold mu_f. cbn [set_loops set_shares f_shares f_from_server f_active]. rewrite sort_shares_length, app_length. lia.
    + lia.
  - unfold mu_f. cbn. lia.
  - destruct (activity_raises s sh st); cbn [fst snd]; [lia|]. unfold activity.
    destruct (negb (f_running s)); [lia|]. unfold mu_f.
    destruct st; cbn [is_terminal set_loops f_shares f_from_server f_active];
      pose proof (remove_id_length_le sh (f_from_server s)); pose proof (remove_id_length_le sh (f_active s));
      pose proof (filter_length_le (fun x => negb (N.eqb (sh_num x) (sh_num sh))) (f_active s)); unfold remove_num; lia.
  - destruct (f_loops s) as [|n]; cbn [fst snd]; [lia|]. unfold do_loop.
    destruct (negb (f_running (set_loops s n))); cbn [fst snd]; [unfold mu_f; cbn; lia|].
    destruct (match ns with Some n0 => N.leb n0 (f_segnum (set_loops s n)) | None => false end); cbn [fst snd].
    { unfold mu_f. cbn. lia. }
    destruct (do_while _ _ _) as [[s' o]|] eqn:D; cbn [fst snd]; [|unfold mu_f; cbn; lia].
    apply do_while_mu_le in D. unfold mu_f in *. cbn [set_loops f_shares f_from_server f_active] in D. lia.
Qed.

(* a request stops being outstanding only by a terminal answer (measure drops) or by stop *)
Lemma gstep_request_done w g e x :
  NoDup (w_shares w) -> Inv w g -> ev_ok w g e ->
  In x (f_from_server (fst g)) -> ~ In x (f_from_server (fst (fst (gstep g e)))) ->
  f_running (fst (fst (gstep g e))) = false \/ mu w (fst (gstep g e)) < mu w g.
Proof.
  intros Hw HI Hok Hx Hnx. destruct g as [s added]. unfold mu, gstep in *. cbn [fst snd] in *.
  destruct e as [l| |sh st|ns]; cbn [fstep fst snd] in *.
  - destruct (f_running s); cbn [fst snd set_loops set_shares f_from_server] in *; contradiction.
  - cbn [set_loops set_no_more f_from_server] in Hnx. contradiction.
  - destruct (activity_raises s sh st); cbn [fst snd] in *; [contradiction|]. unfold activity in *.
    destruct (negb (f_running s)); [contradiction|]. right.
    destruct st; cbn [is_terminal set_loops f_shares f_from_server f_active] in *; try contradiction;
      (assert (x = sh) by (destruct (sid_eqb x sh) eqn:E; [now apply sid_eqb_eq|exfalso; apply Hnx; apply remove_id_In; split; [exact Hx|now apply sid_eqb_neq]]);
       subst x; pose proof (remove_id_length_lt sh (f_from_server s) Hx); pose proof (remove_id_length_le sh (f_active s));
       unfold mu_f; cbn [set_loops f_shares f_from_server f_active]; lia).
  - destruct (f_loops s) as [|n]; cbn [fst snd] in *; [contradiction|]. unfold do_loop in *.
    destruct (negb (f_running (set_loops s n))); cbn [fst snd] in *; [contradiction|].
    destruct (match ns with Some n0 => N.leb n0 (f_segnum (set_loops s n)) | None => false end); cbn [fst snd] in *; [now left|].
    destruct (do_while _ _ _) as [[s' o]|] eqn:D; cbn [fst snd] in *; [|contradiction].
    destruct (do_while_keeps_requests _ _ _ _ _ D) as [R|K]; [now left|]. exfalso. apply Hnx. apply K. exact Hx.
Qed.

(* the finder is exhausted, nothing is outstanding: the loop decides or starts requests *)
Lemma gstep_loop_exhausted w g ns :
  NoDup (w_shares w) -> Inv w g -> ev_ok w g (ELoop ns) ->
  f_running (fst g) = true -> f_no_more (fst g) = true -> f_from_server (fst g) = [] ->
  f_running (fst (fst (gstep g (ELoop ns)))) = false \/ mu w (fst (gstep g (ELoop ns))) < mu w g.
Proof.
  intros Hw [I W] Hok R NM FS. destruct g as [s added]. unfold mu, gstep in *. cbn [fst snd fstep ev_ok] in *.
  destruct Hok as [Hl Hns]. destruct (f_loops s) as [|n] eqn:L; [lia|].
  unfold do_loop. cbn [set_loops f_running f_segnum]. rewrite R. cbn [negb].
  assert ((match ns with Some n0 => N.leb n0 (f_segnum s) | None => false end) = false) as B.
  { destruct ns as [m|]; [|reflexivity]. apply N.leb_gt. exact Hns. }
  rewrite B. destruct (do_while _ _ _) as [[s' o]|] eqn:D; cbn [fst snd].
  - assert (I' : InvF w added (set_loops s n)) by (destruct I; constructor; auto).
    pose proof (do_while_progress (set_loops s n) _ _ _ _ _ (or_intror (or_intror (conj eq_refl (le_n _)))) D) as P.
    destruct P as [P|[P|[P1 P2]]]; [now left|right; unfold mu_f in *; cbn [set_loops f_shares f_from_server f_active] in P; lia|].
    left. destruct (f_running s') eqn:R'; [|reflexivity]. exfalso.
    destruct (do_while_wait w added _ _ _ _ _ I' D R') as [X|X].
    + rewrite (do_while_no_more _ _ _ _ _ D) in X. cbn [set_loops f_no_more] in X. congruence.
    + apply X. rewrite P1. cbn [set_loops f_from_server]. exact FS.
  - exfalso. revert D. apply do_while_fuel. apply loop_fuel_enough. cbn [set_loops f_max_per_server]. apply (i_max _ _ _ I).
Qed.

(* flags that only move one way *)
Lemma fstep_no_more_mono s e : f_no_more s = true -> f_no_more (fst (fstep s e)) = true.
Proof.
  intros H. destruct e as [l| |sh st|ns]; cbn [fstep].
  - destruct (f_running s); exact H.
  - reflexivity.
  - destruct (activity_raises s sh st); [exact H|]. unfold activity. destruct (negb (f_running s)); [exact H|].
    destruct st; exact H.
  - destruct (f_loops s) as [|n]; [exact H|]. unfold do_loop.
    destruct (negb (f_running (set_loops s n))); [exact H|].
    destruct (match ns with Some n0 => N.leb n0 (f_segnum (set_loops s n)) | None => false end); [exact H|].
    destruct (do_while _ _ _) as [[s' o]|] eqn:D; [|exact H]. cbn [fst].
    rewrite (do_while_no_more _ _ _ _ _ D). exact H.
Qed.

(* whoever stops the fetcher has called process_blocks or fetch_failed *)
Lemma fstep_stop_output s e :
  f_running s = true -> f_running (fst (fstep s e)) = false -> exists o, In o (snd (fstep s e)) /\ is_final o.
Proof.
  intros R R'. destruct e as [l| |sh st|ns]; cbn [fstep] in *.
  - rewrite R in *. cbn [fst set_loops set_shares f_running] in R'. congruence.
  - cbn [fst set_loops set_no_more f_running] in R'. congruence.
  - destruct (activity_raises s sh st); cbn [fst] in R'; [congruence|]. unfold activity in R'. rewrite R in R'. cbn [negb] in R'.
    destruct st; cbn [is_terminal set_loops f_running] in R'; congruence.
  - destruct (f_loops s) as [|n]; cbn [fst] in R'; [congruence|]. unfold do_loop in *. cbn [set_loops f_running f_segnum] in *. rewrite R in *. cbn [negb] in *.
    destruct (match ns with Some n0 => N.leb n0 (f_segnum s) | None => false end).
    { cbn [snd]. eexists. split; [now left|exact I]. }
    destruct (do_while _ _ _) as [[s' o]|] eqn:D; cbn [fst snd] in *; [|cbn [set_loops f_running] in R'; congruence].
    eapply do_while_stop_output; [exact D|exact R|exact R'].
Qed.

(* under the guard the segment number is in range: no BadSegmentNumberError *)
Lemma gstep_no_badseg w g e : ev_ok w g e -> ~ In (OFetchFailed BadSegmentNumberError) (snd (gstep g e)).
Proof.
  intros Hok Hin. destruct g as [s added]. unfold gstep in Hin. cbn [fst snd] in *.
  destruct e as [l| |sh st|ns]; cbn [fstep ev_ok fst snd] in *.
  - destruct (f_running s); destruct Hin.
  - destruct Hin.
  - destruct (activity_raises s sh st); destruct Hin.
  - destruct Hok as [_ Hns]. destruct (f_loops s) as [|n]; [destruct Hin|]. unfold do_loop in Hin.
    destruct (negb (f_running (set_loops s n))); [destruct Hin|]. cbn [set_loops f_segnum] in Hin.
    assert ((match ns with Some n0 => N.leb n0 (f_segnum s) | None => false end) = false) as B.
    { destruct ns as [m|]; [|reflexivity]. apply N.leb_gt. exact Hns. }
    rewrite B in Hin. destruct (do_while _ _ _) as [[s' o]|] eqn:D; [|destruct Hin]. cbn [snd] in Hin.
    pose proof (fstep_error (mk_f (f_k s) (f_segnum s) (f_shares s) (f_from_server s) (f_max_per_server s) (f_active s) (f_overdue s)
                                  (f_blocks s) (f_no_more s) (f_running s) (S n)) (ELoop None) BadSegmentNumberError) as X.
    clear X.
    (* do_while never emits BadSegmentNumberError *)
    assert (forall fuel s0 outs s1 o1, ~ In (OFetchFailed BadSegmentNumberError) outs ->
            do_while fuel s0 outs = Some (s1, o1) -> ~ In (OFetchFailed BadSegmentNumberError) o1) as X.
    { induction fuel as [|f IH]; intros s0 outs s1 o1 Hno H; [discriminate|].
      cbn [do_while] in H. destruct (have_or_active s0 <? f_k s0).
      - destruct (find_share _ _ _ _ _) as [[sh|] d].
        + eapply IH; [|exact H]. intros Hb. apply in_app_or in Hb. destruct Hb as [Hb|[Hb|[]]]; [contradiction|discriminate].
        + destruct d.
          * eapply IH; [|exact H]. intros Hb. apply in_app_or in Hb. destruct Hb as [Hb|Hb]; [contradiction|].
            unfold ask in Hb. destruct (f_no_more s0); [destruct Hb|destruct Hb as [Hb|[]]; discriminate].
          * destruct (f_no_more s0); [destruct (have_active_overdue s0 <? f_k s0)|]; inversion H; subst; auto;
              intros Hb; apply in_app_or in Hb; destruct Hb as [Hb|[Hb|[]]]; try contradiction; try discriminate.
            inversion Hb. unfold shares_error in H1.
            destruct (f_shares s0), (f_active s0), (f_overdue s0), (f_blocks s0); discriminate.
      - destruct (f_k s0 <=? distinct (bnums (f_blocks s0))); inversion H; subst; auto.
        intros Hb; apply in_app_or in Hb; destruct Hb as [Hb|[Hb|[]]]; [contradiction|discriminate]. }
    eapply X; [|exact D|exact Hin]. intros [].
Qed.

(* ---- infinite runs ------------------------------------------------------------------ *)
Section Fair.
  Variable w : world.
  Variables (k : nat) (seg : N).
  Variable r : nat -> fev.
  Hypothesis Hw : NoDup (w_shares w).

  Fixpoint gat (n : nat) : gst :=
    match n with O => ginit k seg | S m => fst (gstep (gat m) (r m)) end.

  Fixpoint outs_upto (n : nat) : list fout :=
    match n with O => [] | S m => outs_upto m ++ snd (gstep (gat m) (r m)) end.

  Definition valid : Prop := forall n, ev_ok w (gat n) (r n).
  Definition fair_loops : Prop :=
    forall n, f_loops (fst (gat n)) > 0 -> exists m, n <= m /\ exists ns, r m = ELoop ns.
  Definition fair_requests : Prop :=
    forall n x, In x (f_from_server (fst (gat n))) -> exists m, n <= m /\ ~ In x (f_from_server (fst (gat m))).
  Definition fair_finder : Prop := exists n, f_no_more (fst (gat n)) = true.

  Hypothesis Hvalid : valid.

  Lemma inv_at n : Inv w (gat n).
  Proof. induction n as [|n IH]; cbn [gat]; [apply inv_init|]. apply gstep_inv; auto. Qed.

  Lemma mu_mono n m : n <= m -> mu w (gat m) <= mu w (gat n).
  Proof.
    induction 1 as [|m _ IH]; [lia|]. cbn [gat].
    pose proof (gstep_mu_le w (gat m) (r m) Hw (inv_at m) (Hvalid m)). lia.
  Qed.

  Lemma no_more_mono n m : n <= m -> f_no_more (fst (gat n)) = true -> f_no_more (fst (gat m)) = true.
  Proof.
    induction 1 as [|m _ IH]; [auto|]. intros H. specialize (IH H). cbn [gat].
    unfold gstep. pose proof (fstep_no_more_mono (fst (gat m)) (r m) IH). destruct (fstep (fst (gat m)) (r m)). exact H0.
  Qed.

  Lemma stopped_mono n m : n <= m -> f_running (fst (gat n)) = false -> f_running (fst (gat m)) = false.
  Proof.
    induction 1 as [|m _ IH]; [auto|]. intros H. specialize (IH H). cbn [gat].
    unfold gstep. pose proof (fstep_stopped (fst (gat m)) (r m) IH) as [_ X]. destruct (fstep (fst (gat m)) (r m)). exact X.
  Qed.

  (* between n and m the request x disappears: the fetcher stopped or the measure dropped *)
  Lemma request_done n m x :
    n <= m -> In x (f_from_server (fst (gat n))) -> ~ In x (f_from_server (fst (gat m))) ->
    f_running (fst (gat m)) = false \/ mu w (gat m) < mu w (gat n).
  Proof.
    induction 1 as [|m Hle IH]; intros Hx Hnx; [contradiction|].
    destruct (in_dec (fun a b => match Bool.bool_dec (sid_eqb a b) true with left e => left (proj1 (sid_eqb_eq a b) e) | right ne => right (fun E => ne (proj2 (sid_eqb_eq a b) E)) end)
                     x (f_from_server (fst (gat m)))) as [Hin|Hout].
    - cbn [gat] in *. pose proof (gstep_request_done w (gat m) (r m) x Hw (inv_at m) (Hvalid m) Hin Hnx) as [St|L]; [now left|].
      right. pose proof (mu_mono n m Hle). lia.
    - destruct (IH Hx Hout) as [St|L].
      + left. apply (stopped_mono m (S m)); [lia|exact St].
      + right. pose proof (mu_mono m (S m) (Nat.le_succ_diag_r m)). lia.
  Qed.

  Hypothesis Hloops : fair_loops.
  Hypothesis Hreq : fair_requests.

  (* from any point after exhaustion was reported: stop, or a strictly smaller measure later *)
  Lemma progress n :
    f_no_more (fst (gat n)) = true -> f_running (fst (gat n)) = true ->
    exists m, n <= m /\ (f_running (fst (gat m)) = false \/ mu w (gat m) < mu w (gat n)).
  Proof.
    intros NM R.
    assert (A : forall j, f_from_server (fst (gat j)) <> [] ->
                exists m, j <= m /\ (f_running (fst (gat m)) = false \/ mu w (gat m) < mu w (gat j))).
    { intros j Hne. destruct (f_from_server (fst (gat j))) as [|x rest] eqn:E; [contradiction|].
      destruct (Hreq j x) as (m & Hle & Hnx); [rewrite E; now left|].
      exists m. split; [exact Hle|]. apply (request_done j m x); [exact Hle|rewrite E; now left|exact Hnx]. }
    destruct (f_from_server (fst (gat n))) as [|x rest] eqn:E.
    - destruct (inv_at n) as [_ W]. unfold waiting_ok in W.
      assert (f_loops (fst (gat n)) > 0) as L.
      { destruct (f_loops (fst (gat n))) eqn:L; [|lia]. destruct (W R eq_refl) as [X|X]; [congruence|contradiction]. }
      destruct (Hloops n L) as (m & Hle & ns & Em).
      destruct (f_running (fst (gat m))) eqn:Rm; [|exists m; split; [exact Hle|now left]].
      destruct (f_from_server (fst (gat m))) as [|y rest'] eqn:Em2.
      + exists (S m). split; [lia|]. cbn [gat]. rewrite Em.
        pose proof (Hvalid m) as Hv. rewrite Em in Hv.
        destruct (gstep_loop_exhausted w (gat m) ns Hw (inv_at m) Hv Rm (no_more_mono n m Hle NM) Em2) as [St|L2]; [now left|].
        right. pose proof (mu_mono n m Hle). lia.
      + destruct (A m) as (m' & Hle' & [St|L2]); [rewrite Em2; discriminate| |].
        * exists m'. split; [lia|now left].
        * exists m'. split; [lia|right]. pose proof (mu_mono n m Hle). lia.
    - apply A. rewrite E. discriminate.
  Qed.

  Hypothesis Hfinder : fair_finder.

  Lemma fair_run_stops : exists n, f_running (fst (gat n)) = false.
  Proof.
    destruct Hfinder as (n0 & NM0).
    assert (forall M n, n0 <= n -> mu w (gat n) <= M -> exists n', f_running (fst (gat n')) = false) as X.
    { induction M as [M IH] using lt_wf_ind. intros n Hle HM.
      destruct (f_running (fst (gat n))) eqn:R; [|now exists n].
      destruct (progress n (no_more_mono n0 n Hle NM0) R) as (m & Hle' & [St|L]); [now exists m|].
      apply (IH (mu w (gat m))) with (n := m); lia. }
    apply (X (mu w (gat n0)) n0); lia.
  Qed.

  (* outputs *)
  Lemma stop_output n : f_running (fst (gat n)) = false -> exists o, In o (outs_upto n) /\ is_final o.
  Proof.
    induction n as [|n IH]; cbn [gat outs_upto]; [cbn; discriminate|]. intros R'.
    destruct (f_running (fst (gat n))) eqn:R.
    - unfold gstep in *. pose proof (fstep_stop_output (fst (gat n)) (r n) R) as X.
      destruct (fstep (fst (gat n)) (r n)) as [s' o]. cbn [fst snd] in *.
      destruct (X R') as (x & Hx & Fx). exists x. split; [apply in_or_app; now right|exact Fx].
    - destruct (IH eq_refl) as (x & Hx & Fx). exists x. split; [apply in_or_app; now left|exact Fx].
  Qed.

  Lemma outs_step n o : In o (outs_upto n) -> exists j, j < n /\ In o (snd (gstep (gat j) (r j))).
  Proof.
    induction n as [|n IH]; cbn [outs_upto]; [intros []|]. intros H. apply in_app_or in H. destruct H as [H|H].
    - destruct (IH H) as (j & Hj & Hin). exists j. split; [lia|exact Hin].
    - exists n. split; [lia|exact H].
  Qed.

  Lemma gat_k n : f_k (fst (gat n)) = k.
  Proof.
    induction n as [|n IH]; cbn [gat]; [reflexivity|]. unfold gstep.
    pose proof (fstep_k (fst (gat n)) (r n)). destruct (fstep (fst (gat n)) (r n)). cbn [fst] in *. congruence.
  Qed.

  (* every fair run ends with process_blocks or fetch_failed *)
  Theorem fair_run_terminates :
    exists n o, In o (outs_upto n) /\ is_final o /\ f_running (fst (gat n)) = false.
  Proof.
    destruct fair_run_stops as (n & R). destruct (stop_output n R) as (o & Ho & Fo). exists n, o. auto.
  Qed.

  (* with k distinct good share numbers it is process_blocks *)
  Theorem fair_run_available :
    k <= good_distinct w -> exists n bl, In (OProcessBlocks bl) (outs_upto n).
  Proof.
    intros Hk. destruct fair_run_terminates as (n & o & Ho & Fo & _).
    destruct o as [sh| |bl|e]; try destruct Fo.
    - exists n, bl. exact Ho.
    - exfalso. destruct (outs_step n _ Ho) as (j & _ & Hin).
      destruct e.
      + pose proof (gstep_error_few_good w (gat j) (r j) NoSharesError (inv_at j) Hin ltac:(discriminate)). rewrite gat_k in H. lia.
      + pose proof (gstep_error_few_good w (gat j) (r j) NotEnoughSharesError (inv_at j) Hin ltac:(discriminate)). rewrite gat_k in H. lia.
      + apply (gstep_no_badseg w (gat j) (r j) (Hvalid j) Hin).
  Qed.
End Fair.
