(* The symbolic hash instance (free term algebra) satisfies the hypotheses of the
   hash-tree theorems; a concrete 5-leaf tree for the non-vacuity examples. *)
From Coq Require Import List ZArith Bool Lia.
From Verif Require Import Model.HashTree Proofs.HashTreeBase Proofs.HashTree.
Import ListNotations.
Local Open Scope Z_scope.

Lemma sym_eqb_spec : forall a b, sym_eqb a b = true <-> a = b.
Proof.
  induction a as [x|x|a1 IH1 a2 IH2|x]; destruct b as [y|y|b1 b2|y]; cbn [sym_eqb];
    try (split; [discriminate|intros Hc; discriminate]);
    try (rewrite Z.eqb_eq; split; [intros ->; reflexivity|intros Hc; inversion Hc; reflexivity]).
  rewrite andb_true_iff, IH1, IH2. split; [intros [-> ->]; reflexivity|intros Hc; inversion Hc; auto].
Qed.

Lemma sym_pair_inj : forall a b c d, Pair a b = Pair c d -> a = c /\ b = d.
Proof. intros a b c d Hp. inversion Hp. auto. Qed.

Lemma sym_pair_truthy : forall a b, sym_truthy (Pair a b) = true.
Proof. reflexivity. Qed.

(* five leaves -> padded to 8, 15 nodes *)
Definition leaves5 : list sym := [Leaf 0; Leaf 1; Leaf 2; Leaf 3; Leaf 4].
Definition G5list : list sym := sym_hash_tree leaves5.
Definition G5 (j : Z) : sym := nth (Z.to_nat j) G5list (Junk 0).
Definition T5_root : sym_tree := Some (G5 0) :: repeat None 14.

Lemma G5_merkle : forall p, 0 <= p -> 2 * p + 2 < 15 -> G5 p = Pair (G5 (2 * p + 1)) (G5 (2 * p + 2)).
Proof.
  intros p H0 H1.
  assert (Hc : p = 0 \/ p = 1 \/ p = 2 \/ p = 3 \/ p = 4 \/ p = 5 \/ p = 6) by lia.
  destruct Hc as [->|[->|[->|[->|[->|[->| ->]]]]]]; vm_compute; reflexivity.
Qed.

Lemma G5_truthy : forall j, 0 <= j < 15 -> sym_truthy (G5 j) = true.
Proof.
  intros j Hj.
  assert (Hc : j = 0 \/ j = 1 \/ j = 2 \/ j = 3 \/ j = 4 \/ j = 5 \/ j = 6 \/ j = 7 \/ j = 8 \/ j = 9 \/
               j = 10 \/ j = 11 \/ j = 12 \/ j = 13 \/ j = 14) by lia.
  repeat (destruct Hc as [->|Hc]; [vm_compute; reflexivity|]). subst. vm_compute. reflexivity.
Qed.

Lemma T5_root_genuine : genuine sym G5 T5_root.
Proof.
  intros j h Hj Hs. unfold slot in Hs.
  destruct (Z.to_nat j) as [|k] eqn:E.
  - assert (j = 0) by lia. subst j. cbn in Hs. inversion Hs. reflexivity.
  - unfold T5_root in Hs. cbn [nth] in Hs.
    assert (Hnone : forall m k', nth k' (repeat (@None sym) m) None = None).
    { induction m; destruct k'; cbn; auto. }
    rewrite Hnone in Hs. discriminate.
Qed.

Lemma T5_root_closed : closed sym T5_root.
Proof.
  intros j Hj Hp. exfalso. apply Hp. unfold slot, T5_root.
  destruct (Z.to_nat j) as [|k] eqn:E; [lia|]. cbn [nth].
  assert (Hnone : forall m k', nth k' (repeat (@None sym) m) None = None).
  { induction m; destruct k'; cbn; auto. }
  apply Hnone.
Qed.

Lemma sym_hypotheses :
  (forall a b, sym_eqb a b = true <-> a = b) /\
  (forall a b, sym_truthy (Pair a b) = true) /\
  (forall a b c d, Pair a b = Pair c d -> a = c /\ b = d) /\
  (forall p, 0 <= p -> 2 * p + 2 < 15 -> G5 p = Pair (G5 (2 * p + 1)) (G5 (2 * p + 2))) /\
  (forall j, 0 <= j < 15 -> sym_truthy (G5 j) = true) /\
  zlen T5_root = 15 /\ genuine sym G5 T5_root /\ closed sym T5_root /\ slot T5_root 0 <> None.
Proof.
  split; [exact sym_eqb_spec|]. split; [exact sym_pair_truthy|]. split; [exact sym_pair_inj|].
  split; [exact G5_merkle|]. split; [exact G5_truthy|]. split; [reflexivity|].
  split; [exact T5_root_genuine|]. split; [exact T5_root_closed|]. discriminate.
Qed.

Lemma empty_value_not_restored :
  exists (T0 : sym_tree) (hashes : list (Z * sym)) (e : err) (T1 : sym_tree),
    sym_set_hashes 1 T0 hashes [] [] = Rejected sym e T1 /\ sym_tree_eqb T1 T0 = false.
Proof.
  exists [Some (Junk 0); None; None], [(0, Junk 5); (1, Junk 6)], NotEnoughHashesError, [None; None; None].
  vm_compute. split; reflexivity.
Qed.
