(* The whole read, for a file produced by the real encoder parameters (Model/ImmFile.v):
   the planned segments (C01: read_plan, read_range_exact_ok) are served by the validating
   pipeline, so what reaches the consumer is a prefix of ciphertext[offset : offset+size],
   all of it when the read completes. *)
From Coq Require Import List ZArith NArith Bool Lia.
From Verif Require Import Gen.ImmConsts Model.HashTree Model.ImmFile Model.ImmVerify
  Proofs.ImmFileArith Proofs.ImmFileRead Proofs.ImmFileData Proofs.ImmVerifyTree Proofs.ImmVerify.
Import ListNotations.
Local Open Scope N_scope.

Lemma encode_file_wf : forall (enc : N -> N -> list (list N) -> list (list N)) k n segsize ct,
  1 <= k -> 1 <= segsize -> segsize mod k = 0 -> ef_wf (encode_file enc k n segsize ct).
Proof.
  intros enc k n segsize ct Hk Hs Hm. constructor; cbn [encode_file ef_k ef_n ef_size ef_segsize ef_segs ef_blocks].
  - exact Hk.
  - exact Hs.
  - exact Hm.
  - rewrite encode_segments_length. reflexivity.
  - rewrite map_length. unfold nrange. rewrite map_length, seq_length. reflexivity.
Qed.

Lemma encode_file_segment : forall (enc : N -> N -> list (list N) -> list (list N)) k n segsize ct j,
  j < div_ceil (N.of_nat (length ct)) segsize ->
  gsegment (encode_file enc k n segsize ct) (Z.of_N j) = seg_at ct segsize j.
Proof.
  intros enc k n segsize ct j Hj. unfold gsegment. cbn [encode_file ef_segs encoder_params e_num_segments].
  replace (Z.to_nat (Z.of_N j)) with (N.to_nat j) by lia. unfold nrange. rewrite map_map.
  rewrite nth_map_seq by lia. rewrite N2Nat.id. reflexivity.
Qed.

Lemma apply_writes_ext : forall (g1 g2 : N -> list N) ws,
  Forall (fun w => g1 (w_segnum w) = g2 (w_segnum w)) ws -> apply_writes g1 ws = apply_writes g2 ws.
Proof.
  intros g1 g2 ws Hf. unfold apply_writes. induction Hf as [|w ws Hw Hf IH]; [reflexivity|].
  cbn [map concat]. rewrite Hw, IH. reflexivity.
Qed.

Section Read.
  Variable H : Type.
  Variable H_eqb : H -> H -> bool.
  Variable pair_hash : H -> H -> H.
  Variable truthy : H -> bool.
  Variable empty_leaf : Z -> H.
  Variable block_hash : list N -> H.
  Variable seg_hash : list N -> H.
  Variable UB : Type.
  Variable ueb_hash : UB -> H.
  Variable parse_ueb : UB -> option (ueb H).
  Variable dec : N -> N -> list (N * list N) -> list (list N).
  Variable ser_ueb : ueb H -> UB.
  Variable enc : N -> N -> list (list N) -> list (list N).

  Hypothesis H_eqb_spec : forall a b, H_eqb a b = true <-> a = b.
  Hypothesis all_truthy_H : forall h, truthy h = true.
  Hypothesis pair_inj : forall a b c d, pair_hash a b = pair_hash c d -> a = c /\ b = d.
  Hypothesis block_inj : forall a b, block_hash a = block_hash b -> a = b.
  Hypothesis seg_inj : forall a b, seg_hash a = seg_hash b -> a = b.
  Hypothesis ueb_inj : forall a b, ueb_hash a = ueb_hash b -> a = b.
  Hypothesis parse_ser : forall u, parse_ueb (ser_ueb u) = Some u.

  Theorem delivered_prefix_ok : forall (k n segsize guess offset : N) (size : option N) (ct key : list N)
      (script : N -> list (Z * share H UB * (nat -> list Z)) * list Z),
    1 <= N.of_nat (length ct) -> 1 <= k -> 1 <= segsize -> segsize mod k = 0 -> 1 <= guess ->
    let f := encode_file enc k n segsize ct in
    let c := g_cap H pair_hash empty_leaf block_hash seg_hash UB ueb_hash ser_ueb key f in
    exists ws,
      read_plan (N.of_nat (length ct)) segsize guess offset size = SegDone ws /\
      forall chunks res,
        serve H H_eqb pair_hash truthy block_hash seg_hash UB ueb_hash parse_ueb dec c (node_init H c) ws script = (chunks, res) ->
        (exists rest, py_slice ct offset size = concat chunks ++ rest) /\
        (res = None -> concat chunks = py_slice ct offset size).
  Proof.
    intros k n segsize guess offset size ct key script Hct Hk Hs Hm Hg f c.
    destruct (read_range_exact_ok ct segsize guess offset size Hct Hs Hg) as [ws [E1 [E2 [_ E4]]]].
    exists ws. split; [exact E1|]. intros chunks res Hsv.
    pose proof (encode_file_wf enc k n segsize ct Hk Hs Hm) as Hwf. fold f in Hwf.
    assert (Hws : Forall (fun w => w_segnum w < d_num_segments (calculate_sizes (ef_size f) (ef_k f) (ef_segsize f))) ws).
    { eapply Forall_impl; [|exact E4]. intros w [Hw _]. exact Hw. }
    destruct (serve_prefix H H_eqb pair_hash truthy empty_leaf block_hash seg_hash UB ueb_hash parse_ueb dec ser_ueb
                H_eqb_spec all_truthy_H pair_inj block_inj seg_inj ueb_inj parse_ser f key Hwf ws (node_init H c) script chunks res
                (node_init_inv H pair_hash empty_leaf block_hash seg_hash UB ueb_hash ser_ueb f key) Hws Hsv) as [P1 P2].
    assert (Hext : apply_writes (gseg f) ws = py_slice ct offset size).
    { rewrite <- E2. apply apply_writes_ext. eapply Forall_impl; [|exact E4]. intros w [Hw _].
      unfold gseg. apply encode_file_segment. exact Hw. }
    rewrite Hext in P1, P2. split; assumption.
  Qed.
End Read.
