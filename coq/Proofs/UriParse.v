(* Parsing and printing of capability strings (Model/Uri.v) are mutually
   inverse on every kind; dispatch of from_string; lemmas for C15 and C16. *)
From Coq Require Import String List NArith ZArith PeanoNat Bool Lia ZifyBool ZifyNat ZifyN.
From Verif Require Import Lib.Hex Lib.Bytes Lib.Decimal Lib.DecimalFacts Gen.Uri Model.UriBase32 Model.Uri Proofs.UriBase32.
Import ListNotations.
Local Open Scope N_scope.
Local Ltac Zify.zify_post_hook ::= Z.to_euclidean_division_equations.

(* ------------------------------------------------------------- prefixes *)
Lemma strip_prefix_app p : forall s, strip_prefix p (p ++ s) = Some s.
Proof.
  induction p as [|x p IH]; intro s; cbn [strip_prefix app]; [reflexivity|].
  rewrite N.eqb_refl. apply IH.
Qed.

Lemma strip_prefix_some p : forall s r, strip_prefix p s = Some r -> s = p ++ r.
Proof.
  induction p as [|x p IH]; intros s r H; cbn [strip_prefix] in H.
  - injection H as <-. reflexivity.
  - destruct s as [|c s]; [discriminate|]. destruct (c =? x) eqn:E; [|discriminate].
    apply N.eqb_eq in E. subst. cbn [app]. f_equal. apply IH. exact H.
Qed.

Lemma starts_with_true p s : starts_with p s = true -> exists r, s = p ++ r.
Proof.
  unfold starts_with. destruct (strip_prefix p s) as [r|] eqn:E; [|discriminate].
  intros _. exists r. apply strip_prefix_some. exact E.
Qed.

Lemma starts_with_app p s : starts_with p (p ++ s) = true.
Proof. unfold starts_with. rewrite strip_prefix_app. reflexivity. Qed.

(* ----------------------------------------------------------------- span *)
Lemma span_spec f : forall s a b, span f s = (a, b) ->
  s = a ++ b /\ forallb f a = true /\ match b with [] => True | c :: _ => f c = false end.
Proof.
  induction s as [|c s IH]; intros a b H; cbn [span] in H.
  - injection H as <- <-. repeat split.
  - destruct (f c) eqn:E.
    + destruct (span f s) as [a' b'] eqn:Es. injection H as <- <-.
      destruct (IH a' b' eq_refl) as (H1 & H2 & H3). subst s. cbn [app forallb]. rewrite E, H2.
      repeat split; assumption.
    + injection H as <- <-. cbn. rewrite E. repeat split.
Qed.

Lemma span_app f : forall a b, forallb f a = true ->
  match b with [] => True | c :: _ => f c = false end -> span f (a ++ b) = (a, b).
Proof.
  induction a as [|c a IH]; intros b Ha Hb; cbn [app].
  - destruct b as [|c b]; cbn [span]; [reflexivity|]. rewrite Hb. reflexivity.
  - cbn [forallb] in Ha. apply andb_true_iff in Ha. destruct Ha as [Hc Ha].
    cbn [span]. rewrite Hc, (IH b Ha Hb). reflexivity.
Qed.

(* -------------------------------------------------------- list helpers *)
Lemma snoc_last (g : bytes) n : length g = S n -> g = firstn n g ++ [last g 0].
Proof.
  intro L. assert (Hne : g <> []) by (destruct g; [discriminate|discriminate]).
  destruct (exists_last Hne) as (l & x & ->). rewrite last_last.
  rewrite app_length in L. cbn in L. assert (length l = n) by lia.
  rewrite firstn_app_exact by assumption. reflexivity.
Qed.

Lemma forallb_firstn {A} (f : A -> bool) n l : forallb f l = true -> forallb f (firstn n l) = true.
Proof.
  revert l. induction n as [|n IH]; intros [|x l] H; cbn; try reflexivity.
  cbn in H. apply andb_true_iff in H. destruct H as [Hx H]. rewrite Hx, IH by exact H. reflexivity.
Qed.

(* --------------------------------------------------------------- fields *)
Definition field_ok (f : field) (g : bytes) : Prop :=
  match f with
  | F128 => length g = 26%nat /\ b32_field_ok g
  | F256 => length g = 52%nat /\ b32_field_ok g
  | FNUM => canonical_dec g = true
  | FANY => b32_field_ok g
  end.

(* what may follow a field for the matcher to stop where the printer stopped *)
Definition stops (f : field) (rest : bytes) : Prop :=
  match f, rest with
  | _, [] => True
  | (F128 | F256), _ => True
  | FNUM, c :: _ => is_digit c = false
  | FANY, c :: _ => is_b32char c = false
  end.

Lemma match_b32_sound n cls s g r : match_b32 n cls s = Some (g, r) ->
  s = g ++ r /\ length g = S n /\ forallb is_b32char (firstn n g) = true /\ mem (last g 0) cls = true.
Proof.
  unfold match_b32. remember (S n) as m eqn:Em. intro H.
  destruct ((length (firstn m s) =? m)%nat && forallb is_b32char (firstn n (firstn m s))
            && mem (last (firstn m s) 0) cls) eqn:E; [|discriminate].
  injection H as <- <-. apply andb_true_iff in E. destruct E as [E E3]. apply andb_true_iff in E.
  destruct E as [E1 E2]. apply Nat.eqb_eq in E1.
  repeat split; try assumption. symmetry. apply firstn_skipn.
Qed.

Lemma match_b32_complete n cls g r : length g = S n -> forallb is_b32char g = true ->
  mem (last g 0) cls = true -> match_b32 n cls (g ++ r) = Some (g, r).
Proof.
  intros L C M. unfold match_b32. remember (S n) as m eqn:Em.
  rewrite firstn_app_exact by exact L. rewrite skipn_app_exact by exact L.
  rewrite L, Nat.eqb_refl, M, forallb_firstn by exact C. reflexivity.
Qed.

Lemma b32_all g n cls : length g = S n -> forallb is_b32char (firstn n g) = true ->
  mem (last g 0) cls = true -> forallb (fun x => mem x alphabet) cls = true -> forallb is_b32char g = true.
Proof.
  intros L C M S. rewrite (snoc_last g n L). rewrite forallb_app, C. cbn [forallb].
  rewrite andb_true_r. cbn [andb]. exact (mem_subset cls alphabet _ S M).
Qed.

Lemma anybytes_tail_field_ok g : forallb is_b32char g = true -> anybytes_tail_ok g = true -> b32_field_ok g.
Proof.
  intros C T. unfold b32_field_ok, anybytes_tail_ok in *. split; [exact C|].
  assert (P : forall q, pad_of q = (5 * q - 8 * (5 * q / 8))%nat) by reflexivity.
  destruct (length g mod 8)%nat as [|[|[|[|[|[|[|[|m]]]]]]]] eqn:E; try discriminate; split;
    try (apply mod8_legit; lia).
  - left. rewrite P. lia.
  - right. replace (pad_of (length g)) with 2%nat by (rewrite P; lia). exact T.
  - right. replace (pad_of (length g)) with 4%nat by (rewrite P; lia). exact T.
  - right. replace (pad_of (length g)) with 1%nat by (rewrite P; lia). exact T.
  - right. replace (pad_of (length g)) with 3%nat by (rewrite P; lia). exact T.
Qed.

Lemma field_ok_anybytes_tail g : b32_field_ok g -> anybytes_tail_ok g = true.
Proof.
  intros (C & L & T). unfold anybytes_tail_ok.
  destruct (legit_mod8 _ L) as [[E P]|[[E P]|[[E P]|[[E P]|[E P]]]]]; rewrite E; try reflexivity;
    (destruct T as [Z|M]; [rewrite P in Z; discriminate|rewrite P in M; exact M]).
Qed.

Lemma match_field_sound f s g r : match_field f s = Some (g, r) -> s = g ++ r /\ field_ok f g.
Proof.
  destruct f; cbn [match_field field_ok]; intro H.
  - apply match_b32_sound in H. destruct H as (E & L & C & M). split; [exact E|]. split; [exact L|].
    apply field_ok_128; [exact L| |exact M].
    apply (b32_all g 25 cls_3bits L C M). vm_compute. reflexivity.
  - apply match_b32_sound in H. destruct H as (E & L & C & M). split; [exact E|]. split; [exact L|].
    apply field_ok_256; [exact L| |exact M].
    apply (b32_all g 51 cls_1bits L C M). vm_compute. reflexivity.
  - unfold match_number in H. destruct (span is_digit s) as [d r'] eqn:Es.
    destruct (canonical_dec d) eqn:Ec; [|discriminate]. injection H as <- <-.
    apply span_spec in Es. destruct Es as (E & _ & _). split; assumption.
  - unfold match_anybytes in H. destruct (span is_b32char s) as [d r'] eqn:Es.
    destruct (anybytes_tail_ok d) eqn:Ec; [|discriminate]. injection H as <- <-.
    apply span_spec in Es. destruct Es as (E & C & _). split; [exact E|].
    apply anybytes_tail_field_ok; assumption.
Qed.

Lemma match_field_complete f g r : field_ok f g -> stops f r -> match_field f (g ++ r) = Some (g, r).
Proof.
  destruct f; cbn [match_field field_ok]; intros H S.
  - destruct H as [L H]. apply match_b32_complete; [exact L|apply H|apply field_ok_128_inv; assumption].
  - destruct H as [L H]. apply match_b32_complete; [exact L|apply H|apply field_ok_256_inv; assumption].
  - unfold match_number. apply canonical_dec_spec in H as H'. destruct H' as (_ & D & _).
    rewrite (span_app is_digit g r D); [rewrite H; reflexivity|].
    destruct r; [exact I|exact S].
  - unfold match_anybytes. rewrite (span_app is_b32char g r); [|apply H|destruct r; [exact I|exact S]].
    rewrite field_ok_anybytes_tail by exact H. reflexivity.
Qed.

(* ------------------------------------------------------- field sequences *)
Fixpoint last_stops (fs : list field) (rest : bytes) : Prop :=
  match fs with
  | [] => True
  | [f] => stops f rest
  | _ :: fs' => last_stops fs' rest
  end.

Lemma stops_colon f r : stops f (colon :: r).
Proof. destruct f; cbn; try exact I; reflexivity. Qed.

Lemma match_fields_sound : forall fs s gs rest, match_fields fs s = Some (gs, rest) ->
  s = join_colon gs ++ rest /\ Forall2 field_ok fs gs.
Proof.
  induction fs as [|f fs IH]; intros s gs rest H; cbn [match_fields] in H.
  - injection H as <- <-. split; [reflexivity|constructor].
  - destruct (match_field f s) as [[g r]|] eqn:Ef; [|discriminate].
    apply match_field_sound in Ef. destruct Ef as [Es Hg].
    destruct fs as [|f' fs'].
    + injection H as <- <-. split; [exact Es|]. constructor; [exact Hg|constructor].
    + destruct r as [|c r']; [discriminate|]. destruct (c =? colon) eqn:Ec; [|discriminate].
      apply N.eqb_eq in Ec. subst c.
      destruct (match_fields (f' :: fs') r') as [[gs' r'']|] eqn:Er; [|discriminate].
      injection H as Hgs Hrest. subst gs rest. destruct (IH r' gs' r'' Er) as [E2 F2].
      split; [|constructor; assumption].
      inversion F2 as [|f0 g' fs0 gs'' Hg' F2' Ef0 Egs']; subst gs'.
      change (join_colon (g :: g' :: gs'')) with (g ++ colon :: join_colon (g' :: gs'')).
      rewrite Es, <- app_assoc. cbn [app]. f_equal. f_equal. exact E2.
Qed.

Lemma match_fields_cons2 f f' fs s :
  match_fields (f :: f' :: fs) s =
  match match_field f s with
  | None => None
  | Some (g, r) =>
    match r with
    | c :: r' => if c =? colon then
                   match match_fields (f' :: fs) r' with
                   | Some (gs, r'') => Some (g :: gs, r'')
                   | None => None
                   end
                 else None
    | [] => None
    end
  end.
Proof. reflexivity. Qed.

Lemma match_fields_complete : forall fs gs rest, Forall2 field_ok fs gs -> last_stops fs rest ->
  match_fields fs (join_colon gs ++ rest) = Some (gs, rest).
Proof.
  induction fs as [|f fs IH]; intros gs rest F S; inversion F as [|f0 g fs0 gs' Hg F' E1 E2]; subst.
  - reflexivity.
  - destruct fs as [|f' fs'].
    + inversion F'; subst. cbn [join_colon match_fields].
      rewrite match_field_complete by assumption. reflexivity.
    + inversion F' as [|f1 g' fs1 gs'' Hg' F'' E3 E4]; subst.
      rewrite match_fields_cons2. change (join_colon (g :: g' :: gs'')) with (g ++ colon :: join_colon (g' :: gs'')).
      rewrite <- app_assoc. cbn [app].
      rewrite match_field_complete; [|exact Hg|apply stops_colon].
      rewrite N.eqb_refl. rewrite (IH (g' :: gs'') rest F' S). reflexivity.
Qed.

(* ---------------------------------------------------------------- regex *)
Definition ext_ok (k : fkind) (ext : bytes) : Prop :=
  ext = [] \/ (ending_of_kind k = EndColonOrZ /\ exists e, ext = colon :: e).

Lemma end_ok_ext k ext : end_ok (ending_of_kind k) ext = true <-> ext_ok k ext.
Proof.
  unfold ext_ok. destruct ext as [|c e]; [destruct (ending_of_kind k); cbn; tauto|].
  destruct (ending_of_kind k); cbn [end_ok]; split.
  - discriminate.
  - intros [H|[H _]]; discriminate.
  - intro H. apply N.eqb_eq in H. subst. right. split; [reflexivity|eexists; reflexivity].
  - intros [H|[_ [e' H]]]; [discriminate|]. injection H as -> _. apply N.eqb_refl.
Qed.

Lemma regex_match_sound k s gs : regex_match k s = Some gs ->
  exists ext, s = file_prefix k ++ join_colon gs ++ ext /\ Forall2 field_ok (fields_of_kind k) gs /\ ext_ok k ext.
Proof.
  unfold regex_match. destruct (strip_prefix (file_prefix k) s) as [r|] eqn:Ep; [|discriminate].
  destruct (match_fields (fields_of_kind k) r) as [[gs' rest]|] eqn:Em; [|discriminate].
  destruct (end_ok (ending_of_kind k) rest) eqn:Ee; [|discriminate]. intro H. injection H as <-.
  apply strip_prefix_some in Ep. apply match_fields_sound in Em. destruct Em as [Er F].
  exists rest. subst. repeat split; [exact F|apply end_ok_ext; exact Ee].
Qed.

Lemma last_stops_nil fs : last_stops fs [].
Proof.
  induction fs as [|f fs IH]; [exact I|]. destruct fs as [|f' fs']; [destruct f; exact I|exact IH].
Qed.

Lemma last_stops_after_b32 k ext : fields_of_kind k = [F128; F256] -> last_stops (fields_of_kind k) ext.
Proof. intros ->. cbn. destruct ext; exact I. Qed.

Lemma regex_match_complete k gs ext : Forall2 field_ok (fields_of_kind k) gs -> ext_ok k ext ->
  regex_match k (file_prefix k ++ join_colon gs ++ ext) = Some gs.
Proof.
  intros F E. unfold regex_match. rewrite strip_prefix_app.
  rewrite match_fields_complete; [|exact F|].
  - apply end_ok_ext in E. rewrite E. reflexivity.
  - destruct E as [->|[Hk [e ->]]].
    + apply last_stops_nil.
    + apply last_stops_after_b32. destruct k; try discriminate Hk; reflexivity.
Qed.

(* ---------------------------------------------------------- conversions *)
Lemma a2b_checked_ok g : b32_field_ok g -> a2b_checked g = Some (a2b g).
Proof. intro H. unfold a2b_checked. rewrite field_ok_could_be by exact H. reflexivity. Qed.

Lemma py_int_canonical g : canonical_dec g = true ->
  (py_int g = None /\ (int_max_str_digits < length g)%nat)
  \/ (exists n, py_int g = Some n /\ dec n = g /\ wf_num n = true).
Proof.
  intro H. unfold py_int. destruct (int_max_str_digits <? length g)%nat eqn:E.
  - left. apply Nat.ltb_lt in E. split; [reflexivity|exact E].
  - right. destruct (canonical_dec_inv g H) as (n & Hu & Hd). exists n.
    repeat split; [exact Hu|exact Hd|]. unfold wf_num. rewrite Hd. apply Nat.ltb_ge in E.
    apply Nat.leb_le. exact E.
Qed.

Lemma py_int_dec n : wf_num n = true -> py_int (dec n) = Some n.
Proof.
  intro H. unfold py_int. unfold wf_num in H. apply Nat.leb_le in H.
  destruct (int_max_str_digits <? length (dec n))%nat eqn:E; [apply Nat.ltb_lt in E; lia|].
  apply undec_dec.
Qed.

Lemma wf_key_a2b g : length g = 26%nat -> b32_field_ok g -> wf_key (a2b g) = true.
Proof.
  intros L H. unfold wf_key, wf_bytes. rewrite a2b_length, L, a2b_bytes_ok. reflexivity.
Qed.

Lemma wf_hash_a2b g : length g = 52%nat -> b32_field_ok g -> wf_hash (a2b g) = true.
Proof.
  intros L H. unfold wf_hash, wf_bytes. rewrite a2b_length, L, a2b_bytes_ok. reflexivity.
Qed.

Lemma wf_key_field a : wf_key a = true -> field_ok F128 (b2a a) /\ a2b (b2a a) = a.
Proof.
  unfold wf_key, wf_bytes. intro H. apply andb_true_iff in H. destruct H as [L B]. apply Nat.eqb_eq in L.
  split; [split; [rewrite b2a_length, L; reflexivity|apply b2a_field_ok; exact B]|apply a2b_b2a; exact B].
Qed.

Lemma wf_hash_field a : wf_hash a = true -> field_ok F256 (b2a a) /\ a2b (b2a a) = a.
Proof.
  unfold wf_hash, wf_bytes. intro H. apply andb_true_iff in H. destruct H as [L B]. apply Nat.eqb_eq in L.
  split; [split; [rewrite b2a_length, L; reflexivity|apply b2a_field_ok; exact B]|apply a2b_b2a; exact B].
Qed.

Ltac inv_forall2 :=
  repeat match goal with
         | H : Forall2 _ (_ :: _) _ |- _ => inversion H; clear H; subst
         | H : Forall2 _ [] _ |- _ => inversion H; clear H; subst
         end.

Ltac split_andb :=
  repeat match goal with
         | H : (_ && _)%bool = true |- _ => apply andb_true_iff in H; destruct H
         end.

(* the conversions succeed on what the regex accepted, or raise ValueError for
   an over-long numeral; never the a2b precondition *)
Lemma build_sound k gs : Forall2 field_ok (fields_of_kind k) gs ->
  (exists f, build k gs = PKnown f /\ kind_of f = k /\ groups_of f = gs /\ wf_filecap f = true)
  \/ (build k gs = PValueError /\ exists g, In g gs /\ canonical_dec g = true /\ (int_max_str_digits < length g)%nat).
Proof.
  intro F.
  destruct k; cbn [fields_of_kind] in F; inv_forall2; cbn [field_ok] in *;
    repeat match goal with H : _ /\ _ |- _ => destruct H end; cbn [build];
    repeat match goal with
           | H : b32_field_ok ?g |- context [a2b_checked ?g] => rewrite (a2b_checked_ok g H)
           end.
  1,2: repeat match goal with
         | H : canonical_dec ?g = true |- context [py_int ?g] =>
           destruct (py_int_canonical g H) as [[-> ?]|(? & -> & ? & ?)];
             [right; split; [reflexivity|exists g; split; [cbn; tauto|split; assumption]]|]
         end;
    left; eexists; split; [reflexivity|]; cbn [kind_of groups_of wf_filecap];
    repeat split; subst;
    rewrite ?b2a_a2b by assumption; try reflexivity;
    rewrite wf_key_a2b, wf_hash_a2b by assumption;
    repeat match goal with H : wf_num _ = true |- _ => rewrite H; clear H end; reflexivity.
  1: left; eexists; split; [reflexivity|]; cbn [kind_of groups_of wf_filecap]; repeat split;
    [rewrite b2a_a2b by assumption; reflexivity|apply a2b_bytes_ok].
  all: left; eexists; split; [reflexivity|]; cbn [kind_of groups_of wf_filecap]; repeat split;
    [rewrite !b2a_a2b by assumption; reflexivity|rewrite wf_key_a2b, wf_hash_a2b by assumption; reflexivity].
Qed.

Lemma groups_fields_ok f : wf_filecap f = true -> Forall2 field_ok (fields_of_kind (kind_of f)) (groups_of f).
Proof.
  destruct f; cbn [wf_filecap kind_of fields_of_kind groups_of]; intro H; split_andb;
    repeat match goal with
           | |- Forall2 _ [] [] => constructor
           | |- Forall2 _ (_ :: _) (_ :: _) => constructor
           | |- field_ok F128 _ => apply wf_key_field; assumption
           | |- field_ok F256 _ => apply wf_hash_field; assumption
           | |- field_ok FNUM _ => apply canonical_dec_dec
           | |- field_ok FANY _ => apply b2a_field_ok; assumption
           end.
Qed.

Lemma build_complete f : wf_filecap f = true -> build (kind_of f) (groups_of f) = PKnown f.
Proof.
  destruct f; cbn [wf_filecap kind_of groups_of build]; intro H; split_andb;
    repeat match goal with
           | H : wf_key ?a = true |- _ =>
             let F := fresh in let E := fresh in
             destruct (wf_key_field a H) as [[_ F] E]; rewrite (a2b_checked_ok _ F), E; clear H
           | H : wf_hash ?a = true |- _ =>
             let F := fresh in let E := fresh in
             destruct (wf_hash_field a H) as [[_ F] E]; rewrite (a2b_checked_ok _ F), E; clear H
           | H : wf_num ?n = true |- _ => rewrite (py_int_dec n H); clear H
           end; try reflexivity.
  unfold wf_bytes in H. rewrite (a2b_checked_ok _ (b2a_field_ok _ H)), a2b_b2a by exact H. reflexivity.
Qed.

(* ------------------------------------------------------ init_from_string *)
Lemma init_from_string_sound k s f : init_from_string k s = PKnown f ->
  kind_of f = k /\ wf_filecap f = true /\ exists ext, s = file_to_string f ++ ext /\ ext_ok k ext.
Proof.
  unfold init_from_string. destruct (regex_match k s) as [gs|] eqn:E; [|discriminate].
  intro H. apply regex_match_sound in E. destruct E as (ext & Es & F & X).
  destruct (build_sound k gs F) as [(f' & Hb & Hk & Hg & Hw)|[Hb _]]; rewrite Hb in H; [|discriminate].
  injection H as <-. repeat split; try assumption. exists ext. split; [|exact X].
  unfold file_to_string, file_body. rewrite Hk, Hg, <- app_assoc. exact Es.
Qed.

Lemma init_from_string_complete f ext : wf_filecap f = true -> ext_ok (kind_of f) ext ->
  init_from_string (kind_of f) (file_to_string f ++ ext) = PKnown f.
Proof.
  intros W X. unfold init_from_string, file_to_string, file_body. rewrite <- app_assoc.
  rewrite regex_match_complete; [|apply groups_fields_ok; exact W|exact X].
  apply build_complete. exact W.
Qed.

Lemma init_from_string_no_assertion k s : init_from_string k s <> PAssertion.
Proof.
  unfold init_from_string. destruct (regex_match k s) as [gs|] eqn:E; [|discriminate].
  apply regex_match_sound in E. destruct E as (ext & _ & F & _).
  destruct (build_sound k gs F) as [(f' & -> & _)|[-> _]]; discriminate.
Qed.

Lemma init_from_string_prefix k s : init_from_string k s <> PBad -> exists r, s = file_prefix k ++ r.
Proof.
  unfold init_from_string, regex_match. destruct (strip_prefix (file_prefix k) s) as [r|] eqn:E.
  - intros _. exists r. apply strip_prefix_some. exact E.
  - intro H. exfalso. apply H. reflexivity.
Qed.

Lemma dir_to_string_eq f : dir_to_string f = dir_prefix (kind_of f) ++ file_body f.
Proof.
  unfold dir_to_string, dir_to_string_opt, file_to_string. rewrite strip_prefix_app. reflexivity.
Qed.

Lemma dir_to_string_opt_some f : dir_to_string_opt f = Some (dir_to_string f).
Proof.
  unfold dir_to_string, dir_to_string_opt, file_to_string. rewrite strip_prefix_app. reflexivity.
Qed.

Lemma cap_init_sound dir k s f : cap_init_from_string dir k s = PKnown f ->
  kind_of f = k /\ wf_filecap f = true /\ exists ext, s = to_string (mk_cap dir f) ++ ext /\ ext_ok k ext.
Proof.
  destruct dir; cbn [cap_init_from_string mk_cap to_string].
  - unfold dir_init_from_string. destruct (strip_prefix (dir_prefix k) s) as [bits|] eqn:E; [|discriminate].
    intro H. apply strip_prefix_some in E. apply init_from_string_sound in H.
    destruct H as (Hk & Hw & ext & Hs & X). repeat split; try assumption. exists ext. split; [|exact X].
    rewrite dir_to_string_eq, Hk. subst s. unfold file_to_string in Hs. rewrite Hk, <- app_assoc in Hs.
    apply app_inv_head in Hs. rewrite Hs, app_assoc. reflexivity.
  - apply init_from_string_sound.
Qed.

Lemma cap_init_complete dir f ext : wf_filecap f = true -> ext_ok (kind_of f) ext ->
  cap_init_from_string dir (kind_of f) (to_string (mk_cap dir f) ++ ext) = PKnown f.
Proof.
  intros W X. destruct dir; cbn [cap_init_from_string mk_cap to_string].
  - unfold dir_init_from_string. rewrite dir_to_string_eq, <- app_assoc, strip_prefix_app.
    rewrite app_assoc. apply (init_from_string_complete f ext W X).
  - apply init_from_string_complete; assumption.
Qed.

Lemma cap_init_no_assertion dir k s : cap_init_from_string dir k s <> PAssertion.
Proof.
  destruct dir; cbn [cap_init_from_string]; [|apply init_from_string_no_assertion].
  unfold dir_init_from_string. destruct (strip_prefix (dir_prefix k) s); [apply init_from_string_no_assertion|discriminate].
Qed.

Lemma cap_init_prefix dir k s : cap_init_from_string dir k s <> PBad -> exists r, s = cap_prefix dir k ++ r.
Proof.
  destruct dir; cbn [cap_init_from_string]; [|apply init_from_string_prefix].
  unfold dir_init_from_string. destruct (strip_prefix (dir_prefix k) s) as [bits|] eqn:E.
  - intros _. exists bits. apply strip_prefix_some. exact E.
  - intro H. exfalso. apply H. reflexivity.
Qed.

Lemma to_string_prefix dir f : to_string (mk_cap dir f) = cap_prefix dir (kind_of f) ++ file_body f.
Proof. destruct dir; cbn [mk_cap to_string]; [apply dir_to_string_eq|reflexivity]. Qed.

(* -------------------------------------------------------------- dispatch *)
Definition entry_eqb (a b : bool * fkind * guard) : bool :=
  let '(d1, k1, _) := a in let '(d2, k2, _) := b in Bool.eqb d1 d2 && fkind_eqb k1 k2.

(* no dispatch prefix is a prefix of another one *)
Definition prefixes_pairwise_non_prefixing : bool :=
  forallb (fun a => forallb (fun b => entry_eqb a b || negb (starts_with (entry_prefix a) (entry_prefix b))) dispatch) dispatch.

Lemma prefixes_non_prefixing_ok : prefixes_pairwise_non_prefixing = true.
Proof. vm_compute. reflexivity. Qed.

Lemma fkind_eqb_eq a b : fkind_eqb a b = true -> a = b.
Proof. destruct a, b; cbn; congruence. Qed.

Lemma starts_with_app_l p q r : starts_with p (q ++ r) = true -> starts_with q (p ++ []) = true \/ starts_with p q = true.
Proof.
  revert q. induction p as [|x p IH]; intros q H.
  - right. reflexivity.
  - destruct q as [|y q].
    + left. reflexivity.
    + unfold starts_with in *. cbn [strip_prefix app] in *. destruct (y =? x) eqn:E; [|discriminate].
      apply N.eqb_eq in E. subst. rewrite N.eqb_refl. apply IH. exact H.
Qed.

Lemma dispatch_guard_of dir k : exists g, In (dir, k, g) dispatch.
Proof. destruct dir, k; eexists; cbn; tauto. Qed.

Lemma dispatch_find dir k rest : exists g,
  find (fun e => starts_with (entry_prefix e) (cap_prefix dir k ++ rest)) dispatch = Some (dir, k, g).
Proof. destruct dir, k; vm_compute; eexists; reflexivity. Qed.

Lemma dispatch_find_unique s dir k g :
  find (fun e => starts_with (entry_prefix e) s) dispatch = Some (dir, k, g) ->
  forall dir' k' r, s = cap_prefix dir' k' ++ r -> dir' = dir /\ k' = k.
Proof.
  intros H dir' k' r ->. destruct (dispatch_find dir' k' r) as [g' E]. rewrite E in H.
  injection H as -> -> _. split; reflexivity.
Qed.

Lemma alleged_none dir k rest :
  strip_prefix imm_prefix (cap_prefix dir k ++ rest) = None /\ strip_prefix ro_prefix (cap_prefix dir k ++ rest) = None.
Proof. destruct dir, k; vm_compute; split; reflexivity. Qed.

(* which entries can produce writeable / mutable caps *)
Lemma dispatch_guards : forall dir k g, In (dir, k, g) dispatch ->
  (is_readonly_k k = false -> g = GWriteable) /\ (is_mutable_k k = true -> g = GWriteable \/ g = GMutable).
Proof.
  intros dir k g H. cbn in H.
  repeat (destruct H as [H|H]; [injection H as <- <- <-; cbn; split; intro; try discriminate; auto|]).
  contradiction.
Qed.

(* ---------------------------------------------------------- from_string *)
Lemma strip_alleged_spec di u cbm cbw s : strip_alleged di u = (cbm, cbw, s) ->
  (u = imm_prefix ++ s /\ cbm = false /\ cbw = false)
  \/ (u = ro_prefix ++ s /\ cbm = negb di /\ cbw = false /\ strip_prefix imm_prefix u = None)
  \/ (u = s /\ cbm = negb di /\ cbw = negb di /\ strip_prefix imm_prefix u = None /\ strip_prefix ro_prefix u = None).
Proof.
  unfold strip_alleged. destruct (strip_prefix imm_prefix u) as [a|] eqn:E1.
  - intro H. injection H as <- <- <-. left. apply strip_prefix_some in E1. auto.
  - destruct (strip_prefix ro_prefix u) as [a|] eqn:E2; intro H; injection H as <- <- <-.
    + right; left. apply strip_prefix_some in E2. auto.
    + right; right. auto.
Qed.

Theorem from_string_print_parse c : wf_cap c = true -> from_string false (to_string c) = Ok c.
Proof.
  intro W. assert (exists dir f, c = mk_cap dir f /\ wf_filecap f = true) as (dir & f & -> & Wf).
  { destruct c as [f|f|s e]; [exists false, f|exists true, f|discriminate]; split; auto. }
  unfold from_string, strip_alleged. rewrite to_string_prefix.
  destruct (alleged_none dir (kind_of f) (file_body f)) as [-> ->].
  destruct (dispatch_find dir (kind_of f) (file_body f)) as [g ->].
  assert (G : guard_ok g (negb false) (negb false) = true) by (destruct g; reflexivity). rewrite G.
  rewrite <- to_string_prefix. rewrite <- (app_nil_r (to_string (mk_cap dir f))).
  rewrite cap_init_complete; [reflexivity|exact Wf|left; reflexivity].
Qed.

(* MDMF caps: an extension (":" then anything) is accepted and ignored *)
Theorem from_string_mdmf_extension c e : wf_cap c = true -> is_mdmf c = true ->
  from_string false (to_string c ++ colon :: e) = Ok c.
Proof.
  intros W M. assert (exists dir f, c = mk_cap dir f /\ wf_filecap f = true) as (dir & f & -> & Wf).
  { destruct c as [f|f|s e']; [exists false, f|exists true, f|discriminate]; split; auto. }
  unfold from_string, strip_alleged. rewrite to_string_prefix, <- app_assoc.
  destruct (alleged_none dir (kind_of f) (file_body f ++ colon :: e)) as [-> ->].
  destruct (dispatch_find dir (kind_of f) (file_body f ++ colon :: e)) as [g ->].
  assert (G : guard_ok g (negb false) (negb false) = true) by (destruct g; reflexivity). rewrite G.
  rewrite app_assoc, <- to_string_prefix.
  rewrite cap_init_complete; [reflexivity|exact Wf|].
  right. split; [|eexists; reflexivity].
  unfold is_mdmf in M. assert (inner (mk_cap dir f) = Some f) as E by (destruct dir; reflexivity).
  rewrite E in M. destruct (ending_of_kind (kind_of f)); [discriminate|reflexivity].
Qed.

(* the shape of every successful result *)
Lemma from_string_known di u c : from_string di u = Ok c -> known c = true ->
  exists cbm cbw s dir f g ext,
    strip_alleged di u = (cbm, cbw, s) /\ c = mk_cap dir f /\ In (dir, kind_of f, g) dispatch
    /\ guard_ok g cbm cbw = true /\ wf_filecap f = true
    /\ s = to_string c ++ ext /\ ext_ok (kind_of f) ext.
Proof.
  unfold from_string. destruct (strip_alleged di u) as [[cbm cbw] s] eqn:Ea.
  destruct (find (fun e => starts_with (entry_prefix e) s) dispatch) as [[[dir k] g]|] eqn:Ef.
  - destruct (guard_ok g cbm cbw) eqn:Eg.
    + destruct (cap_init_from_string dir k s) as [f| | |] eqn:Ei; intros H K; try discriminate;
        injection H as <-; try discriminate K.
      apply cap_init_sound in Ei. destruct Ei as (Hk & Hw & ext & Hs & X).
      exists cbm, cbw, s, dir, f, g, ext. apply find_some in Ef. destruct Ef as [Hin _].
      subst k. repeat split; assumption.
    + intros H K. injection H as <-. discriminate K.
  - destruct ((starts_with future_writeable s && negb cbw) || (starts_with future_mutable s && negb cbm))%bool;
      intros H K; injection H as <-; discriminate K.
Qed.

Theorem from_string_parse_print di u c : from_string di u = Ok c -> known c = true ->
  wf_cap c = true /\
  exists pre ext, In pre alleged_prefixes /\ u = pre ++ to_string c ++ ext
                  /\ (ext = [] \/ (is_mdmf c = true /\ exists e, ext = colon :: e)).
Proof.
  intros H K. destruct (from_string_known di u c H K) as (cbm & cbw & s & dir & f & g & ext & Ea & -> & _ & _ & Wf & Hs & X).
  split; [destruct dir; exact Wf|].
  assert (M : ext = [] \/ (is_mdmf (mk_cap dir f) = true /\ exists e, ext = colon :: e)).
  { destruct X as [->|[E X]]; [left; reflexivity|right]. split; [|exact X].
    unfold is_mdmf. assert (inner (mk_cap dir f) = Some f) as -> by (destruct dir; reflexivity).
    rewrite E. reflexivity. }
  apply strip_alleged_spec in Ea. unfold alleged_prefixes.
  destruct Ea as [(Eu & _)|[(Eu & _)|(Eu & _)]]; subst u s.
  - exists imm_prefix, ext. cbn; auto.
  - exists ro_prefix, ext. cbn; auto.
  - exists [], ext. cbn; auto.
Qed.

(* an UnknownURI keeps the string it was given, byte for byte *)
Theorem from_string_unknown_keeps_string di u s e : from_string di u = Ok (CUnknown s e) -> s = u.
Proof.
  unfold from_string. destruct (strip_alleged di u) as [[cbm cbw] s'].
  destruct (find (fun e => starts_with (entry_prefix e) s') dispatch) as [[[dir k] g]|].
  - destruct (guard_ok g cbm cbw).
    + destruct (cap_init_from_string dir k s') as [f| | |]; intro H; try discriminate; injection H; try (destruct dir; discriminate); auto.
    + intro H. injection H. auto.
  - destruct ((starts_with future_writeable s' && negb cbw) || (starts_with future_mutable s' && negb cbm))%bool;
      intro H; injection H; auto.
Qed.

Theorem from_string_no_assertion di u : from_string di u <> RaisesAssertion.
Proof.
  unfold from_string. destruct (strip_alleged di u) as [[cbm cbw] s'].
  destruct (find (fun e => starts_with (entry_prefix e) s') dispatch) as [[[dir k] g]|].
  - destruct (guard_ok g cbm cbw); [|discriminate].
    pose proof (cap_init_no_assertion dir k s') as N.
    destruct (cap_init_from_string dir k s'); try discriminate. contradiction.
  - destruct ((starts_with future_writeable s' && negb cbw) || (starts_with future_mutable s' && negb cbm))%bool; discriminate.
Qed.

(* ValueError only for a canonical numeral of more than 4300 digits *)
Lemma in_join_length g : forall gs, In g gs -> (length g <= length (join_colon gs))%nat.
Proof.
  induction gs as [|a gs IH]; intro H; [contradiction|].
  destruct gs as [|b gs'].
  - destruct H as [->|[]]. cbn [join_colon]. lia.
  - change (join_colon (a :: b :: gs')) with (a ++ colon :: join_colon (b :: gs')).
    rewrite app_length. cbn [length]. destruct H as [->|H]; [lia|]. specialize (IH H). lia.
Qed.

Theorem from_string_value_error di u : from_string di u = RaisesValueError ->
  exists g, canonical_dec g = true /\ (int_max_str_digits < length g)%nat /\ (length g <= length u)%nat.
Proof.
  unfold from_string. destruct (strip_alleged di u) as [[cbm cbw] s'] eqn:Ea.
  destruct (find (fun e => starts_with (entry_prefix e) s') dispatch) as [[[dir k] g]|].
  2: destruct ((starts_with future_writeable s' && negb cbw) || (starts_with future_mutable s' && negb cbm))%bool; discriminate.
  destruct (guard_ok g cbm cbw); [|discriminate].
  destruct (cap_init_from_string dir k s') as [f| | |] eqn:Ei; try discriminate. intros _.
  assert (Hlen : (length s' <= length u)%nat).
  { apply strip_alleged_spec in Ea. destruct Ea as [(-> & _)|[(-> & _)|(-> & _)]]; rewrite ?app_length; lia. }
  assert (exists p bits, init_from_string k (file_prefix k ++ bits) = PValueError /\ s' = p ++ bits) as (p & bits & Hi & Hs).
  { destruct dir; cbn [cap_init_from_string] in Ei.
    - unfold dir_init_from_string in Ei. destruct (strip_prefix (dir_prefix k) s') as [bits|] eqn:Eb; [|discriminate].
      exists (dir_prefix k), bits. split; [exact Ei|]. apply strip_prefix_some. exact Eb.
    - assert (init_from_string k s' <> PBad) as Hn by (rewrite Ei; discriminate).
      apply init_from_string_prefix in Hn. destruct Hn as [r ->]. exists (file_prefix k), r. split; [exact Ei|reflexivity]. }
  unfold init_from_string in Hi. destruct (regex_match k (file_prefix k ++ bits)) as [gs|] eqn:Er; [|discriminate].
  apply regex_match_sound in Er. destruct Er as (ext & Es & F & _).
  apply app_inv_head in Es.
  destruct (build_sound k gs F) as [(f' & Hb & _)|(_ & g0 & Hin & Hc & Hl0)]; [rewrite Hb in Hi; discriminate|].
  exists g0. repeat split; [exact Hc|exact Hl0|].
  pose proof (in_join_length g0 gs Hin) as Hj. subst s' bits. rewrite !app_length in Hlen. lia.
Qed.

(* ------------------------------------------------- never mis-read (C15) *)
(* If the parser of some kind accepts the (prefix-stripped) string, from_string
   dispatches to that very kind: the result is that cap, or -- when the context
   forbids the kind -- an UnknownURI holding the original string.  Never a cap
   of another kind. *)
Theorem from_string_never_misread di u cbm cbw s dir k f :
  strip_alleged di u = (cbm, cbw, s) -> cap_init_from_string dir k s = PKnown f ->
  exists g, In (dir, k, g) dispatch /\
            from_string di u = if guard_ok g cbm cbw then Ok (mk_cap dir f) else Ok (CUnknown u (constraint_error cbm)).
Proof.
  intros Ea Ei. assert (Hp : cap_init_from_string dir k s <> PBad) by (rewrite Ei; discriminate).
  apply cap_init_prefix in Hp. destruct Hp as [r Hs].
  destruct (dispatch_find dir k r) as [g Ef]. rewrite <- Hs in Ef.
  exists g. split; [apply find_some in Ef; apply Ef|].
  unfold from_string. rewrite Ea, Ef. destruct (guard_ok g cbm cbw); [rewrite Ei|]; reflexivity.
Qed.

(* Conversely a known result comes from the parser of its own kind, on the
   prefix-stripped string. *)
Theorem from_string_known_by_own_parser di u c : from_string di u = Ok c -> known c = true ->
  exists cbm cbw s dir f, strip_alleged di u = (cbm, cbw, s) /\ c = mk_cap dir f
                          /\ cap_init_from_string dir (kind_of f) s = PKnown f.
Proof.
  unfold from_string. destruct (strip_alleged di u) as [[cbm cbw] s] eqn:Ea.
  destruct (find (fun e => starts_with (entry_prefix e) s) dispatch) as [[[dir k] g]|] eqn:Ef.
  - destruct (guard_ok g cbm cbw).
    + destruct (cap_init_from_string dir k s) as [f| | |] eqn:Ei; intros H K; try discriminate;
        injection H as <-; try discriminate K.
      exists cbm, cbw, s, dir, f. apply cap_init_sound in Ei as Hk. destruct Hk as [Hk _]. subst k. auto.
    + intros H K. injection H as <-. discriminate K.
  - destruct ((starts_with future_writeable s && negb cbw) || (starts_with future_mutable s && negb cbm))%bool;
      intros H K; injection H as <-; discriminate K.
Qed.

(* two different dispatch prefixes never both match a string *)
Theorem dispatch_prefix_unique s dir k dir' k' r r' :
  s = cap_prefix dir k ++ r -> s = cap_prefix dir' k' ++ r' -> dir = dir' /\ k = k'.
Proof.
  intros E1 E2. destruct (dispatch_find dir k r) as [g Ef]. rewrite <- E1 in Ef.
  destruct (dispatch_find_unique s dir k g Ef dir' k' r' E2) as [-> ->]. split; reflexivity.
Qed.

(* to_string is injective on well-formed caps: equal strings, equal caps *)
Theorem to_string_injective c1 c2 : wf_cap c1 = true -> wf_cap c2 = true -> to_string c1 = to_string c2 -> c1 = c2.
Proof.
  intros W1 W2 E. pose proof (from_string_print_parse c1 W1) as P1. pose proof (from_string_print_parse c2 W2) as P2.
  rewrite E in P1. rewrite P1 in P2. injection P2 as ->. reflexivity.
Qed.

(* known caps of different kinds never print the same string (no well-formedness needed) *)
Lemma to_string_kind dir1 f1 dir2 f2 : to_string (mk_cap dir1 f1) = to_string (mk_cap dir2 f2) ->
  dir1 = dir2 /\ kind_of f1 = kind_of f2.
Proof.
  intro E. rewrite !to_string_prefix in E.
  exact (dispatch_prefix_unique _ _ _ _ _ _ _ eq_refl E).
Qed.

(* without an alleged prefix and outside the MDMF kinds the accepted string is exactly the printed one *)
Theorem from_string_parse_print_exact di u c : from_string di u = Ok c -> known c = true ->
  is_mdmf c = false -> starts_with ro_prefix u = false -> starts_with imm_prefix u = false -> to_string c = u.
Proof.
  intros H K M R I. destruct (from_string_parse_print di u c H K) as (_ & pre & ext & Hin & -> & X).
  destruct X as [->|[X _]]; [|congruence]. rewrite app_nil_r in *.
  destruct Hin as [<-|[<-|[<-|[]]]]; [reflexivity| |].
  - rewrite starts_with_app in R. discriminate.
  - rewrite starts_with_app in I. discriminate.
Qed.
