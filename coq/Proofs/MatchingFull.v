(* C08, full statements: whenever the model of servers_of_happiness returns a number,
   that number is the size of a maximum matching of the server/share relation. *)
From Coq Require Import List NArith ZArith Bool Arith Lia Permutation.
From Verif Require Import Model.Matching Proofs.Matching Proofs.MatchingLists Proofs.MatchingAugment
     Proofs.MatchingLoop Proofs.MatchingNetwork.
Import ListNotations.

Lemma flat_map_if : forall (A B : Type) (c : A -> bool) (h : A -> B) (l : list A),
  flat_map (fun x => if c x then [h x] else []) l = map h (filter c l).
Proof.
  intros A B c h. induction l as [|a r IH]; cbn [flat_map filter]; [reflexivity|].
  destruct (c a); cbn [map app]; rewrite IH; reflexivity.
Qed.

Lemma filter_map_comm : forall (A B : Type) (P : B -> bool) (h : A -> B) (l : list A),
  filter P (map h l) = map h (filter (fun x => P (h x)) l).
Proof.
  intros A B P h. induction l as [|a r IH]; cbn [map filter]; [reflexivity|].
  destruct (P (h a)); cbn [map]; rewrite IH; reflexivity.
Qed.

Lemma in_enum_from : forall (A : Type) (l : list A) k i e, In (i, e) (enum_from k l) -> In e l.
Proof.
  intros A. induction l as [|a r IH]; intros k i e H; cbn [enum_from] in H; [destruct H|].
  destruct H as [H|H]; [inversion H; subst; left; reflexivity | right; eapply IH; exact H].
Qed.

Section Full.
Variable svm : servermap.
Hypothesis Hwf : wf_svm svm.

Let g := fst (flow_network_for svm).
Let tbl := snd (flow_network_for svm).
Let ns := length svm.
Let nsh := length tbl.
Let HN : Net g ns nsh := network_is_net svm Hwf.
Let keys := map fst svm.

Definition entry_matching (f : matrix) (e : nat * (N * list N)) : list (N * N) :=
  let '(i, (p, shs)) := e in
  flat_map (fun s => if Z.eqb (mget f i (idx_of tbl s)) 1 then [(p, s)] else []) shs.

Lemma matching_of_unfold : forall f, matching_of svm tbl f = flat_map (entry_matching f) (enum_from 1 svm).
Proof.
  intros f. unfold matching_of. apply flat_map_ext. intros [i [p shs]]. reflexivity.
Qed.

Lemma NoDup_svm : NoDup svm.
Proof. apply (NoDup_map_inv fst). apply (proj1 Hwf). Qed.

Lemma vmap_entries : forall f rest k,
  1 <= k ->
  (forall j e, nth_error rest j = Some e -> nth_error svm (k - 1 + j) = Some e) ->
  map (vmap svm) (flat_map (entry_matching f) (enum_from k rest)) =
  flat_map (flow_row g f) (seq k (length rest)).
Proof.
  intros f. induction rest as [|[p shs] r IH]; intros k Hk Hsuf; cbn [enum_from flat_map length seq map]; [reflexivity|].
  rewrite map_app. f_equal.
  - pose proof (Hsuf 0 (p, shs) eq_refl) as H0. rewrite Nat.add_0_r in H0.
    assert (Hin : In (p, shs) svm) by (eapply nth_error_In; exact H0).
    pose proof (posN_nth_error svm p shs (proj1 Hwf) Hin) as Hp.
    assert (Epos : posN p (map fst svm) = k - 1).
    { apply (proj1 (NoDup_nth_error svm) NoDup_svm).
      - apply nth_error_Some. rewrite Hp. discriminate.
      - rewrite Hp, H0. reflexivity. }
    unfold entry_matching. rewrite flat_map_if, map_map.
    assert (Ha : adj g k = map (idx_of tbl) shs).
    { replace k with (S (k - 1)) by lia. apply (adj_server svm (k - 1) p shs H0). }
    unfold flow_row. rewrite Ha.
    rewrite filter_map_comm, map_map.
    apply map_ext. intros s. unfold vmap. cbn [fst snd]. rewrite Epos. f_equal. lia.
  - apply IH; [lia|]. intros j e Hj. replace (S k - 1 + j) with (k - 1 + S j) by lia. apply Hsuf. exact Hj.
Qed.

Lemma vmap_matching_of : forall f, map (vmap svm) (matching_of svm tbl f) = flow_matching g ns f.
Proof.
  intros f. rewrite matching_of_unfold. unfold flow_matching.
  apply (vmap_entries f svm 1); [lia|]. intros j e Hj. exact Hj.
Qed.

Lemma matching_of_edges : forall f p s, In (p, s) (matching_of svm tbl f) -> edge svm p s.
Proof.
  intros f p s H. rewrite matching_of_unfold in H. apply in_flat_map in H.
  destruct H as [[i [q shs]] [He Hin]]. apply in_enum_from in He.
  unfold entry_matching in Hin. apply in_flat_map in Hin. destruct Hin as [x [Hx Hin]].
  destruct (Z.eqb (mget f i (idx_of tbl x)) 1); [|destruct Hin].
  destruct Hin as [Hin|[]]. inversion Hin; subst. exists shs. split; assumption.
Qed.

Section FinalState.
Variables (f : matrix) (rg : graph).
Hypothesis HF : final_state g ns nsh f rg.

Lemma matching_of_is_matching : is_matching svm (matching_of svm tbl f).
Proof.
  destruct (flow_matching_is_matching g ns nsh HN f (proj1 HF)) as [_ [Hf1 Hf2]].
  rewrite <- vmap_matching_of in Hf1, Hf2. rewrite map_map in Hf1, Hf2.
  split; [apply matching_of_edges|]. split.
  - apply (NoDup_map_inv (fun p => S (posN p keys))). rewrite map_map. exact Hf1.
  - apply (NoDup_map_inv (idx_of tbl)). rewrite map_map. exact Hf2.
Qed.

Lemma matching_of_length : length (matching_of svm tbl f) = length (flow_matching g ns f).
Proof. rewrite <- vmap_matching_of. rewrite map_length. reflexivity. Qed.

Lemma matching_of_maximum : forall M', is_matching svm M' -> length M' <= length (matching_of svm tbl f).
Proof.
  intros M' [HE [H1 H2]]. rewrite matching_of_length, <- (map_length (vmap svm) M').
  apply (flow_matching_maximum g ns nsh HN f rg HF).
  destruct (tbl_facts svm) as [HT _].
  split; [|split].
  - intros i v Hin. apply in_map_iff in Hin. destruct Hin as [[p s] [Ev Hin]].
    unfold vmap in Ev. cbn [fst snd] in Ev. inversion Ev; subst.
    destruct (edge_vertex svm Hwf p s (HE p s Hin)) as [Hs [He _]]. split; assumption.
  - rewrite map_map. change (fun x : N * N => fst (vmap svm x)) with (fun x : N * N => S (posN (fst x) (map fst svm))).
    rewrite <- (map_map fst (fun p => S (posN p (map fst svm)))).
    apply NoDup_map_inj; [exact H1|].
    intros x y Hx Hy Exy. apply in_map_iff in Hx. destruct Hx as [[p s] [Ep Hp]]. cbn [fst] in Ep. subst x.
    apply in_map_iff in Hy. destruct Hy as [[q s'] [Eq Hq]]. cbn [fst] in Eq. subst y.
    destruct (edge_vertex svm Hwf p s (HE p s Hp)) as [_ [_ [Kp _]]].
    destruct (edge_vertex svm Hwf q s' (HE q s' Hq)) as [_ [_ [Kq _]]].
    apply (posN_inj svm (map fst svm) p q Kp Kq). lia.
  - rewrite map_map. change (fun x : N * N => snd (vmap svm x)) with (fun x : N * N => idx_of tbl (snd x)).
    rewrite <- (map_map snd (idx_of tbl)).
    apply NoDup_map_inj; [exact H2|].
    intros x y Hx Hy Exy. apply in_map_iff in Hx. destruct Hx as [[p s] [Ep Hp]]. cbn [snd] in Ep. subst x.
    apply in_map_iff in Hy. destruct Hy as [[q s'] [Eq Hq]]. cbn [snd] in Eq. subst y.
    destruct (edge_vertex svm Hwf p s (HE p s Hp)) as [_ [_ [_ Ks]]].
    destruct (edge_vertex svm Hwf q s' (HE q s' Hq)) as [_ [_ [_ Ks']]].
    eapply idx_of_inj; [exact HT | exact Ks | exact Ks' | exact Exy].
Qed.

End FinalState.

Theorem soh_servermap_correct : forall n,
  soh_servermap svm = Some n ->
  exists M, is_matching svm M /\ n = Z.of_nat (length M) /\ max_matching_size svm (length M).
Proof.
  intros n H. unfold soh_servermap in H.
  destruct (soh_state svm) as [[f rg]|] eqn:Es; [|discriminate]. inversion H; subst n. clear H.
  unfold soh_state in Es. fold g in Es.
  pose proof (max_flow_spec g ns nsh HN _ _ _ Es) as HF.
  exists (matching_of svm tbl f). split; [apply (matching_of_is_matching f rg HF)|]. split.
  - fold ns. rewrite (value_is_length g ns nsh HN f (proj1 HF)), (matching_of_length f). reflexivity.
  - split.
    + exists (matching_of svm tbl f). split; [apply (matching_of_is_matching f rg HF) | reflexivity].
    + apply (matching_of_maximum f rg HF).
Qed.

End Full.

(* ---------- corollaries in the form of Props/C08.v --------------------------------------- *)

Lemma soh_matching_full : forall svm n, wf_svm svm -> soh_servermap svm = Some n ->
  exists M, is_matching svm M /\ n = Z.of_nat (length M).
Proof.
  intros svm n Hwf H. destruct (soh_servermap_correct svm Hwf n H) as [M [H1 [H2 _]]].
  exists M. split; assumption.
Qed.

Lemma soh_maximum_full : forall svm n, wf_svm svm -> soh_servermap svm = Some n ->
  (0 <= n)%Z /\ max_matching_size svm (Z.to_nat n).
Proof.
  intros svm n Hwf H. destruct (soh_servermap_correct svm Hwf n H) as [M [_ [H2 H3]]].
  subst n. rewrite Nat2Z.id. split; [lia | exact H3].
Qed.

Lemma soh_order_independent_full : forall a b n m,
  wf_svm a -> wf_svm b -> same_edges a b ->
  soh_servermap a = Some n -> soh_servermap b = Some m -> n = m.
Proof.
  intros a b n m Wa Wb E Ha Hb.
  destruct (soh_maximum_full a n Wa Ha) as [Pa Ma].
  destruct (soh_maximum_full b m Wb Hb) as [Pb Mb].
  pose proof (max_matching_size_unique _ _ _ _ E Ma Mb). lia.
Qed.

(* ---------- shares_by_server produces a well-formed servermap ---------------------------- *)

Lemma add_share_keys : forall svm p s,
  map fst (add_share p s svm) = if memN p (map fst svm) then map fst svm else map fst svm ++ [p].
Proof.
  induction svm as [|[q l] r IH]; intros p s; cbn [add_share map fst]; [reflexivity|].
  unfold memN. cbn [existsb]. destruct (N.eqb p q) eqn:E; cbn [orb map fst].
  - reflexivity.
  - rewrite IH. unfold memN. destruct (existsb (N.eqb p) (map fst r)); reflexivity.
Qed.

Lemma add_share_wf : forall svm p s, wf_svm svm -> wf_svm (add_share p s svm).
Proof.
  intros svm p s [H1 H2]. split.
  - rewrite add_share_keys. destruct (memN p (map fst svm)) eqn:E; [exact H1|].
    apply NoDup_app_intro; [exact H1 | constructor; [intros [] | constructor] |].
    intros x Hx [Hx'|[]]. subst x. apply memN_In in Hx. rewrite Hx in E. discriminate.
  - clear H1. induction svm as [|[q l] r IH]; intros p' l' Hin; cbn [add_share] in Hin.
    + destruct Hin as [Hin|[]]. inversion Hin; subst. constructor; [intros [] | constructor].
    + assert (Hl : NoDup l) by (apply (H2 q l); left; reflexivity).
      assert (H2' : forall a b, In (a, b) r -> NoDup b) by (intros a b Hab; apply (H2 a b); right; exact Hab).
      destruct (N.eqb p q) eqn:E.
      * destruct Hin as [Hin|Hin]; [|apply (H2' p' l' Hin)].
        destruct (existsb (N.eqb s) l) eqn:Ex; inversion Hin; subst p' l'; [exact Hl|].
        apply NoDup_app_intro; [exact Hl | constructor; [intros [] | constructor] |].
        intros x Hx [Hx'|[]]. subst x. apply memN_In in Hx. unfold memN in Hx. rewrite Hx in Ex. discriminate.
      * destruct Hin as [Hin|Hin]; [inversion Hin; subst p' l'; exact Hl|].
        apply (IH H2' p' l' Hin).
Qed.

Lemma shares_by_server_wf : forall sm, wf_svm (shares_by_server sm).
Proof.
  intros sm. unfold shares_by_server.
  assert (H : forall l acc, wf_svm acc ->
              wf_svm (fold_left (fun acc e => fold_left (fun a p => add_share p (fst e) a) (snd e) acc) l acc)).
  { induction l as [|[s ps] r IH]; intros acc Hacc; cbn [fold_left fst snd]; [exact Hacc|].
    apply IH. clear IH. revert acc Hacc. induction ps as [|p ps' IHp]; intros acc Hacc; cbn [fold_left]; [exact Hacc|].
    apply IHp. apply add_share_wf. exact Hacc. }
  apply H. split; [constructor | intros p l []].
Qed.

Lemma max_matching_nil : max_matching_size [] 0.
Proof.
  split.
  - exists []. split; [|reflexivity]. split; [intros p s [] | split; constructor].
  - intros M' [HE _]. destruct M' as [|[p s] r]; [cbn [length]; lia|].
    exfalso. destruct (HE p s (or_introl eq_refl)) as [l [[] _]].
Qed.

(* the sharemap-level function: the number is the maximum matching of "server holds share" *)
Lemma servers_of_happiness_correct : forall sm n,
  servers_of_happiness sm = Some n ->
  (0 <= n)%Z /\ max_matching_size (shares_by_server sm) (Z.to_nat n).
Proof.
  intros sm n H. unfold servers_of_happiness in H. destruct sm as [|e r].
  - inversion H; subst. split; [lia|]. cbn. apply max_matching_nil.
  - apply soh_maximum_full; [apply shares_by_server_wf | exact H].
Qed.

Lemma servers_of_happiness_order : forall sm sm' n m,
  (forall p s, sm_edge sm p s <-> sm_edge sm' p s) ->
  servers_of_happiness sm = Some n -> servers_of_happiness sm' = Some m -> n = m.
Proof.
  intros sm sm' n m He Hn Hm.
  destruct (servers_of_happiness_correct _ _ Hn) as [Pn Mn].
  destruct (servers_of_happiness_correct _ _ Hm) as [Pm Mm].
  assert (Es : same_edges (shares_by_server sm) (shares_by_server sm')).
  { intros p s. rewrite !shares_by_server_edges. apply He. }
  pose proof (max_matching_size_unique _ _ _ _ Es Mn Mm). lia.
Qed.

Lemma servers_of_happiness_perm : forall sm sm' n m,
  Permutation sm sm' ->
  servers_of_happiness sm = Some n -> servers_of_happiness sm' = Some m -> n = m.
Proof.
  intros sm sm' n m P. apply servers_of_happiness_order. apply sm_edge_perm. exact P.
Qed.
