(* C07: the flow graphs built by _servermap_flow_graph and _flow_network, and what a
   matched entry of a _calculate_mappings result says about the server map. *)
From Coq Require Import List NArith ZArith Bool Arith Lia.
From Verif Require Import Model.Matching Model.Placement Proofs.Matching Proofs.MatchingLists
     Proofs.MatchingResidual Proofs.Placement Proofs.PlacementStruct.
Import ListNotations.

(* ---------- graphs of the shape  [servers] :: rows ++ [[sink]]*nsh ++ [[]] ----------------- *)

Definition layered (np nsh : nat) (rows : list (list nat)) : graph :=
  (seq 1 np :: rows) ++ repeat [np + nsh + 1] nsh ++ [[]].

Lemma layered_adj : forall np nsh rows, length rows = np ->
  length (layered np nsh rows) = np + nsh + 2 /\
  adj (layered np nsh rows) 0 = seq 1 np /\
  (forall i, i < np -> adj (layered np nsh rows) (S i) = nth i rows []) /\
  (forall j, j < nsh -> adj (layered np nsh rows) (S np + j) = [np + nsh + 1]) /\
  adj (layered np nsh rows) (np + nsh + 1) = [].
Proof.
  intros np nsh rows Hl. unfold layered, adj. split; [|split; [|split; [|split]]].
  - rewrite !app_length, repeat_length. cbn [length]. lia.
  - reflexivity.
  - intros i Hi. cbn [app nth]. rewrite app_nth1 by lia. reflexivity.
  - intros j Hj. rewrite app_nth2 by (cbn [length]; lia). cbn [length]. rewrite Hl.
    replace (S np + j - S np) with j by lia. rewrite app_nth1 by (rewrite repeat_length; exact Hj).
    apply nth_repeat_lt. exact Hj.
  - rewrite app_nth2 by (cbn [length]; lia). cbn [length]. rewrite Hl.
    rewrite app_nth2 by (rewrite repeat_length; lia). rewrite repeat_length.
    replace (np + nsh + 1 - S np - nsh) with 0 by lia. reflexivity.
Qed.

Lemma layered_range : forall np nsh rows, length rows = np ->
  (forall row v, In row rows -> In v row -> v < np + nsh + 2) ->
  forall u v, In v (adj (layered np nsh rows) u) -> v < length (layered np nsh rows).
Proof.
  intros np nsh rows Hl Hr u v Hv. destruct (layered_adj np nsh rows Hl) as [L [A0 [A1 [A2 A3]]]]. rewrite L.
  destruct u as [|u].
  - rewrite A0 in Hv. apply in_seq in Hv. lia.
  - destruct (Nat.lt_ge_cases u np) as [H1|H1].
    + rewrite (A1 u H1) in Hv. apply (Hr (nth u rows [])); [apply nth_In; lia | exact Hv].
    + destruct (Nat.lt_ge_cases u (np + nsh)) as [H2|H2].
      * replace (S u) with (S np + (u - np)) in Hv by lia. rewrite A2 in Hv by lia. destruct Hv as [Hv|[]]. lia.
      * destruct (Nat.eq_dec u (np + nsh)) as [->|H3].
        -- replace (S (np + nsh)) with (np + nsh + 1) in Hv by lia. rewrite A3 in Hv. destruct Hv.
        -- unfold adj in Hv. rewrite nth_overflow in Hv by lia. destruct Hv.
Qed.

(* ---------- the loop returns the residual graph of the flow it returns ---------------------- *)

Lemma flow_loop_residual : forall fuel g f rg cf f' rg',
  residual_network g f = (rg, cf) -> flow_loop fuel g f rg cf = Some (f', rg') ->
  exists cf', residual_network g f' = (rg', cf').
Proof.
  induction fuel as [|fuel IH]; intros g f rg cf f' rg' Hr H; cbn [flow_loop] in H; [discriminate|].
  destruct (augmenting_path_for rg) as [[path|]|]; [| |discriminate].
  - destruct (path_delta cf path) as [delta|]; [|discriminate].
    destruct (residual_network g (augment f delta path)) as [rg1 cf1] eqn:E1.
    apply (IH _ _ _ _ _ _ E1 H).
  - inversion H; subst. exists cf. exact Hr.
Qed.

Lemma max_flow_residual : forall fuel g f rg, max_flow fuel g = Some (f, rg) ->
  exists cf, residual_network g f = (rg, cf).
Proof.
  intros fuel g f rg H. unfold max_flow in H.
  destruct (residual_network g (zero_matrix (length g))) as [rg0 cf0] eqn:E0.
  apply (flow_loop_residual _ _ _ _ _ _ _ E0 H).
Qed.

(* ---------- lists ------------------------------------------------------------------------------- *)

Lemma in_combine_nth : forall (A B : Type) (l : list A) (r : list B) a b,
  In (a, b) (combine l r) -> exists j, nth_error l j = Some a /\ nth_error r j = Some b.
Proof.
  intros A B. induction l as [|x l IH]; intros r a b H; [destruct H|].
  destruct r as [|y r]; cbn [combine] in H; [destruct H|]. destruct H as [H|H].
  - inversion H; subst. exists 0. split; reflexivity.
  - destruct (IH _ _ _ H) as [j [H1 H2]]. exists (S j). split; assumption.
Qed.

Lemma nth_error_seq : forall b n j x, nth_error (seq b n) j = Some x -> x = b + j /\ j < n.
Proof.
  intros b n. revert b. induction n as [|n IH]; intros b j x H; cbn [seq] in H.
  - destruct j; discriminate.
  - destruct j as [|j]; cbn [nth_error] in H.
    + inversion H; subst. lia.
    + destruct (IH _ _ _ H). lia.
Qed.

Lemma index_of_nth_error : forall x l j, index_of x l = Some j -> nth_error l j = Some x.
Proof.
  intros x. induction l as [|y l IH]; intros j H; cbn [index_of] in H; [discriminate|].
  destruct (N.eqb x y) eqn:E.
  - apply N.eqb_eq in E. subst y. inversion H; subst. reflexivity.
  - destruct (index_of x l) as [k|]; [|discriminate]. cbn [option_map] in H. inversion H; subst.
    cbn [nth_error]. apply IH. reflexivity.
Qed.

Lemma nth_error_index_of : forall l j x, NoDup l -> nth_error l j = Some x -> index_of x l = Some j.
Proof.
  induction l as [|y l IH]; intros j x Hnd H; [destruct j; discriminate|].
  inversion Hnd as [|a b Hn Hr]; subst. cbn [index_of]. destruct j as [|j]; cbn [nth_error] in H.
  - inversion H; subst. rewrite N.eqb_refl. reflexivity.
  - destruct (N.eqb x y) eqn:E.
    + apply N.eqb_eq in E. subst y. exfalso. apply Hn. eapply nth_error_In. exact H.
    + rewrite (IH j x Hr H). reflexivity.
Qed.

Lemma in_indexed_shares : forall base so held v,
  In v (indexed_shares base so held) <-> exists s j, In s held /\ index_of s so = Some j /\ v = base + j.
Proof.
  intros base so held v. unfold indexed_shares. rewrite in_flat_map. split.
  - intros [s [Hs Hv]]. destruct (index_of s so) as [j|] eqn:E; [|destruct Hv].
    destruct Hv as [Hv|[]]. exists s, j. split; [exact Hs|]. split; [exact E | symmetry; exact Hv].
  - intros [s [j [Hs [E Hv]]]]. exists s. split; [exact Hs|]. rewrite E. left. symmetry. exact Hv.
Qed.

(* ---------- the rows of _servermap_flow_graph ------------------------------------------------------- *)

Lemma peer_row_spec : forall po base so sm p row, peer_row po base so sm p = Some row ->
  (lookupN p sm = None /\ row = []) \/
  (exists held ho, lookupN p sm = Some held /\ ordered (po_held po p held) held = Some ho /\
                   row = indexed_shares base so ho).
Proof.
  intros po base so sm p row H. unfold peer_row in H. destruct (lookupN p sm) as [held|].
  - right. destruct (ordered (po_held po p held) held) as [ho|] eqn:E; [|discriminate]. inversion H; subst.
    exists held, ho. repeat split. exact E.
  - left. inversion H; subst. split; reflexivity.
Qed.

Lemma phase_graph_layered : forall po pl so sm g, phase_graph po pl so sm = Some g ->
  exists rows, g = layered (length pl) (length so) rows /\ length rows = length pl /\
    (forall i p, nth_error pl i = Some p ->
       match sm with
       | [] => nth i rows [] = seq (S (length pl)) (length so)
       | _ => peer_row po (S (length pl)) so sm p = Some (nth i rows [])
       end).
Proof.
  intros po pl so sm g H. unfold phase_graph in H. destruct sm as [|e sm'].
  - inversion H; subst. exists (repeat (seq (S (length pl)) (length so)) (length pl)).
    split; [reflexivity|]. split; [apply repeat_length|].
    intros i p Hi. apply nth_repeat_lt. apply nth_error_Some. rewrite Hi. discriminate.
  - unfold servermap_flow_graph in H.
    destruct (option_all (map (peer_row po (S (length pl)) so (e :: sm')) pl)) as [rows|] eqn:E; [|discriminate].
    inversion H; subst. exists rows. split; [reflexivity|].
    destruct (option_all_pointwise _ _ _ _ _ E) as [L P]. split; [exact L|].
    intros i p Hi. apply P.
    assert (Hlt : i < length pl) by (apply nth_error_Some; rewrite Hi; discriminate).
    clear -Hi L Hlt. revert rows i L Hi Hlt. induction pl as [|x pl IH]; intros rows i L Hi Hlt; [cbn [length] in Hlt; lia|].
    destruct rows as [|r rows]; [cbn [length] in L; lia|]. destruct i as [|i]; cbn [nth_error combine nth] in *.
    + inversion Hi; subst. left. reflexivity.
    + right. apply IH; [cbn [length] in L; lia | exact Hi | cbn [length] in Hlt; lia].
Qed.

(* ---------- a matched entry is an edge of the phase graph ------------------------------------------- *)

Lemma share_result_head : forall rg dim si v, share_result rg dim si = Some (Some v) -> In v (adj rg si).
Proof.
  intros rg dim si v H. unfold share_result in H. destruct (adj rg si) as [|x r]; [discriminate|].
  destruct r as [|y r'].
  - destruct (Nat.eqb x (dim - 1)); inversion H; subst. left. reflexivity.
  - inversion H; subst. left. reflexivity.
Qed.

Lemma cm_entry : forall po P S sm pr s p,
  calculate_mappings po P S sm = Some pr -> In (s, Some p) (pr_mappings pr) ->
  exists pl so g rows i j f rg cf,
    ordered (po_peers po P) P = Some pl /\ ordered (po_shares po S) S = Some so /\
    phase_graph po pl so sm = Some g /\ g = layered (length pl) (length so) rows /\ length rows = length pl /\
    (forall i p, nth_error pl i = Some p ->
       match sm with
       | [] => nth i rows [] = seq (Datatypes.S (length pl)) (length so)
       | _ => peer_row po (Datatypes.S (length pl)) so sm p = Some (nth i rows [])
       end) /\
    nth_error pl i = Some p /\ nth_error so j = Some s /\
    max_flow (Datatypes.S (length pl)) g = Some (f, rg) /\ pr_flow pr = f /\ pr_residual pr = rg /\
    residual_network g f = (rg, cf) /\
    In (Datatypes.S (length pl) + j) (nth i rows []) /\
    mget f (Datatypes.S i) (Datatypes.S (length pl) + j) = 1%Z.
Proof.
  intros po P S sm pr s p H Hin.
  destruct (cm_inv _ _ _ _ _ H) as [pl [so [g [mg [E1 [E2 [E3 [E4 [E5 [E6 E7]]]]]]]]]].
  destruct pr as [ms ppl pso f rg]. cbn [pr_mappings pr_peers pr_shares pr_flow pr_residual] in *.
  destruct (cmg_inv _ _ _ _ _ _ E4) as [Hmf [rs [Er Em]]].
  destruct (phase_graph_layered _ _ _ _ _ E3) as [rows [Eg [Lrows Hrows]]].
  destruct (max_flow_residual _ _ _ _ Hmf) as [cf Hres].
  destruct (option_all_pointwise _ _ _ _ _ E5) as [L5 P5].
  destruct (in_combine_r_ex _ _ (combine so mg) _ _ (eq_sym L5) Hin) as [[s0 [si r]] Ha].
  pose proof (P5 _ _ Ha) as Hc. cbn [fst snd] in Hc.
  pose proof (convert_one_fst _ _ _ _ Hc) as Es. cbn [fst] in Es. subst s0.
  destruct (convert_one_peer _ _ _ _ _ Hc) as [i [Er' Hi]]. subst r.
  apply in_combine_l in Ha.
  destruct (in_combine_nth _ _ _ _ _ _ Ha) as [j [Hj1 Hj2]]. subst mg.
  assert (Hj2' : In (si, Some (Datatypes.S i)) (combine (seq (Datatypes.S (length pl)) (length so)) rs))
    by (eapply nth_error_In; exact Hj2).
  destruct (in_combine_nth _ _ _ _ _ _ Hj2') as [j' [Hk1 Hk2]].
  (* j' = j : both index the same position of the combined list *)
  assert (Ej : j' = j).
  { clear -Hj2 Hk1 Hk2.
    assert (G : forall (l1 : list nat) (l2 : list (option nat)) n a b, nth_error (combine l1 l2) n = Some (a, b) ->
                nth_error l1 n = Some a).
    { induction l1 as [|x l1 IH]; intros l2 n a b Hn; destruct l2 as [|y l2]; destruct n; cbn in Hn; try discriminate.
      - inversion Hn; subst. reflexivity.
      - cbn. eapply IH. exact Hn. }
    pose proof (G _ _ _ _ _ Hj2) as G1.
    destruct (nth_error_seq _ _ _ _ G1). destruct (nth_error_seq _ _ _ _ Hk1). lia. }
  subst j'. destruct (nth_error_seq _ _ _ _ Hk1) as [Esi Hjlt]. subst si.
  destruct (option_all_pointwise _ _ _ _ _ Er) as [Lr Pr].
  assert (Hsr : share_result rg (length g) (Datatypes.S (length pl) + j) = Some (Some (Datatypes.S i))).
  { apply Pr. exact Hj2'. }
  pose proof (share_result_head _ _ _ _ Hsr) as Hhead.
  assert (Hilt : i < length pl) by (apply nth_error_Some; rewrite Hi; discriminate).
  destruct (layered_adj (length pl) (length so) rows Lrows) as [LG [A0 [A1 [A2 A3]]]].
  (* rows stay in range *)
  assert (Hrange : forall u v, In v (adj g u) -> v < length g).
  { subst g. apply layered_range; [exact Lrows|].
    intros row v Hrow Hv. apply In_nth with (d := []) in Hrow. destruct Hrow as [k [Hk Ek]]. subst row.
    rewrite Lrows in Hk. destruct (nth_error pl k) as [q|] eqn:Eq; [|apply nth_error_None in Eq; lia].
    pose proof (Hrows k q Eq) as Hq. destruct sm as [|e sm'].
    - rewrite Hq in Hv. apply in_seq in Hv. lia.
    - destruct (peer_row_spec _ _ _ _ _ _ Hq) as [[_ Erow]|[held [ho [_ [_ Erow]]]]]; rewrite Erow in Hv; [destruct Hv|].
      apply in_indexed_shares in Hv. destruct Hv as [s' [j' [_ [Ei Ev]]]].
      apply index_of_nth_error in Ei. assert (j' < length so) by (apply nth_error_Some; rewrite Ei; discriminate). lia. }
  destruct (residual_network_adj g _ _ _ Hrange Hres) as [_ Hadj].
  apply Hadj in Hhead. rewrite Eg in Hhead.
  exists pl, so, g, rows, i, j, f, rg, cf.
  repeat split; try assumption; try reflexivity.
  - destruct Hhead as [[He _]|[He _]].
    + rewrite (A2 j Hjlt) in He. destruct He as [He|[]]. lia.
    + rewrite (A1 i Hilt) in He. exact He.
  - destruct Hhead as [[He _]|[_ Hf]].
    + rewrite (A2 j Hjlt) in He. destruct He as [He|[]]. lia.
    + exact Hf.
Qed.
