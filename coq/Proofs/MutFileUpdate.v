(* C09: the MDMF in-place update stores exactly the segments of the spliced byte string
   (update_is_splice), and every history of operations refines the reference byte string. *)
From Coq Require Import List Arith NArith Bool Lia.
From Verif Require Import Lib.Hex Model.MutFile Proofs.MutFileLists Proofs.MutFileRead Proofs.MutFileTU.
Import ListNotations.

(* ---- splice versus old, by position --------------------------------------------------- *)
Lemma slice_splice_before old data off a b : off <= length old -> b <= off ->
  slice a b (splice old data off) = slice a b old.
Proof.
  intros H Hb. unfold splice. rewrite slice_app, firstn_length, Nat.min_l by exact H.
  rewrite slice_firstn. rewrite (slice_nil (a - off) (b - off)) by lia. rewrite app_nil_r. f_equal. lia.
Qed.

Lemma slice_splice_after old data off a b : off <= length old -> off + length data <= a ->
  slice a b (splice old data off) = slice a b old.
Proof.
  intros H Ha. unfold splice. rewrite slice_app, firstn_length, Nat.min_l by exact H.
  rewrite (slice_past a b (firstn off old)) by (rewrite firstn_length; lia). cbn [app].
  rewrite slice_app. rewrite (slice_past _ _ data) by lia. cbn [app].
  rewrite slice_skipn. unfold slice. f_equal; [lia|]. f_equal. lia.
Qed.

(* the rewritten region: old[B:off] ++ data ++ old[off+L:E] *)
Lemma slice_splice_region old data off B E : off <= length old -> B <= off -> off + length data <= E ->
  slice B E (splice old data off) = slice B off old ++ data ++ slice (off + length data) E old.
Proof.
  intros H HB HE. unfold splice. rewrite slice_app, firstn_length, Nat.min_l by exact H.
  rewrite slice_firstn. replace (Nat.min E off) with off by lia. f_equal.
  rewrite slice_app. replace (B - off) with 0 by lia. rewrite slice_0.
  rewrite firstn_all2 by lia. f_equal.
  rewrite slice_skipn. unfold slice. f_equal; [lia|]. f_equal. lia.
Qed.

(* ---- arithmetic of the in-place path ---------------------------------------------------- *)
Section Arith.
  Variables (seg n off L : nat).
  Hypothesis Hseg : seg <> 0.
  Hypothesis Hoff : off <= n.
  Let st := off / seg.
  Let fso := off mod seg.
  Hypothesis Hst : st < div_ceil n seg.
  Let N' := Nat.max n (off + L).
  Let num' := div_ceil N' seg.
  Let end1 := if off + L =? N' then num' else div_ceil (off + L) seg.
  Let E := Nat.min (end1 * seg) N'.

  Lemma ua_off : off = st * seg + fso /\ fso < seg.
  Proof. destruct (divmod_eq off seg Hseg) as [H1 H2]. fold st fso in H1, H2. split; lia. Qed.

  Lemma ua_npos : 0 < n.
  Proof. destruct n; [|lia]. rewrite div_ceil_0 in Hst by exact Hseg. lia. Qed.

  Lemma ua_num_old : (div_ceil n seg - 1) * seg < n /\ n <= div_ceil n seg * seg.
  Proof. apply div_ceil_bounds; [exact Hseg|exact ua_npos]. Qed.

  Lemma ua_num' : (num' - 1) * seg < N' /\ N' <= num' * seg.
  Proof. apply div_ceil_bounds; [exact Hseg|]. pose proof ua_npos. unfold N'. lia. Qed.

  Lemma ua_st_lt_num' : st < num'.
  Proof.
    destruct ua_num_old as [A1 A2]. destruct ua_num' as [B1 B2].
    destruct (Nat.lt_ge_cases st num') as [H|H]; [exact H|exfalso].
    assert (num' * seg <= st * seg) by (apply Nat.mul_le_mono_r; exact H).
    assert ((st + 1) * seg <= div_ceil n seg * seg) by (apply Nat.mul_le_mono_r; lia).
    destruct ua_off. unfold N' in *. nia.
  Qed.

  (* end1 = div_ceil (off+L) seg unless the update reaches the end, and st <= end1 <= num' *)
  Lemma ua_end1 : st <= end1 /\ end1 <= num' /\
                  (end1 = st -> L = 0 /\ fso = 0 /\ off < n) /\
                  (st < end1 -> (end1 - 1) * seg < off + L /\ off + L <= end1 * seg).
  Proof.
    destruct ua_off as [O1 O2]. destruct ua_num' as [B1 B2]. pose proof ua_st_lt_num' as S'.
    unfold end1. destruct (off + L =? N') eqn:Eq.
    - apply Nat.eqb_eq in Eq. repeat split; intros; lia.
    - apply Nat.eqb_neq in Eq. assert (Hlt : off + L < n) by (unfold N' in *; lia).
      assert (HN : N' = n) by (unfold N'; lia).
      destruct (Nat.eq_dec (off + L) 0) as [Z|NZ].
      + rewrite Z, div_ceil_0 by exact Hseg.
        assert (off = 0) by lia. assert (st = 0) by (unfold st; replace off with 0 by lia; apply Nat.div_0_l; exact Hseg).
        repeat split; intros; try lia.
      + destruct (div_ceil_bounds (off + L) seg Hseg) as [C1 C2]; [lia|].
        set (c := div_ceil (off + L) seg) in *.
        assert (Hsc : st <= c).
        { destruct (Nat.le_gt_cases st c); [assumption|exfalso].
          assert ((c + 1) * seg <= st * seg) by (apply Nat.mul_le_mono_r; lia). nia. }
        assert (Hcn : c <= num').
        { destruct (Nat.le_gt_cases c num'); [assumption|exfalso].
          assert (num' * seg <= (c - 1) * seg) by (apply Nat.mul_le_mono_r; lia). lia. }
        repeat split; intros; lia.
  Qed.

  Lemma ua_E : off + L <= E /\ E <= N' /\ (end1 < num' -> E = end1 * seg) /\ (end1 = num' -> E = N') /\
               (st < end1 -> (end1 - 1) * seg < E /\ E <= end1 * seg).
  Proof.
    destruct ua_off as [O1 O2]. destruct ua_num' as [B1 B2]. destruct ua_end1 as (E1 & E2 & E3 & E4).
    unfold E.
    assert (G1 : off + L <= Nat.min (end1 * seg) N').
    { destruct (Nat.eq_dec end1 st) as [H|H].
      + destruct (E3 H) as (H1 & H2 & H3). rewrite H. unfold N'. lia.
      + destruct E4 as [_ E4]; [lia|]. unfold N'. lia. }
    split; [exact G1|]. split; [lia|]. split.
    { intros H. assert (end1 * seg <= (num' - 1) * seg) by (apply Nat.mul_le_mono_r; lia). lia. }
    split. { intros H. rewrite H. lia. }
    intros H. destruct (E4 H) as [F1 F2]. unfold N'. lia.
  Qed.

  (* the end segment *)
  Let es := update_end_segment n seg off L.
  Let eoff := (fso + L) mod seg.

  Lemma ua_eoff : eoff = (off + L) mod seg.
  Proof.
    destruct ua_off as [O1 _]. unfold eoff. rewrite O1.
    replace (st * seg + fso + L) with (seg * st + (fso + L)) by lia. symmetry. apply mod_add_mul. exact Hseg.
  Qed.

  Lemma ua_es_lt : es < div_ceil n seg.
  Proof.
    unfold es, update_end_segment. destruct (off + L <? n) eqn:H; [|exact Hst].
    apply Nat.ltb_lt in H. destruct ua_num_old as [A1 A2].
    destruct (divmod_eq (off + L - 1) seg Hseg) as [D1 D2].
    destruct (Nat.lt_ge_cases ((off + L - 1) / seg) (div_ceil n seg)) as [G|G]; [exact G|exfalso].
    assert (div_ceil n seg * seg <= (off + L - 1) / seg * seg) by (apply Nat.mul_le_mono_r; exact G). nia.
  Qed.

  (* when old end data is needed (E > off + L) it starts at offset eoff of segment es *)
  Lemma ua_es : off + L < E -> es * seg + eoff = off + L /\ E <= es * seg + seg.
  Proof.
    intros Hm. destruct ua_off as [O1 O2]. destruct ua_E as (F1 & F2 & F3 & F4 & F5).
    destruct ua_end1 as (E1 & E2 & E3 & E4).
    (* not reaching the end: off + L < n *)
    assert (Hlt : off + L < n).
    { destruct (Nat.lt_ge_cases (off + L) n) as [G|G]; [exact G|exfalso].
      assert (N' = off + L) by (unfold N'; lia). lia. }
    assert (HN : N' = n) by (unfold N'; lia).
    assert (Hend : end1 = div_ceil (off + L) seg).
    { unfold end1. destruct (off + L =? N') eqn:Q; [apply Nat.eqb_eq in Q; lia|reflexivity]. }
    assert (Hse : st < end1).
    { destruct (Nat.eq_dec end1 st) as [Z|Z]; [|lia]. exfalso. destruct (E3 Z) as (Z1 & Z2 & Z3).
      unfold E in Hm. rewrite Z in Hm. lia. }
    destruct (E4 Hse) as [G1 G2]. destruct (F5 Hse) as [G3 G4].
    rewrite ua_eoff.
    destruct (divmod_eq (off + L) seg Hseg) as [D1 D2].
    assert (Hr : (off + L) mod seg <> 0).
    { intro Z. rewrite Z in D1.
      assert (end1 = (off + L) / seg).
      { rewrite Hend. rewrite D1 at 1. rewrite Nat.add_0_r. apply div_ceil_mul. exact Hseg. }
      unfold E in Hm. rewrite H in Hm. lia. }
    assert (Hq : (off + L) / seg = end1 - 1).
    { pose proof (div_ceil_qr (off + L) seg ((off + L) / seg) ((off + L) mod seg) D1 ltac:(lia) ltac:(lia)) as Q.
      rewrite <- Hend in Q. lia. }
    assert (Hes : es = end1 - 1).
    { unfold es, update_end_segment. replace (off + L <? n) with true by (symmetry; apply Nat.ltb_lt; exact Hlt).
      destruct (div_uniq (off + L - 1) seg (end1 - 1) ((off + L) mod seg - 1)) as [Q _]; [rewrite <- Hq; lia|lia|exact Q]. }
    rewrite Hes. rewrite <- Hq at 1. split; [lia|].
    replace ((end1 - 1) * seg + seg) with (end1 * seg) by nia. exact G4.
  Qed.
End Arith.

(* ---- the in-place update ----------------------------------------------------------------- *)
Lemma seg_size_mdmf maxseg k a b : seg_size_of false maxseg k a = seg_size_of false maxseg k b.
Proof. reflexivity. Qed.

(* keep implications and disjunctions out of lia's sight until they are applied *)
Definition hide (P : Prop) : Prop := P.
Ltac hide_hyp H := let T := type of H in change (hide T) in H.

Lemma tu_size_init d o sg a b : tu_size (tu_init d o sg a b) = o + length d.
Proof. reflexivity. Qed.

Lemma update_in_place_represents maxseg k f (old data : bytes) off :
  0 < k -> 0 < maxseg -> represents false maxseg k f old -> off <= length old ->
  off / mf_segsize f < div_ceil (length old) (mf_segsize f) ->
  exists f', update_in_place maxseg f data off = Some f' /\ represents false maxseg k f' (splice old data off).
Proof.
  intros Hk Hm R Hoff Hst.
  assert (Hm' : false = false -> 0 < maxseg) by (intros _; exact Hm).
  set (seg := mf_segsize f) in *. set (n := length old) in *. set (L := length data).
  assert (Hsegv : seg = seg_size_of false maxseg k n) by (destruct R as (_ & _ & Hs & _); exact Hs).
  assert (NZ : seg <> 0).
  { rewrite Hsegv. unfold seg_size_of. pose proof (next_multiple_pos maxseg k Hk Hm). lia. }
  pose proof (ua_npos seg n off 0 NZ Hoff Hst) as Hn.
  pose proof (represents_retr_num _ _ _ _ _ R Hk Hm' Hn) as Hrn. fold seg n in Hrn.
  assert (Hlen : mf_len f = n) by (destruct R as (_ & _ & _ & Hl & _); exact Hl).
  assert (Hkf : mf_k f = k) by (destruct R as (_ & Hk' & _); exact Hk').
  assert (Hsegs : mf_segs f = map (pad k) (chunks seg old)) by (destruct R as (_ & _ & _ & _ & Hs); exact Hs).
  set (st := off / seg) in *.
  set (N' := Nat.max n (off + L)).
  set (num' := div_ceil N' seg).
  set (end1 := if off + L =? N' then num' else div_ceil (off + L) seg).
  set (E := Nat.min (end1 * seg) N').
  set (fso := off mod seg).
  set (es := update_end_segment n seg off L).
  set (eoff := (fso + L) mod seg).
  destruct (ua_off seg n off 0 NZ Hoff Hst) as [O1 O2]. fold st fso in O1, O2.
  destruct (ua_end1 seg n off L NZ Hoff Hst) as (E1 & E2 & E3 & E4). fold st N' num' end1 fso in E1, E2, E3, E4.
  destruct (ua_E seg n off L NZ Hoff Hst) as (F1 & F2 & F3 & F4 & F5). fold st N' num' end1 E in F1, F2, F3, F4, F5.
  destruct (ua_num' seg n off L NZ Hoff Hst) as [B1 B2]. fold N' num' in B1, B2.
  destruct (ua_num_old seg n off 0 NZ Hoff Hst) as [A1 A2].
  pose proof (ua_es_lt seg n off L NZ Hoff Hst) as Hes. fold es in Hes.
  pose proof (ua_st_lt_num' seg n off L NZ Hoff Hst) as Hsn. fold st N' num' in Hsn.
  pose proof (ua_es seg n off L NZ Hoff Hst) as U. fold st N' num' end1 E fso es eoff in U.
  set (new := splice old data off).
  assert (Hnewlen : length new = N') by (unfold new, N'; rewrite splice_length by exact Hoff; reflexivity).
  assert (Hdl : (if n <? off + L then off + L else n) = N').
  { unfold N'. destruct (n <? off + L) eqn:Q; [apply Nat.ltb_lt in Q|apply Nat.ltb_ge in Q]; lia. }
  assert (HN : n <= N' /\ off + L <= N') by (unfold N'; lia).
  assert (Hcase : (n < off + L /\ end1 = num') \/ (off + L <= n /\ N' = n /\ num' = div_ceil n seg)).
  { destruct (Nat.lt_ge_cases n (off + L)) as [Q|Q].
    - left. split; [exact Q|]. unfold end1. replace (off + L =? N') with true; [reflexivity|].
      symmetry. apply Nat.eqb_eq. unfold N'. lia.
    - right. assert (N' = n) by (unfold N'; lia). repeat split; try assumption. unfold num'. rewrite H. reflexivity. }
  set (p := setup_encoding_parameters false maxseg k N' (off + L) off).
  assert (Hsz : seg_size_of false maxseg k N' = seg) by (rewrite Hsegv; reflexivity).
  assert (Hpseg : e_seg p = seg) by (unfold p; rewrite sep_seg; exact Hsz).
  assert (Hpnum : e_num p = num') by (unfold p; rewrite sep_num by (rewrite Hsz; exact NZ); rewrite Hsz; reflexivity).
  assert (Hpst : e_start p = st) by (unfold p; rewrite sep_start by (rewrite Hsz; exact NZ); rewrite Hsz; reflexivity).
  assert (Hptail : e_tail p = tail_of N' seg) by (unfold p; rewrite sep_tail by (first [rewrite Hsz; exact NZ | lia]); rewrite Hsz; reflexivity).
  assert (Hpend : e_end1 p = end1).
  { unfold end1. destruct (off + L =? N') eqn:Q.
    - apply Nat.eqb_eq in Q. unfold p. rewrite Q. rewrite sep_end1_full. rewrite <- Q at 2. fold p. exact Hpnum.
    - apply Nat.eqb_neq in Q. unfold p. rewrite sep_end1_part by (try rewrite Hsz; assumption). rewrite Hsz. reflexivity. }
  assert (Htail' : tail_of N' seg = N' - (num' - 1) * seg) by (apply tail_of_eq; [exact NZ|lia]).
  assert (Hnum_old : length (chunks seg old) = div_ceil n seg) by (apply chunks_length; exact NZ).
  assert (Hnum_new : length (chunks seg new) = num') by (rewrite chunks_length by exact NZ; rewrite Hnewlen; reflexivity).
  assert (Hnn : div_ceil n seg <= num').
  { destruct (Nat.le_gt_cases (div_ceil n seg) num'); [assumption|exfalso].
    assert (num' * seg <= (div_ceil n seg - 1) * seg) by (apply Nat.mul_le_mono_r; lia). lia. }
  assert (Hnum'def : num' = div_ceil N' seg) by reflexivity.
  (* from here on N', num', end1, E are plain numbers constrained by the facts above *)
  clearbody N' num' end1 E.
  hide_hyp E3. hide_hyp E4. hide_hyp F3. hide_hyp F4. hide_hyp F5. hide_hyp U. hide_hyp Hcase.
  (* unfold the operation *)
  unfold update_in_place. rewrite Hlen. fold seg L.
  replace (off <=? n) with true by (symmetry; apply Nat.leb_le; exact Hoff). cbn [negb].
  fold st. rewrite Hrn.
  replace (st <? div_ceil n seg) with true by (symmetry; apply Nat.ltb_lt; exact Hst). cbn [negb].
  fold es.
  cbv zeta. rewrite !tu_size_init. fold L.
  rewrite Hdl, Hkf. fold p.
  rewrite Hpend, Hpst, Hpseg.
  (* the decoded boundary segments *)
  assert (Hs : decoded_segment f st = slice (st * seg) (st * seg + seg) old).
  { apply (decoded_segment_represents false maxseg k f old st R Hk Hm'). rewrite Hrn. exact Hst. }
  assert (He : decoded_segment f es = slice (es * seg) (es * seg + seg) old).
  { apply (decoded_segment_represents false maxseg k f old es R Hk Hm'). rewrite Hrn. exact Hes. }
  rewrite Hs, He.
  set (s := slice (st * seg) (st * seg + seg) old).
  set (e := slice (es * seg) (es * seg + seg) old).
  set (Rg := slice (st * seg) E new).
  (* the pushed segments are the segments of the region *)
  assert (Hpush : push_tu (end1 - st) st p (tu_init data off seg s e) = Some (chunks_n (end1 - st) seg Rg)).
  { destruct (Nat.eq_dec end1 st) as [Z|Z]; [rewrite Z, Nat.sub_diag; reflexivity|].
    assert (Hse : st < end1) by lia.
    destruct (E4 Hse) as [G1 G2]. destruct (F5 Hse) as [G3 G4].
    assert (Hfs : fso <= length s).
    { unfold s. rewrite slice_length. fold n. lia. }
    (* the region of the TransformingUploadable is Rg *)
    assert (Hreg : region data s e off seg (E - (off + L)) = Rg).
    { unfold region, Rg, new. fold fso L eoff.
      rewrite slice_splice_region by (fold L; lia). fold L.
      f_equal; [|f_equal].
      - unfold s. rewrite firstn_slice. f_equal. lia.
      - unfold e. rewrite skipn_slice, firstn_slice.
        destruct (Nat.eq_dec E (off + L)) as [Q|Q].
        + rewrite Q, Nat.sub_diag. rewrite !slice_nil by lia. reflexivity.
        + destruct U as [U1 U2]; [lia|]. rewrite U1. f_equal. lia. }
    assert (Hrl : length Rg = E - st * seg).
    { unfold Rg. rewrite slice_length, Hnewlen. lia. }
    pose proof (push_tu_chunks data s e off seg (E - (off + L)) NZ Hfs p st (end1 - st) (E - (end1 - 1) * seg)) as PT.
    fold fso L in PT. rewrite Hreg in PT.
    specialize (PT Hpseg).
    assert (M1 : end1 * seg = (end1 - 1) * seg + seg) by (apply mul_pred; lia).
    assert (M2 : (end1 - st - 1) * seg = (end1 - 1) * seg - st * seg).
    { replace (end1 - st - 1) with (end1 - 1 - st) by lia. apply Nat.mul_sub_distr_r. }
    assert (M3 : st * seg <= (end1 - 1) * seg) by (apply Nat.mul_le_mono_r; lia).
    assert (Q1 : 0 < end1 - st) by lia.
    assert (Q2 : 0 < E - (end1 - 1) * seg <= seg) by lia.
    assert (Q3 : length Rg = (end1 - st - 1) * seg + (E - (end1 - 1) * seg)) by (rewrite Hrl; lia).
    assert (Q4 : (end1 - st - 1) * seg <= fso + L) by lia.
    assert (Q5 : forall j, j < end1 - st -> seg_read_size p (st + j) = if j + 1 =? end1 - st then E - (end1 - 1) * seg else seg).
    { intros j Hj. unfold seg_read_size. rewrite Hpnum, Hptail, Hpseg.
      destruct (j + 1 =? end1 - st) eqn:Q.
      - apply Nat.eqb_eq in Q.
        destruct (st + j + 1 =? num') eqn:Q'.
        + apply Nat.eqb_eq in Q'. rewrite Htail'.
          rewrite (F4 ltac:(lia)). f_equal. f_equal. lia.
        + apply Nat.eqb_neq in Q'. rewrite (F3 ltac:(lia)). lia.
      - apply Nat.eqb_neq in Q.
        destruct (st + j + 1 =? num') eqn:Q'; [apply Nat.eqb_eq in Q'; lia|reflexivity]. }
    specialize (PT Q1 Q2 Q3 Q4 Q5 (end1 - st) 0).
    rewrite Nat.add_0_r, Nat.mul_0_l in PT. cbn [skipn] in PT.
    unfold tu_init. unfold tu_at in PT. rewrite Nat.sub_0_l in PT. apply PT. lia. }
  rewrite Hpush.
  eexists. split; [reflexivity|].
  unfold represents. cbn [mf_sdmf mf_k mf_segsize mf_len mf_segs].
  fold new. rewrite Hnewlen.
  split; [reflexivity|]. split; [reflexivity|]. split; [symmetry; exact Hsz|]. split; [reflexivity|].
  rewrite Hsegs. rewrite firstn_map, skipn_map, <- !map_app. f_equal.
  (* the segment lists agree position by position *)
  clear Hpush Hs He Hpend Hpst Hpseg Hptail Hpnum Htail' Hdl U R Hsegs Hrn Hlen Hkf.
  apply nth_ext with (d := []) (d' := []).
  - rewrite !app_length, firstn_length, skipn_length, chunks_n_length, Hnum_old, Hnum_new.
    destruct Hcase as [[C1 C2]|(C1 & C2 & C3)]; lia.
  - intros i Hi.
    rewrite !app_length, firstn_length, skipn_length, chunks_n_length, Hnum_old in Hi.
    assert (Hi' : i < num') by (destruct Hcase as [[C1 C2]|(C1 & C2 & C3)]; lia).
    rewrite (chunks_nth seg new i NZ) by (rewrite Hnewlen, <- Hnum'def; exact Hi').
    destruct (Nat.lt_ge_cases i st) as [I1|I1].
    + (* before the rewritten segments *)
      rewrite app_nth1 by (rewrite firstn_length, Hnum_old; lia).
      rewrite nth_firstn_lt by exact I1.
      rewrite chunks_nth by (try exact NZ; fold n; lia).
      unfold new. rewrite slice_splice_before; [reflexivity|exact Hoff|].
      assert ((i + 1) * seg <= st * seg) by (apply Nat.mul_le_mono_r; lia). lia.
    + rewrite app_nth2 by (rewrite firstn_length, Hnum_old; lia).
      rewrite firstn_length, Hnum_old. replace (Nat.min st (div_ceil n seg)) with st by lia.
      destruct (Nat.lt_ge_cases i end1) as [I2|I2].
      * (* a pushed segment *)
        rewrite app_nth1 by (rewrite chunks_n_length; lia).
        rewrite chunks_n_nth by lia. unfold Rg. rewrite slice_slice.
        destruct (F5 ltac:(lia)) as [G3 G4].
        assert ((i + 1) * seg <= end1 * seg) by (apply Nat.mul_le_mono_r; lia).
        assert (st * seg <= i * seg) by (apply Nat.mul_le_mono_r; lia).
        assert (M4 : (i - st) * seg = i * seg - st * seg) by apply Nat.mul_sub_distr_r.
        replace (st * seg + (i - st) * seg) with (i * seg) by lia.
        replace (st * seg + ((i - st) * seg + seg)) with (i * seg + seg) by lia.
        destruct (Nat.eq_dec end1 num') as [Q|Q].
        -- rewrite (F4 Q). rewrite <- Hnewlen. rewrite <- (slice_clip _ (i * seg + seg)). f_equal.
        -- rewrite (F3 ltac:(lia)). f_equal. lia.
      * (* after the rewritten segments: only when the update does not reach the end *)
        rewrite app_nth2 by (rewrite chunks_n_length; lia). rewrite chunks_n_length.
        destruct Hcase as [[C1 C2]|(C1 & C2 & C3)]; [lia|].
        rewrite nth_skipn. replace (end1 + (i - st - (end1 - st))) with i by lia.
        rewrite chunks_nth by (try exact NZ; fold n; lia).
        unfold new. rewrite slice_splice_after; [reflexivity|exact Hoff|]. fold L.
        assert (end1 * seg <= i * seg) by (apply Nat.mul_le_mono_r; lia).
        destruct (Nat.eq_dec end1 st) as [Z|Z].
        -- destruct (E3 Z) as (Z1 & Z2 & Z3). lia.
        -- destruct (E4 ltac:(lia)) as [G1 G2]. lia.
Qed.
