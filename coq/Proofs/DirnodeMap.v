(* C20: properties of the edits on the name map (overwrite modes, rename, link times). *)
From Coq Require Import List NArith ZArith Bool Lia.
From Verif Require Import Lib.Hex Model.Dirnode Proofs.DirnodeBase Proofs.DirnodeEdits.
Import ListNotations.
Local Open Scope N_scope.

(* ---------- JSON dicts ---------- *)
Lemma jget_jset_same k v o : jget k (jset k v o) = Some v.
Proof.
  induction o as [|[k1 v1] r IH]; cbn.
  - rewrite beqb_refl. reflexivity.
  - destruct (beqb k k1) eqn:E; cbn; rewrite E; [reflexivity|exact IH].
Qed.

Lemma jget_jset_other k k' v o : k <> k' -> jget k' (jset k v o) = jget k' o.
Proof.
  intro H. induction o as [|[k1 v1] r IH]; cbn.
  - rewrite (beqb_neq k' k) by congruence. reflexivity.
  - destruct (beqb k k1) eqn:E; cbn.
    + apply beqb_eq in E. subst k1. rewrite (beqb_neq k' k) by congruence. reflexivity.
    + destruct (beqb k' k1); [reflexivity|exact IH].
Qed.

Definition tahoe_of (m : jobj) : jobj := match jget K_tahoe m with Some (JObj s) => s | _ => [] end.
Definition linkcrtime (m : jobj) : option jval := jget K_linkcrtime (tahoe_of m).
Definition linkmotime (m : jobj) : option jval := jget K_linkmotime (tahoe_of m).

Lemma K_cr_mo : K_linkmotime <> K_linkcrtime.
Proof. intro H. vm_compute in H. discriminate. Qed.

Lemma tahoe_of_update old new now :
  exists s, tahoe_of (update_metadata old new now) = jset K_linkmotime now s /\
            (forall m t, old = Some m -> linkcrtime m = Some t -> jget K_linkcrtime s = Some t).
Proof.
  unfold update_metadata.
  set (metadata0 := match old with Some m => m | None => [] end).
  set (metadata1 := match new with
                    | None => metadata0
                    | Some nm => match jget K_tahoe metadata0 with
                                 | Some t => jset K_tahoe t (jdel K_tahoe nm)
                                 | None => jdel K_tahoe nm
                                 end
                    end).
  set (sys0 := match jget K_tahoe metadata1 with Some (JObj s) => s | _ => [] end).
  set (sys1 := match jget K_linkcrtime sys0 with
               | Some _ => sys0
               | None => match jget K_ctime metadata0 with
                         | Some c => jset K_linkcrtime c sys0
                         | None => jset K_linkcrtime now sys0
                         end
               end).
  exists sys1. split.
  - unfold tahoe_of. rewrite jget_jset_same. reflexivity.
  - intros m t -> Ht. unfold linkcrtime, tahoe_of in Ht. cbn [metadata0] in *.
    assert (E0 : sys0 = match jget K_tahoe m with Some (JObj s) => s | _ => [] end).
    { unfold sys0, metadata1, metadata0. destruct new as [nm|]; [|reflexivity].
      destruct (jget K_tahoe m) as [t0|] eqn:Et.
      - rewrite jget_jset_same. reflexivity.
      - cbn in Ht. discriminate. }
    assert (Ec : jget K_linkcrtime sys0 = Some t) by (rewrite E0; exact Ht).
    unfold sys1. rewrite Ec. exact Ec.
Qed.

Lemma update_linkmotime old new now : linkmotime (update_metadata old new now) = Some now.
Proof.
  destruct (tahoe_of_update old new now) as (s & E & _). unfold linkmotime. rewrite E. apply jget_jset_same.
Qed.

Lemma update_linkcrtime m new now t :
  linkcrtime m = Some t -> linkcrtime (update_metadata (Some m) new now) = Some t.
Proof.
  intro H. destruct (tahoe_of_update (Some m) new now) as (s & E & Hs). unfold linkcrtime at 1. rewrite E.
  rewrite jget_jset_other by exact K_cr_mo. eapply Hs; [reflexivity|exact H].
Qed.

(* update_metadata always leaves a dict under 'tahoe' *)
Lemma update_md_ok old new now : md_ok (update_metadata old new now) = true.
Proof. unfold md_ok, update_metadata. rewrite jget_jset_same. reflexivity. Qed.

Lemma update_metadata_all m new now t :
  linkmotime (update_metadata (Some m) new now) = Some now /\
  (linkcrtime m = Some t -> linkcrtime (update_metadata (Some m) new now) = Some t) /\
  md_ok (update_metadata (Some m) new now) = true.
Proof.
  split; [apply update_linkmotime|]. split; [apply update_linkcrtime|apply update_md_ok].
Qed.

Section MapFacts.
  Variable classify : bytes -> capclass.
  Variable normalize : bytes -> bytes.
  Hypothesis normalize_idem : forall x, normalize (normalize x) = normalize x.

  Local Notation a_adder := (a_adder classify normalize).
  Local Notation a_add := (a_add classify normalize).
  Local Notation a_delete := (a_delete normalize).
  Local Notation a_step := (a_step classify normalize).
  Local Notation astep := (adder_step classify normalize (node * jobj) (fun n m => (n, m)) fst snd).

  (* shape of one successful Adder iteration *)
  Lemma astep_inv ov now m e m' :
    astep ov now m e = inr m' ->
    exists chld' md', m' = sm_set (normalize (fst (fst e))) (chld', md') m /\
      md' = update_metadata (option_map snd (sm_get (normalize (fst (fst e))) m)) (snd e) now /\
      match sm_get (normalize (fst (fst e))) m with
      | None => True
      | Some c => ov <> OvFalse /\ (ov = OvOnlyFiles -> is_dir (fst c) = false)
      end.
  Proof.
    destruct e as [[namex chld] nmd]. unfold adder_step. cbn [fst snd].
    destruct (n_err chld); [discriminate|].
    destruct (sm_get (normalize namex) m) as [c|] eqn:Eg; cbn [option_map].
    - destruct ov; try discriminate.
      + destruct (no_write _); [destruct (create_readonly_node classify chld); [discriminate|]|];
          intro E; inversion E; subst; eexists _, _; (split; [reflexivity|split; [reflexivity|split; [discriminate|discriminate]]]).
      + destruct (is_dir (fst c)) eqn:Ed; [discriminate|].
        destruct (no_write _); [destruct (create_readonly_node classify chld); [discriminate|]|];
          intro E; inversion E; subst; eexists _, _; (split; [reflexivity|split; [reflexivity|split; [discriminate|reflexivity]]]).
    - destruct (no_write _); [destruct (create_readonly_node classify chld); [discriminate|]|];
        intro E; inversion E; subst; eexists _, _; auto.
  Qed.

  (* ---------------- a no-overwrite add never replaces an entry ---------------- *)
  Lemma adder_false_keeps now entries m m' :
    a_adder OvFalse now m entries = inr m' ->
    forall k v, sm_get k m = Some v -> sm_get k m' = Some v.
  Proof.
    unfold Dirnode.a_adder. revert m. induction entries as [|e r IH]; intros m E k v Hk; cbn [adder_loop] in E.
    - inversion E; subst. exact Hk.
    - destruct (astep OvFalse now m e) as [x|m1] eqn:S; [discriminate|].
      eapply IH; [exact E|].
      destruct (astep_inv _ _ _ _ _ S) as (c' & md' & -> & _ & Hc).
      destruct (bcmp k (normalize (fst (fst e)))) eqn:Ek.
      + apply bcmp_eq in Ek. subst k. rewrite Hk in Hc. destruct Hc as [Hc _]. congruence.
      + rewrite sm_get_set_other; [exact Hk|]. intro X. subst k. rewrite bcmp_refl in Ek. discriminate.
      + rewrite sm_get_set_other; [exact Hk|]. intro X. subst k. rewrite bcmp_refl in Ek. discriminate.
  Qed.

  Theorem add_no_overwrite dirs d entries now out dirs' :
    a_add dirs d entries OvFalse now = (out, dirs') ->
    forall i m k v, nth_error dirs i = Some m -> sm_get k m = Some v ->
                    exists m', nth_error dirs' i = Some m' /\ sm_get k m' = Some v.
  Proof.
    unfold Dirnode.a_add. intros E i m k v Hi Hk.
    destruct (nth_error dirs d) as [md|] eqn:Ed; [|inversion E; subst; eauto].
    destruct (a_adder OvFalse now md entries) as [x|m1] eqn:Ea; inversion E; subst; [eauto|].
    destruct (Nat.eq_dec d i) as [->|Hne].
    - rewrite Hi in Ed. inversion Ed; subst md. exists m1. split; [eapply nth_error_set_nth_same; exact Hi|].
      eapply adder_false_keeps; eassumption.
    - exists m. split; [rewrite nth_error_set_nth_other by exact Hne; exact Hi|exact Hk].
  Qed.

  (* ---------------- an only-files add never replaces a directory ---------------- *)
  Lemma adder_onlyfiles_keeps now entries m0 m m' :
    (forall k n md, sm_get k m0 = Some (n, md) -> is_dir n = true -> sm_get k m = Some (n, md)) ->
    a_adder OvOnlyFiles now m entries = inr m' ->
    forall k n md, sm_get k m0 = Some (n, md) -> is_dir n = true -> sm_get k m' = Some (n, md).
  Proof.
    unfold Dirnode.a_adder. revert m. induction entries as [|e r IH]; intros m Hinv E; cbn [adder_loop] in E.
    - inversion E; subst. exact Hinv.
    - destruct (astep OvOnlyFiles now m e) as [x|m1] eqn:S; [discriminate|].
      eapply IH; [|exact E].
      destruct (astep_inv _ _ _ _ _ S) as (c' & md' & -> & _ & Hc).
      intros k n md Hk Hd. specialize (Hinv k n md Hk Hd).
      destruct (bcmp k (normalize (fst (fst e)))) eqn:Ek.
      + apply bcmp_eq in Ek. subst k. rewrite Hinv in Hc. destruct Hc as [_ Hc]. cbn [fst] in Hc.
        rewrite (Hc eq_refl) in Hd. discriminate.
      + rewrite sm_get_set_other; [exact Hinv|]. intro X. subst k. rewrite bcmp_refl in Ek. discriminate.
      + rewrite sm_get_set_other; [exact Hinv|]. intro X. subst k. rewrite bcmp_refl in Ek. discriminate.
  Qed.

  Theorem add_only_files dirs d entries now out dirs' :
    a_add dirs d entries OvOnlyFiles now = (out, dirs') ->
    forall i m k n md, nth_error dirs i = Some m -> sm_get k m = Some (n, md) -> is_dir n = true ->
                       exists m', nth_error dirs' i = Some m' /\ sm_get k m' = Some (n, md).
  Proof.
    unfold Dirnode.a_add. intros E i m k n md Hi Hk Hd.
    destruct (nth_error dirs d) as [m0|] eqn:Ed; [|inversion E; subst; eauto].
    destruct (a_adder OvOnlyFiles now m0 entries) as [x|m1] eqn:Ea; inversion E; subst; [eauto|].
    destruct (Nat.eq_dec d i) as [->|Hne].
    - rewrite Hi in Ed. inversion Ed; subst m0. exists m1. split; [eapply nth_error_set_nth_same; exact Hi|].
      eapply (adder_onlyfiles_keeps now entries m m); eauto.
    - exists m. split; [rewrite nth_error_set_nth_other by exact Hne; exact Hi|exact Hk].
  Qed.

  (* ---------------- a failed rename changes nothing ---------------- *)
  Lemma a_add_failed dirs d entries ov now e dirs' : a_add dirs d entries ov now = (Failed e, dirs') -> dirs' = dirs.
  Proof.
    unfold Dirnode.a_add. destruct (nth_error dirs d); [|intro E; inversion E; reflexivity].
    destruct (a_adder ov now _ entries); intro E; inversion E; reflexivity.
  Qed.

  Lemma a_add_outcome dirs d entries ov now out dirs' : a_add dirs d entries ov now = (out, dirs') -> out <> Redundant.
  Proof.
    unfold Dirnode.a_add. destruct (nth_error dirs d); [|intro E; inversion E; discriminate].
    destruct (a_adder ov now _ entries); intro E; inversion E; discriminate.
  Qed.

  Theorem failed_move_changes_nothing dirs src namex dst new_namex ov now e dirs' :
    a_step dirs (OMove src namex dst new_namex ov) now = (Failed e, dirs') -> dirs' = dirs.
  Proof.
    cbn [Dirnode.a_step].
    set (cur := normalize namex). set (new := match new_namex with Some x => normalize x | None => cur end).
    assert (Hcur : normalize cur = cur) by apply normalize_idem.
    assert (Hnew : normalize new = new) by (unfold new; destruct new_namex; [apply normalize_idem|exact Hcur]).
    destruct (Nat.eqb src dst && beqb new cur) eqn:Ered; [discriminate|].
    destruct (nth_error dirs src) as [m|] eqn:Es; [|intro E; inversion E; reflexivity].
    destruct (sm_get cur m) as [[chld md]|] eqn:Eg; [|intro E; inversion E; reflexivity].
    destruct (a_add dirs dst [(new, chld, Some md)] ov now) as [[| |x] dirs1] eqn:Ea.
    - (* the add succeeded: the delete of the (still present) source link cannot fail *)
      intro H. exfalso. revert H. unfold Dirnode.a_delete.
      assert (Hsrc : exists m1, nth_error dirs1 src = Some m1 /\ sm_get cur m1 = Some (chld, md) \/
                                nth_error dirs1 src = Some m1 /\ exists v, sm_get cur m1 = Some v).
      { unfold Dirnode.a_add in Ea. destruct (nth_error dirs dst) as [md0|] eqn:Ed; [|inversion Ea].
        destruct (a_adder ov now md0 [(new, chld, Some md)]) as [x|m1] eqn:Eadd; inversion Ea; subst dirs1.
        destruct (Nat.eq_dec dst src) as [->|Hne].
        - rewrite Es in Ed. inversion Ed; subst md0. exists m1. right.
          split; [eapply nth_error_set_nth_same; exact Es|].
          unfold Dirnode.a_adder in Eadd. cbn [adder_loop] in Eadd.
          destruct (astep ov now m (new, chld, Some md)) as [x|m2] eqn:S; [discriminate|]. inversion Eadd; subst m2.
          destruct (astep_inv _ _ _ _ _ S) as (c' & md' & -> & _ & _). cbn [fst] in *.
          rewrite Hnew. rewrite Nat.eqb_refl in Ered. cbn [andb] in Ered. apply beqb_false in Ered.
          rewrite sm_get_set_other by exact Ered. eauto.
        - exists m. left. split; [rewrite nth_error_set_nth_other by exact Hne; exact Es|exact Eg]. }
      destruct Hsrc as (m1 & [[Hn Hg]|[Hn [v Hg]]]); rewrite Hn; unfold a_deleter, deleter_core; rewrite Hcur, Hg; cbn [andb]; discriminate.
    - exfalso. eapply a_add_outcome; [exact Ea|reflexivity].
    - intro E. inversion E; subst. eapply a_add_failed. exact Ea.
  Qed.

  (* ---------------- link times ---------------- *)
  Definition touched (now : jval) (v : node * jobj) : Prop := linkmotime (snd v) = Some now.
  Definition sorted_dirs (dirs : list amap) : Prop := Forall (fun m : amap => sm_sorted m = true) dirs.

  Lemma adder_touch ov now entries m m' :
    a_adder ov now m entries = inr m' ->
    forall k v', sm_get k m' = Some v' -> touched now v' \/ sm_get k m = Some v'.
  Proof.
    unfold Dirnode.a_adder. revert m. induction entries as [|e r IH]; intros m E k v' Hk; cbn [adder_loop] in E.
    - inversion E; subst. right. exact Hk.
    - destruct (astep ov now m e) as [x|m1] eqn:S; [discriminate|].
      destruct (IH _ E _ _ Hk) as [Ht|H1]; [left; exact Ht|].
      destruct (astep_inv _ _ _ _ _ S) as (c' & md' & -> & Emd & _).
      destruct (beqb (normalize (fst (fst e))) k) eqn:Ek.
      + apply beqb_eq in Ek. subst k. rewrite sm_get_set_same in H1. inversion H1; subst v'.
        left. unfold touched. cbn [snd]. rewrite Emd. apply update_linkmotime.
      + apply beqb_false in Ek. rewrite sm_get_set_other in H1 by exact Ek. right. exact H1.
  Qed.

  Lemma adder_crtime ov now entries m m' :
    a_adder ov now m entries = inr m' ->
    forall k v t, sm_get k m = Some v -> linkcrtime (snd v) = Some t ->
                  exists v', sm_get k m' = Some v' /\ linkcrtime (snd v') = Some t.
  Proof.
    unfold Dirnode.a_adder. revert m. induction entries as [|e r IH]; intros m E k v t Hk Ht; cbn [adder_loop] in E.
    - inversion E; subst. eauto.
    - destruct (astep ov now m e) as [x|m1] eqn:S; [discriminate|].
      destruct (astep_inv _ _ _ _ _ S) as (c' & md' & -> & Emd & _).
      destruct (beqb (normalize (fst (fst e))) k) eqn:Ek.
      + apply beqb_eq in Ek. subst k. rewrite Hk in Emd. cbn [option_map] in Emd.
        eapply (IH _ E); [apply sm_get_set_same|]. cbn [snd]. rewrite Emd. apply update_linkcrtime. exact Ht.
      + apply beqb_false in Ek. eapply (IH _ E); [rewrite sm_get_set_other by exact Ek; exact Hk|exact Ht].
  Qed.

  Definition TO (now : jval) (dirs dirs' : list amap) : Prop :=
    forall i m' k v', nth_error dirs' i = Some m' -> sm_get k m' = Some v' ->
                      touched now v' \/ exists m, nth_error dirs i = Some m /\ sm_get k m = Some v'.
  Definition KEEP (dirs dirs' : list amap) : Prop :=      (* every entry stays, with its link-creation time *)
    forall i m k v t, nth_error dirs i = Some m -> sm_get k m = Some v -> linkcrtime (snd v) = Some t ->
                      exists m' v', nth_error dirs' i = Some m' /\ sm_get k m' = Some v' /\ linkcrtime (snd v') = Some t.
  Definition SUB (dirs dirs' : list amap) : Prop :=       (* nothing new, nothing changed: entries only go away *)
    forall i m' k v', nth_error dirs' i = Some m' -> sm_get k m' = Some v' ->
                      exists m, nth_error dirs i = Some m /\ sm_get k m = Some v'.

  Lemma set_nth_cases {A} d (x : A) l i y :
    nth_error (set_nth d x l) i = Some y -> (i = d /\ y = x /\ exists z, nth_error l d = Some z) \/ (i <> d /\ nth_error l i = Some y).
  Proof.
    destruct (Nat.eq_dec i d) as [->|Hne].
    - intro H. destruct (nth_error l d) as [z|] eqn:E.
      + rewrite (nth_error_set_nth_same d x z l E) in H. inversion H. left. eauto.
      + exfalso. assert (L : nth_error (set_nth d x l) d <> None) by congruence.
        apply nth_error_Some in L. rewrite set_nth_length in L. apply nth_error_None in E. lia.
    - intro H. right. split; [exact Hne|]. rewrite nth_error_set_nth_other in H by congruence. exact H.
  Qed.

  Lemma add_TO_KEEP dirs d entries ov now out dirs' :
    a_add dirs d entries ov now = (out, dirs') -> TO now dirs dirs' /\ KEEP dirs dirs'.
  Proof.
    unfold Dirnode.a_add. intro E.
    assert (Hsame : dirs' = dirs -> TO now dirs dirs' /\ KEEP dirs dirs').
    { intros ->. split; [intros i m' k v' Hi Hk; right; eauto|intros i m k v t Hi Hk Ht; eauto]. }
    destruct (nth_error dirs d) as [m0|] eqn:Ed; [|apply Hsame; congruence].
    destruct (a_adder ov now m0 entries) as [x|m1] eqn:Ea; [apply Hsame; congruence|].
    clear Hsame. inversion E; subst. split.
    - intros i m' k v' Hi Hk. destruct (set_nth_cases _ _ _ _ _ Hi) as [(-> & -> & _)|(Hne & Hi')].
      + destruct (adder_touch _ _ _ _ _ Ea _ _ Hk) as [?|?]; [left; assumption|right; eauto].
      + right. eauto.
    - intros i m k v t Hi Hk Ht. destruct (Nat.eq_dec d i) as [->|Hne].
      + rewrite Hi in Ed. inversion Ed; subst m0.
        destruct (adder_crtime _ _ _ _ _ Ea _ _ _ Hk Ht) as (v' & Hk' & Ht').
        exists m1, v'. split; [eapply nth_error_set_nth_same; exact Hi|auto].
      + exists m, v. split; [rewrite nth_error_set_nth_other by exact Hne; exact Hi|auto].
  Qed.

  Lemma delete_SUB dirs d namex me mbd mbf out dirs' :
    sorted_dirs dirs -> a_delete dirs d namex me mbd mbf = (out, dirs') -> SUB dirs dirs'.
  Proof.
    unfold Dirnode.a_delete. intros Hs E.
    assert (Hsame : dirs' = dirs -> SUB dirs dirs') by (intros -> i m' k v' Hi Hk; eauto).
    destruct (nth_error dirs d) as [m0|] eqn:Ed; [|apply Hsame; congruence].
    unfold a_deleter, deleter_core in E.
    destruct (sm_get (normalize namex) m0) as [c|]; [|destruct me; apply Hsame; congruence].
    destruct (mbd && _); [apply Hsame; congruence|]. destruct (mbf && _); [apply Hsame; congruence|].
    clear Hsame. inversion E; subst.
    intros i m' k v' Hi Hk. destruct (set_nth_cases _ _ _ _ _ Hi) as [(-> & -> & _)|(Hne & Hi')]; [|eauto].
    exists m0. split; [exact Ed|].
    pose proof (Forall_nth_error _ _ _ _ Hs Ed) as Hsm. cbn beta in Hsm.
    destruct (beqb (normalize namex) k) eqn:Ek.
    - apply beqb_eq in Ek. subst k. rewrite sm_get_del_same in Hk by exact Hsm. discriminate.
    - apply beqb_false in Ek. rewrite sm_get_del_other in Hk by exact Ek. exact Hk.
  Qed.

  Lemma setmd_TO_KEEP dirs d namex md now out dirs' :
    a_step dirs (OSetMd d namex md) now = (out, dirs') -> TO now dirs dirs' /\ KEEP dirs dirs'.
  Proof.
    cbn [Dirnode.a_step]. intro E.
    assert (Hsame : dirs' = dirs -> TO now dirs dirs' /\ KEEP dirs dirs').
    { intros ->. split; [intros i m' k v' Hi Hk; right; eauto|intros i m k v t Hi Hk Ht; eauto]. }
    destruct (nth_error dirs d) as [m0|] eqn:Ed; [|apply Hsame; congruence].
    unfold a_setmd, setmd_core in E.
    destruct (sm_get (normalize namex) m0) as [[n0 md0]|] eqn:Eg; [|apply Hsame; congruence]. cbn [fst snd] in E.
    set (md' := update_metadata (Some md0) (Some md) now) in *.
    assert (Hset : forall c', TO now dirs (set_nth d (sm_set (normalize namex) (c', md') m0) dirs)
                              /\ KEEP dirs (set_nth d (sm_set (normalize namex) (c', md') m0) dirs)).
    { intro c'. split.
      - intros i m' k v' Hi Hk. destruct (set_nth_cases _ _ _ _ _ Hi) as [(-> & -> & _)|(Hne & Hi')]; [|right; eauto].
        destruct (beqb (normalize namex) k) eqn:Ek.
        + apply beqb_eq in Ek. subst k. rewrite sm_get_set_same in Hk. inversion Hk; subst v'. left.
          unfold touched, md'. cbn [snd]. apply update_linkmotime.
        + apply beqb_false in Ek. rewrite sm_get_set_other in Hk by exact Ek. right. eauto.
      - intros i m k v t Hi Hk Ht. destruct (Nat.eq_dec d i) as [->|Hne].
        + rewrite Hi in Ed. inversion Ed; subst m0.
          destruct (beqb (normalize namex) k) eqn:Ek.
          * apply beqb_eq in Ek. subst k. exists (sm_set (normalize namex) (c', md') m), (c', md').
            split; [eapply nth_error_set_nth_same; exact Hi|]. rewrite sm_get_set_same. split; [reflexivity|]. cbn [snd].
            rewrite Eg in Hk. inversion Hk; subst v. cbn [snd] in Ht. unfold md'. apply update_linkcrtime. exact Ht.
          * apply beqb_false in Ek. exists (sm_set (normalize namex) (c', md') m), v.
            split; [eapply nth_error_set_nth_same; exact Hi|]. rewrite sm_get_set_other by exact Ek. auto.
        + exists m, v. split; [rewrite nth_error_set_nth_other by exact Hne; exact Hi|auto]. }
    destruct (no_write md'); [destruct (create_readonly_node classify n0); [apply Hsame; congruence|]|];
      inversion E; subst; apply Hset.
  Qed.

  Lemma sorted_set_nth dirs d (m : amap) : sorted_dirs dirs -> sm_sorted m = true -> sorted_dirs (set_nth d m dirs).
  Proof. intros. apply Forall_set_nth; assumption. Qed.

  Lemma a_adder_sorted ov now entries m m' : sm_sorted m = true -> a_adder ov now m entries = inr m' -> sm_sorted m' = true.
  Proof.
    unfold Dirnode.a_adder. revert m. induction entries as [|e r IH]; intros m Hs E; cbn [adder_loop] in E.
    - inversion E; subst. exact Hs.
    - destruct (astep ov now m e) as [x|m1] eqn:S; [discriminate|].
      destruct (astep_inv _ _ _ _ _ S) as (c' & md' & -> & _ & _). eapply IH; [|exact E]. apply sm_set_sorted. exact Hs.
  Qed.

  Lemma add_sorted dirs d entries ov now out dirs' :
    sorted_dirs dirs -> a_add dirs d entries ov now = (out, dirs') -> sorted_dirs dirs'.
  Proof.
    unfold Dirnode.a_add. intros Hs E.
    destruct (nth_error dirs d) as [m0|] eqn:Ed; [|inversion E; subst; exact Hs].
    destruct (a_adder ov now m0 entries) as [x|m1] eqn:Ea; inversion E; subst; [exact Hs|].
    apply sorted_set_nth; [exact Hs|]. eapply a_adder_sorted; [|exact Ea]. exact (Forall_nth_error _ _ _ _ Hs Ed).
  Qed.

  Lemma delete_sorted dirs d namex me mbd mbf out dirs' :
    sorted_dirs dirs -> a_delete dirs d namex me mbd mbf = (out, dirs') -> sorted_dirs dirs'.
  Proof.
    unfold Dirnode.a_delete. intros Hs E.
    destruct (nth_error dirs d) as [m0|] eqn:Ed; [|inversion E; subst; exact Hs].
    unfold a_deleter, deleter_core in E.
    destruct (sm_get (normalize namex) m0) as [c|]; [|destruct me; inversion E; subst; exact Hs].
    destruct (mbd && _); [inversion E; subst; exact Hs|]. destruct (mbf && _); inversion E; subst; [exact Hs|].
    apply sorted_set_nth; [exact Hs|]. apply sm_del_sorted. exact (Forall_nth_error _ _ _ _ Hs Ed).
  Qed.

  (* one operation: entries are either untouched, or rewritten with linkmotime = now;
     an entry that is still there keeps its linkcrtime *)
  Theorem step_link_times dirs o now out dirs' :
    sorted_dirs dirs -> a_step dirs o now = (out, dirs') ->
    sorted_dirs dirs' /\ TO now dirs dirs' /\
    (forall i m k v t m' v', nth_error dirs i = Some m -> sm_get k m = Some v -> linkcrtime (snd v) = Some t ->
                             nth_error dirs' i = Some m' -> sm_get k m' = Some v' -> linkcrtime (snd v') = Some t).
  Proof.
    intros Hs E.
    assert (Hkeep : forall d1 d2, KEEP d1 d2 ->
              forall i m k v t m' v', nth_error d1 i = Some m -> sm_get k m = Some v -> linkcrtime (snd v) = Some t ->
                                      nth_error d2 i = Some m' -> sm_get k m' = Some v' -> linkcrtime (snd v') = Some t).
    { intros d1 d2 K i m k v t m' v' Hi Hk Ht Hi' Hk'. destruct (K _ _ _ _ _ Hi Hk Ht) as (m2 & v2 & Hi2 & Hk2 & Ht2).
      rewrite Hi' in Hi2. inversion Hi2; subst m2. rewrite Hk' in Hk2. inversion Hk2; subst v2. exact Ht2. }
    assert (Hsub : forall d1 d2, SUB d1 d2 -> TO now d1 d2 /\
              forall i m k v t m' v', nth_error d1 i = Some m -> sm_get k m = Some v -> linkcrtime (snd v) = Some t ->
                                      nth_error d2 i = Some m' -> sm_get k m' = Some v' -> linkcrtime (snd v') = Some t).
    { intros d1 d2 S. split.
      - intros i m' k v' Hi Hk. right. eapply S; eassumption.
      - intros i m k v t m' v' Hi Hk Ht Hi' Hk'. destruct (S _ _ _ _ Hi' Hk') as (m2 & Hi2 & Hk2).
        rewrite Hi in Hi2. inversion Hi2; subst m2. rewrite Hk in Hk2. inversion Hk2; subst v'. exact Ht. }
    destruct o as [d entries ov|d namex me mbd mbf|d namex md|src namex dst new_namex ov].
    - cbn [Dirnode.a_step] in E. destruct (add_TO_KEEP _ _ _ _ _ _ _ E) as [T K].
      split; [eapply add_sorted; eassumption|]. split; [exact T|apply Hkeep; exact K].
    - cbn [Dirnode.a_step] in E. split; [eapply delete_sorted; eassumption|]. apply Hsub. eapply delete_SUB; eassumption.
    - destruct (setmd_TO_KEEP _ _ _ _ _ _ _ E) as [T K]. split; [|split; [exact T|apply Hkeep; exact K]].
      cbn [Dirnode.a_step] in E. destruct (nth_error dirs d) as [m0|] eqn:Ed; [|inversion E; subst; exact Hs].
      unfold a_setmd, setmd_core in E.
      destruct (sm_get (normalize namex) m0) as [[n0 md0]|]; [|inversion E; subst; exact Hs]. cbn [fst snd] in E.
      destruct (no_write _); [destruct (create_readonly_node classify n0)|]; inversion E; subst; try exact Hs;
        (apply sorted_set_nth; [exact Hs|apply sm_set_sorted; exact (Forall_nth_error _ _ _ _ Hs Ed)]).
    - cbn [Dirnode.a_step] in E.
      assert (Hsame : dirs' = dirs -> sorted_dirs dirs' /\ TO now dirs dirs' /\
                (forall i m k v t m' v', nth_error dirs i = Some m -> sm_get k m = Some v -> linkcrtime (snd v) = Some t ->
                                         nth_error dirs' i = Some m' -> sm_get k m' = Some v' -> linkcrtime (snd v') = Some t)).
      { intros ->. split; [exact Hs|]. apply Hsub. intros i m' k v' Hi Hk. eauto. }
      destruct (Nat.eqb src dst && beqb _ _); [apply Hsame; congruence|].
      destruct (nth_error dirs src) as [m|]; [|apply Hsame; congruence].
      destruct (sm_get (normalize namex) m) as [[chld md]|]; [|apply Hsame; congruence].
      destruct (a_add dirs dst _ ov now) as [out1 dirs1] eqn:Ea.
      destruct (add_TO_KEEP _ _ _ _ _ _ _ Ea) as [T1 K1]. pose proof (add_sorted _ _ _ _ _ _ _ Hs Ea) as Hs1.
      destruct out1; try (inversion E; subst; split; [exact Hs1|split; [exact T1|apply Hkeep; exact K1]]).
      pose proof (delete_SUB _ _ _ _ _ _ _ _ Hs1 E) as S2.
      split; [eapply delete_sorted; eassumption|]. split.
      + intros i m' k v' Hi Hk. destruct (S2 _ _ _ _ Hi Hk) as (m1 & Hi1 & Hk1). eapply T1; eassumption.
      + intros i m0 k v t m' v' Hi Hk Ht Hi' Hk'.
        destruct (S2 _ _ _ _ Hi' Hk') as (m1 & Hi1 & Hk1).
        eapply (Hkeep _ _ K1); eassumption.
  Qed.

  (* with a clock that does not go backwards, link-modification times only advance *)
  Definition motime_le (T : Z) (dirs : list amap) : Prop :=
    forall i m k v z, nth_error dirs i = Some m -> sm_get k m = Some v -> linkmotime (snd v) = Some (JNum z) -> (z <= T)%Z.

  Theorem step_advances dirs o (T z : Z) out dirs' :
    sorted_dirs dirs -> motime_le T dirs -> (T <= z)%Z ->
    a_step dirs o (JNum z) = (out, dirs') ->
    motime_le z dirs' /\
    forall i m k v m' v', nth_error dirs i = Some m -> sm_get k m = Some v ->
                          nth_error dirs' i = Some m' -> sm_get k m' = Some v' ->
                          (forall t, linkcrtime (snd v) = Some t -> linkcrtime (snd v') = Some t) /\
                          (forall a, linkmotime (snd v) = Some (JNum a) ->
                                     exists b, linkmotime (snd v') = Some (JNum b) /\ (a <= b)%Z).
  Proof.
    clear normalize_idem. intros Hs Hle HT E. destruct (step_link_times _ _ _ _ _ Hs E) as (_ & T1 & C1). split.
    - intros i m' k v' z' Hi Hk Hz. destruct (T1 _ _ _ _ Hi Hk) as [Ht|(m & Hi0 & Hk0)].
      + unfold touched in Ht. rewrite Ht in Hz. inversion Hz. lia.
      + specialize (Hle _ _ _ _ _ Hi0 Hk0 Hz). lia.
    - intros i m k v m' v' Hi Hk Hi' Hk'. split.
      + intros t Ht. eapply C1; eassumption.
      + intros a Ha. destruct (T1 _ _ _ _ Hi' Hk') as [Ht|(m0 & Hi0 & Hk0)].
        * exists z. split; [exact Ht|]. specialize (Hle _ _ _ _ _ Hi Hk Ha). lia.
        * rewrite Hi in Hi0. inversion Hi0; subst m0. rewrite Hk in Hk0. inversion Hk0; subst v'.
          exists a. split; [exact Ha|lia].
  Qed.
End MapFacts.
