(* Proofs about Model/Crawler.v: what one time slice visits, and the invariants
   of whole runs (with and without kills). *)
From Coq Require Import List NArith Bool Arith Lia Sorting.Sorted FinFun.
From Verif Require Import Model.Crawler Proofs.CrawlerOrder.
Import ListNotations.

Definition pe (c : N) (ib : nat * name) : event := EProc c (fst ib) (snd ib).

Definition procs (evs : list event) : list event := filter is_proc evs.

Lemma procs_app a b : procs (a ++ b) = procs a ++ procs b.
Proof. apply filter_app. Qed.

Lemma procs_map_pe c l : procs (map (pe c) l) = map (pe c) l.
Proof. induction l as [|x l IH]; cbn; [reflexivity|]. f_equal. exact IH. Qed.

Lemma pe_inj c : forall x y, pe c x = pe c y -> x = y.
Proof. intros [i b] [j d]; unfold pe; cbn. intros H; inversion H; reflexivity. Qed.

(* events a slice may emit before its final save(s) *)
Definition front_ev (c : N) (e : event) : Prop :=
  match e with
  | EStarted c' => c' = c
  | EProc c' _ _ => c' = c
  | EPrefixDone c' _ => c' = c
  | _ => False
  end.

Lemma front_no_save c l d : Forall (front_ev c) l -> last_save l d = d.
Proof.
  induction 1 as [|e l He _ IH]; cbn; [reflexivity|].
  destruct e; cbn in He; try contradiction; exact IH.
Qed.

Lemma front_no_finished c l : Forall (front_ev c) l -> finished_cycles l = [].
Proof.
  induction 1 as [|e l He _ IH]; cbn; [reflexivity|].
  destruct e; cbn in He; try contradiction; exact IH.
Qed.

Lemma front_no_saved c l : Forall (front_ev c) l -> saved_states l = [].
Proof.
  induction 1 as [|e l He _ IH]; cbn; [reflexivity|].
  destruct e; cbn in He; try contradiction; exact IH.
Qed.

Lemma Forall_firstn {A} (P : A -> Prop) k l : Forall P l -> Forall P (firstn k l).
Proof.
  revert k; induction l as [|a l IH]; intros [|k] H; cbn; try constructor.
  - inversion H; assumption.
  - apply IH. inversion H; assumption.
Qed.

Lemma in_procs e l : In e (procs l) <-> In e l /\ is_proc e = true.
Proof. apply filter_In. Qed.

Lemma in_front_proc c c' i b l done :
  Forall (front_ev c) l -> procs l = map (pe c) done ->
  In (EProc c' i b) l -> c' = c /\ In (i, b) done.
Proof.
  intros F P I.
  assert (I2 : In (EProc c' i b) (procs l)) by (apply in_procs; split; [exact I|reflexivity]).
  rewrite P in I2. apply in_map_iff in I2 as ([j d] & E & I3). unfold pe in E; cbn in E.
  inversion E; subst. split; [reflexivity|exact I3].
Qed.

Lemma last_save_app a b d : last_save (a ++ b) d = last_save b (last_save a d).
Proof.
  revert d; induction a as [|e a IH]; intros d; cbn; [reflexivity|].
  destruct e; apply IH.
Qed.

Lemma finished_app a b : finished_cycles (a ++ b) = finished_cycles a ++ finished_cycles b.
Proof.
  induction a as [|e a IH]; cbn; [reflexivity|]. destruct e; cbn; rewrite ?IH; reflexivity.
Qed.

Lemma saved_app a b : saved_states (a ++ b) = saved_states a ++ saved_states b.
Proof.
  induction a as [|e a IH]; cbn; [reflexivity|]. destruct e; cbn; rewrite ?IH; reflexivity.
Qed.

Lemma NoDup_app_intro {A} (a b : list A) :
  NoDup a -> NoDup b -> (forall x, In x a -> In x b -> False) -> NoDup (a ++ b).
Proof.
  induction 1 as [|x a NI ND IH]; intros Hb D; cbn; [exact Hb|].
  constructor.
  - rewrite in_app_iff. intros [I|I]; [exact (NI I)|]. exact (D x (or_introl eq_refl) I).
  - apply IH; [exact Hb|]. intros y Ia Ib. exact (D y (or_intror Ia) Ib).
Qed.

Lemma NoDup_app_l {A} (a b : list A) : NoDup (a ++ b) -> NoDup a.
Proof.
  induction a as [|x a IH]; cbn; intros H; [constructor|].
  inversion H; subst. constructor; [|apply IH; assumption].
  intros I; apply H2. apply in_app_iff; left; exact I.
Qed.

Lemma NoDup_app_disj {A} (a b : list A) x : NoDup (a ++ b) -> In x a -> In x b -> False.
Proof.
  induction a as [|y a IH]; cbn; intros H Ia Ib; [contradiction|].
  inversion H; subst. destruct Ia as [->|Ia].
  - apply H2. apply in_app_iff; right; exact Ib.
  - exact (IH H3 Ia Ib).
Qed.

Lemma NoDup_filter {A} (f : A -> bool) l : NoDup l -> NoDup (filter f l).
Proof.
  induction 1 as [|x l NI ND IH]; cbn; [constructor|].
  destruct (f x); [constructor|]; auto. intros I; apply NI. apply filter_In in I. tauto.
Qed.

Lemma split_app_cases {A} (tr new pre post : list A) x :
  tr ++ new = pre ++ x :: post ->
  (exists post1, tr = pre ++ x :: post1) \/ (exists pre2, pre = tr ++ pre2 /\ new = pre2 ++ x :: post).
Proof.
  intros H. apply app_eq_app in H as (l & [[H1 H2]|[H1 H2]]).
  - destruct l as [|y l]; cbn in H2.
    + right. exists []. rewrite app_nil_r in H1. subst. split; [symmetry; apply app_nil_r|reflexivity].
    + inversion H2; subst. left. exists l. reflexivity.
  - right. exists l. split; assumption.
Qed.

(* the crawler sits between two cycles; its listing cache, if any, is not the
   entry of prefix 0 (it does not depend on any directory contents) *)
Definition idle_ok (m : mstate) : Prop :=
  ps_current (ms_p m) = None /\ ps_next (ms_p m) = 0 /\ ps_lcb (ms_p m) = None /\
  forall j, fst (ms_cache m) = Some j -> 0 < j.

(* A restarted process starts from the state the slice began with or from a
   state written by a save_state call of that slice, never from anything else
   (in particular never from scratch once something was saved). *)
Lemma last_save_cases evs d : last_save evs d = d \/ In (ESave (last_save evs d)) evs.
Proof.
  revert d; induction evs as [|e evs IH]; intros d; cbn; [left; reflexivity|].
  destruct e; try (destruct (IH d) as [H|H]; [left; exact H|right; right; exact H]).
  destruct (IH p) as [H|H]; [right; left; rewrite H; reflexivity|right; right; exact H].
Qed.

Lemma restart_state_ok dirs m s evs m' k :
  sl_kill s = Some k -> do_slice dirs m s = (evs, m') ->
  m' = load (ms_p m) \/ exists p, In (ESave p) evs /\ m' = load p.
Proof.
  intros K H. unfold do_slice in H. destruct (run_slice dirs m (sl_ticks s)) as [evs0 m0]. rewrite K in H.
  injection H as <- <-. destruct (last_save_cases (firstn k evs0) (ms_p m)) as [E|E].
  - left. rewrite E. reflexivity.
  - right. eexists. split; [exact E|reflexivity].
Qed.

Lemma crash_in_save_ok dirs m ticks k t evs m' :
  do_slice dirs m (mk_slice ticks (crash_in_save k t)) = (evs, m') ->
  m' = load (ms_p m) \/ exists p, In (ESave p) evs /\ m' = load p.
Proof. intros H. eapply restart_state_ok; [|exact H]. reflexivity. Qed.

Section Dirs.
  Variable dirs : list (list name).

  Definition P := length dirs.
  Definition sdir (i : nat) : list name := isort (listing dirs i).

  (* Each directory's sorted listing is strictly increasing (no duplicate
     names), and names in a later prefix directory are greater than names in an
     earlier one. *)
  Hypothesis HS : forall i, StronglySorted nlt (sdir i).
  Hypothesis HX : forall i j a b, i < j -> In a (sdir i) -> In b (sdir j) -> nlt a b.

  Definition enum_range (n k : nat) : list (nat * name) :=
    flat_map (fun j => map (pair j) (sdir j)) (seq n k).

  Definition all_buckets : list (nat * name) := enum_range 0 P.

  Definition todoL (n : nat) (lcb : option name) : list (nat * name) :=
    filter (fun ib => notskip lcb (snd ib)) (enum_range n (P - n)).

  Lemma in_enum_range n k j b : In (j, b) (enum_range n k) <-> (n <= j < n + k) /\ In b (sdir j).
  Proof.
    unfold enum_range. rewrite in_flat_map. split.
    - intros (j' & I1 & I2). apply in_seq in I1. apply in_map_iff in I2 as (b' & E & I3).
      inversion E; subst. split; [lia|exact I3].
    - intros (R & I). exists j. split; [apply in_seq; lia|]. apply in_map_iff. exists b. split; [reflexivity|exact I].
  Qed.

  Lemma sdir_out i : P <= i -> sdir i = [].
  Proof. intros H. unfold sdir, listing. rewrite nth_overflow; [reflexivity|exact H]. Qed.

  Lemma in_all j b : In (j, b) all_buckets <-> In b (sdir j).
  Proof.
    unfold all_buckets. rewrite in_enum_range. split; [tauto|]. intros I. split; [|exact I].
    destruct (le_lt_dec P j) as [L|L]; [|lia]. rewrite (sdir_out j L) in I. contradiction.
  Qed.

  Lemma NoDup_enum_range n k : NoDup (enum_range n k).
  Proof.
    revert n; induction k as [|k IH]; intros n; cbn; [constructor|].
    unfold enum_range in *. cbn. apply NoDup_app_intro.
    - apply FinFun.Injective_map_NoDup; [intros x y E; inversion E; reflexivity|].
      apply sorted_NoDup. apply HS.
    - apply IH.
    - intros [j b] I1 I2. apply in_map_iff in I1 as (b' & E & _). inversion E; subst.
      apply (in_enum_range (S j) k j b) in I2. lia.
  Qed.

  Lemma enum_range_S n k : enum_range n (S k) = map (pair n) (sdir n) ++ enum_range (S n) k.
  Proof. reflexivity. Qed.

  Lemma filter_map_pair (g : name -> bool) n d :
    filter (fun ib : nat * name => g (snd ib)) (map (pair n) d) = map (pair n) (filter g d).
  Proof.
    induction d as [|b d IH]; cbn; [reflexivity|]. destruct (g b); cbn; rewrite IH; reflexivity.
  Qed.

  (* buckets of later prefix directories are not skipped *)
  Definition Pre (n : nat) (lcb : option name) : Prop :=
    forall j b, n < j -> In b (sdir j) -> skips lcb b = false.

  Lemma todoL_later n lcb : Pre n lcb -> n < P ->
    todoL n lcb = map (pair n) (filter (notskip lcb) (sdir n)) ++ enum_range (S n) (P - S n).
  Proof.
    intros HP L. unfold todoL. replace (P - n) with (S (P - S n)) by lia.
    rewrite enum_range_S, filter_app, filter_map_pair. f_equal.
    apply filter_all_true. intros [j b] I. apply in_enum_range in I as (R & I). cbn.
    unfold notskip. rewrite (HP j b); [reflexivity|lia|exact I].
  Qed.

  Lemma todoL_all_later n lcb : Pre n lcb -> todoL (S n) lcb = enum_range (S n) (P - S n).
  Proof.
    intros HP. unfold todoL. apply filter_all_true. intros [j b] I.
    apply in_enum_range in I as (R & I). cbn. unfold notskip. rewrite (HP j b); [reflexivity|lia|exact I].
  Qed.

  Lemma todoL_end lcb : todoL P lcb = [].
  Proof. unfold todoL. rewrite Nat.sub_diag. reflexivity. Qed.

  Lemma todoL_sub n lcb ib : In ib (todoL n lcb) -> In ib all_buckets.
  Proof.
    destruct ib as [j b]. unfold todoL. rewrite filter_In, in_enum_range, in_all. tauto.
  Qed.

  Lemma NoDup_todoL n lcb : NoDup (todoL n lcb).
  Proof. apply NoDup_filter, NoDup_enum_range. Qed.

  (* The one-entry listing cache.  It may be stale (left over from an earlier
     cycle, possibly over other directory contents) as long as its prefix index
     lies ahead of a prefix that will be listed first: listing a prefix always
     replaces the entry.  With at least two prefix directories the entry left by
     a finished cycle (the last prefix) is therefore harmless. *)
  Hypothesis HP2 : 2 <= P.

  Definition cache_okw (n : nat) (cache : option nat * list name) : Prop :=
    forall j, fst cache = Some j -> snd cache = sdir j \/ n < j.

  Definition cache_at (j : nat) (cache : option nat * list name) : Prop :=
    fst cache = Some j /\ snd cache = sdir j.

  Lemma Pre_step n lcb lcb1 :
    Pre n lcb -> (lcb1 = lcb \/ exists b, lcb1 = Some b /\ In b (sdir n) /\ notskip lcb b = true) -> Pre n lcb1.
  Proof.
    intros HP [->|(b & -> & I & _)]; [exact HP|].
    intros j d L Id. cbn. exact (HX n j b d L I Id).
  Qed.

  Lemma Pre_weaken n m lcb : Pre n lcb -> n <= m -> Pre m lcb.
  Proof. intros HP L j b Lj I. apply (HP j b); [lia|exact I]. Qed.

  Lemma prefix_loop_spec c : forall k n lcb cache o evs next' lcb' cache' x,
    k = P - n -> n <= P -> Pre n lcb -> cache_okw n cache ->
    prefix_loop dirs c (seq n k) n lcb cache o = (evs, next', lcb', cache', x) ->
    exists done rest,
      todoL n lcb = done ++ rest /\
      Forall (front_ev c) evs /\
      procs evs = map (pe c) done /\
      ((x = true -> exists j, cache_at j cache' /\ next' <= S j) /\
       (x = false -> (k = 0 /\ cache' = cache) \/ cache_at (P - 1) cache')) /\
      (x = false -> rest = []) /\
      (x = true -> todoL next' lcb' = rest /\ Pre next' lcb' /\ next' <= P).
  Proof.
    induction k as [|k IH]; intros n lcb cache o evs next' lcb' cache' x Hk Hn HP HC H; cbn in H.
    - assert (n = P) by lia. subst n. injection H as E1 E2 E3 E4 E5; subst evs next' lcb' cache' x.
      exists [], []. rewrite todoL_end. cbn.
      split; [reflexivity|]. split; [constructor|]. split; [reflexivity|].
      split; [split; [discriminate|intros _; left; split; reflexivity]|].
      split; [reflexivity|discriminate].
    - assert (Ln : n < P) by lia.
      set (buckets := if cache_hit cache n then snd cache else isort (listing dirs n)) in H.
      set (cache1 := if cache_hit cache n then cache else (Some n, buckets)) in H.
      assert (Eb : buckets = sdir n).
      { unfold buckets. destruct (cache_hit cache n) eqn:E; [|reflexivity].
        unfold cache_hit in E. destruct (fst cache) as [j|] eqn:Ej; [|discriminate].
        apply Nat.eqb_eq in E. subst j. destruct (HC n Ej) as [X|X]; [exact X|lia]. }
      assert (HC1 : cache_at n cache1).
      { unfold cache1. destruct (cache_hit cache n) eqn:E; [|split; [reflexivity|exact Eb]].
        pose proof E as E'. unfold cache_hit in E. destruct (fst cache) as [j|] eqn:Ej; [|discriminate].
        apply Nat.eqb_eq in E. subst j. split; [exact Ej|exact Eb]. }
      assert (HC1w : cache_okw (S n) cache1).
      { intros j Ej. destruct HC1 as (A & B). rewrite A in Ej. injection Ej as <-. left. exact B. }
      clearbody buckets cache1. subst buckets.
      destruct (process_prefixdir c n (sdir n) lcb o) as [[[ev lcb1] o1] x1] eqn:PP.
      destruct (ppd_spec c n (sdir n) (HS n) _ _ _ _ _ _ PP) as (done1 & rest1 & F1 & F2 & F3 & F4 & F5).
      assert (HP1 : Pre n lcb1) by (eapply Pre_step; eauto).
      assert (Fev : Forall (front_ev c) ev).
      { subst ev. apply Forall_forall. intros e I. apply in_map_iff in I as (b & <- & _). reflexivity. }
      assert (Pev : procs ev = map (pe c) (map (pair n) done1)).
      { subst ev. rewrite map_map. unfold pe; cbn.
        clear. induction done1 as [|b l IH]; cbn; [reflexivity|]. f_equal. exact IH. }
      rewrite (todoL_later n lcb HP Ln), F1, map_app, <- app_assoc.
      destruct x1.
      + injection H as E1 E2 E3 E4 E5; subst evs next' lcb' cache' x.
        exists (map (pair n) done1), (map (pair n) rest1 ++ enum_range (S n) (P - S n)).
        split; [reflexivity|]. split; [exact Fev|]. split; [exact Pev|].
        split; [split; [intros _; exists n; split; [exact HC1|lia]|discriminate]|].
        split; [discriminate|]. intros _.
        split; [|split; [exact HP1|lia]].
        rewrite (todoL_later n lcb1 HP1 Ln), F4. reflexivity.
      + rewrite (F3 eq_refl) in *. cbn [map app].
        destruct (tick o1) as [up o2] eqn:T. destruct up.
        * injection H as E1 E2 E3 E4 E5; subst evs next' lcb' cache' x.
          exists (map (pair n) done1), (enum_range (S n) (P - S n)).
          split; [reflexivity|]. split.
          { apply Forall_app. split; [exact Fev|]. constructor; [reflexivity|constructor]. }
          split; [rewrite procs_app, Pev; cbn; apply app_nil_r|].
          split; [split; [intros _; exists n; split; [exact HC1|lia]|discriminate]|].
          split; [discriminate|]. intros _.
          split; [apply todoL_all_later; exact HP1|]. split; [|lia].
          eapply Pre_weaken; [exact HP1|lia].
        * destruct (prefix_loop dirs c (seq (S n) k) (S n) lcb1 cache1 o2) as [[[[ev2 next2] lcb2] cache2] x2] eqn:PL.
          injection H as E1 E2 E3 E4 E5; subst evs next' lcb' cache' x.
          assert (HPS : Pre (S n) lcb1) by (eapply Pre_weaken; [exact HP1|lia]).
          destruct (IH (S n) lcb1 cache1 o2 ev2 next2 lcb2 cache2 x2 ltac:(lia) ltac:(lia) HPS HC1w PL)
            as (done2 & rest2 & G1 & G2 & G3 & (G4a & G4b) & G5 & G6).
          rewrite (todoL_all_later n lcb1 HP1) in G1.
          exists (map (pair n) done1 ++ done2), rest2.
          split; [rewrite G1, app_assoc; reflexivity|]. split.
          { apply Forall_app. split; [exact Fev|]. constructor; [reflexivity|exact G2]. }
          split; [rewrite procs_app, Pev; change (procs (EPrefixDone c n :: ev2)) with (procs ev2); rewrite G3, map_app; reflexivity|].
          split; [|split; [exact G5|exact G6]].
          split; [exact G4a|]. intros X. right. destruct (G4b X) as [(K0 & ->)|Y]; [|exact Y].
          assert (n = P - 1) by lia. subst n. exact HC1.
  Qed.


  (* ---------- one slice ---------- *)

  Definition J (p : pstate) : Prop := ps_next p <= P /\ Pre (ps_next p) (ps_lcb p).
  Definition idle_shape (p : pstate) : Prop := ps_current p = None -> ps_next p = 0 /\ ps_lcb p = None.
  Definition todo (p : pstate) : list (nat * name) := todoL (ps_next p) (ps_lcb p).
  Local Notation ncomp := completed_cycles (only parsing).
  Definition cycle_of (p : pstate) : N := match ps_current p with Some c => c | None => ncomp p end.
  Definition pfin (c : N) : pstate := mk_pstate (Some c) None 0 None.

  Lemma todoL_start : todoL 0 None = all_buckets.
  Proof.
    unfold todoL, all_buckets. rewrite Nat.sub_0_r. apply filter_all_true. intros; reflexivity.
  Qed.

  Lemma J_pfin c : J (pfin c).
  Proof. split; cbn; [lia|]. intros j b _ _. reflexivity. Qed.

  (* what is known about the listing cache between slices: while a cycle is in
     progress the entry is the true listing of a prefix at or just before the
     resume point; between cycles only that it is not the entry of prefix 0 *)
  Definition CI (m : mstate) : Prop :=
    forall j, fst (ms_cache m) = Some j ->
      match ps_current (ms_p m) with
      | None => 0 < j
      | Some _ => snd (ms_cache m) = sdir j /\ ps_next (ms_p m) <= S j
      end.

  Lemma CI_load p : CI (load p).
  Proof. intros j H. discriminate. Qed.

  Lemma CI_okw m : CI m -> idle_shape (ms_p m) -> cache_okw (ps_next (ms_p m)) (ms_cache m).
  Proof.
    intros HC HI j Ej. specialize (HC j Ej). destruct (ps_current (ms_p m)) eqn:E.
    - left. tauto.
    - right. destruct (HI E) as (-> & _). exact HC.
  Qed.

  Lemma run_slice_spec m o evs m' :
    J (ms_p m) -> idle_shape (ms_p m) -> CI m ->
    run_slice dirs m o = (evs, m') ->
    exists front done rest tail,
      evs = front ++ tail /\ Forall (front_ev (cycle_of (ms_p m))) front /\
      procs front = map (pe (cycle_of (ms_p m))) done /\
      todo (ms_p m) = done ++ rest /\ CI m' /\
      ((rest = [] /\ tail = [EFinished (cycle_of (ms_p m)); ESave (pfin (cycle_of (ms_p m))); ESave (pfin (cycle_of (ms_p m)))]
        /\ ms_p m' = pfin (cycle_of (ms_p m))) \/
       (exists p', tail = [ESave p'] /\ ms_p m' = p' /\ ps_current p' = Some (cycle_of (ms_p m)) /\
          ps_last_finished p' = ps_last_finished (ms_p m) /\ todo p' = rest /\ J p')).
  Proof.
    intros [HJ1 HJ2] HI HC0 H. unfold run_slice in H.
    pose proof (CI_okw m HC0 HI) as HC.
    set (p := ms_p m) in *.
    set (c := cycle_of p).
    assert (Hc : (let '(c0, started) :=
              match ps_current p with
              | Some c0 => (c0, [])
              | None => (match ps_last_finished p with None => 0%N | Some l => (l + 1)%N end, [EStarted (match ps_last_finished p with None => 0%N | Some l => (l + 1)%N end)])
              end in (c0, started)) = (c, match ps_current p with Some _ => [] | None => [EStarted c] end)).
    { unfold c, cycle_of, completed_cycles. destruct (ps_current p); reflexivity. }
    destruct (match ps_current p with
              | Some c0 => (c0, [])
              | None => (match ps_last_finished p with None => 0%N | Some l => (l + 1)%N end, [EStarted (match ps_last_finished p with None => 0%N | Some l => (l + 1)%N end)])
              end) as [c0 started] eqn:Es.
    injection Hc as Hc1 Hc2. subst c0.
    assert (Fs : Forall (front_ev c) started).
    { subst started. destruct (ps_current p); constructor; [reflexivity|constructor]. }
    assert (Ps : procs started = []).
    { subst started. destruct (ps_current p); reflexivity. }
    clear Es Hc2.
    destruct (prefix_loop dirs c (seq (ps_next p) (length dirs - ps_next p)) (ps_next p) (ps_lcb p) (ms_cache m) o)
      as [[[[ev next'] lcb'] cache'] x] eqn:PL.
    destruct (prefix_loop_spec c (P - ps_next p) (ps_next p) (ps_lcb p) (ms_cache m) o ev next' lcb' cache' x
                eq_refl HJ1 HJ2 HC PL) as (done & rest & G1 & G2 & G3 & (G4a & G4b) & G5 & G6).
    destruct x.
    - injection H as H1 H2. subst evs m'.
      exists (started ++ ev), done, rest, [ESave (mk_pstate (ps_last_finished p) (Some c) next' lcb')].
      split; [rewrite app_assoc; reflexivity|].
      split; [apply Forall_app; split; assumption|].
      split; [rewrite procs_app, Ps, G3; reflexivity|].
      split; [exact G1|]. split.
      { destruct (G4a eq_refl) as (j0 & (A & B) & L). intros j Ej. cbn in *. rewrite A in Ej. injection Ej as <-.
        split; [exact B|exact L]. }
      right.
      destruct (G6 eq_refl) as (T1 & T2 & T3).
      eexists. split; [reflexivity|]. cbn. split; [reflexivity|]. split; [reflexivity|]. split; [reflexivity|].
      split; [exact T1|]. split; [exact T3|exact T2].
    - injection H as H1 H2. subst evs m'.
      exists (started ++ ev), done, rest, [EFinished c; ESave (pfin c); ESave (pfin c)].
      split; [rewrite app_assoc; reflexivity|].
      split; [apply Forall_app; split; assumption|].
      split; [rewrite procs_app, Ps, G3; reflexivity|].
      split; [exact G1|]. split.
      { intros j Ej. cbn in *. destruct (G4b eq_refl) as [(K0 & ->)|(A & _)].
        - specialize (HC0 j Ej). fold p in HC0. destruct (ps_current p) eqn:Ec.
          + destruct HC0 as (_ & L). unfold P in *. lia.
          + exact HC0.
        - rewrite A in Ej. injection Ej as <-. unfold P in *. lia. }
      left.
      split; [apply G5; reflexivity|]. split; reflexivity.
  Qed.

  Lemma procs_firstn k l : exists j, procs (firstn k l) = firstn j (procs l).
  Proof.
    revert k; induction l as [|e l IH]; intros [|k]; cbn; try (exists 0; reflexivity).
    destruct (IH k) as (j & Hj). destruct (is_proc e).
    - exists (S j). cbn. f_equal. exact Hj.
    - exists j. exact Hj.
  Qed.

  (* Outcome of one scheduled slice (possibly killed), in four shapes. *)
  Inductive outcome (p : pstate) (s : slice_spec) (evs : list event) (m' : mstate) : Prop :=
  | OutEarly front done rest :          (* killed before any save: nothing persisted *)
      sl_kill s <> None ->
      evs = front -> Forall (front_ev (cycle_of p)) front -> procs front = map (pe (cycle_of p)) done ->
      todo p = done ++ rest -> m' = load p -> outcome p s evs m'
  | OutSaved front done rest p' :       (* slice used up its time and saved *)
      evs = front ++ [ESave p'] -> Forall (front_ev (cycle_of p)) front -> procs front = map (pe (cycle_of p)) done ->
      todo p = done ++ rest -> ms_p m' = p' -> CI m' ->
      ps_current p' = Some (cycle_of p) -> ps_last_finished p' = ps_last_finished p -> todo p' = rest -> J p' ->
      outcome p s evs m'
  | OutFinishedLost front done :        (* cycle finished, killed before save_state *)
      sl_kill s <> None ->
      evs = front ++ [EFinished (cycle_of p)] -> Forall (front_ev (cycle_of p)) front ->
      procs front = map (pe (cycle_of p)) done -> todo p = done -> m' = load p -> outcome p s evs m'
  | OutFinished front done saves :      (* cycle finished and saved *)
      evs = front ++ EFinished (cycle_of p) :: saves ->
      (saves = [ESave (pfin (cycle_of p))] \/ saves = [ESave (pfin (cycle_of p)); ESave (pfin (cycle_of p))]) ->
      Forall (front_ev (cycle_of p)) front -> procs front = map (pe (cycle_of p)) done -> todo p = done ->
      ms_p m' = pfin (cycle_of p) -> CI m' -> outcome p s evs m'.

  Lemma do_slice_outcome m s evs m' :
    J (ms_p m) -> idle_shape (ms_p m) -> CI m ->
    do_slice dirs m s = (evs, m') -> outcome (ms_p m) s evs m'.
  Proof.
    intros HJ HI HC H. unfold do_slice in H.
    destruct (run_slice dirs m (sl_ticks s)) as [evs0 m0] eqn:R.
    destruct (run_slice_spec m _ _ _ HJ HI HC R) as (front & done & rest & tail & E & F & Pf & T & C0 & Cases).
    destruct (sl_kill s) as [k|] eqn:Kl.
    - injection H as H1 H2. subst evs m'. subst evs0.
      rewrite firstn_app.
      destruct (le_lt_dec k (length front)) as [L|L].
      + replace (k - length front) with 0 by lia. rewrite firstn_O, app_nil_r.
        destruct (procs_firstn k front) as (j & Hj).
        apply (OutEarly _ _ _ _ (firstn k front) (firstn j done) (skipn j done ++ rest)).
        * rewrite Kl; discriminate.
        * reflexivity.
        * apply Forall_firstn; exact F.
        * rewrite Hj, Pf. apply firstn_map.
        * rewrite app_assoc, firstn_skipn. exact T.
        * rewrite (front_no_save _ _ _ (Forall_firstn _ k _ F)). reflexivity.
      + rewrite (firstn_all2 front) by lia.
        rewrite last_save_app, (front_no_save _ _ _ F).
        remember (k - length front) as k'. assert (1 <= k') by lia.
        destruct Cases as [(R0 & Tl & Pm)|(p' & Tl & Pm & Q1 & Q2 & Q3 & Q4)]; subst tail.
        * rewrite R0, app_nil_r in T.
          destruct k' as [|[|[|k']]]; [lia| | |]; cbn; rewrite ?firstn_nil.
          -- apply (OutFinishedLost _ _ _ _ front done); [rewrite Kl; discriminate|reflexivity|exact F|exact Pf|exact T|reflexivity].
          -- apply (OutFinished _ _ _ _ front done [ESave (pfin (cycle_of (ms_p m)))]);
               [reflexivity|left; reflexivity|exact F|exact Pf|exact T|reflexivity|apply CI_load].
          -- apply (OutFinished _ _ _ _ front done [ESave (pfin (cycle_of (ms_p m))); ESave (pfin (cycle_of (ms_p m)))]);
               [reflexivity|right; reflexivity|exact F|exact Pf|exact T|reflexivity|apply CI_load].
        * destruct k' as [|k']; [lia|]. cbn. rewrite firstn_nil. subst p'.
          apply (OutSaved _ _ _ _ front done rest (ms_p m0));
            [reflexivity|exact F|exact Pf|exact T|reflexivity|apply CI_load|exact Q1|exact Q2|exact Q3|exact Q4].
    - injection H as H1 H2. subst evs0 m0. subst evs.
      destruct Cases as [(R0 & Tl & Pm)|(p' & Tl & Pm & Q1 & Q2 & Q3 & Q4)]; subst tail.
      + rewrite R0, app_nil_r in T.
        apply (OutFinished _ _ _ _ front done [ESave (pfin (cycle_of (ms_p m))); ESave (pfin (cycle_of (ms_p m)))]);
          [reflexivity|right; reflexivity|exact F|exact Pf|exact T|exact Pm|exact C0].
      + subst p'.
        apply (OutSaved _ _ _ _ front done rest (ms_p m'));
          [reflexivity|exact F|exact Pf|exact T|reflexivity|exact C0|exact Q1|exact Q2|exact Q3|exact Q4].
  Qed.


  (* ---------- whole runs: coverage (any kills) ---------- *)

  Definition covered (tr : list event) (p : pstate) : Prop :=
    forall ib, In ib all_buckets -> In (pe (cycle_of p) ib) tr \/ In ib (todo p).

  Definition fincov (tr : list event) : Prop :=
    forall pre c post, tr = pre ++ EFinished c :: post ->
    forall ib, In ib all_buckets -> In (pe c ib) pre.

  Definition Inv (tr : list event) (m : mstate) : Prop :=
    J (ms_p m) /\ idle_shape (ms_p m) /\ CI m /\ covered tr (ms_p m) /\ fincov tr.

  Lemma fincov_app tr new : fincov tr ->
    (forall pre2 c post, new = pre2 ++ EFinished c :: post ->
       forall ib, In ib all_buckets -> In (pe c ib) (tr ++ pre2)) ->
    fincov (tr ++ new).
  Proof.
    intros F H pre c post E ib I. apply split_app_cases in E as [(post1 & E)|(pre2 & E1 & E2)].
    - eapply F; eauto.
    - subst pre. eapply H; eauto.
  Qed.

  Lemma front_no_fin c c' l : Forall (front_ev c) l -> ~ In (EFinished c') l.
  Proof. intros F I. rewrite Forall_forall in F. exact (F _ I). Qed.

  Definition is_save (e : event) : Prop := match e with ESave _ => True | _ => False end.

  Lemma fin_position c c' front saves pre2 post :
    Forall (front_ev c) front -> Forall is_save saves ->
    front ++ EFinished c :: saves = pre2 ++ EFinished c' :: post -> pre2 = front /\ c' = c.
  Proof.
    intros F S E. apply split_app_cases in E as [(post1 & E)|(pre3 & E1 & E2)].
    - exfalso. apply (front_no_fin c c' front F). rewrite E. apply in_app_iff. right. left. reflexivity.
    - destruct pre3 as [|e pre3]; cbn in E2.
      + inversion E2; subst. split; [apply app_nil_r|reflexivity].
      + exfalso. inversion E2; subst. rewrite Forall_forall in S.
        apply (S (EFinished c')). apply in_app_iff. right. left. reflexivity.
  Qed.

  Lemma in_done_front c front done ib :
    procs front = map (pe c) done -> In ib done -> In (pe c ib) front.
  Proof.
    intros Pf I. assert (In (pe c ib) (procs front)) by (rewrite Pf; apply in_map; exact I).
    apply in_procs in H. tauto.
  Qed.

  Lemma todo_pfin c : todo (pfin c) = all_buckets.
  Proof. apply todoL_start. Qed.

  Lemma cycle_of_current p c : ps_current p = Some c -> cycle_of p = c.
  Proof. unfold cycle_of. intros ->. reflexivity. Qed.

  Lemma saves_are_saves c saves :
    saves = [ESave (pfin c)] \/ saves = [ESave (pfin c); ESave (pfin c)] -> Forall is_save saves.
  Proof. intros [->| ->]; repeat constructor. Qed.

  Lemma cov_step tr m s evs m' :
    Inv tr m -> do_slice dirs m s = (evs, m') -> Inv (tr ++ evs) m'.
  Proof.
    intros (HJ & HI & HC & HCov & HF) H.
    destruct (do_slice_outcome m s evs m' HJ HI HC H)
      as [front done rest _ E F Pf T Em
         |front done rest p' E F Pf T Em Cm Q1 Q2 Q3 Q4
         |front done _ E F Pf T Em
         |front done saves E Sv F Pf T Em Cm]; subst evs.
    - (* killed before any save *)
      subst m'. cbn. split; [exact HJ|]. split; [exact HI|]. split; [apply CI_load|]. split.
      + intros ib I. destruct (HCov ib I) as [X|X]; [left; apply in_app_iff; left; exact X|right; exact X].
      + apply fincov_app; [exact HF|]. intros pre2 c post E. exfalso.
        apply (front_no_fin _ c front F). rewrite E. apply in_app_iff. right. left. reflexivity.
    - (* saved *)
      unfold Inv; rewrite Em. split; [exact Q4|]. split; [intros X; rewrite X in Q1; discriminate|]. split; [exact Cm|]. split.
      + intros ib I. rewrite (cycle_of_current p' _ Q1).
        destruct (HCov ib I) as [X|X]; [left; apply in_app_iff; left; exact X|].
        rewrite T in X. apply in_app_iff in X as [X|X].
        * left. apply in_app_iff. right. apply in_app_iff. left. eapply in_done_front; eauto.
        * right. rewrite Q3. exact X.
      + apply fincov_app; [exact HF|]. intros pre2 c post E. exfalso.
        assert (I : In (EFinished c) (front ++ [ESave p'])) by (rewrite E; apply in_app_iff; right; left; reflexivity).
        apply in_app_iff in I as [I|[I|[]]]; [exact (front_no_fin _ c front F I)|discriminate].
    - (* finished, save lost *)
      subst m'. cbn. split; [exact HJ|]. split; [exact HI|]. split; [apply CI_load|]. split.
      + intros ib I. destruct (HCov ib I) as [X|X]; [left; apply in_app_iff; left; exact X|right; exact X].
      + apply fincov_app; [exact HF|]. intros pre2 c post E ib I.
        destruct (fin_position _ c front [] pre2 post F (Forall_nil _) E) as (-> & ->).
        destruct (HCov ib I) as [X|X]; apply in_app_iff; [left; exact X|right].
        rewrite T in X. eapply in_done_front; eauto.
    - (* finished and saved *)
      unfold Inv; rewrite Em. split; [apply J_pfin|]. split; [intros _; split; reflexivity|]. split; [exact Cm|]. split.
      + intros ib I. right. rewrite todo_pfin. exact I.
      + apply fincov_app; [exact HF|]. intros pre2 c post E ib I.
        destruct (fin_position _ c front saves pre2 post F (saves_are_saves _ _ Sv) E) as (-> & ->).
        destruct (HCov ib I) as [X|X]; apply in_app_iff; [left; exact X|right].
        rewrite T in X. eapply in_done_front; eauto.
  Qed.

  Lemma Inv_init : Inv [] (load init_pstate).
  Proof.
    split; [split; cbn; [lia|intros j b _ _; reflexivity]|].
    split; [intros _; split; reflexivity|]. split; [apply CI_load|]. split.
    - intros ib I. right. unfold todo; cbn. rewrite todoL_start. exact I.
    - intros pre c post E. destruct pre; discriminate.
  Qed.

  Lemma run_inv : forall specs tr m evs m',
    Inv tr m -> run dirs m specs = (evs, m') -> Inv (tr ++ evs) m'.
  Proof.
    induction specs as [|s r IH]; intros tr m evs m' HI H; cbn in H.
    - injection H as <- <-. rewrite app_nil_r. exact HI.
    - destruct (do_slice dirs m s) as [e1 m1] eqn:D.
      destruct (run dirs m1 r) as [e2 m2] eqn:R.
      injection H as <- <-. rewrite app_assoc.
      eapply IH; [|exact R]. eapply cov_step; eauto.
  Qed.

  Lemma coverage specs tr m :
    run dirs (load init_pstate) specs = (tr, m) -> fincov tr.
  Proof.
    intros H. pose proof (run_inv specs [] _ _ _ Inv_init H) as (_ & _ & _ & _ & F). exact F.
  Qed.


  (* ---------- whole runs without kills: exactly once ---------- *)

  Definition EInv (tr : list event) (p : pstate) : Prop :=
    NoDup (procs tr) /\
    (forall c i b, In (EProc c i b) tr ->
       In (i, b) all_buckets /\ ((c < ncomp p)%N \/ (ps_current p = Some c /\ ~ In (i, b) (todo p)))) /\
    finished_cycles tr = map N.of_nat (seq 0 (N.to_nat (ncomp p))) /\
    (forall c, (c < ncomp p)%N -> forall ib, In ib all_buckets -> In (pe c ib) tr) /\
    cycle_of p = ncomp p.

  Lemma procs_tail_saves c saves :
    saves = [ESave (pfin c)] \/ saves = [ESave (pfin c); ESave (pfin c)] -> procs (EFinished c :: saves) = [].
  Proof. intros [->| ->]; reflexivity. Qed.

  Lemma finished_tail_saves c saves :
    saves = [ESave (pfin c)] \/ saves = [ESave (pfin c); ESave (pfin c)] -> finished_cycles (EFinished c :: saves) = [c].
  Proof. intros [->| ->]; reflexivity. Qed.

  Lemma NoDup_new_procs tr p front done rest :
    EInv tr p -> procs front = map (pe (cycle_of p)) done -> todo p = done ++ rest ->
    NoDup (procs tr ++ procs front).
  Proof.
    intros (E1 & E2 & _ & _ & E5) Pf T.
    assert (ND : NoDup (done ++ rest)) by (rewrite <- T; apply NoDup_todoL).
    apply NoDup_app_intro; [exact E1| |].
    - rewrite Pf. apply Injective_map_NoDup; [exact (pe_inj _)|]. exact (NoDup_app_l _ _ ND).
    - intros x I1 I2. rewrite Pf in I2. apply in_map_iff in I2 as ([i b] & <- & I3).
      apply in_procs in I1 as [I1 _]. unfold pe in I1; cbn in I1.
      destruct (E2 _ _ _ I1) as (_ & [L|(_ & NI)]).
      + rewrite E5 in L. lia.
      + apply NI. rewrite T. apply in_app_iff. left. exact I3.
  Qed.

  Lemma e_step tr m s evs m' :
    sl_kill s = None ->
    Inv tr m -> EInv tr (ms_p m) -> do_slice dirs m s = (evs, m') -> EInv (tr ++ evs) (ms_p m').
  Proof.
    intros NK (HJ & HI & HC & HCov & HF) HE H.
    pose proof HE as (E1 & E2 & E3 & E4 & E5).
    destruct (do_slice_outcome m s evs m' HJ HI HC H)
      as [front done rest K E F Pf T Em
         |front done rest p' E F Pf T Em Cm Q1 Q2 Q3 Q4
         |front done K E F Pf T Em
         |front done saves E Sv F Pf T Em Cm]; subst evs; try (exfalso; exact (K NK)).
    - (* saved *)
      rewrite Em.
      assert (NC : ncomp p' = ncomp (ms_p m)) by (unfold completed_cycles; rewrite Q2; reflexivity).
      assert (ND : NoDup (done ++ rest)) by (rewrite <- T; apply NoDup_todoL).
      split; [|split; [|split; [|split]]].
      + rewrite !procs_app. cbn [procs filter is_proc]. rewrite app_nil_r.
        eapply NoDup_new_procs; eauto.
      + intros c i b I. apply in_app_iff in I as [I|I].
        * destruct (E2 _ _ _ I) as (A & [L|(Cu & NI)]); split; try exact A.
          -- left. rewrite NC. exact L.
          -- right. rewrite (cycle_of_current _ _ Cu) in Q1. split; [exact Q1|].
             rewrite Q3. intros X. apply NI. rewrite T. apply in_app_iff. right. exact X.
        * apply in_app_iff in I as [I|[I|[]]]; [|discriminate].
          destruct (in_front_proc _ _ _ _ _ _ F Pf I) as (-> & Id).
          split; [apply (todoL_sub (ps_next (ms_p m)) (ps_lcb (ms_p m))); fold (todo (ms_p m)); rewrite T; apply in_app_iff; left; exact Id|].
          right. split; [exact Q1|]. rewrite Q3. intros X. exact (NoDup_app_disj _ _ _ ND Id X).
      + rewrite !finished_app, (front_no_finished _ _ F). cbn. rewrite !app_nil_r, NC. exact E3.
      + intros c L ib I. rewrite NC in L. apply in_app_iff. left. exact (E4 c L ib I).
      + rewrite (cycle_of_current _ _ Q1), NC. exact E5.
    - (* finished *)
      rewrite Em.
      assert (NC : ncomp (pfin (cycle_of (ms_p m))) = (ncomp (ms_p m) + 1)%N) by (cbn; rewrite E5; reflexivity).
      split; [|split; [|split; [|split]]].
      + rewrite !procs_app, (procs_tail_saves _ _ Sv), app_nil_r.
        eapply NoDup_new_procs with (rest := []); eauto. rewrite app_nil_r. exact T.
      + intros c i b I. apply in_app_iff in I as [I|I].
        * destruct (E2 _ _ _ I) as (A & [L|(Cu & NI)]); split; try exact A; left; rewrite NC; [lia|].
          rewrite (cycle_of_current _ _ Cu) in E5. lia.
        * apply in_app_iff in I as [I|I].
          -- destruct (in_front_proc _ _ _ _ _ _ F Pf I) as (-> & Id).
             split; [apply (todoL_sub (ps_next (ms_p m)) (ps_lcb (ms_p m))); fold (todo (ms_p m)); rewrite T; exact Id|].
             left. rewrite NC, E5. lia.
          -- exfalso. destruct I as [I|I]; [discriminate|]. destruct Sv as [->| ->]; cbn in I; intuition discriminate.
      + rewrite !finished_app, (front_no_finished _ _ F), (finished_tail_saves _ _ Sv). cbn [app].
        rewrite NC, E3. replace (N.to_nat (ncomp (ms_p m) + 1)) with (S (N.to_nat (ncomp (ms_p m)))) by lia.
        rewrite seq_S, map_app. cbn. rewrite E5, N2Nat.id. reflexivity.
      + intros c L ib I. rewrite NC in L.
        destruct (N.eq_dec c (ncomp (ms_p m))) as [->|Ne].
        * rewrite <- E5. destruct (HCov ib I) as [X|X]; apply in_app_iff; [left; exact X|right].
          apply in_app_iff. left. rewrite T in X. eapply in_done_front; eauto.
        * apply in_app_iff. left. apply E4; [lia|exact I].
      + cbn. rewrite E5. reflexivity.
  Qed.

  Lemma EInv_init : EInv [] init_pstate.
  Proof.
    split; [constructor|]. split; [intros c i b []|]. split; [reflexivity|].
    split; [intros c L; cbn in L; lia|reflexivity].
  Qed.

  Lemma run_einv : forall specs tr m evs m',
    (forall s, In s specs -> sl_kill s = None) ->
    Inv tr m -> EInv tr (ms_p m) -> run dirs m specs = (evs, m') ->
    Inv (tr ++ evs) m' /\ EInv (tr ++ evs) (ms_p m').
  Proof.
    induction specs as [|s r IH]; intros tr m evs m' NK HI HE H; cbn in H.
    - injection H as <- <-. rewrite app_nil_r. split; assumption.
    - destruct (do_slice dirs m s) as [e1 m1] eqn:D.
      destruct (run dirs m1 r) as [e2 m2] eqn:R.
      injection H as <- <-. rewrite app_assoc.
      eapply IH; [intros s' I; apply NK; right; exact I| | |exact R].
      + eapply cov_step; eauto.
      + eapply e_step; eauto. apply NK. left. reflexivity.
  Qed.

  (* ---------- whole runs: cycle numbers (any kills) ---------- *)

  Definition KInv (tr : list event) (p : pstate) : Prop :=
    cycle_numbers_ok (finished_cycles tr) /\
    (finished_cycles tr = [] -> ncomp p = 0%N) /\
    (finished_cycles tr <> [] ->
       ncomp p = (last_or (finished_cycles tr) 0 + 1)%N \/ ncomp p = last_or (finished_cycles tr) 0%N) /\
    cycle_of p = ncomp p /\
    steps_by_0_or_1 0 (map completed_cycles (saved_states tr)) /\
    last_or (map completed_cycles (saved_states tr)) 0 = ncomp p.

  Lemma last_or_app a b d : last_or (a ++ b) d = last_or b (last_or a d).
  Proof. revert d; induction a as [|x a IH]; intros d; cbn; [reflexivity|apply IH]. Qed.

  Lemma steps_app prev a b :
    steps_by_0_or_1 prev (a ++ b) <-> steps_by_0_or_1 prev a /\ steps_by_0_or_1 (last_or a prev) b.
  Proof.
    revert prev; induction a as [|x a IH]; intros prev; cbn; [tauto|]. rewrite IH. tauto.
  Qed.

  Lemma cycle_numbers_snoc l c :
    cycle_numbers_ok l -> (l = [] -> c = 0%N) ->
    (l <> [] -> c = (last_or l 0 + 1)%N \/ c = last_or l 0%N) -> cycle_numbers_ok (l ++ [c]).
  Proof.
    destruct l as [|x r]; cbn; intros H H0 H1.
    - split; [apply H0; reflexivity|exact I].
    - destruct H as (-> & S). split; [reflexivity|]. apply steps_app. split; [exact S|]. cbn.
      split; [|exact I]. destruct H1 as [->| ->]; try discriminate; tauto.
  Qed.

  Lemma k_step tr m s evs m' :
    Inv tr m -> KInv tr (ms_p m) -> do_slice dirs m s = (evs, m') -> KInv (tr ++ evs) (ms_p m').
  Proof.
    intros (HJ & HI & HC & HCov & HF) (K1 & K2 & K3 & K4 & K5 & K6) H.
    destruct (do_slice_outcome m s evs m' HJ HI HC H)
      as [front done rest _ E F Pf T Em
         |front done rest p' E F Pf T Em Cm Q1 Q2 Q3 Q4
         |front done _ E F Pf T Em
         |front done saves E Sv F Pf T Em Cm]; subst evs.
    - subst m'. cbn [ms_p load]. unfold KInv.
      rewrite finished_app, saved_app, (front_no_finished _ _ F), (front_no_saved _ _ F), !app_nil_r.
      repeat split; assumption.
    - rewrite Em. unfold KInv.
      assert (NC : ncomp p' = ncomp (ms_p m)) by (unfold completed_cycles; rewrite Q2; reflexivity).
      rewrite !finished_app, !saved_app, (front_no_finished _ _ F), (front_no_saved _ _ F). cbn [finished_cycles saved_states app].
      rewrite !app_nil_r, map_app, last_or_app, NC. cbn [map last_or].
      split; [exact K1|]. split; [exact K2|]. split; [exact K3|].
      split; [rewrite (cycle_of_current _ _ Q1); exact K4|].
      split; [|exact NC].
      apply steps_app. split; [exact K5|]. cbn. rewrite K6, NC. tauto.
    - subst m'. cbn [ms_p load]. unfold KInv.
      rewrite !finished_app, !saved_app, (front_no_finished _ _ F), (front_no_saved _ _ F).
      cbn [finished_cycles saved_states app]. rewrite !app_nil_r, K4.
      split; [apply cycle_numbers_snoc; assumption|].
      split; [intros X; destruct (finished_cycles tr); discriminate|].
      split; [intros _; right; rewrite last_or_app; reflexivity|].
      split; [reflexivity|]. split; [exact K5|exact K6].
    - rewrite Em. unfold KInv.
      remember (cycle_of (ms_p m)) as c eqn:Hc0. pose proof K4 as Hc.
      rewrite !finished_app, !saved_app, (front_no_finished _ _ F), (front_no_saved _ _ F), (finished_tail_saves _ _ Sv).
      cbn [app].
      split; [apply cycle_numbers_snoc; [exact K1|intros X; rewrite Hc; apply K2; exact X|intros X; rewrite Hc; apply K3; exact X]|].
      split; [intros X; destruct (finished_cycles tr); discriminate|].
      split; [intros _; left; rewrite last_or_app; reflexivity|].
      split; [reflexivity|].
      rewrite map_app, last_or_app.
      destruct Sv as [->| ->]; cbn [saved_states map last_or app]; (split; [|reflexivity]);
        apply steps_app; (split; [exact K5|]); rewrite K6, <- Hc; cbn; tauto.
  Qed.

  Lemma KInv_init : KInv [] init_pstate.
  Proof. repeat split; try reflexivity; try exact I. intros X; contradiction. Qed.

  Lemma run_kinv : forall specs tr m evs m',
    Inv tr m -> KInv tr (ms_p m) -> run dirs m specs = (evs, m') ->
    KInv (tr ++ evs) (ms_p m').
  Proof.
    induction specs as [|s r IH]; intros tr m evs m' HI HK H; cbn in H.
    - injection H as <- <-. rewrite app_nil_r. assumption.
    - destruct (do_slice dirs m s) as [e1 m1] eqn:D.
      destruct (run dirs m1 r) as [e2 m2] eqn:R.
      injection H as <- <-. rewrite app_assoc.
      eapply IH; [| |exact R].
      + eapply cov_step; eauto.
      + eapply k_step; eauto.
  Qed.

  (* ---------- starting from any idle state (bucket set changed between cycles) ---------- *)

  Lemma Inv_idle m : idle_ok m -> Inv [] m.
  Proof.
    intros (E1 & E2 & E3 & E4). unfold Inv.
    split; [split; [rewrite E2; lia|rewrite E2, E3; intros j b _ _; reflexivity]|].
    split; [intros _; split; assumption|].
    split; [intros j Ej; rewrite E1; apply E4; exact Ej|]. split.
    - intros ib I. right. unfold todo. rewrite E2, E3, todoL_start. exact I.
    - intros pre c post E. destruct pre; discriminate.
  Qed.

  Lemma idle_ok_of_Inv tr m : Inv tr m -> ps_current (ms_p m) = None -> idle_ok m.
  Proof.
    intros (_ & HI & HC & _) E. destruct (HI E) as (A & B).
    split; [exact E|]. split; [exact A|]. split; [exact B|].
    intros j Ej. specialize (HC j Ej). rewrite E in HC. exact HC.
  Qed.

  Lemma coverage_from_idle specs m tr m' :
    idle_ok m -> run dirs m specs = (tr, m') ->
    fincov tr /\ (ps_current (ms_p m') = None -> idle_ok m').
  Proof.
    intros HI H. pose proof (run_inv specs [] _ _ _ (Inv_idle m HI) H) as HInv. cbn [app] in HInv.
    split; [destruct HInv as (_ & _ & _ & _ & F); exact F|]. intros E. eapply idle_ok_of_Inv; eauto.
  Qed.

End Dirs.

(* ---------- the order hypotheses follow from the directory layout ---------- *)

Lemma StronglySorted_nth {A} (R : A -> A -> Prop) (l : list A) d :
  StronglySorted R l -> forall i j, i < j -> j < length l -> R (nth i l d) (nth j l d).
Proof.
  induction 1 as [|x l S IH F]; intros i j Lij Lj; cbn in Lj; [lia|].
  destruct j as [|j]; [lia|]. destruct i as [|i]; cbn.
  - rewrite Forall_forall in F. apply F. apply nth_In. lia.
  - apply IH; lia.
Qed.

Section Layout.
  Variable prefixes : list name.
  Hypothesis prefixes_sorted : StronglySorted nlt prefixes.
  Hypothesis prefixes_len : forall p q, In p prefixes -> In q prefixes -> length p = length q.

  Lemma wf_HS dirs : wf_dirs prefixes dirs -> forall i, StronglySorted nlt (sdir dirs i).
  Proof. intros (_ & ND & _) i. apply isort_sorted. apply ND. Qed.

  Lemma wf_HX dirs : wf_dirs prefixes dirs ->
    forall i j a b, i < j -> In a (sdir dirs i) -> In b (sdir dirs j) -> nlt a b.
  Proof.
    intros (L & _ & PF) i j a b Lij Ia Ib. unfold sdir, listing in *. rewrite isort_In in Ia, Ib.
    assert (Lj : j < length dirs).
    { destruct (le_lt_dec (length dirs) j) as [X|X]; [|exact X]. rewrite nth_overflow in Ib by exact X. contradiction. }
    rewrite L in Lj.
    eapply (prefix_order (nth i prefixes []) (nth j prefixes [])).
    - apply prefixes_len; apply nth_In; lia.
    - apply StronglySorted_nth; [exact prefixes_sorted|exact Lij|exact Lj].
    - apply PF; exact Ia.
    - apply PF; exact Ib.
  Qed.
End Layout.

Fixpoint sortedb (l : list name) : bool :=
  match l with
  | [] => true
  | x :: r => match r with [] => true | y :: _ => name_ltb x y && sortedb r end
  end.

Lemma sortedb_sound l : sortedb l = true -> StronglySorted nlt l.
Proof.
  intros H. apply Sorted_StronglySorted; [intros a b c; apply nlt_trans|].
  induction l as [|x r IH]; [constructor|].
  cbn in H. destruct r as [|y r'].
  - constructor; constructor.
  - apply andb_true_iff in H as [H1 H2]. constructor; [apply IH; exact H2|].
    constructor. unfold name_ltb in H1. apply negb_true_iff in H1. exact H1.
Qed.

Lemma lengths_sound n l : forallb (fun p : name => Nat.eqb (length p) n) l = true ->
  forall p q, In p l -> In q l -> length p = length q.
Proof.
  intros H p q Ip Iq. rewrite forallb_forall in H.
  pose proof (H p Ip) as Hp. pose proof (H q Iq) as Hq. apply Nat.eqb_eq in Hp, Hq. congruence.
Qed.

(* ---------- final statements, for any prefix table that is strictly sorted
   with names of equal length ---------- *)

Definition event_eq_dec : forall a b : event, {a = b} + {a <> b}.
Proof. repeat decide equality. Defined.

Lemma count_procs e tr : is_proc e = true ->
  count_occ event_eq_dec tr e = count_occ event_eq_dec (procs tr) e.
Proof.
  intros He. induction tr as [|x tr IH]; cbn; [reflexivity|].
  destruct (event_eq_dec x e) as [->|Ne].
  - rewrite He. cbn. destruct (event_eq_dec e e); [|contradiction]. f_equal. exact IH.
  - destruct (is_proc x); cbn; [|exact IH]. destruct (event_eq_dec x e); [contradiction|exact IH].
Qed.

Lemma in_finished c tr : In (EFinished c) tr -> In c (finished_cycles tr).
Proof.
  induction tr as [|x tr IH]; cbn; [tauto|]. intros [->|I]; [left; reflexivity|].
  destruct x; try (apply IH; exact I). right. apply IH; exact I.
Qed.

Section Final.
  Variable prefixes : list name.
  Hypothesis prefixes_sorted : StronglySorted nlt prefixes.
  Hypothesis prefixes_len : forall p q, In p prefixes -> In q prefixes -> length p = length q.
  Hypothesis prefixes_two : 2 <= length prefixes.

  Lemma wf_P2 dirs : wf_dirs prefixes dirs -> 2 <= P dirs.
  Proof. intros (L & _). unfold P. rewrite L. exact prefixes_two. Qed.

  Lemma idle_ok_init : idle_ok (load init_pstate).
  Proof. repeat split; try reflexivity. intros j H; discriminate. Qed.

  Lemma epochs_idle_ok : forall eps m tr m',
    idle_ok m -> (forall e, In e eps -> wf_dirs prefixes (fst e)) -> epochs_end_idle m eps ->
    run_epochs m eps = (tr, m') -> idle_ok m'.
  Proof.
    induction eps as [|[dirs specs] r IH]; intros m tr m' HI W HE H; cbn in H.
    - injection H as <- <-. exact HI.
    - cbn in HE. destruct (run dirs m specs) as [e1 m1] eqn:R.
      destruct (run_epochs m1 r) as [e2 m2] eqn:RE. injection H as <- <-.
      cbn in HE. destruct HE as (Hid & HE').
      pose proof (W (dirs, specs) (or_introl eq_refl)) as Wd. cbn in Wd.
      destruct (coverage_from_idle dirs (wf_HS prefixes dirs Wd) (wf_HX prefixes prefixes_sorted prefixes_len dirs Wd) (wf_P2 dirs Wd)
                  specs m e1 m1 HI R) as (_ & Hnext).
      eapply IH; [exact (Hnext Hid)| |exact HE'|exact RE].
      intros e Ie. apply W. right. exact Ie.
  Qed.

  (* Bucket sets that change while the crawler is idle: whatever happened in
     earlier epochs (other directory contents, any interruptions and kills, the
     same crawler object with its listing cache), a cycle that finishes in the
     current epoch has processed every bucket of the current contents. *)
  Lemma covers_all_epochs_gen eps dirs specs tr1 m1 tr2 m2 pre c post :
    (forall e, In e eps -> wf_dirs prefixes (fst e)) -> wf_dirs prefixes dirs ->
    epochs_end_idle (load init_pstate) eps ->
    run_epochs (load init_pstate) eps = (tr1, m1) ->
    run dirs m1 specs = (tr2, m2) ->
    tr2 = pre ++ EFinished c :: post ->
    forall i b, In b (nth i dirs []) -> In (EProc c i b) pre.
  Proof.
    intros W Wd HE R1 R2 E i b I.
    pose proof (epochs_idle_ok eps _ _ _ idle_ok_init W HE R1) as HI.
    destruct (coverage_from_idle dirs (wf_HS prefixes dirs Wd) (wf_HX prefixes prefixes_sorted prefixes_len dirs Wd) (wf_P2 dirs Wd)
                specs m1 tr2 m2 HI R2) as (F & _).
    apply (F pre c post E (i, b)). apply in_all. unfold sdir, listing. apply isort_In. exact I.
  Qed.

  Lemma covers_all_gen dirs specs tr m pre c post :
    wf_dirs prefixes dirs ->
    run dirs (load init_pstate) specs = (tr, m) ->
    tr = pre ++ EFinished c :: post ->
    forall i b, In b (nth i dirs []) -> In (EProc c i b) pre.
  Proof.
    intros W R E i b I.
    pose proof (coverage dirs (wf_HS prefixes dirs W) (wf_HX prefixes prefixes_sorted prefixes_len dirs W) (wf_P2 dirs W) specs tr m R) as F.
    apply (F pre c post E (i, b)). apply in_all. unfold sdir, listing. apply isort_In. exact I.
  Qed.

  Lemma exactly_once_gen dirs specs tr m :
    wf_dirs prefixes dirs ->
    (forall s, In s specs -> sl_kill s = None) ->
    run dirs (load init_pstate) specs = (tr, m) ->
    (forall c i b, count_occ event_eq_dec tr (EProc c i b) <= 1) /\
    (forall c i b, In (EProc c i b) tr -> In b (nth i dirs [])) /\
    (forall c, In (EFinished c) tr -> forall i b, In b (nth i dirs []) ->
       count_occ event_eq_dec tr (EProc c i b) = 1) /\
    finished_cycles tr = map N.of_nat (seq 0 (N.to_nat (completed_cycles (ms_p m)))).
  Proof.
    intros W NK R.
    pose proof (wf_HS prefixes dirs W) as HS.
    pose proof (wf_HX prefixes prefixes_sorted prefixes_len dirs W) as HX.
    destruct (run_einv dirs HS HX (wf_P2 dirs W) specs [] _ _ _ NK (Inv_init dirs (wf_P2 dirs W)) (EInv_init dirs (wf_P2 dirs W)) R) as (_ & E1 & E2 & E3 & E4 & E5).
    cbn [app] in *.
    assert (C1 : forall c i b, count_occ event_eq_dec tr (EProc c i b) <= 1).
    { intros c i b. rewrite count_procs by reflexivity. apply NoDup_count_occ. exact E1. }
    split; [exact C1|]. split.
    - intros c i b I. destruct (E2 c i b I) as (A & _). apply in_all in A.
      unfold sdir, listing in A. rewrite isort_In in A. exact A.
    - split; [|exact E3]. intros c I i b Ib.
      apply in_finished in I. rewrite E3 in I. apply in_map_iff in I as (k & <- & Ik). apply in_seq in Ik.
      assert (L : (N.of_nat k < completed_cycles (ms_p m))%N) by lia.
      assert (A : In (i, b) (all_buckets dirs)) by (apply in_all; unfold sdir, listing; apply isort_In; exact Ib).
      pose proof (E4 _ L (i, b) A) as X. unfold pe in X; cbn in X.
      apply (count_occ_In event_eq_dec) in X. specialize (C1 (N.of_nat k) i b). lia.
  Qed.

  Lemma cycle_numbers_gen dirs specs tr m :
    wf_dirs prefixes dirs ->
    run dirs (load init_pstate) specs = (tr, m) ->
    cycle_numbers_ok (finished_cycles tr) /\
    steps_by_0_or_1 0 (map completed_cycles (saved_states tr)) /\
    last_or (map completed_cycles (saved_states tr)) 0 = completed_cycles (ms_p m).
  Proof.
    intros W R.
    pose proof (wf_HS prefixes dirs W) as HS.
    pose proof (wf_HX prefixes prefixes_sorted prefixes_len dirs W) as HX.
    pose proof (run_kinv dirs HS HX (wf_P2 dirs W) specs [] _ _ _ (Inv_init dirs (wf_P2 dirs W)) (KInv_init) R) as (K1 & _ & _ & _ & K5 & K6).
    cbn [app] in *. split; [exact K1|]. split; [exact K5|exact K6].
  Qed.
End Final.
