From Coq Require Import List NArith Bool.
From Verif Require Import Model.Publish Proofs.Publish Model.SlotAnswer.
Import ListNotations.
Local Open Scope N_scope.

Lemma known_on_server_In ws srv c :
  mem_N c (known_on_server ws srv) = true <-> exists w, In w ws /\ w_server w = srv /\ w_shnum w = c.
Proof.
  unfold known_on_server. rewrite mem_N_In, in_map_iff. split.
  - intros [w [E H]]. apply filter_In in H. destruct H as [H1 H2]. apply N.eqb_eq in H2. exists w. auto.
  - intros [w [H1 [H2 H3]]]. exists w. split; [exact H3|]. apply filter_In. split; [exact H1|]. apply N.eqb_eq, H2.
Qed.

(* a share of ANOTHER version that the publisher is not writing to this server surprises it,
   whether or not its own write was applied *)
Lemma foreign_share_surprises_ok s w wrote held named mine c v :
  In (c, v) held -> c <> w_shnum w ->
  mem_N c (known_on_server (writers s) (w_server w)) = false -> v <> mine ->
  surprised (handle_answer s w (answer_of mine wrote held named)) = true.
Proof.
  intros Hin Hc Hk Hv. unfold answer_of, server_read_data, handle_answer.
  assert (E : existsb (fun r => negb (r_shnum r =? w_shnum w) && negb (mem_N (r_shnum r) (known_on_server (writers s) (w_server w)))
                                && negb (r_is_our_checkstring r)) (report mine held) = true).
  { apply existsb_exists. exists {| r_shnum := c; r_is_our_checkstring := (v =? mine) |}. split.
    - unfold report. apply in_map_iff. exists (c, v). auto.
    - cbn. rewrite Hk. apply N.eqb_neq in Hc, Hv. rewrite Hc, Hv. reflexivity. }
  rewrite E. destruct wrote; reflexivity.
Qed.

(* ... and the whole publish then ends in UncoordinatedWriteError, in whatever order the
   other answers arrive *)
Lemma foreign_share_gives_ucwe_ok k ws pre post w wrote held named mine c v :
  In (c, v) held -> c <> w_shnum w ->
  mem_N c (known_on_server ws (w_server w)) = false -> v <> mine ->
  publish_outcome k ws (pre ++ (w, answer_of mine wrote held named) :: post) = UncoordinatedWrite.
Proof.
  intros Hin Hc Hk Hv. unfold publish_outcome, handle_all. rewrite fold_left_app. cbn [fold_left fst snd].
  apply surprised_is_ucwe_ok. apply all_surprised_mono.
  apply foreign_share_surprises_ok with (c := c) (v := v); auto.
  destruct (mem_N c (known_on_server (writers (fold_left (fun st wa => handle_answer st (fst wa) (snd wa)) pre (start ws))) (w_server w))) eqn:E; [|reflexivity].
  apply known_on_server_In in E. destruct E as [x [Hx [Hs Hn]]].
  apply all_writers_subset in Hx. cbn in Hx.
  assert (T : mem_N c (known_on_server ws (w_server w)) = true) by (apply known_on_server_In; exists x; auto).
  congruence.
Qed.

(* a share of the publisher's own new version (an earlier write of ours, or a convergent writer) is tolerated *)
Lemma own_version_tolerated_ok s w held named mine :
  (forall c v, In (c, v) held -> v = mine) ->
  surprised (handle_answer s w (answer_of mine true held named)) = surprised s.
Proof.
  intros H. unfold answer_of, server_read_data, handle_answer.
  assert (E : existsb (fun r => negb (r_shnum r =? w_shnum w) && negb (mem_N (r_shnum r) (known_on_server (writers s) (w_server w)))
                                && negb (r_is_our_checkstring r)) (report mine held) = false).
  { apply not_true_is_false. intro X. apply existsb_exists in X. destruct X as [r [Hr Hb]].
    unfold report in Hr. apply in_map_iff in Hr. destruct Hr as [[c v] [Er Hin]]. subst r. cbn in Hb.
    rewrite (H c v Hin), N.eqb_refl in Hb. cbn in Hb. rewrite andb_false_r in Hb. discriminate. }
  rewrite E. reflexivity.
Qed.
