(* Byte-list, range-map and association-list lemmas for Model/ImmStore.v *)
From Coq Require Import List NArith ZArith Bool Lia.
From Coq Require Import ZifyBool ZifyNat ZifyN.
From Verif Require Import Model.ImmStore.
Import ListNotations.
Local Open Scope N_scope.

(* ------------------------------------------------------------------ nth / firstn / skipn *)
Lemma nth_firstn_lt : forall (l : list N) (n i : nat), (i < n)%nat -> nth i (firstn n l) 0 = nth i l 0.
Proof.
  induction l as [|x l IH]; intros n i H.
  - rewrite firstn_nil. reflexivity.
  - destruct n as [|n]; [lia|]. destruct i as [|i]; simpl; auto. apply IH. lia.
Qed.

Lemma nth_skipn_add : forall (l : list N) (k i : nat), nth i (skipn k l) 0 = nth (k + i) l 0.
Proof.
  induction l as [|x l IH]; intros k i.
  - rewrite skipn_nil. destruct i, k; reflexivity.
  - destruct k as [|k]; simpl; auto.
Qed.

Lemma nth_beyond : forall (l : list N) (i : nat), (length l <= i)%nat -> nth i l 0 = 0.
Proof. intros. apply nth_overflow. assumption. Qed.

Lemma slice_nth : forall off len l i, i < len -> nth (N.to_nat i) (slice off len l) 0 = nthb l (off + i).
Proof.
  intros off len l i H. unfold slice, nthb.
  rewrite nth_firstn_lt by lia. rewrite nth_skipn_add. f_equal. lia.
Qed.

Lemma slice_length_le : forall off len l, (length (slice off len l) <= N.to_nat len)%nat.
Proof. intros. unfold slice. apply firstn_le_length. Qed.

Lemma slice_length : forall off len l, off + len <= blen l -> length (slice off len l) = N.to_nat len.
Proof.
  intros off len l H. unfold slice, blen in *. rewrite firstn_length, skipn_length. lia.
Qed.

Lemma read_share_data_slice : forall data off len, read_share_data data off len = slice off len data.
Proof.
  intros data off len. unfold read_share_data.
  destruct (Z.eqb_spec (Z.max 0 (Z.min (Z.of_N len) (Z.of_N (blen data) - Z.of_N off))) 0) as [E|E].
  - unfold slice. destruct (N.eq_dec len 0) as [->|Hl]; [reflexivity|].
    assert (Hb : blen data <= off) by lia. unfold blen in Hb.
    rewrite skipn_all2 by lia. rewrite firstn_nil. reflexivity.
  - unfold slice.
    assert (Hoff : off < blen data) by lia. unfold blen in *.
    destruct (N.le_gt_cases len (N.of_nat (length data) - off)) as [Hc|Hc].
    + f_equal. lia.
    + rewrite (firstn_all2 (n := N.to_nat len)) by (rewrite skipn_length; lia).
      rewrite firstn_all2 by (rewrite skipn_length; lia). reflexivity.
Qed.

Lemma read_nth : forall data off len i, i < len -> nth (N.to_nat i) (read_share_data data off len) 0 = nthb data (off + i).
Proof. intros. rewrite read_share_data_slice. apply slice_nth. assumption. Qed.

Lemma nthb_zeros : forall n p, nthb (zeros n) p = 0.
Proof.
  intros n p. unfold nthb, zeros.
  destruct (Nat.lt_ge_cases (N.to_nat p) (N.to_nat n)) as [H|H].
  - apply nth_repeat.
  - apply nth_overflow. rewrite repeat_length. assumption.
Qed.

Lemma blen_zeros : forall n, blen (zeros n) = n.
Proof. intros. unfold blen, zeros. rewrite repeat_length. lia. Qed.

(* ------------------------------------------------------------------ write_at *)
Lemma blen_write_at : forall off d buf, off + blen d <= blen buf -> blen (write_at off d buf) = blen buf.
Proof.
  intros off d buf H. unfold blen, write_at in *.
  rewrite !app_length, firstn_length, skipn_length. lia.
Qed.

Lemma nth_write_at_in : forall off d buf p, off + blen d <= blen buf -> off <= p < off + blen d ->
  nthb (write_at off d buf) p = nthb d (p - off).
Proof.
  intros off d buf p H Hp. unfold nthb, write_at, blen in *.
  assert (Hl : length (firstn (N.to_nat off) buf) = N.to_nat off) by (rewrite firstn_length; lia).
  rewrite app_nth2 by lia. rewrite Hl.
  rewrite app_nth1 by lia. f_equal. lia.
Qed.

Lemma nth_write_at_out : forall off d buf p, off + blen d <= blen buf -> (p < off \/ off + blen d <= p) ->
  nthb (write_at off d buf) p = nthb buf p.
Proof.
  intros off d buf p H Hp. unfold nthb, write_at, blen in *.
  assert (Hl : length (firstn (N.to_nat off) buf) = N.to_nat off) by (rewrite firstn_length; lia).
  destruct Hp as [Hp|Hp].
  - rewrite app_nth1 by lia. apply nth_firstn_lt. lia.
  - rewrite app_nth2 by lia. rewrite Hl. rewrite app_nth2 by lia.
    rewrite nth_skipn_add. f_equal. lia.
Qed.

Lemma bytes_eqb_eq : forall a b, bytes_eqb a b = true -> a = b.
Proof.
  induction a as [|x a IH]; destruct b as [|y b]; simpl; intros H; try discriminate; auto.
  apply andb_true_iff in H. destruct H as [H1 H2]. apply N.eqb_eq in H1. subst. f_equal. auto.
Qed.

Lemma bytes_eqb_refl : forall a, bytes_eqb a a = true.
Proof. induction a; simpl; auto. rewrite N.eqb_refl. auto. Qed.

(* ------------------------------------------------------------------ range map *)
Definition in_iv (a b p : N) : bool := (a <=? p) && (p <? b).

Lemma covered_cons : forall s e r p, covered ((s, e) :: r) p = in_iv s e p || covered r p.
Proof. reflexivity. Qed.

Lemma covered_rm_set : forall l a b p, a < b -> covered (rm_set a b l) p = in_iv a b p || covered l p.
Proof.
  induction l as [|[s e] r IH]; intros a b p Hab.
  - reflexivity.
  - cbn [rm_set]. destruct (N.ltb_spec e a) as [H1|H1].
    + rewrite !covered_cons, IH by assumption.
      destruct (in_iv s e p), (in_iv a b p), (covered r p); reflexivity.
    + destruct (N.ltb_spec b s) as [H2|H2].
      * rewrite !covered_cons. reflexivity.
      * rewrite IH by lia. rewrite covered_cons.
        assert (E : in_iv (N.min a s) (N.max b e) p = in_iv a b p || in_iv s e p).
        { unfold in_iv. lia. }
        rewrite E. destruct (in_iv s e p), (in_iv a b p), (covered r p); reflexivity.
Qed.

Lemma query_covers : forall l a b p, a <= p < b -> covered l p = true ->
  exists cs ce, In (cs, ce) (rm_query a b l) /\ a <= cs /\ cs <= p < ce.
Proof.
  induction l as [|[s e] r IH]; intros a b p Hp Hc.
  - discriminate.
  - rewrite covered_cons in Hc. cbn [rm_query].
    destruct (in_iv s e p) eqn:Hin.
    + unfold in_iv in Hin.
      assert (Hlt : N.max s a <? N.min e b = true) by lia. rewrite Hlt.
      exists (N.max s a), (N.min e b). split; [left; reflexivity|]. lia.
    + simpl in Hc. destruct (IH a b p Hp Hc) as (cs & ce & Hi & H1 & H2).
      exists cs, ce. split; [|auto].
      destruct (N.max s a <? N.min e b); [right|]; assumption.
Qed.

Lemma chunks_agree_in : forall stored off d chunks, chunks_agree stored off d chunks = true ->
  forall cs ce, In (cs, ce) chunks -> off <= cs -> forall p, cs <= p < ce -> nthb stored p = nthb d (p - off).
Proof.
  induction chunks as [|[cs' ce'] r IH]; intros H cs ce Hin Hoff p Hp.
  - destruct Hin.
  - cbn [chunks_agree] in H. apply andb_true_iff in H. destruct H as [H1 H2].
    destruct Hin as [E|Hin].
    + inversion E; subst. apply bytes_eqb_eq in H1.
      assert (Hi : p - cs < ce - cs) by lia.
      pose proof (read_nth stored cs (ce - cs) (p - cs) Hi) as R1.
      pose proof (slice_nth (cs - off) (ce - cs) d (p - cs) Hi) as R2.
      rewrite H1 in R1. rewrite R1 in R2.
      replace (cs + (p - cs)) with p in R2 by lia.
      replace (cs - off + (p - cs)) with (p - off) in R2 by lia. exact R2.
    + eapply IH; eauto.
Qed.

Lemma agree_pointwise : forall stored off d l p,
  chunks_agree stored off d (rm_query off (off + blen d) l) = true ->
  off <= p < off + blen d -> covered l p = true -> nthb stored p = nthb d (p - off).
Proof.
  intros stored off d l p H Hp Hc.
  destruct (query_covers l off (off + blen d) p Hp Hc) as (cs & ce & Hin & H1 & H2).
  eapply chunks_agree_in; eauto.
Qed.

(* ------------------------------------------------------------------ keys and slots *)
Lemma key_eqb_eq : forall a b, key_eqb a b = true <-> a = b.
Proof.
  intros [a1 a2] [b1 b2]. unfold key_eqb. cbn [fst snd]. split.
  - intros H. apply andb_true_iff in H. destruct H as [H1 H2].
    apply N.eqb_eq in H1. apply N.eqb_eq in H2. subst. reflexivity.
  - intros H. inversion H. subst. rewrite !N.eqb_refl. reflexivity.
Qed.

Lemma key_eqb_refl : forall a, key_eqb a a = true.
Proof. intros. apply key_eqb_eq. reflexivity. Qed.

Lemma key_eqb_neq : forall a b, a <> b -> key_eqb a b = false.
Proof. intros a b H. destruct (key_eqb a b) eqn:E; auto. apply key_eqb_eq in E. contradiction. Qed.

Lemma key_eq_dec : forall a b : key, {a = b} + {a <> b}.
Proof. intros. destruct (key_eqb a b) eqn:E; [left; apply key_eqb_eq; auto | right; intros ->; rewrite key_eqb_refl in E; discriminate]. Qed.

Definition keys (l : list (key * slot)) : list key := map fst l.

Lemma lookup_set_same : forall l k v, lookup k (set_slot k v l) = v.
Proof.
  induction l as [|[k' v'] r IH]; intros k v; cbn [set_slot lookup].
  - rewrite key_eqb_refl. reflexivity.
  - destruct (key_eqb k k') eqn:E; cbn [lookup]; rewrite E; auto.
Qed.

Lemma lookup_set_other : forall l k k0 v, k0 <> k -> lookup k0 (set_slot k v l) = lookup k0 l.
Proof.
  induction l as [|[k' v'] r IH]; intros k k0 v Hne; cbn [set_slot lookup].
  - rewrite key_eqb_neq by assumption. reflexivity.
  - destruct (key_eqb k k') eqn:E; cbn [lookup].
    + apply key_eqb_eq in E. subst. rewrite key_eqb_neq by assumption. reflexivity.
    + destruct (key_eqb k0 k'); auto.
Qed.

Lemma lookup_in_keys : forall l k, lookup k l <> Absent -> In k (keys l).
Proof.
  induction l as [|[k' v'] r IH]; intros k H; cbn [lookup keys map fst] in *.
  - congruence.
  - destruct (key_eqb k k') eqn:E.
    + left. apply key_eqb_eq in E. auto.
    + right. apply IH. assumption.
Qed.

Lemma keys_set_slot : forall l k v, keys (set_slot k v l) = keys l \/ (~ In k (keys l) /\ keys (set_slot k v l) = keys l ++ [k]).
Proof.
  induction l as [|[k' v'] r IH]; intros k v; cbn [set_slot keys map fst].
  - right. split; auto.
  - destruct (key_eqb k k') eqn:E; cbn [map fst].
    + left. reflexivity.
    + destruct (IH k v) as [H|[H1 H2]]; unfold keys in *.
      * left. rewrite H. reflexivity.
      * right. split.
        -- intros [H|H]; [|auto]. subst. rewrite key_eqb_refl in E. discriminate.
        -- rewrite H2. reflexivity.
Qed.

Lemma NoDup_snoc : forall (A : Type) (l : list A) (x : A), NoDup l -> ~ In x l -> NoDup (l ++ [x]).
Proof.
  induction l as [|y l IH]; intros x Hn Hx; simpl.
  - constructor; auto.
  - inversion Hn; subst. constructor.
    + rewrite in_app_iff. intros [H|[H|[]]]; [contradiction|]. subst. apply Hx. left. reflexivity.
    + apply IH; auto. intros H. apply Hx. right. assumption.
Qed.

Lemma NoDup_keys_set_slot : forall l k v, NoDup (keys l) -> NoDup (keys (set_slot k v l)).
Proof.
  intros l k v H. destruct (keys_set_slot l k v) as [E|[H1 E]]; rewrite E; auto.
  apply NoDup_snoc; auto.
Qed.

Lemma keys_abort_where : forall p l, keys (abort_where p l) = keys l.
Proof.
  intros p l. unfold keys, abort_where. rewrite map_map. apply map_ext.
  intros [k v]. cbn [fst snd]. destruct v as [|w|wid d]; try reflexivity. destruct (p w); reflexivity.
Qed.

Lemma lookup_abort_where : forall p l k,
  lookup k (abort_where p l) = match lookup k l with
                               | Incoming w => if p w then Absent else Incoming w
                               | v => v
                               end.
Proof.
  induction l as [|[k' v'] r IH]; intros k; cbn [abort_where map lookup fst snd].
  - reflexivity.
  - destruct v' as [|w|wid d]; cbn [fst snd lookup].
    + destruct (key_eqb k k'); auto; apply IH.
    + destruct (p w) eqn:Ep; cbn [lookup]; destruct (key_eqb k k'); auto; try apply IH; try (rewrite Ep; reflexivity).
    + destruct (key_eqb k k'); auto; apply IH.
Qed.

(* ------------------------------------------------------------------ sums over slots *)
Lemma sum_set_slot : forall f l k v, f Absent = 0 ->
  sum_slots f (set_slot k v l) + f (lookup k l) = sum_slots f l + f v.
Proof.
  intros f l k v H0. induction l as [|[k' v'] r IH]; cbn [set_slot lookup sum_slots].
  - lia.
  - destruct (key_eqb k k'); cbn [sum_slots]; lia.
Qed.

Lemma sum_abort_where_le : forall f p l, f Absent = 0 -> sum_slots f (abort_where p l) <= sum_slots f l.
Proof.
  intros f p l H0. induction l as [|[k' v'] r IH]; cbn [abort_where map sum_slots fst snd].
  - lia.
  - fold (abort_where p r). destruct v' as [|w|wid d]; cbn [sum_slots]; try lia.
    destruct (p w); cbn [sum_slots]; lia.
Qed.

Lemma sum_abort_where_releases : forall f p l k w, f Absent = 0 -> lookup k l = Incoming w -> p w = true ->
  sum_slots f (abort_where p l) + f (Incoming w) <= sum_slots f l.
Proof.
  intros f p l k w H0. induction l as [|[k' v'] r IH]; intros Hl Hp; cbn [lookup] in Hl.
  - discriminate.
  - cbn [abort_where map sum_slots fst snd]. fold (abort_where p r).
    destruct (key_eqb k k').
    + subst v'. rewrite Hp. cbn [sum_slots]. pose proof (sum_abort_where_le f p r H0). lia.
    + specialize (IH Hl Hp).
      destruct v' as [|w'|wid d]; cbn [sum_slots]; try lia.
      destruct (p w'); cbn [sum_slots]; lia.
Qed.

(* ------------------------------------------------------------------ listing *)
Lemma insert_sorted_in : forall x y l, In x (insert_sorted y l) <-> x = y \/ In x l.
Proof.
  intros x y l. induction l as [|z l IH]; cbn [insert_sorted].
  - simpl. intuition.
  - destruct (y <=? z); simpl in *; intuition.
Qed.

Lemma sortN_in : forall x l, In x (sortN l) <-> In x l.
Proof.
  intros x l. unfold sortN. induction l as [|y l IH]; cbn [fold_right].
  - reflexivity.
  - rewrite insert_sorted_in. simpl. intuition.
Qed.

Lemma final_shnums_in : forall l si sh, NoDup (keys l) ->
  (In sh (final_shnums si l) <-> exists wid d, lookup (si, sh) l = Final wid d).
Proof.
  induction l as [|[[si' sh'] v] r IH]; intros si sh Hnd.
  - simpl. split; [intros []|intros (w & d & H); discriminate].
  - cbn [keys map fst] in Hnd. inversion Hnd as [|? ? Hnot Hnd']; subst.
    specialize (IH si sh Hnd').
    assert (Hcase : forall wid d, lookup (si, sh) r = Final wid d -> key_eqb (si, sh) (si', sh') = false).
    { intros wid d Hl. apply key_eqb_neq. intros E. inversion E; subst. apply Hnot.
      apply lookup_in_keys. rewrite Hl. discriminate. }
    cbn [lookup].
    destruct v as [|w|wid0 d0].
    + cbn [final_shnums]. rewrite IH. split.
      * intros (w & d & Hl). rewrite (Hcase _ _ Hl). eauto.
      * intros (w & d & Hl). destruct (key_eqb (si, sh) (si', sh')); [discriminate|eauto].
    + cbn [final_shnums]. rewrite IH. split.
      * intros (w0 & d & Hl). rewrite (Hcase _ _ Hl). eauto.
      * intros (w0 & d & Hl). destruct (key_eqb (si, sh) (si', sh')); [discriminate|eauto].
    + cbn [final_shnums]. destruct (N.eqb_spec si si') as [Es|Es].
      * subst si'. simpl. split.
        -- intros [E|Hin].
           ++ subst sh'. rewrite key_eqb_refl. eauto.
           ++ apply IH in Hin. destruct Hin as (w & d & Hl). rewrite (Hcase _ _ Hl). eauto.
        -- intros (w & d & Hl). destruct (key_eqb (si, sh) (si, sh')) eqn:E.
           ++ apply key_eqb_eq in E. inversion E. left. reflexivity.
           ++ right. apply IH. eauto.
      * rewrite IH. split.
        -- intros (w & d & Hl). rewrite (Hcase _ _ Hl). eauto.
        -- intros (w & d & Hl). destruct (key_eqb (si, sh) (si', sh')) eqn:E.
           ++ apply key_eqb_eq in E. inversion E. congruence.
           ++ eauto.
Qed.
