(* C06, part 2: the selector.  Every edge of existing_shares comes from a get_buckets answer of the script, every
   bucket from an allocate_buckets answer; the verdict of the selector is the happiness test on the merged map. *)
From Coq Require Import List NArith ZArith Bool Lia.
From Verif Require Import Model.Matching Proofs.Matching Model.UploadSel Proofs.UploadSelBase.
Import ListNotations.
Local Open Scope N_scope.

(* what the servers said (the script) *)
Definition found (x : script) (p s : N) : Prop :=
  exists shares, In (p, ExOk shares) (x_existing x) /\ In s shares.
Definition allocated (x : script) (p s : N) : Prop :=
  exists r got alloc, In r (x_rounds x) /\ In (p, AlOk got alloc) (r_resps r) /\ In s alloc.

(* ---------------------------------------------------------------- which fields a step touches *)
Lemma mark_bad_peer_keeps : forall p st,
  s_existing (mark_bad_peer p st) = s_existing st /\ s_buckets (mark_bad_peer p st) = s_buckets st /\
  s_use (mark_bad_peer p st) = s_use st.
Proof.
  intros p st. unfold mark_bad_peer. destruct (memN p (s_peers st)); [cbn; auto|].
  destruct (memN p (s_ro_peers st)); cbn; auto.
Qed.

Lemma make_readonly_keeps : forall p st,
  s_existing (make_readonly p st) = s_existing st /\ s_buckets (make_readonly p st) = s_buckets st /\
  s_use (make_readonly p st) = s_use st.
Proof. intros p st. cbn. auto. Qed.

Lemma mark_readonly_peer_keeps : forall p st,
  s_existing (mark_readonly_peer p st) = s_existing st /\ s_buckets (mark_readonly_peer p st) = s_buckets st /\
  s_use (mark_readonly_peer p st) = s_use st.
Proof. intros p st. cbn. auto. Qed.

Section SelectorInvariant.
  Variable F : N -> N -> Prop.      (* server p reported share s in answer to get_buckets *)
  Variable A : N -> N -> Prop.      (* server p allocated a bucket for share s *)

  Definition sel_inv (st : sel) : Prop :=
    (forall p s, dm_in (s_existing st) p s -> F p s) /\
    (forall p s, dm_in (s_buckets st) p s -> A p s).

  Lemma sel_inv_ext : forall st st',
    s_existing st' = s_existing st -> s_buckets st' = s_buckets st -> sel_inv st -> sel_inv st'.
  Proof. intros st st' E B [H1 H2]. split; [rewrite E; exact H1|rewrite B; exact H2]. Qed.

  Lemma sel_inv_init : forall c, sel_inv (sel_init c).
  Proof. intros c. split; intros p s H; cbn in H; exfalso; exact (dm_in_nil _ _ H). Qed.

  (* ---- phase 1 *)
  Lemma existing_ro_inv : forall p r st,
    (forall shares s, r = ExOk shares -> In s shares -> F p s) -> sel_inv st -> sel_inv (existing_ro p r st).
  Proof.
    intros p r st Hr Hi. destruct r as [shares|]; cbn [existing_ro].
    - destruct Hi as [H1 H2]. split; cbn; [|exact H2].
      intros q s H. destruct (dm_in_add_all _ _ _ _ _ H) as [[-> Hs]|H']; [eapply Hr; [reflexivity|exact Hs]|apply H1; exact H'].
    - destruct (mark_bad_peer_keeps p st) as [E [B _]]. eapply sel_inv_ext; eauto.
  Qed.

  Lemma existing_rw_inv : forall p r st,
    (forall shares s, r = ExOk shares -> In s shares -> F p s) -> sel_inv st -> sel_inv (existing_rw p r st).
  Proof.
    intros p r st Hr Hi. destruct r as [shares|]; cbn [existing_rw].
    - destruct Hi as [H1 H2]. split; cbn; [|exact H2].
      intros q s H. destruct (dm_in_add_all _ _ _ _ _ H) as [[-> Hs]|H']; [eapply Hr; [reflexivity|exact Hs]|apply H1; exact H'].
    - destruct (mark_bad_peer_keeps p (make_readonly p st)) as [E [B _]].
      eapply sel_inv_ext; [rewrite E; reflexivity|rewrite B; reflexivity|exact Hi].
  Qed.

  Lemma phase1_inv : forall c resps pending st st' pending',
    (forall p shares s, In (p, ExOk shares) resps -> In s shares -> F p s) ->
    sel_inv st -> phase1 c resps pending st = (st', pending') -> sel_inv st'.
  Proof.
    intros c resps. induction resps as [|[p r] rest IH]; intros pending st st' pending' Hr Hi E; cbn [phase1] in E.
    - inversion E; subst. exact Hi.
    - assert (Hrest : forall q shares s, In (q, ExOk shares) rest -> In s shares -> F q s)
        by (intros q shares s H; apply (Hr q shares s); right; exact H).
      assert (Hp : forall shares s, r = ExOk shares -> In s shares -> F p s)
        by (intros shares s -> Hs; apply (Hr p shares s); [left; reflexivity|exact Hs]).
      destruct (memN p pending).
      + eapply IH; [exact Hrest| |exact E].
        destruct (memN p (c_ro c)); [apply existing_ro_inv|apply existing_rw_inv]; assumption.
      + eapply IH; eassumption.
  Qed.

  (* ---- phase 2 *)
  Lemma send_queries_keeps : forall plan ts st sent st' sent',
    send_queries plan ts st sent = (st', sent') ->
    s_existing st' = s_existing st /\ s_buckets st' = s_buckets st /\ s_use st' = s_use st.
  Proof.
    intros plan ts. induction ts as [|p ts IH]; intros st sent st' sent' E; cbn [send_queries] in E.
    - inversion E; subst. auto.
    - match type of E with context [if ?b then _ else _] => destruct b end;
        apply IH in E; cbn in E; exact E.
  Qed.

  Lemma alloc_error_keeps : forall p ask st,
    s_existing (alloc_error p ask st) = s_existing st /\ s_buckets (alloc_error p ask st) = s_buckets st /\
    s_use (alloc_error p ask st) = s_use st.
  Proof. intros p ask st. cbn. auto. Qed.

  Lemma alloc_ok_fields : forall p ask got alloc st,
    s_existing (alloc_ok p ask got alloc st) = s_existing st /\
    s_buckets (alloc_ok p ask got alloc st) = dm_add_all p alloc (s_buckets st) /\
    s_use (alloc_ok p ask got alloc st) = (if is_nil alloc then s_use st else set_add p (s_use st)).
  Proof.
    intros p ask got alloc st. unfold alloc_ok.
    destruct (fold_left (got_step p ask) got (s_preexisting st, s_homeless st, false)) as [[pre hl] prog0].
    destruct (prog0 || negb (is_nil alloc)); cbn; auto.
  Qed.

  Lemma alloc_ok_inv : forall p ask got alloc st,
    (forall s, In s alloc -> A p s) -> sel_inv st -> sel_inv (alloc_ok p ask got alloc st).
  Proof.
    intros p ask got alloc st Ha [H1 H2]. destruct (alloc_ok_fields p ask got alloc st) as [E [B _]].
    split; [rewrite E; exact H1|rewrite B]. intros q s H.
    destruct (dm_in_add_all _ _ _ _ _ H) as [[-> Hs]|H']; [apply Ha; exact Hs|apply H2; exact H'].
  Qed.

  Lemma handle_allocs_inv : forall resps pending st st' pending',
    (forall p got alloc s, In (p, AlOk got alloc) resps -> In s alloc -> A p s) ->
    sel_inv st -> handle_allocs resps pending st = (st', pending') -> sel_inv st'.
  Proof.
    induction resps as [|[p r] rest IH]; intros pending st st' pending' Hr Hi E; cbn [handle_allocs] in E.
    - inversion E; subst. exact Hi.
    - assert (Hrest : forall q got alloc s, In (q, AlOk got alloc) rest -> In s alloc -> A q s)
        by (intros q got alloc s H; apply (Hr q got alloc s); right; exact H).
      destruct (lookup_ask p pending) as [ask|]; [|eapply IH; eassumption].
      eapply IH; [exact Hrest| |exact E]. destruct r as [got alloc|].
      + apply alloc_ok_inv; [|exact Hi]. intros s Hs. apply (Hr p got alloc s); [left; reflexivity|exact Hs].
      + destruct (alloc_error_keeps p ask st) as [E1 [B1 _]]. eapply sel_inv_ext; eauto.
  Qed.

  Lemma do_round_inv : forall c r st st' sent,
    (forall p got alloc s, In (p, AlOk got alloc) (r_resps r) -> In s alloc -> A p s) ->
    sel_inv st -> do_round c r st = Some (st', sent) -> sel_inv st'.
  Proof.
    intros c r st st' sent Hr Hi E. unfold do_round in E.
    destruct (send_queries (r_plan r) (trackers c) st []) as [st1 sent1] eqn:E1.
    destruct (handle_allocs (r_resps r) sent1 st1) as [st2 pending] eqn:E2.
    destruct (is_nil pending); [|discriminate]. inversion E; subst.
    eapply handle_allocs_inv; [exact Hr| |exact E2].
    destruct (send_queries_keeps _ _ _ _ _ _ E1) as [Ee [Eb _]]. eapply sel_inv_ext; eauto.
  Qed.

  Lemma sel_loop_inv : forall c rounds last st qs st' qs',
    (forall r p got alloc s, In r rounds -> In (p, AlOk got alloc) (r_resps r) -> In s alloc -> A p s) ->
    sel_inv st -> sel_loop c rounds last st qs = Some (st', qs') -> sel_inv st'.
  Proof.
    intros c rounds. induction rounds as [|r rest IH]; intros last st qs st' qs' Hr Hi E; cbn [sel_loop] in E; [discriminate|].
    destruct (do_round c r st) as [[st1 sent]|] eqn:E1; [|discriminate].
    assert (H1 : sel_inv st1).
    { eapply do_round_inv; [|exact Hi|exact E1]. intros p got alloc s. apply Hr. left; reflexivity. }
    destruct (happiness st1) as [eff|]; [|discriminate].
    destruct (match last with Some l => Z.eqb eff l | None => false end); [inversion E; subst; exact H1|].
    destruct (N.eqb (s_bad st) (s_bad st1)); [inversion E; subst; exact H1|].
    destruct (Z.ltb eff (c_happy c) && negb (is_nil (s_wtrackers st1))); [|inversion E; subst; exact H1].
    eapply IH; [|exact H1|exact E]. intros r' p got alloc s Hin. apply Hr. right; exact Hin.
  Qed.
End SelectorInvariant.

(* the invariant instantiated with the script *)
Lemma selector_state_sound : forall c x st1 pending st qs,
  phase1 c (x_existing x) (trackers c) (sel_init c) = (st1, pending) ->
  sel_loop c (x_rounds x) None st1 [] = Some (st, qs) ->
  sel_inv (found x) (allocated x) st.
Proof.
  intros c x st1 pending st qs E1 E2.
  eapply sel_loop_inv; [| |exact E2].
  - intros r p got alloc s Hr Hp Hs. exists r, got, alloc. auto.
  - eapply phase1_inv; [|apply sel_inv_init|exact E1].
    intros p shares s Hp Hs. exists shares. auto.
Qed.

(* edges of the merged map *)
Lemma merged_sound : forall F A st s p,
  sel_inv F A st -> dm_in (merged st) s p -> F p s \/ (In (p, s) (sel_buckets st) /\ A p s).
Proof.
  intros F A st s p [H1 H2] H. destruct (dm_in_merged _ _ _ H) as [H'|[Hu Hs]].
  - left. apply H1. exact H'.
  - right. split; [apply In_sel_buckets; auto|apply H2; apply dm_get_in; exact Hs].
Qed.
