(* URI extension block: pack_extension / unpack_extension. *)
From Coq Require Import String.
From Coq Require Import List NArith ZArith Bool Lia Permutation Sorted.
From Verif Require Import Lib.Decimal Lib.DecimalFacts Lib.Hex Lib.Netstring Lib.NetstringFacts
     Model.PyResult Model.PyInt Model.NetstringCodec Model.Ueb Gen.CodecConsts
     Proofs.CodecsPyInt Proofs.CodecsNetstring.
Import ListNotations.
Local Open Scope N_scope.

(* ---------------------------------------------------------------------- *)
(* generalities                                                            *)

Lemma list_N_eqb_refl l : list_N_eqb l l = true.
Proof. apply list_N_eqb_eq. reflexivity. Qed.

Lemma list_N_eqb_neq a b : a <> b -> list_N_eqb a b = false.
Proof. intro H. destruct (list_N_eqb a b) eqn:E; [apply list_N_eqb_eq in E; congruence|reflexivity]. Qed.

Lemma mem_key_In k l : mem_key k l = true <-> In k l.
Proof.
  induction l as [|x l IH]; cbn [mem_key In]; [split; [discriminate|tauto]|].
  rewrite orb_true_iff, list_N_eqb_eq, IH. tauto.
Qed.

Lemma keys_distinct_NoDup d : keys_distinct d = true <-> NoDup (map fst d).
Proof.
  induction d as [|[k v] d IH]; cbn [keys_distinct map fst].
  - split; [constructor|reflexivity].
  - rewrite andb_true_iff, negb_true_iff, IH. split.
    + intros [H1 H2]. constructor; [|assumption]. intro Hin. apply mem_key_In in Hin. congruence.
    + intro H. inversion H as [|? ? Hn Hd]; subst. split; [|assumption].
      destruct (mem_key k (map fst d)) eqn:E; [apply mem_key_In in E; tauto|reflexivity].
Qed.

Lemma dict_get_None d k : ~ In k (map fst d) -> dict_get d k = None.
Proof.
  induction d as [|[k' v] d IH]; cbn [dict_get map fst In]; intro H; [reflexivity|].
  rewrite list_N_eqb_neq by tauto. apply IH. tauto.
Qed.

Lemma dict_set_fresh d k v : ~ In k (map fst d) -> dict_set d k v = d ++ [(k, v)].
Proof.
  induction d as [|[k' v'] d IH]; cbn [dict_set map fst In app]; intro H; [reflexivity|].
  rewrite list_N_eqb_neq by tauto. rewrite IH by tauto. reflexivity.
Qed.

(* ---------------------------------------------------------------------- *)
(* keys                                                                    *)

Lemma utf8_valid_ascii l : forallb (fun b => b <? 128) l = true -> utf8_valid l = true.
Proof.
  induction l as [|b l IH]; cbn [forallb utf8_valid]; [reflexivity|].
  intro H. apply andb_true_iff in H. destruct H as [-> H]. apply IH. assumption.
Qed.

Definition key_byte (b : N) : bool := ueb_key_char b || (b =? 10).

Lemma key_byte_props b : key_byte b = true -> (b <? 128) = true /\ b <> 58.
Proof.
  unfold key_byte, ueb_key_char. rewrite !orb_true_iff, !andb_true_iff, !N.leb_le, !N.eqb_eq, N.ltb_lt. lia.
Qed.

Lemma ueb_key_ok_bytes k : ueb_key_ok k = true -> forallb key_byte k = true.
Proof.
  unfold ueb_key_ok. intro H.
  assert (Hchar : forall l, forallb ueb_key_char l = true -> forallb key_byte l = true).
  { induction l as [|b l IH]; cbn [forallb]; [reflexivity|]. intro Hl. apply andb_true_iff in Hl.
    destruct Hl as [Hb Hl]. unfold key_byte at 1. rewrite Hb, IH by assumption. reflexivity. }
  destruct (rev k) as [|b r] eqn:E.
  - destruct k; [discriminate|]. apply Hchar. assumption.
  - assert (Hk : k = rev r ++ [b]) by (rewrite <- (rev_involutive k), E; reflexivity).
    destruct (N.eq_dec b 10) as [->|Hb].
    + destruct (rev r) eqn:Er; [discriminate|]. rewrite Hk, forallb_app, Hchar by assumption. reflexivity.
    + assert (Hbody : match k with [] => false | _ => forallb ueb_key_char k end = true).
      { destruct b as [|p]; [exact H|].
        do 4 (destruct p as [p|p|]; try exact H). congruence. }
      destruct k; [discriminate|]. apply Hchar. assumption.
Qed.

Lemma ueb_key_ok_props k : ueb_key_ok k = true -> ~ In 58 k /\ utf8_valid k = true.
Proof.
  intro H. apply ueb_key_ok_bytes in H. split.
  - intro Hin. rewrite forallb_forall in H. apply H in Hin. apply key_byte_props in Hin. tauto.
  - apply utf8_valid_ascii. rewrite forallb_forall in *. intros b Hb. apply H in Hb.
    apply key_byte_props in Hb. tauto.
Qed.

(* ---------------------------------------------------------------------- *)
(* one iteration                                                           *)

Lemma ueb_loop_S rdlen keychk f data d : data <> [] ->
  ueb_loop rdlen keychk (S f) data d =
  match find_byte 58 data with
  | None => Err EValue
  | Some (key, data1) =>
    match find_byte 58 data1 with
    | None => Err EValue
    | Some (number, data2) =>
      match rdlen number with
      | None => Err EValue
      | Some z =>
        match ueb_cut z data2 with
        | None => Err EAssert
        | Some (value, data3) =>
          if utf8_valid key then
            if keychk d key then ueb_loop rdlen keychk f data3 (dict_set d key (UBytes value))
            else Err EStrict
          else Err EUnicode
        end
      end
    end
  end.
Proof. destruct data; [congruence|reflexivity]. Qed.

Lemma ueb_cut_app v rest : ueb_cut (Z.of_N (blen v)) (v ++ 44 :: rest) = Some (v, rest).
Proof.
  unfold ueb_cut.
  assert (H0 : (0 <=? Z.of_N (blen v))%Z = true) by (apply Z.leb_le; lia).
  rewrite H0.
  assert (H1 : Z.ltb (Z.of_N (blen v)) (Z.of_nat (length (v ++ 44 :: rest))) = true).
  { apply Z.ltb_lt. rewrite app_length. cbn [length]. unfold blen. lia. }
  rewrite H1.
  replace (Z.to_nat (Z.of_N (blen v))) with (length v) by (unfold blen; lia).
  rewrite skipn_app_len, firstn_app_len. reflexivity.
Qed.

Lemma ueb_cut_nonneg z data v rest :
  (0 <= z)%Z -> ueb_cut z data = Some (v, rest) -> data = v ++ 44 :: rest /\ Z.of_N (blen v) = z.
Proof.
  intros Hz. unfold ueb_cut. apply Z.leb_le in Hz. rewrite Hz. apply Z.leb_le in Hz.
  destruct (z <? Z.of_nat (length data))%Z eqn:Hlt; [|discriminate]. apply Z.ltb_lt in Hlt.
  destruct (skipn (Z.to_nat z) data) as [|c r] eqn:Hs; [discriminate|].
  destruct (c =? 44) eqn:Hc; [|discriminate]. apply N.eqb_eq in Hc. subst c.
  intro H. injection H as <- <-.
  apply firstn_skipn_cons in Hs. destruct Hs as [Hd Hl]. split; [assumption|].
  unfold blen. rewrite Hl. lia.
Qed.

Definition to_b (e : list N * uval) : list N * uval := (fst e, UBytes (ueb_val_bytes (snd e))).

(* ---------------------------------------------------------------------- *)
(* round trip                                                              *)

Section Loop.
Variable rdlen : list N -> option Z.
Variable keychk : udict -> list N -> bool.
Hypothesis rdlen_dec : forall n, rdlen (dec n) = Some (Z.of_N n).

Lemma ueb_loop_entry f e rest d :
  ueb_key_ok (fst e) = true -> ~ In (fst e) (map fst d) -> keychk d (fst e) = true ->
  ueb_loop rdlen keychk (S f) (ueb_entry e ++ rest) d = ueb_loop rdlen keychk f rest (d ++ [to_b e]).
Proof.
  intros Hk Hfresh Hchk. destruct (ueb_key_ok_props _ Hk) as [Hcolon Hutf].
  rewrite ueb_loop_S.
  2:{ unfold ueb_entry. intro H. apply app_eq_nil in H. destruct H as [H _].
      apply app_eq_nil in H. destruct H as [_ H]. discriminate. }
  unfold ueb_entry. rewrite <- app_assoc. cbn [app].
  rewrite find_byte_app by assumption.
  rewrite netstring_unfold, <- !app_assoc. cbn [app]. rewrite <- app_assoc. cbn [app].
  rewrite find_byte_app by apply colon_not_in_dec.
  rewrite rdlen_dec, ueb_cut_app, Hutf, Hchk.
  rewrite dict_set_fresh by assumption. reflexivity.
Qed.

Lemma ueb_loop_entries : forall l f d,
  (length l < f)%nat ->
  forallb (fun e => ueb_key_ok (fst e)) l = true ->
  NoDup (map fst d ++ map fst l) ->
  (forall l1 e l2, l = l1 ++ e :: l2 -> keychk (d ++ map to_b l1) (fst e) = true) ->
  ueb_loop rdlen keychk f (concat (map ueb_entry l)) d = Ok (d ++ map to_b l).
Proof.
  induction l as [|e l IH]; intros f d Hf Hk Hnd Hchk.
  - destruct f; [cbn in Hf; lia|]. cbn. rewrite app_nil_r. reflexivity.
  - destruct f as [|f]; [cbn in Hf; lia|].
    cbn [forallb] in Hk. apply andb_true_iff in Hk. destruct Hk as [Hke Hkl].
    cbn [map concat]. rewrite ueb_loop_entry.
    + rewrite IH.
      * rewrite <- app_assoc. reflexivity.
      * cbn [length] in Hf. lia.
      * assumption.
      * rewrite map_app. cbn [map to_b fst]. rewrite <- app_assoc. exact Hnd.
      * intros l1 e' l2 El. rewrite <- app_assoc. apply (Hchk (e :: l1) e' l2). rewrite El. reflexivity.
    + assumption.
    + cbn [map] in Hnd. apply NoDup_remove_2 in Hnd. intro Hin. apply Hnd. apply in_or_app. left. assumption.
    + specialize (Hchk [] e l eq_refl). cbn [map] in Hchk. rewrite app_nil_r in Hchk. assumption.
Qed.
End Loop.

Lemma ueb_convert_typed (rdint : list N -> option Z) :
  (forall z, rdint (dec_Z z) = Some z) ->
  forall l, forallb ueb_typed l = true -> ueb_convert rdint (map to_b l) = Ok l.
Proof.
  intros Hrd. induction l as [|[k v] l IH]; intro H; [reflexivity|].
  cbn [forallb] in H. apply andb_true_iff in H. destruct H as [Ht Hl].
  cbn [map to_b fst snd ueb_convert]. rewrite IH by assumption.
  unfold ueb_typed in Ht. cbn [fst snd] in Ht.
  destruct v as [s|z].
  - apply negb_true_iff in Ht. rewrite Ht. reflexivity.
  - rewrite Ht. cbn [ueb_val_bytes]. rewrite Hrd. reflexivity.
Qed.

(* ---- insertion sort is a permutation ---- *)
Lemma insert_entry_perm e l : Permutation (insert_entry e l) (e :: l).
Proof.
  induction l as [|h t IH]; cbn [insert_entry]; [reflexivity|].
  destruct (lex_ltb (fst h) (fst e)); [|reflexivity].
  rewrite IH. apply perm_swap.
Qed.

Lemma sort_entries_perm d : Permutation (sort_entries d) d.
Proof.
  induction d as [|e d IH]; cbn [sort_entries fold_right]; [reflexivity|].
  rewrite insert_entry_perm. constructor. exact IH.
Qed.

Lemma forallb_perm {A} (P : A -> bool) l l' : Permutation l l' -> forallb P l = true -> forallb P l' = true.
Proof.
  intros Hp H. rewrite forallb_forall in *. intros x Hx. apply H.
  apply Permutation_in with l'; [symmetry; assumption|assumption].
Qed.

Lemma ueb_entry_nonempty e : (1 <= length (ueb_entry e))%nat.
Proof. unfold ueb_entry. rewrite app_length. cbn [length]. lia. Qed.

Lemma concat_entries_length l : (length l <= length (concat (map ueb_entry l)))%nat.
Proof.
  induction l as [|e l IH]; cbn [map concat length]; [lia|].
  rewrite app_length. pose proof (ueb_entry_nonempty e). lia.
Qed.

Lemma ueb_wf_sorted d : ueb_wf d = true ->
  forallb (fun e => ueb_key_ok (fst e)) (sort_entries d) = true /\
  NoDup (map fst (sort_entries d)) /\ forallb ueb_typed (sort_entries d) = true.
Proof.
  unfold ueb_wf. rewrite !andb_true_iff. intros [[Hd Hk] Ht].
  pose proof (sort_entries_perm d) as Hp. symmetry in Hp. repeat split.
  - apply (forallb_perm _ d); assumption.
  - apply keys_distinct_NoDup in Hd. apply Permutation_NoDup with (map fst d); [|assumption].
    apply Permutation_map. assumption.
  - apply (forallb_perm _ d); assumption.
Qed.

(* decode (encode d) = d (as a dict: in key order) *)
Theorem ueb_roundtrip d :
  ueb_wf d = true ->
  exists s, ueb_pack d = Some s /\ ueb_unpack s = Ok (sort_entries d).
Proof.
  intro Hwf. destruct (ueb_wf_sorted d Hwf) as (Hk & Hnd & Ht).
  unfold ueb_wf in Hwf. rewrite !andb_true_iff in Hwf. destruct Hwf as [[_ Hkd] _].
  exists (concat (map ueb_entry (sort_entries d))). split.
  - unfold ueb_pack. rewrite Hkd. reflexivity.
  - unfold ueb_unpack, ueb_unpack_with.
    rewrite (ueb_loop_entries py_int (fun _ _ => true) py_int_dec).
    + cbn [app]. apply ueb_convert_typed; [exact py_int_dec_Z|assumption].
    + pose proof (concat_entries_length (sort_entries d)). lia.
    + assumption.
    + cbn [map app]. assumption.
    + reflexivity.
Qed.

(* ---------------------------------------------------------------------- *)
(* the order on keys                                                       *)

Lemma lex_ltb_irrefl a : lex_ltb a a = false.
Proof. induction a as [|x a IH]; cbn [lex_ltb]; [reflexivity|]. rewrite N.ltb_irrefl. assumption. Qed.

Lemma lex_ltb_asym : forall a b, lex_ltb a b = true -> lex_ltb b a = false.
Proof.
  induction a as [|x a IH]; intros [|y b] H; cbn [lex_ltb] in *; try discriminate; try reflexivity.
  destruct (x <? y) eqn:E1.
  - apply N.ltb_lt in E1. assert (y <? x = false) by (apply N.ltb_ge; lia). rewrite H0. reflexivity.
  - destruct (y <? x) eqn:E2; [discriminate|]. apply IH. assumption.
Qed.

Fixpoint sorted_keys (ks : list (list N)) : Prop :=
  match ks with
  | [] => True
  | k :: r => Forall (fun k' => lex_ltb k k' = true) r /\ sorted_keys r
  end.

Definition keys_below (d : udict) (k : list N) : bool := forallb (fun e => lex_ltb (fst e) k) d.

Lemma keys_below_fresh d k : keys_below d k = true -> ~ In k (map fst d).
Proof.
  unfold keys_below. rewrite forallb_forall. intros H Hin. apply in_map_iff in Hin.
  destruct Hin as (e & <- & He). apply H in He. rewrite lex_ltb_irrefl in He. discriminate.
Qed.

Lemma sorted_keys_snoc ks k :
  sorted_keys ks -> Forall (fun k' => lex_ltb k' k = true) ks -> sorted_keys (ks ++ [k]).
Proof.
  induction ks as [|a ks IH]; cbn [sorted_keys app]; intros Hs Hb.
  - split; [constructor|exact I].
  - destruct Hs as [Ha Hs]. inversion Hb as [|? ? Hak Hb']; subst. split.
    + apply Forall_app. split; [assumption|]. constructor; [assumption|constructor].
    + apply IH; assumption.
Qed.

Lemma sort_entries_sorted d : sorted_keys (map fst d) -> sort_entries d = d.
Proof.
  induction d as [|e d IH]; cbn [map sorted_keys sort_entries fold_right]; intro H; [reflexivity|].
  destruct H as [Hall Hs]. fold (sort_entries d). rewrite IH by assumption.
  destruct d as [|h t]; [reflexivity|]. cbn [insert_entry].
  cbn [map] in Hall. inversion Hall as [|? ? Hh _]; subst.
  rewrite (lex_ltb_asym _ _ Hh). reflexivity.
Qed.

(* ---------------------------------------------------------------------- *)
(* strict converse                                                         *)

Definition is_ubytes (e : list N * uval) : Prop := exists s, snd e = UBytes s.

Lemma ueb_loop_strict_inv : forall fuel data d0 d',
  ueb_loop strict_nat strict_keychk fuel data d0 = Ok d' ->
  sorted_keys (map fst d0) ->
  exists l, d' = d0 ++ l /\ data = concat (map ueb_entry l) /\ Forall is_ubytes l
            /\ sorted_keys (map fst (d0 ++ l)) /\ forallb (fun e => ueb_key_ok (fst e)) l = true.
Proof.
  induction fuel as [|f IH]; intros data d0 d' H Hs; [discriminate|].
  destruct data as [|b0 data0] eqn:Edata.
  - cbn in H. injection H as <-. exists []. rewrite app_nil_r. repeat split; try assumption; constructor.
  - rewrite <- Edata in *. rewrite ueb_loop_S in H by (rewrite Edata; discriminate).
    destruct (find_byte 58 data) as [[key data1]|] eqn:F1; [|discriminate].
    apply find_byte_some in F1. destruct F1 as [Hdata _].
    destruct (find_byte 58 data1) as [[number data2]|] eqn:F2; [|discriminate].
    apply find_byte_some in F2. destruct F2 as [Hdata1 _].
    destruct (strict_nat number) as [z|] eqn:R; [|discriminate].
    apply strict_nat_canonical in R. destruct R as [Hz Hnum].
    destruct (ueb_cut z data2) as [[value data3]|] eqn:C; [|discriminate].
    apply ueb_cut_nonneg in C; [|assumption]. destruct C as [Hdata2 Hlen].
    destruct (utf8_valid key); [|discriminate].
    destruct (strict_keychk d0 key) eqn:K; [|discriminate].
    unfold strict_keychk in K. apply andb_true_iff in K. destruct K as [Kok Kbelow].
    fold (keys_below d0 key) in Kbelow.
    rewrite dict_set_fresh in H by (apply keys_below_fresh; assumption).
    assert (Hs' : sorted_keys (map fst (d0 ++ [(key, UBytes value)]))).
    { rewrite map_app. cbn [map fst]. apply sorted_keys_snoc; [assumption|].
      unfold keys_below in Kbelow. rewrite forallb_forall in Kbelow.
      apply Forall_forall. intros k' Hin. apply in_map_iff in Hin. destruct Hin as (e & <- & He).
      apply Kbelow. assumption. }
    apply IH in H; [|assumption]. destruct H as (l & -> & -> & Hb & Hsl & Hkl).
    exists ((key, UBytes value) :: l). rewrite <- app_assoc in *. cbn [app] in *.
    repeat split.
    + cbn [map concat]. unfold ueb_entry at 1. cbn [fst snd ueb_val_bytes].
      rewrite Hdata, Hdata1, Hdata2, Hnum, netstring_unfold, <- !app_assoc. cbn [app].
      rewrite <- app_assoc. cbn [app].
      replace (blen value) with (Z.to_N z) by lia. rewrite <- app_assoc. reflexivity.
    + constructor; [exists value; reflexivity|assumption].
    + assumption.
    + cbn [forallb fst]. rewrite Kok, Hkl. reflexivity.
Qed.

Lemma ueb_convert_strict_inv : forall d d',
  Forall is_ubytes d -> ueb_convert strict_int d = Ok d' ->
  map fst d' = map fst d /\ map ueb_entry d' = map ueb_entry d.
Proof.
  induction d as [|[k v] d IH]; intros d' Hb H.
  - cbn in H. injection H as <-. split; reflexivity.
  - inversion Hb as [|? ? [s Hs] Hb']; subst. cbn [snd] in Hs. subst v.
    cbn [ueb_convert] in H.
    destruct (ueb_convert strict_int d) as [r'|e] eqn:E; [|discriminate].
    destruct (IH r' Hb' eq_refl) as [Hk He].
    destruct (mem_key k ueb_int_keys).
    + destruct (strict_int s) as [z|] eqn:S; [|discriminate]. injection H as <-.
      apply strict_int_canonical in S. cbn [map fst]. rewrite Hk, He. split; [reflexivity|].
      f_equal. unfold ueb_entry. cbn [fst snd ueb_val_bytes]. rewrite S. reflexivity.
    + injection H as <-. cbn [map fst]. rewrite Hk, He. split; reflexivity.
Qed.

Lemma forallb_key_ok_keys (d d' : udict) :
  map fst d' = map fst d ->
  forallb (fun e => ueb_key_ok (fst e)) d = true -> forallb (fun e => ueb_key_ok (fst e)) d' = true.
Proof.
  revert d'. induction d as [|e d IH]; intros [|e' d'] Hm H; cbn [map] in Hm; try discriminate; [reflexivity|].
  injection Hm as Hf Hm. cbn [forallb] in *. apply andb_true_iff in H. destruct H as [He Hd].
  rewrite Hf, He. cbn. apply IH; assumption.
Qed.

(* whatever the strict reader accepts is exactly the encoding of what it returns *)
Theorem ueb_strict_converse s d : ueb_unpack_strict s = Ok d -> ueb_pack d = Some s.
Proof.
  unfold ueb_unpack_strict, ueb_unpack_with.
  destruct (ueb_loop strict_nat strict_keychk (S (length s)) s []) as [d0|e] eqn:L; [|discriminate].
  intro C. apply ueb_loop_strict_inv in L; [|exact I].
  destruct L as (l & -> & -> & Hb & Hs & Hk). cbn [app] in *.
  destruct (ueb_convert_strict_inv l d Hb C) as [Hkeys Hentries].
  unfold ueb_pack. rewrite (forallb_key_ok_keys l d Hkeys Hk).
  rewrite sort_entries_sorted by (rewrite Hkeys; assumption).
  rewrite Hentries. reflexivity.
Qed.

(* ---------------------------------------------------------------------- *)
(* the strict reader is a restriction of the real one                      *)

Lemma ueb_loop_mono rd1 rd2 (chk1 chk2 : udict -> list N -> bool) :
  (forall l z, rd1 l = Some z -> rd2 l = Some z) ->
  (forall d k, chk1 d k = true -> chk2 d k = true) ->
  forall fuel data d r,
  ueb_loop rd1 chk1 fuel data d = Ok r -> ueb_loop rd2 chk2 fuel data d = Ok r.
Proof.
  intros Hrd Hchk. induction fuel as [|f IH]; intros data d r H; [discriminate|].
  destruct data as [|b0 data0] eqn:Edata; [exact H|].
  rewrite <- Edata in *. rewrite ueb_loop_S in * by (rewrite Edata; discriminate).
  destruct (find_byte 58 data) as [[key data1]|]; [|discriminate].
  destruct (find_byte 58 data1) as [[number data2]|]; [|discriminate].
  destruct (rd1 number) as [z|] eqn:R; [|discriminate]. rewrite (Hrd _ _ R).
  destruct (ueb_cut z data2) as [[value data3]|]; [|discriminate].
  destruct (utf8_valid key); [|discriminate].
  destruct (chk1 d key) eqn:K; [|discriminate]. rewrite (Hchk _ _ K).
  apply IH. exact H.
Qed.

Lemma ueb_convert_mono rd1 rd2 :
  (forall l z, rd1 l = Some z -> rd2 l = Some z) ->
  forall d r, ueb_convert rd1 d = Ok r -> ueb_convert rd2 d = Ok r.
Proof.
  intros Hrd. induction d as [|[k v] d IH]; intros r H; [exact H|].
  cbn [ueb_convert] in *.
  destruct (ueb_convert rd1 d) as [r'|e]; [|discriminate]. rewrite (IH r' eq_refl).
  destruct (mem_key k ueb_int_keys); [|exact H].
  destruct v as [s|z]; [|exact H].
  destruct (rd1 s) as [z|] eqn:R; [|discriminate]. rewrite (Hrd _ _ R). exact H.
Qed.

Theorem ueb_strict_sound s d : ueb_unpack_strict s = Ok d -> ueb_unpack s = Ok d.
Proof.
  unfold ueb_unpack_strict, ueb_unpack, ueb_unpack_with.
  destruct (ueb_loop strict_nat strict_keychk (S (length s)) s []) as [d0|e] eqn:L; [|discriminate].
  rewrite (ueb_loop_mono strict_nat py_int strict_keychk (fun _ _ => true) strict_nat_sound (fun _ _ _ => eq_refl) _ _ _ _ L).
  apply ueb_convert_mono. exact strict_int_sound.
Qed.

(* the real code, on canonical inputs *)
Theorem ueb_converse_canonical s d :
  ueb_unpack s = Ok d -> is_ok (ueb_unpack_strict s) = true -> ueb_pack d = Some s.
Proof.
  intros H Hc. destruct (ueb_unpack_strict s) as [d'|e] eqn:S; [|discriminate].
  pose proof (ueb_strict_sound _ _ S) as S'. rewrite H in S'. injection S' as <-.
  apply ueb_strict_converse. assumption.
Qed.

(* ---------------------------------------------------------------------- *)
(* fuel                                                                    *)

Lemma ueb_cut_shorter z data v rest : ueb_cut z data = Some (v, rest) -> (length rest < length data)%nat.
Proof.
  unfold ueb_cut.
  destruct (if (0 <=? z)%Z then Some z else if (z =? -1)%Z then None
            else if (0 <=? Z.of_nat (length data) + z)%Z then Some (Z.of_nat (length data) + z)%Z else None) as [i|]; [|discriminate].
  destruct (i <? Z.of_nat (length data))%Z; [|discriminate].
  destruct (skipn (Z.to_nat i) data) as [|c r] eqn:Hs; [discriminate|].
  destruct (c =? 44); [|discriminate]. intro H. injection H as _ <-.
  pose proof (skipn_length_le (Z.to_nat i) data) as Hl. rewrite Hs in Hl. cbn [length] in Hl. lia.
Qed.

Lemma ueb_loop_fuel rdlen keychk : forall fuel data d,
  (length data < fuel)%nat -> ueb_loop rdlen keychk fuel data d <> Err EFuel.
Proof.
  induction fuel as [|f IH]; intros data d Hf; [lia|].
  destruct data as [|b0 data0] eqn:Edata; [discriminate|].
  rewrite <- Edata in *. rewrite ueb_loop_S by (rewrite Edata; discriminate).
  destruct (find_byte 58 data) as [[key data1]|] eqn:F1; [|discriminate].
  apply find_byte_some in F1. destruct F1 as [Hdata _].
  destruct (find_byte 58 data1) as [[number data2]|] eqn:F2; [|discriminate].
  apply find_byte_some in F2. destruct F2 as [Hdata1 _].
  destruct (rdlen number) as [z|]; [|discriminate].
  destruct (ueb_cut z data2) as [[value data3]|] eqn:C; [|discriminate].
  apply ueb_cut_shorter in C.
  destruct (utf8_valid key); [|discriminate].
  destruct (keychk d key); [|discriminate].
  apply IH. rewrite Hdata, Hdata1, !app_length in Hf. cbn [length] in Hf. rewrite app_length in Hf. cbn [length] in Hf. lia.
Qed.

Lemma ueb_convert_no_fuel rdint : forall d, ueb_convert rdint d <> Err EFuel.
Proof.
  induction d as [|[k v] d IH]; cbn [ueb_convert]; [discriminate|].
  destruct (ueb_convert rdint d) as [r|e] eqn:E.
  - destruct (mem_key k ueb_int_keys); [|discriminate]. destruct v; [|discriminate].
    destruct (rdint s); discriminate.
  - intro H. injection H as ->. apply IH. reflexivity.
Qed.

Theorem ueb_unpack_fuel_suffices rdlen rdint keychk s : ueb_unpack_with rdlen rdint keychk s <> Err EFuel.
Proof.
  unfold ueb_unpack_with.
  pose proof (ueb_loop_fuel rdlen keychk (S (length s)) s [] ltac:(lia)) as H.
  destruct (ueb_loop rdlen keychk (S (length s)) s []) as [d|e].
  - apply ueb_convert_no_fuel.
  - intro E. injection E as ->. apply H. reflexivity.
Qed.

(* ---------------------------------------------------------------------- *)
(* the strict reader accepts every encoding pack_extension produces        *)

Lemma lex_ltb_trans : forall a b c, lex_ltb a b = true -> lex_ltb b c = true -> lex_ltb a c = true.
Proof.
  induction a as [|x a IH]; intros [|y b] [|z c] H1 H2; cbn [lex_ltb] in *; try discriminate; try reflexivity.
  destruct (x <? y) eqn:Exy.
  - apply N.ltb_lt in Exy. destruct (y <? z) eqn:Eyz.
    + apply N.ltb_lt in Eyz. assert (E : x <? z = true) by (apply N.ltb_lt; lia). rewrite E. reflexivity.
    + destruct (z <? y) eqn:Ezy; [discriminate|]. apply N.ltb_ge in Eyz, Ezy.
      assert (E : x <? z = true) by (apply N.ltb_lt; lia). rewrite E. reflexivity.
  - destruct (y <? x) eqn:Eyx; [discriminate|]. apply N.ltb_ge in Exy, Eyx. assert (x = y) by lia. subst y.
    destruct (x <? z) eqn:Exz; [reflexivity|]. destruct (z <? x) eqn:Ezx; [discriminate|].
    apply (IH b c); assumption.
Qed.

Lemma lex_ltb_total : forall a b, lex_ltb a b = false -> a <> b -> lex_ltb b a = true.
Proof.
  induction a as [|x a IH]; intros [|y b] H Hne; cbn [lex_ltb] in *; try discriminate; try reflexivity; try congruence.
  destruct (x <? y) eqn:Exy; [discriminate|]. destruct (y <? x) eqn:Eyx; [reflexivity|].
  apply N.ltb_ge in Exy, Eyx. assert (x = y) by lia. subst y.
  apply IH; [assumption|congruence].
Qed.

Lemma insert_entry_sorted e : forall l,
  sorted_keys (map fst l) -> ~ In (fst e) (map fst l) -> sorted_keys (map fst (insert_entry e l)).
Proof.
  induction l as [|h t IH]; cbn [insert_entry map sorted_keys]; intros Hs Hn.
  - split; [constructor|exact I].
  - destruct Hs as [Hh Hs]. destruct (lex_ltb (fst h) (fst e)) eqn:E; cbn [map sorted_keys].
    + split.
      * apply Forall_forall. intros k Hk.
        assert (Hin : In k (fst e :: map fst t)).
        { apply Permutation_in with (map fst (insert_entry e t)); [|assumption].
          change (fst e :: map fst t) with (map fst (e :: t)). apply Permutation_map. apply insert_entry_perm. }
        destruct Hin as [<-|Hin]; [assumption|]. rewrite Forall_forall in Hh. apply Hh. assumption.
      * apply IH; [assumption|]. cbn [In] in Hn. tauto.
    + assert (Heh : lex_ltb (fst e) (fst h) = true).
      { apply lex_ltb_total; [assumption|]. cbn [In] in Hn. intro Heq. apply Hn. left. assumption. }
      split; [|split; assumption].
      constructor; [assumption|]. apply Forall_forall. intros k Hk. rewrite Forall_forall in Hh.
      apply lex_ltb_trans with (fst h); [assumption|]. apply Hh. assumption.
Qed.

Lemma sort_entries_is_sorted d : NoDup (map fst d) -> sorted_keys (map fst (sort_entries d)).
Proof.
  induction d as [|e d IH]; cbn [map sort_entries fold_right]; intro H; [exact I|].
  inversion H as [|? ? Hn Hd]; subst. fold (sort_entries d). apply insert_entry_sorted; [apply IH; assumption|].
  intro Hin. apply Hn. apply Permutation_in with (map fst (sort_entries d)); [|assumption].
  apply Permutation_map. apply sort_entries_perm.
Qed.

Lemma sorted_keys_middle : forall ks1 k ks2,
  sorted_keys (ks1 ++ k :: ks2) -> Forall (fun k' => lex_ltb k' k = true) ks1.
Proof.
  induction ks1 as [|a ks1 IH]; intros k ks2 H; [constructor|].
  cbn [app sorted_keys] in H. destruct H as [Ha Hs]. constructor.
  - rewrite Forall_forall in Ha. apply Ha. apply in_or_app. right. left. reflexivity.
  - apply IH with ks2. assumption.
Qed.

Theorem ueb_strict_roundtrip d :
  ueb_wf d = true ->
  exists s, ueb_pack d = Some s /\ ueb_unpack_strict s = Ok (sort_entries d).
Proof.
  intro Hwf. destruct (ueb_wf_sorted d Hwf) as (Hk & Hnd & Ht).
  pose proof Hwf as Hwf'. unfold ueb_wf in Hwf'. rewrite !andb_true_iff in Hwf'. destruct Hwf' as [[Hdis Hkd] _].
  apply keys_distinct_NoDup in Hdis. pose proof (sort_entries_is_sorted d Hdis) as Hsorted.
  exists (concat (map ueb_entry (sort_entries d))). split.
  - unfold ueb_pack. rewrite Hkd. reflexivity.
  - unfold ueb_unpack_strict, ueb_unpack_with.
    rewrite (ueb_loop_entries strict_nat strict_keychk strict_nat_dec).
    + cbn [app]. apply ueb_convert_typed; [exact strict_int_dec_Z|assumption].
    + pose proof (concat_entries_length (sort_entries d)). lia.
    + assumption.
    + cbn [map app]. assumption.
    + intros l1 e l2 El. cbn [app]. unfold strict_keychk. apply andb_true_iff. split.
      * rewrite forallb_forall in Hk. apply Hk. rewrite El. apply in_or_app. right. left. reflexivity.
      * rewrite El, map_app in Hsorted. cbn [map] in Hsorted. apply sorted_keys_middle in Hsorted.
        rewrite forallb_forall. intros x Hx. apply in_map_iff in Hx. destruct Hx as (y & <- & Hy).
        cbn [to_b fst]. rewrite Forall_forall in Hsorted. apply Hsorted. apply in_map. assumption.
Qed.

(* ---------------------------------------------------------------------- *)
(* the unconditional converse is false: witnesses by class                 *)

Definition ueb_accepts_noncanonical (s : list N) : bool :=
  match ueb_unpack s with
  | Ok d => negb (opt_bytes_eqb (ueb_pack d) (Some s)) && negb (is_ok (ueb_unpack_strict s))
  | Err _ => false
  end.

Definition ueb_witness_numeral : list (list N) :=
  map bytes_of_string ["a:+2:XY,"; "a:02:XY,"; "a: 2:XY,"; "a:2 :XY,"; "a:1_0:0123456789,"; "a:-0:,"]%string.
Definition ueb_witness_negative_length : list (list N) := map bytes_of_string ["a:-6:XY,k:0:,"]%string.
Definition ueb_witness_duplicate_key : list (list N) := map bytes_of_string ["a:1:x,a:1:y,"]%string.
Definition ueb_witness_unsorted_keys : list (list N) := map bytes_of_string ["b:1:x,a:1:y,"]%string.
Definition ueb_witness_unencodable_key : list (list N) := map bytes_of_string ["1:0:,"; ":0:,"; "a b:0:,"]%string.
Definition ueb_witness_int_field : list (list N) :=
  map bytes_of_string ["size:3: 12,"; "size:2:+5,"; "size:2:05,"; "size:2:-0,"; "size:3:1_2,"]%string.

Theorem ueb_witnesses_accepted :
  forallb ueb_accepts_noncanonical
    (ueb_witness_numeral ++ ueb_witness_negative_length ++ ueb_witness_duplicate_key ++
     ueb_witness_unsorted_keys ++ ueb_witness_unencodable_key ++ ueb_witness_int_field) = true.
Proof. vm_compute. reflexivity. Qed.

Theorem ueb_converse_refuted : exists s d, ueb_unpack s = Ok d /\ ueb_pack d <> Some s.
Proof.
  exists (bytes_of_string "a:-6:XY,k:0:,"%string),
         [(bytes_of_string "a"%string, UBytes (bytes_of_string "XY"%string)); (bytes_of_string "k"%string, UBytes [])].
  split; [vm_compute; reflexivity|vm_compute; discriminate].
Qed.
