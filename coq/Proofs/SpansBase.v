(* C37: common definitions for the proofs about Model/Spans.v:
   denotation of a span list as a set of N, the representation invariant,
   facts about overlap/adjacent, and about list.sort() (psort). *)
From Coq Require Import List NArith Bool Lia ZifyBool ZifyNat ZifyN Permutation.
From Verif Require Import Model.Spans.
Import ListNotations.
Local Open Scope N_scope.

(* ---- denotation --------------------------------------------------------------- *)
Definition in_iv (s n x : N) : bool := (s <=? x) && (x <? s + n).

Definition mem (x : N) (l : list span) : bool :=
  existsb (fun sp => in_iv (fst sp) (snd sp) x) l.

Lemma mem_nil x : mem x [] = false.
Proof. reflexivity. Qed.

Lemma mem_cons x sp l : mem x (sp :: l) = in_iv (fst sp) (snd sp) x || mem x l.
Proof. reflexivity. Qed.

Lemma mem_app x l1 l2 : mem x (l1 ++ l2) = mem x l1 || mem x l2.
Proof. unfold mem. apply existsb_app. Qed.

(* ---- representation invariant ----------------------------------------------------
   wf_from e l: every start is >= e, lengths are positive, and each start is
   strictly greater than the previous end (sorted, disjoint, NOT adjacent). *)
Fixpoint wf_from (e : N) (l : spans) : Prop :=
  match l with
  | [] => True
  | sp :: r => e <= fst sp /\ 0 < snd sp /\ wf_from (fst sp + snd sp + 1) r
  end.

Definition wf (l : spans) : Prop := wf_from 0 l.

Lemma wf_from_weaken e e' l : e' <= e -> wf_from e l -> wf_from e' l.
Proof. destruct l as [|sp r]; cbn [wf_from]; [trivial|]. intros H (H1 & H2 & H3). repeat split; [lia|assumption|assumption]. Qed.

Lemma wf_from_wf e l : wf_from e l -> wf l.
Proof. apply wf_from_weaken. lia. Qed.

Lemma wf_from_head e e' sp r : wf_from e (sp :: r) -> e' <= fst sp -> wf_from e' (sp :: r).
Proof. cbn [wf_from]. intros (H1 & H2 & H3) H. auto. Qed.

Lemma mem_below e l x : wf_from e l -> x < e -> mem x l = false.
Proof.
  revert e; induction l as [|sp r IH]; intros e H Hx; [reflexivity|].
  cbn [wf_from] in H. destruct H as (H1 & H2 & H3).
  rewrite mem_cons. rewrite (IH _ H3) by lia. unfold in_iv. lia.
Qed.

(* all spans of a wf list lie in [e, ...) and positive *)
Lemma wf_from_In e l sp : wf_from e l -> In sp l -> e <= fst sp /\ 0 < snd sp.
Proof.
  revert e; induction l as [|y r IH]; intros e H Hin; [contradiction|].
  cbn [wf_from] in H. destruct H as (H1 & H2 & H3).
  destruct Hin as [<-|Hin]; [auto|]. destruct (IH _ H3 Hin). split; lia.
Qed.

(* ---- overlap / adjacent ------------------------------------------------------- *)
Definition touches (s n : N) (sp : span) : bool :=
  is_some (overlap (fst sp) (snd sp) s n) || adjacent (fst sp) (snd sp) s n.

Lemma touches_spec s n sp : 0 < snd sp -> 0 < n ->
  touches s n sp = ((fst sp <=? s + n) && (s <=? fst sp + snd sp)).
Proof.
  destruct sp as [a b]. cbn [fst snd]. intros Hb Hn. unfold touches, overlap, adjacent. cbn [fst snd].
  destruct (N.max a s <? N.min (a + b) (s + n)) eqn:E1; cbn [is_some];
    destruct ((a <? s) && (a + b =? s)) eqn:E2; destruct ((s <? a) && (s + n =? a)) eqn:E3; lia.
Qed.

Lemma overlap_spec a b s n :
  overlap a b s n =
  if (N.max a s <? N.min (a + b) (s + n))
  then Some (N.max a s, N.min (a + b) (s + n) - N.max a s) else None.
Proof. reflexivity. Qed.

(* ---- the sort ------------------------------------------------------------------- *)
Lemma pleb_total x y : pleb x y = true \/ pleb y x = true.
Proof. unfold pleb. destruct x, y; cbn [fst snd]. lia. Qed.

Lemma pleb_trans x y z : pleb x y = true -> pleb y z = true -> pleb x z = true.
Proof. unfold pleb. destruct x, y, z; cbn [fst snd]. lia. Qed.

Lemma pleb_antisym x y : pleb x y = true -> pleb y x = true -> x = y.
Proof.
  unfold pleb. destruct x as [a b], y as [c d]; cbn [fst snd]. intros H1 H2.
  assert (a = c) by lia. assert (b = d) by lia. subst. reflexivity.
Qed.

Lemma pinsert_comm x y l : pinsert x (pinsert y l) = pinsert y (pinsert x l).
Proof.
  induction l as [|h t IH]; cbn [pinsert].
  - destruct (pleb x y) eqn:Exy, (pleb y x) eqn:Eyx; try reflexivity.
    + rewrite (pleb_antisym _ _ Exy Eyx). reflexivity.
    + destruct (pleb_total x y); congruence.
  - destruct (pleb y h) eqn:Eyh, (pleb x h) eqn:Exh; cbn [pinsert];
      rewrite ?Eyh, ?Exh.
    + destruct (pleb x y) eqn:Exy, (pleb y x) eqn:Eyx; rewrite ?Eyh, ?Exh; try reflexivity.
      * rewrite (pleb_antisym _ _ Exy Eyx). reflexivity.
      * destruct (pleb_total x y); congruence.
    + destruct (pleb x y) eqn:Exy; [|reflexivity].
      rewrite (pleb_trans _ _ _ Exy Eyh) in Exh. discriminate.
    + destruct (pleb y x) eqn:Eyx; [|reflexivity].
      rewrite (pleb_trans _ _ _ Eyx Exh) in Eyh. discriminate.
    + rewrite IH. reflexivity.
Qed.

Lemma psort_perm l l' : Permutation l l' -> psort l = psort l'.
Proof.
  induction 1; cbn [psort].
  - reflexivity.
  - rewrite IHPermutation. reflexivity.
  - apply pinsert_comm.
  - congruence.
Qed.

Lemma pinsert_before x e r : wf_from e r -> fst x < e -> pinsert x r = x :: r.
Proof.
  destruct r as [|y r]; [reflexivity|]. cbn [wf_from pinsert]. intros (H1 & _) H.
  assert (E : pleb x y = true) by (unfold pleb; lia). rewrite E. reflexivity.
Qed.

Lemma psort_wf_id e l : wf_from e l -> psort l = l.
Proof.
  revert e; induction l as [|sp r IH]; intros e H; [reflexivity|].
  cbn [wf_from] in H. destruct H as (H1 & H2 & H3). cbn [psort].
  rewrite (IH _ H3). apply (pinsert_before _ _ _ H3). lia.
Qed.

(* sorting a permutation of a wf list yields that list *)
Lemma psort_perm_wf e l l' : Permutation l l' -> wf_from e l' -> psort l = l'.
Proof. intros P H. rewrite (psort_perm _ _ P). apply (psort_wf_id _ _ H). Qed.

(* ---- _check never fires on a wf list --------------------------------------------- *)
Lemma spans_eqb_refl l : spans_eqb l l = true.
Proof. induction l as [|[a b] r IH]; cbn [spans_eqb]; [reflexivity|]. rewrite !N.eqb_refl, IH. reflexivity. Qed.

Lemma check_gaps_wf e l p : wf_from e l ->
  match p with None => True | Some pe => pe < e end -> check_gaps p l = true.
Proof.
  revert e p; induction l as [|[a b] r IH]; intros e p H Hp; [reflexivity|].
  cbn [wf_from fst snd] in H. destruct H as (H1 & H2 & H3). cbn [check_gaps].
  rewrite (IH (a + b + 1) (Some (a + b)) H3) by lia.
  destruct p as [pe|]; [|reflexivity]. rewrite andb_true_r. lia.
Qed.

Lemma spans_check_wf l : wf l -> spans_check l = true.
Proof.
  intro H. unfold spans_check. rewrite (psort_wf_id _ _ H), spans_eqb_refl.
  apply (check_gaps_wf 0 l None H). exact I.
Qed.

(* conversely the self-check, when it passes, establishes sortedness with gaps
   (not positivity of lengths, which _check does not look at) *)

(* ---- len --------------------------------------------------------------------------- *)
Lemma spans_len_cons sp l : spans_len (sp :: l) = snd sp + spans_len l.
Proof. reflexivity. Qed.

Lemma spans_len_pos_nonempty l : wf l -> l <> [] -> 0 < spans_len l.
Proof.
  destruct l as [|sp r]; [congruence|]. intros H _. cbn [wf wf_from] in H. unfold wf in H. cbn [wf_from] in H.
  rewrite spans_len_cons. lia.
Qed.
