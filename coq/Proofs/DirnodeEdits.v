(* C20: the modifiers applied to packed bytes refine updates of a name map. *)
From Coq Require Import List NArith ZArith Bool Lia.
From Verif Require Import Lib.Hex Lib.Netstring Lib.HashPrim Gen.Hashutil
     Model.Dirnode Proofs.DirnodeBase Proofs.DirnodeCaps Proofs.DirnodePack.
Import ListNotations.
Local Open Scope N_scope.

(* ---------- lists of directories ---------- *)
Lemma set_nth_length {A} d (x : A) l : List.length (set_nth d x l) = List.length l.
Proof. revert d. induction l as [|y r IH]; intro d; [destruct d; reflexivity|]. destruct d; cbn; [reflexivity|]. rewrite IH. reflexivity. Qed.

Lemma nth_error_set_nth_same {A} d (x y : A) l : nth_error l d = Some y -> nth_error (set_nth d x l) d = Some x.
Proof. revert d. induction l as [|z r IH]; intros [|d] H; cbn in *; try discriminate; [reflexivity|]. apply IH. exact H. Qed.

Lemma nth_error_set_nth_other {A} d d' (x : A) l : d <> d' -> nth_error (set_nth d x l) d' = nth_error l d'.
Proof.
  revert d d'. induction l as [|z r IH]; intros [|d] [|d'] H; cbn; try reflexivity; try congruence.
  apply IH. congruence.
Qed.

Lemma Forall_set_nth {A} (P : A -> Prop) d x l : Forall P l -> P x -> Forall P (set_nth d x l).
Proof.
  revert d. induction l as [|z r IH]; intros d Hl Hx; [destruct d; constructor|].
  inversion Hl; subst. destruct d; cbn; constructor; auto.
Qed.

Lemma Forall_nth_error {A} (P : A -> Prop) l d x : Forall P l -> nth_error l d = Some x -> P x.
Proof. intros H E. rewrite Forall_forall in H. apply H. eapply nth_error_In. exact E. Qed.

Section ConcGeneric.
  Context {K A B : Type}.
  Variable f : K -> A -> B.
  Definition zipf (ks : list K) (l : list A) : list (K * B) := map (fun p => (fst p, f (fst p) (snd p))) (combine ks l).

  Lemma nth_zipf ks l d :
    nth_error (zipf ks l) d
    = match nth_error ks d, nth_error l d with
      | Some k, Some a => Some (k, f k a)
      | _, _ => None
      end.
  Proof.
    unfold zipf. revert l d. induction ks as [|k ks IH]; intros l d.
    - destruct d; reflexivity.
    - destruct l as [|a l].
      + destruct d as [|d]; [reflexivity|]. cbn [combine map nth_error]. destruct (nth_error ks d); reflexivity.
      + destruct d as [|d]; [reflexivity|]. cbn [combine map nth_error]. apply IH.
  Qed.

  Lemma set_nth_zipf ks l d k a' :
    nth_error ks d = Some k ->
    set_nth d (k, f k a') (zipf ks l) = zipf ks (set_nth d a' l).
  Proof.
    unfold zipf. revert l d. induction ks as [|k0 ks IH]; intros l d E.
    - destruct d; discriminate.
    - destruct l as [|a l].
      + destruct d; reflexivity.
      + destruct d as [|d].
        * cbn [nth_error] in E. inversion E; subst. reflexivity.
        * cbn [nth_error] in E. cbn [combine map set_nth fst snd]. f_equal. apply IH. exact E.
  Qed.
End ConcGeneric.

Definition sum_map {E A B} (f : A -> B) (x : E + A) : E + B :=
  match x with inl e => inl e | inr a => inr (f a) end.

Section EditFacts.
  Variable classify : bytes -> capclass.
  Variable normalize : bytes -> bytes.
  Variable dumps : jobj -> bytes.
  Variable loads : bytes -> option jobj.
  Variable enc dec : bytes -> bytes -> bytes.
  Hypothesis normalize_idem : forall x, normalize (normalize x) = normalize x.
  Hypothesis loads_dumps : forall m, loads (dumps m) = Some m.
  Hypothesis dec_enc : forall k d, dec k (enc k d) = d.

  Local Notation bchild := (child jobj).
  Local Notation view := (view jobj).
  Local Notation pi := (fun c : bchild => (c_node jobj c, c_md jobj c)).
  Local Notation a_adder := (a_adder classify normalize).
  Local Notation a_step := (a_step classify normalize).
  Local Notation a_run := (a_run classify normalize).
  Local Notation b_step := (b_step classify normalize dumps loads enc dec).
  Local Notation b_run := (b_run classify normalize dumps loads enc dec).
  Local Notation b_unpack := (b_unpack classify normalize loads dec).
  Local Notation b_pack := (b_pack dumps enc).
  Local Notation pack_amap := (pack_amap dumps enc).
  Local Notation pack_entry := (pack_entry jobj dumps enc).

  (* ---------- the three modifier bodies commute with forgetting the cached entries ---------- *)
  Lemma view_get k (cm : smap bchild) : sm_get k (view cm) = option_map pi (sm_get k cm).
  Proof. exact (kvmap_get (fun (_ : bytes) (c : bchild) => pi c) k cm). Qed.

  Lemma view_set' k n md (cm : smap bchild) : view (sm_set k (b_c_of n md) cm) = sm_set k (n, md) (view cm).
  Proof. exact (kvmap_set (fun (_ : bytes) (c : bchild) => pi c) k (b_c_of n md) cm). Qed.

  Lemma view_del k (cm : smap bchild) : view (sm_del k cm) = sm_del k (view cm).
  Proof. exact (kvmap_del (fun (_ : bytes) (c : bchild) => pi c) k cm). Qed.

  Lemma adder_step_view ov now (cm : smap bchild) e :
    sum_map view (adder_step classify normalize bchild b_c_of (c_node jobj) (c_md jobj) ov now cm e)
    = adder_step classify normalize (node * jobj) (fun n m => (n, m)) fst snd ov now (view cm) e.
  Proof.
    destruct e as [[namex chld] nmd]. unfold adder_step.
    destruct (n_err chld); [reflexivity|].
    rewrite view_get. destruct (sm_get (normalize namex) cm) as [c|]; cbn [option_map fst snd].
    - destruct ov; cbn [sum_map]; try reflexivity.
      + destruct (no_write _); [destruct (create_readonly_node classify chld)|]; cbn [sum_map]; try reflexivity; rewrite view_set'; reflexivity.
      + destruct (is_dir (c_node jobj c)); [reflexivity|].
        destruct (no_write _); [destruct (create_readonly_node classify chld)|]; cbn [sum_map]; try reflexivity; rewrite view_set'; reflexivity.
    - destruct (no_write _); [destruct (create_readonly_node classify chld)|]; cbn [sum_map]; try reflexivity; rewrite view_set'; reflexivity.
  Qed.

  Lemma adder_loop_view ov now entries (cm : smap bchild) :
    sum_map view (adder_loop classify normalize bchild b_c_of (c_node jobj) (c_md jobj) ov now cm entries)
    = a_adder ov now (view cm) entries.
  Proof.
    revert cm. induction entries as [|e r IH]; intro cm; [reflexivity|].
    unfold Dirnode.a_adder in *. cbn [adder_loop].
    rewrite <- adder_step_view.
    destruct (adder_step classify normalize bchild _ _ _ ov now cm e) as [x|cm']; cbn [sum_map]; [reflexivity|apply IH].
  Qed.

  Lemma deleter_view namex me mbd mbf (cm : smap bchild) :
    sum_map (option_map view) (deleter_core normalize bchild (c_node jobj) namex me mbd mbf cm)
    = a_deleter normalize namex me mbd mbf (view cm).
  Proof.
    unfold a_deleter, deleter_core. rewrite view_get.
    destruct (sm_get (normalize namex) cm) as [c|]; cbn [option_map fst].
    - destruct (mbd && is_file (c_node jobj c)); [reflexivity|].
      destruct (mbf && is_dir (c_node jobj c)); [reflexivity|].
      cbn [sum_map option_map]. rewrite view_del. reflexivity.
    - destruct me; reflexivity.
  Qed.

  Lemma setmd_view namex md now (cm : smap bchild) :
    sum_map view (setmd_core classify normalize bchild b_c_of (c_node jobj) (c_md jobj) namex md now cm)
    = a_setmd classify normalize namex md now (view cm).
  Proof.
    unfold a_setmd, setmd_core. rewrite view_get.
    destruct (sm_get (normalize namex) cm) as [c|]; cbn [option_map fst snd]; [|reflexivity].
    destruct (no_write _); [destruct (create_readonly_node classify (c_node jobj c))|]; cbn [sum_map]; try reflexivity; rewrite view_set'; reflexivity.
  Qed.

  (* ---------- cached entries that are what the packer would write anyway ---------- *)
  Definition aux_ok (wk : bytes) (cm : smap bchild) : Prop :=
    forall k c, In (k, c) cm -> c_aux jobj c = None \/ c_aux jobj c = Some (pack_entry (Some wk) false k (c_node jobj c) (c_md jobj c)).

  Lemma pack_entry_nonempty wk di k n md : exists x y, pack_entry wk di k n md = x :: y.
  Proof.
    unfold Dirnode.pack_entry. destruct (netstring k) eqn:E; [exfalso; revert E; apply netstring_nonempty|]. cbn. eauto.
  Qed.

  Lemma pack_aux_eq wk (cm : smap bchild) :
    aux_ok wk cm ->
    b_pack wk cm = pack_amap wk (view cm).
  Proof.
    unfold Dirnode.b_pack, Dirnode.pack_amap.
    induction cm as [|[k [[n md] aux]] r IH]; intro H; [reflexivity|].
    cbn [view map fresh pack_normalized fst snd c_node c_md c_aux].
    destruct (n_err n); [reflexivity|]. cbn [andb negb].
    fold (view r). fold (fresh jobj (view r)).
    rewrite <- IH by (intros ? ? ?; eapply H; right; eassumption).
    destruct (H k (n, md, aux) (or_introl eq_refl)) as [E|E]; cbn [c_aux c_node c_md fst snd] in E; subst aux.
    - reflexivity.
    - destruct (pack_entry_nonempty (Some wk) false k n md) as (x & y & E). rewrite E. reflexivity.
  Qed.

  Lemma aux_ok_set wk k n md cm : aux_ok wk cm -> aux_ok wk (sm_set k (b_c_of n md) cm).
  Proof.
    intros H k' c Hin. apply sm_set_in in Hin. destruct Hin as [[-> ->]|Hin]; [left; reflexivity|eapply H; exact Hin].
  Qed.

  Lemma aux_ok_del wk k cm : aux_ok wk cm -> aux_ok wk (sm_del k cm).
  Proof. intros H k' c Hin. apply sm_del_in in Hin. eapply H. exact Hin. Qed.

  Lemma aux_ok_with_aux wk (am : amap) : aux_ok wk (with_aux jobj dumps enc (fun n => n) (Some wk) false am).
  Proof.
    intros k c Hin. unfold with_aux, kvmap in Hin. rewrite in_map_iff in Hin.
    destruct Hin as ([k0 [n md]] & E & _). cbn [fst snd] in E. inversion E; subst. right. reflexivity.
  Qed.

  Lemma adder_step_aux wk ov now cm e cm' :
    aux_ok wk cm ->
    adder_step classify normalize bchild b_c_of (c_node jobj) (c_md jobj) ov now cm e = inr cm' -> aux_ok wk cm'.
  Proof.
    intros H. destruct e as [[namex chld] nmd]. unfold adder_step.
    destruct (n_err chld); [discriminate|].
    destruct (match sm_get (normalize namex) cm with Some c => _ | None => None end); [discriminate|].
    destruct (no_write _); [destruct (create_readonly_node classify chld); [discriminate|]|];
      intro E; inversion E; subst; apply aux_ok_set; exact H.
  Qed.

  Lemma adder_loop_aux wk ov now entries cm cm' :
    aux_ok wk cm ->
    adder_loop classify normalize bchild b_c_of (c_node jobj) (c_md jobj) ov now cm entries = inr cm' -> aux_ok wk cm'.
  Proof.
    revert cm. induction entries as [|e r IH]; intros cm H E; cbn [adder_loop] in E.
    - inversion E; subst. exact H.
    - destruct (adder_step classify normalize bchild _ _ _ ov now cm e) as [x|cm1] eqn:S; [discriminate|].
      eapply IH; [|exact E]. eapply adder_step_aux; eassumption.
  Qed.

  (* ---------- directories whose children the node maker reproduces ---------- *)
  Definition dir_ok (am : amap) : Prop :=
    sm_sorted am = true /\ names_normal normalize jobj am /\ all_nodes jobj (goodb classify) am.

  Definition entries_ok (entries : list (bytes * node * option jobj)) : Prop :=
    forall namex n md, In (namex, n, md) entries -> n_err n = None -> goodb classify n = true.

  Definition op_ok (o : op) : Prop :=
    match o with
    | OAdd _ entries _ => entries_ok entries
    | _ => True
    end.

  Lemma good_stable n : goodb classify n = true -> stableb classify n = true.
  Proof. unfold goodb. intro H. apply andb_prop in H. tauto. Qed.

  Lemma good_diminish n n' : goodb classify n = true -> create_readonly_node classify n = inr n' -> goodb classify n' = true.
  Proof.
    unfold goodb, diminish_okb. intros H E. apply andb_prop in H. destruct H as [_ H]. rewrite E in H.
    apply andb_prop in H. destruct H as [Hs Hd]. rewrite Hs. cbn [andb].
    destruct (create_readonly_node classify n') as [x|n''] eqn:E2; [discriminate|].
    apply node_eqb_eq in Hd. subst n''. rewrite Hs, E2. cbn [andb]. apply node_eqb_eq. reflexivity.
  Qed.

  Definition packed (wk : bytes) (am : amap) : bytes := concat_ns (map (entry_of jobj dumps enc (Some wk) false) am).

  Lemma dir_ok_stable am : dir_ok am -> all_nodes jobj (stableb classify) am.
  Proof. intros (_ & _ & H) k v Hin. apply good_stable. exact (H _ _ Hin). Qed.

  Lemma pack_amap_ok wk am : dir_ok am -> pack_amap wk am = inr (packed wk am).
  Proof.
    intro H. unfold Dirnode.pack_amap. apply pack_fresh_ok. intros k v Hin. unfold packable, no_err.
    destruct (proj1 (stableb_spec classify _) (dir_ok_stable _ H _ _ Hin)) as [E _]. rewrite E. reflexivity.
  Qed.

  Lemma unpack_packed_dir wk am :
    dir_ok am ->
    b_unpack wk (packed wk am) = inr (with_aux jobj dumps enc (fun n => n) (Some wk) false am).
  Proof.
    intro H. pose proof H as (Hs & Hn & _).
    destruct (unpack_pack_map classify normalize jobj dumps loads enc dec loads_dumps dec_enc
                              wk am Hs Hn (dir_ok_stable _ H)) as (data & Hp & children & Hu & _ & Hc).
    fold (pack_amap wk am) in Hp. rewrite (pack_amap_ok wk am H) in Hp. inversion Hp; subst data.
    unfold Dirnode.b_unpack. rewrite Hu, Hc. reflexivity.
  Qed.

  Lemma view_unpacked wk am : dir_ok am -> view (with_aux jobj dumps enc (fun n => n) (Some wk) false am) = am.
  Proof. intros _. apply view_with_aux_id. reflexivity. Qed.

  (* ---------- invariants of the abstract edits ---------- *)
  Lemma dir_ok_set am k n md :
    dir_ok am -> goodb classify n = true -> dir_ok (sm_set (normalize k) (n, md) am).
  Proof.
    intros (Hs & Hn & Hg) Hgood. split; [apply sm_set_sorted; exact Hs|]. split.
    - intros k' v' Hin. apply sm_set_in in Hin. destruct Hin as [[-> _]|Hin]; [apply normalize_idem|eapply Hn; exact Hin].
    - intros k' v' Hin. apply sm_set_in in Hin. destruct Hin as [[_ ->]|Hin]; [exact Hgood|eapply Hg; exact Hin].
  Qed.

  Lemma dir_ok_del am k : dir_ok am -> dir_ok (sm_del k am).
  Proof.
    intros (Hs & Hn & Hg). split; [apply sm_del_sorted; exact Hs|]. split.
    - intros k' v' Hin. apply sm_del_in in Hin. eapply Hn; exact Hin.
    - intros k' v' Hin. apply sm_del_in in Hin. eapply Hg; exact Hin.
  Qed.

  Lemma dir_ok_get am k n md : dir_ok am -> sm_get k am = Some (n, md) -> goodb classify n = true.
  Proof. intros (_ & _ & Hg) E. apply sm_get_in in E. exact (Hg _ _ E). Qed.

  Lemma a_adder_step_ok ov now am e am' :
    dir_ok am -> (forall namex n md, e = (namex, n, md) -> n_err n = None -> goodb classify n = true) ->
    adder_step classify normalize (node * jobj) (fun n m => (n, m)) fst snd ov now am e = inr am' -> dir_ok am'.
  Proof.
    intros H He. destruct e as [[namex chld] nmd]. unfold adder_step.
    destruct (n_err chld) eqn:Ee; [discriminate|].
    destruct (match sm_get (normalize namex) am with Some c => _ | None => None end); [discriminate|].
    pose proof (He _ _ _ eq_refl Ee) as Hg.
    destruct (no_write _).
    - destruct (create_readonly_node classify chld) as [x|chld'] eqn:Ec; [discriminate|].
      intro E; inversion E; subst. apply dir_ok_set; [exact H|]. eapply good_diminish; eassumption.
    - intro E; inversion E; subst. apply dir_ok_set; assumption.
  Qed.

  Lemma a_adder_ok ov now entries am am' :
    dir_ok am -> entries_ok entries -> a_adder ov now am entries = inr am' -> dir_ok am'.
  Proof.
    unfold Dirnode.a_adder. revert am. induction entries as [|e r IH]; intros am H He E; cbn [adder_loop] in E.
    - inversion E; subst. exact H.
    - destruct (adder_step classify normalize (node * jobj) _ _ _ ov now am e) as [x|am1] eqn:S; [discriminate|].
      eapply IH; [| |exact E].
      + eapply a_adder_step_ok; [exact H| |exact S]. intros namex n md -> . apply (He namex n md). left. reflexivity.
      + intros namex n md Hin. apply (He namex n md). right. exact Hin.
  Qed.

  Lemma a_deleter_ok namex me mbd mbf am am' :
    dir_ok am -> a_deleter normalize namex me mbd mbf am = inr (Some am') -> dir_ok am'.
  Proof.
    intros H. unfold a_deleter, deleter_core.
    destruct (sm_get (normalize namex) am); [|destruct me; discriminate].
    destruct (mbd && _); [discriminate|]. destruct (mbf && _); [discriminate|].
    intro E; inversion E; subst. apply dir_ok_del. exact H.
  Qed.

  Lemma a_setmd_ok namex md now am am' :
    dir_ok am -> a_setmd classify normalize namex md now am = inr am' -> dir_ok am'.
  Proof.
    intros H. unfold a_setmd, setmd_core.
    destruct (sm_get (normalize namex) am) as [[n0 md0]|] eqn:Eg; [|discriminate]. cbn [fst snd].
    pose proof (dir_ok_get _ _ _ _ H Eg) as Hg.
    destruct (no_write _).
    - destruct (create_readonly_node classify n0) as [x|n'] eqn:Ec; [discriminate|].
      intro E; inversion E; subst. apply dir_ok_set; [exact H|]. eapply good_diminish; eassumption.
    - intro E; inversion E; subst. apply dir_ok_set; assumption.
  Qed.

  (* ---------- each modifier on packed bytes = the edit on the map, re-packed ---------- *)
  Lemma adder_modify_refines wk entries ov now am :
    dir_ok am ->
    adder_modify classify normalize dumps loads enc dec wk entries ov now (packed wk am)
    = match a_adder ov now am entries with
      | inl x => inl x
      | inr am' => pack_amap wk am'
      end.
  Proof.
    intro H. unfold adder_modify, Dirnode.bchild. fold (b_unpack wk (packed wk am)). rewrite (unpack_packed_dir wk am H).
    pose proof (adder_loop_view ov now entries (with_aux jobj dumps enc (fun n => n) (Some wk) false am)) as V.
    rewrite (view_unpacked wk am H) in V.
    destruct (adder_loop classify normalize bchild _ _ _ ov now _ entries) as [x|cm'] eqn:L; cbn [sum_map] in V; rewrite <- V.
    - reflexivity.
    - fold (b_pack wk cm'). rewrite pack_aux_eq; [reflexivity|].
      eapply adder_loop_aux; [|exact L]. apply aux_ok_with_aux.
  Qed.

  Lemma deleter_modify_refines wk namex me mbd mbf am :
    dir_ok am ->
    deleter_modify classify normalize dumps loads enc dec wk namex me mbd mbf (packed wk am)
    = match a_deleter normalize namex me mbd mbf am with
      | inl x => inl x
      | inr None => inr None
      | inr (Some am') => match pack_amap wk am' with inl x => inl x | inr b => inr (Some b) end
      end.
  Proof.
    intro H. unfold deleter_modify, Dirnode.bchild. fold (b_unpack wk (packed wk am)). rewrite (unpack_packed_dir wk am H).
    pose proof (deleter_view namex me mbd mbf (with_aux jobj dumps enc (fun n => n) (Some wk) false am)) as V.
    rewrite (view_unpacked wk am H) in V.
    destruct (deleter_core normalize bchild _ namex me mbd mbf _) as [x|[cm'|]] eqn:L; cbn [sum_map option_map] in V; rewrite <- V; try reflexivity.
    fold (b_pack wk cm'). rewrite pack_aux_eq; [reflexivity|].
    unfold deleter_core in L.
    destruct (sm_get (normalize namex) _); [|destruct me; discriminate].
    destruct (mbd && _); [discriminate|]. destruct (mbf && _); [discriminate|].
    inversion L; subst. apply aux_ok_del. apply aux_ok_with_aux.
  Qed.

  Lemma setmd_modify_refines wk namex md now am :
    dir_ok am ->
    setmd_modify classify normalize dumps loads enc dec wk namex md now (packed wk am)
    = match a_setmd classify normalize namex md now am with
      | inl x => inl x
      | inr am' => pack_amap wk am'
      end.
  Proof.
    intro H. unfold setmd_modify, Dirnode.bchild. fold (b_unpack wk (packed wk am)). rewrite (unpack_packed_dir wk am H).
    pose proof (setmd_view namex md now (with_aux jobj dumps enc (fun n => n) (Some wk) false am)) as V.
    rewrite (view_unpacked wk am H) in V.
    destruct (setmd_core classify normalize bchild _ _ _ namex md now _) as [x|cm'] eqn:L; cbn [sum_map] in V; rewrite <- V.
    - reflexivity.
    - fold (b_pack wk cm'). rewrite pack_aux_eq; [reflexivity|].
      unfold setmd_core in L. destruct (sm_get (normalize namex) _); [|discriminate].
      destruct (no_write _); [destruct (create_readonly_node classify _); [discriminate|]|];
        inversion L; subst; apply aux_ok_set; apply aux_ok_with_aux.
  Qed.

  (* ---------- the store: writekeys paired with packed directories ---------- *)
  Definition conc (wks : list bytes) (dirs : list amap) : list bdir :=
    map (fun p => (fst p, packed (fst p) (snd p))) (combine wks dirs).

  Lemma nth_conc wks dirs d :
    nth_error (conc wks dirs) d
    = match nth_error wks d, nth_error dirs d with
      | Some wk, Some am => Some (wk, packed wk am)
      | _, _ => None
      end.
  Proof. exact (nth_zipf packed wks dirs d). Qed.

  Lemma nth_wks (wks : list bytes) (dirs : list amap) d am :
    List.length wks = List.length dirs -> nth_error dirs d = Some am -> exists wk, nth_error wks d = Some wk.
  Proof.
    revert dirs d. induction wks as [|wk wks IH]; intros [|a dirs] [|d] HL E; cbn in *; try discriminate; eauto.
  Qed.

  Lemma set_nth_conc wks dirs d wk am' :
    nth_error wks d = Some wk ->
    set_nth d (wk, packed wk am') (conc wks dirs) = conc wks (set_nth d am' dirs).
  Proof. exact (set_nth_zipf packed wks dirs d wk am'). Qed.

  Definition store_ok (wks : list bytes) (dirs : list amap) : Prop :=
    List.length wks = List.length dirs /\ Forall dir_ok dirs.

  Lemma store_ok_set wks dirs d am' : store_ok wks dirs -> dir_ok am' -> store_ok wks (set_nth d am' dirs).
  Proof. intros [HL HF] H. split; [rewrite set_nth_length; exact HL|apply Forall_set_nth; assumption]. Qed.

  Local Notation a_add := (a_add classify normalize).
  Local Notation a_delete := (a_delete normalize).
  Local Notation b_add := (b_add classify normalize dumps loads enc dec).
  Local Notation b_delete := (b_delete classify normalize dumps loads enc dec).

  Lemma b_add_refines wks dirs d entries ov now :
    store_ok wks dirs -> entries_ok entries ->
    b_add (conc wks dirs) d entries ov now
    = (fst (a_add dirs d entries ov now), conc wks (snd (a_add dirs d entries ov now)))
    /\ store_ok wks (snd (a_add dirs d entries ov now)).
  Proof.
    intros Hst He. pose proof Hst as [HL HF].
    unfold Dirnode.b_add, Dirnode.a_add. rewrite nth_conc.
    destruct (nth_error dirs d) as [am|] eqn:Ed.
    2:{ destruct (nth_error wks d); cbn [fst snd]; auto. }
    destruct (nth_wks _ _ _ _ HL Ed) as [wk Ew]. rewrite Ew.
    pose proof (Forall_nth_error _ _ _ _ HF Ed) as Hok.
    rewrite (adder_modify_refines wk entries ov now am Hok).
    destruct (a_adder ov now am entries) as [x|am'] eqn:Ea; cbn [fst snd]; [auto|].
    pose proof (a_adder_ok _ _ _ _ _ Hok He Ea) as Hok'.
    rewrite (pack_amap_ok wk am' Hok'). rewrite set_nth_conc by exact Ew.
    split; [reflexivity|apply store_ok_set; assumption].
  Qed.

  Lemma b_delete_refines wks dirs d namex me mbd mbf :
    store_ok wks dirs ->
    b_delete (conc wks dirs) d namex me mbd mbf
    = (fst (a_delete dirs d namex me mbd mbf), conc wks (snd (a_delete dirs d namex me mbd mbf)))
    /\ store_ok wks (snd (a_delete dirs d namex me mbd mbf)).
  Proof.
    intros Hst. pose proof Hst as [HL HF].
    unfold Dirnode.b_delete, Dirnode.a_delete. rewrite nth_conc.
    destruct (nth_error dirs d) as [am|] eqn:Ed.
    2:{ destruct (nth_error wks d); cbn [fst snd]; auto. }
    destruct (nth_wks _ _ _ _ HL Ed) as [wk Ew]. rewrite Ew.
    pose proof (Forall_nth_error _ _ _ _ HF Ed) as Hok.
    rewrite (deleter_modify_refines wk namex me mbd mbf am Hok).
    destruct (a_deleter normalize namex me mbd mbf am) as [x|[am'|]] eqn:Ea; cbn [fst snd]; auto.
    pose proof (a_deleter_ok _ _ _ _ _ _ Hok Ea) as Hok'.
    rewrite (pack_amap_ok wk am' Hok'). rewrite set_nth_conc by exact Ew.
    split; [reflexivity|apply store_ok_set; assumption].
  Qed.

  Lemma b_step_refines wks dirs o now :
    store_ok wks dirs -> op_ok o ->
    b_step (conc wks dirs) o now = (fst (a_step dirs o now), conc wks (snd (a_step dirs o now)))
    /\ store_ok wks (snd (a_step dirs o now)).
  Proof.
    intros Hst Hop. pose proof Hst as [HL HF].
    destruct o as [d entries ov|d namex me mbd mbf|d namex md|src namex dst new_namex ov]; cbn [Dirnode.b_step Dirnode.a_step].
    - apply b_add_refines; assumption.
    - apply b_delete_refines; assumption.
    - rewrite nth_conc. destruct (nth_error dirs d) as [am|] eqn:Ed.
      2:{ destruct (nth_error wks d); cbn [fst snd]; auto. }
      destruct (nth_wks _ _ _ _ HL Ed) as [wk Ew]. rewrite Ew.
      pose proof (Forall_nth_error _ _ _ _ HF Ed) as Hok.
      rewrite (setmd_modify_refines wk namex md now am Hok).
      destruct (a_setmd classify normalize namex md now am) as [x|am'] eqn:Ea; cbn [fst snd]; [auto|].
      pose proof (a_setmd_ok _ _ _ _ _ Hok Ea) as Hok'.
      rewrite (pack_amap_ok wk am' Hok'). rewrite set_nth_conc by exact Ew.
      split; [reflexivity|apply store_ok_set; assumption].
    - destruct (Nat.eqb src dst && beqb _ _); [cbn [fst snd]; auto|].
      rewrite nth_conc. destruct (nth_error dirs src) as [am|] eqn:Ed.
      2:{ destruct (nth_error wks src); cbn [fst snd]; auto. }
      destruct (nth_wks _ _ _ _ HL Ed) as [wk Ew]. rewrite Ew.
      pose proof (Forall_nth_error _ _ _ _ HF Ed) as Hok.
      fold (b_unpack wk (packed wk am)). rewrite (unpack_packed_dir wk am Hok).
      unfold with_aux at 1. rewrite kvmap_get.
      destruct (sm_get (normalize namex) am) as [[chld md]|] eqn:Eg; cbn [option_map fst snd c_node c_md]; [|auto].
      set (new := match new_namex with Some x => normalize x | None => normalize namex end).
      assert (He : entries_ok [(new, chld, Some md)]).
      { intros a b c [E|[]] _. inversion E; subst. eapply dir_ok_get; eassumption. }
      destruct (b_add_refines wks dirs dst [(new, chld, Some md)] ov now Hst He) as [Eb Hst'].
      rewrite Eb. destruct (a_add dirs dst [(new, chld, Some md)] ov now) as [[| |e] dirs'] eqn:Ea; cbn [fst snd] in *; auto.
      apply b_delete_refines. exact Hst'.
  Qed.

  (* ---------------- C20: any history of edits ---------------- *)
  Theorem run_refines ops :
    forall wks dirs,
      store_ok wks dirs -> Forall (fun on => op_ok (fst on)) ops ->
      b_run (conc wks dirs) ops = (fst (a_run dirs ops), conc wks (snd (a_run dirs ops)))
      /\ store_ok wks (snd (a_run dirs ops)).
  Proof.
    induction ops as [|[o now] r IH]; intros wks dirs Hst Hops; cbn [Dirnode.b_run Dirnode.a_run].
    - cbn [fst snd]. auto.
    - inversion Hops as [|? ? Ho Hr]; subst. cbn [fst] in Ho.
      destruct (b_step_refines wks dirs o now Hst Ho) as [Eb Hst'].
      rewrite Eb. destruct (a_step dirs o now) as [out dirs'] eqn:Ea. cbn [fst snd] in *.
      destruct (IH wks dirs' Hst' Hr) as [Er Hst''].
      rewrite Er. destruct (a_run dirs' r) as [outs dirs''] eqn:Ear. cbn [fst snd] in *.
      auto.
  Qed.
End EditFacts.
