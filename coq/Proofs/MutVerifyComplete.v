(* C10, the "read succeeds" half at the level of the reader's checks: a share exactly as the
   write-cap holder published it passes every check, so the checks can only reject shares that
   differ from what was published (k such shares reachable => the reader has k shares it accepts). *)
From Coq Require Import List NArith Bool.
From Verif Require Import Model.MutVerify.
Import ListNotations.
Local Open Scope N_scope.

Lemma genuine_share_accepted_ok
  (V : Type) (pair h_blk : V -> V -> V) (h_fp : V -> V) (verify : V -> V -> V -> bool)
  (prefix_of : N -> V -> V) (veq : V -> V -> bool) :
  (forall a b : V, veq a b = true <-> a = b) ->
  forall (fingerprint : V) (g : share V) (shnum seg : N),
    h_fp (s_pubkey V g) = fingerprint ->
    verify (s_pubkey V g) (s_signature V g) (prefix_of (s_seqnum V g) (s_root_hash V g)) = true ->
    root_from V pair (root_from V pair (h_blk (s_salt V g seg) (s_block V g seg)) seg (s_block_path V g seg))
              shnum (s_share_path V g) = s_root_hash V g ->
    read_accepts V pair h_blk h_fp verify prefix_of veq fingerprint g shnum seg = true.
Proof.
  intros Hveq fp g shnum seg Hfp Hsig Hroot.
  unfold read_accepts, version_accepted, block_accepted.
  rewrite Hsig, Hroot. rewrite (proj2 (Hveq _ _) Hfp). rewrite (proj2 (Hveq _ _) eq_refl). reflexivity.
Qed.



