(* C46 / C03: ShareFinder.loop (immutable/downloader/finder.py), model in Model/Fetcher.v.

   A hungry, running finder is never silently idle: with no loop() queued it either
   still has DYHB requests in flight -- each of which has its overdue timer armed or is
   already overdue, so a response, an error or the timer will queue the next loop() --
   or it has answered the last hungry() call (shares delivered or no_more_shares).
   Exhaustion is reported only when every server was asked and nothing is in flight. *)
From Coq Require Import List NArith Bool Arith Lia.
From Verif Require Import Model.Fetcher.
Import ListNotations.

Definition is_answer (o : dout) : bool := match o with DSend _ => false | _ => true end.

(* ghost flag: the last hungry() call has been answered *)
Definition dgstep (g : dstate * bool) (e : dev) : (dstate * bool) * list dout :=
  let (s', o) := dstep (fst g) e in
  ((s', match e with DHungry => false | _ => snd g || existsb is_answer o end), o).

Fixpoint dgrun (g : dstate * bool) (evs : list dev) : (dstate * bool) * list dout :=
  match evs with
  | [] => (g, [])
  | e :: r => let (g1, o1) := dgstep g e in let (g2, o2) := dgrun g1 r in (g2, o1 ++ o2)
  end.

Definition finv (m : nat) (g : dstate * bool) : Prop :=
  let s := fst g in
  d_max s = m /\
  (d_running s = true -> d_hungry s = true -> d_loops s = 0 -> d_pending s = [] -> snd g = true) /\
  (d_running s = true -> forall x, In x (d_pending s) -> In x (d_timers s) \/ In x (d_overdue s)).

Lemma mem_In x l : mem x l = true <-> In x l.
Proof.
  unfold mem. rewrite existsb_exists. split.
  - intros (y & Hy & E). apply N.eqb_eq in E. now subst.
  - intros H. exists x. split; [exact H|apply N.eqb_refl].
Qed.

Lemma del_In x y l : In y (del x l) <-> In y l /\ y <> x.
Proof.
  unfold del. rewrite filter_In. split; intros [A B]; (split; [exact A|]).
  - intros E. subst. rewrite N.eqb_refl in B. discriminate.
  - apply negb_true_iff. now apply N.eqb_neq.
Qed.

Lemma finv_init servers m : finv m (dinit servers m, true).
Proof. unfold finv, dinit. cbn. repeat split; auto; try (intros _ x []). Qed.

Lemma retire_keeps s srv :
  (d_running s = true -> forall x, In x (d_pending s) -> In x (d_timers s) \/ In x (d_overdue s)) ->
  d_running s = true -> forall x, In x (del srv (d_pending s)) -> In x (del srv (d_timers s)) \/ In x (del srv (d_overdue s)).
Proof.
  intros H R x Hx. apply del_In in Hx. destruct Hx as [Hx NE]. destruct (H R x Hx); [left|right]; apply del_In; auto.
Qed.

Lemma dgstep_finv m g e : 1 <= m -> finv m g -> finv m (fst (dgstep g e)).
Proof.
  intros Hm (M & A & B). destruct g as [s ans]. unfold dgstep, finv in *. cbn [fst snd] in *.
  destruct e as [| |srv shnums|srv|srv|]; cbn [dstep].
  - (* hungry *) cbn [fst snd d_max d_running d_hungry d_loops d_pending d_timers d_overdue].
    split; [first [exact M | reflexivity]|]. split; [discriminate|exact B].
  - (* loop *)
    destruct (d_loops s) as [|n] eqn:L; cbn [fst snd].
    { split; [first [exact M | reflexivity]|]. split; [|exact B]. intros R H _ P. rewrite orb_false_r. auto. }
    cbn [d_running d_hungry]. destruct (d_running s) eqn:R; cbn [negb fst snd].
    2:{ cbn [d_max d_running]. split; [first [exact M | reflexivity]|]. split; intros; congruence. }
    destruct (d_hungry s) eqn:H; cbn [negb fst snd].
    2:{ cbn [d_max d_running d_hungry d_pending d_timers d_overdue]. split; [first [exact M | reflexivity]|]. split; [intros; congruence|]. intros _. apply B. reflexivity. }
    cbn [d_max d_pending d_overdue d_servers]. rewrite M.
    destruct (m <=? length (filter (fun x => negb (mem x (d_overdue s))) (d_pending s))) eqn:Mx; cbn [fst snd].
    { cbn [d_max d_running d_hungry d_loops d_pending d_timers d_overdue]. split; [first [exact M | reflexivity]|]. split.
      - intros _ _ _ P. rewrite P in Mx. cbn in Mx. apply Nat.leb_le in Mx. lia.
      - intros _. apply B. reflexivity. }
    destruct (d_servers s) as [|sv rest] eqn:Sv; cbn [fst snd].
    + destruct (d_pending s) as [|p ps] eqn:P; cbn [fst snd d_max d_running d_hungry d_loops d_pending d_timers d_overdue existsb is_answer].
      * split; [first [exact M | reflexivity]|]. split; [intros _ _ _ _; apply orb_true_r|intros _ x []].
      * split; [first [exact M | reflexivity]|]. split; [discriminate|]. intros _. apply B. reflexivity.
    + cbn [d_max d_running d_hungry d_loops d_pending d_timers d_overdue]. split; [first [exact M | reflexivity]|]. split; [discriminate|].
      intros _ x Hx. apply in_app_or in Hx. destruct Hx as [Hx|[Hx|[]]].
      * destruct (B eq_refl x Hx); [left; apply in_or_app; now left|now right].
      * subst. left. apply in_or_app. right. now left.
  - (* response *)
    destruct (mem srv (d_pending s)) eqn:Pm; cbn [negb fst snd].
    2:{ split; [first [exact M | reflexivity]|]. split; [|exact B]. intros R H L P. rewrite orb_false_r. auto. }
    destruct shnums; cbn [fst snd d_retire d_max d_running d_hungry d_loops d_pending d_timers d_overdue];
      (split; [first [exact M | reflexivity]|]; split; [discriminate|]; intros R; now apply retire_keeps).
  - (* error *)
    destruct (mem srv (d_pending s)) eqn:Pm; cbn [negb fst snd].
    2:{ split; [first [exact M | reflexivity]|]. split; [|exact B]. intros R H L P. rewrite orb_false_r. auto. }
    cbn [d_retire d_max d_running d_hungry d_loops d_pending d_timers d_overdue].
    split; [first [exact M | reflexivity]|]. split; [discriminate|]. intros R; now apply retire_keeps.
  - (* overdue timer *)
    destruct (mem srv (d_timers s)) eqn:Tm; cbn [negb fst snd].
    2:{ split; [first [exact M | reflexivity]|]. split; [|exact B]. intros R H L P. rewrite orb_false_r. auto. }
    cbn [d_max d_running d_hungry d_loops d_pending d_timers d_overdue]. split; [first [exact M | reflexivity]|]. split; [discriminate|].
    intros R x Hx. destruct (N.eq_dec x srv) as [E|NE].
    + subst. right. destruct (mem srv (d_overdue s)) eqn:Om; [now apply mem_In|apply in_or_app; right; now left].
    + destruct (B R x Hx) as [T|O]; [left; apply del_In; auto|right].
      destruct (mem srv (d_overdue s)); [exact O|apply in_or_app; now left].
  - (* stop *)
    cbn [fst snd d_max d_running]. split; [first [exact M | reflexivity]|]. split; discriminate.
Qed.

Lemma dgrun_finv m : 1 <= m -> forall evs g, finv m g -> finv m (fst (dgrun g evs)).
Proof.
  intros Hm. induction evs as [|e r IH]; intros g H; cbn [dgrun fst]; [exact H|].
  pose proof (dgstep_finv m g e Hm H) as H1. destruct (dgstep g e) as [g1 o1]. cbn [fst] in H1.
  specialize (IH g1 H1). destruct (dgrun g1 r). exact IH.
Qed.

(* no_more_shares only when every server was asked and nothing is in flight *)
Lemma dstep_no_more s e : In DNoMoreShares (snd (dstep s e)) -> d_servers s = [] /\ d_pending s = [] /\ d_hungry s = true /\ d_running s = true.
Proof.
  destruct e as [| |srv shnums|srv|srv|]; cbn [dstep]; try (intros []).
  - destruct (d_loops s) as [|n]; [intros []|]. cbn [d_running d_hungry].
    destruct (d_running s); cbn [negb]; [|intros []]. destruct (d_hungry s); cbn [negb]; [|intros []].
    cbn [d_max d_pending d_overdue d_servers].
    destruct (d_max s <=? _); [intros []|]. destruct (d_servers s); [|intros [H|[]]; discriminate].
    destruct (d_pending s); [auto|intros []].
  - destruct (mem srv (d_pending s)); cbn [negb]; [|intros []]. destruct shnums; cbn [snd]; [intros []|intros [H|[]]; discriminate].
  - destruct (mem srv (d_pending s)); cbn [negb]; intros [].
  - destruct (mem srv (d_timers s)); cbn [negb]; intros [].
Qed.

Theorem finder_never_silently_idle_ok :
  forall (servers : list N) (m : nat) (evs : list dev),
  1 <= m ->
  let g := fst (dgrun (dinit servers m, true) evs) in
  let s := fst g in
  d_running s = true -> d_hungry s = true -> d_loops s = 0 ->
  (d_pending s <> [] /\ forall x, In x (d_pending s) -> In x (d_timers s) \/ In x (d_overdue s)) \/
  (d_pending s = [] /\ snd g = true).
Proof.
  intros servers m evs Hm g s R H L.
  destruct (dgrun_finv m Hm evs _ (finv_init servers m)) as (_ & A & B). fold g in A, B. fold s in A, B.
  destruct (d_pending s) eqn:P; [right; split; [reflexivity|now apply A]|left; split; [discriminate|now apply B]].
Qed.
