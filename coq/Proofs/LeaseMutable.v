(* C25, mutable containers: the lease methods of MutableShareFile on the bytes of the
   file, via the structured containers of Proofs/MutContainer.v.  The lease area is
   seen as a function slot -> option lease (`slot c`); every lease operation changes
   it at one slot at most and leaves the data region alone. *)
From Coq Require Import List NArith Arith Bool Lia.
From Verif Require Import Lib.Hex Gen.MutConsts Model.MutContainer Model.Lease
  Proofs.MutContainerBytes Proofs.MutContainer.
Import ListNotations.
Local Open Scope N_scope.

(* ---- records inside a blob ------------------------------------------------------------------ *)
Lemma prn_length_inside (blob : list N) o k : (o + k <= length blob)%nat -> length (prn blob o k) = k.
Proof. intro Hi. unfold prn. rewrite firstn_length, skipn_length. lia. Qed.

Lemma prn_pwn_same (blob b : list N) o : (o + length b <= length blob)%nat -> prn (pwn blob o b) o (length b) = b.
Proof.
  intro Hi. apply list_ext0.
  - rewrite prn_length_inside; [reflexivity|]. rewrite pwn_length_inside by lia. lia.
  - intros i _. unfold prn. nth_simp. nth_cases; nth_fin.
Qed.

Lemma prn_pwn_other (blob b : list N) o o' k : (o + length b <= length blob)%nat ->
  (o' + k <= o \/ o + length b <= o')%nat -> prn (pwn blob o b) o' k = prn blob o' k.
Proof.
  intros Hi Hd. apply list_ext0.
  - unfold prn. rewrite !firstn_length, !skipn_length, pwn_length_inside by lia. reflexivity.
  - intros i _. unfold prn. nth_simp. nth_cases; nth_fin.
Qed.

Lemma pwn_at_end (blob b : list N) : pwn blob (length blob) b = blob ++ b.
Proof.
  destruct b as [|x b]; [cbn; symmetry; apply app_nil_r|].
  rewrite pwn_beyond by (try discriminate; lia). rewrite Nat.sub_diag. reflexivity.
Qed.

Lemma prn_app_end (blob b : list N) : prn (blob ++ b) (length blob) (length b) = b.
Proof.
  rewrite <- (Nat.add_0_r (length blob)). rewrite prn_app_skip. unfold prn. cbn [skipn]. apply firstn_all.
Qed.

(* ---- (un)serialisation ------------------------------------------------------------------------ *)
Definition parse_mut (r : list N) : lease :=
  mkLease (unbe (pread r 0 4)) (pread r 8 32) (pread r 40 32) (unbe (pread r 4 4)) (pread r 72 20).

Definition norm_mut (l : lease) : lease :=
  mkLease (l_owner l) (fit 32 (l_renew l)) (fit 32 (l_cancel l)) (l_expire l) (fit 20 (l_nodeid l)).

Lemma unser_mutable_ok r : length r = 92%nat -> unser_mutable r = Ok (parse_mut r).
Proof. intro Hl. unfold unser_mutable. rewrite Hl. reflexivity. Qed.

Lemma fit_length n s : length (fit n s) = n.
Proof. unfold fit. rewrite app_length, firstn_length, repeat_length. lia. Qed.

Lemma fit_id n s : length s = n -> fit n s = s.
Proof. intro Hl. unfold fit. rewrite firstn_all2 by lia. rewrite <- Hl, Nat.sub_diag. apply app_nil_r. Qed.

Lemma ser_mutable_ok l : l_owner l < 2 ^ 32 -> l_expire l < 2 ^ 32 ->
  exists b, ser_mutable l = Ok b /\ length b = 92%nat /\ parse_mut b = norm_mut l.
Proof.
  intros Ho He. unfold ser_mutable.
  rewrite (pack_be_ok 4 (l_owner l)) by exact Ho. rewrite (pack_be_ok 4 (l_expire l)) by exact He.
  eexists. split; [reflexivity|]. split.
  - rewrite !app_length, !be_length, !fit_length. reflexivity.
  - unfold parse_mut, norm_mut. rewrite !pread_prn.
    change (N.to_nat 0) with 0%nat. change (N.to_nat 4) with 4%nat. change (N.to_nat 8) with 8%nat.
    change (N.to_nat 32) with 32%nat. change (N.to_nat 40) with 40%nat. change (N.to_nat 72) with 72%nat.
    change (N.to_nat 20) with 20%nat.
    set (o := be 4 (l_owner l)). set (e := be 4 (l_expire l)).
    set (r := fit 32 (l_renew l)). set (c := fit 32 (l_cancel l)). set (n := fit 20 (l_nodeid l)).
    assert (Lo : length o = 4%nat) by apply be_length. assert (Le : length e = 4%nat) by apply be_length.
    assert (Lr : length r = 32%nat) by apply fit_length. assert (Lc : length c = 32%nat) by apply fit_length.
    assert (Ln : length n = 20%nat) by apply fit_length.
    assert (E1 : prn (o ++ e ++ r ++ c ++ n) 0 4 = o).
    { apply (prn_exact' [] o (e ++ r ++ c ++ n)); auto. }
    assert (E2 : prn (o ++ e ++ r ++ c ++ n) 4 4 = e).
    { rewrite (prn_exact' o e); auto. }
    assert (E3 : prn (o ++ e ++ r ++ c ++ n) 8 32 = r).
    { rewrite (app_assoc o e). rewrite (prn_exact' (o ++ e) r); auto; try (rewrite !app_length; lia). }
    assert (E4 : prn (o ++ e ++ r ++ c ++ n) 40 32 = c).
    { rewrite (app_assoc o e), (app_assoc (o ++ e) r). rewrite (prn_exact' ((o ++ e) ++ r) c); auto; try (rewrite !app_length; lia). }
    assert (E5 : prn (o ++ e ++ r ++ c ++ n) 72 20 = n).
    { rewrite (app_assoc o e), (app_assoc (o ++ e) r), (app_assoc ((o ++ e) ++ r) c).
      rewrite <- (app_nil_r n) at 1. rewrite (prn_exact' (((o ++ e) ++ r) ++ c) n); auto; try (rewrite !app_length; lia). }
    rewrite E1, E2, E3, E4, E5. subst o e.
    rewrite !unbe_be by assumption. reflexivity.
Qed.


Lemma norm_mut_wf l : lease_wf l -> norm_mut l = l.
Proof.
  intros [? ? Hr Hc Hn]. unfold norm_mut. rewrite (fit_id _ _ Hr), (fit_id _ _ Hc), (fit_id _ _ Hn). destruct l; reflexivity.
Qed.

Lemma unbe_prn_bound (r : list N) o k : bytes_ok r -> (o + k <= length r)%nat -> unbe (prn r o k) < 256 ^ N.of_nat k.
Proof.
  intros Hb Hl. rewrite <- (prn_length_inside r o k Hl) at 2. apply unbe_bound.
  unfold prn. apply bytes_ok_firstn. apply bytes_ok_skipn. exact Hb.
Qed.

Lemma parse_mut_wf r : length r = 92%nat -> bytes_ok r -> lease_wf (parse_mut r).
Proof.
  intros Hl Hb. unfold parse_mut. constructor; cbn [l_owner l_expire l_renew l_cancel l_nodeid]; rewrite ?pread_prn.
  - apply (unbe_prn_bound r 0 4 Hb). lia.
  - apply (unbe_prn_bound r 4 4 Hb). lia.
  - apply prn_length_inside. change (N.to_nat 8) with 8%nat. change (N.to_nat 32) with 32%nat. lia.
  - apply prn_length_inside. change (N.to_nat 40) with 40%nat. change (N.to_nat 32) with 32%nat. lia.
  - apply prn_length_inside. change (N.to_nat 72) with 72%nat. change (N.to_nat 20) with 20%nat. lia.
Qed.

Lemma set_expire_wf l t : lease_wf l -> t < 2 ^ 32 -> lease_wf (set_expire l t).
Proof. intros [? ? ? ? ?] Ht. constructor; cbn; auto. Qed.

(* ---- the slot view of a structured container ---------------------------------------------------- *)
Definition set_slots (c : FC) (s : list N) : FC :=
  mkFC (c_id c) (c_dlb c) (c_elob c) s (c_region c) (c_nxb c) (c_extra c).
Definition set_extra (c : FC) (e : list N) : FC :=
  mkFC (c_id c) (c_dlb c) (c_elob c) (c_slots c) (c_region c) (c_nxb c) e.
Definition set_nxb_extra (c : FC) (b e : list N) : FC :=
  mkFC (c_id c) (c_dlb c) (c_elob c) (c_slots c) (c_region c) b e.

(* what a lease operation must not touch *)
Definition same_data (c c' : FC) : Prop :=
  c_id c' = c_id c /\ c_dlb c' = c_dlb c /\ c_elob c' = c_elob c /\ c_region c' = c_region c.

Lemma same_data_refl c : same_data c c.
Proof. repeat split. Qed.

Lemma same_data_c_data c c' : same_data c c' -> c_data c' = c_data c.
Proof. intros (_ & Hd & _ & Hr). unfold c_data, c_dl. rewrite Hd, Hr. reflexivity. Qed.

Definition slot_of_rec (r : list N) : option lease :=
  let l := parse_mut r in if l_owner l =? 0 then None else Some l.
Definition slot (c : FC) (i : N) : option lease := slot_of_rec (rec_of c i).

Lemma rec_of_length maxsz c i : wf maxsz c -> i < 4 + c_nx c -> length (rec_of c i) = 92%nat.
Proof.
  intros Hw Hi. unfold rec_of. destruct (N.ltb_spec i 4); rewrite pread_prn; apply prn_length_inside.
  - destruct Hw. change (N.to_nat 92) with 92%nat. lia.
  - pose proof (wf_extra _ _ Hw) as He. unfold len in He. change (N.to_nat 92) with 92%nat. lia.
Qed.

Lemma read_lease_record_flat maxsz c i : wf maxsz c -> i < 4 + c_nx c ->
  read_lease_record (flat c) i = Ok (slot c i).
Proof.
  intros Hw Hi. unfold read_lease_record. rewrite (read_lease_raw_flat maxsz c i Hw Hi).
  rewrite unser_mutable_ok by (apply (rec_of_length maxsz); assumption). reflexivity.
Qed.

Definition enumL (h : N -> option lease) (L : list N) : list (N * lease) :=
  flat_map (fun i => match h i with Some l => [(i, l)] | None => [] end) L.

Lemma enumerate_flat maxsz c L : wf maxsz c -> (forall i, In i L -> i < 4 + c_nx c) ->
  enumerate_leases (flat c) L = Ok (enumL (slot c) L).
Proof.
  intros Hw. induction L as [|i r IH]; intro HL; [reflexivity|].
  cbn [enumerate_leases enumL flat_map]. rewrite (read_lease_record_flat maxsz) by (auto; apply HL; left; reflexivity).
  rewrite IH by (intros; apply HL; right; assumption).
  destruct (slot c i); reflexivity.
Qed.

Lemma mut_enumerate_flat maxsz c : wf maxsz c -> mut_enumerate (flat c) = Ok (enumL (slot c) (nseq (4 + c_nx c))).
Proof.
  intro Hw. unfold mut_enumerate, num_lease_slots. rewrite (read_nx_flat _ _ Hw). consts.
  apply (enumerate_flat maxsz); auto. intros i Hi. apply in_nseq. exact Hi.
Qed.

Lemma first_empty_flat maxsz c L : wf maxsz c -> (forall i, In i L -> i < 4 + c_nx c) ->
  first_empty_slot (flat c) L = Ok (find (fun i => match slot c i with None => true | Some _ => false end) L).
Proof.
  intros Hw. induction L as [|i r IH]; intro HL; [reflexivity|].
  cbn [first_empty_slot find]. rewrite (read_lease_record_flat maxsz) by (auto; apply HL; left; reflexivity).
  destruct (slot c i); [|reflexivity]. apply IH. intros; apply HL; right; assumption.
Qed.

Lemma in_enumL h L i l : In (i, l) (enumL h L) <-> In i L /\ h i = Some l.
Proof.
  unfold enumL. rewrite in_flat_map. split.
  - intros (j & Hj & Hin). destruct (h j) as [x|] eqn:E; [|destruct Hin].
    destruct Hin as [Hin|[]]. inversion Hin; subst. auto.
  - intros (Hi & Hh). exists i. split; [assumption|]. rewrite Hh. left. reflexivity.
Qed.

Lemma enumL_update h h' L i l l' : h i = Some l -> h' i = Some l' -> (forall j, j <> i -> h' j = h j) ->
  enumL h' L = map (fun il => if fst il =? i then (i, l') else il) (enumL h L).
Proof.
  intros Hi Hi' Ho. induction L as [|j r IH]; [reflexivity|].
  cbn [enumL flat_map]. fold (enumL h' r). fold (enumL h r). rewrite map_app, <- IH. f_equal.
  destruct (N.eqb_spec j i) as [->|Hne].
  - rewrite Hi, Hi'. cbn [map fst]. rewrite N.eqb_refl. reflexivity.
  - rewrite (Ho j Hne). destruct (h j); [|reflexivity]. cbn [map fst].
    destruct (N.eqb_spec j i); [congruence|reflexivity].
Qed.

Lemma in_nseq_iff i n : In i (nseq n) <-> i < n.
Proof.
  split; [apply in_nseq|]. intro Hi. unfold nseq. apply in_map_iff. exists (N.to_nat i). split; [lia|].
  apply in_seq. lia.
Qed.

(* ---- _write_lease_record ----------------------------------------------------------------------------- *)
Lemma wf_set_slots maxsz c s : wf maxsz c -> length s = 368%nat -> wf maxsz (set_slots c s).
Proof. intros [? ? ? ? ? ? ? ? ? ?] Hl. constructor; auto. Qed.

Lemma wf_set_extra maxsz c e : wf maxsz c -> length e = length (c_extra c) -> wf maxsz (set_extra c e).
Proof.
  intros [? ? ? ? ? ? ? ? ? He] Hl. constructor; auto. unfold len in *. cbn [c_extra set_extra]. rewrite Hl. exact He.
Qed.

Lemma write_record_slot maxsz c i b : wf maxsz c -> i < 4 -> length b = 92%nat ->
  write_lease_record (flat c) i (Ok b) = Done (flat (set_slots c (pwn (c_slots c) (N.to_nat (i * 92)) b))).
Proof.
  intros Hw Hi Hb. unfold write_lease_record. rewrite (read_elo_flat _ _ Hw), (read_nx_flat _ _ Hw). consts.
  destruct (N.ltb_spec i 4); [|lia]. f_equal. rewrite pwrite_pwn, flat_slots.
  replace (N.to_nat (100 + i * 92)) with (length (c_id c ++ c_dlb c ++ c_elob c) + N.to_nat (i * 92))%nat.
  2:{ rewrite !app_length. destruct Hw. lia. }
  rewrite pwn_app_skip. rewrite pwn_inside by (destruct Hw; lia).
  rewrite (flat_slots (set_slots _ _)). reflexivity.
Qed.

Lemma write_record_extra maxsz c i b : wf maxsz c -> 4 <= i -> i < 4 + c_nx c -> length b = 92%nat ->
  write_lease_record (flat c) i (Ok b) = Done (flat (set_extra c (pwn (c_extra c) (N.to_nat ((i - 4) * 92)) b))).
Proof.
  intros Hw H4 Hi Hb. unfold write_lease_record. rewrite (read_elo_flat _ _ Hw), (read_nx_flat _ _ Hw). consts.
  destruct (N.ltb_spec i 4); [lia|]. destruct (N.ltb_spec (i - 4) (c_nx c)); [|lia]. f_equal.
  rewrite pwrite_pwn, flat_nxb, app_assoc.
  replace (N.to_nat (468 + len (c_region c) + 4 + (i - 4) * 92))
    with (length ((hdr c ++ c_region c) ++ c_nxb c) + N.to_nat ((i - 4) * 92))%nat.
  2:{ rewrite !app_length, (hdr_length _ _ Hw). destruct Hw. unfold len. lia. }
  rewrite pwn_app_skip. rewrite (flat_nxb (set_extra _ _)), app_assoc. reflexivity.
Qed.

Lemma write_record_append maxsz c b : wf maxsz c -> c_nx c + 1 < 2 ^ 32 -> length b = 92%nat ->
  write_lease_record (flat c) (4 + c_nx c) (Ok b) = Done (flat (set_nxb_extra c (be 4 (c_nx c + 1)) (c_extra c ++ b))).
Proof.
  intros Hw Hn Hb. unfold write_lease_record. rewrite (read_elo_flat _ _ Hw), (read_nx_flat _ _ Hw). consts.
  destruct (N.ltb_spec (4 + c_nx c) 4); [lia|]. destruct (N.ltb_spec (4 + c_nx c - 4) (c_nx c)); [lia|].
  unfold write_num_extra_leases. rewrite (read_elo_flat _ _ Hw).
  rewrite pack_be_ok by (change (256 ^ N.of_nat 4) with (2 ^ 32); exact Hn). cbn [obind]. f_equal.
  assert (E1 : pwrite (flat c) (468 + len (c_region c)) (be 4 (c_nx c + 1))
               = flat (set_nxb_extra c (be 4 (c_nx c + 1)) (c_extra c))).
  { rewrite pwrite_pwn, flat_nxb. rewrite pwn_exact'.
    - rewrite (flat_nxb (set_nxb_extra _ _ _)). reflexivity.
    - rewrite app_length, (hdr_length _ _ Hw). unfold len. lia.
    - rewrite be_length. destruct Hw; auto. }
  rewrite E1. rewrite pwrite_pwn.
  set (c1 := set_nxb_extra c (be 4 (c_nx c + 1)) (c_extra c)).
  replace (N.to_nat (468 + len (c_region c) + 4 + (4 + c_nx c - 4) * 92)) with (length (flat c1)).
  2:{ unfold flat, hdr, tail, c1. cbn [c_id c_dlb c_elob c_slots c_region c_nxb c_extra set_nxb_extra].
      rewrite !app_length, be_length. pose proof (wf_extra _ _ Hw) as He. destruct Hw. unfold len in *. lia. }
  rewrite pwn_at_end. unfold flat, tail, c1. cbn [c_id c_dlb c_elob c_slots c_region c_nxb c_extra set_nxb_extra hdr].
  rewrite <- !app_assoc. reflexivity.
Qed.

Lemma wf_append maxsz c b : wf maxsz c -> c_nx c + 1 < 2 ^ 32 -> length b = 92%nat ->
  wf maxsz (set_nxb_extra c (be 4 (c_nx c + 1)) (c_extra c ++ b)).
Proof.
  intros [? ? ? ? ? ? ? ? ? He] Hn Hb. constructor; auto; try apply be_length.
  unfold c_nx in *. cbn [c_nxb c_extra set_nxb_extra].
    rewrite unbe_be by (change (256 ^ N.of_nat 4) with (2 ^ 32); exact Hn).
    rewrite len_app. unfold len in *. lia.
Qed.

(* the slot function after each kind of record write *)
Lemma rec_of_set_slots maxsz c i b j : wf maxsz c -> i < 4 -> length b = 92%nat -> j < 4 + c_nx c ->
  rec_of (set_slots c (pwn (c_slots c) (N.to_nat (i * 92)) b)) j = if j =? i then b else rec_of c j.
Proof.
  intros Hw Hi Hb Hj. unfold rec_of. cbn [c_slots c_extra set_slots].
  destruct (N.ltb_spec j 4).
  - rewrite !pread_prn. change (N.to_nat 92) with 92%nat. destruct (N.eqb_spec j i) as [->|Hne].
    + rewrite <- Hb. apply prn_pwn_same. destruct Hw. lia.
    + apply prn_pwn_other; destruct Hw; lia.
  - destruct (N.eqb_spec j i); [lia|reflexivity].
Qed.

Lemma rec_of_set_extra maxsz c i b j : wf maxsz c -> 4 <= i -> i < 4 + c_nx c -> length b = 92%nat -> j < 4 + c_nx c ->
  rec_of (set_extra c (pwn (c_extra c) (N.to_nat ((i - 4) * 92)) b)) j = if j =? i then b else rec_of c j.
Proof.
  intros Hw H4 Hi Hb Hj. unfold rec_of. cbn [c_slots c_extra set_extra].
  pose proof (wf_extra _ _ Hw) as He. unfold len in He.
  destruct (N.ltb_spec j 4).
  - destruct (N.eqb_spec j i); [lia|reflexivity].
  - rewrite !pread_prn. change (N.to_nat 92) with 92%nat. destruct (N.eqb_spec j i) as [->|Hne].
    + rewrite <- Hb. apply prn_pwn_same. lia.
    + apply prn_pwn_other; lia.
Qed.

Lemma rec_of_append maxsz c b j : wf maxsz c -> length b = 92%nat -> j <= 4 + c_nx c ->
  rec_of (set_nxb_extra c (be 4 (c_nx c + 1)) (c_extra c ++ b)) j = if j =? 4 + c_nx c then b else rec_of c j.
Proof.
  intros Hw Hb Hj. unfold rec_of. cbn [c_slots c_extra set_nxb_extra].
  pose proof (wf_extra _ _ Hw) as He. unfold len in He.
  destruct (N.ltb_spec j 4).
  - destruct (N.eqb_spec j (4 + c_nx c)); [lia|reflexivity].
  - rewrite !pread_prn. change (N.to_nat 92) with 92%nat. destruct (N.eqb_spec j (4 + c_nx c)) as [->|Hne].
    + replace (N.to_nat ((4 + c_nx c - 4) * 92)) with (length (c_extra c)) by lia. rewrite <- Hb. apply prn_app_end.
    + apply prn_inside. lia.
Qed.

(* one statement for all three: writing a well-formed record into slot i <= number of slots *)
Lemma write_record_flat maxsz c i b : wf maxsz c -> i <= 4 + c_nx c -> (i = 4 + c_nx c -> c_nx c + 1 < 2 ^ 32) ->
  length b = 92%nat ->
  exists c', write_lease_record (flat c) i (Ok b) = Done (flat c') /\ wf maxsz c' /\ same_data c c' /\
             c_nx c' = (if i =? 4 + c_nx c then c_nx c + 1 else c_nx c) /\
             (forall j, j < 4 + c_nx c' -> rec_of c' j = if j =? i then b else rec_of c j).
Proof.
  intros Hw Hi Hn Hb. destruct (N.ltb_spec i 4) as [H4|H4].
  - eexists. split; [apply (write_record_slot maxsz); assumption|].
    split; [apply wf_set_slots; auto; rewrite pwn_length_inside; destruct Hw; lia|].
    split; [repeat split|]. destruct (N.eqb_spec i (4 + c_nx c)); [lia|].
    split; [reflexivity|]. intros j Hj. apply (rec_of_set_slots maxsz); auto.
  - destruct (N.eqb_spec i (4 + c_nx c)) as [->|Hne].
    + specialize (Hn eq_refl). eexists. split; [apply (write_record_append maxsz); assumption|].
      split; [apply wf_append; assumption|]. split; [repeat split|].
      assert (Enx : c_nx (set_nxb_extra c (be 4 (c_nx c + 1)) (c_extra c ++ b)) = c_nx c + 1).
      { unfold c_nx. cbn [c_nxb set_nxb_extra]. apply unbe_be. change (256 ^ N.of_nat 4) with (2 ^ 32). exact Hn. }
      split; [exact Enx|]. intros j Hj. rewrite Enx in Hj. apply (rec_of_append maxsz); auto. lia.
    + eexists. split; [apply (write_record_extra maxsz); auto; lia|].
      pose proof (wf_extra _ _ Hw) as He. unfold len in He.
      split; [apply wf_set_extra; auto; rewrite pwn_length_inside; lia|].
      split; [repeat split|]. split; [reflexivity|]. intros j Hj. apply (rec_of_set_extra maxsz); auto; lia.
Qed.

Definition upd (h : N -> option lease) (i : N) (x : option lease) : N -> option lease :=
  fun j => if j =? i then x else h j.

(* the operation wrote lease l' into slot i (an existing slot, or one past the last) and nothing else *)
Definition written (maxsz : N) (c : FC) (i : N) (l' : lease) (o : outcome) : Prop :=
  exists c', o = Done (flat c') /\ wf maxsz c' /\ same_data c c' /\
             c_nx c' = (if i =? 4 + c_nx c then c_nx c + 1 else c_nx c) /\
             (forall j, j < 4 + c_nx c' -> slot c' j = upd (slot c) i (Some l') j).

(* ... or it left the file alone (returning, or raising) *)
Definition effect (maxsz : N) (c : FC) (i : N) (l' : lease) (o : outcome) : Prop :=
  o = Done (flat c) \/ (exists e, o = Raised (flat c) e) \/ written maxsz c i l' o.

Lemma bytes_ok_fields c : bytes_ok (flat c) -> bytes_ok (c_slots c) /\ bytes_ok (c_extra c).
Proof.
  unfold flat, hdr, tail. intro Hb.
  apply bytes_ok_app in Hb. destruct Hb as [Hh Hb]. apply bytes_ok_app in Hb. destruct Hb as [_ Hb].
  apply bytes_ok_app in Hb. destruct Hb as [_ He].
  apply bytes_ok_app in Hh. destruct Hh as [_ Hh]. apply bytes_ok_app in Hh. destruct Hh as [_ Hh].
  apply bytes_ok_app in Hh. destruct Hh as [_ Hs]. auto.
Qed.

Lemma slot_bytes maxsz c i l : wf maxsz c -> bytes_ok (flat c) -> i < 4 + c_nx c -> slot c i = Some l -> lease_wf l.
Proof.
  intros Hw Hb Hi Hs. unfold slot, slot_of_rec in Hs. destruct (l_owner (parse_mut (rec_of c i)) =? 0); [discriminate|].
  inversion Hs; subst. apply parse_mut_wf; [apply (rec_of_length maxsz); assumption|].
  unfold rec_of. destruct (bytes_ok_fields c Hb) as [Hs' He'].
  destruct (i <? 4); unfold pread; apply bytes_ok_firstn, bytes_ok_skipn; assumption.
Qed.

Lemma slot_owner c i l : slot c i = Some l -> l_owner l <> 0.
Proof.
  unfold slot, slot_of_rec. destruct (N.eqb_spec (l_owner (parse_mut (rec_of c i))) 0); [discriminate|].
  intro Hs. inversion Hs; subst. assumption.
Qed.

Lemma slot_of_ser l : lease_wf l -> l_owner l <> 0 ->
  exists b, ser_mutable l = Ok b /\ length b = 92%nat /\ slot_of_rec b = Some l.
Proof.
  intros Hl Ho. destruct (ser_mutable_ok l (lw_owner _ Hl) (lw_expire _ Hl)) as (b & Es & Lb & Pb).
  exists b. split; [exact Es|]. split; [exact Lb|]. unfold slot_of_rec. rewrite Pb, (norm_mut_wf _ Hl).
  destruct (N.eqb_spec (l_owner l) 0); [congruence|reflexivity].
Qed.

Lemma write_slot_written maxsz c i l' : wf maxsz c -> i <= 4 + c_nx c -> (i = 4 + c_nx c -> c_nx c + 1 < 2 ^ 32) ->
  lease_wf l' -> l_owner l' <> 0 ->
  written maxsz c i l' (write_lease_record (flat c) i (ser_mutable l')).
Proof.
  intros Hw Hi Hn Hl Ho. destruct (slot_of_ser l' Hl Ho) as (b & Es & Lb & Sb). rewrite Es.
  destruct (write_record_flat maxsz c i b Hw Hi Hn Lb) as (c' & E & Hw' & Hsd & Enx & Hrec).
  exists c'. split; [exact E|]. split; [exact Hw'|]. split; [exact Hsd|]. split; [exact Enx|].
  intros j Hj. unfold slot, upd. rewrite (Hrec j Hj). destruct (j =? i); [exact Sb|reflexivity].
Qed.

Lemma enumL_ext h h' L : (forall j, In j L -> h' j = h j) -> enumL h' L = enumL h L.
Proof.
  induction L as [|j r IH]; intro He; [reflexivity|]. cbn [enumL flat_map]. fold (enumL h' r). fold (enumL h r).
  rewrite (He j (or_introl eq_refl)), IH by (intros; apply He; right; assumption). reflexivity.
Qed.

Lemma nseq_succ n : nseq (n + 1) = nseq n ++ [n].
Proof.
  unfold nseq. replace (N.to_nat (n + 1)) with (N.to_nat n + 1)%nat by lia.
  rewrite seq_app, map_app. cbn. f_equal. f_equal. lia.
Qed.

(* ---- scanning for the secret ---------------------------------------------------------------------------- *)
Section WithHash.
Variable H : list N -> list N.

Lemma renew_scan_find v f ls s t :
  renew_scan H v f ls s t =
  match first_match H v ls s with
  | None => Raised f EIndex
  | Some (i, l) => if l_expire l <? t then write_lease_record f i (ser_mutable (set_expire l t)) else Done f
  end.
Proof.
  induction ls as [|[i l] r IH]; [reflexivity|]. unfold first_match in *. cbn [renew_scan find snd].
  destruct (is_renew_secret H v l s); [reflexivity|exact IH].
Qed.

Lemma first_match_none {A} v (ls : list (A * lease)) s :
  first_match H v ls s = None <-> no_match H v (map snd ls) s = true.
Proof.
  unfold first_match, no_match. induction ls as [|[i l] r IH]; [cbn; tauto|].
  cbn [find map forallb snd]. destruct (is_renew_secret H v l s); cbn [negb andb]; [split; discriminate|exact IH].
Qed.

Lemma first_match_in {A} v (ls : list (A * lease)) s i l :
  first_match H v ls s = Some (i, l) -> In (i, l) ls /\ is_renew_secret H v l s = true.
Proof. unfold first_match. intro Hf. apply find_some in Hf. exact Hf. Qed.

(* ---- renew_lease ------------------------------------------------------------------------------------------ *)
Lemma mut_renew_flat maxsz v c s t : wf maxsz c -> bytes_ok (flat c) -> t < 2 ^ 32 ->
  match first_match H v (enumL (slot c) (nseq (4 + c_nx c))) s with
  | None => mut_renew_lease H v (flat c) s t = Raised (flat c) EIndex
  | Some (i, l) =>
      i < 4 + c_nx c /\ slot c i = Some l /\
      if l_expire l <? t then written maxsz c i (set_expire l t) (mut_renew_lease H v (flat c) s t)
      else mut_renew_lease H v (flat c) s t = Done (flat c)
  end.
Proof.
  intros Hw Hb Ht. unfold mut_renew_lease. rewrite (mut_enumerate_flat maxsz c Hw).
  rewrite renew_scan_find. destruct (first_match H v _ s) as [[i l]|] eqn:Ef; [|reflexivity].
  apply first_match_in in Ef. destruct Ef as [Hin _]. apply in_enumL in Hin. destruct Hin as [Hi Hs].
  apply in_nseq in Hi. split; [exact Hi|]. split; [exact Hs|].
  destruct (N.ltb_spec (l_expire l) t); [|reflexivity].
  pose proof (slot_bytes maxsz c i l Hw Hb Hi Hs) as Hl.
  apply write_slot_written; auto; try lia.
  - apply set_expire_wf; assumption.
  - cbn. apply (slot_owner c i). exact Hs.
Qed.

(* ---- add_lease ---------------------------------------------------------------------------------------------- *)
Lemma find_empty_spec (h : N -> option lease) (L : list N) i :
  find (fun i => match h i with None => true | Some _ => false end) L = Some i -> In i L /\ h i = None.
Proof. intro Hf. apply find_some in Hf. destruct Hf as [Hi Hh]. split; [assumption|]. destruct (h i); [discriminate|reflexivity]. Qed.

Lemma write_record_overflow maxsz c r : wf maxsz c -> 2 ^ 32 <= c_nx c + 1 ->
  write_lease_record (flat c) (4 + c_nx c) r = Raised (flat c) EStruct.
Proof.
  intros Hw Hn. unfold write_lease_record. rewrite (read_elo_flat _ _ Hw), (read_nx_flat _ _ Hw). consts.
  destruct (N.ltb_spec (4 + c_nx c) 4); [lia|]. destruct (N.ltb_spec (4 + c_nx c - 4) (c_nx c)); [lia|].
  unfold write_num_extra_leases. rewrite (read_elo_flat _ _ Hw). unfold pack_be.
  change (256 ^ N.of_nat 4) with (2 ^ 32). destruct (N.ltb_spec (c_nx c + 1) (2 ^ 32)); [lia|reflexivity].
Qed.

Lemma mut_add_flat maxsz v c avail li : wf maxsz c ->
  lease_wf (stored_form H v li) -> l_owner li <> 0 ->
  exists i, i <= 4 + c_nx c /\ (i < 4 + c_nx c -> slot c i = None) /\
            (written maxsz c i (stored_form H v li) (mut_add_lease H v (flat c) avail li)
             \/ exists e, mut_add_lease H v (flat c) avail li = Raised (flat c) e).
Proof.
  intros Hw Hl Ho.
  assert (Hso : l_owner (stored_form H v li) <> 0) by (destruct v; exact Ho).
  unfold mut_add_lease. destruct (N.eqb_spec (l_owner li) 0); [congruence|].
  unfold num_lease_slots. rewrite (read_nx_flat _ _ Hw). consts.
  rewrite (first_empty_flat maxsz) by (auto; intros i Hi; apply in_nseq; exact Hi).
  destruct (find _ (nseq (4 + c_nx c))) as [i|] eqn:Ef.
  - apply find_empty_spec in Ef. destruct Ef as [Hi Hnone]. apply in_nseq in Hi.
    exists i. split; [lia|]. split; [auto|]. left. apply write_slot_written; auto; lia.
  - exists (4 + c_nx c). split; [lia|]. split; [lia|].
    destruct (avail <? 92); [right; eexists; reflexivity|].
    destruct (N.ltb_spec (c_nx c + 1) (2 ^ 32)) as [Hn|Hn].
    + left. apply write_slot_written; auto. lia.
    + right. exists EStruct. apply (write_record_overflow maxsz); assumption.
Qed.

(* ---- what `written` means for the enumeration ------------------------------------------------------------------ *)
Lemma written_enum_update maxsz c i l l' o : wf maxsz c -> i < 4 + c_nx c -> slot c i = Some l ->
  written maxsz c i l' o ->
  exists c', o = Done (flat c') /\ wf maxsz c' /\ same_data c c' /\
    mut_enumerate (flat c') = Ok (map (fun il => if fst il =? i then (i, l') else il) (enumL (slot c) (nseq (4 + c_nx c)))).
Proof.
  intros Hw Hi Hs (c' & E & Hw' & Hsd & Enx & Hsl). exists c'. split; [exact E|]. split; [exact Hw'|]. split; [exact Hsd|].
  rewrite (mut_enumerate_flat maxsz c' Hw'). destruct (N.eqb_spec i (4 + c_nx c)); [lia|]. rewrite Enx. f_equal.
  rewrite (enumL_ext (upd (slot c) i (Some l')) (slot c')).
  - apply (enumL_update _ _ _ i l l'); auto.
    + unfold upd. rewrite N.eqb_refl. reflexivity.
    + intros j Hj. unfold upd. destruct (N.eqb_spec j i); [congruence|reflexivity].
  - intros j Hj. apply in_nseq in Hj. apply Hsl. lia.
Qed.

Lemma written_enum_incl maxsz c i l' o : wf maxsz c -> i <= 4 + c_nx c -> (i < 4 + c_nx c -> slot c i = None) ->
  written maxsz c i l' o ->
  exists c', o = Done (flat c') /\ wf maxsz c' /\ same_data c c' /\
    forall j l, In (j, l) (enumL (slot c) (nseq (4 + c_nx c))) -> In (j, l) (enumL (slot c') (nseq (4 + c_nx c'))).
Proof.
  intros Hw Hi Hnone (c' & E & Hw' & Hsd & Enx & Hsl). exists c'. split; [exact E|]. split; [exact Hw'|]. split; [exact Hsd|].
  intros j l Hin. apply in_enumL in Hin. destruct Hin as [Hj Hs]. apply in_nseq in Hj.
  apply in_enumL. assert (Hj' : j < 4 + c_nx c') by (rewrite Enx; destruct (i =? 4 + c_nx c); lia).
  split; [apply in_nseq_iff; exact Hj'|]. rewrite (Hsl j Hj'). unfold upd.
  destruct (N.eqb_spec j i) as [->|]; [|exact Hs].
  rewrite Hnone in Hs by exact Hj. discriminate.
Qed.

End WithHash.
