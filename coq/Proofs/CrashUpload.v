(* C29: one immutable upload (allocate, writes, close) under a crash at any
   point: the share is absent after the restart, or it is the incoming file as
   it was when close() renamed it -- and that file holds what the uploader wrote. *)
From Coq Require Import List Arith NArith Bool Lia.
From Verif Require Import Lib.Hex Lib.FileSys Model.Crash
  Proofs.CrashBytes Proofs.CrashImm Proofs.CrashMut Proofs.Crash.
Import ListNotations.
Local Open Scope N_scope.

Lemma run_fops_app a b f : run_fops (a ++ b) f = run_fops b (run_fops a f).
Proof. unfold run_fops. apply fold_left_app. Qed.

Lemma upload_absent_or_complete_proof si sh size rec writes s pre :
  s (Final si sh) = None ->
  In pre (crash_prefixes (upload_ops si sh size rec writes)) ->
  let s' := recover (run_p pre s) in
  s' (Final si sh) = None \/ s' (Final si sh) = Some (file_at_close size rec writes).
Proof.
  intros Habs Hpre s'. subst s'. change (recover ?x (Final si sh)) with (x (Final si sh)).
  set (I := Incoming si sh). set (F := Final si sh).
  set (fops := imm_create_fops size rec ++ upload_write_fops size writes).
  set (A := Create I :: map (lift I) fops).
  assert (EA : upload_ops si sh size rec writes = A ++ [Rename I F]) by reflexivity.
  rewrite EA in Hpre. apply crash_prefixes_spec in Hpre. destruct Hpre as [k [Hk ->]].
  assert (HA : forall j, run_p (firstn j A) s F = None).
  { intro j. rewrite run_p_untouched; [exact Habs|].
    intros x Hx Hin. apply In_firstn in Hx. destruct Hx as [<-|Hx].
    - destruct Hin as [E|[]]. discriminate E.
    - apply in_map_iff in Hx. destruct Hx as [z [<- _]]. rewrite lift_targets in Hin.
      destruct Hin as [E|[]]. discriminate E. }
  rewrite firstn_app.
  destruct (Nat.le_gt_cases k (length A)) as [Hle|Hgt].
  - left. replace (k - length A)%nat with 0%nat by lia. cbn [firstn]. rewrite app_nil_r. apply HA.
  - right. rewrite firstn_all2 by lia.
    replace (firstn (k - length A) [Rename I F]) with [Rename I F]
      by (destruct (k - length A)%nat as [|m] eqn:E; [lia|destruct m; reflexivity]).
    rewrite run_p_app.
    assert (HI : run_p A s I = Some (file_at_close size rec writes)).
    { unfold A. unfold run_p. rewrite run_cons. apply run_lift_same; [exact path_eqb_eq|].
      cbn [apply_op]. apply upd_same. exact path_eqb_eq. }
    unfold run_p at 1. cbn [run fold_left apply_op]. fold (run_p A s). rewrite HI.
    apply upd_same. exact path_eqb_eq.
Qed.

(* the call list above is the call list of the server operations *)
Lemma upload_write_ops_eq si sh size writes : forall s,
  sops_ops (map (fun w => ImmWrite si sh size (fst w) (snd w)) writes ++ [ImmClose si sh]) s
  = map (lift (Incoming si sh)) (upload_write_fops size writes)
    ++ [Rename (Incoming si sh) (Final si sh)].
Proof.
  induction writes as [|[off d] writes IH]; intro s; [reflexivity|].
  cbn [map app sops_ops upload_write_fops flat_map fst snd]. rewrite IH.
  unfold plain_ops. cbn [ops_of]. destruct (off + flen d <=? size); reflexivity.
Qed.

Lemma upload_ops_are_the_server_operations si sh size rec writes s :
  s (Final si sh) = None -> s (Incoming si sh) = None ->
  sops_ops (upload_sops si sh size rec writes) s = upload_ops si sh size rec writes.
Proof.
  intros HF HI. unfold upload_sops, upload_ops. cbn [sops_ops]. rewrite upload_write_ops_eq.
  unfold plain_ops at 1. cbn [ops_of existing filter all_existing forallb map app seq_steps].
  unfold alloc_step at 1. unfold exists_at. rewrite HF, HI. cbn [orb].
  rewrite app_nil_r, map_fst_unflagged. unfold imm_create_ops.
  rewrite map_app, <- app_assoc. reflexivity.
Qed.

(* -------------------------------------------- what the file at close holds *)
Lemma imm_header_length size : length (imm_header size) = 12%nat.
Proof. unfold imm_header. rewrite !app_length, !enc_length. reflexivity. Qed.

Definition closed_header (size : N) : list N := write_at (imm_header size) 8 (enc 4 1).

Lemma closed_header_length size : length (closed_header size) = 12%nat.
Proof.
  unfold closed_header. rewrite write_at_length_inside; [apply imm_header_length|].
  rewrite imm_header_length, enc_length. reflexivity.
Qed.

Lemma created_file size rec :
  rec <> [] ->
  run_fops (imm_create_fops size rec) [] = closed_header size ++ zeros size ++ rec.
Proof.
  intro Hrec. unfold imm_create_fops, run_fops. cbn [fold_left apply_fop].
  assert (E1 : write_at [] 0 (imm_header size) = imm_header size).
  { change 0 with (flen []). rewrite write_at_end. reflexivity. }
  rewrite E1.
  assert (E2 : write_at (imm_header size) (size + 12) rec = imm_header size ++ zeros size ++ rec).
  { destruct rec as [|b rec]; [congruence|]. rewrite write_at_cons.
    rewrite firstn_all2 by (rewrite imm_header_length; lia).
    rewrite skipn_all2 by (rewrite imm_header_length; lia).
    unfold flen. rewrite imm_header_length, app_nil_r.
    replace (size + 12 - N.of_nat 12) with size by lia. reflexivity. }
  rewrite E2. unfold closed_header. apply write_at_app_left.
  rewrite imm_header_length, enc_length. reflexivity.
Qed.

Lemma written_file size rec writes : forall h d,
  length h = 12%nat -> length d = N.to_nat size ->
  run_fops (upload_write_fops size writes) (h ++ d ++ rec)
  = h ++ fold_left (fun d w => if fst w + flen (snd w) <=? size
                               then write_at d (fst w) (snd w) else d) writes d ++ rec.
Proof.
  induction writes as [|[off bs] writes IH]; intros h d Hh Hd; [reflexivity|].
  cbn [upload_write_fops flat_map fst snd fold_left].
  destruct (off + flen bs <=? size) eqn:E.
  - apply N.leb_le in E. rewrite run_fops_app. unfold run_fops at 2. cbn [fold_left apply_fop].
    assert (Hin : (N.to_nat off + length bs <= length d)%nat) by (unfold flen in E; lia).
    replace (12 + off) with (N.of_nat (length h) + off) by (rewrite Hh; reflexivity).
    rewrite write_at_app_mid by exact Hin.
    apply IH; [exact Hh|]. rewrite write_at_length_inside by exact Hin. exact Hd.
  - cbn [app]. apply IH; assumption.
Qed.

Lemma written_data_length size writes : forall d,
  length d = N.to_nat size ->
  length (fold_left (fun d w => if fst w + flen (snd w) <=? size
                                then write_at d (fst w) (snd w) else d) writes d) = N.to_nat size.
Proof.
  induction writes as [|[off bs] writes IH]; intros d Hd; [exact Hd|].
  cbn [fold_left fst snd]. apply IH. destruct (off + flen bs <=? size) eqn:E; [|exact Hd].
  apply N.leb_le in E. rewrite write_at_length_inside; [exact Hd|]. unfold flen in E. lia.
Qed.

Lemma sub_mid h d r :
  sub (N.of_nat (length h)) (N.of_nat (length d)) (h ++ d ++ r) = d.
Proof.
  apply nth_error_ext. intro i. rewrite nth_error_sub, !Nat2N.id, !nth_error_app'.
  ltb_cases; try lia.
  - f_equal. lia.
  - symmetry. apply nth_error_beyond. lia.
Qed.

Lemma skipn_two h d (r : list N) : skipn (length h + length d) (h ++ d ++ r) = r.
Proof.
  rewrite app_assoc. rewrite skipn_app.
  rewrite skipn_all2 by (rewrite app_length; lia).
  rewrite app_length. replace (length h + length d - (length h + length d))%nat with 0%nat by lia.
  reflexivity.
Qed.

Lemma chunks_one (rec : list N) : length rec = 72%nat -> chunks (length rec) 72 rec = [rec].
Proof.
  intro H. rewrite H. destruct rec as [|b rec]; [discriminate|].
  cbn [chunks]. rewrite firstn_all2 by lia. rewrite skipn_all2 by lia. reflexivity.
Qed.

Lemma closed_file_view size rec d :
  length rec = 72%nat -> length d = N.to_nat size ->
  view_of (Some (closed_header size ++ d ++ rec)) = VImm d [rec].
Proof.
  intros Hrec Hd. set (h := closed_header size). set (f := h ++ d ++ rec).
  assert (Hh : length h = 12%nat) by apply closed_header_length.
  assert (Hf : flen f = 12 + size + 72).
  { unfold f, flen. rewrite !app_length, Hh, Hd, Hrec. lia. }
  assert (Hv : sub 0 4 f = enc 4 2).
  { unfold f. rewrite sub_app_left by (rewrite Hh; simpl; lia).
    unfold h, closed_header. rewrite sub_write_at_before.
    - unfold imm_header. rewrite sub_app_left by (rewrite enc_length; simpl; lia).
      reflexivity.
    - simpl; lia.
    - rewrite imm_header_length. simpl; lia. }
  assert (Hc : sub 8 4 f = enc 4 1).
  { unfold f. rewrite sub_app_left by (rewrite Hh; simpl; lia).
    unfold h, closed_header. change 4 with (flen (enc 4 1)). apply sub_write_at_same. }
  assert (Hver : imm_version_ok f = true) by (unfold imm_version_ok, imm_version; rewrite Hv; reflexivity).
  assert (Hcnt : imm_count f = 1) by (unfold imm_count; rewrite Hc; reflexivity).
  assert (Hlo : imm_lease_offset f = 12 + size) by (unfold imm_lease_offset; rewrite Hf, Hcnt; lia).
  assert (Hwf : imm_wf f = true).
  { unfold imm_wf. rewrite Hf, Hcnt, Hver, !andb_true_iff, !N.leb_le. repeat split; lia. }
  unfold view_of. rewrite (version_not_magic f Hver), Hwf. f_equal.
  - unfold imm_data. rewrite Hlo. replace (12 + size - 12) with (N.of_nat (length d)) by lia.
    replace 12 with (N.of_nat (length h)) by (rewrite Hh; reflexivity). apply sub_mid.
  - unfold imm_leases. rewrite Hlo.
    replace (N.to_nat (12 + size)) with (length h + length d)%nat by lia.
    unfold f. rewrite skipn_two. apply chunks_one. exact Hrec.
Qed.

(* the file close() renames is a well-formed share holding exactly what the
   uploader wrote (unwritten ranges read as zeros) and the upload's lease *)
Lemma file_at_close_complete_proof size rec writes :
  length rec = 72%nat ->
  view_of (Some (file_at_close size rec writes)) = VImm (written_data size writes) [rec].
Proof.
  intro Hrec. unfold file_at_close. rewrite run_fops_app.
  rewrite created_file by (destruct rec; [discriminate|discriminate]).
  rewrite written_file; [|apply closed_header_length|apply zeros_length].
  apply closed_file_view; [exact Hrec|].
  apply written_data_length. apply zeros_length.
Qed.

(* ------------------------------ the same upload over the HTTP protocol ----- *)
(* `covered` means what it says: every byte position of the share lies in one
   of the ranges *)
Lemma covered_spec size ranges :
  covered size ranges = true <->
  forall i, i < size -> exists r, In r ranges /\ fst r <= i /\ i < fst r + snd r.
Proof.
  unfold covered. rewrite forallb_forall. split.
  - intros H i Hi. specialize (H i).
    assert (Hin : In i (map N.of_nat (seq 0 (N.to_nat size)))).
    { apply in_map_iff. exists (N.to_nat i). split; [apply N2Nat.id|]. apply in_seq. lia. }
    apply H in Hin. apply existsb_exists in Hin. destruct Hin as [r [Hr Hb]].
    unfold in_range in Hb. apply andb_true_iff in Hb. destruct Hb as [H1 H2].
    apply N.leb_le in H1. apply N.ltb_lt in H2. exists r. auto.
  - intros H i Hi. apply in_map_iff in Hi. destruct Hi as [j [<- Hj]]. apply in_seq in Hj.
    destruct (H (N.of_nat j)) as [r [Hr [H1 H2]]]; [lia|].
    apply existsb_exists. exists r. split; [exact Hr|].
    unfold in_range. apply andb_true_iff. split; [apply N.leb_le|apply N.ltb_lt]; assumption.
Qed.

Lemma write_ranges_cons_ok size w r :
  (fst w + flen (snd w) <=? size) = true ->
  write_ranges size (w :: r) = write_ranges size r ++ [(fst w, flen (snd w))].
Proof. intro H. unfold write_ranges. cbn [flat_map]. rewrite H. cbn [app]. reflexivity. Qed.

Lemma write_ranges_cons_bad size w r :
  (fst w + flen (snd w) <=? size) = false -> write_ranges size (w :: r) = write_ranges size r.
Proof. intro H. unfold write_ranges. cbn [flat_map]. rewrite H. reflexivity. Qed.

Lemma http_write_ops_shape si sh size writes : forall prev,
  (exists m, http_write_ops si sh size prev writes
             = map (lift (Incoming si sh)) (upload_write_fops size (firstn m writes))
               ++ [Rename (Incoming si sh) (Final si sh)]
             /\ covered size (write_ranges size (firstn m writes) ++ prev) = true)
  \/ http_write_ops si sh size prev writes
     = map (lift (Incoming si sh)) (upload_write_fops size writes).
Proof.
  induction writes as [|w r IH]; intro prev; [right; reflexivity|].
  cbn [http_write_ops]. destruct (fst w + flen (snd w) <=? size) eqn:E.
  - destruct (covered size ((fst w, flen (snd w)) :: prev)) eqn:C.
    + left. exists 1%nat. cbn [firstn upload_write_fops flat_map]. rewrite E. cbn [app map lift].
      split; [reflexivity|]. rewrite write_ranges_cons_ok by exact E. exact C.
    + destruct (IH ((fst w, flen (snd w)) :: prev)) as [[m [H1 H2]]|H].
      * left. exists (S m). cbn [firstn upload_write_fops flat_map]. rewrite E. cbn [app map lift].
        split; [rewrite H1; reflexivity|].
        rewrite write_ranges_cons_ok by exact E. rewrite <- app_assoc. exact H2.
      * right. cbn [upload_write_fops flat_map]. rewrite E. cbn [app map lift]. rewrite H. reflexivity.
  - destruct (IH prev) as [[m [H1 H2]]|H].
    + left. exists (S m). cbn [firstn upload_write_fops flat_map]. rewrite E. cbn [app].
      split; [exact H1|]. rewrite write_ranges_cons_bad by exact E. exact H2.
    + right. cbn [upload_write_fops flat_map]. rewrite E. cbn [app]. exact H.
Qed.

(* over HTTP a share becomes visible only through the write that completes it:
   after any crash + restart it is absent, or it holds the data of writes whose
   ranges cover every byte of the share *)
Lemma http_upload_absent_or_byte_complete_proof si sh size rec writes s pre :
  s (Final si sh) = None -> length rec = 72%nat ->
  In pre (crash_prefixes (http_upload_ops si sh size rec writes)) ->
  let s' := recover (run_p pre s) in
  s' (Final si sh) = None \/
  exists m, covered size (write_ranges size (firstn m writes)) = true /\
            s' (Final si sh) = Some (file_at_close size rec (firstn m writes)) /\
            view_of (s' (Final si sh)) = VImm (written_data size (firstn m writes)) [rec].
Proof.
  intros Habs Hrec Hpre s'. unfold http_upload_ops in Hpre.
  destruct (http_write_ops_shape si sh size writes []) as [[m [H1 H2]]|H].
  - rewrite app_nil_r in H2.
    assert (E : imm_create_ops (Incoming si sh) size rec ++ http_write_ops si sh size [] writes
                = upload_ops si sh size rec (firstn m writes)).
    { rewrite H1. unfold upload_ops, imm_create_ops. rewrite map_app, <- app_assoc. reflexivity. }
    rewrite E in Hpre.
    destruct (upload_absent_or_complete_proof si sh size rec (firstn m writes) s pre Habs Hpre) as [A|A].
    + left. exact A.
    + right. exists m. split; [exact H2|]. split; [exact A|].
      fold s'. unfold s'. rewrite A. apply file_at_close_complete_proof. exact Hrec.
  - left. subst s'. change (recover ?x (Final si sh)) with (x (Final si sh)).
    apply crash_prefixes_spec in Hpre. destruct Hpre as [k [_ ->]].
    rewrite run_p_untouched; [exact Habs|].
    intros x Hx Hin. apply In_firstn in Hx. apply in_app_or in Hx. destruct Hx as [Hx|Hx].
    + unfold imm_create_ops in Hx. destruct Hx as [<-|Hx].
      * destruct Hin as [X|[]]. discriminate X.
      * apply in_map_iff in Hx. destruct Hx as [z [<- _]]. rewrite lift_targets in Hin.
        destruct Hin as [X|[]]. discriminate X.
    + rewrite H in Hx. apply in_map_iff in Hx. destruct Hx as [z [<- _]]. rewrite lift_targets in Hin.
      destruct Hin as [X|[]]. discriminate X.
Qed.

Lemma http_sops_ops si sh size writes : forall prev s,
  sops_ops (http_sops si sh size prev writes) s = http_write_ops si sh size prev writes.
Proof.
  induction writes as [|w r IH]; intros prev s; [reflexivity|].
  cbn [http_sops sops_ops http_write_ops]. unfold plain_ops at 1. cbn [ops_of].
  destruct (fst w + flen (snd w) <=? size).
  - destruct (covered size ((fst w, flen (snd w)) :: prev)).
    + reflexivity.
    + cbn [map fst app]. f_equal. apply IH.
  - cbn [map app]. apply IH.
Qed.

Lemma http_upload_ops_are_the_server_operations si sh size rec writes s :
  s (Final si sh) = None -> s (Incoming si sh) = None ->
  sops_ops (ImmAllocate si [] [sh] size rec true :: http_sops si sh size [] writes) s
  = http_upload_ops si sh size rec writes.
Proof.
  intros HF HI. cbn [sops_ops]. rewrite http_sops_ops. unfold http_upload_ops. f_equal.
  unfold plain_ops. cbn [ops_of existing filter all_existing forallb map app seq_steps].
  unfold alloc_step at 1. unfold exists_at. rewrite HF, HI. cbn [orb].
  rewrite app_nil_r. apply map_fst_unflagged.
Qed.
