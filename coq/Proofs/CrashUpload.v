(* C29: one immutable upload (allocate, writes, close) under a crash at any
   point: the share is absent after the restart, or it is the incoming file as
   it was when close() renamed it -- and that file holds what the uploader wrote. *)
From Coq Require Import List Arith NArith Bool Lia.
From Verif Require Import Lib.Hex Lib.FileSys Model.Crash
  Proofs.CrashBytes Proofs.CrashImm Proofs.CrashMut Proofs.Crash.
Import ListNotations.
Local Open Scope N_scope.

Lemma run_fops_app a b f : run_fops (a ++ b) f = run_fops b (run_fops a f).
Proof. unfold run_fops. apply fold_left_app. Qed.

Lemma upload_absent_or_complete_proof si sh size rec writes s pre :
  s (Final si sh) = None ->
  In pre (crash_prefixes (upload_ops si sh size rec writes)) ->
  let s' := recover (run_p pre s) in
  s' (Final si sh) = None \/ s' (Final si sh) = Some (file_at_close size rec writes).
Proof.
  intros Habs Hpre s'. subst s'. change (recover ?x (Final si sh)) with (x (Final si sh)).
  set (I := Incoming si sh). set (F := Final si sh).
  set (fops := imm_create_fops size rec ++ upload_write_fops size writes).
  set (A := Create I :: map (lift I) fops).
  assert (EA : upload_ops si sh size rec writes = A ++ [Rename I F]) by reflexivity.
  rewrite EA in Hpre. apply crash_prefixes_spec in Hpre. destruct Hpre as [k [Hk ->]].
  assert (HA : forall j, run_p (firstn j A) s F = None).
  { intro j. rewrite run_p_untouched; [exact Habs|].
    intros x Hx Hin. apply In_firstn in Hx. destruct Hx as [<-|Hx].
    - destruct Hin as [E|[]]. discriminate E.
    - apply in_map_iff in Hx. destruct Hx as [z [<- _]]. rewrite lift_targets in Hin.
      destruct Hin as [E|[]]. discriminate E. }
  rewrite firstn_app.
  destruct (Nat.le_gt_cases k (length A)) as [Hle|Hgt].
  - left. replace (k - length A)%nat with 0%nat by lia. cbn [firstn]. rewrite app_nil_r. apply HA.
  - right. rewrite firstn_all2 by lia.
    replace (firstn (k - length A) [Rename I F]) with [Rename I F]
      by (destruct (k - length A)%nat as [|m] eqn:E; [lia|destruct m; reflexivity]).
    rewrite run_p_app.
    assert (HI : run_p A s I = Some (file_at_close size rec writes)).
    { unfold A. unfold run_p. rewrite run_cons. apply run_lift_same; [exact path_eqb_eq|].
      cbn [apply_op]. apply upd_same. exact path_eqb_eq. }
    unfold run_p at 1. cbn [run fold_left apply_op]. fold (run_p A s). rewrite HI.
    apply upd_same. exact path_eqb_eq.
Qed.

(* the call list above is the call list of the server operations *)
Lemma upload_write_ops_eq si sh size writes : forall s,
  sops_ops (map (fun w => ImmWrite si sh size (fst w) (snd w)) writes ++ [ImmClose si sh]) s
  = map (lift (Incoming si sh)) (upload_write_fops size writes)
    ++ [Rename (Incoming si sh) (Final si sh)].
Proof.
  induction writes as [|[off d] writes IH]; intro s; [reflexivity|].
  cbn [map app sops_ops upload_write_fops flat_map fst snd]. rewrite IH.
  unfold plain_ops. cbn [ops_of]. destruct (off + flen d <=? size); reflexivity.
Qed.

Lemma upload_ops_are_the_server_operations si sh size rec writes s :
  s (Final si sh) = None -> s (Incoming si sh) = None ->
  sops_ops (upload_sops si sh size rec writes) s = upload_ops si sh size rec writes.
Proof.
  intros HF HI. unfold upload_sops, upload_ops. cbn [sops_ops]. rewrite upload_write_ops_eq.
  unfold plain_ops at 1. cbn [ops_of existing filter all_existing forallb map app seq_steps].
  unfold alloc_step at 1. unfold exists_at. rewrite HF, HI. cbn [orb].
  rewrite app_nil_r, map_fst_unflagged. unfold imm_create_ops.
  rewrite map_app, <- app_assoc. reflexivity.
Qed.

(* -------------------------------------------- what the file at close holds *)
Lemma imm_header_length size : length (imm_header size) = 12%nat.
Proof. unfold imm_header. rewrite !app_length, !enc_length. reflexivity. Qed.

Definition closed_header (size : N) : list N := write_at (imm_header size) 8 (enc 4 1).

Lemma closed_header_length size : length (closed_header size) = 12%nat.
Proof.
  unfold closed_header. rewrite write_at_length_inside; [apply imm_header_length|].
  rewrite imm_header_length, enc_length. reflexivity.
Qed.

Lemma created_file size rec :
  rec <> [] ->
  run_fops (imm_create_fops size rec) [] = closed_header size ++ zeros size ++ rec.
Proof.
  intro Hrec. unfold imm_create_fops, run_fops. cbn [fold_left apply_fop].
  assert (E1 : write_at [] 0 (imm_header size) = imm_header size).
  { change 0 with (flen []). rewrite write_at_end. reflexivity. }
  rewrite E1.
  assert (E2 : write_at (imm_header size) (size + 12) rec = imm_header size ++ zeros size ++ rec).
  { destruct rec as [|b rec]; [congruence|]. rewrite write_at_cons.
    rewrite firstn_all2 by (rewrite imm_header_length; lia).
    rewrite skipn_all2 by (rewrite imm_header_length; lia).
    unfold flen. rewrite imm_header_length, app_nil_r.
    replace (size + 12 - N.of_nat 12) with size by lia. reflexivity. }
  rewrite E2. unfold closed_header. apply write_at_app_left.
  rewrite imm_header_length, enc_length. reflexivity.
Qed.

Lemma written_file size rec writes : forall h d,
  length h = 12%nat -> length d = N.to_nat size ->
  run_fops (upload_write_fops size writes) (h ++ d ++ rec)
  = h ++ fold_left (fun d w => if fst w + flen (snd w) <=? size
                               then write_at d (fst w) (snd w) else d) writes d ++ rec.
Proof.
  induction writes as [|[off bs] writes IH]; intros h d Hh Hd; [reflexivity|].
  cbn [upload_write_fops flat_map fst snd fold_left].
  destruct (off + flen bs <=? size) eqn:E.
  - apply N.leb_le in E. rewrite run_fops_app. unfold run_fops at 2. cbn [fold_left apply_fop].
    assert (Hin : (N.to_nat off + length bs <= length d)%nat) by (unfold flen in E; lia).
    replace (12 + off) with (N.of_nat (length h) + off) by (rewrite Hh; reflexivity).
    rewrite write_at_app_mid by exact Hin.
    apply IH; [exact Hh|]. rewrite write_at_length_inside by exact Hin. exact Hd.
  - cbn [app]. apply IH; assumption.
Qed.

Lemma written_data_length size writes : forall d,
  length d = N.to_nat size ->
  length (fold_left (fun d w => if fst w + flen (snd w) <=? size
                                then write_at d (fst w) (snd w) else d) writes d) = N.to_nat size.
Proof.
  induction writes as [|[off bs] writes IH]; intros d Hd; [exact Hd|].
  cbn [fold_left fst snd]. apply IH. destruct (off + flen bs <=? size) eqn:E; [|exact Hd].
  apply N.leb_le in E. rewrite write_at_length_inside; [exact Hd|]. unfold flen in E. lia.
Qed.

Lemma sub_mid h d r :
  sub (N.of_nat (length h)) (N.of_nat (length d)) (h ++ d ++ r) = d.
Proof.
  apply nth_error_ext. intro i. rewrite nth_error_sub, !Nat2N.id, !nth_error_app'.
  ltb_cases; try lia.
  - f_equal. lia.
  - symmetry. apply nth_error_beyond. lia.
Qed.

Lemma skipn_two h d (r : list N) : skipn (length h + length d) (h ++ d ++ r) = r.
Proof.
  rewrite app_assoc. rewrite skipn_app.
  rewrite skipn_all2 by (rewrite app_length; lia).
  rewrite app_length. replace (length h + length d - (length h + length d))%nat with 0%nat by lia.
  reflexivity.
Qed.

Lemma chunks_one (rec : list N) : length rec = 72%nat -> chunks (length rec) 72 rec = [rec].
Proof.
  intro H. rewrite H. destruct rec as [|b rec]; [discriminate|].
  cbn [chunks]. rewrite firstn_all2 by lia. rewrite skipn_all2 by lia. reflexivity.
Qed.

Lemma closed_file_view size rec d :
  length rec = 72%nat -> length d = N.to_nat size ->
  view_of (Some (closed_header size ++ d ++ rec)) = VImm d [rec].
Proof.
  intros Hrec Hd. set (h := closed_header size). set (f := h ++ d ++ rec).
  assert (Hh : length h = 12%nat) by apply closed_header_length.
  assert (Hf : flen f = 12 + size + 72).
  { unfold f, flen. rewrite !app_length, Hh, Hd, Hrec. lia. }
  assert (Hv : sub 0 4 f = enc 4 2).
  { unfold f. rewrite sub_app_left by (rewrite Hh; simpl; lia).
    unfold h, closed_header. rewrite sub_write_at_before.
    - unfold imm_header. rewrite sub_app_left by (rewrite enc_length; simpl; lia).
      reflexivity.
    - simpl; lia.
    - rewrite imm_header_length. simpl; lia. }
  assert (Hc : sub 8 4 f = enc 4 1).
  { unfold f. rewrite sub_app_left by (rewrite Hh; simpl; lia).
    unfold h, closed_header. change 4 with (flen (enc 4 1)). apply sub_write_at_same. }
  assert (Hver : imm_version_ok f = true) by (unfold imm_version_ok, imm_version; rewrite Hv; reflexivity).
  assert (Hcnt : imm_count f = 1) by (unfold imm_count; rewrite Hc; reflexivity).
  assert (Hlo : imm_lease_offset f = 12 + size) by (unfold imm_lease_offset; rewrite Hf, Hcnt; lia).
  assert (Hwf : imm_wf f = true).
  { unfold imm_wf. rewrite Hf, Hcnt, Hver, !andb_true_iff, !N.leb_le. repeat split; lia. }
  unfold view_of. rewrite (version_not_magic f Hver), Hwf. f_equal.
  - unfold imm_data. rewrite Hlo. replace (12 + size - 12) with (N.of_nat (length d)) by lia.
    replace 12 with (N.of_nat (length h)) by (rewrite Hh; reflexivity). apply sub_mid.
  - unfold imm_leases. rewrite Hlo.
    replace (N.to_nat (12 + size)) with (length h + length d)%nat by lia.
    unfold f. rewrite skipn_two. apply chunks_one. exact Hrec.
Qed.

(* the file close() renames is a well-formed share holding exactly what the
   uploader wrote (unwritten ranges read as zeros) and the upload's lease *)
Lemma file_at_close_complete_proof size rec writes :
  length rec = 72%nat ->
  view_of (Some (file_at_close size rec writes)) = VImm (written_data size writes) [rec].
Proof.
  intro Hrec. unfold file_at_close. rewrite run_fops_app.
  rewrite created_file by (destruct rec; [discriminate|discriminate]).
  rewrite written_file; [|apply closed_header_length|apply zeros_length].
  apply closed_file_view; [exact Hrec|].
  apply written_data_length. apply zeros_length.
Qed.
