(* C40  Proofs about Model/Range.v: under the strictness precondition the model of
   FileDownloader.parse_range_header / render is the RFC 7233 rule. *)
From Coq Require Import List NArith ZArith Bool String Lia ZifyBool ZifyNat ZifyN.
From Verif Require Import Lib.Hex Lib.Decimal Lib.DecimalFacts Gen.PyUnicode Gen.WebRange Model.Range.
Import ListNotations.
Local Open Scope N_scope.
Local Open Scope bool_scope.

(* ------------------------------------------------------------------------ *)
(* generated constants                                                        *)
Lemma range_unit_ok : range_unit = bytes_of_string "bytes".
Proof. reflexivity. Qed.

Lemma statuses_ok : unsatisfiable_status = 416 /\ partial_status = 206.
Proof. split; reflexivity. Qed.

(* ------------------------------------------------------------------------ *)
(* int() restricted to 1*DIGIT                                               *)

Lemma int_agrees_spec p : int_agrees p = true -> py_int p = option_map Z.of_N (pos_value p).
Proof.
  unfold int_agrees. destruct (py_int p) as [z|]; destruct (pos_value p) as [k|]; cbn [option_map]; intro H;
    try discriminate; try reflexivity.
  apply Z.eqb_eq in H. congruence.
Qed.

(* ------------------------------------------------------------------------ *)
(* one element of the set                                                    *)

Definition to_zrange (filesize : Z) (r : range_spec) : Z * Z :=
  match r with
  | FromTo f l => (Z.of_N f, Z.of_N l)
  | From f => (Z.of_N f, filesize - 1)%Z
  | Suffix k => (filesize - Z.of_N k, filesize - 1)%Z
  end.

Lemma element_ok n e : element_strict e = true ->
  parse_range n (py_strip e) = option_map (to_zrange n) (rfc_spec (strip is_ows e)).
Proof.
  unfold element_strict. intro H. apply andb_prop in H. destruct H as [Hs H].
  apply list_N_eqb_eq in Hs. rewrite <- Hs. unfold parse_range, rfc_spec.
  destruct (split_once 45 (py_strip e)) as [[a b]|]; [|reflexivity].
  apply andb_prop in H. destruct H as [Ha Hb]. apply int_agrees_spec in Ha, Hb.
  destruct a as [|a0 a'].
  - rewrite Hb. destruct (pos_value b); reflexivity.
  - rewrite Ha. destruct (pos_value (a0 :: a')) as [f|]; cbn [option_map].
    + destruct b as [|b0 b']; [reflexivity|]. rewrite Hb. destruct (pos_value (b0 :: b')) as [l|]; cbn [option_map]; [|reflexivity].
      destruct (l <? f) eqn:E.
      * assert (Z.of_N l <? Z.of_N f = true)%Z as -> by lia. reflexivity.
      * assert (Z.of_N l <? Z.of_N f = false)%Z as -> by lia. reflexivity.
    + destruct b; reflexivity.
Qed.

Lemma traverse_ok n raw : forallb element_strict raw = true ->
  traverse (fun r => parse_range n (py_strip r)) raw =
  option_map (map (to_zrange n)) (traverse (fun e => rfc_spec (strip is_ows e)) raw).
Proof.
  induction raw as [|e r IH]; cbn [forallb traverse]; [reflexivity|]. intro H. apply andb_prop in H. destruct H as [He Hr].
  rewrite (element_ok n e He), (IH Hr).
  destruct (rfc_spec (strip is_ows e)); cbn [option_map]; [|reflexivity].
  destruct (traverse (fun e0 => rfc_spec (strip is_ows e0)) r); reflexivity.
Qed.

Lemma header_ok n h : range_strict h = true ->
  parse_range_header n h = option_map (map (to_zrange n)) (rfc_ranges h).
Proof.
  unfold range_strict, parse_range_header, rfc_ranges. destruct (split_once 61 h) as [[u set]|]; [|reflexivity].
  rewrite range_unit_ok. destruct (list_N_eqb u (bytes_of_string "bytes")); [|reflexivity].
  intro H. apply andb_prop in H. destruct H as [H H3]. apply andb_prop in H. destruct H as [H1 H2].
  rewrite H2, H3. cbn [andb]. apply traverse_ok. exact H1.
Qed.

(* ------------------------------------------------------------------------ *)
(* split_all never yields the empty list, so neither parser returns Some []  *)

Lemma split_all_nonempty sep s : split_all sep s <> [].
Proof.
  induction s as [|c r IH]; cbn; [discriminate|]. destruct (c =? sep); [discriminate|].
  destruct (split_all sep r); [congruence|discriminate].
Qed.

Lemma traverse_nonempty {A B} (f : A -> option B) l ys : l <> [] -> traverse f l = Some ys -> ys <> [].
Proof.
  destruct l as [|x r]; [congruence|]. intros _. cbn. destruct (f x); [|discriminate]. destruct (traverse f r); [|discriminate].
  intro H. inversion H. discriminate.
Qed.

Lemma rfc_ranges_nonempty h : rfc_ranges h <> Some [].
Proof.
  unfold rfc_ranges. destruct (split_once 61 h) as [[u set]|]; [|discriminate].
  destruct (_ && _ && _); [|discriminate]. intro H.
  apply (traverse_nonempty _ _ _ (split_all_nonempty 44 set) H). reflexivity.
Qed.

Lemma parse_range_header_nonempty n h : parse_range_header n h <> Some [].
Proof.
  unfold parse_range_header. destruct (split_once 61 h) as [[u set]|]; [|discriminate].
  destruct (list_N_eqb u range_unit); [|discriminate]. intro H.
  apply (traverse_nonempty _ _ _ (split_all_nonempty 44 set) H). reflexivity.
Qed.

(* ------------------------------------------------------------------------ *)
(* what rfc_spec produces is a valid spec (last >= first)                      *)

Definition spec_valid (r : range_spec) : Prop := match r with FromTo f l => f <= l | _ => True end.

Lemma rfc_spec_valid t r : rfc_spec t = Some r -> spec_valid r.
Proof.
  unfold rfc_spec. destruct (split_once 45 t) as [[a b]|]; [|discriminate].
  destruct a as [|a0 a'].
  - destruct (pos_value b); cbn; [|discriminate]. intro H. inversion H. exact I.
  - destruct b as [|b0 b'].
    + destruct (pos_value (a0 :: a')); cbn; [|discriminate]. intro H. inversion H. exact I.
    + destruct (pos_value (a0 :: a')) as [f|]; [|discriminate]. destruct (pos_value (b0 :: b')) as [l|]; [|discriminate].
      destruct (l <? f) eqn:E; [discriminate|]. intro H. inversion H. cbn. lia.
Qed.

Lemma traverse_forall {A B} (f : A -> option B) (P : B -> Prop) (Hf : forall x y, f x = Some y -> P y) l ys :
  traverse f l = Some ys -> Forall P ys.
Proof.
  revert ys. induction l as [|x r IH]; cbn; intros ys H.
  - inversion H. constructor.
  - destruct (f x) as [y|] eqn:E; [|discriminate]. destruct (traverse f r) as [ys'|]; [|discriminate].
    inversion H. constructor; [exact (Hf _ _ E)|apply IH; reflexivity].
Qed.

Lemma rfc_ranges_valid h rs : rfc_ranges h = Some rs -> Forall spec_valid rs.
Proof.
  unfold rfc_ranges. destruct (split_once 61 h) as [[u set]|]; [|discriminate].
  destruct (_ && _ && _); [|discriminate].
  apply traverse_forall. intros x y. apply rfc_spec_valid.
Qed.

(* ------------------------------------------------------------------------ *)
(* the decision                                                              *)

Lemma decZ_of_N k : decZ (Z.of_N k) = dec k.
Proof. unfold decZ. assert (Z.of_N k <? 0 = false)%Z as -> by lia. f_equal. lia. Qed.

(* what render does once parse_range_header returned (first, last) :: _ *)
Definition serve (m : method) (data : list N) (fl : Z * Z) : response :=
  let filesize := Z.of_nat (List.length data) in
  let first := Z.max 0 (fst fl) in
  if (filesize <=? first)%Z then
    mkResponse unsatisfiable_status (Some (bytes_of_string "bytes */" ++ decZ filesize))
               (N.of_nat (List.length unsatisfiable_text)) (wire_body m unsatisfiable_text)
  else
    let last := Z.min (filesize - 1) (snd fl) in
    let contentsize := (last - first + 1)%Z in
    mkResponse partial_status
               (Some (bytes_of_string "bytes " ++ decZ first ++ [45%N] ++ decZ last ++ [47%N] ++ decZ filesize))
               (Z.to_N contentsize) (wire_body m (slice data first contentsize)).

Lemma render_serve m data h fl rest :
  h <> [] -> parse_range_header (Z.of_nat (List.length data)) h = Some (fl :: rest) ->
  render m data (Some h) = serve m data fl.
Proof.
  intros Hne H. unfold render. destruct h as [|c h']; [congruence|]. rewrite H. destruct fl as [f l]. reflexivity.
Qed.

Lemma render_full m data h :
  parse_range_header (Z.of_nat (List.length data)) h = None ->
  render m data (Some h) = respond m data Whole.
Proof.
  intro H. unfold render, respond. destruct h as [|c h']; [|rewrite H]; f_equal; lia.
Qed.

Lemma partial_response m data F L first last :
  first = Z.of_N F -> last = Z.of_N L -> F <= L ->
  mkResponse partial_status
    (Some (bytes_of_string "bytes " ++ decZ first ++ [45] ++ decZ last ++ [47] ++ decZ (Z.of_nat (List.length data))))
    (Z.to_N (last - first + 1)) (wire_body m (slice data first (last - first + 1)))
  = respond m data (Partial F L).
Proof.
  intros -> -> HFL. unfold respond. rewrite !decZ_of_N.
  replace (Z.of_nat (List.length data)) with (Z.of_N (N.of_nat (List.length data))) by lia. rewrite decZ_of_N.
  f_equal; [lia|]. f_equal. unfold slice, bytes_between. f_equal; [lia|f_equal; lia].
Qed.

Lemma unsat_response m data :
  mkResponse unsatisfiable_status (Some (bytes_of_string "bytes */" ++ decZ (Z.of_nat (List.length data))))
             (N.of_nat (List.length unsatisfiable_text)) (wire_body m unsatisfiable_text)
  = respond m data Unsatisfiable.
Proof.
  unfold respond. replace (Z.of_nat (List.length data)) with (Z.of_N (N.of_nat (List.length data))) by lia.
  rewrite decZ_of_N. reflexivity.
Qed.

Lemma serve_is_rfc m data r : spec_valid r ->
  serve m data (to_zrange (Z.of_nat (List.length data)) r) = respond m data (rfc_decide (N.of_nat (List.length data)) r).
Proof.
  intro V. unfold serve. set (n := List.length data). destruct r as [f l|f|k]; cbn [to_zrange fst snd rfc_decide spec_valid] in *.
  - destruct (f <? N.of_nat n) eqn:E.
    + assert (Z.of_nat n <=? Z.max 0 (Z.of_N f) = false)%Z as -> by lia.
      apply partial_response; lia.
    + assert (Z.of_nat n <=? Z.max 0 (Z.of_N f) = true)%Z as -> by lia. apply unsat_response.
  - destruct (f <? N.of_nat n) eqn:E.
    + assert (Z.of_nat n <=? Z.max 0 (Z.of_N f) = false)%Z as -> by lia.
      apply partial_response; lia.
    + assert (Z.of_nat n <=? Z.max 0 (Z.of_N f) = true)%Z as -> by lia. apply unsat_response.
  - destruct ((k =? 0) || (N.of_nat n =? 0)) eqn:E.
    + assert (Z.of_nat n <=? Z.max 0 (Z.of_nat n - Z.of_N k) = true)%Z as -> by lia. apply unsat_response.
    + assert (Z.of_nat n <=? Z.max 0 (Z.of_nat n - Z.of_N k) = false)%Z as -> by lia.
      apply partial_response; lia.
Qed.

Definition rfc_response (m : method) (data : list N) (h : list N) : response :=
  match rfc_ranges h with
  | Some (r :: _) => respond m data (rfc_decide (N.of_nat (List.length data)) r)
  | _ => respond m data Whole
  end.

Lemma rfc_ranges_nil : rfc_ranges [] = None.
Proof. reflexivity. Qed.

Lemma render_is_rfc m data h : range_strict h = true -> render m data (Some h) = rfc_response m data h.
Proof.
  intro S. unfold rfc_response.
  destruct h as [|c h']; [rewrite rfc_ranges_nil; unfold render, respond; f_equal; lia|].
  pose proof (header_ok (Z.of_nat (List.length data)) (c :: h') S) as H.
  destruct (rfc_ranges (c :: h')) as [[|r rs]|] eqn:R; cbn [option_map map] in H.
  - exfalso. exact (rfc_ranges_nonempty _ R).
  - rewrite (render_serve m data (c :: h') _ _ ltac:(discriminate) H). apply serve_is_rfc.
    pose proof (rfc_ranges_valid _ _ R) as V. inversion V. assumption.
  - apply render_full. exact H.
Qed.

(* ------------------------------------------------------------------------ *)
(* statements of Props/C40.v                                                  *)

Lemma rfc7233_single_range_ok :
  forall m data h, range_strict h = true ->
    (forall r, rfc_ranges h = Some [r] ->
       render m data (Some h) = respond m data (rfc_decide (N.of_nat (List.length data)) r)) /\
    (rfc_ranges h = None -> render m data (Some h) = respond m data Whole).
Proof.
  intros m data h S. pose proof (render_is_rfc m data h S) as H. unfold rfc_response in H.
  split; [intros r R|intro R]; rewrite R in H; exact H.
Qed.

Lemma no_range_header_ok : forall m data, render m data None = respond m data Whole /\ render m data (Some []) = respond m data Whole.
Proof. intros m data. unfold render, respond. split; f_equal; lia. Qed.

Lemma multi_range_first_ok :
  forall m data h r r2 rest, range_strict h = true -> rfc_ranges h = Some (r :: r2 :: rest) ->
    render m data (Some h) = respond m data (rfc_decide (N.of_nat (List.length data)) r).
Proof. intros m data h r r2 rest S R. pose proof (render_is_rfc m data h S) as H. unfold rfc_response in H. rewrite R in H. exact H. Qed.

(* a partial response selects bytes inside the representation, and exactly those *)
Lemma decide_partial_in_range size r f l : spec_valid r -> rfc_decide size r = Partial f l -> f <= l /\ l < size.
Proof.
  destruct r as [a b|a|k]; cbn [rfc_decide spec_valid]; intro V.
  - destruct (a <? size) eqn:E; [|discriminate]. intro H. inversion H; subst. lia.
  - destruct (a <? size) eqn:E; [|discriminate]. intro H. inversion H; subst. lia.
  - destruct ((k =? 0) || (size =? 0)) eqn:E; [discriminate|]. intro H. inversion H; subst. lia.
Qed.

Lemma nth_firstn_lt {A} (d : A) : forall k i (l : list A), (i < k)%nat -> nth i (firstn k l) d = nth i l d.
Proof.
  induction k as [|k IH]; intros i l H; [lia|]. destruct l as [|x r]; [destruct i; reflexivity|].
  destruct i as [|i]; [reflexivity|]. cbn. apply IH. lia.
Qed.

Lemma nth_skipn {A} (d : A) : forall s i (l : list A), nth i (skipn s l) d = nth (s + i) l d.
Proof.
  induction s as [|s IH]; intros i l; [reflexivity|]. destruct l as [|x r]; [destruct i; reflexivity|]. cbn. apply IH.
Qed.

Lemma bytes_between_exact_ok : forall data f l, f <= l -> l < N.of_nat (List.length data) ->
  N.of_nat (List.length (bytes_between data f l)) = l - f + 1 /\
  forall i, i <= l - f -> nth (N.to_nat i) (bytes_between data f l) 0 = nth (N.to_nat (f + i)) data 0.
Proof.
  intros data f l Hfl Hl. unfold bytes_between. split.
  - rewrite firstn_length, skipn_length. lia.
  - intros i Hi. rewrite nth_firstn_lt by lia. rewrite nth_skipn. f_equal. lia.
Qed.

Lemma partial_is_exact_ok : forall m data h r f l,
  range_strict h = true -> rfc_ranges h = Some [r] -> rfc_decide (N.of_nat (List.length data)) r = Partial f l ->
  render m data (Some h) = respond m data (Partial f l) /\
  f <= l /\ l < N.of_nat (List.length data) /\
  body (render GET data (Some h)) = bytes_between data f l /\
  N.of_nat (List.length (bytes_between data f l)) = content_length (render m data (Some h)) /\
  forall i, i <= l - f -> nth (N.to_nat i) (bytes_between data f l) 0 = nth (N.to_nat (f + i)) data 0.
Proof.
  intros m data h r f l S R D.
  pose proof (rfc_ranges_valid _ _ R) as V. inversion V as [|? ? Vr _]; subst.
  destruct (decide_partial_in_range _ _ _ _ Vr D) as [Hfl Hl].
  destruct (bytes_between_exact_ok data f l Hfl Hl) as [Hlen Hnth].
  pose proof (proj1 (rfc7233_single_range_ok m data h S) r R) as Hm.
  pose proof (proj1 (rfc7233_single_range_ok GET data h S) r R) as Hg.
  rewrite D in Hm, Hg. rewrite Hm, Hg. cbn [respond body content_length wire_body]. auto 10.
Qed.

Lemma head_same_ok : forall data hdr,
  status (render HEAD data hdr) = status (render GET data hdr) /\
  content_range (render HEAD data hdr) = content_range (render GET data hdr) /\
  content_length (render HEAD data hdr) = content_length (render GET data hdr) /\
  body (render HEAD data hdr) = [].
Proof.
  intros data hdr. unfold render. destruct hdr as [[|c h]|]; cbn [status content_range content_length body wire_body]; auto.
  destruct (parse_range_header _ (c :: h)) as [[|[f l] rest]|]; cbn [status content_range content_length body wire_body internal_error]; auto.
  destruct (_ <=? _)%Z; cbn [status content_range content_length body wire_body]; auto.
Qed.

(* ------------------------------------------------------------------------ *)
(* without the precondition the statement is false: the recorded leniencies  *)
Definition ten_bytes : list N := [0; 1; 2; 3; 4; 5; 6; 7; 8; 9].

Lemma refuted_lenient_int :
  let h := bytes_of_string "bytes=+1-5" in
  range_strict h = false /\ rfc_ranges h = None /\ status (render GET ten_bytes (Some h)) = 206.
Proof. vm_compute. auto. Qed.

Lemma refuted_non_ascii_digit :
  let h := bytes_of_string "bytes=" ++ [1635; 45] in       (* ARABIC-INDIC DIGIT THREE *)
  range_strict h = false /\ rfc_ranges h = None /\ status (render GET ten_bytes (Some h)) = 206.
Proof. vm_compute. auto. Qed.

Lemma refuted_lenient_strip :
  let h := bytes_of_string "bytes=" ++ [12] ++ bytes_of_string "0-5" in      (* form feed *)
  range_strict h = false /\ rfc_ranges h = None /\ status (render GET ten_bytes (Some h)) = 206.
Proof. vm_compute. auto. Qed.

Lemma refuted_digit_limit :
  let h := bytes_of_string "bytes=" ++ repeat 48 4301 ++ [45] in        (* 4301 zeros, "-" *)
  rfc_ranges h = Some [From 0] /\ status (render GET ten_bytes (Some h)) = 200.
Proof. vm_compute. auto. Qed.

Lemma pins_ok :
  (pin_parse_range_header, pin_render, pin_render_GET, pin_render_HEAD)
  = ("488969ddb09469cd", "9e63d164e15f8e2d", "c70737a82053c8e3", "6809f39ac1d9c28f")%string /\
  (range_unit, content_range_formats, unsatisfiable_status, partial_status)
  = (bytes_of_string "bytes", ["bytes */%s"; "bytes %s-%s/%s"]%string, 416, 206).
Proof. split; reflexivity. Qed.

(* ------------------------------------------------------------------------ *)
(* the precondition holds for every request in the RFC's canonical spelling, *)
(* so for those the response is the RFC's unconditionally                    *)

Lemma r_drop_while_hd_not p l : hd_not p l = true -> drop_while p l = l.
Proof. destruct l as [|c r]; cbn; [reflexivity|]. intro H. apply negb_true_iff in H. rewrite H. reflexivity. Qed.

Lemma strip_id p t : hd_not p t = true -> hd_not p (rev t) = true -> strip p t = t.
Proof.
  intros H1 H2. unfold strip, rstrip. rewrite (r_drop_while_hd_not p t H1), (r_drop_while_hd_not p (rev t) H2).
  apply rev_involutive.
Qed.

Lemma space_not_digit_dash : forallb (fun s => negb (is_digit s) && negb (s =? 45)) py_space_codepoints = true.
Proof. vm_compute. reflexivity. Qed.

Definition digit_or_dash (c : N) : bool := is_digit c || (c =? 45).

Lemma digit_or_dash_not_space c : digit_or_dash c = true -> py_isspace c = false /\ is_ows c = false /\ (c =? 44) = false /\ (c =? 61) = false.
Proof.
  intro H. split.
  - destruct (py_isspace c) eqn:E; [|reflexivity]. unfold py_isspace in E. apply existsb_exists in E.
    destruct E as [s [Hin Hs]]. apply N.eqb_eq in Hs. subst s.
    pose proof space_not_digit_dash as F. rewrite forallb_forall in F. specialize (F _ Hin).
    unfold digit_or_dash in H. destruct (is_digit c); destruct (c =? 45); cbn in *; congruence.
  - unfold digit_or_dash, is_digit, is_ows in *. lia.
Qed.

Definition canon (t : list N) : Prop := t <> [] /\ forallb digit_or_dash t = true.

Lemma r_forallb_rev (p : N -> bool) l : forallb p (rev l) = forallb p l.
Proof.
  induction l as [|c r IH]; cbn; [reflexivity|]. rewrite forallb_app, IH. cbn. rewrite andb_true_r. apply andb_comm.
Qed.

Lemma canon_hd_not t (p : N -> bool) : (forall c, digit_or_dash c = true -> p c = false) ->
  forallb digit_or_dash t = true -> hd_not p t = true /\ hd_not p (rev t) = true.
Proof.
  intros Hp H. assert (G : forall l, forallb digit_or_dash l = true -> hd_not p l = true).
  { intros [|c r]; cbn; [reflexivity|]. intro A. apply andb_prop in A. rewrite (Hp c (proj1 A)). reflexivity. }
  split; apply G; [assumption|]. rewrite r_forallb_rev. assumption.
Qed.

Lemma split_all_none t : forallb digit_or_dash t = true -> split_all 44 t = [t].
Proof.
  induction t as [|c r IH]; cbn; [reflexivity|]. intro H. apply andb_prop in H. destruct H as [Hc Hr].
  destruct (digit_or_dash_not_space c Hc) as [_ [_ [-> _]]]. rewrite (IH Hr). reflexivity.
Qed.

Lemma split_once_digits a b : forallb is_digit a = true -> split_once 45 (a ++ 45 :: b) = Some (a, b).
Proof.
  induction a as [|c r IH]; cbn; [reflexivity|]. intro H. apply andb_prop in H. destruct H as [Hc Hr].
  assert ((c =? 45) = false) as -> by (unfold is_digit in Hc; lia). rewrite (IH Hr). reflexivity.
Qed.

Lemma classify_digit c : is_digit c = true -> classify c = IDigit (c - 48).
Proof. intro H. unfold classify. assert ((c <? 127) = true) as -> by (unfold is_digit in H; lia). rewrite H. reflexivity. Qed.

Lemma digits_run_digits ds : forall acc cnt, forallb is_digit ds = true ->
  digits_run (map classify ds) acc cnt = (fold_left (fun a d => a * 10 + (d - 48)) ds acc, cnt + N.of_nat (List.length ds), []).
Proof.
  induction ds as [|c r IH]; intros acc cnt H; cbn [map digits_run fold_left List.length].
  - f_equal. f_equal. lia.
  - apply andb_prop in H. destruct H as [Hc Hr]. rewrite (classify_digit c Hc). cbn [digits_run]. rewrite (IH _ _ Hr).
    f_equal. f_equal. lia.
Qed.

Lemma py_int_digits ds : ds <> [] -> forallb is_digit ds = true -> N.of_nat (List.length ds) <= max_int_digits ->
  py_int ds = Some (Z.of_N (digits_value ds)).
Proof.
  intros Hne Hd Hl. destruct ds as [|c r]; [congruence|]. cbn [forallb] in Hd. apply andb_prop in Hd. destruct Hd as [Hc Hr].
  unfold py_int. cbn [map]. rewrite (classify_digit c Hc). cbn [drop_ispace]. rewrite (digits_run_digits r _ _ Hr). cbn [drop_ispace].
  cbn [List.length] in Hl. assert ((1 + N.of_nat (List.length r) <=? max_int_digits) = true) as -> by lia.
  unfold digits_value. cbn [fold_left]. reflexivity.
Qed.

Lemma int_agrees_digits ds : forallb is_digit ds = true -> N.of_nat (List.length ds) <= max_int_digits -> int_agrees ds = true.
Proof.
  intros Hd Hl. destruct ds as [|c r]; [reflexivity|]. unfold int_agrees.
  rewrite py_int_digits by (assumption || discriminate). unfold pos_value. rewrite Hd. apply Z.eqb_refl.
Qed.

Lemma r_undec_acc_value : forall l acc, forallb is_digit l = true ->
  undec_acc l acc = Some (fold_left (fun a d => a * 10 + (d - 48)) l acc).
Proof.
  induction l as [|x r IH]; cbn; intros acc A; [reflexivity|]. apply andb_prop in A. destruct A as [A1 A2]. rewrite A1. apply IH. exact A2.
Qed.

Lemma pos_value_digits ds : ds <> [] -> forallb is_digit ds = true -> pos_value ds = Some (digits_value ds).
Proof. intros Hn Hd. unfold pos_value. destruct ds; [congruence|]. rewrite Hd. reflexivity. Qed.

Lemma pos_value_dec k : pos_value (dec k) = Some k.
Proof.
  rewrite pos_value_digits by (apply dec_nonempty || apply dec_all_digits). f_equal.
  pose proof (undec_dec k) as U. rewrite undec_nonempty in U by apply dec_nonempty.
  rewrite r_undec_acc_value in U by apply dec_all_digits. unfold digits_value. congruence.
Qed.

Lemma dec_length_bound k : N.size k <= 4000 -> N.of_nat (List.length (dec k)) <= max_int_digits.
Proof.
  intro H. unfold dec, max_int_digits.
  assert (G : forall f n acc, (List.length (dec_aux f n acc) <= f + List.length acc)%nat).
  { induction f as [|f IH]; intros n acc; cbn [dec_aux]; [lia|]. destruct (n <? 10); [cbn [List.length]; lia|].
    specialize (IH (n / 10) ((48 + n mod 10) :: acc)). cbn [List.length] in IH. lia. }
  specialize (G (S (N.to_nat (N.size k))) k []). cbn [List.length] in G. lia.
Qed.

Lemma digits_are_canon ds : forallb is_digit ds = true -> forallb digit_or_dash ds = true.
Proof.
  induction ds as [|c r IH]; cbn; [reflexivity|]. intro H. apply andb_prop in H. destruct H as [Hc Hr].
  unfold digit_or_dash at 1. rewrite Hc, (IH Hr). reflexivity.
Qed.

(* "bytes=" t  with t = a "-" b, a and b digit strings (possibly empty) of at most 4300 digits *)
Lemma canonical_strict a b :
  forallb is_digit a = true -> forallb is_digit b = true ->
  N.of_nat (List.length a) <= max_int_digits -> N.of_nat (List.length b) <= max_int_digits ->
  let h := bytes_of_string "bytes=" ++ a ++ 45 :: b in
  range_strict h = true /\ rfc_ranges h = option_map (fun r => [r]) (rfc_spec (a ++ 45 :: b)).
Proof.
  intros Ha Hb La Lb h.
  assert (Hc : forallb digit_or_dash (a ++ 45 :: b) = true).
  { rewrite forallb_app. cbn [forallb]. rewrite (digits_are_canon a Ha), (digits_are_canon b Hb). reflexivity. }
  destruct (canon_hd_not _ py_isspace (fun c H => proj1 (digit_or_dash_not_space c H)) Hc) as [P1 P2].
  destruct (canon_hd_not _ is_ows (fun c H => proj1 (proj2 (digit_or_dash_not_space c H))) Hc) as [O1 O2].
  assert (Hsplit : split_once 61 h = Some (bytes_of_string "bytes", a ++ 45 :: b)) by reflexivity.
  unfold range_strict, rfc_ranges. rewrite Hsplit, range_unit_ok. cbn [list_N_eqb]. 
  change (list_N_eqb (bytes_of_string "bytes") (bytes_of_string "bytes")) with true. cbn match.
  rewrite (split_all_none _ Hc), O1, O2. cbn [forallb traverse andb].
  unfold element_strict, py_strip. rewrite (strip_id _ _ P1 P2), (strip_id _ _ O1 O2).
  rewrite (proj2 (list_N_eqb_eq _ _) eq_refl). rewrite (split_once_digits a b Ha).
  rewrite (int_agrees_digits a Ha La), (int_agrees_digits b Hb Lb). split; [reflexivity|].
  destruct (rfc_spec (a ++ 45 :: b)); reflexivity.
Qed.

Lemma rfc_spec_canonical a b : forallb is_digit a = true ->
  rfc_spec (a ++ 45 :: b) =
  match a, b with
  | [], _ => option_map Suffix (pos_value b)
  | _, [] => option_map From (pos_value a)
  | _, _ => match pos_value a, pos_value b with
            | Some f, Some l => if l <? f then None else Some (FromTo f l)
            | _, _ => None
            end
  end.
Proof. intro Ha. unfold rfc_spec. rewrite (split_once_digits a b Ha). reflexivity. Qed.

Lemma canonical_requests_ok :
  forall m data f l, N.size f <= 4000 -> N.size l <= 4000 ->
    let n := N.of_nat (List.length data) in
    (f <= l -> render m data (Some (bytes_of_string "bytes=" ++ dec f ++ [45] ++ dec l)) = respond m data (rfc_decide n (FromTo f l))) /\
    render m data (Some (bytes_of_string "bytes=" ++ dec f ++ [45])) = respond m data (rfc_decide n (From f)) /\
    render m data (Some (bytes_of_string "bytes=" ++ [45] ++ dec l)) = respond m data (rfc_decide n (Suffix l)).
Proof.
  intros m data f l Sf Sl n.
  pose proof (dec_all_digits f) as Df. pose proof (dec_all_digits l) as Dl.
  pose proof (dec_length_bound f Sf) as Lf. pose proof (dec_length_bound l Sl) as Ll.
  pose proof (dec_nonempty f) as Nf. pose proof (dec_nonempty l) as Nl.
  assert (L0 : N.of_nat (List.length (@nil N)) <= max_int_digits) by (cbn; unfold max_int_digits; lia).
  split; [intro Hfl|split].
  - destruct (canonical_strict (dec f) (dec l) Df Dl Lf Ll) as [S R]. rewrite (rfc_spec_canonical _ _ Df) in R.
    rewrite !pos_value_dec in R. destruct (dec f) eqn:Ef; [congruence|]. destruct (dec l) eqn:El; [congruence|].
    rewrite <- Ef, <- El in *. assert ((l <? f) = false) as E by lia. rewrite E in R. cbn [option_map] in R.
    change (dec f ++ [45] ++ dec l) with (dec f ++ 45 :: dec l).
    exact (proj1 (rfc7233_single_range_ok m data _ S) _ R).
  - destruct (canonical_strict (dec f) [] Df eq_refl Lf L0) as [S R]. rewrite (rfc_spec_canonical _ _ Df) in R.
    rewrite pos_value_dec in R. destruct (dec f) eqn:Ef; [congruence|]. rewrite <- Ef in *. cbn [option_map] in R.
    exact (proj1 (rfc7233_single_range_ok m data _ S) _ R).
  - destruct (canonical_strict [] (dec l) eq_refl Dl L0 Ll) as [S R]. rewrite (rfc_spec_canonical [] _ eq_refl) in R.
    rewrite pos_value_dec in R. cbn [option_map] in R.
    exact (proj1 (rfc7233_single_range_ok m data _ S) _ R).
Qed.
