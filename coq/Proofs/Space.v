(* Space accounting invariants of Model/Space.v over all histories, and the C28 theorems. *)
From Coq Require Import List NArith ZArith Bool Lia.
From Coq Require Import ZifyBool ZifyNat ZifyN.
From Verif Require Import Model.ImmStore Model.Space Proofs.ImmStoreLib Proofs.ImmStore.
Import ListNotations.
Local Open Scope N_scope.

(* ------------------------------------------------------------------ counting covered positions *)
Lemma filter_length_le : forall (A : Type) (f : A -> bool) (l : list A), (length (filter f l) <= length l)%nat.
Proof. intros A f l. induction l as [|x l IH]; simpl; [lia|]. destruct (f x); simpl; lia. Qed.

Lemma filter_length_mono : forall (A : Type) (f g : A -> bool) (l : list A),
  (forall x, f x = true -> g x = true) -> (length (filter f l) <= length (filter g l))%nat.
Proof.
  intros A f g l H. induction l as [|x l IH]; simpl; [lia|].
  destruct (f x) eqn:Ef.
  - rewrite (H x Ef). simpl. lia.
  - destruct (g x); simpl; lia.
Qed.

Lemma seqN_length : forall n s, length (seqN s n) = n.
Proof. induction n as [|n IH]; intros s; simpl; auto. Qed.

Lemma covered_count_le : forall size l, covered_count size l <= size.
Proof.
  intros size l. unfold covered_count.
  pose proof (filter_length_le N (covered l) (seqN 0 (N.to_nat size))) as H. rewrite seqN_length in H. lia.
Qed.

Lemma covered_count_nil : forall size, covered_count size [] = 0.
Proof.
  intros size. unfold covered_count.
  assert (H : forall l : list N, filter (covered []) l = []) by (induction l; simpl; auto).
  rewrite H. reflexivity.
Qed.

Lemma covered_count_mono : forall size l l', (forall p, covered l p = true -> covered l' p = true) ->
  covered_count size l <= covered_count size l'.
Proof.
  intros size l l' H. unfold covered_count.
  pose proof (filter_length_mono N (covered l) (covered l') (seqN 0 (N.to_nat size)) H). lia.
Qed.

Lemma covered_count_rm_set : forall size l a b, a < b -> covered_count size l <= covered_count size (rm_set a b l).
Proof.
  intros size l a b Hab. apply covered_count_mono. intros p Hp. rewrite covered_rm_set by assumption.
  rewrite Hp. apply orb_true_r.
Qed.

Lemma mul_div_le_any : forall fr x, fr * (x / fr) <= x.
Proof.
  intros fr x. destruct (N.eq_dec fr 0) as [->|H].
  - rewrite N.mul_0_l. lia.
  - apply N.mul_div_le. assumption.
Qed.

(* ------------------------------------------------------------------ sums *)
Lemma sum_slots_le : forall f g l, (forall v, f v <= g v) -> sum_slots f l <= sum_slots g l.
Proof.
  intros f g l H. induction l as [|[k v] r IH]; cbn [sum_slots]; [lia|]. specialize (H v). lia.
Qed.

Lemma outstanding_le_allocated : forall s, outstanding s <= allocated_size s.
Proof.
  intros s. apply sum_slots_le. intros v. destruct v as [|w|wid d]; cbn [slot_outstanding slot_alloc]; lia.
Qed.

(* ------------------------------------------------------------------ allocate *)
Lemma alloc_loop_readonly : forall si size c now shs slots next rem acc,
  alloc_loop true si size c now shs slots next rem acc = (slots, next, acc).
Proof.
  intros si size c now. induction shs as [|sh rest IH]; intros; cbn [alloc_loop]; auto.
  destruct (lookup (si, sh) slots); apply IH.
Qed.

Lemma alloc_loop_space : forall si size c now shs slots next r acc slots' next' acc',
  alloc_loop false si size c now shs slots next (Some r) acc = (slots', next', acc') ->
  exists n : N,
    N.of_nat (length acc') = N.of_nat (length acc) + n
    /\ sum_slots slot_used slots' = sum_slots slot_used slots
    /\ sum_slots slot_outstanding slots' = sum_slots slot_outstanding slots + n * size
    /\ sum_slots slot_alloc slots' = sum_slots slot_alloc slots + n * size
    /\ (n = 0 \/ (Z.of_N (n * size) <= r)%Z).
Proof.
  intros si size c now. induction shs as [|sh rest IH]; intros slots next r acc slots' next' acc' H.
  - cbn [alloc_loop] in H. inversion H; subst. exists 0. repeat split; try lia.
  - cbn [alloc_loop] in H.
    destruct (lookup (si, sh) slots) as [|w|wid d] eqn:L; try (eapply IH; eassumption).
    destruct (fits (Some r) size) eqn:F; [|eapply IH; eassumption].
    cbn [option_map] in H. apply IH in H. destruct H as (n & H1 & H2 & H3 & H4 & H5).
    cbn [fits] in F.
    pose proof (sum_set_slot slot_used slots (si, sh) (Incoming (new_writer next size now c)) eq_refl) as U.
    pose proof (sum_set_slot slot_outstanding slots (si, sh) (Incoming (new_writer next size now c)) eq_refl) as O.
    pose proof (sum_set_slot slot_alloc slots (si, sh) (Incoming (new_writer next size now c)) eq_refl) as A.
    rewrite L in U, O, A.
    cbn [slot_used slot_outstanding slot_alloc new_writer w_size w_ranges] in U, O, A.
    rewrite covered_count_nil in U, O.
    exists (n + 1). rewrite app_length in H1. cbn [length] in H1.
    rewrite N.mul_add_distr_r, N.mul_1_l.
    repeat split; try lia.
Qed.

Lemma alloc_loop_alloc_mono : forall ro si size c now shs slots next rem acc slots' next' acc',
  alloc_loop ro si size c now shs slots next rem acc = (slots', next', acc') ->
  sum_slots slot_alloc slots <= sum_slots slot_alloc slots'.
Proof.
  intros ro si size c now. induction shs as [|sh rest IH]; intros slots next rem acc slots' next' acc' H.
  - cbn [alloc_loop] in H. inversion H. lia.
  - cbn [alloc_loop] in H.
    destruct (lookup (si, sh) slots) as [|w|wid d] eqn:L; try (eapply IH; eassumption).
    destruct ro; [eapply IH; eassumption|].
    destruct (fits rem size); [|eapply IH; eassumption].
    apply IH in H.
    pose proof (sum_set_slot slot_alloc slots (si, sh) (Incoming (new_writer next size now c)) eq_refl) as A.
    rewrite L in A. cbn [slot_alloc] in A. lia.
Qed.

(* ------------------------------------------------------------------ the invariant *)
Definition space_ok (cfg : config) (dk : disk) (s : store) : Prop :=
  (Z.of_N (outstanding s) <= Z.max 0 (Z.of_N (dk_capacity dk) - Z.of_N (used s) - Z.of_N (cf_reserved cfg)))%Z.

Lemma srun_from_inv (cfg : config) (dk : disk) (P : store -> list event -> Prop) :
  (forall s tr o, P s tr -> P (fst (sstep cfg dk s o)) (tr ++ [(close_env cfg dk s o, snd (sstep cfg dk s o))])) ->
  forall ops s tr0, P s tr0 -> P (fst (srun_from cfg dk s ops)) (tr0 ++ snd (srun_from cfg dk s ops)).
Proof.
  intros Hstep. induction ops as [|o ops IH]; intros s tr0 H0; cbn [srun_from].
  - cbn [fst snd]. rewrite app_nil_r. assumption.
  - specialize (Hstep s tr0 o H0). destruct (sstep cfg dk s o) as [s' r]. cbn [fst snd] in Hstep.
    specialize (IH s' (tr0 ++ [(close_env cfg dk s o, r)]) Hstep).
    destruct (srun_from cfg dk s' ops) as [s'' tr]. cbn [fst snd] in *.
    rewrite <- app_assoc in IH. exact IH.
Qed.

Lemma available_bound : forall cfg dk s a,
  dk_mode dk = StatOk -> get_available_space cfg dk s = Some a ->
  (Z.of_N a <= Z.max 0 (Z.of_N (dk_capacity dk) - Z.of_N (used s) - Z.of_N (cf_reserved cfg)))%Z.
Proof.
  intros cfg dk s a Hm H. unfold get_available_space in H. destruct (cf_readonly cfg).
  - inversion H. lia.
  - rewrite Hm in H. cbn [fileutil_available_space] in H. inversion H. unfold disk_stats_avail, bavail, free.
    pose proof (mul_div_le_any (dk_frsize dk) (dk_capacity dk - used s)). lia.
Qed.

Lemma allocate_space : forall cfg dk s si shs size c,
  dk_mode dk = StatOk -> space_ok cfg dk s ->
  space_ok cfg dk (fst (allocate (cf_readonly cfg) s si shs size c (get_available_space cfg dk s))).
Proof.
  intros cfg dk s si shs size c Hm Hs. unfold allocate.
  destruct (cf_readonly cfg) eqn:Hro.
  - rewrite alloc_loop_readonly. cbn [fst]. unfold space_ok, outstanding, used in *. cbn [st_slots]. exact Hs.
  - destruct (get_available_space cfg dk s) as [a|] eqn:Ha.
    2:{ unfold get_available_space in Ha. rewrite Hro, Hm in Ha. discriminate. }
    cbn [option_map].
    destruct (alloc_loop false si size c (st_now s) shs (st_slots s) (st_next s) (Some (Z.of_N a - Z.of_N (allocated_size s))%Z) [])
      as [[slots' next'] acc'] eqn:E.
    cbn [fst]. apply alloc_loop_space in E. destruct E as (n & _ & E2 & E3 & _ & E5).
    pose proof (available_bound cfg dk s a Hm Ha) as B.
    pose proof (outstanding_le_allocated s) as OA.
    unfold space_ok, outstanding, used in *. cbn [st_slots]. rewrite E2, E3.
    destruct E5 as [->|E5]; lia.
Qed.

Lemma step_space : forall cfg dk s tr o,
  dk_mode dk = StatOk -> inv s tr -> space_ok cfg dk s -> space_ok cfg dk (fst (sstep cfg dk s o)).
Proof.
  intros cfg dk s tr o Hm Hi Hs. unfold sstep. destruct o; cbn [close_env step].
  - apply allocate_space; assumption.
  - (* write *)
    unfold write. destruct (get s k) as [|w|wid0 d0] eqn:Hg; cbn [fst]; try assumption.
    destruct (w_id w =? wid); cbn [fst]; [|assumption].
    pose proof (inv_slots _ _ Hi k) as Sk. rewrite Hg in Sk. cbn [slot_ok] in Sk. destruct Sk as (_ & S2 & _).
    assert (Htouch : space_ok cfg dk (with_slots s (set_slot k (Incoming (touch (st_now s) w)) (st_slots s)))).
    { pose proof (sum_set_slot slot_used (st_slots s) k (Incoming (touch (st_now s) w)) eq_refl) as U.
      pose proof (sum_set_slot slot_outstanding (st_slots s) k (Incoming (touch (st_now s) w)) eq_refl) as O.
      fold (get s k) in U, O. rewrite Hg in U, O. cbn [slot_used slot_outstanding touch w_size w_ranges] in U, O.
      unfold space_ok, outstanding, used in *. cbn [with_slots st_slots]. lia. }
    unfold write_writer.
    destruct (blen d =? 0) eqn:E0; cbn [fst snd]; [exact Htouch|].
    destruct (chunks_agree (w_data w) off d (rm_query off (off + blen d) (w_ranges w))); cbn [negb fst snd]; [|exact Htouch].
    destruct (w_size w <? off + blen d) eqn:El; cbn [fst snd]; [exact Htouch|].
    apply N.eqb_neq in E0.
    pose proof (sum_set_slot slot_used (st_slots s) k
                  (Incoming (mkWriter (w_id w) (w_size w) (rm_set off (off + blen d) (w_ranges w)) (write_at off d (w_data w)) (st_now s + TIMEOUT) (w_canary w))) eq_refl) as U.
    pose proof (sum_set_slot slot_outstanding (st_slots s) k
                  (Incoming (mkWriter (w_id w) (w_size w) (rm_set off (off + blen d) (w_ranges w)) (write_at off d (w_data w)) (st_now s + TIMEOUT) (w_canary w))) eq_refl) as O.
    fold (get s k) in U, O. rewrite Hg in U, O. cbn [slot_used slot_outstanding w_size w_ranges] in U, O.
    pose proof (covered_count_rm_set (w_size w) (w_ranges w) off (off + blen d)) as M.
    pose proof (covered_count_le (w_size w) (rm_set off (off + blen d) (w_ranges w))) as L1.
    pose proof (covered_count_le (w_size w) (w_ranges w)) as L2.
    unfold space_ok, outstanding, used in *. cbn [with_slots st_slots]. lia.
  - (* close *)
    unfold close. destruct (get s k) as [|w|wid0 d0] eqn:Hg; cbn [fst]; try assumption.
    destruct (w_id w =? wid); cbn [fst]; [|assumption].
    pose proof (inv_slots _ _ Hi k) as Sk. rewrite Hg in Sk. cbn [slot_ok] in Sk. destruct Sk as (_ & S2 & _).
    pose proof (sum_set_slot slot_used (st_slots s) k (Final wid (w_data w)) eq_refl) as U.
    pose proof (sum_set_slot slot_outstanding (st_slots s) k (Final wid (w_data w)) eq_refl) as O.
    fold (get s k) in U, O. rewrite Hg in U, O. cbn [slot_used slot_outstanding] in U, O.
    pose proof (covered_count_le (w_size w) (w_ranges w)) as L2.
    unfold space_ok, outstanding, used in *. cbn [with_slots st_slots]. lia.
  - (* abort *)
    unfold abort. destruct (get s k) as [|w|wid0 d0] eqn:Hg; cbn [fst]; try assumption.
    destruct (w_id w =? wid); cbn [fst]; [|assumption].
    pose proof (sum_set_slot slot_used (st_slots s) k Absent eq_refl) as U.
    pose proof (sum_set_slot slot_outstanding (st_slots s) k Absent eq_refl) as O.
    fold (get s k) in U, O. rewrite Hg in U, O. cbn [slot_used slot_outstanding] in U, O.
    pose proof (covered_count_le (w_size w) (w_ranges w)) as L2.
    unfold space_ok, outstanding, used in *. cbn [with_slots st_slots]. lia.
  - (* advance *)
    cbn [fst]. unfold advance, space_ok, outstanding, used in *. cbn [st_slots].
    pose proof (sum_abort_where_le slot_used (fun w => w_deadline w <=? st_now s + dt) (st_slots s) eq_refl).
    pose proof (sum_abort_where_le slot_outstanding (fun w => w_deadline w <=? st_now s + dt) (st_slots s) eq_refl).
    lia.
  - (* disconnect *)
    cbn [fst]. unfold disconnect, space_ok, outstanding, used in *. cbn [with_slots st_slots].
    pose proof (sum_abort_where_le slot_used (fun w => w_canary w =? canary) (st_slots s) eq_refl).
    pose proof (sum_abort_where_le slot_outstanding (fun w => w_canary w =? canary) (st_slots s) eq_refl).
    lia.
  - assumption.
  - assumption.
  - assumption.
Qed.

Theorem srun_space : forall cfg dk ops, dk_mode dk = StatOk ->
  inv (fst (srun cfg dk ops)) (snd (srun cfg dk ops)) /\ space_ok cfg dk (fst (srun cfg dk ops)).
Proof.
  intros cfg dk ops Hm. unfold srun.
  apply (srun_from_inv cfg dk (fun s tr => inv s tr /\ space_ok cfg dk s)) with (tr0 := []).
  - intros s tr o [Hi Hs]. split.
    + unfold sstep. apply step_inv. assumption.
    + eapply step_space; eauto.
  - split; [apply inv_init|]. unfold space_ok, outstanding, used, init. cbn [st_slots sum_slots]. lia.
Qed.

(* ================================================================== C28 theorems *)

(* What uploads in progress may still write never exceeds the space that is free beyond the
   reserve: the server can always honour every reservation it has handed out. *)
Theorem never_over_commit_ok : forall cfg dk ops,
  dk_mode dk = StatOk ->
  let s := fst (srun cfg dk ops) in
  (Z.of_N (outstanding s) <= Z.max 0 (Z.of_N (dk_capacity dk) - Z.of_N (used s) - Z.of_N (cf_reserved cfg)))%Z.
Proof. intros cfg dk ops Hm. apply srun_space. assumption. Qed.

(* Every allocate call, in any state: the shares it accepts, together with the uploads already in
   progress, fit into the available space it was told about, which in turn is at most the free
   space beyond the reserve. *)
Theorem alloc_call_fits_ok : forall cfg dk s si shs size c x al acc,
  snd (sstep cfg dk s (OAlloc si shs size c x)) = RAlloc al acc -> acc <> [] ->
  dk_mode dk <> StatMissing ->
  exists avail, get_available_space cfg dk s = Some avail
    /\ N.of_nat (length acc) * size + allocated_size s <= avail
    /\ (dk_mode dk = StatOk ->
        (Z.of_N avail <= Z.max 0 (Z.of_N (dk_capacity dk) - Z.of_N (used s) - Z.of_N (cf_reserved cfg)))%Z).
Proof.
  intros cfg dk s si shs size c x al acc H Hne Hm. unfold sstep in H. cbn [close_env step] in H. unfold allocate in H.
  destruct (cf_readonly cfg) eqn:Hro.
  - rewrite alloc_loop_readonly in H. cbn [snd] in H. inversion H. subst. contradiction.
  - destruct (get_available_space cfg dk s) as [a|] eqn:Ha.
    2:{ unfold get_available_space in Ha. rewrite Hro in Ha. destruct (dk_mode dk); try discriminate. contradiction. }
    exists a. split; [reflexivity|]. cbn [option_map] in H.
    destruct (alloc_loop false si size c (st_now s) shs (st_slots s) (st_next s) (Some (Z.of_N a - Z.of_N (allocated_size s))%Z) [])
      as [[slots' next'] acc'] eqn:E.
    cbn [snd] in H. inversion H; subst. apply alloc_loop_space in E. destruct E as (n & E1 & _ & _ & _ & E5).
    cbn [length] in E1. split.
    + destruct E5 as [->|E5]; [|lia]. destruct acc; [contradiction|]. cbn [length] in E1. lia.
    + intros Hok. eapply available_bound; eauto.
Qed.

(* A read-only server accepts nothing: every allocate answer has an empty accepted set, and the
   store stays empty (no files, no reservation). *)
Theorem readonly_accepts_none_ok : forall cfg dk ops,
  cf_readonly cfg = true ->
  (forall si shs size c av al acc, In (OAlloc si shs size c av, RAlloc al acc) (snd (srun cfg dk ops)) -> acc = [])
  /\ st_slots (fst (srun cfg dk ops)) = []
  /\ allocated_size (fst (srun cfg dk ops)) = 0.
Proof.
  intros cfg dk ops Hro.
  pose (P := fun (s : store) (tr : list event) =>
               st_slots s = [] /\ forall si shs size c av al acc, In (OAlloc si shs size c av, RAlloc al acc) tr -> acc = []).
  assert (H : P (fst (srun cfg dk ops)) (snd (srun cfg dk ops))).
  { unfold srun. apply (srun_from_inv cfg dk P) with (tr0 := []).
    - intros s tr o [Hs Ht]. unfold sstep. rewrite Hro.
      assert (Hg : forall k, get s k = Absent) by (intros k; unfold get; rewrite Hs; reflexivity).
      destruct o; cbn [close_env step].
      + unfold allocate. rewrite alloc_loop_readonly. cbn [fst snd st_slots]. split; [assumption|].
        intros si0 shs0 size0 c0 av0 al acc Hin. apply in_snoc in Hin. destruct Hin as [Hin|Hin]; [eapply Ht; eauto|].
        inversion Hin. reflexivity.
      + unfold write. rewrite Hg. cbn [fst snd]. split; [assumption|].
        intros ? ? ? ? ? ? ? Hin. apply in_snoc in Hin. destruct Hin as [Hin|Hin]; [eapply Ht; eauto|discriminate].
      + unfold close. rewrite Hg. cbn [fst snd]. split; [assumption|].
        intros ? ? ? ? ? ? ? Hin. apply in_snoc in Hin. destruct Hin as [Hin|Hin]; [eapply Ht; eauto|discriminate].
      + unfold abort. rewrite Hg. cbn [fst snd]. split; [assumption|].
        intros ? ? ? ? ? ? ? Hin. apply in_snoc in Hin. destruct Hin as [Hin|Hin]; [eapply Ht; eauto|discriminate].
      + cbn [fst snd]. unfold advance. cbn [st_slots]. rewrite Hs. split; [reflexivity|].
        intros ? ? ? ? ? ? ? Hin. apply in_snoc in Hin. destruct Hin as [Hin|Hin]; [eapply Ht; eauto|discriminate].
      + cbn [fst snd]. unfold disconnect. cbn [with_slots st_slots]. rewrite Hs. split; [reflexivity|].
        intros ? ? ? ? ? ? ? Hin. apply in_snoc in Hin. destruct Hin as [Hin|Hin]; [eapply Ht; eauto|discriminate].
      + cbn [fst snd]. split; [assumption|].
        intros ? ? ? ? ? ? ? Hin. apply in_snoc in Hin. destruct Hin as [Hin|Hin]; [eapply Ht; eauto|discriminate].
      + cbn [fst snd]. split; [assumption|].
        intros ? ? ? ? ? ? ? Hin. apply in_snoc in Hin. destruct Hin as [Hin|Hin]; [eapply Ht; eauto|discriminate].
      + cbn [fst snd]. split; [assumption|].
        intros ? ? ? ? ? ? ? Hin. apply in_snoc in Hin. destruct Hin as [Hin|Hin]; [eapply Ht; eauto|discriminate].
    - split; [reflexivity|]. intros ? ? ? ? ? ? ? [].
  }
  destruct H as [H1 H2]. split; [exact H2|]. split; [exact H1|]. unfold allocated_size. rewrite H1. reflexivity.
Qed.

(* Close and abort release exactly the upload's allocated size; timeout and loss of the connection
   release at least that (other uploads may end with it).  In any state. *)
Theorem release_on_close_abort_ok : forall cfg dk s k w,
  get s k = Incoming w ->
  allocated_size (fst (sstep cfg dk s (OClose k (w_id w)))) + w_size w = allocated_size s
  /\ allocated_size (fst (sstep cfg dk s (OAbort k (w_id w)))) + w_size w = allocated_size s
  /\ (forall dt, w_deadline w <= st_now s + dt -> allocated_size (fst (sstep cfg dk s (OAdvance dt))) + w_size w <= allocated_size s)
  /\ allocated_size (fst (sstep cfg dk s (ODisconnect (w_canary w)))) + w_size w <= allocated_size s.
Proof.
  intros cfg dk s k w Hg. unfold sstep. cbn [close_env step]. split; [|split; [|split]].
  - unfold close. rewrite Hg, N.eqb_refl. cbn [fst]. unfold allocated_size. cbn [with_slots st_slots].
    pose proof (sum_set_slot slot_alloc (st_slots s) k (Final (w_id w) (w_data w)) eq_refl) as A.
    fold (get s k) in A. rewrite Hg in A. cbn [slot_alloc] in A. lia.
  - unfold abort. rewrite Hg, N.eqb_refl. cbn [fst]. unfold allocated_size. cbn [with_slots st_slots].
    pose proof (sum_set_slot slot_alloc (st_slots s) k Absent eq_refl) as A.
    fold (get s k) in A. rewrite Hg in A. cbn [slot_alloc] in A. lia.
  - intros dt Hd. cbn [fst]. unfold advance, allocated_size. cbn [st_slots].
    apply (sum_abort_where_releases slot_alloc _ (st_slots s) k w eq_refl Hg). apply N.leb_le. assumption.
  - cbn [fst]. unfold disconnect, allocated_size. cbn [with_slots st_slots].
    apply (sum_abort_where_releases slot_alloc _ (st_slots s) k w eq_refl Hg). apply N.eqb_refl.
Qed.

(* The reservation is held as long as the upload is in progress: no other operation lowers
   allocated_size below the sum of the uploads still open -- stated as: an accepted or refused
   write, a read, a listing or an allocation never decrease it. *)
Theorem reservation_held_ok : forall cfg dk s o,
  (match o with OClose _ _ | OAbort _ _ | OAdvance _ | ODisconnect _ => False | _ => True end) ->
  allocated_size s <= allocated_size (fst (sstep cfg dk s o)).
Proof.
  intros cfg dk s o Ho. unfold sstep. destruct o; try contradiction; cbn [close_env step].
  - unfold allocate.
    destruct (alloc_loop (cf_readonly cfg) si size canary (st_now s) shs (st_slots s) (st_next s)
               (option_map (fun a : N => (Z.of_N a - Z.of_N (allocated_size s))%Z) (get_available_space cfg dk s)) [])
      as [[slots' next'] acc'] eqn:E.
    cbn [fst]. unfold allocated_size at 1 2. cbn [st_slots]. eapply alloc_loop_alloc_mono. exact E.
  - unfold write. destruct (get s k) as [|w|wid0 d0] eqn:Hg; cbn [fst]; try lia.
    destruct (w_id w =? wid); cbn [fst]; [|lia].
    unfold write_writer.
    assert (Hsame : forall w', w_size w' = w_size w ->
              allocated_size s <= allocated_size (with_slots s (set_slot k (Incoming w') (st_slots s)))).
    { intros w' Hw. unfold allocated_size. cbn [with_slots st_slots].
      pose proof (sum_set_slot slot_alloc (st_slots s) k (Incoming w') eq_refl) as A.
      fold (get s k) in A. rewrite Hg in A. cbn [slot_alloc] in A. lia. }
    destruct (blen d =? 0); cbn [fst snd]; [apply Hsame; reflexivity|].
    destruct (chunks_agree (w_data w) off d (rm_query off (off + blen d) (w_ranges w))); cbn [negb fst snd]; [|apply Hsame; reflexivity].
    destruct (w_size w <? off + blen d); cbn [fst snd]; apply Hsame; reflexivity.
  - cbn [fst]. lia.
  - cbn [fst]. lia.
  - cbn [fst]. lia.
Qed.
