(* C12, "concurrent writers are detected": two publishes whose survey-to-write windows
   overlap and that both send a guarded write for the same share cannot both finish
   unsurprised -- for every interleaving of any number of writers and any cells.
   Built on the ghost dirty sets and the invariant of Proofs/TestAndSetTrace.v. *)
From Coq Require Import List NArith Bool Lia Arith.
From Verif Require Import Model.TestAndSet Proofs.TestAndSet Proofs.TestAndSetTrace.
Import ListNotations.
Local Open Scope N_scope.

Definition surveyed (s : sys) (j : nat) : Prop :=
  exists w snap, nth_error (ws s) j = Some w /\ snapshot w = Some snap.
Definition surprised (s : sys) (j : nat) : Prop :=
  exists w, nth_error (ws s) j = Some w /\ w_surprised w = true.

Lemma single_survey_from_app a : forall s b,
  single_survey_from s (a ++ b) -> single_survey_from s a /\ single_survey_from (fold_left step a s) b.
Proof.
  induction a as [|e r IH]; intros s b H; cbn [app fold_left single_survey_from] in *; [auto|].
  destruct H as [H1 H2]. destruct (IH _ _ H2) as [A B]. auto.
Qed.

Lemma gfold_gs evs : forall g, gs (fold_left gstep evs g) = fold_left step evs (gs g).
Proof. induction evs as [|e r IH]; intro g; [reflexivity|]. cbn [fold_left]. rewrite IH, gstep_gs. reflexivity. Qed.

(* every snapshot has one entry per cell *)
Definition LInv (s : sys) : Prop :=
  forall j w snap, nth_error (ws s) j = Some w -> snapshot w = Some snap -> length snap = length (cells s).

Lemma linv_step s e : LInv s -> LInv (step s e).
Proof.
  intros HL. destruct e as [j0|j0 i0]; cbn [step].
  - destruct (nth_error (ws s) j0) as [w0|] eqn:E; [|exact HL].
    intros j w snap Hw Hs. cbn [ws cells] in *.
    destruct (ws_lookup_after _ _ _ _ _ _ E Hw) as [[-> ->]|[Hne Hold]].
    + cbn in Hs. inversion Hs. reflexivity.
    + exact (HL j w snap Hold Hs).
  - destruct (nth_error (ws s) j0) as [w0|] eqn:E; [|exact HL].
    destruct (snapshot w0) as [snap0|] eqn:Es; [|exact HL].
    destruct (nth_error (cells s) i0) as [cur|]; [|exact HL].
    destruct (nth_error snap0 i0) as [seen|]; [|exact HL].
    destruct (cur =? seen); intros j w snap Hw Hs; cbn [ws cells] in *; rewrite ?set_nth_length;
      (destruct (ws_lookup_after _ _ _ _ _ _ E Hw) as [[-> ->]|[Hne Hold]];
       [cbn in Hs; exact (HL j0 w0 snap E (eq_trans Es Hs))|exact (HL j w snap Hold Hs)]).
Qed.

Lemma linv_fold evs : forall s, LInv s -> LInv (fold_left step evs s).
Proof. induction evs as [|e r IH]; intros s H; [exact H|]. cbn [fold_left]. apply IH, linv_step, H. Qed.

Lemma linv_run ncells n evs : LInv (run ncells n evs).
Proof.
  apply linv_fold. intros j w snap Hw Hs. cbn in Hw. apply nth_error_In, repeat_spec in Hw. subst w. discriminate.
Qed.

(* a survey is never forgotten *)
Lemma surveyed_step s e o : surveyed s o -> surveyed (step s e) o.
Proof.
  intros [w [snap [Hw Hs]]].
  assert (Ho : (o < length (ws s))%nat) by (apply nth_error_Some; congruence).
  unfold surveyed. destruct e as [j0|j0 i0]; cbn [step].
  - destruct (nth_error (ws s) j0) as [w0|] eqn:E; [|exists w, snap; auto]. cbn [ws].
    destruct (Nat.eq_dec j0 o) as [->|Hne].
    + rewrite nth_error_set_nth_same by exact Ho. eexists; eexists; split; [reflexivity|reflexivity].
    + rewrite nth_error_set_nth_other by exact Hne. exists w, snap; auto.
  - destruct (nth_error (ws s) j0) as [w0|] eqn:E; [|exists w, snap; auto].
    destruct (snapshot w0) as [snap0|] eqn:Es; [|exists w, snap; auto].
    destruct (nth_error (cells s) i0) as [cur|]; [|exists w, snap; auto].
    destruct (nth_error snap0 i0) as [seen|]; [|exists w, snap; auto].
    destruct (cur =? seen); cbn [ws]; (destruct (Nat.eq_dec j0 o) as [->|Hne];
      [rewrite nth_error_set_nth_same by exact Ho; eexists; eexists; split; [reflexivity|cbn; reflexivity]
      |rewrite nth_error_set_nth_other by exact Hne; exists w, snap; auto]).
Qed.

Lemma surveyed_fold evs : forall s o, surveyed s o -> surveyed (fold_left step evs s) o.
Proof. induction evs as [|e r IH]; intros s o H; [exact H|]. cbn [fold_left]. apply IH, surveyed_step, H. Qed.

Lemma surprised_fold evs : forall s j, surprised s j -> surprised (fold_left step evs s) j.
Proof.
  induction evs as [|e r IH]; intros s j H; [exact H|]. cbn [fold_left]. apply IH.
  destruct H as [w [Hw Hs]]. exact (surprised_sticky_ok e s j w Hw Hs).
Qed.

(* the ghost set of a surveyed writer only grows while it does not survey again *)
Lemma dirty_step g e o i :
  surveyed (gs g) o -> survey_ok (gs g) e -> In i (dirty g o) -> In i (dirty (gstep g e) o).
Proof.
  intros [w [snap [Hw Hs]]] Hok Hin. destruct e as [j0|j0 i0]; cbn [gstep].
  - cbn [dirty]. destruct (Nat.eqb_spec o j0) as [->|Hne]; [|exact Hin].
    cbn [survey_ok] in Hok. rewrite (Hok w Hw) in Hs. discriminate.
  - destruct (applied (gs g) (Write j0 i0)); cbn [dirty]; [|exact Hin].
    destruct (Nat.eqb o j0); [exact Hin|right; exact Hin].
Qed.

Lemma dirty_fold evs : forall g o i,
  surveyed (gs g) o -> single_survey_from (gs g) evs -> In i (dirty g o) -> In i (dirty (fold_left gstep evs g) o).
Proof.
  induction evs as [|e r IH]; intros g o i Hsv Hss Hin; [exact Hin|]. cbn [fold_left].
  destruct Hss as [Hok Hrest]. apply IH.
  - rewrite gstep_gs. apply surveyed_step, Hsv.
  - rewrite gstep_gs. exact Hrest.
  - apply dirty_step; assumption.
Qed.

(* a guarded write of a surveyed writer to an existing cell is either applied or surprises the writer *)
Lemma write_outcome s j i :
  LInv s -> surveyed s j -> (i < length (cells s))%nat ->
  applied s (Write j i) = true \/ surprised (step s (Write j i)) j.
Proof.
  intros HL [w [snap [Hw Hs]]] Hi.
  assert (Hj : (j < length (ws s))%nat) by (apply nth_error_Some; congruence).
  destruct (nth_error (cells s) i) as [cur|] eqn:Hc; [|apply nth_error_None in Hc; lia].
  assert (Hlen : length snap = length (cells s)) by exact (HL j w snap Hw Hs).
  destruct (nth_error snap i) as [seen|] eqn:Hn; [|apply nth_error_None in Hn; lia].
  unfold applied. cbn [step]. rewrite Hw, Hs, Hc, Hn.
  destruct (cur =? seen); [left; reflexivity|right].
  cbn [ws]. eexists. split; [apply nth_error_set_nth_same, Hj|reflexivity].
Qed.

Lemma applied_dirties g j i o :
  applied (gs g) (Write j i) = true -> o <> j -> In i (dirty (gstep g (Write j i)) o).
Proof.
  intros Ha Hne. cbn [gstep]. rewrite Ha. cbn [dirty].
  destruct (Nat.eqb_spec o j) as [E|_]; [contradiction|left; reflexivity].
Qed.

Lemma applied_untouched_gen g j i : Inv g -> applied (gs g) (Write j i) = true -> ~ In i (dirty g j).
Proof.
  intros [HG _] Ha Hin. unfold applied in Ha.
  destruct (nth_error (ws (gs g)) j) as [w|] eqn:Hw; [|discriminate].
  destruct (snapshot w) as [snap|] eqn:Hs; [|discriminate].
  destruct (nth_error (cells (gs g)) i) as [cur|] eqn:Hc; [|discriminate].
  destruct (nth_error snap i) as [seen|] eqn:Hn; [|discriminate].
  apply N.eqb_eq in Ha. destruct (HG j w Hw) as [_ _ _ _ _ T].
  exact (T snap i cur seen Hs Hin Hc Hn Ha).
Qed.

Lemma dirty_write_surprises g o i :
  Inv g -> LInv (gs g) -> surveyed (gs g) o -> (i < length (cells (gs g)))%nat -> In i (dirty g o) ->
  surprised (step (gs g) (Write o i)) o.
Proof.
  intros HI HL Hsv Hi Hin. destruct (write_outcome (gs g) o i HL Hsv Hi) as [Ha|Hs]; [|exact Hs].
  exfalso. exact (applied_untouched_gen g o i HI Ha Hin).
Qed.

(* ---- the race theorem ---- *)
Lemma overlapping_publishes_detected_ok ncells n pre mid post j o i :
  single_survey ncells n (pre ++ Write j i :: mid ++ Write o i :: post) ->
  j <> o -> (i < ncells)%nat ->
  surveyed (run ncells n pre) j -> surveyed (run ncells n pre) o ->
  let s := run ncells n (pre ++ Write j i :: mid ++ Write o i :: post) in
  surprised s j \/ surprised s o.
Proof.
  intros Hss Hne Hi Hsj Hso s.
  unfold single_survey in Hss. apply single_survey_from_app in Hss. destruct Hss as [Hpre Hrest].
  fold (run ncells n pre) in Hrest. cbn [single_survey_from] in Hrest. destruct Hrest as [_ Hrest].
  apply single_survey_from_app in Hrest. destruct Hrest as [Hmid Hlast].
  set (g1 := grun ncells n pre).
  assert (G1 : gs g1 = run ncells n pre) by apply grun_gs.
  assert (I1 : Inv g1) by (apply inv_run; exact Hpre).
  assert (S : s = fold_left step post (step (fold_left step mid (step (run ncells n pre) (Write j i))) (Write o i))).
  { unfold s, run. rewrite fold_left_app. cbn [fold_left]. rewrite fold_left_app. reflexivity. }
  assert (Hlen1 : length (cells (run ncells n pre)) = ncells) by (destruct (run_cells_ok ncells n pre) as [_ [_ L]]; exact L).
  destruct (write_outcome (run ncells n pre) j i (linv_run ncells n pre) Hsj) as [Ha|Hsur]; [lia| |].
  - (* j's write is applied: the cell becomes dirty for o and stays so until o's write, which is refused *)
    right. rewrite S. apply surprised_fold.
    set (g2 := gstep g1 (Write j i)).
    set (g3 := fold_left gstep mid g2).
    assert (G2 : gs g2 = step (run ncells n pre) (Write j i)) by (unfold g2; rewrite gstep_gs, G1; reflexivity).
    assert (G3 : gs g3 = fold_left step mid (step (run ncells n pre) (Write j i))) by (unfold g3; rewrite gfold_gs, G2; reflexivity).
    rewrite <- G3.
    assert (I3 : Inv g3).
    { unfold g3, g2. change (Inv (fold_left gstep (Write j i :: mid) g1)). apply inv_run_gen; [exact I1|].
      rewrite G1. cbn [single_survey_from survey_ok]. split; [exact I|exact Hmid]. }
    apply dirty_write_surprises.
    + exact I3.
    + rewrite G3. apply linv_fold, linv_step, linv_run.
    + rewrite G3. apply surveyed_fold, surveyed_step, Hso.
    + rewrite G3.
      assert (E : fold_left step mid (step (run ncells n pre) (Write j i)) = run ncells n (pre ++ Write j i :: mid))
        by (unfold run; rewrite fold_left_app; reflexivity).
      rewrite E. destruct (run_cells_ok ncells n (pre ++ Write j i :: mid)) as [_ [_ L]]. rewrite L. exact Hi.
    + unfold g3. apply dirty_fold.
      * rewrite G2. apply surveyed_step, Hso.
      * rewrite G2. exact Hmid.
      * unfold g2. apply applied_dirties; [rewrite G1; exact Ha|congruence].
  - (* j's write is refused: j is surprised, for good *)
    left. rewrite S. apply surprised_fold.
    destruct (surprised_fold mid _ _ Hsur) as [w [Hw Hs]].
    exact (surprised_sticky_ok (Write o i) _ j w Hw Hs).
Qed.
