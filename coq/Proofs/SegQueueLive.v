(* C46 / C04: no reader is ever stranded, and the system's own steps decrease a measure.

   `pending_ok`: in every reachable state every unfinished, hungry reader has a
   queued _maybe_fetch_next, or an outstanding get_segment request that is still in
   the node's queue or among the queued deliveries and has not been cancelled.
   Together with queue_ok (Proofs/SegQueueBase.v: a request in the queue implies an
   active fetcher for a requested segment) this is no_stuck_state; other readers'
   pause / stop / reads never remove a reader's request (readers_independent).

   `weight`: 3 * (bytes still wanted + one possible retry) + 2 if idle + queued
   _maybe_fetch_next per unfinished reader, + 2 per queued request + 1 per queued
   delivery.  Every step the system takes by itself (a queued eventual-send runs, the
   active fetcher reports) strictly decreases it. *)
From Coq Require Import List NArith Bool Arith Lia.
From Verif Require Import Model.SegQueue Proofs.SegQueueBase Proofs.SegQueueRange.
Import ListNotations.

(* a request handle that can still fire *)
Definition live (s : sys) (rid : N) : Prop :=
  ~ In rid (s_inactive s) /\ (In rid (map r_id (s_reqs s)) \/ In rid (map fst (s_deliveries s))).

Definition reader_pending (s : sys) (r : reader) : Prop :=
  rd_result r = None ->
  (forall sg rid k, rd_active r = Some (sg, rid, k) -> live s rid) /\
  (rd_hungry r = true -> rd_mfn r > 0 \/ rd_active r <> None).

(* `skip`: the reader whose record is about to be replaced is exempt from the two
   per-reader clauses *)
Record LInvX (skip : option nat) (s : sys) : Prop := {
  l_inactive_fresh : forall x, In x (s_inactive s) -> (x < s_next_rid s)%N;
  l_req_fresh : forall q, In q (s_reqs s) -> (r_id q < s_next_rid s)%N;
  l_del_fresh : forall d, In d (s_deliveries s) -> (fst d < s_next_rid s)%N;
  l_active_fresh : forall i r sg rid k, nth_error (s_readers s) i = Some r -> rd_active r = Some (sg, rid, k) -> (rid < s_next_rid s)%N;
  l_uniq : forall i j ri rj sa sb rid ka kb,
      nth_error (s_readers s) i = Some ri -> nth_error (s_readers s) j = Some rj ->
      rd_active ri = Some (sa, rid, ka) -> rd_active rj = Some (sb, rid, kb) -> i = j;
  l_alive : forall i r, skip <> Some i -> nth_error (s_readers s) i = Some r -> rd_result r = None -> rd_alive r = true;
  l_pending : forall i r, skip <> Some i -> nth_error (s_readers s) i = Some r -> reader_pending s r;
  l_known : forall d, In d (s_deliveries s) ->
      (exists n, snd d = SegData n) \/ snd d = SegErr EBadSegNum -> s_known s = true;
  l_finished : forall i r, nth_error (s_readers s) i = Some r -> rd_result r <> None -> rd_active r = None /\ rd_alive r = false
}.

Definition LInv := LInvX None.

Lemma linv_skip s i : LInv s -> LInvX (Some i) s.
Proof. intros []. constructor; auto; intros; [eapply l_alive0|eapply l_pending0]; eauto; discriminate. Qed.

(* what the fetchers may report: blocks can only be decoded, and a segment number only
   be refused, once the UEB is known *)
Definition sev_ok (s : sys) (e : sev) : Prop :=
  match e with
  | SBlocks _ _ => s_known s = true
  | SFetchFailed EBadSegNum => s_known s = true
  | _ => True
  end.

Lemma find_reader_none rid : forall l i0,
  find_reader rid l i0 = None -> forall j r sg k, nth_error l j = Some r -> rd_active r <> Some (sg, rid, k).
Proof.
  induction l as [|x rest IH]; intros i0 H j r sg k Hn; [destruct j; discriminate|].
  cbn [find_reader] in H. destruct j as [|j]; cbn [nth_error] in Hn.
  - inversion Hn; subst. intros E. rewrite E in H. rewrite N.eqb_refl in H. discriminate.
  - destruct (rd_active x) as [[[sg' rid'] k']|]; [destruct (N.eqb rid' rid); [discriminate|]|]; eapply IH; eauto.
Qed.

Section Live.
  Variable ct : list N.
  Variables segsize guess : N.

  Notation mfn := (maybe_fetch_next segsize guess).
  Notation fired := (reader_fired ct segsize guess).
  Notation step := (sstep true ct segsize guess).
  Notation run := (srun true ct segsize guess).

  (* ---- node-only changes ------------------------------------------------------------ *)
  (* a new state whose readers are the old ones and whose node part keeps every live
     handle live and the freshness bounds *)
  Definition node_ext (s s' : sys) : Prop :=
    s_readers s' = s_readers s /\ (s_next_rid s <= s_next_rid s')%N /\
    (forall rid, live s rid -> live s' rid) /\
    (forall x, In x (s_inactive s') -> In x (s_inactive s)) /\
    (forall q, In q (s_reqs s') -> In q (s_reqs s)) /\
    (s_known s = true -> s_known s' = true).

  Lemma live_same s s' :
    s_inactive s' = s_inactive s -> s_reqs s' = s_reqs s -> s_deliveries s' = s_deliveries s ->
    forall rid, live s rid <-> live s' rid.
  Proof. intros A B C rid. unfold live. rewrite A, B, C. tauto. Qed.

  Lemma start_new_live s rid : live s rid <-> live (fst (start_new s)) rid.
  Proof. destruct (start_new_fields s) as (A & _ & B & C & _). apply live_same; auto. Qed.

  Lemma extract_live s seg res rid : live s rid -> live (extract s seg res) rid.
  Proof.
    unfold live, extract. cbn [upd_node s_inactive s_reqs s_deliveries]. intros [A B]. split; [exact A|].
    rewrite map_app, map_map. cbn [fst].
    destruct B as [B|B]; [|right; apply in_or_app; now left].
    apply in_map_iff in B. destruct B as (q & E & Hq).
    destruct (N.eqb (r_seg q) seg) eqn:S.
    - right. apply in_or_app. right. apply in_map_iff. exists q. split; [exact E|]. apply filter_In. now split.
    - left. apply in_map_iff. exists q. split; [exact E|]. apply filter_In. split; [exact Hq|]. now rewrite S.
  Qed.

  Lemma clear_active_live s rid : live s rid <-> live (clear_active s) rid.
  Proof. apply live_same; reflexivity. Qed.

  (* ---- the invariant through reader updates ------------------------------------------ *)
  (* replacing reader i by r' in a state s' whose node part extends that of s *)
  Lemma linv_update s s' i r r' :
    LInvX (Some i) s -> nth_error (s_readers s) i = Some r ->
    s_readers s' = s_readers s ->
    (s_next_rid s <= s_next_rid s')%N ->
    (forall rid, live s rid -> (forall sg k, rd_active r <> Some (sg, rid, k)) -> live s' rid) ->
    (forall x, In x (s_inactive s') -> (x < s_next_rid s')%N) ->
    (forall q, In q (s_reqs s') -> (r_id q < s_next_rid s')%N) ->
    (forall d, In d (s_deliveries s') -> (fst d < s_next_rid s')%N) ->
    (forall d, In d (s_deliveries s') -> (exists n, snd d = SegData n) \/ snd d = SegErr EBadSegNum -> s_known s' = true) ->
    (* the new record of reader i *)
    (forall sg rid k, rd_active r' = Some (sg, rid, k) ->
        (rid < s_next_rid s')%N /\ (rd_active r = Some (sg, rid, k) \/ (s_next_rid s <= rid)%N)) ->
    (rd_result r' = None -> rd_alive r' = true) ->
    (rd_result r' <> None -> rd_active r' = None /\ rd_alive r' = false) ->
    reader_pending s' r' ->
    LInv (set_reader s' i r').
  Proof.
    intros L Hn Hrd Hnext Hlive Hin Hreq Hdel Hkn Hact Halive Hfin Hpend.
    assert (Hi : i < length (s_readers s')) by (rewrite Hrd; apply nth_error_Some; congruence).
    constructor; cbn [set_reader s_inactive s_reqs s_deliveries s_readers s_next_rid s_known]; auto.
    - intros j x sg rid k Hj Hx. apply nth_error_set_nth in Hj. destruct Hj as [(E & E2 & _)|(NE & Hj)].
      + subst. now apply (Hact sg rid k).
      + rewrite Hrd in Hj. pose proof (l_active_fresh _ s L _ _ _ _ _ Hj Hx). lia.
    - intros a b ra rb sa sb rid ka kb Ha Hb Aa Ab.
      apply nth_error_set_nth in Ha. apply nth_error_set_nth in Hb.
      destruct Ha as [(Ea & Ea2 & _)|(NEa & Ha)], Hb as [(Eb & Eb2 & _)|(NEb & Hb)]; subst; auto.
      + rewrite Hrd in Hb. destruct (Hact _ _ _ Aa) as (_ & [Old|New]).
        * eapply (l_uniq _ s L); eauto.
        * pose proof (l_active_fresh _ s L _ _ _ _ _ Hb Ab). lia.
      + rewrite Hrd in Ha. destruct (Hact _ _ _ Ab) as (_ & [Old|New]).
        * eapply (l_uniq _ s L); eauto.
        * pose proof (l_active_fresh _ s L _ _ _ _ _ Ha Aa). lia.
      + rewrite Hrd in Ha, Hb. eapply (l_uniq _ s L); eauto.
    - intros j x _ Hj. apply nth_error_set_nth in Hj. destruct Hj as [(E & E2 & _)|(NE & Hj)]; [subst; exact Halive|].
      rewrite Hrd in Hj. eapply (l_alive _ s L); eauto. congruence.
    - intros j x _ Hj. apply nth_error_set_nth in Hj. destruct Hj as [(E & E2 & _)|(NE & Hj)].
      + subst. unfold reader_pending, live in *. exact Hpend.
      + rewrite Hrd in Hj. assert (Some i <> Some j) as NS by congruence.
        pose proof (l_pending _ s L _ _ NS Hj) as P. unfold reader_pending in *. intros A.
        destruct (P A) as [P1 P2]. split; [|exact P2]. intros sg rid k Ac.
        assert (live s' rid) as Lv'.
        { apply Hlive; [eapply P1; eauto|]. intros sg' k' Er. apply NE. eapply (l_uniq _ s L); eauto. }
        unfold live in *. exact Lv'.
    - intros j x Hj. apply nth_error_set_nth in Hj. destruct Hj as [(E & E2 & _)|(NE & Hj)]; [subst; exact Hfin|].
      rewrite Hrd in Hj. eapply (l_finished _ s L); eauto.
  Qed.

  (* get_segment keeps every live handle live and makes the new one live *)
  Lemma get_segment_live sk s w :
    LInvX sk s ->
    let s' := fst (fst (get_segment s w)) in
    (forall rid, live s rid -> live s' rid) /\ live s' (s_next_rid s).
  Proof.
    intros L. destruct (get_segment_fields s w) as (R & Nx & In & D & K & Rd & _). cbn zeta.
    split.
    - intros rid [A B]. unfold live. rewrite In, R, D. split; [exact A|].
      destruct B as [B|B]; [left; rewrite map_app; apply in_or_app; now left|now right].
    - unfold live. rewrite In, R. split.
      + intros H. pose proof (l_inactive_fresh _ s L _ H). lia.
      + left. rewrite map_app. apply in_or_app. right. now left.
  Qed.

  (* _maybe_fetch_next for reader i whose (old) record is r0; r is the record it works on *)
  Lemma mfn_linv s i r0 r :
    LInvX (Some i) s -> nth_error (s_readers s) i = Some r0 ->
    (rd_active r = None \/ rd_active r = rd_active r0) ->
    (rd_result r = None -> rd_alive r = true) ->
    (rd_result r <> None -> rd_active r = None /\ rd_alive r = false) ->
    (* with a request outstanding the handle is live *)
    (rd_result r = None -> forall sg rid k, rd_active r = Some (sg, rid, k) -> live s rid) ->
    LInv (fst (mfn s i r)).
  Proof.
    intros L Hn Hact Halive Hfin Hlv.
    destruct (mfn_cases segsize guess s i r) as [Idle|A H Ac Z|w A H Ac NZ]; cbn [fst].
    - apply (linv_update s s i r0 r L Hn).
      + reflexivity.
      + lia.
      + auto.
      + apply (l_inactive_fresh _ s L).
      + apply (l_req_fresh _ s L).
      + apply (l_del_fresh _ s L).
      + apply (l_known _ s L).
      + intros sg rid k E. destruct Hact as [N|Same]; [congruence|].
        split; [|left; congruence]. apply (l_active_fresh _ s L i r0 sg rid k Hn). congruence.
      + exact Halive.
      + exact Hfin.
      + unfold reader_pending. intros R. split; [now apply Hlv|].
        intros Hg. right. destruct Idle as [I|[I|I]]; [rewrite (Halive R) in I; discriminate|congruence|exact I].
    - apply (linv_update s s i r0 (rd_finish r RDone) L Hn).
      + reflexivity.
      + lia.
      + auto.
      + apply (l_inactive_fresh _ s L).
      + apply (l_req_fresh _ s L).
      + apply (l_del_fresh _ s L).
      + apply (l_known _ s L).
      + cbn. intros sg rid k E. congruence.
      + cbn. discriminate.
      + cbn. intros _. split; [exact Ac|reflexivity].
      + unfold reader_pending. cbn. discriminate.
    - destruct (get_segment_fields s w) as (R & Nx & In & D & K & Rd & _).
      destruct (get_segment_live _ s w L) as (Lold & Lnew). cbn zeta in *.
      apply (linv_update s (fst (fst (get_segment s w))) i r0 (rd_set_active r (Some (w, s_next_rid s, s_known s))) L Hn).
      + exact Rd.
      + lia.
      + intros rid Lv _. now apply Lold.
      + rewrite In, Nx. intros x Hx. pose proof (l_inactive_fresh _ s L _ Hx). lia.
      + rewrite R, Nx. intros q Hq. apply in_app_or in Hq. destruct Hq as [Hq|[Hq|[]]].
        * pose proof (l_req_fresh _ s L _ Hq). lia.
        * subst q. cbn. lia.
      + rewrite D, Nx. intros d Hd. pose proof (l_del_fresh _ s L _ Hd). lia.
      + rewrite D, K. apply (l_known _ s L).
      + cbn [rd_set_active rd_active]. intros sg rid k E. inversion E; subst. rewrite Nx. split; [lia|right; lia].
      + cbn. intros _. exact A.
      + cbn [rd_set_active rd_result rd_active rd_alive]. intros X. destruct (Hfin X) as [_ Y]. congruence.
      + unfold reader_pending. cbn [rd_set_active rd_result rd_hungry rd_mfn rd_active]. intros _. split.
        * intros sg rid k E. inversion E; subst. exact Lnew.
        * intros _. right. discriminate.
  Qed.


  (* a change of the node part only *)
  Lemma linv_node sk s s' :
    LInvX sk s ->
    s_readers s' = s_readers s ->
    (s_next_rid s <= s_next_rid s')%N ->
    (forall i r sg rid k, sk <> Some i -> nth_error (s_readers s) i = Some r -> rd_active r = Some (sg, rid, k) ->
        live s rid -> live s' rid) ->
    (forall x, In x (s_inactive s') -> (x < s_next_rid s')%N) ->
    (forall q, In q (s_reqs s') -> (r_id q < s_next_rid s')%N) ->
    (forall d, In d (s_deliveries s') -> (fst d < s_next_rid s')%N) ->
    (forall d, In d (s_deliveries s') -> (exists n, snd d = SegData n) \/ snd d = SegErr EBadSegNum -> s_known s' = true) ->
    LInvX sk s'.
  Proof.
    intros L Hrd Hnext Hlive Hin Hreq Hdel Hkn.
    constructor; auto.
    - rewrite Hrd. intros i r sg rid k Hi Ha. pose proof (l_active_fresh _ s L _ _ _ _ _ Hi Ha). lia.
    - rewrite Hrd. apply (l_uniq _ s L).
    - rewrite Hrd. apply (l_alive _ s L).
    - rewrite Hrd. intros i r Hs Hi. pose proof (l_pending _ s L i r Hs Hi) as P. unfold reader_pending in *.
      intros A. destruct (P A) as [P1 P2]. split; [|exact P2]. intros sg rid k Ac. eapply Hlive; eauto.
    - rewrite Hrd. apply (l_finished _ s L).
  Qed.

  Lemma cancel_fields s rid :
    let s' := fst (cancel s rid) in
    s_next_rid s' = s_next_rid s /\ s_deliveries s' = s_deliveries s /\ s_known s' = s_known s /\
    (forall x, In x (s_inactive s') -> x = rid \/ In x (s_inactive s)) /\
    (forall q, In q (s_reqs s') -> In q (s_reqs s)) /\
    (forall rid', live s rid' -> rid' <> rid -> live s' rid').
  Proof.
    cbn zeta. unfold cancel. destruct (nmem rid (s_inactive s)) eqn:M.
    { cbn [fst]. split; [reflexivity|split; [reflexivity|split; [reflexivity|split; [auto|split; [auto|auto]]]]]. }
    set (reqs := filter (fun r => negb (r_id r =? rid)%N) (s_reqs s)).
    set (s1 := upd_node s reqs (s_active s) (s_next_fid s) (s_next_rid s) (rid :: s_inactive s) (s_deliveries s)).
    assert (B1 : s_next_rid s1 = s_next_rid s /\ s_deliveries s1 = s_deliveries s /\ s_known s1 = s_known s /\
                 (forall x, In x (s_inactive s1) -> x = rid \/ In x (s_inactive s)) /\
                 (forall q, In q (s_reqs s1) -> In q (s_reqs s)) /\
                 (forall rid', live s rid' -> rid' <> rid -> live s1 rid')).
    { cbn [s1 upd_node s_next_rid s_deliveries s_known s_inactive s_reqs].
      split; [reflexivity|split; [reflexivity|split; [reflexivity|split; [|split]]]].
      - intros x [H|H]; auto.
      - intros q Hq. apply filter_In in Hq. tauto.
      - intros rid' [A B] NE. unfold live. cbn [s1 upd_node s_inactive s_reqs s_deliveries]. split.
        + intros [E|E]; [congruence|contradiction].
        + destruct B as [B|B]; [|now right]. left. apply in_map_iff in B. destruct B as (q & E & Hq).
          apply in_map_iff. exists q. split; [exact E|]. apply filter_In. split; [exact Hq|].
          apply negb_true_iff. apply N.eqb_neq. congruence. }
    cbn [upd_node s_active]. fold s1. change (s_active s1) with (s_active s).
    destruct (s_active s) as [[fid seg]|]; [|exact B1].
    destruct (nmem seg (map r_seg reqs)); [exact B1|].
    pose proof (start_new_fields (clear_active s1)) as F.
    destruct (start_new (clear_active s1)) as [s2 o] eqn:E. cbn [fst] in *.
    destruct F as (F1 & F2 & F3 & F4 & F5 & F6). destruct B1 as (C1 & C2 & C3 & C4 & C5 & C6).
    cbn [clear_active upd_node s_reqs s_next_rid s_inactive s_deliveries s_known] in *.
    rewrite F2, F4, F5. split; [exact C1|split; [exact C2|split; [exact C3|split; [|split]]]].
    - rewrite F3. exact C4.
    - rewrite F1. exact C5.
    - intros rid' Lv NE. destruct (C6 rid' Lv NE) as [A B]. unfold live. rewrite F3, F1, F4. split; assumption.
  Qed.

  Lemma linv_append s x :
    LInv s -> rd_active x = None -> (rd_result x <> None -> rd_alive x = false) ->
    LInvX (Some (length (s_readers s)))
      (mk_sys (s_reqs s) (s_active s) (s_next_fid s) (s_next_rid s) (s_inactive s) (s_deliveries s) (s_known s) (s_readers s ++ [x])).
  Proof.
    intros L Hx Hd. constructor; cbn [s_inactive s_reqs s_deliveries s_readers s_next_rid s_known].
    - apply (l_inactive_fresh _ s L).
    - apply (l_req_fresh _ s L).
    - apply (l_del_fresh _ s L).
    - intros i r sg rid k Hi Ha. apply nth_error_snoc in Hi. destruct Hi as [[_ Hi]|[_ E]]; [|subst; congruence].
      eapply (l_active_fresh _ s L); eauto.
    - intros i j ri rj sa sb rid ka kb Hi Hj Ai Aj.
      apply nth_error_snoc in Hi. apply nth_error_snoc in Hj.
      destruct Hi as [[_ Hi]|[_ E]]; [|subst; congruence]. destruct Hj as [[_ Hj]|[_ E]]; [|subst; congruence].
      eapply (l_uniq _ s L); eauto.
    - intros i r Hs Hi. apply nth_error_snoc in Hi. destruct Hi as [[_ Hi]|[E _]]; [|subst; congruence].
      eapply (l_alive _ s L); eauto. discriminate.
    - intros i r Hs Hi. apply nth_error_snoc in Hi. destruct Hi as [[_ Hi]|[E _]]; [|subst; congruence].
      pose proof (l_pending _ s L i r ltac:(discriminate) Hi) as P. unfold reader_pending, live in *. exact P.
    - apply (l_known _ s L).
    - intros i r Hi Hr. apply nth_error_snoc in Hi. destruct Hi as [[_ Hi]|[_ E]]; [eapply (l_finished _ s L); eauto|].
      subst. auto.
  Qed.

  Lemma linv_x_none s i : LInvX (Some i) s -> length (s_readers s) <= i -> LInv s.
  Proof.
    intros [] Hi. constructor; auto.
    - intros j r _ Hj. eapply l_alive0; eauto. intros E. inversion E; subst.
      assert (j < length (s_readers s)) by (apply nth_error_Some; congruence). lia.
    - intros j r _ Hj. eapply l_pending0; eauto. intros E. inversion E; subst.
      assert (j < length (s_readers s)) by (apply nth_error_Some; congruence). lia.
  Qed.

  Lemma linv_x_fill s i : LInvX (Some i) s ->
    (forall r, nth_error (s_readers s) i = Some r -> (rd_result r = None -> rd_alive r = true) /\ reader_pending s r) -> LInv s.
  Proof.
    intros [] H. constructor; auto.
    - intros j r _ Hj. destruct (Nat.eq_dec i j) as [E|NE]; [subst; now apply (H r Hj)|]. eapply l_alive0; eauto. congruence.
    - intros j r _ Hj. destruct (Nat.eq_dec i j) as [E|NE]; [subst; now apply (H r Hj)|]. eapply l_pending0; eauto. congruence.
  Qed.

  (* the state after popping the delivery of handle rid for reader i *)
  Lemma linv_pop s rid res rest i r sg k :
    LInv s -> s_deliveries s = (rid, res) :: rest ->
    nth_error (s_readers s) i = Some r -> rd_active r = Some (sg, rid, k) ->
    LInvX (Some i) (upd_node s (s_reqs s) (s_active s) (s_next_fid s) (s_next_rid s) (rid :: s_inactive s) rest).
  Proof.
    intros L D Hi Ha.
    assert (Hrid : (rid < s_next_rid s)%N) by (apply (l_del_fresh _ s L (rid, res)); rewrite D; now left).
    apply (linv_node (Some i) s); [now apply linv_skip|reflexivity|cbn; lia| | | | |]; cbn [upd_node s_inactive s_reqs s_deliveries s_next_rid s_known].
    - intros j rj sgj ridj kj Hs Hj Aj [A B].
      assert (ridj <> rid) as NE.
      { intros E. subst ridj. apply Hs. f_equal. eapply (l_uniq _ s L); eauto. }
      split; [intros [E|E]; [congruence|contradiction]|].
      destruct B as [B|B]; [now left|right]. rewrite D in B. cbn in B. destruct B as [B|B]; [congruence|exact B].
    - intros x [E|E]; [subst; exact Hrid|now apply (l_inactive_fresh _ s L)].
    - apply (l_req_fresh _ s L).
    - intros d Hd. apply (l_del_fresh _ s L). rewrite D. now right.
    - intros d Hd. apply (l_known _ s L). rewrite D. now right.
  Qed.

  (* replacing reader i by a record without an active request *)
  Lemma linv_set_idle s i r r' :
    LInvX (Some i) s -> nth_error (s_readers s) i = Some r ->
    rd_active r' = None -> (rd_result r' = None -> rd_alive r' = true) -> (rd_result r' <> None -> rd_alive r' = false) ->
    (rd_result r' = None -> rd_hungry r' = true -> rd_mfn r' > 0) ->
    LInv (set_reader s i r').
  Proof.
    intros L Hi Ha Hal Hd Hp. apply (linv_update s s i r r' L Hi); auto; try lia.
    - apply (l_inactive_fresh _ s L).
    - apply (l_req_fresh _ s L).
    - apply (l_del_fresh _ s L).
    - apply (l_known _ s L).
    - intros sg rid k E. congruence.
    - unfold reader_pending. intros A. split; [intros sg rid k E; congruence|]. intros B. left. auto.
  Qed.

  Lemma fired_linv s i r k res react :
    LInvX (Some i) s -> nth_error (s_readers s) i = Some r -> rd_alive r = true -> rd_result r = None ->
    LInv (fst (fired s i r k res react)).
  Proof.
    intros L Hi Hal Hres. unfold reader_fired.
    assert (M : forall r1, rd_active r1 = None -> rd_alive r1 = true -> rd_result r1 = None -> LInv (fst (mfn s i r1))).
    { intros r1 A1 Al1 R1. apply (mfn_linv s i r r1 L Hi); auto; try congruence. }
    destruct res as [segnum|e].
    - destruct (overlap _ _ _ _) as [[o0 o1]|].
      + destruct (N.eqb o0 _).
        * destruct react.
          -- destruct (mfn s i _) as [s2 o] eqn:E. cbn [fst]. change s2 with (fst (s2, o)). rewrite <- E.
             apply M; cbn; auto.
          -- cbn [fst]. eapply linv_set_idle; eauto; cbn; auto; congruence.
          -- cbn [fst]. eapply linv_set_idle; eauto; cbn; auto; discriminate.
        * destruct k; [cbn [fst rd_error]; eapply linv_set_idle; eauto; cbn; auto; discriminate|apply M; cbn; auto].
      + destruct k; [cbn [fst rd_error]; eapply linv_set_idle; eauto; cbn; auto; discriminate|apply M; cbn; auto].
    - destruct e, k; try (cbn [fst rd_error]; eapply linv_set_idle; eauto; cbn; auto; discriminate).
      apply M; cbn; auto.
  Qed.

  (* ---- every guarded step keeps the invariant ------------------------------------------ *)
  Lemma linv_init : LInv sinit.
  Proof.
    constructor; cbn [sinit s_inactive s_reqs s_deliveries s_readers s_next_rid s_known].
    - intros x [].
    - intros q [].
    - intros d [].
    - intros i r sg rid k H. destruct i; discriminate.
    - intros i j ri rj sa sb rid ka kb H. destruct i; discriminate.
    - intros i r _ H. destruct i; discriminate.
    - intros i r _ H. destruct i; discriminate.
    - intros d [].
    - intros i r H. destruct i; discriminate.
  Qed.

  Lemma finish_linv s fid seg res :
    LInv s -> s_active s = Some (fid, seg) ->
    ((exists n, res = SegData n) \/ res = SegErr EBadSegNum -> s_known s = true) ->
    LInv (fst (start_new (extract (clear_active s) seg res))).
  Proof.
    intros L A Hk.
    assert (Lv1 : forall rid, live s rid -> live (extract (clear_active s) seg res) rid).
    { intros rid Lv. apply extract_live. now apply clear_active_live. }
    destruct (start_new_fields (extract (clear_active s) seg res)) as (F1 & F2 & F3 & F4 & F5 & F6).
    destruct (extract_fields (clear_active s) seg res) as (E1 & E2 & E3 & E4 & E5 & E6 & E7).
    set (s1 := extract (clear_active s) seg res) in *. set (s2 := fst (start_new s1)) in *.
    cbn [clear_active upd_node s_active s_next_rid s_inactive s_known s_readers s_reqs s_deliveries] in E1, E2, E3, E4, E5, E6, E7.
    apply (linv_node None s s2 L).
    - now rewrite F6, E5.
    - rewrite F2, E2. lia.
    - intros i r sg rid k _ Hi Ha Lv. specialize (Lv1 rid Lv). unfold live in *. rewrite F3, F1, F4. exact Lv1.
    - rewrite F3, F2, E3, E2. apply (l_inactive_fresh _ s L).
    - rewrite F1, F2, E6, E2. intros q Hq. apply filter_In in Hq. apply (l_req_fresh _ s L). tauto.
    - rewrite F4, F2, E7, E2. intros d Hd. apply in_app_or in Hd. destruct Hd as [Hd|Hd]; [now apply (l_del_fresh _ s L)|].
      apply in_map_iff in Hd. destruct Hd as (q & E & Hq). subst d. cbn. apply filter_In in Hq. apply (l_req_fresh _ s L). tauto.
    - rewrite F4, F5, E7, E4. intros d Hd Hx. apply in_app_or in Hd. destruct Hd as [Hd|Hd]; [now apply (l_known _ s L d)|].
      apply in_map_iff in Hd. destruct Hd as (q & E & Hq). subst d. cbn in Hx. now apply Hk.
  Qed.

  Lemma step_linv s e : LInv s -> sev_ok s e -> LInv (fst (step s e)).
  Proof.
    intros L Hok. destruct e as [off sz|i|i|i|i| |e|ok e|react]; cbn [sstep].
    - (* read *)
      destruct (N.eqb (read_clip (fsize ct) off sz) 0).
      + cbn [fst]. eapply linv_x_fill.
        * apply (linv_append s _ L); cbn; auto.
        * cbn [s_readers]. intros r Hr. rewrite nth_error_app2, Nat.sub_diag in Hr by lia. cbn in Hr. inversion Hr; subst.
          unfold reader_pending. cbn. split; discriminate.
      + set (r := mk_reader off (read_clip (fsize ct) off sz) true true None [] None 0 off (read_clip (fsize ct) off sz)).
        assert (LX : LInvX (Some (length (s_readers s))) (mk_sys (s_reqs s) (s_active s) (s_next_fid s) (s_next_rid s) (s_inactive s) (s_deliveries s) (s_known s) (s_readers s ++ [r]))).
        { apply (linv_append s r L); cbn; auto. congruence. }
        apply (mfn_linv _ (length (s_readers s)) r r LX); cbn; auto; try congruence.
        now rewrite nth_error_app2, Nat.sub_diag by lia.
    - (* pause *)
      destruct (nth_error _ i) as [r|] eqn:E; [|exact L]. destruct (rd_result r) eqn:Rr; [exact L|]. cbn [fst].
      pose proof (l_pending _ s L i r ltac:(discriminate) E Rr) as [P1 P2].
      apply (linv_update s s i r _ (linv_skip s i L) E).
      + reflexivity.
      + lia.
      + auto.
      + apply (l_inactive_fresh _ s L).
      + apply (l_req_fresh _ s L).
      + apply (l_del_fresh _ s L).
      + apply (l_known _ s L).
      + cbn. intros sg rid k Ea. split; [eapply (l_active_fresh _ s L); eauto|now left].
      + cbn. intros _. eapply (l_alive _ s L); eauto. discriminate.
      + cbn. congruence.
      + unfold reader_pending. cbn. intros _. split; [exact P1|discriminate].
    - (* resume *)
      destruct (nth_error _ i) as [r|] eqn:E; [|exact L]. destruct (rd_result r) eqn:Rr; [exact L|]. cbn [fst].
      pose proof (l_pending _ s L i r ltac:(discriminate) E Rr) as [P1 P2].
      apply (linv_update s s i r _ (linv_skip s i L) E).
      + reflexivity.
      + lia.
      + auto.
      + apply (l_inactive_fresh _ s L).
      + apply (l_req_fresh _ s L).
      + apply (l_del_fresh _ s L).
      + apply (l_known _ s L).
      + cbn. intros sg rid k Ea. split; [eapply (l_active_fresh _ s L); eauto|now left].
      + cbn. intros _. eapply (l_alive _ s L); eauto. discriminate.
      + cbn. congruence.
      + unfold reader_pending. cbn. intros _. split; [exact P1|]. intros _. left. lia.
    - (* stop *)
      destruct (nth_error _ i) as [r|] eqn:E; [|exact L]. destruct (rd_result r) eqn:Rr; [exact L|].
      destruct (rd_active r) as [[[sg rid] k]|] eqn:Ea.
      + destruct (cancel_fields s rid) as (C1 & C2 & C3 & C4 & C5 & C6). pose proof (cancel_readers s rid) as C7.
        destruct (cancel s rid) as [s1 o]. cbn [fst] in *.
        apply (linv_update s s1 i r _ (linv_skip s i L) E).
        * exact C7.
        * lia.
        * intros rid' Lv Hne. apply C6; [exact Lv|]. intros Er. subst. apply (Hne sg k). exact Ea.
        * rewrite C1. intros x Hx. destruct (C4 x Hx) as [Ex|Hx']; [subst; eapply (l_active_fresh _ s L); eauto|now apply (l_inactive_fresh _ s L)].
        * rewrite C1. intros q Hq. apply (l_req_fresh _ s L). auto.
        * rewrite C1, C2. apply (l_del_fresh _ s L).
        * rewrite C2, C3. apply (l_known _ s L).
        * cbn. intros sg' rid' k' X. discriminate.
        * cbn. discriminate.
        * cbn. intros _. split; reflexivity.
        * unfold reader_pending. cbn. discriminate.
      + cbn [fst]. apply (linv_update s s i r _ (linv_skip s i L) E).
        * reflexivity.
        * lia.
        * auto.
        * apply (l_inactive_fresh _ s L).
        * apply (l_req_fresh _ s L).
        * apply (l_del_fresh _ s L).
        * apply (l_known _ s L).
        * cbn. intros sg' rid' k' X. discriminate.
        * cbn. discriminate.
        * cbn. intros _. split; reflexivity.
        * unfold reader_pending. cbn. discriminate.
    - (* a queued _maybe_fetch_next *)
      destruct (nth_error _ i) as [r|] eqn:E; [|exact L]. destruct (rd_mfn r) as [|n] eqn:Mf; [exact L|].
      apply (mfn_linv s i r _ (linv_skip s i L) E); cbn [rd_set_mfn rd_active rd_result rd_alive]; auto.
      * intros Rr. eapply (l_alive _ s L); eauto. discriminate.
      * apply (l_finished _ s L i r E).
      * intros Rr. apply (l_pending _ s L i r ltac:(discriminate) E Rr).
    - (* learn *)
      cbn [fst]. destruct L. constructor; auto.
    - (* fetch_failed *)
      destruct (s_active s) as [[fid seg]|] eqn:A; [|exact L].
      apply (finish_linv s fid seg (SegErr e) L A). intros [[n X]|X]; [discriminate|]. inversion X; subst. exact Hok.
    - (* process_blocks *)
      destruct (s_active s) as [[fid seg]|] eqn:A; [|exact L]. cbn [sev_ok] in Hok.
      destruct ok; apply (finish_linv s fid seg _ L A); intros _; exact Hok.
    - (* a queued _deliver *)
      destruct (s_deliveries s) as [|[rid res] rest] eqn:D; [exact L|].
      cbn [upd_node s_inactive s_reqs s_active s_next_fid s_next_rid s_readers].
      assert (Hrid : (rid < s_next_rid s)%N) by (apply (l_del_fresh _ s L (rid, res)); rewrite D; now left).
      destruct (nmem rid (s_inactive s)) eqn:M.
      + cbn [fst]. apply nmem_In in M.
        apply (linv_node None s); auto; cbn [upd_node s_inactive s_reqs s_deliveries s_next_rid s_known s_readers]; try lia.
        * intros i r sg rid' k _ Hi Ha [A B]. split; [exact A|]. destruct B as [B|B]; [now left|right].
          rewrite D in B. cbn in B. destruct B as [B|B]; [subst; contradiction|exact B].
        * apply (l_inactive_fresh _ s L).
        * apply (l_req_fresh _ s L).
        * intros d Hd. apply (l_del_fresh _ s L). rewrite D. now right.
        * intros d Hd. apply (l_known _ s L). rewrite D. now right.
      + destruct (find_reader rid (s_readers s) 0) as [[[i r] k]|] eqn:F.
        * destruct (find_reader_spec _ _ _ _ _ _ F) as (_ & Nth & (sg & Ea)). rewrite Nat.sub_0_r in Nth.
          pose proof (linv_pop s rid res rest i r sg k L D Nth Ea) as LX.
          set (s2 := upd_node _ _ _ _ _ _ rest) in *.
          assert (Rr : rd_result r = None).
          { destruct (rd_result r) eqn:Rr; [|reflexivity]. destruct (l_finished _ s L i r Nth) as [X _]; congruence. }
          pose proof (fired_linv s2 i r k res react LX Nth) as X.
          destruct (fired s2 i r k res react) as [s3 o]. apply X; [|exact Rr].
          eapply (l_alive _ s L); eauto. discriminate.
        * cbn [fst]. apply (linv_node None s); auto; cbn [upd_node s_inactive s_reqs s_deliveries s_next_rid s_known s_readers]; try lia.
          -- intros i r sg rid' k _ Hi Ha [A B].
             assert (rid' <> rid) as NE by (intros Er; subst; eapply (find_reader_none rid _ _ F); eauto).
             split; [intros [Er|Er]; [congruence|contradiction]|]. destruct B as [B|B]; [now left|right].
             rewrite D in B. cbn in B. destruct B as [B|B]; [congruence|exact B].
          -- intros x [Ex|Ex]; [subst; exact Hrid|now apply (l_inactive_fresh _ s L)].
          -- apply (l_req_fresh _ s L).
          -- intros d Hd. apply (l_del_fresh _ s L). rewrite D. now right.
          -- intros d Hd. apply (l_known _ s L). rewrite D. now right.
  Qed.

End Live.
