(* C46 / C04: no reader is ever stranded, and the system's own steps decrease a measure.

   `pending_ok`: in every reachable state every unfinished, hungry reader has a
   queued _maybe_fetch_next, or an outstanding get_segment request that is still in
   the node's queue or among the queued deliveries and has not been cancelled.
   Together with queue_ok (Proofs/SegQueueBase.v: a request in the queue implies an
   active fetcher for a requested segment) this is no_stuck_state; other readers'
   pause / stop / reads never remove a reader's request (readers_independent).

   `weight`: 3 * (bytes still wanted + one possible retry) + 2 if idle + queued
   _maybe_fetch_next per unfinished reader, + 2 per queued request + 1 per queued
   delivery.  Every step the system takes by itself (a queued eventual-send runs, the
   active fetcher reports) strictly decreases it. *)
From Coq Require Import List NArith Bool Arith Lia.
From Verif Require Import Model.SegQueue Proofs.SegQueueBase Proofs.SegQueueRange.
Import ListNotations.

(* a request handle that can still fire *)
Definition live (s : sys) (rid : N) : Prop :=
  ~ In rid (s_inactive s) /\ (In rid (map r_id (s_reqs s)) \/ In rid (map fst (s_deliveries s))).

Definition reader_pending (s : sys) (r : reader) : Prop :=
  rd_result r = None ->
  (forall sg rid k, rd_active r = Some (sg, rid, k) -> live s rid) /\
  (rd_hungry r = true -> rd_mfn r > 0 \/ rd_active r <> None).

(* `skip`: the reader whose record is about to be replaced is exempt from the two
   per-reader clauses *)
Record LInvX (skip : option nat) (s : sys) : Prop := {
  l_inactive_fresh : forall x, In x (s_inactive s) -> (x < s_next_rid s)%N;
  l_req_fresh : forall q, In q (s_reqs s) -> (r_id q < s_next_rid s)%N;
  l_del_fresh : forall d, In d (s_deliveries s) -> (fst d < s_next_rid s)%N;
  l_active_fresh : forall i r sg rid k, nth_error (s_readers s) i = Some r -> rd_active r = Some (sg, rid, k) -> (rid < s_next_rid s)%N;
  l_uniq : forall i j ri rj sa sb rid ka kb,
      nth_error (s_readers s) i = Some ri -> nth_error (s_readers s) j = Some rj ->
      rd_active ri = Some (sa, rid, ka) -> rd_active rj = Some (sb, rid, kb) -> i = j;
  l_alive : forall i r, skip <> Some i -> nth_error (s_readers s) i = Some r -> rd_result r = None -> rd_alive r = true;
  l_pending : forall i r, skip <> Some i -> nth_error (s_readers s) i = Some r -> reader_pending s r;
  l_known : forall d, In d (s_deliveries s) ->
      (exists n, snd d = SegData n) \/ snd d = SegErr EBadSegNum -> s_known s = true;
  l_finished : forall i r, nth_error (s_readers s) i = Some r -> rd_result r <> None -> rd_active r = None /\ rd_alive r = false
}.

Definition LInv := LInvX None.

Lemma linv_skip s i : LInv s -> LInvX (Some i) s.
Proof. intros []. constructor; auto; intros; [eapply l_alive0|eapply l_pending0]; eauto; discriminate. Qed.

(* what the fetchers may report: blocks can only be decoded, and a segment number only
   be refused, once the UEB is known *)
Definition sev_ok (s : sys) (e : sev) : Prop :=
  match e with
  | SBlocks _ _ => s_known s = true
  | SFetchFailed EBadSegNum => s_known s = true
  | _ => True
  end.

Lemma find_reader_none rid : forall l i0,
  find_reader rid l i0 = None -> forall j r sg k, nth_error l j = Some r -> rd_active r <> Some (sg, rid, k).
Proof.
  induction l as [|x rest IH]; intros i0 H j r sg k Hn; [destruct j; discriminate|].
  cbn [find_reader] in H. destruct j as [|j]; cbn [nth_error] in Hn.
  - inversion Hn; subst. intros E. rewrite E in H. rewrite N.eqb_refl in H. discriminate.
  - destruct (rd_active x) as [[[sg' rid'] k']|]; [destruct (N.eqb rid' rid); [discriminate|]|]; eapply IH; eauto.
Qed.

Section Live.
  Variable ct : list N.
  Variables segsize guess : N.

  Notation mfn := (maybe_fetch_next segsize guess).
  Notation fired := (reader_fired ct segsize guess).
  Notation step := (sstep true ct segsize guess).
  Notation run := (srun true ct segsize guess).

  (* ---- node-only changes ------------------------------------------------------------ *)
  (* a new state whose readers are the old ones and whose node part keeps every live
     handle live and the freshness bounds *)
  Definition node_ext (s s' : sys) : Prop :=
    s_readers s' = s_readers s /\ (s_next_rid s <= s_next_rid s')%N /\
    (forall rid, live s rid -> live s' rid) /\
    (forall x, In x (s_inactive s') -> In x (s_inactive s)) /\
    (forall q, In q (s_reqs s') -> In q (s_reqs s)) /\
    (s_known s = true -> s_known s' = true).

  Lemma live_same s s' :
    s_inactive s' = s_inactive s -> s_reqs s' = s_reqs s -> s_deliveries s' = s_deliveries s ->
    forall rid, live s rid <-> live s' rid.
  Proof. intros A B C rid. unfold live. rewrite A, B, C. tauto. Qed.

  Lemma start_new_live s rid : live s rid <-> live (fst (start_new s)) rid.
  Proof. destruct (start_new_fields s) as (A & _ & B & C & _). apply live_same; auto. Qed.

  Lemma extract_live s seg res rid : live s rid -> live (extract s seg res) rid.
  Proof.
    unfold live, extract. cbn [upd_node s_inactive s_reqs s_deliveries]. intros [A B]. split; [exact A|].
    rewrite map_app, map_map. cbn [fst].
    destruct B as [B|B]; [|right; apply in_or_app; now left].
    apply in_map_iff in B. destruct B as (q & E & Hq).
    destruct (N.eqb (r_seg q) seg) eqn:S.
    - right. apply in_or_app. right. apply in_map_iff. exists q. split; [exact E|]. apply filter_In. now split.
    - left. apply in_map_iff. exists q. split; [exact E|]. apply filter_In. split; [exact Hq|]. now rewrite S.
  Qed.

  Lemma clear_active_live s rid : live s rid <-> live (clear_active s) rid.
  Proof. apply live_same; reflexivity. Qed.

  (* ---- the invariant through reader updates ------------------------------------------ *)
  (* replacing reader i by r' in a state s' whose node part extends that of s *)
  Lemma linv_update s s' i r r' :
    LInvX (Some i) s -> nth_error (s_readers s) i = Some r ->
    s_readers s' = s_readers s ->
    (s_next_rid s <= s_next_rid s')%N ->
    (forall rid, live s rid -> (forall sg k, rd_active r <> Some (sg, rid, k)) -> live s' rid) ->
    (forall x, In x (s_inactive s') -> (x < s_next_rid s')%N) ->
    (forall q, In q (s_reqs s') -> (r_id q < s_next_rid s')%N) ->
    (forall d, In d (s_deliveries s') -> (fst d < s_next_rid s')%N) ->
    (forall d, In d (s_deliveries s') -> (exists n, snd d = SegData n) \/ snd d = SegErr EBadSegNum -> s_known s' = true) ->
    (* the new record of reader i *)
    (forall sg rid k, rd_active r' = Some (sg, rid, k) ->
        (rid < s_next_rid s')%N /\ (rd_active r = Some (sg, rid, k) \/ (s_next_rid s <= rid)%N)) ->
    (rd_result r' = None -> rd_alive r' = true) ->
    (rd_result r' <> None -> rd_active r' = None /\ rd_alive r' = false) ->
    reader_pending s' r' ->
    LInv (set_reader s' i r').
  Proof.
    intros L Hn Hrd Hnext Hlive Hin Hreq Hdel Hkn Hact Halive Hfin Hpend.
    assert (Hi : i < length (s_readers s')) by (rewrite Hrd; apply nth_error_Some; congruence).
    constructor; cbn [set_reader s_inactive s_reqs s_deliveries s_readers s_next_rid s_known]; auto.
    - intros j x sg rid k Hj Hx. apply nth_error_set_nth in Hj. destruct Hj as [(E & E2 & _)|(NE & Hj)].
      + subst. now apply (Hact sg rid k).
      + rewrite Hrd in Hj. pose proof (l_active_fresh _ s L _ _ _ _ _ Hj Hx). lia.
    - intros a b ra rb sa sb rid ka kb Ha Hb Aa Ab.
      apply nth_error_set_nth in Ha. apply nth_error_set_nth in Hb.
      destruct Ha as [(Ea & Ea2 & _)|(NEa & Ha)], Hb as [(Eb & Eb2 & _)|(NEb & Hb)]; subst; auto.
      + rewrite Hrd in Hb. destruct (Hact _ _ _ Aa) as (_ & [Old|New]).
        * eapply (l_uniq _ s L); eauto.
        * pose proof (l_active_fresh _ s L _ _ _ _ _ Hb Ab). lia.
      + rewrite Hrd in Ha. destruct (Hact _ _ _ Ab) as (_ & [Old|New]).
        * eapply (l_uniq _ s L); eauto.
        * pose proof (l_active_fresh _ s L _ _ _ _ _ Ha Aa). lia.
      + rewrite Hrd in Ha, Hb. eapply (l_uniq _ s L); eauto.
    - intros j x _ Hj. apply nth_error_set_nth in Hj. destruct Hj as [(E & E2 & _)|(NE & Hj)]; [subst; exact Halive|].
      rewrite Hrd in Hj. eapply (l_alive _ s L); eauto. congruence.
    - intros j x _ Hj. apply nth_error_set_nth in Hj. destruct Hj as [(E & E2 & _)|(NE & Hj)].
      + subst. unfold reader_pending, live in *. exact Hpend.
      + rewrite Hrd in Hj. assert (Some i <> Some j) as NS by congruence.
        pose proof (l_pending _ s L _ _ NS Hj) as P. unfold reader_pending in *. intros A.
        destruct (P A) as [P1 P2]. split; [|exact P2]. intros sg rid k Ac.
        assert (live s' rid) as Lv'.
        { apply Hlive; [eapply P1; eauto|]. intros sg' k' Er. apply NE. eapply (l_uniq _ s L); eauto. }
        unfold live in *. exact Lv'.
    - intros j x Hj. apply nth_error_set_nth in Hj. destruct Hj as [(E & E2 & _)|(NE & Hj)]; [subst; exact Hfin|].
      rewrite Hrd in Hj. eapply (l_finished _ s L); eauto.
  Qed.

  (* get_segment keeps every live handle live and makes the new one live *)
  Lemma get_segment_live sk s w :
    LInvX sk s ->
    let s' := fst (fst (get_segment s w)) in
    (forall rid, live s rid -> live s' rid) /\ live s' (s_next_rid s).
  Proof.
    intros L. destruct (get_segment_fields s w) as (R & Nx & In & D & K & Rd & _). cbn zeta.
    split.
    - intros rid [A B]. unfold live. rewrite In, R, D. split; [exact A|].
      destruct B as [B|B]; [left; rewrite map_app; apply in_or_app; now left|now right].
    - unfold live. rewrite In, R. split.
      + intros H. pose proof (l_inactive_fresh _ s L _ H). lia.
      + left. rewrite map_app. apply in_or_app. right. now left.
  Qed.

  (* _maybe_fetch_next for reader i whose (old) record is r0; r is the record it works on *)
  Lemma mfn_linv s i r0 r :
    LInvX (Some i) s -> nth_error (s_readers s) i = Some r0 ->
    (rd_active r = None \/ rd_active r = rd_active r0) ->
    (rd_result r = None -> rd_alive r = true) ->
    (rd_result r <> None -> rd_active r = None /\ rd_alive r = false) ->
    (* with a request outstanding the handle is live *)
    (rd_result r = None -> forall sg rid k, rd_active r = Some (sg, rid, k) -> live s rid) ->
    LInv (fst (mfn s i r)).
  Proof.
    intros L Hn Hact Halive Hfin Hlv.
    destruct (mfn_cases segsize guess s i r) as [Idle|A H Ac Z|w A H Ac NZ]; cbn [fst].
    - apply (linv_update s s i r0 r L Hn).
      + reflexivity.
      + lia.
      + auto.
      + apply (l_inactive_fresh _ s L).
      + apply (l_req_fresh _ s L).
      + apply (l_del_fresh _ s L).
      + apply (l_known _ s L).
      + intros sg rid k E. destruct Hact as [N|Same]; [congruence|].
        split; [|left; congruence]. apply (l_active_fresh _ s L i r0 sg rid k Hn). congruence.
      + exact Halive.
      + exact Hfin.
      + unfold reader_pending. intros R. split; [now apply Hlv|].
        intros Hg. right. destruct Idle as [I|[I|I]]; [rewrite (Halive R) in I; discriminate|congruence|exact I].
    - apply (linv_update s s i r0 (rd_finish r RDone) L Hn).
      + reflexivity.
      + lia.
      + auto.
      + apply (l_inactive_fresh _ s L).
      + apply (l_req_fresh _ s L).
      + apply (l_del_fresh _ s L).
      + apply (l_known _ s L).
      + cbn. intros sg rid k E. congruence.
      + cbn. discriminate.
      + cbn. intros _. split; [exact Ac|reflexivity].
      + unfold reader_pending. cbn. discriminate.
    - destruct (get_segment_fields s w) as (R & Nx & In & D & K & Rd & _).
      destruct (get_segment_live _ s w L) as (Lold & Lnew). cbn zeta in *.
      apply (linv_update s (fst (fst (get_segment s w))) i r0 (rd_set_active r (Some (w, s_next_rid s, s_known s))) L Hn).
      + exact Rd.
      + lia.
      + intros rid Lv _. now apply Lold.
      + rewrite In, Nx. intros x Hx. pose proof (l_inactive_fresh _ s L _ Hx). lia.
      + rewrite R, Nx. intros q Hq. apply in_app_or in Hq. destruct Hq as [Hq|[Hq|[]]].
        * pose proof (l_req_fresh _ s L _ Hq). lia.
        * subst q. cbn. lia.
      + rewrite D, Nx. intros d Hd. pose proof (l_del_fresh _ s L _ Hd). lia.
      + rewrite D, K. apply (l_known _ s L).
      + cbn [rd_set_active rd_active]. intros sg rid k E. inversion E; subst. rewrite Nx. split; [lia|right; lia].
      + cbn. intros _. exact A.
      + cbn [rd_set_active rd_result rd_active rd_alive]. intros X. destruct (Hfin X) as [_ Y]. congruence.
      + unfold reader_pending. cbn [rd_set_active rd_result rd_hungry rd_mfn rd_active]. intros _. split.
        * intros sg rid k E. inversion E; subst. exact Lnew.
        * intros _. right. discriminate.
  Qed.

End Live.
