(* C07: the read-only phase finds a maximum matching of (read-only server -- held share),
   and the last phase matches min(#servers, #shares) pairs. *)
From Coq Require Import List NArith ZArith Bool Arith Lia.
From Verif Require Import Model.Matching Model.Placement Proofs.Matching Proofs.MatchingLists
     Proofs.MatchingAugment Proofs.MatchingLoop Proofs.MatchingNetwork
     Proofs.Placement Proofs.PlacementStruct Proofs.PlacementGraph Proofs.PlacementNet Proofs.PlacementCount.
Import ListNotations.

(* ---------- sortN is a permutation ---------------------------------------------------------- *)

Lemma insertN_In : forall x l y, In y (insertN x l) <-> y = x \/ In y l.
Proof.
  intros x. induction l as [|a r IH]; intros y; cbn [insertN In].
  - split; [intros [H|[]]; left; symmetry; exact H | intros [H|[]]; left; symmetry; exact H].
  - destruct (N.leb x a); cbn [In].
    + split; [intros [H|H]; [left; symmetry; exact H | right; exact H] | intros [H|H]; [left; symmetry; exact H | right; exact H]].
    + rewrite IH. tauto.
Qed.

Lemma sortN_In : forall l y, In y (sortN l) <-> In y l.
Proof.
  induction l as [|a r IH]; intros y; cbn [sortN fold_right In]; [tauto|].
  fold (sortN r). rewrite insertN_In, IH. split; [intros [H|H]; [left; symmetry; exact H | right; exact H] | intros [H|H]; [left; symmetry; exact H | right; exact H]].
Qed.

Lemma insertN_NoDup : forall x l, ~ In x l -> NoDup l -> NoDup (insertN x l).
Proof.
  intros x. induction l as [|a r IH]; intros Hn Hnd; cbn [insertN].
  - constructor; [intros [] | constructor].
  - destruct (N.leb x a); [constructor; assumption|].
    inversion Hnd as [|y z Ha Hr]; subst. constructor.
    + intro Hin. apply insertN_In in Hin. destruct Hin as [Hin|Hin]; [subst; apply Hn; left; reflexivity | contradiction].
    + apply IH; [intro Hx; apply Hn; right; exact Hx | exact Hr].
Qed.

Lemma sortN_NoDup : forall l, NoDup l -> NoDup (sortN l).
Proof.
  induction 1 as [|a r Ha Hr IH]; cbn [sortN fold_right]; [constructor|]. fold (sortN r).
  apply insertN_NoDup; [rewrite sortN_In; exact Ha | exact IH].
Qed.

(* ---------- the read-only server map -------------------------------------------------------- *)

Lemma held_by_readonly_lookup : forall readonly p2s p held,
  NoDup (map fst p2s) -> In p readonly -> lookupN p p2s = Some held ->
  lookupN p (held_by_readonly readonly p2s) = Some held.
Proof.
  intros readonly p2s p held Hnd Hro Hl. unfold held_by_readonly.
  assert (Hin : In p (sortN (map fst p2s))).
  { apply sortN_In. apply lookupN_In in Hl. apply in_map_iff. exists (p, held). split; [reflexivity | exact Hl]. }
  pose proof (sortN_NoDup _ Hnd) as HL. revert Hin HL. generalize (sortN (map fst p2s)) as L.
  induction L as [|x r IH]; intros Hin HL; [destruct Hin|]. cbn [flat_map].
  inversion HL as [|a b Hx Hr]; subst.
  destruct (N.eq_dec x p) as [->|Hne].
  - assert (Hm : memN p readonly = true) by (apply memN_In; exact Hro). rewrite Hm, Hl.
    cbn [app lookupN]. rewrite N.eqb_refl. reflexivity.
  - destruct Hin as [Hin|Hin]; [contradiction|].
    destruct (memN x readonly); [destruct (lookupN x p2s) as [shs|]|]; cbn [app lookupN].
    + assert (E : N.eqb p x = false) by (apply N.eqb_neq; intro; subst; apply Hne; reflexivity). rewrite E.
      apply IH; assumption.
    + apply IH; assumption.
    + apply IH; assumption.
Qed.

Lemma ro_shares_spec : forall readonly p2s,
  NoDup (ro_shares readonly p2s) /\
  forall s, In s (ro_shares readonly p2s) <-> exists p held, In (p, held) (held_by_readonly readonly p2s) /\ In s held.
Proof.
  intros readonly p2s. unfold ro_shares. generalize (held_by_readonly readonly p2s) as L.
  assert (Hinner : forall held acc, NoDup acc ->
            NoDup (fold_left (fun a s => add_set s a) held acc) /\
            forall s, In s (fold_left (fun a s => add_set s a) held acc) <-> In s acc \/ In s held).
  { induction held as [|x r IH]; intros acc Hacc; cbn [fold_left In]; [split; [exact Hacc | tauto]|].
    destruct (IH (add_set x acc) (add_set_NoDup _ _ Hacc)) as [H1 H2]. split; [exact H1|].
    intros s. rewrite H2, add_set_In. split; [intros [[H|H]|H]; [right; left; symmetry; exact H | tauto | tauto]|].
    intros [H|[H|H]]; [tauto | left; left; symmetry; exact H | tauto]. }
  assert (Houter : forall (L : smap) acc, NoDup acc ->
            NoDup (fold_left (fun acc (e : N * list N) => fold_left (fun a s => add_set s a) (snd e) acc) L acc) /\
            forall s, In s (fold_left (fun acc (e : N * list N) => fold_left (fun a s => add_set s a) (snd e) acc) L acc)
                      <-> In s acc \/ exists p held, In (p, held) L /\ In s held).
  { induction L as [|[p held] r IH]; intros acc Hacc; cbn [fold_left snd].
    - split; [exact Hacc|]. intros s. split; [left; assumption | intros [H|[p [held [[] _]]]]; exact H].
    - destruct (Hinner held acc Hacc) as [I1 I2]. destruct (IH _ I1) as [H1 H2]. split; [exact H1|].
      intros s. rewrite H2, I2. split.
      + intros [[H|H]|[q [h [Hq Hs]]]]; [left; exact H | right; exists p, held; split; [left; reflexivity | exact H] |
                                         right; exists q, h; split; [right; exact Hq | exact Hs]].
      + intros [H|[q [h [[Hq|Hq] Hs]]]]; [left; left; exact H | inversion Hq; subst; left; right; exact Hs |
                                           right; exists q, h; split; assumption]. }
  intros L. destruct (Houter L [] (NoDup_nil N)) as [H1 H2]. split; [exact H1|].
  intros s. rewrite H2. cbn [In]. tauto.
Qed.

(* ---------- upper bound from the read-only phase -------------------------------------------- *)

Definition idxd (x : N) (l : list N) : nat := match index_of x l with Some j => j | None => 0 end.

Lemma idxd_nth : forall x l, In x l -> nth_error l (idxd x l) = Some x /\ index_of x l = Some (idxd x l).
Proof.
  intros x l H. destruct (In_index_of l x H) as [j Hj]. unfold idxd. rewrite Hj.
  split; [apply index_of_nth_error; exact Hj | reflexivity].
Qed.

Lemma idxd_inj : forall l x y, In x l -> In y l -> idxd x l = idxd y l -> x = y.
Proof.
  intros l x y Hx Hy E. destruct (idxd_nth x l Hx) as [_ H1]. destruct (idxd_nth y l Hy) as [_ H2].
  rewrite E in H1. apply (index_of_inj l x y _ H1 H2).
Qed.

Lemma readonly_phase_bound : forall po readonly p2s ro pl so g,
  phase_facts po readonly (ro_shares readonly p2s) (held_by_readonly readonly p2s) ro pl so g ->
  NoDup readonly -> NoDup (map fst p2s) -> (forall p held, In (p, held) p2s -> NoDup held) ->
  forall M : list (N * N),
    NoDup (map fst M) -> NoDup (map snd M) ->
    (forall p s, In (p, s) M -> In p readonly /\ holds p2s p s) ->
    length M <= length (used_peers_of (pr_mappings ro)).
Proof.
  intros po readonly p2s ro pl so g HF Hnr Hnk Hnh M Hm1 Hm2 Hedge.
  pose proof (pf_net _ _ _ _ _ _ _ _ HF) as HN.
  eapply Nat.le_trans; [|apply (flow_le_used_peers _ _ _ _ _ _ _ _ HF)].
  set (np := length pl). set (vm := fun e : N * N => (S (idxd (fst e) pl), S np + idxd (snd e) so)).
  rewrite <- (map_length vm M).
  apply (flow_matching_maximum g np (length so) HN _ _ (pf_final _ _ _ _ _ _ _ _ HF)).
  (* facts about an edge of M *)
  assert (Hv : forall p s, In (p, s) M ->
            In p pl /\ In s so /\ E g (S (idxd p pl)) (S np + idxd s so)).
  { intros p s Hin. destruct (Hedge p s Hin) as [Hro [held [Hl Hs]]].
    assert (Hp : In p pl) by (apply (ordered_complete _ _ _ Hnr (pf_pl _ _ _ _ _ _ _ _ HF)); exact Hro).
    pose proof (held_by_readonly_lookup readonly p2s p held Hnk Hro Hl) as Hl'.
    assert (Hso : In s so).
    { destruct (ro_shares_spec readonly p2s) as [R1 R2].
      apply (ordered_complete _ _ _ R1 (pf_so _ _ _ _ _ _ _ _ HF)). apply R2.
      exists p, held. split; [apply lookupN_In; exact Hl' | exact Hs]. }
    split; [exact Hp|]. split; [exact Hso|].
    destruct (idxd_nth p pl Hp) as [Hi _]. destruct (idxd_nth s so Hso) as [_ Hj].
    destruct (phase_graph_layered _ _ _ _ _ (pf_graph _ _ _ _ _ _ _ _ HF)) as [rows [Eg [Lr Hrows]]].
    pose proof (Hrows _ _ Hi) as Hrow.
    assert (Hne : held_by_readonly readonly p2s <> []) by (intro Hnil; rewrite Hnil in Hl'; discriminate).
    destruct (held_by_readonly readonly p2s) as [|e sm'] eqn:Esm; [contradiction|]. rewrite <- Esm in *.
    assert (Hrow' : peer_row po (S (length pl)) so (held_by_readonly readonly p2s) p = Some (nth (idxd p pl) rows [])).
    { rewrite Esm. rewrite Esm in Hrow. exact Hrow. }
    destruct (peer_row_spec _ _ _ _ _ _ Hrow') as [[En _]|[held' [ho [El [Eo Er]]]]]; [rewrite Hl' in En; discriminate|].
    rewrite Hl' in El. inversion El; subst held'.
    unfold E. rewrite Eg.
    destruct (layered_adj (length pl) (length so) rows Lr) as [_ [_ [A1 _]]].
    assert (Hlt : idxd p pl < length pl) by (apply nth_error_Some; rewrite Hi; discriminate).
    rewrite (A1 _ Hlt), Er. apply in_indexed_shares. exists s, (idxd s so).
    split; [|split; [exact Hj | reflexivity]].
    apply (ordered_complete _ _ _ (Hnh p held (lookupN_In _ _ _ _ Hl)) Eo). exact Hs. }
  split; [|split].
  - intros i v Hin. apply in_map_iff in Hin. destruct Hin as [[p s] [Ev Hin]]. unfold vm in Ev. cbn [fst snd] in Ev.
    inversion Ev; subst. destruct (Hv p s Hin) as [Hp [_ He]]. split; [|exact He].
    destruct (idxd_nth p pl Hp) as [Hi _].
    assert (idxd p pl < length pl) by (apply nth_error_Some; rewrite Hi; discriminate). unfold server. fold np. lia.
  - rewrite map_map. change (fun x : N * N => fst (vm x)) with (fun x : N * N => S (idxd (fst x) pl)).
    rewrite <- (map_map fst (fun p => S (idxd p pl))). apply NoDup_map_inj; [exact Hm1|].
    intros x y Hx Hy Exy. apply in_map_iff in Hx. destruct Hx as [[p s] [Ep Hp]]. cbn [fst] in Ep. subst x.
    apply in_map_iff in Hy. destruct Hy as [[q s'] [Eq Hq]]. cbn [fst] in Eq. subst y.
    destruct (Hv p s Hp) as [Kp _]. destruct (Hv q s' Hq) as [Kq _]. apply (idxd_inj pl p q Kp Kq). lia.
  - rewrite map_map. change (fun x : N * N => snd (vm x)) with (fun x : N * N => S np + idxd (snd x) so).
    rewrite <- (map_map snd (fun s => S np + idxd s so)). apply NoDup_map_inj; [exact Hm2|].
    intros x y Hx Hy Exy. apply in_map_iff in Hx. destruct Hx as [[p s] [Ep Hp]]. cbn [snd] in Ep. subst x.
    apply in_map_iff in Hy. destruct Hy as [[q s'] [Eq Hq]]. cbn [snd] in Eq. subst y.
    destruct (Hv p s Hp) as [_ [Ks _]]. destruct (Hv q s' Hq) as [_ [Ks' _]]. apply (idxd_inj so s s' Ks Ks'). lia.
Qed.

(* ---------- lower bound from the complete bipartite phase ----------------------------------- *)

Lemma complete_phase_bound : forall po P Sh pr pl so g,
  phase_facts po P Sh [] pr pl so g ->
  Nat.min (length pl) (length so) <= length (used_peers_of (pr_mappings pr)).
Proof.
  intros po P Sh pr pl so g HF.
  pose proof (pf_net _ _ _ _ _ _ _ _ HF) as HN.
  eapply Nat.le_trans; [|apply (flow_le_used_peers _ _ _ _ _ _ _ _ HF)].
  set (np := length pl). set (nsh := length so). set (k0 := Nat.min np nsh).
  set (Mz := map (fun k => (S k, S np + k)) (seq 0 k0)).
  assert (Hlen : length Mz = k0) by (unfold Mz; rewrite map_length, seq_length; reflexivity).
  rewrite <- Hlen.
  apply (flow_matching_maximum g np nsh HN _ _ (pf_final _ _ _ _ _ _ _ _ HF)).
  pose proof (pf_graph _ _ _ _ _ _ _ _ HF) as Hg. cbn [phase_graph] in Hg. inversion Hg as [Eg]. clear Hg.
  split; [|split].
  - intros i v Hin. unfold Mz in Hin. apply in_map_iff in Hin. destruct Hin as [k [Ek Hk]].
    inversion Ek; subst i v. apply in_seq in Hk. split; [unfold server; fold np; lia|].
    unfold E, flow_network. fold np nsh.
    change ((seq 1 np :: repeat (seq (S np) nsh) np) ++ repeat [np + nsh + 1] nsh ++ [[]])
      with (layered np nsh (repeat (seq (S np) nsh) np)).
    destruct (layered_adj np nsh (repeat (seq (S np) nsh) np) (repeat_length _ _)) as [_ [_ [A1 _]]].
    rewrite (A1 k) by lia. rewrite nth_repeat_lt by lia. apply in_seq. lia.
  - unfold Mz. rewrite map_map. cbn [fst]. apply NoDup_map_inj; [apply seq_NoDup | intros x y _ _ H; lia].
  - unfold Mz. rewrite map_map. cbn [snd]. apply NoDup_map_inj; [apply seq_NoDup | intros x y _ _ H; lia].
Qed.
