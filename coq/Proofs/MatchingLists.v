(* Lists as Python lists: [upd], [nth], matrices.  Lemmas for Proofs/Matching*.v. *)
From Coq Require Import List NArith ZArith Bool Arith Lia.
From Verif Require Import Model.Matching.
Import ListNotations.

Lemma length_upd : forall (A : Type) (i : nat) (x : A) (l : list A), length (upd i x l) = length l.
Proof.
  intros A i x l. revert i. induction l as [|a r IH]; intros i; destruct i; cbn [upd length]; auto.
Qed.

Lemma nth_upd_eq : forall (A : Type) (i : nat) (x d : A) (l : list A),
  i < length l -> nth i (upd i x l) d = x.
Proof.
  intros A i x d l. revert i. induction l as [|a r IH]; intros i H; cbn [length] in H; [lia|].
  destruct i; cbn [upd nth]; [reflexivity|]. apply IH. lia.
Qed.

Lemma nth_upd_neq : forall (A : Type) (i j : nat) (x d : A) (l : list A),
  i <> j -> nth j (upd i x l) d = nth j l d.
Proof.
  intros A i j x d l. revert i j. induction l as [|a r IH]; intros i j H.
  - destruct i; reflexivity.
  - destruct i, j; cbn [upd nth]; try reflexivity; try lia. apply IH. lia.
Qed.

Lemma nth_upd : forall (A : Type) (i j : nat) (x d : A) (l : list A),
  nth j (upd i x l) d = if Nat.eqb i j then (if Nat.ltb i (length l) then x else nth j l d) else nth j l d.
Proof.
  intros A i j x d l. destruct (Nat.eqb i j) eqn:E.
  - apply Nat.eqb_eq in E. subst j. destruct (Nat.ltb i (length l)) eqn:L.
    + apply Nat.ltb_lt in L. apply nth_upd_eq. exact L.
    + apply Nat.ltb_ge in L. rewrite nth_overflow; [|rewrite length_upd; exact L].
      rewrite nth_overflow; [reflexivity | exact L].
  - apply Nat.eqb_neq in E. apply nth_upd_neq. exact E.
Qed.

Lemma nth_repeat_lt : forall (A : Type) (x d : A) (n i : nat), i < n -> nth i (repeat x n) d = x.
Proof.
  intros A x d n. induction n as [|n IH]; intros i H; [lia|].
  destruct i; cbn [repeat nth]; [reflexivity | apply IH; lia].
Qed.

Lemma NoDup_app_intro : forall (A : Type) (a b : list A),
  NoDup a -> NoDup b -> (forall x, In x a -> ~ In x b) -> NoDup (a ++ b).
Proof.
  intros A a b Ha Hb Hd. induction Ha as [|x r Hx Hr IH]; cbn [app]; [exact Hb|].
  constructor.
  - rewrite in_app_iff. intros [H|H]; [contradiction|]. apply (Hd x); [left; reflexivity | exact H].
  - apply IH. intros y Hy. apply Hd. right. exact Hy.
Qed.

(* ---------- matrices ------------------------------------------------------------ *)

Definition shape (dim : nat) (m : matrix) : Prop :=
  length m = dim /\ forall u, u < dim -> length (nth u m []) = dim.

Lemma shape_zero : forall dim, shape dim (zero_matrix dim).
Proof.
  intros dim. unfold zero_matrix. split; [apply repeat_length|].
  intros u H. rewrite nth_repeat_lt by exact H. apply repeat_length.
Qed.

Lemma mget_zero : forall dim u v, mget (zero_matrix dim) u v = 0%Z.
Proof.
  intros dim u v. unfold mget, zero_matrix.
  destruct (Nat.ltb u dim) eqn:Lu.
  - apply Nat.ltb_lt in Lu. rewrite nth_repeat_lt by exact Lu.
    destruct (Nat.ltb v dim) eqn:Lv.
    + apply Nat.ltb_lt in Lv. apply nth_repeat_lt. exact Lv.
    + apply Nat.ltb_ge in Lv. apply nth_overflow. rewrite repeat_length. exact Lv.
  - apply Nat.ltb_ge in Lu. rewrite (nth_overflow (repeat _ _)) by (rewrite repeat_length; exact Lu).
    destruct v; reflexivity.
Qed.

Lemma shape_mset : forall dim m u v x, shape dim m -> shape dim (mset m u v x).
Proof.
  intros dim m u v x [H1 H2]. unfold mset. split; [rewrite length_upd; exact H1|].
  intros w Hw. rewrite nth_upd. destruct (Nat.eqb u w) eqn:E; [|apply H2; exact Hw].
  apply Nat.eqb_eq in E. subst w. rewrite H1.
  destruct (Nat.ltb u dim); [|apply H2; exact Hw]. rewrite length_upd. apply H2. exact Hw.
Qed.

Lemma mget_mset : forall dim m u v x a b, shape dim m -> u < dim -> v < dim ->
  mget (mset m u v x) a b = if Nat.eqb a u && Nat.eqb b v then x else mget m a b.
Proof.
  intros dim m u v x a b [H1 H2] Hu Hv. unfold mget, mset. rewrite nth_upd, H1.
  destruct (Nat.eqb u a) eqn:E.
  - apply Nat.eqb_eq in E. subst a. rewrite Nat.eqb_refl.
    assert (L : Nat.ltb u dim = true) by (apply Nat.ltb_lt; exact Hu). rewrite L.
    rewrite nth_upd, (H2 u Hu). cbn [andb].
    assert (L' : Nat.ltb v dim = true) by (apply Nat.ltb_lt; exact Hv). rewrite L'.
    rewrite (Nat.eqb_sym b v). reflexivity.
  - rewrite (Nat.eqb_sym a u), E. reflexivity.
Qed.

Lemma mget_mset_same : forall dim m u v x, shape dim m -> u < dim -> v < dim ->
  mget (mset m u v x) u v = x.
Proof.
  intros. erewrite mget_mset by eassumption. rewrite !Nat.eqb_refl. reflexivity.
Qed.

Lemma mget_mset_other : forall dim m u v x a b, shape dim m -> u < dim -> v < dim ->
  (a <> u \/ b <> v) -> mget (mset m u v x) a b = mget m a b.
Proof.
  intros dim m u v x a b Hs Hu Hv Hd. erewrite mget_mset by eassumption.
  destruct (Nat.eqb a u) eqn:E1; [|reflexivity]. destruct (Nat.eqb b v) eqn:E2; [|reflexivity].
  apply Nat.eqb_eq in E1. apply Nat.eqb_eq in E2. lia.
Qed.

(* ---------- adjacency lists --------------------------------------------------------- *)

Lemma adj_push_adj : forall (g : graph) u v a, u < length g ->
  adj (push_adj g u v) a = if Nat.eqb u a then adj g u ++ [v] else adj g a.
Proof.
  intros g u v a H. unfold push_adj, adj. rewrite nth_upd.
  destruct (Nat.eqb u a) eqn:E; [|reflexivity].
  assert (L : Nat.ltb u (length g) = true) by (apply Nat.ltb_lt; exact H). rewrite L. reflexivity.
Qed.

Lemma length_push_adj : forall (g : graph) u v, length (push_adj g u v) = length g.
Proof. intros. unfold push_adj. apply length_upd. Qed.

Lemma adj_repeat_nil : forall dim u, adj (repeat [] dim) u = [].
Proof.
  intros dim u. unfold adj. destruct (Nat.ltb u dim) eqn:L.
  - apply Nat.ltb_lt in L. apply nth_repeat_lt. exact L.
  - apply Nat.ltb_ge in L. apply nth_overflow. rewrite repeat_length. exact L.
Qed.
