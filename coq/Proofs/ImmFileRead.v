(* The Segmentation loop delivers exactly data[offset, offset+size) clipped at
   EOF, for every offset/size, whatever the initial segment-size guess.  *)
From Coq Require Import List NArith ZArith Bool Lia.
Require Import ZifyBool ZifyNat ZifyN.
From Verif Require Import Gen.ImmConsts Model.ImmFile Proofs.ImmFileArith.
Import ListNotations.
Local Open Scope N_scope.

Ltac Zify.zify_post_hook ::= Z.to_euclidean_division_equations.

(* ---- slices ------------------------------------------------------------------ *)
Lemma skipn_skipn' {A} (a b : nat) (l : list A) : skipn a (skipn b l) = skipn (b + a) l.
Proof.
  revert l; induction b as [|b IH]; intros l; [reflexivity|].
  destruct l as [|x l]; [now rewrite !skipn_nil|]. cbn [skipn plus]. apply IH.
Qed.

Lemma firstn_add {A} (a b : nat) (l : list A) : firstn (a + b) l = firstn a l ++ firstn b (skipn a l).
Proof.
  revert l; induction a as [|a IH]; intros l; [reflexivity|].
  destruct l as [|x l]; [now rewrite !firstn_nil|]. cbn [firstn skipn plus app]. now rewrite IH.
Qed.

Lemma slice_slice {A} (o1 l1 o2 l2 : nat) (l : list A) :
  (o2 + l2 <= l1)%nat -> slice o2 l2 (slice o1 l1 l) = slice (o1 + o2) l2 l.
Proof.
  intros H. unfold slice. rewrite skipn_firstn_comm, firstn_firstn, skipn_skipn'.
  f_equal. lia.
Qed.

Lemma slice_app {A} (o a b : nat) (l : list A) : slice o a l ++ slice (o + a) b l = slice o (a + b) l.
Proof. unfold slice. rewrite firstn_add, skipn_skipn'. reflexivity. Qed.

Lemma slice_0_all {A} (n : nat) (l : list A) : (length l <= n)%nat -> slice 0 n l = l.
Proof. intros. unfold slice. cbn [skipn]. now apply firstn_all2. Qed.

Lemma slice_nil_len {A} (o : nat) (l : list A) : slice o 0 l = [].
Proof. reflexivity. Qed.

Lemma slice_length {A} (o n : nat) (l : list A) : (o + n <= length l)%nat -> length (slice o n l) = n.
Proof. intros. unfold slice. rewrite firstn_length, skipn_length. lia. Qed.

Lemma apply_writes_app seg a b : apply_writes seg (a ++ b) = apply_writes seg a ++ apply_writes seg b.
Proof. unfold apply_writes. now rewrite map_app, concat_app. Qed.

(* ---- the loop -------------------------------------------------------------- *)
Section Read.
  Variable ct : list N.
  Variables segsize guess : N.
  Let fsize := N.of_nat (length ct).
  Let nseg := div_ceil fsize segsize.
  Hypothesis Hsize : 1 <= fsize.
  Hypothesis Hseg : 1 <= segsize.

  Definition contains (w offset : N) : Prop :=
    w < nseg /\ seg_start segsize w <= offset < seg_start segsize w + seg_len fsize segsize w.

  Lemma seg_shape : 1 <= nseg /\ fsize = segsize * (nseg - 1) + tail_of fsize segsize
                    /\ 1 <= tail_of fsize segsize <= segsize.
  Proof. pose proof (tail_of_spec fsize segsize Hsize Hseg). unfold nseg. tauto. Qed.

  Lemma seg_len_eq w : seg_len fsize segsize w = if w =? nseg - 1 then tail_of fsize segsize else segsize.
  Proof. reflexivity. Qed.

  Lemma contains_div offset : offset < fsize -> contains (offset / segsize) offset.
  Proof.
    intros Ho. destruct seg_shape as (S1 & S2 & S3).
    unfold contains, seg_start. rewrite seg_len_eq.
    set (w := offset / segsize).
    assert (Hw : w * segsize <= offset < w * segsize + segsize).
    { unfold w. pose proof (N.div_mod offset segsize ltac:(lia)). pose proof (N.mod_lt offset segsize ltac:(lia)). lia. }
    assert (w < nseg) by nia.
    destruct (w =? nseg - 1) eqn:E.
    - assert (w = nseg - 1) by lia. subst w. split; [assumption|]. nia.
    - split; [assumption|]. lia.
  Qed.

  Lemma contains_unique w offset : contains w offset -> w = offset / segsize.
  Proof.
    intros (Hw & Hlo & Hhi). destruct seg_shape as (S1 & S2 & S3).
    unfold seg_start in *. rewrite seg_len_eq in Hhi.
    assert (offset < w * segsize + segsize) by (destruct (w =? nseg - 1); lia).
    apply N.div_unique with (r := offset - w * segsize); lia.
  Qed.

  Lemma classic_contains w offset : contains w offset \/ ~ contains w offset.
  Proof.
    unfold contains.
    destruct (N.ltb_spec w nseg), (N.leb_spec (seg_start segsize w) offset),
      (N.ltb_spec offset (seg_start segsize w + seg_len fsize segsize w)); (left; lia) || (right; lia).
  Qed.

  Lemma contains_end w offset : contains w offset -> seg_start segsize w + seg_len fsize segsize w <= fsize
    /\ (w + 1 < nseg -> seg_start segsize w + seg_len fsize segsize w = seg_start segsize (w + 1))
    /\ (w + 1 = nseg -> seg_start segsize w + seg_len fsize segsize w = fsize)
    /\ seg_len fsize segsize w <= segsize.
  Proof.
    intros (Hw & Hlo & Hhi). destruct seg_shape as (S1 & S2 & S3).
    unfold seg_start in *. rewrite seg_len_eq in *.
    destruct (w =? nseg - 1) eqn:E.
    - assert (w = nseg - 1) by lia. subst w. repeat split; try nia.
    - repeat split; try nia.
  Qed.

  Lemma seg_at_slice w offset len : contains w offset ->
    offset + len <= seg_start segsize w + seg_len fsize segsize w ->
    slice (N.to_nat (offset - seg_start segsize w)) (N.to_nat len) (seg_at ct segsize w)
    = slice (N.to_nat offset) (N.to_nat len) ct.
  Proof.
    intros C Hl. pose proof (contains_end w offset C) as (E1 & _ & _ & E4).
    destruct C as (Hw & Hlo & Hhi). unfold seg_at, seg_start in *.
    rewrite slice_slice by lia. f_equal. lia.
  Qed.

  (* one iteration that finds the wanted byte in the segment it asked for *)
  Lemma step_hit w offset size : contains w offset -> 1 <= size -> offset + size <= fsize ->
    let start := seg_start segsize w in let len := seg_len fsize segsize w in
    let o1 := N.min (start + len) (offset + size) - offset in
    overlap start len offset size = Some (offset, o1) /\ 1 <= o1 <= size /\
    N.min o1 (len - (offset - start)) = o1 /\ offset + o1 <= start + len /\
    (o1 < size -> offset + o1 = seg_start segsize (w + 1) /\ w + 1 < nseg).
  Proof.
    intros C Hs Hb start len o1. pose proof (contains_end w offset C) as (E1 & E2 & E3 & E4).
    destruct C as (Hw & Hlo & Hhi). fold start len in Hlo, Hhi, E1, E2, E3.
    unfold overlap. replace (N.max start offset) with offset by lia.
    destruct (offset <? N.min (start + len) (offset + size)) eqn:L; [|lia].
    fold o1. repeat split; lia.
  Qed.

  (* an iteration that asked for a segment not holding the wanted byte *)
  Lemma step_miss w offset size : w < nseg -> ~ contains w offset -> 1 <= size ->
    match overlap (seg_start segsize w) (seg_len fsize segsize w) offset size with
    | Some (o0, _) => o0 <> offset
    | None => True
    end.
  Proof.
    intros Hw NC Hs. unfold overlap.
    destruct (N.max _ _ <? N.min _ _) eqn:L; [|exact I].
    intros E. apply NC. split; [assumption|]. lia.
  Qed.

  Let remaining (offset : N) : nat := N.to_nat (nseg - offset / segsize).

  Lemma loop_ok : forall (fuel : nat) (known : bool) (offset size : N) (acc : list seg_write),
    offset + size <= fsize ->
    (size = 0 \/ (remaining offset + (if known then 0 else 1) < fuel)%nat) ->
    (known = false -> 1 <= guess) ->
    exists ws,
      segmentation_loop fuel fsize segsize guess known offset size acc = SegDone (rev acc ++ ws) /\
      apply_writes (seg_at ct segsize) ws = slice (N.to_nat offset) (N.to_nat size) ct /\
      (length ws <= remaining offset)%nat /\
      Forall (fun w => w_segnum w < nseg /\ 1 <= w_len w /\ w_off w + w_len w <= seg_len fsize segsize (w_segnum w)) ws.
  Proof.
    induction fuel as [|fuel IH]; intros known offset size acc Hb Hf Hg.
    - destruct Hf as [-> | Hf]; [|lia].
      exists []. cbn [segmentation_loop N.eqb]. rewrite app_nil_r.
      split; [reflexivity|split; [reflexivity|split; [cbn [length]; lia|constructor]]].
    - destruct (size =? 0) eqn:Z.
      + assert (size = 0) by lia. subst size.
        exists []. cbn [segmentation_loop N.eqb]. rewrite app_nil_r.
        split; [reflexivity|split; [reflexivity|split; [cbn [length]; lia|constructor]]].
      + destruct Hf as [Hf|Hf]; [lia|].
        assert (Hs : 1 <= size) by lia. assert (Ho : offset < fsize) by lia.
        cbn [segmentation_loop]. rewrite Z.
        set (ss := if known then segsize else guess).
        set (w := if offset =? 0 then 0 else offset / ss).
        pose proof (contains_div offset Ho) as CD.
        (* continuation after a delivering iteration at the segment that really holds offset *)
        assert (HIT : contains w offset ->
          exists ws, segmentation_loop fuel fsize segsize guess true
                       (offset + N.min (N.min (seg_start segsize w + seg_len fsize segsize w) (offset + size) - offset)
                                       (seg_len fsize segsize w - (offset - seg_start segsize w)))
                       (size - N.min (N.min (seg_start segsize w + seg_len fsize segsize w) (offset + size) - offset)
                                     (seg_len fsize segsize w - (offset - seg_start segsize w)))
                       (mk_write w (offset - seg_start segsize w)
                          (N.min (N.min (seg_start segsize w + seg_len fsize segsize w) (offset + size) - offset)
                                 (seg_len fsize segsize w - (offset - seg_start segsize w))) :: acc)
                     = SegDone (rev acc ++ ws) /\
                     apply_writes (seg_at ct segsize) ws = slice (N.to_nat offset) (N.to_nat size) ct /\
                     (length ws <= remaining offset)%nat /\
                     Forall (fun w => w_segnum w < nseg /\ 1 <= w_len w /\ w_off w + w_len w <= seg_len fsize segsize (w_segnum w)) ws).
        { intros C.
          pose proof (step_hit w offset size C Hs Hb) as (_ & Ho1 & Emin & Hend & Hnext). cbv zeta in *.
          set (o1 := N.min (seg_start segsize w + seg_len fsize segsize w) (offset + size) - offset) in *.
          rewrite Emin.
          pose proof (contains_unique w offset C) as Ew.
          assert (Hrem : size - o1 = 0 \/ (remaining (offset + o1) + 0 < fuel)%nat).
          { destruct (N.eq_dec o1 size) as [E|E]; [left; lia|right].
            destruct (Hnext ltac:(lia)) as (Hn1 & Hn2).
            assert ((offset + o1) / segsize = w + 1).
            { rewrite Hn1. unfold seg_start. apply N.div_mul. lia. }
            unfold remaining in *. rewrite H. rewrite <- Ew in Hf. destruct known; lia. }
          destruct (IH true (offset + o1) (size - o1) (mk_write w (offset - seg_start segsize w) o1 :: acc)
                       ltac:(lia) Hrem ltac:(discriminate)) as (ws & E1 & E2 & E3 & E4).
          exists (mk_write w (offset - seg_start segsize w) o1 :: ws).
          split; [|split; [|split]].
          - rewrite E1. cbn [rev]. rewrite <- app_assoc. reflexivity.
          - change (mk_write w (offset - seg_start segsize w) o1 :: ws) with ([mk_write w (offset - seg_start segsize w) o1] ++ ws).
            rewrite apply_writes_app, E2. unfold apply_writes at 1. cbn [map concat w_off w_len w_segnum].
            rewrite app_nil_r, (seg_at_slice w offset o1 C Hend).
            replace (N.to_nat (offset + o1)) with (N.to_nat offset + N.to_nat o1)%nat by lia.
            rewrite slice_app. f_equal. lia.
          - cbn [length].
            destruct (N.eq_dec o1 size) as [E|E].
            + assert (size - o1 = 0) as Z0 by lia. rewrite Z0 in E1.
              destruct fuel; cbn [segmentation_loop N.eqb] in E1;
                (injection E1 as E1; apply (f_equal (@length _)) in E1; rewrite !app_length in E1; cbn [rev length] in E1;
                 rewrite ?app_length in E1; cbn [length] in E1;
                 assert (length ws = 0)%nat by lia; unfold remaining; destruct C as (C1 & _); rewrite <- Ew; lia).
            + destruct (Hnext ltac:(lia)) as (Hn1 & Hn2).
              assert ((offset + o1) / segsize = w + 1).
              { rewrite Hn1. unfold seg_start. apply N.div_mul. lia. }
              unfold remaining in *. rewrite H in E3. rewrite <- Ew. lia.
          - constructor; [|assumption]. cbn [w_segnum w_len w_off]. destruct C as (C1 & C2 & C3). repeat split; lia. }
        assert (RETRY : known = false ->
          exists ws, segmentation_loop fuel fsize segsize guess true offset size acc = SegDone (rev acc ++ ws) /\
                     apply_writes (seg_at ct segsize) ws = slice (N.to_nat offset) (N.to_nat size) ct /\
                     (length ws <= remaining offset)%nat /\
                     Forall (fun w => w_segnum w < nseg /\ 1 <= w_len w /\ w_off w + w_len w <= seg_len fsize segsize (w_segnum w)) ws).
        { intros K. subst known. apply IH; [assumption| right; lia | discriminate]. }
        fold nseg.
        destruct (nseg <=? w) eqn:B.
        * (* BadSegmentNumberError: only possible with a wrong guess *)
          destruct known eqn:K.
          -- exfalso. unfold w, ss in B. destruct CD as (C1 & _).
             destruct (offset =? 0) eqn:O0; [destruct seg_shape; lia|lia].
          -- apply RETRY. reflexivity.
        * destruct (classic_contains w offset) as [C|NC].
          -- pose proof (step_hit w offset size C Hs Hb) as (Eov & _). cbv zeta in Eov. rewrite Eov.
             rewrite N.eqb_refl. apply HIT. assumption.
          -- pose proof (step_miss w offset size ltac:(lia) NC Hs) as M.
             assert (known = false) as K.
             { destruct known; [|reflexivity]. exfalso. apply NC. unfold w, ss.
               destruct (offset =? 0) eqn:O0; [|assumption].
               assert (offset = 0) by lia. subst offset. rewrite N.div_0_l in CD by lia. assumption. }
             destruct (overlap (seg_start segsize w) (seg_len fsize segsize w) offset size) as [[o0 o1]|].
             ++ destruct (o0 =? offset) eqn:E; [lia|]. rewrite K. apply RETRY. assumption.
             ++ rewrite K. apply RETRY. assumption.
  Qed.
End Read.

(* Python's data[o:o+s] is slice o s data: clipping at EOF is what firstn/skipn do *)
Lemma slice_clip {A} (o s : nat) (l : list A) : slice o (Nat.min s (length l - o)) l = slice o s l.
Proof.
  unfold slice. rewrite <- firstn_firstn.
  rewrite (firstn_all2 (n := length l - o)) by (rewrite skipn_length; lia). reflexivity.
Qed.

Definition py_slice (data : list N) (offset : N) (size : option N) : list N :=
  match size with
  | None => skipn (N.to_nat offset) data
  | Some s => slice (N.to_nat offset) (N.to_nat s) data
  end.

Lemma read_range_exact_ok : forall (ct : list N) (segsize guess offset : N) (size : option N),
  1 <= N.of_nat (length ct) -> 1 <= segsize -> 1 <= guess ->
  exists ws,
    read_plan (N.of_nat (length ct)) segsize guess offset size = SegDone ws /\
    apply_writes (seg_at ct segsize) ws = py_slice ct offset size /\
    (length ws <= N.to_nat (div_ceil (N.of_nat (length ct)) segsize))%nat /\
    Forall (fun w => w_segnum w < div_ceil (N.of_nat (length ct)) segsize /\ 1 <= w_len w /\
                     w_off w + w_len w <= seg_len (N.of_nat (length ct)) segsize (w_segnum w)) ws.
Proof.
  intros ct segsize guess offset size Hs Hg Hgu.
  unfold read_plan.
  set (fsize := N.of_nat (length ct)) in *.
  set (sz := read_clip fsize offset size).
  assert (Hb : sz = 0 \/ offset + sz <= fsize).
  { unfold sz, read_clip. destruct size; lia. }
  destruct (N.eq_dec sz 0) as [Z|NZ].
  - rewrite Z. exists []. destruct (S (S _)); cbn [segmentation_loop N.eqb rev].
    all: split; [reflexivity|split; [|split; [cbn [length]; lia|constructor]]].
    all: cbn [apply_writes map concat]; unfold py_slice, sz, read_clip in *; destruct size as [s|].
    all: unfold slice; try (rewrite skipn_all2 by lia; now rewrite ?firstn_nil).
    all: destruct (N.le_gt_cases fsize offset); [rewrite skipn_all2 by lia; now rewrite firstn_nil|].
    all: assert (s = 0) by lia; subst s; reflexivity.
  - destruct Hb as [Hb|Hb]; [contradiction|].
    destruct (loop_ok ct segsize guess Hs Hg (S (S (N.to_nat (div_ceil fsize segsize)))) false offset sz []
                      Hb) as (ws & E1 & E2 & E3 & E4).
    + right. unfold fsize. generalize (div_ceil (N.of_nat (length ct)) segsize) (offset / segsize). intros; lia.
    + intros _. assumption.
    + exists ws. cbn [rev app] in E1. fold fsize in E1, E3, E4 |- *. split; [exact E1|]. split; [|split].
      * rewrite E2. unfold py_slice, sz, read_clip. destruct size as [s|].
        -- replace (N.to_nat (N.min s (fsize - offset))) with (Nat.min (N.to_nat s) (length ct - N.to_nat offset)) by (unfold fsize; lia).
           apply slice_clip.
        -- unfold slice. apply firstn_all2. rewrite skipn_length. unfold fsize. lia.
      * revert E3. generalize (div_ceil fsize segsize) (offset / segsize) (length ws). intros; lia.
      * exact E4.
Qed.
