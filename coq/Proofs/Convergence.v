(* Proofs for C05 (Model/Convergence.v): chunking independence of the
   convergent key, injectivity of the convergence tag, parameter changes vs
   key / storage index (relative to collision freedom of truncated SHA-256d),
   the literal threshold and the base32 round trip of literal caps. *)
From Coq Require Import String List NArith ZArith Bool Lia.
From Coq Require Import ZifyBool ZifyNat ZifyN.
From Verif Require Import Lib.Hex Lib.Decimal Lib.DecimalFacts Lib.Netstring Lib.NetstringFacts
  Lib.SHA256 Lib.HashPrim Gen.Hashutil Gen.ImmConsts Model.Convergence.
Import ListNotations.
Local Open Scope N_scope.

Local Opaque sha256 sha1.

Ltac divmod_lia := zify; Z.to_euclidean_division_equations; lia.

(* ====================================================================== *)
(* 1. the hasher accumulates: any chunking gives the hash of the whole      *)

Lemma fold_hasher_update : forall chunks h,
  fold_left hasher_update chunks h = hasher_update h (concat chunks).
Proof.
  induction chunks as [|c r IH]; intro h.
  - destruct h as [t a]. cbn. unfold hasher_update. cbn. rewrite app_nil_r. reflexivity.
  - cbn [fold_left concat]. rewrite IH. destruct h as [t a]. unfold hasher_update. cbn.
    rewrite app_assoc. reflexivity.
Qed.

Lemma key_chunking_independent_ok k n segsize secret chunks :
  convergent_key_chunked k n segsize secret chunks
  = convergent_key k n segsize secret (concat chunks).
Proof.
  unfold convergent_key_chunked, convergent_key, convergence_hash.
  rewrite fold_hasher_update. reflexivity.
Qed.

(* the read loop returns a chunking of the whole file when every read returns
   at least one byte until the end of the file *)
Lemma firstn_skipn_nil {A} n (l : list A) : firstn n l = [] -> (0 < n)%nat -> l = [].
Proof. destruct n; [lia|]. destruct l; [reflexivity|discriminate]. Qed.

Lemma read_chunks_concat bs : 1 <= bs ->
  forall fuel sched data,
  Forall (fun s => 1 <= s) sched -> (List.length data < fuel)%nat ->
  concat (read_chunks fuel bs sched data) = data.
Proof.
  intros Hbs. induction fuel as [|f IH]; intros sched data Hs Hl; [lia|].
  cbn [read_chunks].
  set (want := match sched with [] => bs | s :: _ => N.min bs s end).
  assert (Hw : 1 <= want).
  { subst want. destruct sched as [|s r]; [assumption|]. inversion Hs; subst. lia. }
  destruct (firstn (N.to_nat want) data) as [|x c] eqn:E.
  - apply firstn_skipn_nil in E; [|lia]. subst. reflexivity.
  - cbn [concat]. rewrite IH.
    + rewrite <- E. apply firstn_skipn.
    + destruct sched; [constructor|]. inversion Hs; assumption.
    + rewrite skipn_length. destruct data as [|y d]; [destruct (N.to_nat want); discriminate|].
      cbn [List.length] in *. lia.
Qed.

Lemma file_chunks_concat sched data :
  Forall (fun s => 1 <= s) sched -> concat (file_chunks sched data) = data.
Proof.
  intro H. unfold file_chunks. apply read_chunks_concat; [|assumption|lia].
  unfold CONVERGENCE_READ_BLOCKSIZE. lia.
Qed.

Lemma key_read_loop_independent_ok k n segsize secret sched data :
  Forall (fun s => 1 <= s) sched ->
  convergent_key_read k n segsize secret sched data = convergent_key k n segsize secret data.
Proof.
  intro H. unfold convergent_key_read. rewrite key_chunking_independent_ok, file_chunks_concat by assumption.
  reflexivity.
Qed.

Lemma upload_source_independent_ok max_seg k n secret sched data :
  Forall (fun s => 1 <= s) sched ->
  upload_convergent_read max_seg k n secret sched data = upload_convergent max_seg k n secret data.
Proof.
  intro H. unfold upload_convergent_read, upload_convergent, convergent_cap_fields, uploadable_key.
  rewrite key_read_loop_independent_ok by assumption. reflexivity.
Qed.

(* ====================================================================== *)
(* 2. the tag is injective in (k, n, segsize, secret)                       *)

Lemma comma_not_in_dec n : ~ In 44 (dec n).
Proof. apply dec_no_byte. reflexivity. Qed.

Lemma params_string_inj k n seg k' n' seg' :
  dec k ++ [44] ++ dec n ++ [44] ++ dec seg = dec k' ++ [44] ++ dec n' ++ [44] ++ dec seg' ->
  k = k' /\ n = n' /\ seg = seg'.
Proof.
  cbn [app]. intro H.
  apply split_at_sep_unique in H; try apply comma_not_in_dec. destruct H as [Hk H].
  apply split_at_sep_unique in H; try apply comma_not_in_dec. destruct H as [Hn Hs].
  apply dec_inj in Hk, Hn, Hs. auto.
Qed.

Lemma tag_injective_ok k n seg s k' n' seg' s' :
  _convergence_hasher_tag k n seg s = _convergence_hasher_tag k' n' seg' s' ->
  k = k' /\ n = n' /\ seg = seg' /\ s = s'.
Proof.
  unfold _convergence_hasher_tag. rewrite <- !app_assoc. intro H.
  apply app_inv_head in H.
  apply netstring_prefix_free in H. destruct H as [Hs H].
  apply netstring_inj in H.
  change (bytes_of_string ","%string) with [44] in H.
  apply params_string_inj in H. tauto.
Qed.

(* the SHA-256d input determines tag and data; the tag determines the parameters *)
Lemma key_message_inj k n seg s d k' n' seg' s' d' :
  key_message k n seg s d = key_message k' n' seg' s' d' ->
  k = k' /\ n = n' /\ seg = seg' /\ s = s' /\ d = d'.
Proof.
  unfold key_message. intro H. apply netstring_prefix_free in H. destruct H as [Ht Hd].
  apply tag_injective_ok in Ht. tauto.
Qed.

Lemma si_message_inj a b : si_message a = si_message b -> a = b.
Proof. unfold si_message. apply app_inv_head. Qed.

Lemma convergent_key_unfold k n seg s d :
  convergent_key k n seg s d = trunc16 (sha256d (key_message k n seg s d)).
Proof.
  unfold convergent_key, convergence_hash, convergence_hasher, tagged_hasher, hasher_digest,
    hasher_update, mk_hasher, key_message, trunc16, truncate, KEYLEN.
  cbn [h_trunc h_acc app]. change (16 =? 0) with false. cbv iota.
  change (N.to_nat 16) with 16%nat. reflexivity.
Qed.

Lemma chk_storage_index_unfold key :
  chk_storage_index key = trunc16 (sha256d (si_message key)).
Proof.
  unfold chk_storage_index, storage_index_hash, tagged_hash, tagged_hasher, hasher_digest,
    hasher_update, mk_hasher, si_message, trunc16, truncate.
  cbn [h_trunc h_acc app]. change (16 =? 0) with false. cbv iota.
  change (N.to_nat 16) with 16%nat. reflexivity.
Qed.

(* Unconditional form: equal keys for different (parameters, secret, data), or
   equal storage indexes for different keys, exhibit a collision of SHA-256d
   truncated to 128 bits. *)
Lemma tuple_neq_message_neq k n seg s d k' n' seg' s' d' :
  (k, n, seg, s, d) <> (k', n', seg', s', d') ->
  key_message k n seg s d <> key_message k' n' seg' s' d'.
Proof.
  intros Hne H. apply key_message_inj in H. destruct H as (-> & -> & -> & -> & ->). apply Hne. reflexivity.
Qed.

Lemma same_key_is_collision_ok k n seg s d k' n' seg' s' d' :
  (k, n, seg, s, d) <> (k', n', seg', s', d') ->
  convergent_key k n seg s d = convergent_key k' n' seg' s' d' ->
  trunc_collision (key_message k n seg s d) (key_message k' n' seg' s' d').
Proof.
  intros Hne H. split; [apply tuple_neq_message_neq; assumption|].
  rewrite <- !convergent_key_unfold. assumption.
Qed.

Lemma same_si_is_collision_ok key key' :
  key <> key' -> chk_storage_index key = chk_storage_index key' ->
  trunc_collision (si_message key) (si_message key').
Proof.
  intros Hne H. split.
  - intro E. apply si_message_inj in E. contradiction.
  - rewrite <- !chk_storage_index_unfold. assumption.
Qed.

(* Relative form.  `Msgs` is the set of byte strings SHA-256d is applied to in
   the uploads under consideration; collision resistance of the truncated hash
   is idealised as injectivity ON THAT SET (injectivity on all byte strings is
   impossible for a 128-bit digest, so it is not assumed). *)
Section CollisionFree.
  Variable Msgs : list N -> Prop.
  Hypothesis trunc_sha256d_inj_on :
    forall a b, Msgs a -> Msgs b -> trunc16 (sha256d a) = trunc16 (sha256d b) -> a = b.

  Lemma param_change_changes_key_ok k n seg s d k' n' seg' s' d' :
    Msgs (key_message k n seg s d) -> Msgs (key_message k' n' seg' s' d') ->
    (k, n, seg, s, d) <> (k', n', seg', s', d') ->
    convergent_key k n seg s d <> convergent_key k' n' seg' s' d'.
  Proof.
    intros M1 M2 Hne H. rewrite !convergent_key_unfold in H.
    apply trunc_sha256d_inj_on in H; try assumption.
    revert H. apply tuple_neq_message_neq. assumption.
  Qed.

  Lemma key_change_changes_si_ok key key' :
    Msgs (si_message key) -> Msgs (si_message key') ->
    key <> key' -> chk_storage_index key <> chk_storage_index key'.
  Proof.
    intros M1 M2 Hne H. rewrite !chk_storage_index_unfold in H.
    apply trunc_sha256d_inj_on in H; try assumption.
    apply si_message_inj in H. contradiction.
  Qed.

  Lemma param_change_changes_key_and_si_ok k n seg s d k' n' seg' s' d' :
    Msgs (key_message k n seg s d) -> Msgs (key_message k' n' seg' s' d') ->
    Msgs (si_message (convergent_key k n seg s d)) -> Msgs (si_message (convergent_key k' n' seg' s' d')) ->
    (k <> k' \/ n <> n' \/ seg <> seg' \/ s <> s' \/ d <> d') ->
    convergent_key k n seg s d <> convergent_key k' n' seg' s' d' /\
    chk_storage_index (convergent_key k n seg s d) <> chk_storage_index (convergent_key k' n' seg' s' d').
  Proof.
    intros M1 M2 M3 M4 Hne.
    assert (Hk : convergent_key k n seg s d <> convergent_key k' n' seg' s' d').
    { apply param_change_changes_key_ok; try assumption.
      intro E. injection E as -> -> -> -> ->. intuition congruence. }
    split; [assumption|]. apply key_change_changes_si_ok; assumption.
  Qed.
End CollisionFree.

(* The hypothesis of the section is satisfiable: a concrete set of messages (two
   uploads of the same 56 bytes that differ in k only, hence also in the segment
   size 57 / 56) on which the truncated hash is injective, by computation. *)
Fixpoint cv_distinctb (l : list (list N)) : bool :=
  match l with
  | [] => true
  | x :: r => negb (existsb (list_N_eqb x) r) && cv_distinctb r
  end.

Lemma cv_distinctb_NoDup : forall l, cv_distinctb l = true -> NoDup l.
Proof.
  induction l as [|x r IH]; intro H; [constructor|].
  cbn [cv_distinctb] in H. apply andb_prop in H. destruct H as [H1 H2].
  constructor; [|apply IH; assumption].
  intro Hin. apply negb_true_iff in H1.
  assert (E : existsb (list_N_eqb x) r = true).
  { apply existsb_exists. exists x. split; [assumption|]. apply list_N_eqb_eq. reflexivity. }
  congruence.
Qed.

Lemma inj_on_list {A B} (f : A -> B) : forall l,
  NoDup (map f l) -> forall a b, In a l -> In b l -> f a = f b -> a = b.
Proof.
  induction l as [|x r IH]; intros Hnd a b Ha Hb E; [contradiction|].
  cbn [map] in Hnd. inversion Hnd as [|y m Hnotin Hnd']; subst.
  destruct Ha as [<-|Ha], Hb as [<-|Hb].
  - reflexivity.
  - exfalso. apply Hnotin. rewrite E. apply in_map. assumption.
  - exfalso. apply Hnotin. rewrite <- E. apply in_map. assumption.
  - apply IH; assumption.
Qed.

Definition ex_secret : list N := bytes_of_string "secret".
Definition ex_data : list N := repeat 120 56.
Definition ex_msgs : list (list N) :=
  [ key_message 3 10 57 ex_secret ex_data; key_message 4 10 56 ex_secret ex_data;
    si_message (convergent_key 3 10 57 ex_secret ex_data);
    si_message (convergent_key 4 10 56 ex_secret ex_data) ].

Lemma ex_msgs_collision_free :
  forall a b, In a ex_msgs -> In b ex_msgs -> trunc16 (sha256d a) = trunc16 (sha256d b) -> a = b.
Proof.
  apply (inj_on_list (fun m => trunc16 (sha256d m))). apply cv_distinctb_NoDup.
  vm_compute. reflexivity.
Qed.

Lemma param_change_nonvacuous_ok :
  convergent_key 3 10 57 ex_secret ex_data <> convergent_key 4 10 56 ex_secret ex_data /\
  chk_storage_index (convergent_key 3 10 57 ex_secret ex_data)
    <> chk_storage_index (convergent_key 4 10 56 ex_secret ex_data).
Proof.
  apply (param_change_changes_key_and_si_ok (fun m => In m ex_msgs) ex_msgs_collision_free).
  - left; reflexivity.
  - right; left; reflexivity.
  - right; right; left; reflexivity.
  - right; right; right; left; reflexivity.
  - left. discriminate.
Qed.

(* ====================================================================== *)
(* 3. literal threshold                                                     *)

Lemma literal_iff_le_55_ok size : upload_kind size = Literal <-> size <= 55.
Proof.
  unfold upload_kind, is_literal, URI_LIT_SIZE_THRESHOLD.
  destruct (size <=? 55) eqn:E; split; intro H; try discriminate; try reflexivity; lia.
Qed.

Lemma chk_iff_ge_56_ok size : upload_kind size = CHK <-> 56 <= size.
Proof.
  unfold upload_kind, is_literal, URI_LIT_SIZE_THRESHOLD.
  destruct (size <=? 55) eqn:E; split; intro H; try discriminate; try reflexivity; lia.
Qed.

Lemma upload_literal_ok max_seg k n secret data :
  blen data <= 55 -> upload_convergent max_seg k n secret data = ULiteral (literal_cap data).
Proof.
  intro H. unfold upload_convergent. apply literal_iff_le_55_ok in H. rewrite H. reflexivity.
Qed.

Lemma upload_chk_ok max_seg k n secret data :
  56 <= blen data ->
  upload_convergent max_seg k n secret data = UCHK (convergent_cap_fields max_seg k n secret data).
Proof.
  intro H. unfold upload_convergent. apply chk_iff_ge_56_ok in H. rewrite H. reflexivity.
Qed.

(* ====================================================================== *)
(* 4. base32 round trip                                                     *)

Lemma b32_val_chr q : q < 32 -> b32_val (b32_chr q) = Some q.
Proof.
  intro H. rewrite <- (N2Nat.id q). assert (Hn : (N.to_nat q < 32)%nat) by lia.
  revert Hn. generalize (N.to_nat q). intros m Hm.
  do 32 (destruct m as [|m]; [vm_compute; reflexivity|]). lia.
Qed.

Lemma map_opt_val_chr : forall qs,
  Forall (fun q => q < 32) qs -> cv_map_opt b32_val (map b32_chr qs) = Some qs.
Proof.
  induction qs as [|q r IH]; intro H; [reflexivity|].
  inversion H; subst. cbn [map cv_map_opt]. rewrite b32_val_chr by assumption.
  rewrite IH by assumption. reflexivity.
Qed.

Lemma enc5_lt32 a b c d e :
  a < 256 -> b < 256 -> c < 256 -> d < 256 -> e < 256 ->
  Forall (fun q => q < 32) (enc5 a b c d e).
Proof.
  intros. unfold enc5. repeat constructor; divmod_lia.
Qed.

Lemma dec8_enc5 a b c d e :
  a < 256 -> b < 256 -> c < 256 -> d < 256 -> e < 256 ->
  match enc5 a b c d e with
  | [q1; q2; q3; q4; q5; q6; q7; q8] => dec8 q1 q2 q3 q4 q5 q6 q7 q8
  | _ => []
  end = [a; b; c; d; e].
Proof.
  intros. unfold enc5, dec8. repeat (f_equal; try divmod_lia).
Qed.

Lemma Forall_firstn {A} (P : A -> Prop) n : forall l, Forall P l -> Forall P (firstn n l).
Proof.
  induction n; intros l H; [constructor|]. destruct l; [constructor|].
  inversion H; subst. cbn. constructor; auto.
Qed.

Lemma bytes_ok_cons b l : cv_bytes_ok (b :: l) = true -> b < 256 /\ cv_bytes_ok l = true.
Proof.
  unfold cv_bytes_ok. cbn [forallb]. intro H. apply andb_prop in H. destruct H as [H1 H2].
  split; [lia|assumption].
Qed.

(* five-at-a-time induction *)
Lemma list_ind5 {A} (P : list A -> Prop) :
  P [] -> (forall a, P [a]) -> (forall a b, P [a; b]) -> (forall a b c, P [a; b; c]) ->
  (forall a b c d, P [a; b; c; d]) ->
  (forall a b c d e r, P r -> P (a :: b :: c :: d :: e :: r)) ->
  forall l, P l.
Proof.
  intros H0 H1 H2 H3 H4 H5.
  fix IH 1. intro l.
  destruct l as [|a [|b [|c [|d [|e r]]]]].
  - exact H0.
  - apply H1.
  - apply H2.
  - apply H3.
  - apply H4.
  - apply H5. apply IH.
Qed.

Lemma quintets_lt32 : forall l, cv_bytes_ok l = true -> Forall (fun q => q < 32) (b32_quintets l).
Proof.
  induction l as [| a | a b | a b c | a b c d | a b c d e r IH] using list_ind5; intro H.
  - constructor.
  - apply bytes_ok_cons in H. destruct H as [Ha _].
    cbn [b32_quintets]. apply Forall_firstn. apply enc5_lt32; lia.
  - apply bytes_ok_cons in H. destruct H as [Ha H]. apply bytes_ok_cons in H. destruct H as [Hb _].
    cbn [b32_quintets]. apply Forall_firstn. apply enc5_lt32; lia.
  - apply bytes_ok_cons in H. destruct H as [Ha H]. apply bytes_ok_cons in H. destruct H as [Hb H].
    apply bytes_ok_cons in H. destruct H as [Hc _].
    cbn [b32_quintets]. apply Forall_firstn. apply enc5_lt32; lia.
  - apply bytes_ok_cons in H. destruct H as [Ha H]. apply bytes_ok_cons in H. destruct H as [Hb H].
    apply bytes_ok_cons in H. destruct H as [Hc H]. apply bytes_ok_cons in H. destruct H as [Hd _].
    cbn [b32_quintets]. apply Forall_firstn. apply enc5_lt32; lia.
  - apply bytes_ok_cons in H. destruct H as [Ha H]. apply bytes_ok_cons in H. destruct H as [Hb H].
    apply bytes_ok_cons in H. destruct H as [Hc H]. apply bytes_ok_cons in H. destruct H as [Hd H].
    apply bytes_ok_cons in H. destruct H as [He H].
    cbn [b32_quintets]. apply Forall_app. split; [apply enc5_lt32; assumption|apply IH; assumption].
Qed.

(* the four tails *)
Ltac tail_tac :=
  cbn [enc5 firstn b32_unquintets b32_dec_tail List.length b32_tail_octets app repeat Nat.sub dec8 skipn forallb];
  match goal with |- (if ?c then _ else _) = _ => replace c with true by (symmetry; divmod_lia) end;
  repeat (f_equal; try divmod_lia).

Lemma tail1 a : a < 256 -> b32_unquintets (firstn 2 (enc5 a 0 0 0 0)) = Some [a].
Proof. intros. tail_tac. Qed.

Lemma tail2 a b : a < 256 -> b < 256 -> b32_unquintets (firstn 4 (enc5 a b 0 0 0)) = Some [a; b].
Proof. intros. tail_tac. Qed.

Lemma tail3 a b c : a < 256 -> b < 256 -> c < 256 ->
  b32_unquintets (firstn 5 (enc5 a b c 0 0)) = Some [a; b; c].
Proof. intros. tail_tac. Qed.

Lemma tail4 a b c d : a < 256 -> b < 256 -> c < 256 -> d < 256 ->
  b32_unquintets (firstn 7 (enc5 a b c d 0)) = Some [a; b; c; d].
Proof. intros. tail_tac. Qed.

Lemma unquintets_block q1 q2 q3 q4 q5 q6 q7 q8 r :
  b32_unquintets (q1 :: q2 :: q3 :: q4 :: q5 :: q6 :: q7 :: q8 :: r)
  = match b32_unquintets r with
    | Some t => Some (dec8 q1 q2 q3 q4 q5 q6 q7 q8 ++ t)
    | None => None
    end.
Proof. reflexivity. Qed.

Lemma unquintets_quintets : forall l, cv_bytes_ok l = true -> b32_unquintets (b32_quintets l) = Some l.
Proof.
  induction l as [| a | a b | a b c | a b c d | a b c d e r IH] using list_ind5; intro H.
  - reflexivity.
  - apply bytes_ok_cons in H. destruct H as [Ha _]. apply tail1; assumption.
  - apply bytes_ok_cons in H. destruct H as [Ha H]. apply bytes_ok_cons in H. destruct H as [Hb _].
    apply tail2; assumption.
  - apply bytes_ok_cons in H. destruct H as [Ha H]. apply bytes_ok_cons in H. destruct H as [Hb H].
    apply bytes_ok_cons in H. destruct H as [Hc _]. apply tail3; assumption.
  - apply bytes_ok_cons in H. destruct H as [Ha H]. apply bytes_ok_cons in H. destruct H as [Hb H].
    apply bytes_ok_cons in H. destruct H as [Hc H]. apply bytes_ok_cons in H. destruct H as [Hd _].
    apply tail4; assumption.
  - apply bytes_ok_cons in H. destruct H as [Ha H]. apply bytes_ok_cons in H. destruct H as [Hb H].
    apply bytes_ok_cons in H. destruct H as [Hc H]. apply bytes_ok_cons in H. destruct H as [Hd H].
    apply bytes_ok_cons in H. destruct H as [He H].
    change (b32_quintets (a :: b :: c :: d :: e :: r)) with (enc5 a b c d e ++ b32_quintets r).
    pose proof (dec8_enc5 a b c d e Ha Hb Hc Hd He) as D.
    unfold enc5 in *. cbn [app]. rewrite unquintets_block. rewrite (IH H).
    rewrite D. reflexivity.
Qed.

Lemma b32_decode_encode data : cv_bytes_ok data = true -> b32_decode (b32_encode data) = Some data.
Proof.
  intro H. unfold b32_decode, b32_encode.
  rewrite map_opt_val_chr by (apply quintets_lt32; assumption).
  apply unquintets_quintets; assumption.
Qed.

Lemma strip_prefix_app : forall p l, strip_prefix p (p ++ l) = Some l.
Proof.
  induction p as [|x p IH]; intro l; [reflexivity|].
  cbn [app strip_prefix]. rewrite N.eqb_refl. apply IH.
Qed.

Lemma literal_cap_embeds_data_ok data :
  cv_bytes_ok data = true -> literal_cap_data (literal_cap data) = Some data.
Proof.
  intro H. unfold literal_cap_data, literal_cap. rewrite strip_prefix_app.
  apply b32_decode_encode; assumption.
Qed.

Lemma literal_read_whole_ok data :
  cv_bytes_ok data = true -> literal_read (literal_cap data) 0 (blen data) = Some data.
Proof.
  intro H. unfold literal_read. rewrite literal_cap_embeds_data_ok by assumption.
  cbn [N.to_nat skipn]. unfold blen. rewrite Nat2N.id, firstn_all. reflexivity.
Qed.

(* a literal upload followed by reading the cap back, for every file of at most 55 bytes *)
Lemma literal_upload_round_trip_ok max_seg k n secret data :
  cv_bytes_ok data = true -> blen data <= 55 ->
  exists cap, upload_convergent max_seg k n secret data = ULiteral cap /\
              literal_read cap 0 (blen data) = Some data.
Proof.
  intros Hb Hs. exists (literal_cap data). split.
  - apply upload_literal_ok; assumption.
  - apply literal_read_whole_ok; assumption.
Qed.

(* ====================================================================== *)
(* 5. segment size                                                          *)

Ltac Zify.zify_post_hook ::= Z.to_euclidean_division_equations.

Lemma upload_segsize_spec_ok max_seg size k :
  1 <= k ->
  let s := cv_upload_segsize max_seg size k in
  s mod k = 0 /\ N.min max_seg size <= s /\ s < N.min max_seg size + k.
Proof.
  intros Hk. cbv zeta. unfold cv_upload_segsize, cv_next_multiple, cv_div_ceil.
  set (m := N.min max_seg size). clearbody m.
  destruct (m mod k =? 0) eqn:E.
  - apply N.eqb_eq in E. rewrite N.add_0_r.
    assert (Hm : m = k * (m / k)) by (rewrite (N.div_mod m k) at 1 by lia; lia).
    split; [apply N.mod_mul; lia|]. nia.
  - apply N.eqb_neq in E.
    pose proof (N.div_mod m k ltac:(lia)) as D. pose proof (N.mod_lt m k ltac:(lia)) as L.
    split; [apply N.mod_mul; lia|]. nia.
Qed.

Ltac Zify.zify_post_hook ::= idtac.

(* ====================================================================== *)
(* 6. pins                                                                  *)

Lemma pins_ok :
  (pin_FileHandle_get_encryption_key_convergent, pin_FileHandle_get_encryption_key_random,
   pin_FileHandle_get_encryption_key, pin_Uploader_upload, pin_LiteralUploader_start,
   pin_BaseUploadable_get_all_encoding_parameters, pin_EncryptAnUploadable_read_encrypted,
   pin_EncryptAnUploadable_hash_and_encrypt_plaintext)
  = ("15432aac02ca8169", "a98a6d5d41ba3347", "372b8d3c74308cb9", "c648ad5e8214dfbe",
     "8a0958199e46be77", "e74fad7b74b26da8", "561735b5c46b4fc9", "c875f08b14f62c92")%string.
Proof. reflexivity. Qed.
