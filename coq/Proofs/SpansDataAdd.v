(* C37: DataSpans.add -- the while loop (cases A-E) produces a sorted, disjoint
   (possibly adjacent) chunk list denoting the overridden map; the merge pass
   re-establishes the strong invariant without changing the denotation;
   assert_invariants never fires. *)
From Coq Require Import List Arith NArith Bool Lia ZifyBool ZifyNat ZifyN.
From Verif Require Import Model.Spans Proofs.SpansBase Proofs.SpansDataBase.
Import ListNotations.
Local Open Scope N_scope.

(* the body of one loop iteration on the span (ss, sd) at index i, as a function *)
Definition add_body (ss : N) (sd : list N) (r : dspans) (end_ : N) (start : N) (data : list N) : dspans :=
  match data with
  | [] => (ss, sd) :: r
  | _ :: _ =>
      if (ss <=? start) && (start <? ss + nlen sd) then
        if ss =? start then
          if ss + nlen sd <=? end_ then
            (ss, ntake (nlen sd) data) :: ds_add_loop (start + nlen sd) (ndrop (nlen sd) data) end_ r
          else
            (ss, data ++ ndrop (nlen data) sd) :: r
        else if (ss <? start) && (end_ <? ss + nlen sd) then
          (ss, ntake (start - ss) sd ++ data ++ nlast (ss + nlen sd - end_) sd) :: r
        else
          (ss, ntake (start - ss) sd ++ ntake (nlen sd - (start - ss)) data)
            :: ds_add_loop (start + (nlen sd - (start - ss))) (ndrop (nlen sd - (start - ss)) data) end_ r
      else
        (ss, sd) :: ds_add_loop start data end_ r
  end.

Lemma ds_add_loop_cons start data end_ ss sd r :
  ds_add_loop start data end_ ((ss, sd) :: r) =
  match data with
  | [] => (ss, sd) :: r
  | _ :: _ =>
      if start <? ss
      then (start, ntake (ss - start) data) :: add_body ss sd r end_ ss (ndrop (ss - start) data)
      else add_body ss sd r end_ start data
  end.
Proof. destruct data; reflexivity. Qed.

Definition loop_spec (res : dspans) (e start : N) (data : list N) (rest : dspans) : Prop :=
  dweak_from e res /\
  forall z, dget z res = if in_iv start (nlen data) z then nget data (z - start) else dget z rest.

Ltac dcase :=
  repeat match goal with
         | |- context [nget (ntake _ _) _] => rewrite nget_ntake
         | |- context [nget (ndrop _ _) _] => rewrite nget_ndrop
         | |- context [nget (_ ++ _) _] => rewrite nget_app
         | |- context [nlen (_ ++ _)] => rewrite nlen_app
         | |- context [nlen (ntake _ _)] => rewrite nlen_ntake
         | |- context [nlen (ndrop _ _)] => rewrite nlen_ndrop
         | |- context [if ?c then _ else _] => let E := fresh "E" in destruct c eqn:E
         end.

Ltac dfin :=
  first [ reflexivity | (exfalso; lia) | (f_equal; lia)
        | (apply nget_none; lia) | (symmetry; apply nget_none; lia) ].

Ltac dsimp := rewrite ?nlen_app, ?nlen_ntake, ?nlen_ndrop in *.

Lemma body_spec ss sd r
  (IH : forall start data e, dweak_from e r -> e <= start ->
        loop_spec (ds_add_loop start data (start + nlen data) r) e start data r) :
  0 < nlen sd -> dweak_from (ss + nlen sd) r ->
  forall st dt en, ss <= st -> (dt = [] \/ en = st + nlen dt) ->
  loop_spec (add_body ss sd r en st dt) ss st dt ((ss, sd) :: r).
Proof.
  intros Hsd Hr st dt en Hst Hen.
  destruct dt as [|b dt'].
  - unfold add_body, loop_spec. split.
    + cbn [dweak_from fst snd]. repeat split; [lia|assumption|assumption].
    + intro z. assert (E : in_iv st (nlen []) z = false) by (unfold in_iv; rewrite nlen_nil; lia).
      rewrite E. reflexivity.
  - destruct Hen as [Hen|Hen]; [discriminate|].
    assert (Hdt : 0 < nlen (b :: dt')) by (rewrite nlen_cons; lia).
    unfold add_body. cbv beta iota zeta.
    remember (b :: dt') as dt eqn:Edt. clear Edt b dt'.
    destruct ((ss <=? st) && (st <? ss + nlen sd)) eqn:C1.
    + destruct (ss =? st) eqn:C2.
      * destruct (ss + nlen sd <=? en) eqn:C3.
        -- (* case C *)
           assert (Een : en = (st + nlen sd) + nlen (ndrop (nlen sd) dt)) by (rewrite nlen_ndrop; lia).
           destruct (IH (st + nlen sd) (ndrop (nlen sd) dt) (ss + nlen sd) Hr ltac:(lia)) as [W M].
           rewrite <- Een in W, M. split.
           ++ cbn [dweak_from fst snd]. dsimp. repeat split; try lia.
              eapply dweak_from_weaken; [|exact W]. lia.
           ++ intro z. rewrite !dget_cons. cbn [fst snd]. rewrite M. unfold in_iv. dcase; dfin.
        -- (* case B *)
           split.
           ++ cbn [dweak_from fst snd]. dsimp. repeat split; try lia.
              eapply dweak_from_weaken; [|exact Hr]. lia.
           ++ intro z. rewrite !dget_cons. cbn [fst snd]. unfold in_iv. dcase; dfin.
      * destruct ((ss <? st) && (en <? ss + nlen sd)) eqn:C4.
        -- (* case E *)
           rewrite (nlast_pos (ss + nlen sd - en) sd) by lia. split.
           ++ cbn [dweak_from fst snd]. dsimp. repeat split; try lia.
              eapply dweak_from_weaken; [|exact Hr]. lia.
           ++ intro z. rewrite !dget_cons. cbn [fst snd]. unfold in_iv. dcase; dfin.
        -- (* case D *)
           set (su := nlen sd - (st - ss)) in *.
           assert (Een : en = (st + su) + nlen (ndrop su dt)) by (rewrite nlen_ndrop; subst su; lia).
           destruct (IH (st + su) (ndrop su dt) (ss + nlen sd) Hr ltac:(subst su; lia)) as [W M].
           rewrite <- Een in W, M. split.
           ++ cbn [dweak_from fst snd]. dsimp. repeat split; try (subst su; lia).
              eapply dweak_from_weaken; [|exact W]. subst su. lia.
           ++ intro z. rewrite !dget_cons. cbn [fst snd]. rewrite M. unfold in_iv. subst su. dcase; dfin.
    + (* not there yet *)
      destruct (IH st dt (ss + nlen sd) Hr ltac:(lia)) as [W M].
      rewrite <- Hen in W, M. split.
      * cbn [dweak_from fst snd]. repeat split; try lia. exact W.
      * intro z. rewrite !dget_cons. cbn [fst snd]. rewrite M. unfold in_iv. dcase; dfin.
Qed.

Lemma add_loop_spec rest : forall start data e, dweak_from e rest -> e <= start ->
  loop_spec (ds_add_loop start data (start + nlen data) rest) e start data rest.
Proof.
  induction rest as [|[ss sd] r IH]; intros start data e W He.
  - destruct data as [|b dt']; cbn [ds_add_loop].
    + split; [exact I|]. intro z.
      assert (E : in_iv start (nlen []) z = false) by (unfold in_iv; rewrite nlen_nil; lia).
      rewrite E. reflexivity.
    + assert (Hdt : 0 < nlen (b :: dt')) by (rewrite nlen_cons; lia).
      split.
      * cbn [dweak_from fst snd]. repeat split; try lia; try exact Hdt.
      * intro z. rewrite dget_cons. cbn [fst snd dget]. destruct (in_iv start (nlen (b :: dt')) z); reflexivity.
  - cbn [dweak_from fst snd] in W. destruct W as (W1 & W2 & W3).
    pose proof (body_spec ss sd r IH W2 W3) as B.
    rewrite ds_add_loop_cons. destruct data as [|b dt'].
    + split; [cbn [dweak_from fst snd]; auto|]. intro z.
      assert (E : in_iv start (nlen []) z = false) by (unfold in_iv; rewrite nlen_nil; lia).
      rewrite E. reflexivity.
    + assert (Hdt : 0 < nlen (b :: dt')) by (rewrite nlen_cons; lia).
      remember (b :: dt') as dt eqn:Edt. clear Edt b dt'.
      destruct (start <? ss) eqn:C.
      * (* case A *)
        assert (Hen : ndrop (ss - start) dt = [] \/ start + nlen dt = ss + nlen (ndrop (ss - start) dt)).
        { destruct (N.le_gt_cases (nlen dt) (ss - start)) as [L|L].
          - left. unfold ndrop. apply skipn_all2. unfold nlen in L. lia.
          - right. rewrite nlen_ndrop. lia. }
        destruct (B ss (ndrop (ss - start) dt) (start + nlen dt) ltac:(lia) Hen) as [WB MB].
        split.
        -- cbn [dweak_from fst snd]. dsimp. repeat split; try lia.
           eapply dweak_from_weaken; [|exact WB]. lia.
        -- intro z. rewrite dget_cons. cbn [fst snd]. rewrite MB. rewrite !dget_cons. cbn [fst snd].
           unfold in_iv. dcase; dfin.
      * destruct (B start dt (start + nlen dt) ltac:(lia) (or_intror eq_refl)) as [WB MB].
        split.
        -- eapply dweak_from_weaken; [|exact WB]. lia.
        -- exact MB.
Qed.

(* ---- the merge pass ----------------------------------------------------------------------- *)
Lemma merge_from_spec l : forall cur e,
  dweak_from (fst cur + nlen (snd cur)) l -> 0 < nlen (snd cur) -> e <= fst cur ->
  dwf_from e (ds_merge_from cur l) /\
  forall z, dget z (ds_merge_from cur l) = dget z (cur :: l).
Proof.
  induction l as [|[ss sd] r IH]; intros cur e W Hc He.
  - cbn [ds_merge_from]. split; [|reflexivity]. cbn [dwf_from]. auto.
  - cbn [dweak_from fst snd] in W. destruct W as (W1 & W2 & W3).
    cbn [ds_merge_from]. unfold adjacent.
    destruct ((fst cur <? ss) && (fst cur + nlen (snd cur) =? ss)) eqn:A1.
    + (* adjacent: glue *)
      destruct (IH (fst cur, snd cur ++ sd) e) as [Wf M]; cbn [fst snd]; dsimp; try lia.
      { eapply dweak_from_weaken; [|exact W3]. lia. }
      split; [exact Wf|]. intro z. rewrite M, !dget_cons. cbn [fst snd]. unfold in_iv. dcase; dfin.
    + assert (A2 : ((ss <? fst cur) && (ss + nlen sd =? fst cur)) = false) by lia. rewrite A2.
      destruct (IH (ss, sd) (fst cur + nlen (snd cur) + 1)) as [Wf M]; cbn [fst snd]; try lia; try assumption.
      split.
      * cbn [dwf_from]. repeat split; assumption.
      * intro z. rewrite dget_cons, M. reflexivity.
Qed.

Lemma merge_spec l e : dweak_from e l ->
  dwf_from e (ds_merge l) /\ forall z, dget z (ds_merge l) = dget z l.
Proof.
  destruct l as [|cur r]; intro W; [split; [exact I|reflexivity]|].
  cbn [dweak_from] in W. destruct W as (W1 & W2 & W3). cbn [ds_merge].
  apply merge_from_spec; assumption.
Qed.

(* ---- assert_invariants ------------------------------------------------------------------- *)
Lemma assert_invariants_wf l : dwf l -> ds_assert_invariants l = true.
Proof.
  destruct l as [|[s0 d0] r]; intro H; [reflexivity|].
  cbn [ds_assert_invariants]. unfold dwf in H. cbn [dwf_from fst snd] in H. destruct H as (_ & _ & H).
  apply forallb_forall. intros sp Hin. destruct (dwf_from_In _ _ _ H Hin). lia.
Qed.

(* ---- add ------------------------------------------------------------------------------------ *)
Theorem ds_add_correct s data l : dwf l ->
  exists l', ds_add s data l = Some l' /\ dwf l' /\
             forall z, dget z l' = if in_iv s (nlen data) z then nget data (z - s) else dget z l.
Proof.
  intro H. unfold ds_add, ds_add_raw.
  destruct (add_loop_spec l s data 0 (dwf_dweak _ _ H) ltac:(lia)) as [W M].
  destruct (merge_spec _ 0 W) as [Wm Mm].
  exists (ds_merge (ds_add_loop s data (s + nlen data) l)).
  rewrite (assert_invariants_wf _ Wm). repeat split; [exact Wm|].
  intro z. rewrite Mm, M. reflexivity.
Qed.
