(* C21  The invariants of the walk and the lemmas that Props/C21.v states as theorems. *)
From Coq Require Import List NArith Bool Lia Arith.
From Verif Require Import Model.Traverse Proofs.Traverse.
Import ListNotations.
Local Open Scope N_scope.
Local Open Scope bool_scope.

Ltac inapp H := repeat first [rewrite in_app_iff in H | progress cbn [In] in H].
Ltac inapp_goal := repeat first [rewrite in_app_iff | progress cbn [In]].

(* ---- running the loop under an invariant --------------------------------- *)
Lemma loop_inv g (P : state -> Prop) :
  (forall st, P st -> st_stack st <> [] -> P (step g st)) ->
  forall fuel st out, P st -> loop g fuel st = Some out ->
  exists st', P st' /\ st_stack st' = [] /\ st_out st' = out.
Proof.
  intro Hstep. induction fuel as [|f IH]; intros st out HP Hl; simpl in Hl.
  - destruct (st_stack st) eqn:E; [|discriminate]. inversion Hl. exists st. auto.
  - destruct (st_stack st) eqn:E.
    + inversion Hl. exists st. auto.
    + apply (IH (step g st)); [|exact Hl]. apply Hstep; [exact HP|]. rewrite E. discriminate.
Qed.

Lemma loop_fuel_mono g : forall f st out, loop g f st = Some out -> forall f', (f <= f')%nat -> loop g f' st = Some out.
Proof.
  induction f as [|f IH]; intros st out H f' Hle; simpl in H.
  - destruct (st_stack st) eqn:E; [|discriminate]. destruct f'; simpl; rewrite E; exact H.
  - destruct (st_stack st) eqn:E.
    + destruct f'; simpl; rewrite E; exact H.
    + destruct f' as [|f']; [lia|]. simpl. rewrite E. apply IH; [exact H | lia].
Qed.

(* ---- termination --------------------------------------------------------- *)
Section Termination.
  Variable g : graph.
  Hypothesis Hdv : dirs_have_verifier g.

  Definition gverifiers : list N :=
    flat_map (fun e : N * node => match n_verifier (snd e) with Some v => [v] | None => [] end) g.

  Definition unfound (found : list N) : nat := length (filter (fun v => negb (mem v found)) gverifiers).

  Lemma gverifiers_len : (length gverifiers <= length g)%nat.
  Proof.
    clear Hdv. unfold gverifiers. induction g as [|[i n] g' IH]; simpl; [lia|].
    rewrite app_length. destruct (n_verifier n); simpl; lia.
  Qed.

  Lemma gverifiers_In i n v : lookup g i = Some n -> n_verifier n = Some v -> In v gverifiers.
  Proof.
    intros Hl Hv. apply lookup_In in Hl. unfold gverifiers. apply in_flat_map.
    exists (i, n). split; [exact Hl|]. simpl. rewrite Hv. left. reflexivity.
  Qed.

  Lemma unfound_cons_le w found : (unfound (w :: found) <= unfound found)%nat.
  Proof.
    unfold unfound. apply filter_length_le. intros x _ H. simpl in H.
    apply negb_true_iff in H. apply orb_false_iff in H. destruct H as [_ H]. rewrite H. reflexivity.
  Qed.

  Lemma filter_strict (U : list N) w found :
    In w U -> mem w found = false ->
    (length (filter (fun v => negb (mem v (w :: found))) U) + 1 <= length (filter (fun v => negb (mem v found)) U))%nat.
  Proof.
    induction U as [|x U IH]; simpl; [tauto|].
    intros [H|H] Hm.
    - subst x. rewrite N.eqb_refl. simpl. rewrite Hm. simpl.
      assert ((length (filter (fun v => negb (N.eqb v w || mem v found)) U) <= length (filter (fun v => negb (mem v found)) U))%nat).
      { apply filter_length_le. intros y _ K. apply negb_true_iff in K. apply orb_false_iff in K. destruct K as [_ K]. rewrite K. reflexivity. }
      lia.
    - specialize (IH H Hm). simpl in IH.
      destruct (x =? w) eqn:E; simpl.
      + destruct (mem x found); simpl; lia.
      + destruct (mem x found); simpl; lia.
  Qed.

  Lemma unfound_cons_lt w found : In w gverifiers -> mem w found = false -> (unfound (w :: found) + 1 <= unfound found)%nat.
  Proof. intros. unfold unfound. apply filter_strict; assumption. Qed.

  Lemma scan_measure p kids : forall found,
    (unfound (s_found (scan g p kids found)) + length (s_dirs (scan g p kids found)) <= unfound found)%nat.
  Proof.
    induction kids as [|[nm c] r IH]; intro found; simpl; [lia|].
    destruct (lookup g c) as [nc|] eqn:El; [|apply IH].
    destruct (is_unknown (n_kind nc)); simpl; [apply IH|].
    destruct (n_verifier nc) as [w|] eqn:Ev.
    - destruct (mem w found) eqn:Em; [apply IH|].
      specialize (IH (w :: found)).
      pose proof (unfound_cons_lt w found (gverifiers_In _ _ _ El Ev) Em).
      destruct (is_dir (n_kind nc)); simpl; lia.
    - destruct (is_dir (n_kind nc)) eqn:Ed; simpl; [|apply IH].
      exfalso. destruct (Hdv c nc El) as [v Hv]; [destruct (n_kind nc); try discriminate; reflexivity|].
      congruence.
  Qed.

  Definition measure (st : state) : nat := (length (st_stack st) + unfound (st_found st))%nat.

  Lemma step_measure st : st_stack st <> [] -> (measure (step g st) + 1 <= measure st)%nat.
  Proof.
    unfold measure, step. destruct (st_stack st) as [|[p d] rest]; [congruence|]. intros _.
    destruct (lookup g d) as [nd|]; simpl.
    - rewrite app_length. pose proof (scan_measure p (sort_children (n_children nd)) (st_found st)). lia.
    - lia.
  Qed.

  Lemma loop_terminates : forall fuel st, (measure st <= fuel)%nat -> exists out, loop g fuel st = Some out.
  Proof.
    induction fuel as [|f IH]; intros st H; simpl.
    - destruct (st_stack st) eqn:E; [eauto|]. unfold measure in H. rewrite E in H. simpl in H. lia.
    - destruct (st_stack st) eqn:E; [eauto|].
      apply IH. assert (st_stack st <> []) by (rewrite E; discriminate).
      pose proof (step_measure st H0). lia.
  Qed.

  Lemma traverse_terminates root : exists out, traverse g root = Some out.
  Proof.
    unfold traverse, traverse_fuel. apply loop_terminates.
    unfold measure, init_state. simpl.
    assert (forall f, unfound f <= length g)%nat.
    { intro f. unfold unfound. pose proof gverifiers_len.
      pose proof (filter_length_le (fun v => negb (mem v f)) (fun _ => true) gverifiers (fun _ _ _ => eq_refl)).
      assert (length (filter (fun _ : N => true) gverifiers) = length gverifiers).
      { clear. induction gverifiers; simpl; auto. }
      lia. }
    specialize (H (match lookup g root with Some nr => match n_verifier nr with Some v => [v] | None => [] end | None => [] end)).
    lia.
  Qed.
End Termination.

(* ---- the invariant ------------------------------------------------------- *)
Section Walk.
  Variable g : graph.
  Variable root : N.
  Variable nr : node.
  Hypothesis Hwf : wf_graph g.
  Hypothesis Hroot : lookup g root = Some nr.
  Hypothesis Hrootdir : n_kind nr = KDir.

  Definition handled (st : state) (c : N) (nc : node) : Prop :=
    (exists q, In (q, c) (st_out st)) \/ (exists q, In (q, c) (st_stack st))
    \/ (exists v, n_verifier nc = Some v /\ In v (st_found st)).

  Record inv (st : state) : Prop := mkInv {
    i_stackdir : forall q j, In (q, j) (st_stack st) -> exists m, lookup g j = Some m /\ n_kind m = KDir;
    i_exist : forall q j, In (q, j) (st_out st) -> exists m, lookup g j = Some m;
    i_walk : forall q j, In (q, j) (st_out st ++ st_stack st) -> walk g root q = Some j;
    i_root : In ([], root) (st_out st ++ st_stack st);
    i_handled : forall q d nd nm c nc, In (q, d) (st_out st) -> lookup g d = Some nd -> n_kind nd = KDir ->
                                       In (nm, c) (n_children nd) -> lookup g c = Some nc -> handled st c nc;
    i_found : forall v, In v (st_found st) ->
                        exists q j m, In (q, j) (st_out st ++ st_stack st) /\ lookup g j = Some m /\ n_verifier m = Some v;
    i_count : forall v, (vcount g v (st_out st) + vcount g v (st_stack st) <= 1)%nat /\
                        ((1 <= vcount g v (st_out st) + vcount g v (st_stack st))%nat -> In v (st_found st))
  }.

  Lemma inv_init : inv (init_state g root).
  Proof.
    unfold init_state. rewrite Hroot. constructor; cbn [st_out st_stack st_found app].
    - intros q j [H|[]]. inversion H; subst. exists nr. auto.
    - intros q j [].
    - intros q j [H|[]]. inversion H; subst. simpl. rewrite Hroot. reflexivity.
    - left. reflexivity.
    - intros q d nd nm c nc [].
    - intros v H. exists [], root, nr. split; [left; reflexivity|]. split; [exact Hroot|].
      destruct (n_verifier nr) as [w|]; simpl in H; [|destruct H]. destruct H as [H|[]]. subst. reflexivity.
    - intro v. rewrite vcount_nil, vcount_cons, vcount_nil.
      destruct (has_verifier g v ([], root)) eqn:E.
      + split; [simpl; lia|]. intros _. apply (has_verifier_true g v [] root nr Hroot) in E. rewrite E. left. reflexivity.
      + split; simpl; lia.
  Qed.

  Lemma inv_step st : inv st -> st_stack st <> [] -> inv (step g st).
  Proof.
    intros I Hne. unfold step.
    destruct (st_stack st) as [|[p d] rest] eqn:Es; [congruence|]. clear Hne.
    destruct (i_stackdir st I p d) as (nd & Hd & Hdk); [rewrite Es; left; reflexivity|].
    rewrite Hd.
    set (kids := sort_children (n_children nd)).
    set (s := scan g p kids (st_found st)).
    assert (Hwalkd : walk g root p = Some d).
    { apply (i_walk st I). rewrite Es. apply in_or_app. right. left. reflexivity. }
    (* facts about the entries the scan emits *)
    assert (Hent : forall q c, In (q, c) (s_unknown s ++ s_files s ++ s_dirs s) ->
                   exists nc, lookup g c = Some nc /\ walk g root q = Some c).
    { intros q c H. destruct (scan_entries g p kids (st_found st) q c H) as (nm & nc & Hq & Hin & Hl).
      exists nc. split; [exact Hl|]. subst q.
      unfold kids in Hin. apply (proj1 (sort_children_In _ _)) in Hin.
      eapply walk_snoc; eauto.
      apply find_child_nodup; [|exact Hin]. apply (wf_names g Hwf d nd Hd). }
    (* membership in the new out ++ stack *)
    assert (Hmem_old : forall x, In x (st_out st ++ st_stack st) ->
                       In x ((st_out st ++ [(p, d)] ++ s_unknown s ++ s_files s) ++ s_dirs s ++ rest)).
    { intros x H. rewrite Es in H. inapp H. inapp_goal. tauto. }
    constructor; cbn [st_out st_stack st_found app].
    - (* i_stackdir *)
      intros q j H. apply in_app_or in H. destruct H as [H|H].
      + apply (scan_dirs_kind g p kids (st_found st) q j H).
      + apply (i_stackdir st I q j). rewrite Es. right. exact H.
    - (* i_exist *)
      intros q j H. inapp H. destruct H as [H|[H|[H|H]]].
      + apply (i_exist st I q j H).
      + inversion H; subst. exists nd. exact Hd.
      + destruct (Hent q j) as (nc & Hl & _); [inapp_goal; auto|]. exists nc. exact Hl.
      + destruct (Hent q j) as (nc & Hl & _); [inapp_goal; auto|]. exists nc. exact Hl.
    - (* i_walk *)
      intros q j H. inapp H.
      destruct H as [[H|[H|[H|H]]]|[H|H]].
      + apply (i_walk st I). apply in_or_app. left. exact H.
      + inversion H; subst. exact Hwalkd.
      + destruct (Hent q j) as (nc & _ & Hw); [inapp_goal; auto|]. exact Hw.
      + destruct (Hent q j) as (nc & _ & Hw); [inapp_goal; auto|]. exact Hw.
      + destruct (Hent q j) as (nc & _ & Hw); [inapp_goal; auto|]. exact Hw.
      + apply (i_walk st I). rewrite Es. apply in_or_app. right. right. exact H.
    - (* i_root *)
      apply Hmem_old. apply (i_root st I).
    - (* i_handled *)
      intros q d' nd' nm c nc H Hd' Hk' Hin Hc. unfold handled. cbn [st_out st_stack st_found app].
      inapp H. destruct H as [H|[H|H]].
      + (* an older entry: handled before, still handled *)
        destruct (i_handled st I q d' nd' nm c nc H Hd' Hk' Hin Hc) as [[q' K]|[[q' K]|(v & K1 & K2)]].
        * left. exists q'. inapp_goal. auto.
        * rewrite Es in K. destruct K as [K|K].
          -- inversion K; subst. left. eexists. inapp_goal. right. left. reflexivity.
          -- right. left. exists q'. apply in_or_app. right. exact K.
        * right. right. exists v. split; [exact K1|]. apply scan_found_mono. exact K2.
      + (* the directory just listed *)
        inversion H; subst q d'. rewrite Hd in Hd'. inversion Hd'; subst nd'.
        assert (Hin' : In (nm, c) kids) by (unfold kids; apply (proj2 (sort_children_In _ _)); exact Hin).
        destruct (scan_handled g p kids (st_found st) nm c nc Hin' Hc) as [[q' K]|(v & K1 & K2)].
        * fold s in K. inapp K. destruct K as [K|[K|K]].
          -- left. exists q'. inapp_goal. auto.
          -- left. exists q'. inapp_goal. auto.
          -- right. left. exists q'. apply in_or_app. left. exact K.
        * right. right. exists v. split; [exact K1|exact K2].
      + (* unknown nodes and files are not directories *)
        exfalso.
        destruct (scan_nondirs_kind g p kids (st_found st) q d') as (m & Hm & Hnk); [fold s; inapp_goal; exact H|].
        rewrite Hd' in Hm. inversion Hm; subst m. contradiction.
    - (* i_found *)
      intros v H.
      destruct (scan_found_src g p kids (st_found st) v H) as [K|(q & c & m & K1 & K2 & K3)].
      + destruct (i_found st I v K) as (q & j & m & J1 & J2 & J3).
        exists q, j, m. split; [apply Hmem_old; exact J1|]. auto.
      + exists q, c, m. split; [|auto].
        fold s in K1. inapp K1. inapp_goal. tauto.
    - (* i_count *)
      intro v.
      destruct (i_count st I v) as [C1 C2]. rewrite Es in C1, C2. rewrite vcount_cons in C1, C2.
      destruct (scan_vcount g p kids (wf_unknown g Hwf) (st_found st) v) as (S1 & S2 & S3).
      fold s in S1, S2, S3.
      change (st_out st ++ [(p, d)] ++ s_unknown s ++ s_files s) with (st_out st ++ (p, d) :: s_unknown s ++ s_files s).
      rewrite !vcount_app, vcount_cons, !vcount_app.
      split.
      + destruct (Nat.eq_dec (vcount g v (s_files s) + vcount g v (s_dirs s)) 0) as [E|E]; [lia|].
        destruct S3 as [S3 _]; [lia|].
        assert (~ (1 <= vcount g v (st_out st) + ((if has_verifier g v (p, d) then 1 else 0) + vcount g v rest))%nat)
          by (intro K; apply S3; apply C2; exact K).
        lia.
      + intro K.
        destruct (Nat.eq_dec (vcount g v (s_files s) + vcount g v (s_dirs s)) 0) as [E|E].
        * apply scan_found_mono. apply C2. lia.
        * apply S3. lia.
  Qed.

  (* ---- what holds when the walk has finished ------------------------------ *)
  Lemma traverse_final fuel out :
    traverse_fuel g fuel root = Some out ->
    exists st, inv st /\ st_stack st = [] /\ st_out st = out.
  Proof.
    intro H. unfold traverse_fuel in H.
    apply (loop_inv g inv inv_step fuel (init_state g root) out inv_init H).
  Qed.

  Definition covered (out : list visit) (o : N) : Prop :=
    exists q j m, In (q, j) out /\ lookup g j = Some m /\ n_obj m = o.

  Lemma child_objs_In nd nm c nc :
    In (nm, c) (n_children nd) -> lookup g c = Some nc -> In (nm, Some (n_obj nc)) (child_objs g nd).
  Proof.
    intros Hin Hl. unfold child_objs. apply in_map_iff. exists (nm, c). simpl. rewrite Hl.
    split; [reflexivity|]. apply (proj2 (sort_children_In _ _)). exact Hin.
  Qed.

  Lemma child_objs_inv nd nm o :
    In (nm, Some o) (child_objs g nd) -> exists c nc, In (nm, c) (n_children nd) /\ lookup g c = Some nc /\ n_obj nc = o.
  Proof.
    unfold child_objs. intro H. apply in_map_iff in H. destruct H as ([nm' c] & E & Hin). simpl in E.
    apply (proj1 (sort_children_In _ _)) in Hin.
    destruct (lookup g c) as [nc|] eqn:El; [|discriminate]. inversion E; subst.
    exists c, nc. repeat split; auto.
  Qed.

  Lemma visits_all_reachable_lem fuel out :
    traverse_fuel g fuel root = Some out ->
    forall i n, reachable g root i -> lookup g i = Some n -> covered out (n_obj n).
  Proof.
    intro Ht. destruct (traverse_final fuel out Ht) as (st & I & Hs & Ho).
    intros i n Hr. revert n. induction Hr as [nr' Hnr | d nd nm c nc Hrd IH Hd Hk Hin Hc]; intros n Hl.
    - (* the root *)
      rewrite Hl in Hnr. inversion Hnr; subst nr'.
      exists [], root, n. split; [|auto].
      pose proof (i_root st I) as R. rewrite Hs, app_nil_r, Ho in R. exact R.
    - (* a child of a reachable directory *)
      rewrite Hc in Hl. inversion Hl; subst n.
      destruct (IH nd Hd) as (q & j & m & Hqj & Hm & Hobj).
      (* m is a cap for the same object as nd: same kind, same (name, object) links *)
      destruct (wf_same_obj g Hwf j d m nd Hm Hd Hobj) as (_ & Hkind & Hkids).
      assert (Hmk : n_kind m = KDir) by congruence.
      specialize (Hkids Hmk).
      pose proof (child_objs_In nd nm c nc Hin Hc) as Hco. rewrite <- Hkids in Hco.
      destruct (child_objs_inv m nm (n_obj nc) Hco) as (c' & nc' & Hin' & Hc' & Hobj').
      rewrite <- Ho in Hqj.
      destruct (i_handled st I q j m nm c' nc' Hqj Hm Hmk Hin' Hc') as [[q' K]|[[q' K]|(v & K1 & K2)]].
      + exists q', c', nc'. rewrite <- Ho. auto.
      + rewrite Hs in K. destruct K.
      + destruct (i_found st I v K2) as (q2 & j2 & m2 & J1 & J2 & J3).
        rewrite Hs, app_nil_r, Ho in J1.
        exists q2, j2, m2. split; [exact J1|]. split; [exact J2|].
        rewrite <- Hobj'. apply (wf_verifier g Hwf j2 c' m2 nc' v J2 Hc' J3 K1).
  Qed.

  Lemma paths_lead_to_nodes_lem fuel out :
    traverse_fuel g fuel root = Some out -> forall q j, In (q, j) out -> walk g root q = Some j.
  Proof.
    intro Ht. destruct (traverse_final fuel out Ht) as (st & I & Hs & Ho).
    intros q j H. apply (i_walk st I). rewrite Hs, app_nil_r, Ho. exact H.
  Qed.

  Lemma at_most_once_lem fuel out v :
    traverse_fuel g fuel root = Some out -> (vcount g v out <= 1)%nat.
  Proof.
    intro Ht. destruct (traverse_final fuel out Ht) as (st & I & Hs & Ho).
    destruct (i_count st I v) as [C _]. rewrite Hs, Ho in C. rewrite vcount_nil in C. lia.
  Qed.

  Lemma with_verifier_exactly_once_lem fuel out :
    traverse_fuel g fuel root = Some out ->
    forall i n v, reachable g root i -> lookup g i = Some n -> n_verifier n = Some v ->
    count_obj g (n_obj n) out = 1%nat.
  Proof.
    intros Ht i n v Hr Hl Hv.
    destruct (traverse_final fuel out Ht) as (st & I & Hs & Ho).
    (* counting by object = counting by verify cap, on visited nodes *)
    assert (Heq : count_obj g (n_obj n) out = vcount g v out).
    { unfold count_obj, vcount. apply filter_ext_in_len. intros [q j] Hin.
      unfold has_obj, has_verifier. simpl.
      rewrite <- Ho in Hin. destruct (i_exist st I q j Hin) as (m & Hm). rewrite Hm.
      destruct (n_obj m =? n_obj n) eqn:E.
      - apply N.eqb_eq in E.
        destruct (wf_same_obj g Hwf j i m n Hm Hl E) as (Hvv & _ & _).
        rewrite Hvv, Hv. simpl. symmetry. apply N.eqb_refl.
      - symmetry. apply not_true_iff_false. intro K. apply opt_N_eqb_eq in K.
        apply N.eqb_neq in E. apply E. apply (wf_verifier g Hwf j i m n v Hm Hl K Hv). }
    rewrite Heq.
    pose proof (at_most_once_lem fuel out v Ht).
    destruct (visits_all_reachable_lem fuel out Ht i n Hr Hl) as (q & j & m & Hqj & Hm & Hobj).
    destruct (wf_same_obj g Hwf j i m n Hm Hl Hobj) as (Hvv & _ & _).
    assert (1 <= vcount g v out)%nat.
    { unfold vcount. apply (filter_length_pos _ out (q, j) Hqj).
      apply (has_verifier_true g v q j m Hm). congruence. }
    lia.
  Qed.
End Walk.

(* ---- wf_graphb decides wf_graph ------------------------------------------ *)
Lemma child_objs_eqb_eq a b : child_objs_eqb a b = true -> a = b.
Proof.
  revert b. induction a as [|[n1 o1] a IH]; destruct b as [|[n2 o2] b]; simpl; intro H; try discriminate; [reflexivity|].
  apply andb_prop in H. destruct H as [H H3]. apply andb_prop in H. destruct H as [H1 H2].
  apply name_eqb_eq in H1. apply opt_N_eqb_eq in H2. subst. f_equal. apply IH. exact H3.
Qed.

Lemma kind_eqb_eq a b : kind_eqb a b = true -> a = b.
Proof. destruct a, b; simpl; intro H; try discriminate; reflexivity. Qed.

Lemma wf_graphb_sound g : wf_graphb g = true -> wf_graph g.
Proof.
  unfold wf_graphb. intro H. rewrite forallb_forall in H.
  assert (Hn : forall i n, lookup g i = Some n -> node_ok g n = true).
  { intros i n Hl. apply lookup_In in Hl. specialize (H _ Hl). simpl in H. apply andb_prop in H. tauto. }
  assert (Hp : forall i j a b, lookup g i = Some a -> lookup g j = Some b ->
               same_object_agree g a b = true /\ verifier_identifies a b = true).
  { intros i j a b Ha Hb. apply lookup_In in Ha. apply lookup_In in Hb.
    specialize (H _ Ha). simpl in H. apply andb_prop in H. destruct H as [_ H].
    rewrite forallb_forall in H. specialize (H _ Hb). simpl in H. apply andb_prop in H. exact H. }
  constructor.
  - intros i n Hl. specialize (Hn i n Hl). unfold node_ok in Hn.
    apply andb_prop in Hn. destruct Hn as [Hn _]. apply andb_prop in Hn. tauto.
  - intros i n nm c Hl Hin. specialize (Hn i n Hl). unfold node_ok in Hn.
    apply andb_prop in Hn. destruct Hn as [Hn _]. apply andb_prop in Hn. destruct Hn as [_ Hn].
    rewrite forallb_forall in Hn. specialize (Hn _ Hin). simpl in Hn.
    destruct (lookup g c) as [nc|]; [eauto|discriminate].
  - intros i n Hl Hk. specialize (Hn i n Hl). unfold node_ok in Hn.
    apply andb_prop in Hn. destruct Hn as [_ Hn]. rewrite Hk in Hn. simpl in Hn.
    destruct (n_verifier n); [discriminate|reflexivity].
  - intros i j a b Ha Hb Ho. destruct (Hp i j a b Ha Hb) as [Hs _].
    unfold same_object_agree in Hs. rewrite Ho, N.eqb_refl in Hs.
    apply andb_prop in Hs. destruct Hs as [Hs H3]. apply andb_prop in Hs. destruct Hs as [H1 H2].
    apply opt_N_eqb_eq in H1. apply kind_eqb_eq in H2.
    split; [exact H1|]. split; [exact H2|].
    intro Hk. rewrite Hk in H3. simpl in H3. apply child_objs_eqb_eq. exact H3.
  - intros i j a b v Ha Hb Hva Hvb. destruct (Hp i j a b Ha Hb) as [_ Hv].
    unfold verifier_identifies in Hv. rewrite Hva, Hvb, N.eqb_refl in Hv. simpl in Hv.
    apply N.eqb_eq. exact Hv.
Qed.

Lemma dirs_have_verifierb_sound g : dirs_have_verifierb g = true -> dirs_have_verifier g.
Proof.
  unfold dirs_have_verifierb, dirs_have_verifier. intros H i n Hl Hk.
  rewrite forallb_forall in H. apply lookup_In in Hl. specialize (H _ Hl). simpl in H.
  rewrite Hk in H. simpl in H. destruct (n_verifier n) as [v|]; [eauto|discriminate].
Qed.

(* ---- fuel ---------------------------------------------------------------- *)
Lemma traverse_fuel_mono g root f out :
  traverse_fuel g f root = Some out -> forall f', (f <= f')%nat -> traverse_fuel g f' root = Some out.
Proof. unfold traverse_fuel. intros H f' Hle. eapply loop_fuel_mono; eauto. Qed.

(* ---- the statement "every reachable object exactly once" fails for objects
        without a verify cap: they are handed to the walker once per link ------ *)
Definition two_links (k : kind) : graph :=
  [ (0, mkNode 0 KDir (Some 100) None [([97], 1); ([98], 1)]);
    (1, mkNode 1 k None (Some 3) []) ].

Lemma two_links_reachable k : reachable (two_links k) 0 1.
Proof.
  eapply (reach_child (two_links k) 0 0 _ [97] 1 _).
  - eapply reach_root. reflexivity.
  - reflexivity.
  - reflexivity.
  - left. reflexivity.
  - reflexivity.
Qed.

Lemma no_verifier_once_per_link k :
  In k [KFileLit; KDir; KUnknown] ->
  exists g root nr out i n,
    wf_graph g /\ lookup g root = Some nr /\ n_kind nr = KDir /\ traverse g root = Some out /\
    reachable g root i /\ lookup g i = Some n /\ n_kind n = k /\ n_verifier n = None /\
    count_obj g (n_obj n) out = 2%nat.
Proof.
  intro Hk.
  exists (two_links k), 0, (mkNode 0 KDir (Some 100) None [([97], 1); ([98], 1)]).
  assert (W : wf_graph (two_links k)).
  { apply wf_graphb_sound. destruct Hk as [E|[E|[E|[]]]]; subst k; vm_compute; reflexivity. }
  destruct Hk as [E|[E|[E|[]]]]; subst k.
  - exists [([], 0); ([[97]], 1); ([[98]], 1)], 1, (mkNode 1 KFileLit None (Some 3) []).
    split; [exact W|]. repeat split; try reflexivity. apply two_links_reachable.
  - exists [([], 0); ([[97]], 1); ([[98]], 1)], 1, (mkNode 1 KDir None (Some 3) []).
    split; [exact W|]. repeat split; try reflexivity. apply two_links_reachable.
  - exists [([], 0); ([[97]], 1); ([[98]], 1)], 1, (mkNode 1 KUnknown None (Some 3) []).
    split; [exact W|]. repeat split; try reflexivity. apply two_links_reachable.
Qed.
