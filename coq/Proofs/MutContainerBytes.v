(* List-of-bytes lemmas for the container proofs: big-endian fields, pread/pwrite
   over concatenations, and a pointwise (nth) calculus used to prove equalities
   between spliced lists. *)
From Coq Require Import List NArith Arith Bool Lia.
From Verif Require Import Lib.Hex Gen.MutConsts Model.MutContainer.
Import ListNotations.
Local Open Scope N_scope.

(* ---- big-endian -------------------------------------------------------------------- *)
Lemma be_length n v : length (be n v) = n.
Proof. revert v; induction n as [|n IH]; intro v; cbn [be]; [reflexivity|]. rewrite app_length, IH. cbn. lia. Qed.

Lemma unbe_app1 l b : unbe (l ++ [b]) = unbe l * 256 + b.
Proof. unfold unbe. rewrite fold_left_app. reflexivity. Qed.

Lemma unbe_be n v : v < 256 ^ N.of_nat n -> unbe (be n v) = v.
Proof.
  revert v; induction n as [|n IH]; intros v Hv.
  - cbn in *. lia.
  - cbn [be]. rewrite unbe_app1, IH.
    + pose proof (N.div_mod v 256). lia.
    + rewrite Nat2N.inj_succ, N.pow_succ_r' in Hv. apply N.div_lt_upper_bound; lia.
Qed.

Lemma be_bytes n v : Forall (fun b => b < 256) (be n v).
Proof.
  revert v; induction n as [|n IH]; intro v; cbn [be]; [constructor|].
  apply Forall_app; split; [apply IH|]. constructor; [|constructor]. apply N.mod_lt. lia.
Qed.

Lemma be_unbe l : Forall (fun b => b < 256) l -> be (length l) (unbe l) = l.
Proof.
  induction l as [|x l IH] using rev_ind; intro Hb; [reflexivity|].
  apply Forall_app in Hb. destruct Hb as [Hl Hx]. inversion Hx; subst.
  rewrite app_length, unbe_app1. cbn [length]. rewrite Nat.add_1_r. cbn [be].
  replace ((unbe l * 256 + x) / 256) with (unbe l).
  2:{ apply N.div_unique with x; lia. }
  replace ((unbe l * 256 + x) mod 256) with x.
  2:{ apply N.mod_unique with (unbe l); lia. }
  rewrite IH by assumption. reflexivity.
Qed.

Lemma unbe_bound l : Forall (fun b => b < 256) l -> unbe l < 256 ^ N.of_nat (length l).
Proof.
  induction l as [|x l IH] using rev_ind; intro Hb; [cbn; lia|].
  apply Forall_app in Hb. destruct Hb as [Hl Hx]. inversion Hx; subst.
  rewrite app_length, unbe_app1. cbn [length]. rewrite Nat.add_1_r, Nat2N.inj_succ, N.pow_succ_r'.
  specialize (IH Hl). lia.
Qed.

Lemma pack_be_ok n v : v < 256 ^ N.of_nat n -> pack_be n v = Ok (be n v).
Proof. intro Hv. unfold pack_be. apply N.ltb_lt in Hv. rewrite Hv. reflexivity. Qed.

Lemma unpack_be_ok n l : length l = n -> unpack_be n l = Ok (unbe l).
Proof. intro Hl. unfold unpack_be. rewrite <- Hl, Nat.eqb_refl. reflexivity. Qed.

Lemma unpack_be_inv n l v : unpack_be n l = Ok v -> length l = n /\ v = unbe l.
Proof.
  unfold unpack_be. destruct (Nat.eqb (length l) n) eqn:E; [|discriminate].
  intro Hx. inversion Hx. apply Nat.eqb_eq in E. auto.
Qed.

(* ---- len / zeros ---------------------------------------------------------------------- *)
Lemma len_app a b : len (a ++ b) = len a + len b.
Proof. unfold len. rewrite app_length. lia. Qed.
Lemma zeros_length n : length (zeros n) = N.to_nat n.
Proof. unfold zeros. apply repeat_length. Qed.
Lemma len_zeros n : len (zeros n) = n.
Proof. unfold len. rewrite zeros_length. lia. Qed.
Lemma len_nat l : N.to_nat (len l) = length l.
Proof. unfold len. lia. Qed.

(* ---- nat-indexed versions of pread / pwrite --------------------------------------------- *)
Definition prn (f : list N) (o n : nat) : list N := firstn n (skipn o f).
Definition pwn (f : list N) (o : nat) (d : list N) : list N :=
  match d with
  | [] => f
  | _ => firstn o f ++ repeat 0 (o - length f) ++ d ++ skipn (o + length d) f
  end.

Lemma pread_prn f off n : pread f off n = prn f (N.to_nat off) (N.to_nat n).
Proof. reflexivity. Qed.
Lemma pwrite_pwn f off d : pwrite f off d = pwn f (N.to_nat off) d.
Proof. reflexivity. Qed.

Lemma pwn_length f o d : d <> [] -> length (pwn f o d) = Nat.max (length f) (o + length d).
Proof.
  intro Hd. unfold pwn. destruct d as [|x d]; [congruence|].
  rewrite !app_length, firstn_length, repeat_length, skipn_length. cbn [length]. lia.
Qed.

Lemma pwn_length_inside f o d : (o + length d <= length f)%nat -> length (pwn f o d) = length f.
Proof.
  intro Hi. destruct d as [|x d]; [reflexivity|]. rewrite pwn_length by discriminate. lia.
Qed.

(* pointwise calculus, default 0 *)
Lemma nth_firstn0 (l : list N) n i : nth i (firstn n l) 0 = if (i <? n)%nat then nth i l 0 else 0.
Proof.
  destruct (Nat.ltb_spec i n).
  - revert n i H. induction l as [|x l IH]; intros n i Hlt.
    + rewrite firstn_nil. reflexivity.
    + destruct n; [lia|]. destruct i; [reflexivity|]. cbn. apply IH. lia.
  - apply nth_overflow. rewrite firstn_length. lia.
Qed.

Lemma nth_skipn0 (l : list N) n i : nth i (skipn n l) 0 = nth (n + i) l 0.
Proof.
  revert l; induction n as [|n IH]; intro l; [reflexivity|].
  destruct l as [|x l]; [destruct i; reflexivity|]. cbn. apply IH.
Qed.

Lemma nth_app0 (a b : list N) i :
  nth i (a ++ b) 0 = if (i <? length a)%nat then nth i a 0 else nth (i - length a) b 0.
Proof.
  destruct (Nat.ltb_spec i (length a)); [apply app_nth1|apply app_nth2]; assumption.
Qed.

Lemma nth_repeat0 n i : nth i (repeat 0 n) 0 = 0.
Proof.
  revert i; induction n as [|n IH]; intro i; destruct i; cbn; auto.
Qed.

Lemma nth_pwn f o d i :
  nth i (pwn f o d) 0 =
  if (i <? o)%nat then nth i f 0 else if (i <? o + length d)%nat then nth (i - o) d 0 else nth i f 0.
Proof.
  unfold pwn. destruct d as [|x d].
  - cbn [length]. rewrite Nat.add_0_r. destruct (i <? o)%nat; reflexivity.
  - remember (x :: d) as dd. clear Heqdd.
    rewrite !nth_app0, firstn_length, repeat_length, nth_firstn0, nth_repeat0, nth_skipn0.
    destruct (Nat.ltb_spec i o).
    + destruct (Nat.ltb_spec i (Nat.min o (length f))); [reflexivity|].
      destruct (Nat.ltb_spec (i - Nat.min o (length f)) (o - length f)); [symmetry; apply nth_overflow; lia|lia].
    + destruct (Nat.ltb_spec i (Nat.min o (length f))); [lia|].
      destruct (Nat.ltb_spec (i - Nat.min o (length f)) (o - length f)); [lia|].
      destruct (Nat.ltb_spec i (o + length dd)).
      * destruct (Nat.ltb_spec (i - Nat.min o (length f) - (o - length f)) (length dd)); [f_equal; lia|lia].
      * destruct (Nat.ltb_spec (i - Nat.min o (length f) - (o - length f)) (length dd)); [lia|].
        destruct (Nat.le_gt_cases (length f) i).
        -- rewrite !nth_overflow by lia. reflexivity.
        -- f_equal. lia.
Qed.

Lemma list_ext0 (a b : list N) :
  length a = length b -> (forall i, (i < length a)%nat -> nth i a 0 = nth i b 0) -> a = b.
Proof.
  revert b; induction a as [|x a IH]; intros b Hl Hn; destruct b as [|y b]; try discriminate; [reflexivity|].
  f_equal.
  - apply (Hn 0%nat). cbn. lia.
  - apply IH; [cbn in Hl; lia|]. intros i Hi. apply (Hn (S i)). cbn. lia.
Qed.

(* ---- pread / pwrite across concatenations ------------------------------------------------ *)
Lemma prn_app_skip a b o n : prn (a ++ b) (length a + o) n = prn b o n.
Proof. unfold prn. rewrite skipn_app. rewrite skipn_all2 by lia. replace (length a + o - length a)%nat with o by lia. reflexivity. Qed.

Lemma prn_exact a x b : prn (a ++ x ++ b) (length a) (length x) = x.
Proof.
  unfold prn. rewrite skipn_app, skipn_all, Nat.sub_diag. cbn [skipn app].
  rewrite firstn_app, firstn_all, Nat.sub_diag. cbn. apply app_nil_r.
Qed.

Lemma prn_inside r t o n : (o + n <= length r)%nat -> prn (r ++ t) o n = prn r o n.
Proof.
  intro Hi. unfold prn. rewrite skipn_app, firstn_app, skipn_length.
  replace (n - (length r - o))%nat with 0%nat by lia. cbn. apply app_nil_r.
Qed.

Lemma pwn_app_skip a b o d : pwn (a ++ b) (length a + o) d = a ++ pwn b o d.
Proof.
  unfold pwn. destruct d as [|x d]; [reflexivity|]. remember (x :: d) as dd. clear Heqdd.
  rewrite firstn_app, firstn_all2 by lia. replace (length a + o - length a)%nat with o by lia.
  rewrite app_length. replace (length a + o - (length a + length b))%nat with (o - length b)%nat by lia.
  rewrite skipn_app, skipn_all2 by lia. cbn [app].
  replace (length a + o + length dd - length a)%nat with (o + length dd)%nat by lia.
  rewrite <- !app_assoc. reflexivity.
Qed.

Lemma pwn_exact a x b d : length x = length d -> pwn (a ++ x ++ b) (length a) d = a ++ d ++ b.
Proof.
  intro Hl. rewrite <- (Nat.add_0_r (length a)). rewrite pwn_app_skip. f_equal.
  unfold pwn. destruct d as [|y d].
  - destruct x; [reflexivity|discriminate].
  - cbn [firstn Nat.sub repeat app]. rewrite skipn_app. rewrite skipn_all2 by (cbn [Nat.add]; lia).
    cbn [Nat.add]. rewrite Hl, Nat.sub_diag. reflexivity.
Qed.

Lemma pwn_inside r t o d : (o + length d <= length r)%nat -> pwn (r ++ t) o d = pwn r o d ++ t.
Proof.
  intro Hi. unfold pwn. destruct d as [|x d]; [reflexivity|]. remember (x :: d) as dd. clear Heqdd.
  rewrite firstn_app, app_length, skipn_app.
  replace (o - length r)%nat with 0%nat by lia. replace (o - (length r + length t))%nat with 0%nat by lia.
  replace (o + length dd - length r)%nat with 0%nat by lia. cbn [firstn skipn repeat app].
  rewrite app_nil_r. rewrite <- !app_assoc. reflexivity.
Qed.

(* growing a file at or beyond its end: the new part is zeros followed by the data *)
Lemma pwn_beyond f o d : (length f <= o)%nat -> d <> [] -> pwn f o d = f ++ repeat 0 (o - length f) ++ d.
Proof.
  intros Ho Hd. unfold pwn. destruct d as [|x d]; [congruence|].
  rewrite firstn_all2 by lia. rewrite skipn_all2 by (cbn [length]; lia). rewrite app_nil_r. reflexivity.
Qed.

Lemma repeat_app0 (a b : nat) : repeat 0 a ++ repeat 0 b = repeat 0 (a + b).
Proof. symmetry. apply repeat_app. Qed.

Lemma firstn_repeat0 n k : firstn n (repeat 0 k) = repeat 0 (Nat.min n k).
Proof.
  revert k; induction n as [|n IH]; intro k; [reflexivity|]. destruct k; [reflexivity|]. cbn. f_equal. apply IH.
Qed.

Lemma firstn_app_repeat (l : list N) k n :
  (length l <= n)%nat ->
  firstn n (l ++ repeat 0 k) ++ repeat 0 (n - (length l + k)) = l ++ repeat 0 (n - length l).
Proof.
  intro Hn. rewrite firstn_app, firstn_all2 by lia. rewrite <- app_assoc. f_equal.
  rewrite firstn_repeat0. rewrite repeat_app0. f_equal. lia.
Qed.

(* bytes stay bytes *)

Lemma bytes_ok_app a b : bytes_ok (a ++ b) <-> bytes_ok a /\ bytes_ok b.
Proof. apply Forall_app. Qed.
Lemma bytes_ok_repeat0 n : bytes_ok (repeat 0 n).
Proof. apply Forall_forall. intros x Hx. apply repeat_spec in Hx. subst. reflexivity. Qed.
Lemma bytes_ok_firstn n l : bytes_ok l -> bytes_ok (firstn n l).
Proof.
  intro Hl. unfold bytes_ok in *. rewrite <- (firstn_skipn n l) in Hl. apply Forall_app in Hl. tauto.
Qed.
Lemma bytes_ok_skipn n l : bytes_ok l -> bytes_ok (skipn n l).
Proof.
  intro Hl. unfold bytes_ok in *. rewrite <- (firstn_skipn n l) in Hl. apply Forall_app in Hl. tauto.
Qed.
Lemma bytes_ok_pwn f o d : bytes_ok f -> bytes_ok d -> bytes_ok (pwn f o d).
Proof.
  intros Hf Hd. unfold pwn. destruct d as [|x d]; [assumption|].
  repeat (apply bytes_ok_app; split); auto using bytes_ok_firstn, bytes_ok_skipn, bytes_ok_repeat0.
Qed.
