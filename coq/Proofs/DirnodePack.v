(* Packing and unpacking of directory contents (C19) and what a read-cap holder
   gets out of them (C18). *)
From Coq Require Import List NArith ZArith Bool Lia.
From Verif Require Import Lib.Hex Lib.Decimal Lib.DecimalFacts Lib.Netstring Lib.SHA256 Lib.HashPrim Gen.Hashutil
     Model.Dirnode Proofs.DirnodeBase Proofs.DirnodeCaps.
Import ListNotations.
Local Open Scope N_scope.

Section CryptFacts.
  Variable enc dec : bytes -> bytes -> bytes.
  Hypothesis dec_enc : forall k d, dec k (enc k d) = d.

  (* --- the write-cap field --- *)
  Lemma decrypt_encrypt wk rw : decrypt_rwcapdata dec wk (encrypt_rw_uri enc wk rw) = rw.
  Proof.
    unfold decrypt_rwcapdata, encrypt_rw_uri.
    set (salt := mutable_rwcap_salt_hash rw).
    set (key := mutable_rwcap_key_hash salt wk).
    set (ct := enc key rw).
    set (mac := hmac key (salt ++ ct)).
    assert (Hs : List.length salt = 16%nat) by apply salt_length.
    assert (Hm : List.length mac = 32%nat) by apply hmac_length.
    rewrite (firstn_app_exact salt (ct ++ mac) 16 Hs). fold key.
    rewrite (skipn_app_exact salt (ct ++ mac) 16 Hs).
    rewrite !app_length, Hs, Hm.
    replace (16 + (List.length ct + 32) - 32 - 16)%nat with (List.length ct) by lia.
    rewrite (firstn_app_exact ct mac _ eq_refl).
    unfold ct. apply dec_enc.
  Qed.

  Lemma encrypt_nonempty wk rw : encrypt_rw_uri enc wk rw <> [].
  Proof.
    unfold encrypt_rw_uri. intro H. apply app_eq_nil in H. destruct H as [H _].
    pose proof (salt_length rw) as L. rewrite H in L. discriminate.
  Qed.

End CryptFacts.

Section PackFacts.
  Variable classify : bytes -> capclass.
  Variable normalize : bytes -> bytes.
  Variable MD : Type.
  Variable dumps : MD -> bytes.
  Variable loads : bytes -> option MD.
  Variable enc dec : bytes -> bytes -> bytes.
  Hypothesis normalize_idem : forall x, normalize (normalize x) = normalize x.
  Hypothesis loads_dumps : forall m, loads (dumps m) = Some m.
  Hypothesis dec_enc : forall k d, dec k (enc k d) = d.

  Local Notation child := (child MD).
  Local Notation pack_entry := (pack_entry MD dumps enc).
  Local Notation pack_normalized := (pack_normalized MD dumps enc).
  Local Notation unpack_entry := (unpack_entry classify normalize MD loads dec).
  Local Notation unpack_entries := (unpack_entries classify normalize MD loads dec).
  Local Notation unpack_contents := (unpack_contents classify normalize MD loads dec).

  (* --- one entry: what each kind of reader rebuilds --- *)
  Definition entry_of (wk : option bytes) (di : bool) (kc : bytes * (node * MD)) : bytes :=
    pack_entry wk di (fst kc) (fst (snd kc)) (snd (snd kc)).

  (* through a writeable mutable directory *)
  Lemma unpack_entry_rw wk name n md :
    unpack_entry true true wk (pack_entry (Some wk) false name n md)
    = match n_err (reread classify n) with
      | Some _ => inr None
      | None => inr (Some (normalize name, (reread classify n, md, Some (pack_entry (Some wk) false name n md))))
      end.
  Proof.
    unfold unpack_entry. unfold Dirnode.pack_entry at 1.
    rewrite <- (app_nil_r (netstring (dumps md))).
    rewrite parse_k4. cbn [negb andb].
    rewrite (decrypt_encrypt enc dec dec_enc). fold (stored_ro false n). fold (reread classify n).
    destruct (n_err (reread classify n)); [reflexivity|].
    cbn [orb]. rewrite loads_dumps.
    reflexivity.
  Qed.

  (* through a read-only mutable directory: the writekey argument is never looked at *)
  Lemma unpack_entry_ro wk wk' name n md :
    unpack_entry false true wk' (pack_entry (Some wk) false name n md)
    = match n_err (reread_ro classify n) with
      | Some _ => inr None
      | None => inr (Some (normalize name, (reread_ro classify n, md, Some (pack_entry (Some wk) false name n md))))
      end.
  Proof.
    unfold unpack_entry. unfold Dirnode.pack_entry at 1.
    rewrite <- (app_nil_r (netstring (dumps md))).
    rewrite parse_k4. cbn [negb andb rstrip_sp nonempty].
    fold (stored_ro false n). fold (reread_ro classify n).
    destruct (n_err (reread_ro classify n)); [reflexivity|].
    cbn [orb]. rewrite loads_dumps.
    reflexivity.
  Qed.

  (* an entry of an immutable directory *)
  Lemma unpack_entry_imm wk' name n md :
    unpack_entry false false wk' (pack_entry None true name n md)
    = match n_err (reread_imm classify n) with
      | Some _ => inr None
      | None => if allowed_in_immutable (reread_imm classify n)
                then inr (Some (normalize name, (reread_imm classify n, md, Some (pack_entry None true name n md))))
                else inr None
      end.
  Proof.
    unfold unpack_entry. unfold Dirnode.pack_entry at 1.
    rewrite <- (app_nil_r (netstring (dumps md))).
    rewrite parse_k4. cbn [negb andb rstrip_sp nonempty].
    fold (stored_ro true n). fold (reread_imm classify n).
    destruct (n_err (reread_imm classify n)); [reflexivity|].
    cbn [orb]. destruct (allowed_in_immutable (reread_imm classify n)); [|reflexivity].
    rewrite loads_dumps.
    reflexivity.
  Qed.

  (* --- a whole directory --- *)
  (* what a reader that maps each child n to (g n), keeping it when keep (g n), collects *)
  Fixpoint rebuild (g : node -> node) (keep : node -> bool) (wk : option bytes) (di : bool)
           (l : list (bytes * (node * MD))) (acc : smap child) : smap child :=
    match l with
    | [] => acc
    | kc :: r =>
      let n' := g (fst (snd kc)) in
      if keep n'
      then rebuild g keep wk di r (sm_set (normalize (fst kc)) (n', snd (snd kc), Some (entry_of wk di kc)) acc)
      else rebuild g keep wk di r acc
    end.

  Definition no_err (n : node) : bool := match n_err n with None => true | Some _ => false end.

  Lemma unpack_entries_rw wk l acc :
    unpack_entries true true wk (map (entry_of (Some wk) false) l) acc
    = inr (rebuild (reread classify) no_err (Some wk) false l acc).
  Proof.
    revert acc. induction l as [|[k [n md]] r IH]; intro acc; [reflexivity|].
    cbn [map Dirnode.unpack_entries rebuild fst snd]. unfold entry_of at 1. cbn [fst snd].
    rewrite unpack_entry_rw. unfold no_err.
    destruct (n_err (reread classify n)); apply IH.
  Qed.

  Lemma unpack_entries_ro wk wk' l acc :
    unpack_entries false true wk' (map (entry_of (Some wk) false) l) acc
    = inr (rebuild (reread_ro classify) no_err (Some wk) false l acc).
  Proof.
    revert acc. induction l as [|[k [n md]] r IH]; intro acc; [reflexivity|].
    cbn [map Dirnode.unpack_entries rebuild fst snd]. unfold entry_of at 1. cbn [fst snd].
    rewrite unpack_entry_ro. unfold no_err.
    destruct (n_err (reread_ro classify n)); apply IH.
  Qed.

  Lemma unpack_entries_imm wk' l acc :
    unpack_entries false false wk' (map (entry_of None true) l) acc
    = inr (rebuild (reread_imm classify) (fun n => no_err n && allowed_in_immutable n) None true l acc).
  Proof.
    revert acc. induction l as [|[k [n md]] r IH]; intro acc; [reflexivity|].
    cbn [map Dirnode.unpack_entries rebuild fst snd]. unfold entry_of at 1. cbn [fst snd].
    rewrite unpack_entry_imm. unfold no_err.
    destruct (n_err (reread_imm classify n)); cbn [andb]; [apply IH|].
    destruct (allowed_in_immutable (reread_imm classify n)); apply IH.
  Qed.

  (* the packer on a dict without cached entries *)
  Definition packable (di : bool) (n : node) : bool := no_err n && (negb di || allowed_in_immutable n).

  Lemma pack_fresh_ok (m : smap (node * MD)) wk di :
    (forall k v, In (k, v) m -> packable di (fst v) = true) ->
    pack_normalized (fresh MD m) wk di = inr (concat_ns (map (entry_of wk di) m)).
  Proof.
    induction m as [|[k [n md]] r IH]; intro H; [reflexivity|].
    cbn [fresh map Dirnode.pack_normalized fst snd c_node c_md c_aux].
    pose proof (H k (n, md) (or_introl eq_refl)) as Hp. unfold packable, no_err in Hp. cbn [fst] in Hp.
    destruct (n_err n); [discriminate|]. cbn [andb] in Hp.
    replace (di && negb (allowed_in_immutable n)) with false by (destruct di, (allowed_in_immutable n); cbn in *; congruence).
    fold (fresh MD r). rewrite IH by (intros ? ? ?; eapply H; right; eassumption).
    reflexivity.
  Qed.

  (* the first child that cannot be packed decides the error *)
  Lemma pack_fresh_err (m1 m2 : smap (node * MD)) k n md wk di :
    (forall k v, In (k, v) m1 -> packable di (fst v) = true) ->
    packable di n = false ->
    pack_normalized (fresh MD (m1 ++ (k, (n, md)) :: m2)) wk di
    = inl (match n_err n with Some e => ECap e | None => EDeepImmutable end).
  Proof.
    induction m1 as [|[k1 [n1 md1]] r IH]; intros H Hn.
    - cbn [app fresh map Dirnode.pack_normalized fst snd c_node c_md c_aux].
      unfold packable, no_err in Hn. destruct (n_err n); [reflexivity|]. cbn [andb] in Hn.
      replace (di && negb (allowed_in_immutable n)) with true by (destruct di, (allowed_in_immutable n); cbn in *; congruence).
      reflexivity.
    - cbn [app fresh map Dirnode.pack_normalized fst snd c_node c_md c_aux].
      pose proof (H k1 (n1, md1) (or_introl eq_refl)) as Hp. unfold packable, no_err in Hp. cbn [fst] in Hp.
      destruct (n_err n1); [discriminate|]. cbn [andb] in Hp.
      replace (di && negb (allowed_in_immutable n1)) with false by (destruct di, (allowed_in_immutable n1); cbn in *; congruence).
      fold (fresh MD (r ++ (k, (n, md)) :: m2)). rewrite IH; [reflexivity| |exact Hn].
      intros ? ? ?. eapply H. right. eassumption.
  Qed.

  Lemma unpack_packed w mu wk es :
    unpack_contents w mu wk (concat_ns es) = unpack_entries w mu wk es [].
  Proof. unfold Dirnode.unpack_contents. rewrite parse_all_packed. reflexivity. Qed.

  (* rebuilding a sorted, normalised directory whose children are all kept by the reader *)
  Definition with_aux (g : node -> node) (wk : option bytes) (di : bool) (m : smap (node * MD)) : smap child :=
    kvmap (fun k v => (g (fst v), snd v, Some (pack_entry wk di k (fst v) (snd v)))) m.

  Lemma rebuild_as_fold g keep wk di l acc :
    (forall k v, In (k, v) l -> keep (g (fst v)) = true) ->
    rebuild g keep wk di l acc
    = fold_left (fun m kv => sm_set (fst kv) (snd kv) m)
                (map (fun kc => (normalize (fst kc), (g (fst (snd kc)), snd (snd kc), Some (entry_of wk di kc)))) l) acc.
  Proof.
    revert acc. induction l as [|[k [n md]] r IH]; intros acc H; [reflexivity|].
    cbn [rebuild map fold_left fst snd].
    pose proof (H k (n, md) (or_introl eq_refl)) as Hk. cbn [fst] in Hk. rewrite Hk. apply IH. intros ? ? ?. eapply H. right. eassumption.
  Qed.

  Definition names_normal (m : smap (node * MD)) : Prop := forall k v, In (k, v) m -> normalize k = k.

  Lemma rebuild_sorted g keep wk di m :
    sm_sorted m = true -> names_normal m ->
    (forall k v, In (k, v) m -> keep (g (fst v)) = true) ->
    rebuild g keep wk di m [] = with_aux g wk di m.
  Proof.
    intros Hs Hn Hk. rewrite rebuild_as_fold by exact Hk.
    replace (map (fun kc => (normalize (fst kc), (g (fst (snd kc)), snd (snd kc), Some (entry_of wk di kc)))) m)
      with (with_aux g wk di m).
    - apply (fold_set_sorted (with_aux g wk di m) []). cbn [app]. unfold with_aux. rewrite kvmap_sorted. exact Hs.
    - unfold with_aux, kvmap. apply map_ext_in. intros [k [n md]] Hin. cbn [fst snd].
      rewrite (Hn _ _ Hin). reflexivity.
  Qed.

  Lemma view_with_aux g wk di m : view MD (with_aux g wk di m) = kvmap (fun _ v => (g (fst v), snd v)) m.
  Proof. unfold view, with_aux, kvmap. rewrite map_map. reflexivity. Qed.

  Lemma view_with_aux_id g wk di m :
    (forall k v, In (k, v) m -> g (fst v) = fst v) -> view MD (with_aux g wk di m) = m.
  Proof.
    intro H. rewrite view_with_aux. apply kvmap_id. intros k [n md] Hin. cbn [fst snd].
    pose proof (H _ _ Hin) as E. cbn [fst] in E. rewrite E. reflexivity.
  Qed.

  (* stability, as a proposition *)
  Lemma stableb_spec n : stableb classify n = true <-> n_err n = None /\ reread classify n = n.
  Proof.
    unfold stableb. destruct (n_err n) eqn:E.
    - split; [discriminate|intros [? _]; discriminate].
    - rewrite node_eqb_eq. tauto.
  Qed.

  Definition all_nodes (P : node -> bool) (m : smap (node * MD)) : Prop := forall k v, In (k, v) m -> P (fst v) = true.

  (* ---------------- C19: the round trip on a directory held as a map ---------------- *)
  Theorem unpack_pack_map wk (m : smap (node * MD)) :
    sm_sorted m = true -> names_normal m -> all_nodes (stableb classify) m ->
    exists data,
      pack_normalized (fresh MD m) (Some wk) false = inr data /\
      exists children, unpack_contents true true wk data = inr children /\ view MD children = m /\
                       children = with_aux (fun n => n) (Some wk) false m.
  Proof.
    intros Hs Hn Hst.
    exists (concat_ns (map (entry_of (Some wk) false) m)). split.
    - apply pack_fresh_ok. intros k v Hin. unfold packable, no_err.
      destruct (proj1 (stableb_spec _) (Hst _ _ Hin)) as [E _]. rewrite E. reflexivity.
    - exists (with_aux (fun n => n) (Some wk) false m).
      rewrite unpack_packed, unpack_entries_rw.
      assert (Hre : forall k v, In (k, v) m -> reread classify (fst v) = fst v).
      { intros k v Hin. apply (proj1 (stableb_spec _) (Hst _ _ Hin)). }
      rewrite rebuild_sorted; try assumption.
      + split; [|split; [apply view_with_aux_id; auto|reflexivity]].
        f_equal. unfold with_aux. apply kvmap_ext. intros k v Hin. rewrite (Hre _ _ Hin). reflexivity.
      + intros k v Hin. rewrite (Hre _ _ Hin). unfold no_err.
        destruct (proj1 (stableb_spec _) (Hst _ _ Hin)) as [E _]. rewrite E. reflexivity.
  Qed.

  (* ---------------- the same starting from the caller's dict (pack_children) ---------------- *)
  Definition normalized_list (l : list (bytes * (node * MD))) : list (bytes * (node * MD)) :=
    map (fun kv => (normalize (fst kv), snd kv)) l.

  Lemma pack_children_as_map l wk di :
    pack_children normalize MD dumps enc l wk di = pack_normalized (fresh MD (sm_of_list (normalized_list l))) wk di.
  Proof.
    unfold pack_children. f_equal.
    unfold fresh. change (map (fun kc => (fst kc, (fst (snd kc), snd (snd kc), @None bytes))) (sm_of_list (normalized_list l)))
      with (kvmap (fun _ (v : node * MD) => (fst v, snd v, @None bytes)) (sm_of_list (normalized_list l))).
    rewrite kvmap_of_list. f_equal. unfold normalized_list. rewrite map_map. reflexivity.
  Qed.

  Lemma normalized_list_in l k v : In (k, v) (normalized_list l) -> normalize k = k /\ exists k0, In (k0, v) l.
  Proof.
    unfold normalized_list. rewrite in_map_iff. intros ([k0 v0] & E & Hin). cbn [fst snd] in E. inversion E; subst.
    split; [apply normalize_idem|eauto].
  Qed.

  Theorem unpack_pack_list wk (l : list (bytes * (node * MD))) :
    (forall k v, In (k, v) l -> stableb classify (fst v) = true) ->
    exists data,
      pack_children normalize MD dumps enc l (Some wk) false = inr data /\
      exists children, unpack_contents true true wk data = inr children /\
                       view MD children = sm_of_list (normalized_list l).
  Proof.
    intro Hst. rewrite pack_children_as_map.
    destruct (unpack_pack_map wk (sm_of_list (normalized_list l))) as (data & Hp & children & Hu & Hv & _).
    - apply sm_of_list_is_sorted.
    - intros k v Hin. apply sm_of_list_in in Hin. apply normalized_list_in in Hin. tauto.
    - intros k v Hin. apply sm_of_list_in in Hin. apply normalized_list_in in Hin. destruct Hin as [_ [k0 Hin]].
      eapply Hst. exact Hin.
    - exists data. split; [exact Hp|]. exists children. split; [exact Hu|exact Hv].
  Qed.

  (* ---------------- later duplicates win ---------------- *)
  (* in the caller's dict: two names with the same normal form *)
  Theorem pack_children_later_wins wk (l : list (bytes * (node * MD))) name :
    (forall k v, In (k, v) l -> stableb classify (fst v) = true) ->
    exists data children,
      pack_children normalize MD dumps enc l (Some wk) false = inr data /\
      unpack_contents true true wk data = inr children /\
      sm_get name (view MD children) = last_binding name (normalized_list l).
  Proof.
    intro Hst. destruct (unpack_pack_list wk l Hst) as (data & Hp & children & Hu & Hv).
    exists data, children. split; [exact Hp|]. split; [exact Hu|].
    rewrite Hv. apply sm_of_list_get.
  Qed.

  (* in the stored bytes: entries whose names normalise to the same name, in any order *)
  Theorem unpack_later_entry_wins wk (l : list (bytes * (node * MD))) name :
    (forall k v, In (k, v) l -> stableb classify (fst v) = true) ->
    exists children,
      unpack_contents true true wk (concat_ns (map (entry_of (Some wk) false) l)) = inr children /\
      sm_get name (view MD children) = last_binding name (normalized_list l).
  Proof.
    intro Hst.
    rewrite unpack_packed, unpack_entries_rw.
    assert (Hre : forall k v, In (k, v) l -> reread classify (fst v) = fst v /\ no_err (fst v) = true).
    { intros k v Hin. destruct (proj1 (stableb_spec _) (Hst _ _ Hin)) as [E R]. split; [exact R|]. unfold no_err. rewrite E. reflexivity. }
    eexists. split; [reflexivity|].
    rewrite rebuild_as_fold.
    2:{ intros k v Hin. destruct (Hre _ _ Hin) as [R E]. rewrite R. exact E. }
    unfold view.
    change (map (fun kc : bytes * child => (fst kc, (c_node MD (snd kc), c_md MD (snd kc)))))
      with (kvmap (fun (_ : bytes) (c : child) => (c_node MD c, c_md MD c))).
    rewrite kvmap_fold. cbn [kvmap map]. rewrite map_map. cbn [fst snd c_node c_md].
    rewrite fold_set_get. cbn [sm_get].
    replace (map (fun x : bytes * (node * MD) => (normalize (fst x), (reread classify (fst (snd x)), snd (snd x)))) l)
      with (normalized_list l).
    - destruct (last_binding name (normalized_list l)); reflexivity.
    - unfold normalized_list. apply map_ext_in. intros [k [n md]] Hin. cbn [fst snd].
      destruct (Hre _ _ Hin) as [R _]. cbn [fst] in R. rewrite R. reflexivity.
  Qed.

  (* ---------------- immutable directories refuse mutable or write-capable children ---------------- *)
  Definition first_unpackable (di : bool) (m : smap (node * MD)) : option (bytes * (node * MD)) :=
    find (fun kv => negb (packable di (fst (snd kv)))) m.

  Lemma find_split {A} (p : A -> bool) l x :
    find p l = Some x -> exists l1 l2, l = l1 ++ x :: l2 /\ p x = true /\ forall y, In y l1 -> p y = false.
  Proof.
    induction l as [|a l IH]; cbn; [discriminate|].
    destruct (p a) eqn:E.
    - intro H. inversion H; subst. exists [], l. split; [reflexivity|]. split; [exact E|]. intros ? [].
    - intro H. destruct (IH H) as (l1 & l2 & -> & Hx & Hl). exists (a :: l1), l2.
      split; [reflexivity|]. split; [exact Hx|]. intros y [->|Hy]; [exact E|apply Hl; exact Hy].
  Qed.

  Theorem immutable_pack_refuses (m : smap (node * MD)) :
    match first_unpackable true m with
    | None => exists data, pack_normalized (fresh MD m) None true = inr data
    | Some (_, (n, _)) =>
      pack_normalized (fresh MD m) None true
      = inl (match n_err n with Some e => ECap e | None => EDeepImmutable end)
    end.
  Proof.
    unfold first_unpackable. destruct (find _ m) as [[k [n md]]|] eqn:F.
    - destruct (find_split _ _ _ F) as (l1 & l2 & -> & Hx & Hl). cbn [fst snd] in Hx.
      apply pack_fresh_err.
      + intros k' v' Hin. specialize (Hl _ Hin). cbn [fst snd] in Hl. apply negb_false_iff in Hl. exact Hl.
      + apply negb_true_iff in Hx. exact Hx.
    - eexists. apply pack_fresh_ok. intros k v Hin.
      pose proof (find_none _ _ F _ Hin) as H. cbn [fst snd] in H. apply negb_false_iff in H. exact H.
  Qed.


  (* a child that is mutable, or carries a write cap, makes the packer of an immutable directory raise
     MustBeDeepImmutableError (provided no child is an opaque error node, which raises its own error first) *)
  Definition mutable_or_writecap (n : node) : bool := (negb (is_unknown n) && n_mut n) || has_rw n.

  Lemma not_allowed_of_mutable_or_writecap n :
    shape_ok n = true -> mutable_or_writecap n = true -> allowed_in_immutable n = false.
  Proof.
    unfold shape_ok, mutable_or_writecap, allowed_in_immutable.
    destruct (is_unknown n), (has_rw n), (n_mut n), (n_err n); cbn; congruence.
  Qed.

  Theorem immutable_pack_rejects (m : smap (node * MD)) k n md :
    all_nodes no_err m -> all_nodes shape_ok m ->
    In (k, (n, md)) m -> mutable_or_writecap n = true ->
    pack_normalized (fresh MD m) None true = inl EDeepImmutable.
  Proof.
    intros Hne Hsh Hin Hmw.
    pose proof (immutable_pack_refuses m) as H.
    destruct (first_unpackable true m) as [[k1 [n1 md1]]|] eqn:F.
    - rewrite H. unfold first_unpackable in F. apply find_some in F. destruct F as [Hin1 _].
      pose proof (Hne _ _ Hin1) as E. unfold no_err in E. cbn [fst] in E. destruct (n_err n1); [discriminate|reflexivity].
    - exfalso. unfold first_unpackable in F. pose proof (find_none _ _ F _ Hin) as Hp. cbn [fst snd] in Hp.
      apply negb_false_iff in Hp. unfold packable in Hp. apply andb_prop in Hp. destruct Hp as [_ Hp]. cbn [negb orb] in Hp.
      rewrite (not_allowed_of_mutable_or_writecap n) in Hp; [discriminate| |exact Hmw].
      apply (Hsh _ _ Hin).
  Qed.

  (* and conversely: children that are all allowed are packed *)
  Theorem immutable_pack_accepts (m : smap (node * MD)) :
    all_nodes no_err m -> all_nodes allowed_in_immutable m ->
    pack_normalized (fresh MD m) None true = inr (concat_ns (map (entry_of None true) m)).
  Proof.
    intros Hne Hal. apply pack_fresh_ok. intros k v Hin. unfold packable.
    rewrite (Hne _ _ Hin), (Hal _ _ Hin). reflexivity.
  Qed.

  (* ---------------- C18: reading through a read-only directory ---------------- *)

  (* the reader of a read-only directory never looks at the writekey argument *)
  Lemma unpack_entries_ro_no_writekey mu wk1 wk2 es acc :
    unpack_entries false mu wk1 es acc = unpack_entries false mu wk2 es acc.
  Proof.
    revert acc. induction es as [|e r IH]; intro acc; [reflexivity|].
    cbn [Dirnode.unpack_entries].
    change (unpack_entry false mu wk1 e) with (unpack_entry false mu wk2 e).
    destruct (unpack_entry false mu wk2 e) as [x|[[name c]|]]; [reflexivity|apply IH|apply IH].
  Qed.

  Theorem ro_reader_ignores_writekey mu wk1 wk2 data :
    unpack_contents false mu wk1 data = unpack_contents false mu wk2 data.
  Proof.
    unfold Dirnode.unpack_contents. destruct (parse_all _ data); [|reflexivity].
    apply unpack_entries_ro_no_writekey.
  Qed.

  Theorem ro_unpack_map wk wk' (m : smap (node * MD)) :
    caps_coherent classify ->
    sm_sorted m = true -> names_normal m ->
    all_nodes (stableb classify) m -> all_nodes (ro_slot_okb classify) m ->
    exists data,
      pack_normalized (fresh MD m) (Some wk) false = inr data /\
      unpack_contents false true wk' data = inr (with_aux (reread_ro classify) (Some wk) false m) /\
      forall k n md, In (k, (n, md)) m ->
                     n_err (reread_ro classify n) = None /\ n_rw (reread_ro classify n) = None.
  Proof.
    intros Hco Hs Hn Hst Hslot.
    assert (Hro : forall k v, In (k, v) m -> n_err (reread_ro classify (fst v)) = None /\ n_rw (reread_ro classify (fst v)) = None).
    { intros k v Hin. apply reread_ro_readonly; [exact Hco|exact (Hst _ _ Hin)|exact (Hslot _ _ Hin)]. }
    exists (concat_ns (map (entry_of (Some wk) false) m)). split; [|split].
    - apply pack_fresh_ok. intros k v Hin. unfold packable, no_err.
      destruct (proj1 (stableb_spec _) (Hst _ _ Hin)) as [E _]. rewrite E. reflexivity.
    - rewrite unpack_packed, unpack_entries_ro. rewrite rebuild_sorted; try assumption; [reflexivity|].
      intros k v Hin. unfold no_err. rewrite (proj1 (Hro _ _ Hin)). reflexivity.
    - intros k n md Hin. apply (Hro _ _ Hin).
  Qed.

  (* whatever bytes an immutable directory holds, no child comes out write-capable *)
  Lemma unpack_entries_immutable_no_rw w wk es acc res :
    unpack_entries w false wk es acc = inr res ->
    (forall k c, In (k, c) acc -> n_rw (c_node MD c) = None) ->
    forall k c, In (k, c) res -> n_rw (c_node MD c) = None.
  Proof.
    revert acc. induction es as [|e r IH]; intros acc H Hacc; cbn [Dirnode.unpack_entries] in H.
    - inversion H; subst. exact Hacc.
    - destruct (unpack_entry w false wk e) as [x|[[name c0]|]] eqn:E; [discriminate| |].
      + eapply IH; [exact H|]. intros k c Hin. apply sm_set_in in Hin. destruct Hin as [[-> ->]|Hin]; [|eapply Hacc; exact Hin].
        unfold Dirnode.unpack_entry in E.
        destruct (parse_k 4 e) as [[[|a [|b [|c1 [|d [|? ?]]]]] rest]|]; try discriminate.
        cbn [negb] in E.
        destruct (true && negb match c1 with [] => true | _ :: _ => false end); [discriminate|].
        match type of E with context [create_from_cap classify true ?rw ?ro] => set (nn := create_from_cap classify true rw ro) in * end.
        destruct (n_err nn); [discriminate|].
        destruct (false || allowed_in_immutable nn); [|discriminate].
        destruct (loads d); [|discriminate]. inversion E; subst. cbn [c_node fst].
        apply cfc_deep_immutable_no_rw.
      + eapply IH; [exact H|exact Hacc].
  Qed.

  Theorem immutable_dir_children_no_rw w wk data children :
    unpack_contents w false wk data = inr children ->
    forall k c, In (k, c) children -> n_rw (c_node MD c) = None.
  Proof.
    unfold Dirnode.unpack_contents. destruct (parse_all _ data) as [es|]; [|discriminate].
    intro H. eapply unpack_entries_immutable_no_rw; [exact H|]. intros ? ? [].
  Qed.

  (* ---------------- C18: the only place where write caps and the writekey enter ---------------- *)
  (* the packed bytes, spelled out: name, read-cap field and metadata in clear, and the write cap
     only as  salt ++ E_key(rwcap) ++ MAC  with  key = H(salt, WRITEKEY of the directory) *)
  Definition rwcap_field (wk rw : bytes) : bytes :=
    let salt := mutable_rwcap_salt_hash rw in
    let key := mutable_rwcap_key_hash salt wk in
    salt ++ enc key rw ++ hmac key (salt ++ enc key rw).

  Theorem packed_form wk (m : smap (node * MD)) :
    all_nodes no_err m ->
    pack_normalized (fresh MD m) (Some wk) false
    = inr (concat_ns (map (fun kc => netstring (fst kc)
                                     ++ netstring (stored_ro false (fst (snd kc)))
                                     ++ netstring (rwcap_field wk (or_empty (n_rw (fst (snd kc)))))
                                     ++ netstring (dumps (snd (snd kc)))) m)).
  Proof.
    intro H. rewrite pack_fresh_ok; [reflexivity|].
    intros k v Hin. unfold packable. rewrite (H _ _ Hin). reflexivity.
  Qed.

  (* what the packer writes in clear for each child *)
  Definition ro_proj (m : list (bytes * (node * MD))) : list (bytes * bytes * MD) :=
    map (fun kc => (fst kc, stored_ro false (fst (snd kc)), snd (snd kc))) m.

  (* the read-cap holder's reader as a function of those clear fields alone: it receives neither
     the directory's writekey nor any child write cap nor any ciphertext *)
  Definition ro_view_of (p : list (bytes * bytes * MD)) (acc : smap (node * MD)) : smap (node * MD) :=
    fold_left (fun acc e =>
                 let n' := create_from_cap classify false None (nonempty (rstrip_sp (snd (fst e)))) in
                 if no_err n' then sm_set (normalize (fst (fst e))) (n', snd e) acc else acc) p acc.

  Lemma view_set k c (m : smap child) : view MD (sm_set k c m) = sm_set k (c_node MD c, c_md MD c) (view MD m).
  Proof. exact (kvmap_set (fun (_ : bytes) (c : child) => (c_node MD c, c_md MD c)) k c m). Qed.

  Lemma view_rebuild_ro wk l acc :
    view MD (rebuild (reread_ro classify) no_err (Some wk) false l acc) = ro_view_of (ro_proj l) (view MD acc).
  Proof.
    revert acc. induction l as [|[k [n md]] r IH]; intro acc; [reflexivity|].
    cbn [rebuild ro_proj map ro_view_of fold_left fst snd].
    fold (reread_ro classify n). destruct (no_err (reread_ro classify n)).
    - rewrite IH, view_set. reflexivity.
    - apply IH.
  Qed.

  Theorem ro_view_is_function_of_clear_fields wk wk' (m : smap (node * MD)) :
    all_nodes no_err m ->
    exists data children,
      pack_normalized (fresh MD m) (Some wk) false = inr data /\
      unpack_contents false true wk' data = inr children /\
      view MD children = ro_view_of (ro_proj m) [].
  Proof.
    intro H. exists (concat_ns (map (entry_of (Some wk) false) m)).
    eexists. split; [|split].
    - apply pack_fresh_ok. intros k v Hin. unfold packable. rewrite (H _ _ Hin). reflexivity.
    - rewrite unpack_packed, unpack_entries_ro. reflexivity.
    - apply view_rebuild_ro.
  Qed.

  (* hence two directories that differ only in their children's write caps and in their own
     writekeys look the same to a read-cap holder *)
  Theorem ro_view_independent_of_write_caps wk1 wk2 wk1' wk2' (m1 m2 : smap (node * MD)) :
    all_nodes no_err m1 -> all_nodes no_err m2 -> ro_proj m1 = ro_proj m2 ->
    exists d1 d2 c1 c2,
      pack_normalized (fresh MD m1) (Some wk1) false = inr d1 /\
      pack_normalized (fresh MD m2) (Some wk2) false = inr d2 /\
      unpack_contents false true wk1' d1 = inr c1 /\
      unpack_contents false true wk2' d2 = inr c2 /\
      view MD c1 = view MD c2.
  Proof.
    intros H1 H2 E.
    destruct (ro_view_is_function_of_clear_fields wk1 wk1' m1 H1) as (d1 & c1 & P1 & U1 & V1).
    destruct (ro_view_is_function_of_clear_fields wk2 wk2' m2 H2) as (d2 & c2 & P2 & U2 & V2).
    exists d1, d2, c1, c2. repeat split; try assumption. rewrite V1, V2, E. reflexivity.
  Qed.
End PackFacts.
