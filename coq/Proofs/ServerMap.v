(* Proofs for C11 over Model/ServerMap.v *)
From Coq Require Import List NArith Bool Lia Sorted.
From Verif Require Import Model.ServerMap.
Import ListNotations.
Local Open Scope N_scope.

Lemma version_eqb_eq a b : version_eqb a b = true <-> a = b.
Proof.
  unfold version_eqb. destruct a as [s1 t1 k1], b as [s2 t2 k2]; cbn. split; intro H.
  - apply andb_prop in H. destruct H as [H H3]. apply andb_prop in H. destruct H as [H1 H2].
    apply N.eqb_eq in H1, H2, H3. subst. reflexivity.
  - inversion H; subst. rewrite !N.eqb_refl. reflexivity.
Qed.

Lemma mem_ver_In v l : mem_ver v l = true <-> In v l.
Proof.
  induction l as [|y r IH]; cbn; [split; [discriminate|contradiction]|].
  rewrite orb_true_iff, IH, version_eqb_eq. split; intros [H|H]; auto.
Qed.

Lemma dedup_ver_In v l : In v (dedup_ver l) <-> In v l.
Proof.
  induction l as [|x r IH]; cbn; [tauto|].
  destruct (mem_ver x r) eqn:E.
  - rewrite IH. apply mem_ver_In in E. split; [auto|]. intros [H|H]; [subst; exact E|exact H].
  - cbn. rewrite IH. tauto.
Qed.

Lemma versions_In m v : In v (versions m) <-> exists s, In s m /\ ver s = v.
Proof.
  unfold versions. rewrite dedup_ver_In, in_map_iff. split; intros [s [A B]]; exists s; auto.
Qed.

Lemma recoverable_In m v :
  In v (recoverable_versions m) <-> (exists s, In s m /\ ver s = v) /\ vk v <= count_shares m v.
Proof.
  unfold recoverable_versions, is_recoverable. rewrite filter_In, versions_In, N.leb_le. tauto.
Qed.

Lemma unrecoverable_In m v :
  In v (unrecoverable_versions m) <-> (exists s, In s m /\ ver s = v) /\ count_shares m v < vk v.
Proof.
  unfold unrecoverable_versions, is_recoverable. rewrite filter_In, versions_In, negb_true_iff, N.leb_gt. tauto.
Qed.

(* ---- max_version ---- *)
Lemma version_leb_refl v : version_leb v v = true.
Proof. unfold version_leb. rewrite !N.eqb_refl. cbn. apply orb_true_r. Qed.

Lemma version_ltb_leb a b : version_ltb a b = true -> version_leb a b = true.
Proof. unfold version_leb. intro H. rewrite H. reflexivity. Qed.

Lemma version_leb_spec a b :
  version_leb a b = true <-> (seq a < seq b \/ (seq a = seq b /\ vtag a <= vtag b)).
Proof.
  unfold version_leb, version_ltb.
  rewrite !orb_true_iff, !andb_true_iff, !N.ltb_lt, !N.eqb_eq. lia.
Qed.

Lemma version_ltb_false_leb a b : version_ltb a b = false -> version_leb b a = true.
Proof.
  unfold version_ltb. rewrite orb_false_iff, andb_false_iff, N.ltb_ge, N.eqb_neq, N.ltb_ge.
  intro H. apply version_leb_spec. lia.
Qed.

Lemma version_leb_trans a b c : version_leb a b = true -> version_leb b c = true -> version_leb a c = true.
Proof. rewrite !version_leb_spec. lia. Qed.

Lemma max_version_spec l v :
  max_version l = Some v -> In v l /\ forall w, In w l -> version_leb w v = true.
Proof.
  revert v; induction l as [|x r IH]; intros v H; cbn in H; [discriminate|].
  destruct (max_version r) as [w|] eqn:E.
  - destruct (IH w eq_refl) as [Hin Hmax].
    destruct (version_ltb w x) eqn:L; inversion H; subst.
    + split; [left; reflexivity|]. intros u [Hu|Hu]; [subst; apply version_leb_refl|].
      eapply version_leb_trans; [apply Hmax, Hu|apply version_ltb_leb, L].
    + split; [right; exact Hin|]. intros u [Hu|Hu]; [subst; apply version_ltb_false_leb, L|apply Hmax, Hu].
  - inversion H; subst. destruct r; [|cbn in E; destruct (max_version r); [destruct (version_ltb v1 v0)|]; discriminate].
    split; [left; reflexivity|]. intros u [Hu|[]]. subst. apply version_leb_refl.
Qed.

Lemma max_version_none l : max_version l = None <-> l = [].
Proof.
  destruct l as [|x r]; cbn; [tauto|]. split; [|discriminate].
  destruct (max_version r) as [w|]; [destruct (version_ltb w x)|]; discriminate.
Qed.

Lemma best_is_max_recoverable_ok m v :
  best_recoverable_version m = Some v ->
  In v (recoverable_versions m) /\
  forall w, In w (recoverable_versions m) -> version_leb w v = true.
Proof. apply max_version_spec. Qed.

Lemma best_seq_is_highest m v w :
  best_recoverable_version m = Some v -> In w (recoverable_versions m) -> seq w <= seq v.
Proof.
  intros H Hw. destruct (best_is_max_recoverable_ok m v H) as [_ Hmax].
  specialize (Hmax w Hw). apply version_leb_spec in Hmax. lia.
Qed.

Lemma best_none_iff m : best_recoverable_version m = None <-> recoverable_versions m = [].
Proof. apply max_version_none. Qed.

(* ---- highest_seqnum ---- *)
Lemma max_N_ge l x : In x l -> x <= max_N l.
Proof. induction l as [|y r IH]; cbn; [contradiction|]. intros [H|H]; [subst|specialize (IH H)]; lia. Qed.

Lemma max_N_in l : l <> [] -> In (max_N l) l.
Proof.
  induction l as [|y r IH]; [congruence|]. intros _. cbn.
  destruct r as [|z r']; [cbn; left; lia|].
  assert (Hr : In (max_N (z :: r')) (z :: r')) by (apply IH; discriminate).
  destruct (N.max_spec y (max_N (z :: r'))) as [[_ E]|[_ E]]; rewrite E; [right; exact Hr|left; reflexivity].
Qed.

Lemma new_seqnum_gt_all_seen_ok m s : In s m -> seq (ver s) < new_seqnum m.
Proof.
  intro H. unfold new_seqnum, highest_seqnum.
  assert (In (ver s) (versions m)) by (apply versions_In; exists s; auto).
  assert (seq (ver s) <= max_N (map seq (versions m))) by (apply max_N_ge, in_map, H0). lia.
Qed.

(* ---- one writer: every survey sees at least one share of the previous publish ---- *)
Inductive observed_chain : list servermap -> Prop :=
| oc_nil : observed_chain []
| oc_one m : observed_chain [m]
| oc_cons m1 m2 r :
    (exists s, In s m2 /\ seq (ver s) = new_seqnum m1) ->
    observed_chain (m2 :: r) -> observed_chain (m1 :: m2 :: r).

Lemma one_writer_strictly_increasing_ok surveys :
  observed_chain surveys -> StronglySorted N.lt (map new_seqnum surveys).
Proof.
  intro H. apply Sorted_StronglySorted; [intros a b c; apply N.lt_trans|].
  induction H as [|m|m1 m2 r [s [Hin Hs]] Hc IH]; cbn.
  - constructor.
  - repeat constructor.
  - constructor; [exact IH|]. constructor. rewrite <- Hs. apply new_seqnum_gt_all_seen_ok, Hin.
Qed.

(* ---- MODE_READ keeps querying ---- *)
Lemma highest_recoverable_seq_best m h :
  highest_recoverable_seq m = Some h ->
  exists v, best_recoverable_version m = Some v /\ seq v = h.
Proof.
  unfold highest_recoverable_seq, best_recoverable_version.
  destruct (recoverable_versions m) as [|x r] eqn:E; [discriminate|].
  remember (x :: r) as l eqn:El. intro H. injection H as H. subst h.
  assert (Lne : l <> []) by (subst l; discriminate).
  destruct (max_version l) as [v|] eqn:M; [|apply max_version_none in M; contradiction].
  exists v. split; [reflexivity|].
  destruct (max_version_spec _ _ M) as [Hin Hmax].
  apply N.le_antisymm.
  - apply max_N_ge, in_map, Hin.
  - assert (Hne : map seq l <> []) by (destruct l; [contradiction|discriminate]).
    apply max_N_in in Hne. apply in_map_iff in Hne. destruct Hne as [w [Hw Hwin]].
    specialize (Hmax w Hwin). apply version_leb_spec in Hmax. lia.
Qed.

Lemma mode_read_keeps_querying_ok u m :
  running u = true -> must_query u = false -> (outstanding u || extra u = true) ->
  (exists v, In v (unrecoverable_newer_versions m)) ->
  check_for_done MODE_READ u m = More.
Proof.
  intros R Q O [v Hv]. unfold check_for_done. rewrite R, Q. cbn [negb].
  destruct (outstanding u), (extra u); try discriminate; cbn [negb andb];
    (destruct (completed u <? to_query u); [reflexivity|]);
    (destruct (max_version (recoverable_versions m)) as [hr|] eqn:M; [|reflexivity]);
    (assert (X : existsb (fun v0 => seq hr <? seq v0) (unrecoverable_versions m) = true);
     [|rewrite X; reflexivity]);
    apply existsb_exists; exists v;
    unfold unrecoverable_newer_versions in Hv; apply filter_In in Hv; destruct Hv as [Hin Hc];
    (split; [exact Hin|]);
    (destruct (highest_recoverable_seq m) as [h|] eqn:HH;
     [destruct (highest_recoverable_seq_best m h HH) as [b [Hb Hs]];
      unfold best_recoverable_version in Hb; rewrite M in Hb; inversion Hb; subst; exact Hc
     |unfold highest_recoverable_seq in HH; destruct (recoverable_versions m); [discriminate M|discriminate HH]]).
Qed.

(* MODE_READ declares the map done only when nothing is left to ask, or it has asked
   enough servers, has a recoverable version, and no unrecoverable version is newer *)
Lemma read_core m cpl tq :
  (if cpl <? tq then More
   else match max_version (recoverable_versions m) with
        | None => More
        | Some hr => if existsb (fun v => seq hr <? seq v) (unrecoverable_versions m) then More else Done
        end) = Done ->
  tq <= cpl /\ exists hr, best_recoverable_version m = Some hr /\
                          forall v, In v (unrecoverable_versions m) -> seq v <= seq hr.
Proof.
  destruct (cpl <? tq) eqn:C; [discriminate|].
  destruct (max_version (recoverable_versions m)) as [hr|] eqn:M; [|discriminate].
  destruct (existsb (fun v => seq hr <? seq v) (unrecoverable_versions m)) eqn:X; [discriminate|].
  intros _. split; [apply N.ltb_ge, C|]. exists hr. split; [exact M|].
  intros v Hv. destruct (N.le_gt_cases (seq v) (seq hr)) as [L|L]; [exact L|].
  exfalso. assert (Y : existsb (fun v0 => seq hr <? seq v0) (unrecoverable_versions m) = true).
  { apply existsb_exists. exists v. split; [exact Hv|apply N.ltb_lt, L]. }
  congruence.
Qed.

Lemma mode_read_done_only_if_ok u m :
  check_for_done MODE_READ u m = Done ->
  (outstanding u = false /\ extra u = false) \/
  (to_query u <= completed u /\
   exists hr, best_recoverable_version m = Some hr /\
              forall v, In v (unrecoverable_versions m) -> seq v <= seq hr).
Proof.
  unfold check_for_done. destruct (running u); cbn [negb]; [|discriminate].
  destruct (must_query u); [discriminate|].
  destruct (outstanding u), (extra u); cbn [negb andb].
  - intro H. right. apply read_core, H.
  - intro H. right. apply read_core, H.
  - intro H. right. apply read_core, H.
  - intros _. left. split; reflexivity.
Qed.

(* read-your-writes for an uncontended writer: a version that is recoverable in the map and
   whose sequence number exceeds that of every other version in the map is the one a read returns *)
Lemma newest_recoverable_is_best_ok m v :
  In v (recoverable_versions m) ->
  (forall w, In w (versions m) -> w <> v -> seq w < seq v) ->
  best_recoverable_version m = Some v.
Proof.
  intros Hv Hnew.
  destruct (best_recoverable_version m) as [b|] eqn:B.
  - destruct (best_is_max_recoverable_ok m b B) as [Hb Hmax].
    specialize (Hmax v Hv). apply version_leb_spec in Hmax.
    destruct (version_eqb b v) eqn:E; [apply version_eqb_eq in E; subst; reflexivity|].
    assert (Hne : b <> v) by (intro X; apply version_eqb_eq in X; congruence).
    assert (Hbv : In b (versions m)).
    { apply recoverable_In in Hb. destruct Hb as [Hex _]. apply versions_In. exact Hex. }
    specialize (Hnew b Hbv Hne). lia.
  - apply best_none_iff in B. rewrite B in Hv. destruct Hv.
Qed.

(* a publish that used new_seqnum of its survey and whose shares are (at least k of them) in a later
   map, with nothing else newer in that map, is what that later read returns *)
Lemma publish_then_read_ok m_survey m_read v :
  seq v = new_seqnum m_survey ->
  In v (recoverable_versions m_read) ->
  (forall w, In w (versions m_read) -> w <> v -> In w (versions m_survey)) ->
  best_recoverable_version m_read = Some v.
Proof.
  intros Hs Hv Hold. apply newest_recoverable_is_best_ok; [exact Hv|].
  intros w Hw Hne. specialize (Hold w Hw Hne). apply versions_In in Hold. destruct Hold as [s [Hin Hvs]].
  rewrite Hs, <- Hvs. apply new_seqnum_gt_all_seen_ok, Hin.
Qed.
