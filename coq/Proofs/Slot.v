(* C24: slot_testv_and_readv_and_writev is atomic and guarded by the write enabler. *)
From Coq Require Import List NArith Arith Bool Lia.
From Verif Require Import Lib.Hex Gen.MutConsts Model.MutContainer Model.Lease Model.Slot
  Proofs.MutContainerBytes Proofs.MutContainer Proofs.MutContainerRefine
  Proofs.LeaseMutable Proofs.LeaseImmutable Proofs.Lease Proofs.LeaseFinal.
Import ListNotations.
Local Open Scope N_scope.

(* ---- buckets ---------------------------------------------------------------------------------- *)
Lemma blookup_in b n f : blookup b n = Some f -> In (n, f) b.
Proof.
  induction b as [|[m g] r IH]; [discriminate|]. cbn [blookup]. destruct (N.eqb_spec n m) as [->|].
  - intro Hx. inversion Hx. left. reflexivity.
  - intro Hx. right. apply IH. exact Hx.
Qed.

Lemma blookup_bset b n f m : blookup (bset b n f) m = if m =? n then Some f else blookup b m.
Proof.
  induction b as [|[k g] r IH]; cbn [bset blookup].
  - destruct (N.eqb_spec m n); reflexivity.
  - destruct (N.eqb_spec n k) as [->|Hnk].
    + cbn [blookup]. destruct (N.eqb_spec m k); reflexivity.
    + destruct (N.ltb_spec n k).
      * cbn [blookup]. destruct (N.eqb_spec m n); reflexivity.
      * cbn [blookup]. rewrite IH. destruct (N.eqb_spec m k) as [->|]; [|reflexivity].
        destruct (N.eqb_spec k n); [congruence|reflexivity].
Qed.

Lemma blookup_bremove b n m : blookup (bremove b n) m = if m =? n then None else blookup b m.
Proof.
  induction b as [|[k g] r IH]; cbn [bremove blookup].
  - destruct (m =? n); reflexivity.
  - destruct (N.eqb_spec n k) as [->|Hnk].
    + rewrite IH. destruct (N.eqb_spec m k); reflexivity.
    + cbn [blookup]. rewrite IH. destruct (N.eqb_spec m k) as [->|]; [|reflexivity].
      destruct (N.eqb_spec k n); [congruence|reflexivity].
Qed.

Lemma blookup_bput b n s m : blookup (bput b n s) m = if m =? n then s else blookup b m.
Proof. destruct s; cbn [bput]; [apply blookup_bset|apply blookup_bremove]. Qed.

Lemma in_bset b n f m g : In (m, g) (bset b n f) -> (m, g) = (n, f) \/ In (m, g) b.
Proof.
  induction b as [|[k h] r IH]; cbn [bset].
  - intros [Hx|[]]. left. symmetry. exact Hx.
  - destruct (N.eqb_spec n k) as [->|].
    + intros [Hx|Hx]; [left; symmetry; exact Hx|right; right; exact Hx].
    + destruct (n <? k).
      * intros [Hx|Hx]; [left; symmetry; exact Hx|right; exact Hx].
      * intros [Hx|Hx]; [right; left; exact Hx|]. destruct (IH Hx); [left; assumption|right; right; assumption].
Qed.

Lemma in_bremove b n m g : In (m, g) (bremove b n) -> In (m, g) b.
Proof.
  induction b as [|[k h] r IH]; cbn [bremove]; [auto|].
  destruct (n =? k); [intro Hx; right; apply IH; exact Hx|].
  intros [Hx|Hx]; [left; exact Hx|right; apply IH; exact Hx].
Qed.

Lemma bucket_ok_bput maxsz b n s : bucket_ok maxsz b -> share_ok maxsz s -> bucket_ok maxsz (bput b n s).
Proof.
  intros Hb Hs m g Hin. destruct s as [f|]; cbn [bput] in Hin.
  - apply in_bset in Hin. destruct Hin as [Hx|Hx]; [inversion Hx; subst; exact Hs|apply (Hb m g Hx)].
  - apply in_bremove in Hin. apply (Hb m g Hin).
Qed.

Lemma bucket_ok_lookup maxsz b n : bucket_ok maxsz b -> share_ok maxsz (blookup b n).
Proof.
  intro Hb. destruct (blookup b n) as [f|] eqn:E; [|exact I]. apply (Hb n f). apply blookup_in. exact E.
Qed.

Lemma abs_bucket_bput b n s m : abs_bucket (bput b n s) m = if m =? n then abs_share s else abs_bucket b m.
Proof. unfold abs_bucket. rewrite blookup_bput. destruct (m =? n); reflexivity. Qed.

(* ---- the write enabler of a well-formed container ------------------------------------------------ *)
Lemma header_flat maxsz c : wf maxsz c -> pread (flat c) 0 HEADER_SIZE = c_id c ++ c_dlb c ++ c_elob c.
Proof.
  intro Hw. rewrite pread_prn, flat_slots. consts. change (N.to_nat 0) with 0%nat. change (N.to_nat 100) with 100%nat.
  rewrite prn_inside by (rewrite !app_length; destruct Hw; lia).
  unfold prn. cbn [skipn]. apply firstn_all2. rewrite !app_length. destruct Hw. lia.
Qed.

Lemma rwe_flat maxsz c : wf maxsz c -> read_write_enabler (flat c) = Ok (pread (c_id c) 52 32).
Proof.
  intro Hw. unfold read_write_enabler. rewrite (header_flat _ _ Hw).
  assert (Hlen : length (c_id c ++ c_dlb c ++ c_elob c) = N.to_nat HEADER_SIZE).
  { rewrite !app_length. destruct Hw. consts. change (N.to_nat 100) with 100%nat. lia. }
  rewrite Hlen, Nat.eqb_refl.
  assert (Hsch : schema_of_header (c_id c ++ c_dlb c ++ c_elob c) = schema_of_header (c_id c)).
  { unfold schema_of_header. rewrite firstn_app. destruct Hw as [Hi ? ? ? ? ? ? ? ? ?]. rewrite Hi.
    change (32 - 84)%nat with 0%nat. cbn [firstn]. rewrite app_nil_r. reflexivity. }
  rewrite Hsch. destruct (open_flat _ _ Hw) as (v & _ & Ev). rewrite Ev. f_equal.
  rewrite !pread_prn. apply prn_inside. destruct Hw. change (N.to_nat 52) with 52%nat. change (N.to_nat 32) with 32%nat. lia.
Qed.

Lemma layout_open_rwe maxsz f : layout_ok maxsz f = true ->
  (exists v, open_container f = Ok v) /\ (exists w, read_write_enabler f = Ok w).
Proof.
  intro Hl. apply layout_ok_iff in Hl. destruct Hl as (c & Hw & ->).
  destruct (open_flat _ _ Hw) as (v & Eo & _). split; [exists v; exact Eo|]. eexists. apply (rwe_flat maxsz). exact Hw.
Qed.

Lemma collect_spec maxsz b we : bucket_ok maxsz b ->
  collect_shares b we = if enablers_match b we then Ok tt else Err EBadWriteEnabler.
Proof.
  induction b as [|[n f] r IH]; intro Hb; [reflexivity|].
  cbn [collect_shares enablers_match forallb snd].
  assert (Hf : layout_ok maxsz f = true) by (apply (Hb n f); left; reflexivity).
  destruct (layout_open_rwe maxsz f Hf) as ((v & Eo) & (w & Ew)). rewrite Eo. unfold check_write_enabler. rewrite Ew.
  destruct (list_N_eqb we w); [|reflexivity]. cbn [andb]. apply IH. intros m g Hin. apply (Hb m g). right. exact Hin.
Qed.

Lemma enablers_match_false b we : enablers_match b we = false <->
  exists n f, In (n, f) b /\ read_write_enabler f <> Ok we.
Proof.
  unfold enablers_match. split.
  - intro Hf. induction b as [|[n f] r IH]; [discriminate|]. cbn [forallb snd] in Hf.
    apply andb_false_iff in Hf. destruct Hf as [Hf|Hf].
    + exists n, f. split; [left; reflexivity|]. destruct (read_write_enabler f) as [w|e]; [|discriminate].
      intro Hx. inversion Hx; subst. assert (list_N_eqb we we = true) by (apply list_N_eqb_eq; reflexivity). congruence.
    + destruct (IH Hf) as (m & g & Hin & Hne). exists m, g. split; [right; exact Hin|exact Hne].
  - intros (n & f & Hin & Hne). apply not_true_is_false. intro Ht. rewrite forallb_forall in Ht.
    specialize (Ht (n, f) Hin). cbn [snd] in Ht. destruct (read_write_enabler f) as [w|e]; [|discriminate].
    apply list_N_eqb_eq in Ht. subst. apply Hne. reflexivity.
Qed.

(* ---- tests and reads are those of the abstract pre-state ------------------------------------------- *)
Lemma eval_tests_spec maxsz b tw : bucket_ok maxsz b -> eval_tests b tw = Ok (tests_pass b tw).
Proof.
  intro Hb. induction tw as [|t r IH]; [reflexivity|]. cbn [eval_tests tests_pass forallb].
  rewrite (share_test_refines maxsz _ _ (bucket_ok_lookup maxsz b (tw_shnum t) Hb)).
  fold (abs_bucket b (tw_shnum t)).
  destruct (ref_check_testv _ (tw_testv t)); [cbn [andb]; exact IH|reflexivity].
Qed.

Lemma eval_reads_spec maxsz b rv : bucket_ok maxsz b -> eval_reads b rv = Ok (ref_reads b rv).
Proof.
  induction b as [|[n f] r IH]; intro Hb; [reflexivity|]. cbn [eval_reads ref_reads map fst snd].
  assert (Hf : layout_ok maxsz f = true) by (apply (Hb n f); left; reflexivity).
  destruct (layout_abs maxsz f Hf) as (d & Ha & _). rewrite (readv_refines_lemma maxsz f rv d Hf Ha).
  fold (ref_reads r rv). rewrite IH by (intros m g Hin; apply (Hb m g); right; exact Hin).
  unfold abs_share. rewrite Ha. reflexivity.
Qed.

(* ---- one share's writes ----------------------------------------------------------------------------- *)
Lemma share_write_spec maxsz fresh s dv nl :
  468 + maxsz < 2 ^ 64 -> layout_ok maxsz fresh = true -> abs_data fresh = Ok [] -> share_ok maxsz s ->
  (is_zero nl || vectors_fit maxsz dv) = true ->
  exists s', share_write maxsz fresh s dv nl = (s', None) /\ share_ok maxsz s' /\
             abs_share s' = ref_apply (abs_share s) dv nl.
Proof.
  intros Hm Hfo Hfe Hs Hfit. unfold share_write, ref_apply. destruct (is_zero nl) eqn:Ez.
  - exists None. split; [reflexivity|]. split; [exact I|reflexivity].
  - cbn [orb] in Hfit.
    set (f := match s with Some f => f | None => fresh end).
    set (d := match abs_share s with Some d => d | None => [] end).
    assert (Hf : layout_ok maxsz f = true) by (subst f; destruct s; [exact Hs|exact Hfo]).
    assert (Ha : abs_data f = Ok d).
    { subst f d. destruct s as [g|].
      - destruct (layout_abs _ _ Hs) as (d0 & Ha & _). unfold abs_share. rewrite Ha. reflexivity.
      - exact Hfe. }
    destruct (writev_refines_lemma maxsz f dv nl d Hm Hf Ha) as (Hl' & Ha' & He' & _).
    unfold ref_writev in *. rewrite (vectors_fit_ref _ _ _ Hfit) in *. cbn [fst snd] in *.
    destruct (writev maxsz f dv nl) as [f'|f' e]; cbn [out_file out_err] in *; [|discriminate].
    exists (Some f'). split; [reflexivity|]. split; [exact Hl'|]. unfold abs_share at 1. rewrite Ha'. reflexivity.
Qed.

Lemma sizes_ok_cons maxsz t r : sizes_ok maxsz (t :: r) = true ->
  (is_zero (tw_newlen t) || vectors_fit maxsz (tw_datav t)) = true /\ sizes_ok maxsz r = true.
Proof. unfold sizes_ok. cbn [forallb]. apply andb_prop. Qed.

Lemma apply_writes_spec maxsz fresh tw : forall b,
  468 + maxsz < 2 ^ 64 -> layout_ok maxsz fresh = true -> abs_data fresh = Ok [] ->
  bucket_ok maxsz b -> sizes_ok maxsz tw = true -> NoDup (names tw) ->
  exists b', apply_writes maxsz fresh b tw = (b', None) /\ bucket_ok maxsz b' /\ all_applied b b' tw.
Proof.
  induction tw as [|t r IH]; intros b Hm Hfo Hfe Hb Hsz Hnd.
  - exists b. split; [reflexivity|]. split; [exact Hb|]. split; [intros t []|reflexivity].
  - cbn [apply_writes]. apply sizes_ok_cons in Hsz. destruct Hsz as [Hfit Hsz].
    cbn [names map] in Hnd. inversion Hnd as [|? ? Hnin Hnd']; subst.
    destruct (share_write_spec maxsz fresh (blookup b (tw_shnum t)) (tw_datav t) (tw_newlen t) Hm Hfo Hfe
                (bucket_ok_lookup maxsz b _ Hb) Hfit) as (s' & Ew & Hs' & Hab).
    rewrite Ew. set (b1 := bput b (tw_shnum t) s').
    assert (Hb1 : bucket_ok maxsz b1) by (apply bucket_ok_bput; assumption).
    destruct (IH b1 Hm Hfo Hfe Hb1 Hsz Hnd') as (b' & Ea & Hb' & Hall & Hother).
    exists b'. split; [exact Ea|]. split; [exact Hb'|]. split.
    + intros t' [<-|Hin].
      * rewrite (Hother (tw_shnum t) Hnin). unfold b1. rewrite abs_bucket_bput, N.eqb_refl. exact Hab.
      * rewrite (Hall t' Hin). unfold b1. rewrite abs_bucket_bput.
        destruct (N.eqb_spec (tw_shnum t') (tw_shnum t)) as [E|]; [|reflexivity].
        exfalso. apply Hnin. fold (names r). unfold names. rewrite <- E. apply in_map. exact Hin.
    + intros n Hn. cbn [names map] in Hn. rewrite (Hother n) by (intro Hx; apply Hn; right; exact Hx).
      unfold b1. rewrite abs_bucket_bput. destruct (N.eqb_spec n (tw_shnum t)) as [->|]; [|reflexivity].
      exfalso. apply Hn. left. reflexivity.
Qed.

(* ---- the lease step touches neither data nor layout ----------------------------------------------------- *)
Section WithHash.
Variable H : list N -> list N.

Lemma lease_step_preserves maxsz f avail li :
  layout_ok maxsz f = true -> (forall v, lease_wf (stored_form H v li)) -> l_owner li <> 0 ->
  layout_ok maxsz (out_file (mutfile_add_or_renew H f avail li)) = true /\
  abs_data (out_file (mutfile_add_or_renew H f avail li)) = abs_data f.
Proof.
  intros Hl Hw Ho. unfold mutfile_add_or_renew. destruct (open_container f) as [v|e]; [|split; [exact Hl|reflexivity]].
  assert (He : exists E, mut_enumerate f = Ok E).
  { pose proof Hl as Hl2. apply layout_ok_iff in Hl2. destruct Hl2 as (c & Hc & ->). eexists. apply (mut_enumerate_flat maxsz). exact Hc. }
  destruct He as (E & He).
  destruct (never_shortens_mut_proof H maxsz f v avail li E Hl (Hw v) Ho He) as (A & B & _). auto.
Qed.

Lemma add_or_renew_on_spec maxsz ns avail li : forall b,
  bucket_ok maxsz b -> (forall v, lease_wf (stored_form H v li)) -> l_owner li <> 0 ->
  bucket_ok maxsz (fst (add_or_renew_on H b ns avail li)) /\
  forall n, abs_bucket (fst (add_or_renew_on H b ns avail li)) n = abs_bucket b n.
Proof.
  induction ns as [|n r IH]; intros b Hb Hw Ho; [split; [exact Hb|reflexivity]|].
  cbn [add_or_renew_on]. destruct (blookup b n) as [f|] eqn:El; [|apply IH; assumption].
  assert (Hf : layout_ok maxsz f = true) by (apply (Hb n f); apply blookup_in; exact El).
  destruct (lease_step_preserves maxsz f avail li Hf Hw Ho) as [Hl' Ha'].
  assert (Hstep : forall f', layout_ok maxsz f' = true -> abs_data f' = abs_data f ->
            bucket_ok maxsz (bset b n f') /\ forall m, abs_bucket (bset b n f') m = abs_bucket b m).
  { intros f' Hlf Haf. split.
    - apply (bucket_ok_bput maxsz b n (Some f')); assumption.
    - intro m. change (bset b n f') with (bput b n (Some f')). rewrite abs_bucket_bput.
      destruct (N.eqb_spec m n) as [->|]; [|reflexivity]. unfold abs_bucket. rewrite El. unfold abs_share. rewrite Haf. reflexivity. }
  destruct (mutfile_add_or_renew H f avail li) as [f'|f' e]; cbn [out_file] in *.
  - destruct (Hstep f' Hl' Ha') as [Hb1 Hab1]. destruct (IH (bset b n f') Hb1 Hw Ho) as [Hb2 Hab2].
    split; [exact Hb2|]. intro m. rewrite Hab2. apply Hab1.
  - cbn [fst]. apply Hstep; assumption.
Qed.

Lemma make_lease_wf nodeid rs cs now v :
  length rs = 32%nat -> length cs = 32%nat -> length nodeid = 20%nat -> (forall s, length (H s) = 32%nat) ->
  now + DEFAULT_RENEWAL_TIME < 2 ^ 32 -> lease_wf (stored_form H v (make_lease_info nodeid rs cs now)).
Proof.
  intros Hr Hc Hn Hh Ht. destruct v; constructor; cbn; auto; lia.
Qed.

(* ---- the request as a whole ---------------------------------------------------------------------------------- *)
Lemma slot_tw_spec sv b we rs cs tw rv renew now :
  468 + s_maxsz sv < 2 ^ 64 -> bucket_ok (s_maxsz sv) b -> NoDup (names tw) ->
  length rs = 32%nat -> length cs = 32%nat -> length (s_nodeid sv) = 20%nat -> (forall s, length (H s) = 32%nat) ->
  now + DEFAULT_RENEWAL_TIME < 2 ^ 32 ->
  if negb (enablers_match b we) then slot_tw H sv b we rs cs tw rv renew now = (b, Err EBadWriteEnabler)
  else if negb (tests_pass b tw) then slot_tw H sv b we rs cs tw rv renew now = (b, Ok (false, ref_reads b rv))
  else if negb (sizes_ok (s_maxsz sv) tw) then slot_tw H sv b we rs cs tw rv renew now = (b, Err EDataTooLarge)
  else exists b' r, slot_tw H sv b we rs cs tw rv renew now = (b', r) /\
                    bucket_ok (s_maxsz sv) b' /\ all_applied b b' tw /\
                    (r = Ok (true, ref_reads b rv) \/ exists e, r = Err e).
Proof.
  intros Hm Hb Hnd Lr Lc Ln Lh Ht. unfold slot_tw.
  rewrite (collect_spec _ b we Hb), (eval_tests_spec _ b tw Hb), (eval_reads_spec _ b rv Hb).
  destruct (enablers_match b we); cbn [negb]; [|reflexivity].
  destruct (tests_pass b tw); cbn [negb]; [|reflexivity].
  destruct (sizes_ok (s_maxsz sv) tw) eqn:Esz; cbn [negb]; [|reflexivity].
  destruct (apply_writes_spec (s_maxsz sv) (mut_header V2 (s_nodeid sv) we) tw b Hm
              (mut_header_ok _ _ _ _) (mut_header_empty _ _ _) Hb Esz Hnd) as (b1 & Ea & Hb1 & Hall).
  rewrite Ea. destruct renew.
  - pose proof (add_or_renew_on_spec (s_maxsz sv) (remaining_shares tw) (s_avail sv)
                  (make_lease_info (s_nodeid sv) rs cs now) b1 Hb1
                  (fun v => make_lease_wf (s_nodeid sv) rs cs now v Lr Lc Ln Lh Ht)) as Hls.
    assert (Ho : l_owner (make_lease_info (s_nodeid sv) rs cs now) <> 0) by (cbn; discriminate).
    specialize (Hls Ho). destruct Hls as [Hb2 Hab2].
    destruct (add_or_renew_on H b1 (remaining_shares tw) (s_avail sv) (make_lease_info (s_nodeid sv) rs cs now)) as [b2 e] eqn:El.
    cbn [fst] in *.
    assert (Hall2 : all_applied b b2 tw).
    { destruct Hall as [Ha1 Ha2]. split; [intros t Hin; rewrite Hab2; apply Ha1; exact Hin|intros n Hn; rewrite Hab2; apply Ha2; exact Hn]. }
    destruct e as [e|]; exists b2; eexists; (split; [reflexivity|]); (split; [exact Hb2|]); (split; [exact Hall2|]).
    + right. eexists. reflexivity.
    + left. reflexivity.
  - exists b1. eexists. split; [reflexivity|]. split; [exact Hb1|]. split; [exact Hall|]. left. reflexivity.
Qed.

Lemma spec_of sv b we rs cs tw rv renew now : request_ok H sv b rs cs tw now ->
  if negb (enablers_match b we) then slot_tw H sv b we rs cs tw rv renew now = (b, Err EBadWriteEnabler)
  else if negb (tests_pass b tw) then slot_tw H sv b we rs cs tw rv renew now = (b, Ok (false, ref_reads b rv))
  else if negb (sizes_ok (s_maxsz sv) tw) then slot_tw H sv b we rs cs tw rv renew now = (b, Err EDataTooLarge)
  else exists b' r, slot_tw H sv b we rs cs tw rv renew now = (b', r) /\
                    bucket_ok (s_maxsz sv) b' /\ all_applied b b' tw /\
                    (r = Ok (true, ref_reads b rv) \/ exists e, r = Err e).
Proof. intros (A & B & C & D & E & F & G & I). apply slot_tw_spec; assumption. Qed.

Lemma all_or_nothing_proof sv b we rs cs tw rv renew now : request_ok H sv b rs cs tw now ->
  let b' := fst (slot_tw H sv b we rs cs tw rv renew now) in
  let r := snd (slot_tw H sv b we rs cs tw rv renew now) in
  (b' = b /\
   ((enablers_match b we = false /\ r = Err EBadWriteEnabler) \/
    (enablers_match b we = true /\ tests_pass b tw = false /\ r = Ok (false, ref_reads b rv)) \/
    (enablers_match b we = true /\ tests_pass b tw = true /\ sizes_ok (s_maxsz sv) tw = false /\ r = Err EDataTooLarge)))
  \/
  (all_applied b b' tw /\ bucket_ok (s_maxsz sv) b' /\
   enablers_match b we = true /\ tests_pass b tw = true /\ sizes_ok (s_maxsz sv) tw = true /\
   (r = Ok (true, ref_reads b rv) \/ exists e, r = Err e)).
Proof.
  intro Hr. pose proof (spec_of sv b we rs cs tw rv renew now Hr) as Hs. cbn zeta.
  destruct (enablers_match b we); cbn [negb] in Hs; [|rewrite Hs; left; cbn; auto].
  destruct (tests_pass b tw); cbn [negb] in Hs; [|rewrite Hs; left; cbn; auto 10].
  destruct (sizes_ok (s_maxsz sv) tw); cbn [negb] in Hs; [|rewrite Hs; left; cbn; auto 10].
  destruct Hs as (b' & r & E & Hb' & Hall & Hres). rewrite E. right. cbn [fst snd]. auto 10.
Qed.

Lemma bad_enabler_changes_nothing_proof sv b we rs cs tw rv renew now n f : request_ok H sv b rs cs tw now ->
  In (n, f) b -> read_write_enabler f <> Ok we ->
  slot_tw H sv b we rs cs tw rv renew now = (b, Err EBadWriteEnabler).
Proof.
  intros Hr Hin Hne. pose proof (spec_of sv b we rs cs tw rv renew now Hr) as Hs.
  assert (Em : enablers_match b we = false) by (apply enablers_match_false; exists n, f; auto).
  rewrite Em in Hs. exact Hs.
Qed.

Lemma failed_test_changes_nothing_proof sv b we rs cs tw rv renew now : request_ok H sv b rs cs tw now ->
  tests_pass b tw = false ->
  fst (slot_tw H sv b we rs cs tw rv renew now) = b /\
  (snd (slot_tw H sv b we rs cs tw rv renew now) = Ok (false, ref_reads b rv) \/
   snd (slot_tw H sv b we rs cs tw rv renew now) = Err EBadWriteEnabler).
Proof.
  intros Hr Ht. pose proof (spec_of sv b we rs cs tw rv renew now Hr) as Hs. rewrite Ht in Hs.
  destruct (enablers_match b we); cbn [negb] in Hs; rewrite Hs; cbn; auto.
Qed.

Lemma reads_reflect_pre_state_proof sv b we rs cs tw rv renew now b' good rd : request_ok H sv b rs cs tw now ->
  slot_tw H sv b we rs cs tw rv renew now = (b', Ok (good, rd)) -> rd = ref_reads b rv.
Proof.
  intros Hr E. pose proof (spec_of sv b we rs cs tw rv renew now Hr) as Hs.
  destruct (enablers_match b we); cbn [negb] in Hs; [|congruence].
  destruct (tests_pass b tw); cbn [negb] in Hs; [|congruence].
  destruct (sizes_ok (s_maxsz sv) tw); cbn [negb] in Hs; [|congruence].
  destruct Hs as (b2 & r & E2 & _ & _ & [Hres|(e & Hres)]); rewrite E in E2; inversion E2; subst; congruence.
Qed.

Lemma oversized_request_changes_nothing_proof sv b we rs cs tw rv renew now : request_ok H sv b rs cs tw now ->
  sizes_ok (s_maxsz sv) tw = false -> fst (slot_tw H sv b we rs cs tw rv renew now) = b.
Proof.
  intros Hr Hz. pose proof (spec_of sv b we rs cs tw rv renew now Hr) as Hs. rewrite Hz in Hs.
  destruct (enablers_match b we); cbn [negb] in Hs; [|rewrite Hs; reflexivity].
  destruct (tests_pass b tw); cbn [negb] in Hs; rewrite Hs; reflexivity.
Qed.

End WithHash.

(* ---- the finding: without the size validation the request is not atomic ------------------------------------ *)
Definition ex_sv : server := mkServer 100 (repeat 9 20) 1000.
Definition ex_we : list N := repeat 7 32.
Definition ex_tw : list twv := [mkTW 0 [] [(0, [1; 2])] None; mkTW 1 [] [(0, [3]); (200, [4])] None; mkTW 2 [] [(0, [5])] None].

Lemma slot_tw_unvalidated_not_atomic_proof :
  exists sv b we tw rv,
    bucket_ok (s_maxsz sv) b /\ NoDup (names tw) /\
    let '(b', r) := slot_tw_unvalidated sv b we tw rv in
    r = Err EDataTooLarge /\
    abs_bucket b' 0 = Some [1; 2] /\        (* share 0: written *)
    abs_bucket b' 1 = Some [3] /\           (* share 1: first vector written, second refused *)
    abs_bucket b' 2 = None.                 (* share 2: never reached *)
Proof.
  exists ex_sv, [], ex_we, ex_tw, []. split; [intros n f []|]. split.
  - cbn. repeat constructor; cbn; intuition discriminate.
  - vm_compute. repeat split.
Qed.
