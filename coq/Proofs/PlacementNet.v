(* C07: each _calculate_mappings call solves a layered flow network; its matched
   entries are exactly the unit flows of the final flow. *)
From Coq Require Import List NArith ZArith Bool Arith Lia.
From Verif Require Import Model.Matching Model.Placement Proofs.Matching Proofs.MatchingLists
     Proofs.MatchingResidual Proofs.MatchingAugment Proofs.MatchingLoop
     Proofs.Placement Proofs.PlacementStruct Proofs.PlacementGraph.
Import ListNotations.

Lemma index_of_inj : forall l x y j, index_of x l = Some j -> index_of y l = Some j -> x = y.
Proof.
  intros l x y j Hx Hy. apply index_of_nth_error in Hx. apply index_of_nth_error in Hy.
  rewrite Hx in Hy. inversion Hy. reflexivity.
Qed.

Lemma In_index_of : forall l x, In x l -> exists j, index_of x l = Some j.
Proof.
  induction l as [|y l IH]; intros x H; [destruct H|]. cbn [index_of].
  destruct (N.eqb x y) eqn:E; [exists 0; reflexivity|].
  destruct H as [H|H]; [subst; rewrite N.eqb_refl in E; discriminate|].
  destruct (IH x H) as [j Hj]. rewrite Hj. exists (S j). reflexivity.
Qed.

Lemma NoDup_indexed_shares : forall base so ho, NoDup ho -> NoDup (indexed_shares base so ho).
Proof.
  intros base so. induction ho as [|s r IH]; intros Hnd; unfold indexed_shares; cbn [flat_map]; [constructor|].
  inversion Hnd as [|x y Hn Hr]; subst. fold (indexed_shares base so r).
  destruct (index_of s so) as [j|] eqn:E; cbn [app]; [|apply IH; exact Hr].
  constructor; [|apply IH; exact Hr].
  intro Hin. apply in_indexed_shares in Hin. destruct Hin as [s' [j' [Hs' [E' Ev]]]].
  assert (j' = j) by lia. subst j'. pose proof (index_of_inj _ _ _ _ E E'). subst s'. contradiction.
Qed.

(* the graph of a phase is a layered network *)
Lemma phase_net : forall po pl so sm g, phase_graph po pl so sm = Some g ->
  Net g (length pl) (length so).
Proof.
  intros po pl so sm g H. destruct (phase_graph_layered _ _ _ _ _ H) as [rows [Eg [Lr Hrows]]]. subst g.
  destruct (layered_adj (length pl) (length so) rows Lr) as [LG [A0 [A1 [A2 A3]]]].
  constructor.
  - exact LG.
  - exact A0.
  - intros i Hi. destruct i as [|k]; [lia|]. assert (Hk : k < length pl) by lia. rewrite (A1 k Hk).
    destruct (nth_error pl k) as [p|] eqn:Ep; [|apply nth_error_None in Ep; lia].
    pose proof (Hrows k p Ep) as Hp. destruct sm as [|e sm'].
    + rewrite Hp. split; [intros s Hs; apply in_seq in Hs; lia | apply seq_NoDup].
    + destruct (peer_row_spec _ _ _ _ _ _ Hp) as [[_ Er]|[held [ho [_ [Eo Er]]]]]; rewrite Er.
      * split; [intros s [] | constructor].
      * split.
        -- intros s Hs. apply in_indexed_shares in Hs. destruct Hs as [s' [j [_ [Ei Ev]]]].
           apply index_of_nth_error in Ei.
           assert (j < length so) by (apply nth_error_Some; rewrite Ei; discriminate). lia.
        -- apply NoDup_indexed_shares. apply (ordered_spec _ _ _ Eo).
  - intros s Hs. replace s with (S (length pl) + (s - S (length pl))) by lia. apply A2. lia.
  - exact A3.
Qed.

Lemma option_all_nth : forall (A B : Type) (h : A -> option B) (l : list A) r j a,
  option_all (map h l) = Some r -> nth_error l j = Some a ->
  exists b, nth_error r j = Some b /\ h a = Some b.
Proof.
  intros A B h. induction l as [|x l IH]; intros r j a H Hj; [destruct j; discriminate|].
  cbn [map option_all] in H. destruct (h x) as [b|] eqn:E; [|discriminate].
  destruct (option_all (map h l)) as [t|] eqn:Et; [|discriminate]. inversion H; subst.
  destruct j as [|j]; cbn [nth_error] in *.
  - inversion Hj; subst. exists b. split; [reflexivity | exact E].
  - apply (IH t j a eq_refl Hj).
Qed.

Lemma nth_error_combine : forall (A B : Type) (l : list A) (r : list B) j a b,
  nth_error l j = Some a -> nth_error r j = Some b -> nth_error (combine l r) j = Some (a, b).
Proof.
  intros A B. induction l as [|x l IH]; intros r j a b Ha Hb; [destruct j; discriminate|].
  destruct r as [|y r]; [destruct j; discriminate|]. destruct j as [|j]; cbn [nth_error combine] in *.
  - inversion Ha; inversion Hb; subst. reflexivity.
  - apply IH; assumption.
Qed.

Lemma nth_error_seq_Some : forall b n j, j < n -> nth_error (seq b n) j = Some (b + j).
Proof.
  intros b n. revert b. induction n as [|n IH]; intros b j H; [lia|].
  destruct j as [|j]; cbn [seq nth_error]; [f_equal; lia|]. rewrite IH by lia. f_equal. lia.
Qed.

(* everything one needs to know about a finished phase *)
Record phase_facts (po : phase_order) (P Sh : list N) (sm : smap) (pr : phase_result)
       (pl so : list N) (g : graph) : Prop := {
  pf_pl : ordered (po_peers po P) P = Some pl;
  pf_so : ordered (po_shares po Sh) Sh = Some so;
  pf_graph : phase_graph po pl so sm = Some g;
  pf_net : Net g (length pl) (length so);
  pf_final : final_state g (length pl) (length so) (pr_flow pr) (pr_residual pr);
  pf_keys : map fst (pr_mappings pr) = so;
  (* a matched entry is a unit flow *)
  pf_entry : forall s p, In (s, Some p) (pr_mappings pr) ->
             exists i j, nth_error pl i = Some p /\ nth_error so j = Some s /\
                         In (S i, S (length pl) + j) (flow_matching g (length pl) (pr_flow pr));
  (* a unit flow is a matched entry *)
  pf_flow : forall v si, In (v, si) (flow_matching g (length pl) (pr_flow pr)) ->
            exists i j p s, v = S i /\ si = S (length pl) + j /\ nth_error pl i = Some p /\
                            nth_error so j = Some s /\ In (s, Some p) (pr_mappings pr)
}.

Lemma cm_facts : forall po P Sh sm pr, calculate_mappings po P Sh sm = Some pr ->
  exists pl so g, phase_facts po P Sh sm pr pl so g.
Proof.
  intros po P Sh sm pr H.
  destruct (cm_inv _ _ _ _ _ H) as [pl [so [g [mg [E1 [E2 [E3 [E4 [E5 [E6 E7]]]]]]]]]].
  destruct (cm_keys _ _ _ _ _ H) as [K1 _].
  pose proof (phase_net _ _ _ _ _ E3) as HN.
  destruct (cmg_inv _ _ _ _ _ _ E4) as [Hmf [rs [Er Em]]].
  pose proof (max_flow_spec g _ _ HN _ _ _ Hmf) as HF.
  exists pl, so, g. constructor; try assumption.
  - rewrite K1. exact E7.
  - intros s p Hin.
    destruct (cm_entry _ _ _ _ _ _ _ H Hin) as (pl' & so' & g' & rows & i & j & f & rg & cf & F1 & F2 & F3 & F4 & F5 & _ & Hi & Hj & _ & Ef & _ & _ & Hrow & Hf).
    rewrite E1 in F1. inversion F1; subst pl'. rewrite E2 in F2. inversion F2; subst so'.
    rewrite E3 in F3. injection F3 as F3. subst g'.
    exists i, j. split; [exact Hi|]. split; [exact Hj|].
    assert (Hilt : i < length pl) by (apply nth_error_Some; rewrite Hi; discriminate).
    apply (proj2 (in_flow_matching g (length pl) (length so) (pr_flow pr) (S i) (S (length pl) + j))). split; [unfold server; lia|]. split.
    + unfold E. rewrite F4. destruct (layered_adj (length pl) (length so) rows F5) as [_ [_ [A1 _]]].
      rewrite (A1 i Hilt). exact Hrow.
    + rewrite Ef. exact Hf.
  - intros v si Hin. apply (proj1 (in_flow_matching g (length pl) (length so) (pr_flow pr) v si)) in Hin. destruct Hin as [Hv [He Hf]].
    destruct HF as [HI [[cf Hres] _]].
    (* si is a share vertex *)
    destruct (E_cases g _ _ HN v si He) as [[E0 _]|[[_ Hsh]|[Hsh _]]];
      [unfold server in Hv; lia | | unfold server, share in *; lia].
    destruct v as [|i]; [unfold server in Hv; lia|].
    assert (Hilt : i < length pl) by (unfold server in Hv; lia).
    set (j := si - S (length pl)).
    assert (Hjlt : j < length so) by (unfold j, share in *; lia).
    assert (Esi : si = S (length pl) + j) by (unfold j, share in *; lia).
    destruct (nth_error pl i) as [p|] eqn:Ep; [|apply nth_error_None in Ep; lia].
    destruct (nth_error so j) as [s|] eqn:Es; [|apply nth_error_None in Es; lia].
    exists i, j, p, s. split; [reflexivity|]. split; [exact Esi|]. split; [exact Ep|]. split; [exact Es|].
    (* entry j of the mapping *)
    assert (Hsis : nth_error (seq (S (length pl)) (length so)) j = Some si) by (rewrite Esi; apply nth_error_seq_Some; exact Hjlt).
    destruct (option_all_nth _ _ _ _ _ _ _ Er Hsis) as [r [Hr Hsr]].
    assert (Hmg : nth_error (combine so mg) j = Some (s, (si, r))).
    { apply nth_error_combine; [exact Es|]. subst mg. apply nth_error_combine; assumption. }
    destruct (option_all_nth _ _ _ _ _ _ _ E5 Hmg) as [m [Hm Hc]]. cbn [fst snd] in Hc.
    assert (Hmin : In m (pr_mappings pr)) by (eapply nth_error_In; exact Hm).
    (* the residual adjacency of si contains S i *)
    destruct (residual_network_spec g _ _ _ (net_upward g _ _ HN) Hres) as [_ [Hadj _]].
    assert (Hres_e : In (S i) (adj (pr_residual pr) si)) by (apply Hadj; right; split; assumption).
    (* so share_result is Some (Some x) with x a server carrying flow into si: x = S i *)
    unfold share_result in Hsr. destruct (adj (pr_residual pr) si) as [|x rest] eqn:Ea; [destruct Hres_e|].
    assert (Hx : r = Some x -> m = (s, Some p)).
    { intros ->. unfold convert_one in Hc. destruct x as [|x']; [discriminate|].
      destruct (nth_error pl x') as [q|] eqn:Eq; [|discriminate]. inversion Hc; subst m.
      assert (Hxin : In (S x') (adj (pr_residual pr) si)) by (rewrite Ea; left; reflexivity).
      apply Hadj in Hxin. destruct Hxin as [[He' _]|[He' Hf']].
      - exfalso. destruct (E_cases g _ _ HN _ _ He') as [[E0 _]|[[Hs1 _]|[_ Et]]];
          [unfold share in Hsh; lia | unfold server, share in *; lia |].
        assert (x' < length pl) by (apply nth_error_Some; rewrite Eq; discriminate). lia.
      - assert (Hsx : server (length pl) (S x')).
        { assert (x' < length pl) by (apply nth_error_Some; rewrite Eq; discriminate). unfold server. lia. }
        pose proof (inv_in _ _ _ _ HI si (S x') (S i) He' He Hsx Hv Hf' Hf) as Exi. inversion Exi; subst x'.
        rewrite Ep in Eq. inversion Eq; subst q. reflexivity. }
    destruct rest as [|y rest'].
    + assert (Hxi : x = S i) by (destruct Hres_e as [Hx'|[]]; exact Hx').
      assert (Hne : Nat.eqb x (length g - 1) = false).
      { apply Nat.eqb_neq. rewrite (net_len _ _ _ HN). lia. }
      rewrite Hne in Hsr. inversion Hsr; subst r. rewrite <- (Hx eq_refl). exact Hmin.
    + inversion Hsr; subst r. rewrite <- (Hx eq_refl). exact Hmin.
Qed.
