(* C06, part 3: the encoder.  Invariant of Encoder.servermap / landlords / the abort log under _remove_shareholder,
   for every sequence of write and close answers. *)
From Coq Require Import List NArith ZArith Bool Lia.
From Verif Require Import Model.Matching Proofs.Matching Model.UploadSel Proofs.UploadSelBase.
Import ListNotations.
Local Open Scope N_scope.

(* ---------------------------------------------------------------- landlords *)
Lemma ll_get_In : forall sh l p, ll_get sh l = Some p -> In (sh, p) l.
Proof.
  intros sh l p. induction l as [|[s q] r IH]; cbn [ll_get]; [discriminate|].
  destruct (N.eqb sh s) eqn:E.
  - apply N.eqb_eq in E. subst s. intros H. inversion H; subst. left; reflexivity.
  - intros H. right. apply IH. exact H.
Qed.

Lemma ll_get_None : forall sh l, ll_get sh l = None -> ~ In sh (map fst l).
Proof.
  intros sh l. induction l as [|[s q] r IH]; cbn [ll_get map fst In]; [tauto|].
  destruct (N.eqb sh s) eqn:E; [discriminate|]. intros H [->|H']; [rewrite N.eqb_refl in E; discriminate|exact (IH H H')].
Qed.

Lemma NoDup_keys_unique : forall (l : landlords) s p q, NoDup (map fst l) -> In (s, p) l -> In (s, q) l -> p = q.
Proof.
  induction l as [|[s0 p0] r IH]; intros s p q Hnd Hp Hq; [destruct Hp|].
  cbn [map fst] in Hnd. inversion Hnd as [|? ? Hn Hr]; subst.
  destruct Hp as [Ep|Hp]; destruct Hq as [Eq|Hq].
  - congruence.
  - inversion Ep; subst. exfalso. apply Hn. apply in_map_iff. exists (s, q). auto.
  - inversion Eq; subst. exfalso. apply Hn. apply in_map_iff. exists (s, p). auto.
  - eapply IH; eassumption.
Qed.

Lemma In_ll_remove : forall sh l s p, In (s, p) (ll_remove sh l) <-> In (s, p) l /\ s <> sh.
Proof.
  intros sh l s p. unfold ll_remove. rewrite filter_In. cbn [fst]. split.
  - intros [H E]. split; [exact H|]. intros ->. rewrite N.eqb_refl in E. discriminate.
  - intros [H E]. split; [exact H|]. destruct (N.eqb sh s) eqn:F; [apply N.eqb_eq in F; congruence|reflexivity].
Qed.

Lemma NoDup_map_filter : forall (A B : Type) (f : A -> B) (g : A -> bool) (l : list A),
  NoDup (map f l) -> NoDup (map f (filter g l)).
Proof.
  intros A B f g l. induction l as [|a r IH]; cbn [map filter]; [auto|].
  intros H. inversion H as [|? ? Hn Hr]; subst. destruct (g a); cbn [map]; [|apply IH; exact Hr].
  constructor; [|apply IH; exact Hr]. intros Hin. apply Hn. apply in_map_iff in Hin. destruct Hin as [b [E Hb]].
  apply in_map_iff. exists b. split; [exact E|]. apply filter_In in Hb. tauto.
Qed.

(* ---------------------------------------------------------------- dicts with distinct keys *)
Lemma dm_add_keys : forall k v m x, In x (map fst (dm_add k v m)) <-> x = k \/ In x (map fst m).
Proof.
  intros k v m x. induction m as [|[q l] r IH]; cbn [dm_add map fst In].
  - split; [intros [H|[]]; left; auto|intros [H|[]]; left; auto].
  - destruct (N.eqb k q) eqn:E.
    + apply N.eqb_eq in E. subst q. cbn [map fst In]. split; [intros [H|H]; auto|intros [H|[H|H]]; auto].
    + cbn [map fst In]. rewrite IH. tauto.
Qed.

Lemma dm_add_nodup : forall k v m, NoDup (map fst m) -> NoDup (map fst (dm_add k v m)).
Proof.
  intros k v m. induction m as [|[q l] r IH]; cbn [dm_add map fst]; intros H.
  - constructor; [intros []|constructor].
  - inversion H as [|? ? Hn Hr]; subst. destruct (N.eqb k q) eqn:E; cbn [map fst].
    + constructor; assumption.
    + constructor; [|apply IH; exact Hr]. rewrite dm_add_keys. intros [->|H']; [rewrite N.eqb_refl in E; discriminate|exact (Hn H')].
Qed.

Lemma fold_dm_add_nodup : forall (A : Type) (f : dmap -> A -> dmap) (l : list A) (m : dmap),
  (forall m a, NoDup (map fst m) -> NoDup (map fst (f m a))) -> NoDup (map fst m) -> NoDup (map fst (fold_left f l m)).
Proof. intros A f l. induction l as [|a l IH]; intros m Hf H; cbn [fold_left]; [exact H|]. apply IH; [exact Hf|apply Hf; exact H]. Qed.

Lemma transpose_nodup : forall m, NoDup (map fst (transpose m)).
Proof.
  intros m. unfold transpose. apply fold_dm_add_nodup; [|constructor].
  intros acc e H. apply fold_dm_add_nodup; [|exact H]. intros a s Ha. apply dm_add_nodup. exact Ha.
Qed.

Lemma merged_nodup : forall st, NoDup (map fst (merged st)).
Proof.
  intros st. unfold merged. apply fold_dm_add_nodup; [|apply transpose_nodup].
  intros acc p H. apply fold_dm_add_nodup; [|exact H]. intros a s Ha. apply dm_add_nodup. exact Ha.
Qed.

Lemma dm_remove_keys : forall k v m x, In x (map fst (dm_remove k v m)) -> In x (map fst m).
Proof.
  intros k v m x. induction m as [|[q l] r IH]; cbn [dm_remove map fst In]; [tauto|].
  destruct (N.eqb k q).
  - destruct (is_nil (set_remove v l)); cbn [map fst In]; tauto.
  - cbn [map fst In]. intros [H|H]; [left; exact H|right; apply IH; exact H].
Qed.

Lemma dm_remove_nodup : forall k v m, NoDup (map fst m) -> NoDup (map fst (dm_remove k v m)).
Proof.
  intros k v m. induction m as [|[q l] r IH]; cbn [dm_remove map fst]; intros H; [constructor|].
  inversion H as [|? ? Hn Hr]; subst. destruct (N.eqb k q).
  - destruct (is_nil (set_remove v l)); cbn [map fst]; [exact Hr|constructor; assumption].
  - cbn [map fst]. constructor; [|apply IH; exact Hr]. intros H'. apply Hn. eapply dm_remove_keys; exact H'.
Qed.

Lemma dm_in_key : forall m k v, dm_in m k v -> In k (map fst m).
Proof. intros m k v [l [H _]]. apply in_map_iff. exists (k, l). auto. Qed.

(* the removed edge is gone *)
Lemma dm_in_remove_strong : forall k v m k' v',
  NoDup (map fst m) -> dm_in (dm_remove k v m) k' v' -> dm_in m k' v' /\ ~ (k' = k /\ v' = v).
Proof.
  intros k v m k' v'. induction m as [|[q l] r IH]; cbn [dm_remove map fst]; intros Hnd H.
  - exfalso; exact (dm_in_nil _ _ H).
  - inversion Hnd as [|? ? Hn Hr]; subst. destruct (N.eqb k q) eqn:E.
    + apply N.eqb_eq in E. subst q. destruct (is_nil (set_remove v l)) eqn:F.
      * split; [apply dm_in_cons; right; exact H|]. intros [-> _]. apply Hn. eapply dm_in_key; exact H.
      * apply dm_in_cons in H. destruct H as [[-> H]|H].
        -- apply In_set_remove in H. split; [apply dm_in_cons; left; tauto|tauto].
        -- split; [apply dm_in_cons; right; exact H|]. intros [-> _]. apply Hn. eapply dm_in_key; exact H.
    + apply dm_in_cons in H. destruct H as [[-> H]|H].
      * split; [apply dm_in_cons; left; auto|]. intros [-> _]. rewrite N.eqb_refl in E. discriminate.
      * destruct (IH Hr H) as [H1 H2]. split; [apply dm_in_cons; right; exact H1|exact H2].
Qed.

(* ---------------------------------------------------------------- the invariant *)
Section EncoderInvariant.
  Variable happy : Z.
  Variable E : dmap.               (* already_serverids: share -> servers *)
  Variable B : list bucket.        (* the buckets handed to the encoder *)

  Definition enc_inv (e : enc) : Prop :=
    (forall s p, dm_in (e_servermap e) s p -> dm_in E s p \/ In (s, p) (e_landlords e)) /\
    NoDup (map fst (e_servermap e)) /\
    (forall s p, In (s, p) (e_landlords e) -> In (p, s) B) /\
    NoDup (map fst (e_landlords e)) /\
    (e_raised e = false -> exists h, servers_of_happiness (e_servermap e) = Some h /\ (happy <= h)%Z) /\
    (forall p s, In (p, s) B -> In (s, p) (e_landlords e) \/ In ((p, s), OpAbort) (e_log e)) /\
    (e_raised e = true -> forall s p, In (s, p) (e_landlords e) -> In ((p, s), OpAbort) (e_log e)) /\
    (e_raised e = false -> forall s p, In (s, p) (e_landlords e) -> ~ In ((p, s), OpAbort) (e_log e)).

  Lemma In_err_aborts : forall l s p, In (s, p) l -> In ((p, s), OpAbort) (err_aborts l).
  Proof. intros l s p H. unfold err_aborts. apply in_map_iff. exists (s, p). auto. Qed.

  Lemma remove_shareholder_inv : forall sh e e',
    remove_shareholder happy sh e = Some e' -> enc_inv e -> enc_inv e'.
  Proof.
    intros sh e e' R (I1 & I2 & I3 & I4 & I5 & I6 & I7 & I8). unfold remove_shareholder in R.
    (* the state after the removal proper *)
    set (e1 := match ll_get sh (e_landlords e) with
               | Some p => {| e_landlords := ll_remove sh (e_landlords e); e_servermap := dm_remove sh p (e_servermap e);
                              e_log := e_log e ++ [((p, sh), OpAbort)]; e_raised := e_raised e |}
               | None => e end) in *.
    assert (J : (forall s p, dm_in (e_servermap e1) s p -> dm_in E s p \/ In (s, p) (e_landlords e1)) /\
                NoDup (map fst (e_servermap e1)) /\
                (forall s p, In (s, p) (e_landlords e1) -> In (s, p) (e_landlords e)) /\
                NoDup (map fst (e_landlords e1)) /\
                (forall p s, In (p, s) B -> In (s, p) (e_landlords e1) \/ In ((p, s), OpAbort) (e_log e1)) /\
                (forall x, In x (e_log e) -> In x (e_log e1)) /\
                e_raised e1 = e_raised e /\
                (e_raised e = false -> forall s p, In (s, p) (e_landlords e1) -> ~ In ((p, s), OpAbort) (e_log e1))).
    { subst e1. destruct (ll_get sh (e_landlords e)) as [p|] eqn:G; cbn [e_landlords e_servermap e_log e_raised].
      - pose proof (ll_get_In _ _ _ G) as Hin.
        split; [|split; [|split; [|split; [|split; [|split; [|split; [reflexivity|]]]]]]].
        + intros s q H. destruct (dm_in_remove_strong _ _ _ _ _ I2 H) as [H1 H2].
          destruct (I1 _ _ H1) as [H3|H3]; [left; exact H3|]. right. apply In_ll_remove. split; [exact H3|].
          intros ->. apply H2. split; [reflexivity|]. eapply NoDup_keys_unique; eassumption.
        + apply dm_remove_nodup. exact I2.
        + intros s q H. apply In_ll_remove in H. tauto.
        + unfold ll_remove. apply NoDup_map_filter. exact I4.
        + intros q s H. destruct (I6 _ _ H) as [H1|H1].
          * destruct (N.eq_dec s sh) as [->|Hne].
            -- right. apply in_or_app. right. left. f_equal. f_equal. eapply NoDup_keys_unique; eassumption.
            -- left. apply In_ll_remove. auto.
          * right. apply in_or_app. left. exact H1.
        + intros x H. apply in_or_app. left. exact H.
        + intros Hr s q H Hab. apply In_ll_remove in H. destruct H as [H Hne].
          apply in_app_or in Hab. destruct Hab as [Hab|[Hab|[]]]; [exact (I8 Hr _ _ H Hab)|]. inversion Hab; subst. congruence.
      - split; [exact I1|]. split; [exact I2|]. split; [auto|]. split; [exact I4|]. split; [exact I6|]. split; [auto|].
        split; [reflexivity|exact I8]. }
    destruct J as (J1 & J2 & J3 & J4 & J6 & JL & JR & J8).
    destruct (servers_of_happiness (e_servermap e1)) as [h|] eqn:S; [|discriminate].
    destruct (Z.ltb h happy) eqn:L.
    - inversion R; subst e'; clear R. unfold enc_inv. cbn [e_landlords e_servermap e_log e_raised].
      split; [exact J1|]. split; [exact J2|].
      split; [intros s p H; apply I3; apply J3; exact H|]. split; [exact J4|].
      split; [discriminate|].
      split; [|split; [|discriminate]].
      + intros p s H. destruct (J6 _ _ H) as [H1|H1]; [left; exact H1|right].
        destruct (e_raised e1); [exact H1|apply in_or_app; left; exact H1].
      + intros _ s p H. destruct (e_raised e1) eqn:R1.
        * apply JL. apply I7; [congruence|apply J3; exact H].
        * apply in_or_app. right. apply In_err_aborts. exact H.
    - inversion R; subst e'; clear R. unfold enc_inv.
      split; [exact J1|]. split; [exact J2|].
      split; [intros s p H; apply I3; apply J3; exact H|]. split; [exact J4|].
      split; [intros _; exists h; split; [exact S|apply Z.ltb_ge in L; exact L]|].
      split; [exact J6|].
      split.
      + intros Hr s p H. apply JL. apply I7; [congruence|apply J3; exact H].
      + intros Hr. apply J8. congruence.
  Qed.

  (* landlords only shrink, the log only grows *)
  Lemma remove_shareholder_mono : forall sh e e',
    remove_shareholder happy sh e = Some e' ->
    (forall x, In x (e_landlords e') -> In x (e_landlords e)) /\ (forall x, In x (e_log e) -> In x (e_log e')) /\
    ~ In sh (map fst (e_landlords e')) /\ (e_raised e = true -> e_raised e' = true).
  Proof.
    intros sh e e' R. unfold remove_shareholder in R.
    set (e1 := match ll_get sh (e_landlords e) with
               | Some p => {| e_landlords := ll_remove sh (e_landlords e); e_servermap := dm_remove sh p (e_servermap e);
                              e_log := e_log e ++ [((p, sh), OpAbort)]; e_raised := e_raised e |}
               | None => e end) in *.
    assert (J : (forall x, In x (e_landlords e1) -> In x (e_landlords e)) /\ (forall x, In x (e_log e) -> In x (e_log e1)) /\
                ~ In sh (map fst (e_landlords e1)) /\ e_raised e1 = e_raised e).
    { subst e1. destruct (ll_get sh (e_landlords e)) as [p|] eqn:G; cbn [e_landlords e_log e_raised].
      - repeat split.
        + intros [s q] H. apply In_ll_remove in H. tauto.
        + intros x H. apply in_or_app. left; exact H.
        + intros H. apply in_map_iff in H. destruct H as [[s q] [Es H]]. cbn in Es. subst s. apply In_ll_remove in H. tauto.
      - repeat split; auto. apply ll_get_None. exact G. }
    destruct J as (J1 & J2 & J3 & J4).
    destruct (servers_of_happiness (e_servermap e1)) as [h|]; [|discriminate].
    destruct (Z.ltb h happy); inversion R; subst e'; clear R; cbn [e_landlords e_log e_raised]; repeat split; auto.
    - intros x H. destruct (e_raised e1); [auto|apply in_or_app; left; auto].
    - intros Hr. rewrite J4. exact Hr.
  Qed.
End EncoderInvariant.

(* ---------------------------------------------------------------- answers of a round *)
Fixpoint lookup_w (sh : N) (resps : list (N * wresp)) : option wresp :=
  match resps with
  | [] => None
  | (s, r) :: rest => if N.eqb sh s then Some r else lookup_w sh rest
  end.

Lemma remove_shareholder_keeps_others : forall happy sh e e' s p,
  remove_shareholder happy sh e = Some e' -> In (s, p) (e_landlords e) -> s <> sh -> In (s, p) (e_landlords e').
Proof.
  intros happy sh e e' s p R H Hne. unfold remove_shareholder in R.
  set (e1 := match ll_get sh (e_landlords e) with
             | Some p => {| e_landlords := ll_remove sh (e_landlords e); e_servermap := dm_remove sh p (e_servermap e);
                            e_log := e_log e ++ [((p, sh), OpAbort)]; e_raised := e_raised e |}
             | None => e end) in *.
  assert (J : In (s, p) (e_landlords e1)).
  { subst e1. destruct (ll_get sh (e_landlords e)); cbn [e_landlords]; [apply In_ll_remove; auto|exact H]. }
  destruct (servers_of_happiness (e_servermap e1)) as [h|]; [|discriminate].
  destruct (Z.ltb h happy); inversion R; subst e'; exact J.
Qed.

(* the only requests a failing answer adds to the log are aborts *)
Lemma remove_shareholder_log : forall happy sh e e' x,
  remove_shareholder happy sh e = Some e' -> In x (e_log e') -> In x (e_log e) \/ snd x = OpAbort.
Proof.
  intros happy sh e e' x R H. unfold remove_shareholder in R.
  set (e1 := match ll_get sh (e_landlords e) with
             | Some p => {| e_landlords := ll_remove sh (e_landlords e); e_servermap := dm_remove sh p (e_servermap e);
                            e_log := e_log e ++ [((p, sh), OpAbort)]; e_raised := e_raised e |}
             | None => e end) in *.
  assert (J : forall y, In y (e_log e1) -> In y (e_log e) \/ snd y = OpAbort).
  { subst e1. destruct (ll_get sh (e_landlords e)); cbn [e_log]; [|auto].
    intros y Hy. apply in_app_or in Hy. destruct Hy as [Hy|[<-|[]]]; [left; exact Hy|right; reflexivity]. }
  destruct (servers_of_happiness (e_servermap e1)) as [h|]; [|discriminate].
  destruct (Z.ltb h happy); inversion R; subst e'; clear R; cbn [e_log] in H; [|apply J; exact H].
  destruct (e_raised e1); [apply J; exact H|]. apply in_app_or in H. destruct H as [H|H]; [apply J; exact H|].
  right. unfold err_aborts in H. apply in_map_iff in H. destruct H as [y [<- _]]. reflexivity.
Qed.

Section Rounds.
  Variable happy : Z.
  Variable E : dmap.
  Variable B : list bucket.

  Definition step_facts (e e' : enc) : Prop :=
    enc_inv happy E B e' /\
    (forall x, In x (e_landlords e') -> In x (e_landlords e)) /\
    (forall x, In x (e_log e) -> In x (e_log e')) /\
    (forall x, In x (e_log e') -> In x (e_log e) \/ snd x = OpAbort) /\
    (e_raised e = true -> e_raised e' = true).

  Lemma step_facts_refl : forall e, enc_inv happy E B e -> step_facts e e.
  Proof. intros e H. split; [exact H|]. split; [auto|]. split; [auto|]. split; [auto|auto]. Qed.

  Lemma step_facts_trans : forall a b c, step_facts a b -> step_facts b c -> step_facts a c.
  Proof.
    intros a b c (A1 & A2 & A3 & A4 & A5) (B1 & B2 & B3 & B4 & B5). split; [exact B1|]. split; [auto|]. split; [auto|]. split; [|auto].
    intros x H. destruct (B4 _ H) as [H'|H']; [apply A4; exact H'|right; exact H'].
  Qed.

  Lemma remove_shareholder_facts : forall sh e e',
    remove_shareholder happy sh e = Some e' -> enc_inv happy E B e -> step_facts e e'.
  Proof.
    intros sh e e' R I. destruct (remove_shareholder_mono happy sh e e' R) as (M1 & M2 & M3 & M4).
    split; [eapply remove_shareholder_inv; eassumption|]. split; [exact M1|]. split; [exact M2|]. split; [|exact M4].
    intros x. eapply remove_shareholder_log; exact R.
  Qed.

  Lemma write_answers_facts : forall resps pending e e' pending',
    write_answers happy resps pending e = Some (e', pending') -> enc_inv happy E B e ->
    step_facts e e' /\
    (forall s, In s pending -> lookup_w s resps = Some WErr -> ~ In s (map fst (e_landlords e'))) /\
    (forall s p, In (s, p) (e_landlords e) -> (In s pending -> lookup_w s resps <> Some WErr) -> In (s, p) (e_landlords e')) /\
    (forall s, In s pending' -> In s pending /\ lookup_w s resps = None).
  Proof.
    induction resps as [|[sh r] rest IH]; intros pending e e' pending' W I; cbn [write_answers] in W.
    - inversion W; subst. split; [apply step_facts_refl; exact I|]. split; [intros s _ H; discriminate|]. split; auto.
    - destruct (memN sh pending) eqn:M.
      + assert (Hsh : In sh pending) by (apply memN_In; exact M).
        destruct r.
        * destruct (IH _ _ _ _ W I) as (F & G1 & G2 & G3). split; [exact F|]. split; [|split].
          -- intros s Hs L. cbn [lookup_w] in L. destruct (N.eqb s sh) eqn:Es; [discriminate|].
             apply G1; [|exact L]. apply In_set_remove. split; [exact Hs|]. intros ->. rewrite N.eqb_refl in Es. discriminate.
          -- intros s p Hl Hk. apply G2; [exact Hl|]. intros Hs. apply In_set_remove in Hs. destruct Hs as [Hs Hne].
             specialize (Hk Hs). cbn [lookup_w] in Hk. destruct (N.eqb s sh) eqn:Es; [apply N.eqb_eq in Es; congruence|exact Hk].
          -- intros s Hs. destruct (G3 _ Hs) as [H1 H2]. apply In_set_remove in H1. destruct H1 as [H1 Hne]. split; [exact H1|].
             cbn [lookup_w]. destruct (N.eqb s sh) eqn:Es; [apply N.eqb_eq in Es; congruence|exact H2].
        * destruct (remove_shareholder happy sh e) as [e1|] eqn:R; [|discriminate].
          pose proof (remove_shareholder_facts _ _ _ R I) as F1.
          destruct (remove_shareholder_mono happy sh e e1 R) as (_ & _ & M3 & _).
          destruct (IH _ _ _ _ W (proj1 F1)) as (F & G1 & G2 & G3).
          split; [eapply step_facts_trans; eassumption|]. split; [|split].
          -- intros s Hs L. cbn [lookup_w] in L. destruct (N.eqb s sh) eqn:Es.
             ++ apply N.eqb_eq in Es. subst s. intros Hin. apply M3. apply in_map_iff in Hin. destruct Hin as [y [Ey Hy]].
                apply in_map_iff. exists y. split; [exact Ey|]. destruct F as (_ & F2 & _). apply F2. exact Hy.
             ++ apply G1; [|exact L]. apply In_set_remove. split; [exact Hs|]. intros ->. rewrite N.eqb_refl in Es. discriminate.
          -- intros s p Hl Hk. destruct (N.eq_dec s sh) as [->|Hne].
             ++ exfalso. apply (Hk Hsh). cbn [lookup_w]. rewrite N.eqb_refl. reflexivity.
             ++ apply G2; [eapply remove_shareholder_keeps_others; eassumption|].
                intros Hs. apply In_set_remove in Hs. destruct Hs as [Hs _]. specialize (Hk Hs). cbn [lookup_w] in Hk.
                destruct (N.eqb s sh) eqn:Es; [apply N.eqb_eq in Es; congruence|exact Hk].
          -- intros s Hs. destruct (G3 _ Hs) as [H1 H2]. apply In_set_remove in H1. destruct H1 as [H1 Hne]. split; [exact H1|].
             cbn [lookup_w]. destruct (N.eqb s sh) eqn:Es; [apply N.eqb_eq in Es; congruence|exact H2].
      + assert (Hsh : ~ In sh pending) by (intros H; apply memN_In in H; congruence).
        destruct (IH _ _ _ _ W I) as (F & G1 & G2 & G3). split; [exact F|]. split; [|split].
        * intros s Hs L. cbn [lookup_w] in L. destruct (N.eqb s sh) eqn:Es; [apply N.eqb_eq in Es; congruence|]. apply G1; assumption.
        * intros s p Hl Hk. apply G2; [exact Hl|]. intros Hs. specialize (Hk Hs). cbn [lookup_w] in Hk.
          destruct (N.eqb s sh) eqn:Es; [apply N.eqb_eq in Es; congruence|exact Hk].
        * intros s Hs. destruct (G3 _ Hs) as [H1 H2]. split; [exact H1|]. cbn [lookup_w].
          destruct (N.eqb s sh) eqn:Es; [apply N.eqb_eq in Es; congruence|exact H2].
  Qed.

  Lemma close_answers_facts : forall resps pending e e' pending',
    close_answers happy resps pending e = Some (e', pending') -> enc_inv happy E B e ->
    step_facts e e' /\
    (forall s r, In s pending -> lookup_c s resps = Some r -> r <> COk -> ~ In s (map fst (e_landlords e'))) /\
    (forall s p, In (s, p) (e_landlords e) -> (In s pending -> lookup_c s resps = Some COk \/ lookup_c s resps = None) -> In (s, p) (e_landlords e')) /\
    (forall s, In s pending' -> In s pending /\ lookup_c s resps = None) /\
    (forall s, In s pending -> lookup_c s resps = None -> In s pending').
  Proof.
    induction resps as [|[sh r] rest IH]; intros pending e e' pending' W I; cbn [close_answers] in W.
    - inversion W; subst. split; [apply step_facts_refl; exact I|]. split; [intros s r _ H; discriminate|]. split; [auto|]. split; auto.
    - destruct (memN sh pending) eqn:M.
      + assert (Hsh : In sh pending) by (apply memN_In; exact M).
        assert (Hok : r = COk \/ r <> COk) by (destruct r; [left; reflexivity|right; discriminate|right; discriminate]).
        destruct Hok as [->|Hbad].
        * destruct (IH _ _ _ _ W I) as (F & G1 & G2 & G3 & G4). split; [exact F|]. split; [|split; [|split]].
          4:{ intros s Hs L. cbn [lookup_c] in L. destruct (N.eqb s sh) eqn:Es; [discriminate|]. apply G4; [|exact L].
              apply In_set_remove. split; [exact Hs|]. intros ->. rewrite N.eqb_refl in Es. discriminate. }
          -- intros s r Hs L Hr. cbn [lookup_c] in L. destruct (N.eqb s sh) eqn:Es; [inversion L; subst; congruence|].
             eapply G1; [|exact L|exact Hr]. apply In_set_remove. split; [exact Hs|]. intros ->. rewrite N.eqb_refl in Es. discriminate.
          -- intros s p Hl Hk. apply G2; [exact Hl|]. intros Hs. apply In_set_remove in Hs. destruct Hs as [Hs Hne].
             specialize (Hk Hs). cbn [lookup_c] in Hk. destruct (N.eqb s sh) eqn:Es; [apply N.eqb_eq in Es; congruence|exact Hk].
          -- intros s Hs. destruct (G3 _ Hs) as [H1 H2]. apply In_set_remove in H1. destruct H1 as [H1 Hne]. split; [exact H1|].
             cbn [lookup_c]. destruct (N.eqb s sh) eqn:Es; [apply N.eqb_eq in Es; congruence|exact H2].
        * assert (W' : match remove_shareholder happy sh e with
                       | None => None
                       | Some e1 => close_answers happy rest (set_remove sh pending) e1 end = Some (e', pending'))
            by (destruct r; [congruence|exact W|exact W]).
          clear W. destruct (remove_shareholder happy sh e) as [e1|] eqn:R; [|discriminate].
          pose proof (remove_shareholder_facts _ _ _ R I) as F1.
          destruct (remove_shareholder_mono happy sh e e1 R) as (_ & _ & M3 & _).
          destruct (IH _ _ _ _ W' (proj1 F1)) as (F & G1 & G2 & G3 & G4).
          split; [eapply step_facts_trans; eassumption|]. split; [|split; [|split]].
          4:{ intros s Hs L. cbn [lookup_c] in L. destruct (N.eqb s sh) eqn:Es; [discriminate|]. apply G4; [|exact L].
              apply In_set_remove. split; [exact Hs|]. intros ->. rewrite N.eqb_refl in Es. discriminate. }
          -- intros s r0 Hs L Hr. cbn [lookup_c] in L. destruct (N.eqb s sh) eqn:Es.
             ++ apply N.eqb_eq in Es. subst s. intros Hin. apply M3. apply in_map_iff in Hin. destruct Hin as [y [Ey Hy]].
                apply in_map_iff. exists y. split; [exact Ey|]. destruct F as (_ & F2 & _). apply F2. exact Hy.
             ++ eapply G1; [|exact L|exact Hr]. apply In_set_remove. split; [exact Hs|]. intros ->. rewrite N.eqb_refl in Es. discriminate.
          -- intros s p Hl Hk. destruct (N.eq_dec s sh) as [->|Hne].
             ++ exfalso. specialize (Hk Hsh). cbn [lookup_c] in Hk. rewrite N.eqb_refl in Hk. destruct Hk as [Hk|Hk]; [inversion Hk; congruence|discriminate].
             ++ apply G2; [eapply remove_shareholder_keeps_others; eassumption|].
                intros Hs. apply In_set_remove in Hs. destruct Hs as [Hs _]. specialize (Hk Hs). cbn [lookup_c] in Hk.
                destruct (N.eqb s sh) eqn:Es; [apply N.eqb_eq in Es; congruence|exact Hk].
          -- intros s Hs. destruct (G3 _ Hs) as [H1 H2]. apply In_set_remove in H1. destruct H1 as [H1 Hne]. split; [exact H1|].
             cbn [lookup_c]. destruct (N.eqb s sh) eqn:Es; [apply N.eqb_eq in Es; congruence|exact H2].
      + assert (Hsh : ~ In sh pending) by (intros H; apply memN_In in H; congruence).
        destruct (IH _ _ _ _ W I) as (F & G1 & G2 & G3 & G4). split; [exact F|]. split; [|split; [|split]].
        4:{ intros s Hs L. cbn [lookup_c] in L. destruct (N.eqb s sh) eqn:Es; [discriminate|]. apply G4; assumption. }
        * intros s r0 Hs L Hr. cbn [lookup_c] in L. destruct (N.eqb s sh) eqn:Es; [apply N.eqb_eq in Es; congruence|]. eapply G1; eassumption.
        * intros s p Hl Hk. apply G2; [exact Hl|]. intros Hs. specialize (Hk Hs). cbn [lookup_c] in Hk.
          destruct (N.eqb s sh) eqn:Es; [apply N.eqb_eq in Es; congruence|exact Hk].
        * intros s Hs. destruct (G3 _ Hs) as [H1 H2]. split; [exact H1|]. cbn [lookup_c].
          destruct (N.eqb s sh) eqn:Es; [apply N.eqb_eq in Es; congruence|exact H2].
  Qed.
End Rounds.
