(* C42  Directory part: the hashed byte string determines the name->cap items
   (netstring unique decomposition, Lib/NetstringFacts.v), and a directory cap
   is handed back only for the contents it was recorded for, or else two
   different byte strings have the same directories key. *)
From Coq Require Import List NArith ZArith Bool Lia.
From Verif Require Import Lib.Hex Lib.Netstring Lib.NetstringFacts Model.BackupDB Proofs.BackupDB.
Import ListNotations.
Local Open Scope N_scope.
Local Open Scope bool_scope.

Lemma join_entries_inj : forall l1 l2, join_entries l1 = join_entries l2 -> l1 = l2.
Proof.
  induction l1 as [|[n1 c1] l1 IH]; intros [|[n2 c2] l2] H; simpl in H.
  - reflexivity.
  - exfalso. symmetry in H. apply app_eq_nil in H. destruct H as [H _]. exact (netstring_nonempty _ H).
  - exfalso. apply app_eq_nil in H. destruct H as [H _]. exact (netstring_nonempty _ H).
  - apply netstring_prefix_free in H. destruct H as [-> H].
    apply netstring_prefix_free in H. destruct H as [-> H].
    f_equal. apply IH. exact H.
Qed.

Lemma entries_eqb_eq : forall a b, entries_eqb a b = true <-> a = b.
Proof.
  induction a as [|[n1 c1] a IH]; intros [|[n2 c2] b]; simpl; split; intro H; try discriminate; try reflexivity.
  - apply andb_prop in H. destruct H as [H H3]. apply andb_prop in H. destruct H as [H1 H2].
    apply list_N_eqb_eq in H1. apply list_N_eqb_eq in H2. apply IH in H3. subst. reflexivity.
  - inversion H; subst.
    rewrite (proj2 (list_N_eqb_eq n2 n2) eq_refl), (proj2 (list_N_eqb_eq c2 c2) eq_refl). simpl.
    apply IH. reflexivity.
Qed.

Lemma same_contentsb_data c1 c2 : same_contentsb c1 c2 = true <-> dir_data c1 = dir_data c2.
Proof.
  unfold same_contentsb, dir_data. rewrite entries_eqb_eq. split.
  - intro H. rewrite H. reflexivity.
  - apply join_entries_inj.
Qed.

Lemma insert_entry_In e x l : In x (insert_entry e l) <-> x = e \/ In x l.
Proof.
  induction l as [|y l IH]; simpl.
  - split; intros [H|H]; auto; tauto.
  - destruct (entry_ltb y e); simpl.
    + rewrite IH. split; intros [H|[H|H]]; auto.
    + split; intros [H|[H|H]]; auto.
Qed.

Lemma sort_entries_In x l : In x (sort_entries l) <-> In x l.
Proof.
  unfold sort_entries. induction l as [|y l IH]; simpl; [tauto|].
  rewrite insert_entry_In, IH. split; intros [H|H]; auto.
Qed.

(* the hashed string determines the dict: same string, same (name, cap) items *)
Lemma dir_data_items c1 c2 : dir_data c1 = dir_data c2 -> forall e, In e c1 <-> In e c2.
Proof.
  unfold dir_data. intros H e. apply join_entries_inj in H.
  rewrite <- (sort_entries_In e c1), <- (sort_entries_In e c2), H. tauto.
Qed.

Lemma same_contentsb_items c1 c2 : same_contentsb c1 c2 = true -> forall e, In e c1 <-> In e c2.
Proof. intro H. apply dir_data_items. apply same_contentsb_data. exact H. Qed.

Section DirReuse.
  Variable dirkey : bytes -> bytes.

  Definition collision : Prop := exists a b : bytes, a <> b /\ dirkey a = dirkey b.

  Lemma no_raw_tail o h : no_raw_create (o :: h) -> no_raw_create h.
  Proof. unfold no_raw_create. intros H a b c K. apply (H a b c). right. exact K. Qed.

  Lemma folds_agree_or_collision contents : forall h acc,
    no_raw_create h ->
    fold_left (upd_dir_create dirkey (dirkey (dir_data contents))) h acc = fold_left (upd_last_create contents) h acc
    \/ collision.
  Proof.
    induction h as [|o h IH]; intros acc Hnr; simpl; [left; reflexivity|].
    pose proof (no_raw_tail o h Hnr) as Hnr'.
    destruct o as [path ts sz mt ct now rnd | filecap path mt ct sz now | filecap now
                   | c0 now rnd | dircap c' now | dircap dh now | dircap now ]; simpl;
      try (apply IH; exact Hnr').
    - (* r.did_create(dircap), r from check_directory(c') *)
      destruct (same_contentsb c' contents) eqn:Es.
      + apply same_contentsb_data in Es. rewrite Es.
        rewrite (proj2 (list_N_eqb_eq _ _) eq_refl). apply IH. exact Hnr'.
      + destruct (list_N_eqb (dirkey (dir_data c')) (dirkey (dir_data contents))) eqn:Ek.
        * right. exists (dir_data c'), (dir_data contents). split.
          -- intro E. apply same_contentsb_data in E. congruence.
          -- apply list_N_eqb_eq. exact Ek.
        * apply IH. exact Hnr'.
    - exfalso. apply (Hnr dircap dh now). left. reflexivity.
  Qed.

  Lemma dir_reuse_or_collision_lem :
    forall (h : list op) contents now rnd cap,
      no_raw_create h ->
      was_created (check_directory dirkey (run dirkey empty_db h) contents now rnd) = Some cap ->
      last_create_for h contents = Some cap \/ collision.
  Proof.
    intros h contents now rnd cap Hnr H.
    apply dir_reuse_key_lem in H. unfold last_dir_create in H.
    destruct (folds_agree_or_collision contents h None Hnr) as [E|C]; [|right; exact C].
    left. unfold last_create_for. rewrite <- E. exact H.
  Qed.

  Lemma dircap_only_for_same_contents_lem :
    (forall a b, dirkey a = dirkey b -> a = b) ->
    forall (h : list op) contents now rnd cap,
      no_raw_create h ->
      was_created (check_directory dirkey (run dirkey empty_db h) contents now rnd) = Some cap ->
      last_create_for h contents = Some cap.
  Proof.
    intros Hinj h contents now rnd cap Hnr H.
    destruct (dir_reuse_or_collision_lem h contents now rnd cap Hnr H) as [E|(a & b & Hne & Hk)]; [exact E|].
    exfalso. apply Hne. apply Hinj. exact Hk.
  Qed.
End DirReuse.

(* what last_create_for = Some cap means: a did_create for the same items exists *)
Lemma last_create_for_witness contents : forall h acc cap,
  fold_left (upd_last_create contents) h acc = Some cap ->
  acc = Some cap \/ exists c' now, In (ODidCreateDir cap c' now) h /\ same_contentsb c' contents = true.
Proof.
  induction h as [|o h IH]; intros acc cap H; simpl in H; [left; exact H|].
  destruct (IH _ _ H) as [E|(c' & now & Hin & Hs)].
  - destruct o; simpl in E; try (left; exact E).
    destruct (same_contentsb contents0 contents) eqn:Es; [|left; exact E].
    inversion E; subst. right. exists contents0, now. split; [left; reflexivity|exact Es].
  - right. exists c', now. split; [right; exact Hin|exact Hs].
Qed.

Lemma last_create_for_meaning_lem :
  forall (h : list op) contents cap,
    last_create_for h contents = Some cap ->
    exists c' now, In (ODidCreateDir cap c' now) h /\ forall e, In e c' <-> In e contents.
Proof.
  intros h contents cap H. unfold last_create_for in H.
  destruct (last_create_for_witness contents h None cap H) as [E|(c' & now & Hin & Hs)]; [discriminate|].
  exists c', now. split; [exact Hin|]. apply same_contentsb_items. exact Hs.
Qed.
