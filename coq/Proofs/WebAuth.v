(* C41: the authority argument.  Generic lemmas over scripts, traversal and rendering; the regenerated table
   enters only through Proofs/WebAuthTable.v (all_entries_safe, traversal_mkdir_safe, write_uri_shapes_ok). *)
From Coq Require Import List NArith Bool String Lia.
From Verif Require Import Gen.WebOps Model.WebAuth Proofs.WebAuthTable.
Import ListNotations.
Local Open Scope string_scope.

(* ---------------------------------------------------------------------------------------------- *)
(* nodes obtained without a write cap are read-only                                               *)

Lemma make_node_ro : forall g c, c_auth c <> AW -> is_readonly (make_node g None c) = true.
Proof.
  intros g c H. unfold make_node.
  destruct (c_auth c) eqn:A; try congruence; try reflexivity.
  destruct (gget g (c_obj c)) as [[m k|m d]|]; unfold is_readonly; cbn [n_cap n_mutable]; try rewrite A; cbn;
    try apply orb_true_r; reflexivity.
Qed.

Lemma root_node_ro : forall g c, c_auth c <> AW -> is_readonly (root_node g c) = true.
Proof.
  intros g c H. unfold root_node. destruct (c_auth c) eqn:A; try congruence; try reflexivity.
  apply make_node_ro. congruence.
Qed.

Lemma gget_in : forall g i o, gget g i = Some o -> In (i, o) g.
Proof.
  induction g as [|[j o'] r IH]; intros i o H; cbn in H; [discriminate|].
  destruct (N.eqb i j) eqn:E.
  - apply N.eqb_eq in E. inversion H; subst. left. reflexivity.
  - right. apply IH. exact H.
Qed.

Lemma kget_in : forall k x e, kget k x = Some e -> In (x, e) k.
Proof.
  induction k as [|[y e'] r IH]; intros x e H; cbn in H; [discriminate|].
  destruct (N.eqb x y) eqn:E.
  - apply N.eqb_eq in E. inversion H; subst. left. reflexivity.
  - right. apply IH. exact H.
Qed.

Lemma wf_edge : forall g n kids x e,
    grid_wfb g = true -> dir_kids g n = Some kids -> kget kids x = Some e -> c_auth (e_ro e) <> AW.
Proof.
  intros g n kids x e W D K. unfold dir_kids in D.
  destruct (n_kind n); try discriminate.
  destruct (gget g (c_obj (n_cap n))) as [[m k|m d]|] eqn:G; try discriminate. inversion D; subst k.
  apply gget_in in G. unfold grid_wfb in W. rewrite forallb_forall in W. specialize (W _ G). cbn in W.
  rewrite forallb_forall in W. apply kget_in in K. specialize (W _ K). cbn in W.
  unfold edge_wfb in W. destruct (c_auth (e_ro e)); cbn in W; congruence.
Qed.

Lemma child_readonly : forall g p x c,
    grid_wfb g = true -> is_readonly p = true -> get_child g p x = Some c -> is_readonly c = true.
Proof.
  intros g p x c W R H. unfold get_child in H.
  destruct (dir_kids g p) as [kids|] eqn:D; try discriminate.
  destruct (kget kids x) as [e|] eqn:K; try discriminate. inversion H; subst c.
  unfold child_node. rewrite R. apply make_node_ro. eapply wf_edge; eauto.
Qed.

Lemma walk_readonly_ok : forall g path n n',
    grid_wfb g = true -> is_readonly n = true -> walk g n path = Some n' -> is_readonly n' = true.
Proof.
  intros g path. induction path as [|x rest IH]; intros n n' W R H; cbn in H.
  - inversion H; subst. exact R.
  - destruct (get_child g n x) as [c|] eqn:C; try discriminate.
    eapply (IH c); [exact W| |exact H]. eapply child_readonly; eauto.
Qed.

(* ---------------------------------------------------------------------------------------------- *)
(* node layer: a read-only target refuses when the regenerated flags say so                        *)

Lemma mfn_refusal_ro : forall m n, is_readonly n = true -> ro_version_refuses m = true -> mfn_refusal m n <> None.
Proof.
  intros m n R F. unfold mfn_refusal. destruct (n_mutable n); cbn; [|discriminate].
  rewrite R. unfold ro_version_refuses in F. rewrite F. discriminate.
Qed.

Lemma dn_refusal_ro : forall dn d, is_readonly d = true -> dn_safe dn = true -> dn_refusal dn d <> None.
Proof.
  intros dn d R S. unfold dn_refusal, dn_safe in *. rewrite R.
  destruct (dn_guards_self dn); cbn in *; [discriminate|]. apply mfn_refusal_ro; assumption.
Qed.

Lemma dn_call_refusal_ro : forall dn d, is_readonly d = true -> dn_safe_call dn = true -> dn_call_refusal dn d <> None.
Proof.
  intros dn d R S. unfold dn_call_refusal, dn_safe_call in *.
  destruct (String.eqb dn "set_uri" || String.eqb dn "add_file").
  - unfold dn_refusal_via_set_node. rewrite R. destruct (dn_guards_self dn); cbn in *; [discriminate|].
    apply dn_refusal_ro; assumption.
  - apply dn_refusal_ro; assumption.
Qed.

Definition ro_opt (o : option node) : Prop := match o with Some n => is_readonly n = true | None => True end.
Definition ro_par (o : option (node * N)) : Prop := match o with Some (p, _) => is_readonly p = true | None => True end.

(* a mutating call with read-only self.node and self.parentnode is refused *)
Lemma do_call_readonly : forall kd c ec t rq self parent g,
    call_sem c = Some kd -> is_mutating kd = true -> call_safe ec c = true ->
    web_guard_fires c (mk_env self parent ec) = false ->
    ro_opt self -> ro_par parent ->
    exists r, do_call kd t rq (mk_env self parent ec) g = inl r.
Proof.
  intros kd c ec t rq self parent g CS M S WG RS RP.
  unfold call_safe in S. rewrite CS in S.
  destruct kd as [tg dn| | | | | |]; cbn in M; try discriminate; cbn [do_call ev_self ev_parent].
  - (* KMutDir *)
    destruct tg.
    + destruct self as [n|]; [|eexists; reflexivity]. cbn in RS.
      destruct (dn_call_refusal dn n) eqn:E; [eexists; reflexivity|].
      exfalso. eapply dn_call_refusal_ro; eauto.
    + destruct parent as [[p x]|]; [|eexists; reflexivity]. cbn in RP.
      destruct (dn_call_refusal dn p) eqn:E; [eexists; reflexivity|].
      exfalso. eapply dn_call_refusal_ro; eauto.
  - (* KMove *)
    destruct self as [n|]; [|eexists; reflexivity]. cbn in RS.
    destruct (n_kind (match rq_to_dir rq with Some c0 => root_node g c0 | None => n end)); try (eexists; reflexivity).
    unfold dn_move_refusal. rewrite S, RS. cbn. eexists; reflexivity.
  - (* KOverwrite *)
    destruct self as [n|]; [|eexists; reflexivity]. cbn in RS.
    unfold web_guard_fires in WG. cbn in WG. rewrite RS in WG. rewrite andb_true_r in WG. rewrite WG in S. rewrite orb_false_l in S.
    destruct (mfn_refusal "overwrite" n) eqn:E; [eexists; reflexivity|].
    exfalso. eapply mfn_refusal_ro; eauto.
  - (* KUpdate *)
    destruct self as [n|]; [|eexists; reflexivity]. cbn in RS.
    unfold web_guard_fires in WG. cbn in WG. rewrite RS in WG. rewrite andb_true_r in WG. rewrite WG in S. rewrite orb_false_l in S.
    unfold mfv_update_refusal. destruct (n_mutable n); cbn [negb]; [|eexists; reflexivity].
    rewrite RS, S. eexists; reflexivity.
Qed.

Definition not_performed (o : outcome) : Prop := o <> Performed.

Lemma run_readonly : forall s ec t rq self parent g acc,
    script_safe ec s = true -> ro_opt self -> ro_par parent -> not_performed acc ->
    snd (run s t rq (mk_env self parent ec) g acc) = g
    /\ not_performed (fst (run s t rq (mk_env self parent ec) g acc)).
Proof.
  induction s as [c k IH|c a IHa b IHb|r|]; intros ec t rq self parent g acc S RS RP NP; cbn [run].
  - cbn in S. apply andb_prop in S. destruct S as [S1 S2].
    destruct (web_guard_fires c (mk_env self parent ec)) eqn:WG; [split; [reflexivity|discriminate]|].
    destruct (call_sem c) as [kd|] eqn:CS; [|split; [reflexivity|discriminate]].
    destruct (is_mutating kd) eqn:M.
    + destruct (do_call_readonly kd c ec t rq self parent g CS M S1 WG RS RP) as [r E]. rewrite E.
      split; [reflexivity|discriminate].
    + apply IH; assumption.
  - cbn in S. apply andb_prop in S. destruct S as [S1 S2].
    destruct (cond_holds rq (mk_env self parent ec) c); [apply IHa|apply IHb]; assumption.
  - split; [reflexivity|discriminate].
  - split; [reflexivity|exact NP].
Qed.

(* ---------------------------------------------------------------------------------------------- *)
(* traversal from a read-only node                                                                 *)

Definition handler_ro (h : handler) : Prop :=
  match h with
  | HNode n par => is_readonly n = true /\ ro_par par
  | HPlaceholder p _ => is_readonly p = true
  | HRefused _ => True
  end.

Lemma traverse_mkdir_readonly : forall rq g d x term,
    is_readonly d = true -> exists r, traverse_mkdir rq g d x term = inl r.
Proof.
  intros. unfold traverse_mkdir.
  destruct (dn_refusal "create_subdirectory" d) eqn:E; [eexists; reflexivity|].
  exfalso. eapply dn_refusal_ro; eauto. exact traversal_mkdir_safe.
Qed.

Local Opaque pair_in should_create_intermediate traverse_mkdir get_child meth_name.

Lemma resolve_readonly : forall path rq g cur parent acc,
    grid_wfb g = true -> is_readonly cur = true -> ro_par parent ->
    match resolve rq g cur parent path acc with
    | (h, rq', g', acc') => handler_ro h /\ rq' = rq /\ g' = g /\ acc' = acc
    end.
Proof.
  induction path as [|x rest IH]; intros rq g cur parent acc W R RP; cbn [resolve].
  - repeat split; assumption.
  - destruct (n_kind cur); try (repeat split; exact I).
    destruct (get_child g cur x) as [c|] eqn:C.
    + destruct (_ && _ && _); [repeat split; exact I|].
      apply IH; try assumption. eapply child_readonly; eauto.
    + destruct rest as [|y rest'].
      * cbn. destruct (pair_in _ _ getchild_terminal_requests).
        -- destruct (traverse_mkdir_readonly rq g cur x true R) as [r E]. rewrite E. repeat split; exact I.
        -- destruct (pair_in _ _ getchild_leaf_requests); repeat split; try exact I; assumption.
      * cbn. destruct (should_create_intermediate rq); [|repeat split; exact I].
        destruct (traverse_mkdir_readonly rq g cur x false R) as [r E]. rewrite E. repeat split; exact I.
Qed.

Local Transparent pair_in should_create_intermediate traverse_mkdir get_child meth_name.

(* ---------------------------------------------------------------------------------------------- *)
(* rendering a handler whose nodes are read-only                                                   *)

Lemma find_op_in : forall cls m t e, find_op cls m t = Some e -> In e web_ops.
Proof. intros cls m t e H. unfold find_op in H. apply find_some in H. tauto. Qed.

Lemma render_readonly : forall fuel cls rq self parent g acc,
    grid_wfb g = true -> ro_opt self -> ro_par parent -> not_performed acc ->
    snd (render fuel cls rq self parent g acc) = g /\ not_performed (fst (render fuel cls rq self parent g acc)).
Proof.
  induction fuel as [|fuel IH]; intros cls rq self parent g acc W RS RP NP.
  - cbn [render].
    destruct (negb (has_method cls (meth_name (rq_meth rq)))); [split; [reflexivity|discriminate]|].
    destruct (find_op cls (meth_name (rq_meth rq)) (rq_t rq)) as [e|] eqn:F;
      [|destruct (default_refused _ _); split; try reflexivity; discriminate].
    pose proof (all_entries_safe e (find_op_in _ _ _ _ F)) as SAFE. unfold entry_safe in SAFE.
    assert (CL : wo_class e = cls /\ wo_method e = meth_name (rq_meth rq)).
    { unfold find_op in F. apply find_some in F. destruct F as [_ F]. apply andb_prop in F. destruct F as [F _].
      apply andb_prop in F. destruct F as [F1 F2]. apply String.eqb_eq in F1, F2. split; assumption. }
    destruct CL as [C1 C2]. rewrite C1, C2 in SAFE.
    destruct (op_script cls (meth_name (rq_meth rq)) (wo_t e)) as [s|]; [|discriminate].
    destruct (_ && _ && _).
    + destruct self; destruct (rq_name rq); split; try reflexivity; discriminate.
    + apply run_readonly; assumption.
  - cbn [render].
    destruct (negb (has_method cls (meth_name (rq_meth rq)))); [split; [reflexivity|discriminate]|].
    destruct (find_op cls (meth_name (rq_meth rq)) (rq_t rq)) as [e|] eqn:F;
      [|destruct (default_refused _ _); split; try reflexivity; discriminate].
    pose proof (all_entries_safe e (find_op_in _ _ _ _ F)) as SAFE. unfold entry_safe in SAFE.
    assert (CL : wo_class e = cls /\ wo_method e = meth_name (rq_meth rq)).
    { unfold find_op in F. apply find_some in F. destruct F as [_ F]. apply andb_prop in F. destruct F as [F _].
      apply andb_prop in F. destruct F as [F1 F2]. apply String.eqb_eq in F1, F2. split; assumption. }
    destruct CL as [C1 C2]. rewrite C1, C2 in SAFE.
    destruct (op_script cls (meth_name (rq_meth rq)) (wo_t e)) as [s|]; [|discriminate].
    destruct (_ && _ && _).
    + destruct self as [d|]; [|split; [reflexivity|discriminate]].
      destruct (rq_name rq) as [x|]; [|split; [reflexivity|discriminate]].
      cbn in RS.
      destruct (get_child g d x) as [c|] eqn:C.
      * apply IH; try assumption; cbn; try assumption. eapply child_readonly; eauto.
      * apply IH; try assumption; cbn; try assumption. exact I.
    + apply run_readonly; assumption.
Qed.

(* ---------------------------------------------------------------------------------------------- *)
(* the theorems                                                                                    *)

(* (1) per table entry: with self.node and self.parentnode read-only, nothing is carried out *)
Lemma modifying_op_entry : forall e s,
    In e web_ops -> op_script (wo_class e) (wo_method e) (wo_t e) = Some s ->
    forall rq self parent g,
      ro_opt self -> ro_par parent ->
      snd (run s (rq_t rq) rq (mk_env self parent (wo_calls e)) g Unmodified) = g
      /\ fst (run s (rq_t rq) rq (mk_env self parent (wo_calls e)) g Unmodified) <> Performed.
Proof.
  intros e s IN OS rq self parent g RS RP.
  pose proof (all_entries_safe e IN) as SAFE. unfold entry_safe in SAFE. rewrite OS in SAFE.
  apply run_readonly; try assumption. discriminate.
Qed.

(* (2) per request: through a root cap that is not writeable -- read-only, verify or unknown -- whatever
   the path, the method and the t= operation, the abstract grid is unchanged and nothing was carried out *)
Lemma modifying_request : forall g rq,
    grid_wfb g = true -> c_auth (rq_root rq) <> AW ->
    snd (serve g rq) = g /\ fst (serve g rq) <> Performed.
Proof.
  intros g rq W A. unfold serve.
  pose proof (resolve_readonly (rq_path rq) rq g (root_node g (rq_root rq)) None Unmodified W (root_node_ro g _ A) I) as R.
  destruct (resolve rq g (root_node g (rq_root rq)) None (rq_path rq) Unmodified) as [[[h rq'] g'] acc'].
  destruct R as [HR [E1 [E2 E3]]]. subst rq' g' acc'.
  destruct h as [n par|p x|r]; cbn in HR.
  - destruct HR as [RN RPAR]. apply render_readonly; try assumption. discriminate.
  - apply render_readonly; try assumption; cbn; try exact I; try assumption. discriminate.
  - split; [reflexivity|discriminate].
Qed.

(* (2') the same for a writeable root when the path passes through a directory that is not writeable:
   stated on the handler reached *)
Lemma modifying_below_readonly : forall g rq n par fuel,
    grid_wfb g = true -> is_readonly n = true -> ro_par par ->
    snd (render fuel (handler_class n) rq (Some n) par g Unmodified) = g
    /\ fst (render fuel (handler_class n) rq (Some n) par g Unmodified) <> Performed.
Proof. intros. apply render_readonly; try assumption. discriminate. Qed.

(* an outcome other than Performed is a refusal or a success that carried out no mutating call:
   `Unmodified` is only produced by a path of the script without mutating calls *)
Fixpoint trace (s : script) (rq : request) (ev : env) : list string :=
  match s with
  | Call c k => c :: trace k rq ev
  | If c a b => if cond_holds rq ev c then trace a rq ev else trace b rq ev
  | _ => []
  end.

Lemma unmodified_no_mutating_call : forall s t rq ev g g',
    run s t rq ev g Unmodified = (Unmodified, g') ->
    g' = g /\ forall c kd, In c (trace s rq ev) -> call_sem c = Some kd -> is_mutating kd = false.
Proof.
  induction s as [c k IH|c a IHa b IHb|r|]; intros t rq ev g g' H; cbn [run] in H.
  - destruct (web_guard_fires c ev); [discriminate|].
    destruct (call_sem c) as [kd|] eqn:CS; [|discriminate].
    destruct (is_mutating kd) eqn:M.
    + destruct (do_call kd t rq ev g) as [e|g1]; [discriminate|]. exfalso.
      assert (forall s' g0, fst (run s' t rq ev g0 Performed) <> Unmodified) as NU.
      { clear. induction s' as [c k IH|c a IHa b IHb|r|]; intros g0; cbn [run].
        - destruct (web_guard_fires c ev); [cbn; discriminate|].
          destruct (call_sem c) as [kd|]; [|cbn; discriminate].
          destruct (is_mutating kd); [|apply IH].
          destruct (do_call kd t rq ev g0); [cbn; discriminate|apply IH].
        - destruct (cond_holds rq ev c); [apply IHa|apply IHb].
        - cbn; discriminate.
        - cbn; discriminate. }
      cbn [upgrade] in H. apply (NU k g1). rewrite H. reflexivity.
    + apply IH in H. destruct H as [E T]. split; [exact E|].
      intros c' kd' IN CS'. cbn [trace] in IN. destruct IN as [->|IN]; [congruence|]. eapply T; eauto.
  - cbn [trace]. destruct (cond_holds rq ev c); [eapply IHa|eapply IHb]; eauto.
  - discriminate.
  - inversion H; subst. split; [reflexivity|]. intros c kd [].
Qed.

(* relink / rename into a destination directory that is not writeable: refused (or, were the explicit
   new_parent check missing, the no-op "redundant rename" answer) -- the grid is never touched *)
Lemma relink_destination : forall t rq n par ec g c,
    rq_to_dir rq = Some c -> c_auth c <> AW ->
    (exists r, do_call KMove t rq (mk_env (Some n) par ec) g = inl r)
    \/ (dn_guards_other "move_child_to" "new_parent" = false /\ do_call KMove t rq (mk_env (Some n) par ec) g = inr g).
Proof.
  intros t rq n par ec g c TD A. cbn [do_call ev_self]. rewrite TD.
  pose proof (root_node_ro g c A) as RD.
  destruct (n_kind (root_node g c)); try (left; eexists; reflexivity).
  unfold dn_move_refusal. destruct (dn_guards_self "move_child_to" && is_readonly n); [left; eexists; reflexivity|].
  rewrite RD. pose proof move_checks_destination as MC.
  destruct (dn_guards_other "move_child_to" "new_parent"); cbn [andb orb] in *; [left; eexists; reflexivity|].
  destruct (N.eqb (c_obj (n_cap (root_node g c))) (c_obj (n_cap n)) && _); [right; split; reflexivity|].
  left. destruct (get_child g n (the_name rq)); [|eexists; reflexivity].
  destruct (dn_refusal "set_node" (root_node g c)) eqn:E; [eexists; reflexivity|].
  exfalso. eapply dn_refusal_ro; eauto.
Qed.

Lemma relink_destination_refused : forall t rq n par ec g c,
    rq_to_dir rq = Some c -> c_auth c <> AW ->
    exists r, do_call KMove t rq (mk_env (Some n) par ec) g = inl r.
Proof.
  intros t rq n par ec g c TD A.
  destruct (relink_destination t rq n par ec g c TD A) as [H|[H _]]; [exact H|].
  vm_compute in H. discriminate.
Qed.

(* ---------------------------------------------------------------------------------------------- *)
(* listings                                                                                        *)

Lemma write_uri_readonly : forall n, is_readonly n = true -> n_urw n = None -> get_write_uri n = None.
Proof.
  intros n R U. unfold get_write_uri, node_class.
  destruct write_uri_shapes_ok as [S1 [S2 [S3 [S4 S5]]]].
  destruct (n_kind n).
  - rewrite S1. rewrite R. reflexivity.
  - destruct (n_mutable n).
    + rewrite S2. rewrite R. reflexivity.
    + rewrite S3. reflexivity.
  - rewrite S5. exact U.
Qed.

Lemma make_node_none_urw : forall g c, n_urw (make_node g None c) = None.
Proof.
  intros g c. unfold make_node. cbn. destruct (c_auth c); try reflexivity;
  destruct (gget g (c_obj c)) as [[?m ?k|?m ?d]|]; reflexivity.
Qed.

Lemma ro_form_not_aw : forall c, c_auth (ro_form c) <> AW.
Proof. intros c. unfold ro_form. destruct (c_auth c) eqn:A; cbn; congruence. Qed.

Lemma readonly_listing : forall g n self kids,
    grid_wfb g = true -> is_readonly n = true -> n_urw n = None ->
    dir_json g n = Some (self, kids) ->
    d_rw self = None /\ c_auth (d_ro self) <> AW
    /\ forall x d, In (x, d) kids -> d_rw d = None /\ c_auth (d_ro d) <> AW.
Proof.
  intros g n self kids W R U H. unfold dir_json in H.
  destruct (dir_kids g n) as [ks|] eqn:D; try discriminate. inversion H; subst self kids. clear H.
  split; [apply write_uri_readonly; assumption|]. split; [apply ro_form_not_aw|].
  intros x d IN. apply in_map_iff in IN. destruct IN as [[y e] [E IN]]. cbn in E. inversion E; subst x d. clear E.
  assert (A : c_auth (e_ro e) <> AW).
  { unfold dir_kids in D. destruct (n_kind n); try discriminate.
    destruct (gget g (c_obj (n_cap n))) as [[m k|m dd]|] eqn:G; try discriminate. inversion D; subst k.
    apply gget_in in G. unfold grid_wfb in W. rewrite forallb_forall in W. specialize (W _ G). cbn in W.
    rewrite forallb_forall in W. specialize (W _ IN). cbn in W. unfold edge_wfb in W.
    destruct (c_auth (e_ro e)); cbn in W; congruence. }
  unfold child_node. rewrite R. cbn [describe d_rw d_ro]. split.
  - apply write_uri_readonly; [apply make_node_ro; exact A|apply make_node_none_urw].
  - apply ro_form_not_aw.
Qed.

Lemma root_node_urw : forall g c, n_urw (root_node g c) = None.
Proof. intros g c. unfold root_node. destruct (c_auth c); try reflexivity; apply make_node_none_urw. Qed.

Lemma walk_urw : forall g path n n',
    grid_wfb g = true -> is_readonly n = true -> n_urw n = None -> walk g n path = Some n' -> n_urw n' = None.
Proof.
  intros g path. induction path as [|x rest IH]; intros n n' W R U H; cbn in H.
  - inversion H; subst; exact U.
  - destruct (get_child g n x) as [c|] eqn:C; try discriminate.
    assert (RC : is_readonly c = true) by (eapply child_readonly; eauto).
    unfold get_child in C. destruct (dir_kids g n) as [ks|]; try discriminate.
    destruct (kget ks x) as [e|]; try discriminate. inversion C; subst c. clear C.
    eapply IH; [exact W|exact RC| |exact H].
    unfold child_node. rewrite R. apply make_node_none_urw.
Qed.

(* the listing of any directory reached from a root cap that is not writeable *)
Lemma readonly_listing_path : forall g c path n self kids,
    grid_wfb g = true -> c_auth c <> AW ->
    walk g (root_node g c) path = Some n -> dir_json g n = Some (self, kids) ->
    d_rw self = None /\ c_auth (d_ro self) <> AW
    /\ forall x d, In (x, d) kids -> d_rw d = None /\ c_auth (d_ro d) <> AW.
Proof.
  intros g c path n self kids W A WK DJ.
  eapply readonly_listing; eauto.
  - eapply walk_readonly_ok; eauto. apply root_node_ro; exact A.
  - eapply walk_urw; eauto. apply root_node_ro; exact A. apply root_node_urw.
Qed.

(* t=json of a file or unknown node that is not writeable: no rw_uri either *)
Lemma readonly_describe : forall n, is_readonly n = true -> n_urw n = None ->
    d_rw (describe n) = None /\ c_auth (d_ro (describe n)) <> AW.
Proof. intros n R U. split; [apply write_uri_readonly; assumption|apply ro_form_not_aw]. Qed.
