(* C13: which cache entry a NodeMaker lookup uses (Gen/NodeMakerKey.v, translated from
   nodemaker.py on every run) composed with the cache model of Model/Serializer.v. *)
From Coq Require Import List NArith Bool Lia.
From Verif Require Import Gen.NodeMakerKey Model.Serializer Proofs.Serializer.
Import ListNotations.
Local Open Scope N_scope.

Lemma memokey_ignores_readcap_ok di w ro1 ro2 :
  w <> [] -> memokey di (Some w) ro1 = memokey di (Some w) ro2.
Proof. intro H. unfold memokey, py_or. destruct w as [|c r]; [contradiction|reflexivity]. Qed.

Lemma memokey_readcap_only_ok di ro :
  memokey di None ro = memokey di (Some []) ro.
Proof. reflexivity. Qed.

Lemma memokey_spec di wc rc k :
  memokey di wc rc = Some k ->
  exists cap, py_or wc rc = Some cap /\ cap <> [] /\
              k = (if di then key_prefix_immutable else key_prefix_mutable) ++ cap.
Proof.
  unfold memokey. destruct (py_or wc rc) as [[|c r]|]; try discriminate.
  intro H. inversion H. exists (c :: r). repeat split. discriminate.
Qed.

Lemma prefixes_same_length : length key_prefix_immutable = length key_prefix_mutable.
Proof. reflexivity. Qed.

Lemma prefixes_differ : key_prefix_immutable <> key_prefix_mutable.
Proof. discriminate. Qed.

Lemma app_same_length_inj {A} (p q a b : list A) : length p = length q -> p ++ a = q ++ b -> p = q /\ a = b.
Proof.
  revert q. induction p as [|x p IH]; intros [|y q] Hl H; cbn in *; try discriminate; [auto|].
  inversion H. destruct (IH q) as [E1 E2]; [lia|assumption|]. subst. auto.
Qed.

(* two lookups share a cache entry only if they resolve the same cap with the same deep_immutable flag *)
Lemma memokey_inj_ok di di' wc rc wc' rc' k :
  memokey di wc rc = Some k -> memokey di' wc' rc' = Some k ->
  di = di' /\ py_or wc rc = py_or wc' rc'.
Proof.
  intros H1 H2. apply memokey_spec in H1. apply memokey_spec in H2.
  destruct H1 as [cap [P1 [_ K1]]]. destruct H2 as [cap' [P2 [_ K2]]]. rewrite P1, P2.
  rewrite K1 in K2.
  destruct di, di'.
  - apply app_inv_head in K2. subst. auto.
  - apply app_same_length_inj in K2; [|apply prefixes_same_length]. destruct K2 as [E _]. exfalso. exact (prefixes_differ E).
  - apply app_same_length_inj in K2; [|symmetry; apply prefixes_same_length]. destruct K2 as [E _]. exfalso. exact (prefixes_differ (eq_sym E)).
  - apply app_inv_head in K2. subst. auto.
Qed.

(* the same write cap, looked up with ANY read caps alongside (directly, or the way a parent
   directory resolves a child), yields the same node object, hence one serializer *)
Lemma same_writecap_same_node_ok c di w ro1 ro2 f1 f2 :
  w <> [] ->
  exists k, memokey di (Some w) ro1 = Some k /\ memokey di (Some w) ro2 = Some k /\
    let '(c1, n1) := create_from_cap c k f1 in
    let '(_, n2) := create_from_cap c1 k f2 in n1 = n2.
Proof.
  intro H. destruct w as [|x r]; [contradiction|].
  eexists. split; [reflexivity|]. split; [reflexivity|]. apply cache_same_cap_same_node.
Qed.
