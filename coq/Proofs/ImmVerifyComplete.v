(* Completeness on a new node: a downloader that starts fresh accepts every block of every genuine
   share (what the uploader -- or a repair, Proofs/ImmCheckRepair.v -- wrote), through all the
   stages of Share._get_satisfaction.  Uses the C35 completeness theorem (needed_accepted). *)
From Coq Require Import List ZArith NArith Bool Lia.
From Verif Require Import Gen.ImmConsts Model.HashTree Model.ImmFile Model.ImmVerify
  Proofs.HashTreeBase Proofs.HashTree Proofs.HashTreeStored Proofs.HashTreeComplete Proofs.HashTreeBuild
  Proofs.ImmVerifyTree Proofs.ImmVerify.
Import ListNotations.
Local Open Scope Z_scope.

(* ---- Python dicts ------------------------------------------------------------------------------- *)
Lemma dict_set_in : forall A k (v : A) d k' v', In (k', v') (dict_set k v d) -> (k', v') = (k, v) \/ In (k', v') d.
Proof.
  intros A k v d. induction d as [|[k0 v0] d IH]; intros k' v' Hin; cbn [dict_set] in Hin.
  - destruct Hin as [E|[]]. left. symmetry. exact E.
  - destruct (k =? k0) eqn:E.
    + destruct Hin as [E1|Hin]; [left; symmetry; exact E1|right; right; exact Hin].
    + destruct Hin as [E1|Hin]; [right; left; exact E1|].
      destruct (IH _ _ Hin) as [E2|Hd]; [left; exact E2|right; right; exact Hd].
Qed.

Lemma dict_set_keys : forall A k (v : A) d k', (k' = k \/ In k' (map fst d)) -> In k' (map fst (dict_set k v d)).
Proof.
  intros A k v d. induction d as [|[k0 v0] d IH]; intros k' Hk; cbn [dict_set].
  - destruct Hk as [->|[]]. left. reflexivity.
  - destruct (k =? k0) eqn:E.
    + apply Z.eqb_eq in E. subst k0. cbn [map fst In] in *. destruct Hk as [->|[->|Hk]]; auto.
    + cbn [map fst In] in *. destruct Hk as [->|[->|Hk]]; [right; apply IH; left; reflexivity|left; reflexivity|right; apply IH; right; exact Hk].
Qed.

Lemma pydict_fold_in : forall A (l : list (Z * A)) acc k v,
  In (k, v) (fold_left (fun d kv => dict_set (fst kv) (snd kv) d) l acc) -> In (k, v) acc \/ In (k, v) l.
Proof.
  intros A l. induction l as [|[k0 v0] l IH]; intros acc k v Hin; cbn [fold_left] in Hin; [left; exact Hin|].
  destruct (IH _ _ _ Hin) as [Ha|Hl]; [|right; right; exact Hl].
  cbn [fst snd] in Ha. destruct (dict_set_in _ _ _ _ _ _ Ha) as [E|Hacc]; [right; left; symmetry; exact E|left; exact Hacc].
Qed.

Lemma pydict_fold_keys : forall A (l : list (Z * A)) acc k,
  (In k (map fst acc) \/ In k (map fst l)) -> In k (map fst (fold_left (fun d kv => dict_set (fst kv) (snd kv) d) l acc)).
Proof.
  intros A l. induction l as [|[k0 v0] l IH]; intros acc k Hk; cbn [fold_left].
  - destruct Hk as [Hk|[]]. exact Hk.
  - apply IH. cbn [map fst In] in Hk. cbn [fst snd].
    destruct Hk as [Hk|[->|Hk]]; [left; apply dict_set_keys; right; exact Hk|left; apply dict_set_keys; left; reflexivity|right; exact Hk].
Qed.

Lemma pydict_in : forall A (l : list (Z * A)) k v, In (k, v) (pydict l) -> In (k, v) l.
Proof. intros A l k v Hin. destruct (pydict_fold_in _ _ _ _ _ Hin) as [[]|Hl]. exact Hl. Qed.

Lemma pydict_keys : forall A (l : list (Z * A)) k, In k (map fst l) -> In k (map fst (pydict l)).
Proof. intros A l k Hk. apply pydict_fold_keys. right. exact Hk. Qed.

(* ---- needed_for is defined inside a complete tree -------------------------------------------------- *)
Lemma needed_for_loop_total : forall fuel n here,
  Z.odd n = true -> 0 <= here < n -> here <= Z.of_nat fuel -> exists r, needed_for_loop fuel n here = Some r.
Proof.
  induction fuel as [|f IH]; intros n here Ho Hh Hf; cbn [needed_for_loop].
  - assert (here = 0) by lia. subst here. exists []. reflexivity.
  - destruct (here =? 0) eqn:E; [exists []; reflexivity|]. apply Z.eqb_neq in E.
    assert (H1 : 1 <= here) by lia. pose proof (parz_range here H1) as Hp.
    assert (Hc : 2 * parz here + 2 < n).
    { destruct (node_cases here H1) as [[E1 E2]|[E1 E2]]; [|lia].
      (* here = 2p+1 is odd and below the odd n, so 2p+2 < n *)
      assert (Hn : n <> here + 1).
      { intros Hc. rewrite Hc in Ho. rewrite E1 in Ho. replace (2 * parz here + 1 + 1) with (2 * (parz here + 1)) in Ho by lia.
        rewrite Z.odd_mul in Ho. cbn in Ho. discriminate. }
      lia. }
    rewrite (sibling_intro n here H1 Hc).
    assert (Hpar : parent n here = Some (parz here)) by (apply parent_some; split; [lia|reflexivity]).
    rewrite Hpar.
    destruct (IH n (parz here) Ho ltac:(lia) ltac:(lia)) as [r ->]. eexists. reflexivity.
Qed.

Lemma needed_for_total : forall n leaf, Z.odd n = true -> 0 <= leaf < n -> exists nf, needed_for n leaf = Some nf.
Proof.
  intros n leaf Ho Hl. unfold needed_for.
  assert ((leaf <? 0) || (n <=? leaf) = false) as -> by (apply orb_false_iff; split; [apply Z.ltb_ge|apply Z.leb_gt]; lia).
  apply needed_for_loop_total; [exact Ho|exact Hl|lia].
Qed.

Lemma needed_for_entries : forall n leaf nf k, needed_for n leaf = Some nf -> In k nf -> 1 <= k < n.
Proof.
  intros n leaf nf k Hn Hk. destruct (needed_for_spec _ _ _ Hn) as [_ [N1 N2]].
  destruct (N2 k Hk) as [y [Hy [Ha ->]]]. destruct (N1 y Hy Ha) as [_ Hc]. pose proof (sibz_ge1 y Hy).
  destruct (node_cases y Hy) as [[E1 E2]|[E1 E2]]; lia.
Qed.

Lemma needed_for_nil_root : forall n leaf, needed_for n leaf = Some [] -> leaf = 0.
Proof.
  intros n leaf Hn. destruct (needed_for_spec _ _ _ Hn) as [Hl [N1 _]].
  destruct (Z.eq_dec leaf 0) as [E|E]; [exact E|]. destruct (N1 leaf ltac:(lia) (anc_self leaf)) as [[] _].
Qed.

Section Complete.
  Variable H : Type.
  Variable H_eqb : H -> H -> bool.
  Variable pair_hash : H -> H -> H.
  Variable truthy : H -> bool.
  Variable empty_leaf : Z -> H.
  Variable block_hash : list N -> H.
  Variable seg_hash : list N -> H.
  Variable UB : Type.
  Variable ueb_hash : UB -> H.
  Variable parse_ueb : UB -> option (ueb H).
  Variable ser_ueb : ueb H -> UB.

  Hypothesis H_eqb_spec : forall a b, H_eqb a b = true <-> a = b.
  Hypothesis all_truthy_H : forall h, truthy h = true.
  Hypothesis parse_ser : forall u, parse_ueb (ser_ueb u) = Some u.

  Variable f : efile.
  Variable key : list N.
  Hypothesis Hwf : ef_wf f.

  Notation c := (g_cap H pair_hash empty_leaf block_hash seg_hash UB ueb_hash ser_ueb key f).
  Notation set_hashes := (set_hashes H H_eqb pair_hash truthy).
  Notation nn := (nn f).
  Notation nseg := (nseg f).
  Notation ns := (ns f).
  Notation nc := (nc f).
  Notation Gs := (Gs H pair_hash empty_leaf block_hash f).
  Notation Gc := (Gc H pair_hash empty_leaf seg_hash f).
  Notation Gb := (Gb H pair_hash empty_leaf block_hash f).
  Notation node_of := (node_of H empty_leaf).

  Lemma pair_truthy' : forall a b, truthy (pair_hash a b) = true.
  Proof. intros. apply all_truthy_H. Qed.

  (* ---- a tree that holds only its root -------------------------------------------------------------- *)
  Definition rooted (r : H) (m : nat) : tree H := Some r :: repeat None m.

  Lemma rooted_zlen : forall r m, zlen (rooted r m) = Z.of_nat (S m).
  Proof. intros. unfold zlen, rooted. cbn [length]. rewrite repeat_length. reflexivity. Qed.

  Lemma rooted_slot : forall r m j, 1 <= j -> slot (rooted r m) j = None.
  Proof.
    intros r m j Hj. unfold rooted. rewrite (slot_cons_S H) by exact Hj. apply slot_repeat_none.
  Qed.

  Lemma rooted_closed : forall r m, closed H (rooted r m).
  Proof. intros r m j Hj Hp. exfalso. apply Hp. apply rooted_slot. exact Hj. Qed.

  Lemma rooted_slot_none : forall r m k, 0 <= k < Z.of_nat (S m) -> (slot_none H (rooted r m) k = true <-> 1 <= k).
  Proof.
    intros r m k Hk. rewrite (slot_none_spec H) by (rewrite rooted_zlen; exact Hk).
    split.
    - intros Hs. destruct (Z.eq_dec k 0) as [->|]; [cbn in Hs; discriminate|lia].
    - intros H1. apply rooted_slot. exact H1.
  Qed.

  (* all the nodes a leaf needs, offered with their genuine values to a tree that holds only the
     genuine root: accepted, and the leaf is then known *)
  Lemma rooted_chain_accepted : forall (G : Z -> H) m fl leafnum (hashes : list (Z * H)) nf ord,
    merkle H pair_hash G (Z.of_nat (S m)) ->
    needed_for (Z.of_nat (S m)) (fl + leafnum) = Some nf ->
    1 <= fl + leafnum ->
    (forall k h, In (k, h) hashes -> (k = fl + leafnum \/ In k nf) /\ h = G k) ->
    (forall k, k = fl + leafnum \/ In k nf -> In k (map fst hashes)) ->
    exists T1, set_hashes fl (rooted (G 0) m) hashes [] ord = Accepted H T1 /\
               slot T1 (fl + leafnum) = Some (G (fl + leafnum)) /\
               zlen T1 = Z.of_nat (S m).
  Proof.
    intros G m fl leafnum hashes nf ord Hm Hnf Hleaf Hh Hcov.
    set (T0 := rooted (G 0) m). set (n := Z.of_nat (S m)) in *.
    assert (Hok0 : TreeOK H G n T0) by (apply seeded_ok; reflexivity).
    destruct (needed_for_spec _ _ _ Hnf) as [Hlr _].
    assert (Hnd : needed_hashes H fl T0 leafnum true = Some (filter (slot_none H T0) (zadd (fl + leafnum) nf))).
    { unfold needed_hashes. unfold T0. rewrite rooted_zlen. fold n. rewrite Hnf. reflexivity. }
    assert (Hin_nd : forall k, In k (filter (slot_none H T0) (zadd (fl + leafnum) nf)) <-> (k = fl + leafnum \/ In k nf)).
    { intros k. rewrite filter_In, in_zadd. split; [tauto|]. intros Hk. split; [exact Hk|].
      apply rooted_slot_none; destruct Hk as [->|Hk]; try lia.
      - pose proof (needed_for_entries _ _ _ _ Hnf Hk). fold n. lia.
      - pose proof (needed_for_entries _ _ _ _ Hnf Hk). lia. }
    assert (Hgt : forall j, 0 <= j < n -> truthy (G j) = true) by (intros; apply all_truthy_H).
    destruct (needed_accepted H H_eqb pair_hash truthy H_eqb_spec pair_truthy' G n Hm Hgt fl T0 leafnum _ hashes [] ord
                (tk_len _ _ _ _ Hok0) (tk_gen _ _ _ _ Hok0) (rooted_closed (G 0) m) (tk_root _ _ _ _ Hok0) Hnd) as [T1 [Hacc Hslot]].
    - intros k h Hin. destruct (Hh k h Hin) as [Hk Hv]. split; [apply Hin_nd; exact Hk|exact Hv].
    - intros ln h [].
    - intros k Hk. left. apply Hcov. apply Hin_nd. exact Hk.
    - exists T1. split; [exact Hacc|]. split; [exact Hslot|].
      destruct (accepted_char H H_eqb pair_hash truthy H_eqb_spec pair_truthy' fl T0 hashes [] ord T1 Hacc) as [C1 _].
      unfold zlen. rewrite C1. apply (tk_len _ _ _ _ Hok0).
  Qed.

  Lemma filter_all : forall A (p : A -> bool) l, (forall x, In x l -> p x = true) -> filter p l = l.
  Proof.
    intros A p l. induction l as [|a l IH]; intros Hp; cbn [filter]; [reflexivity|].
    rewrite (Hp a (or_introl eq_refl)). f_equal. apply IH. intros x Hx. apply Hp. right. exact Hx.
  Qed.

  Lemma needed_for_root : forall n, 1 <= n -> needed_for n 0 = Some [].
  Proof.
    intros n Hn. unfold needed_for.
    assert ((0 <? 0) || (n <=? 0) = false) as -> by (apply orb_false_iff; split; [reflexivity|apply Z.leb_gt; lia]).
    destruct (Z.to_nat n); reflexivity.
  Qed.

  (* what a tree holding only its root asks for *)
  Lemma needed_rooted : forall r m fl leafnum nf,
    needed_for (Z.of_nat (S m)) (fl + leafnum) = Some nf ->
    needed_hashes H fl (rooted r m) leafnum true = Some (if fl + leafnum =? 0 then [] else zadd (fl + leafnum) nf) /\
    needed_hashes H fl (rooted r m) leafnum false = Some nf.
  Proof.
    intros r m fl leafnum nf Hnf. unfold needed_hashes. rewrite rooted_zlen, Hnf.
    destruct (needed_for_spec _ _ _ Hnf) as [Hlr _].
    assert (Hnf_all : forall k, In k nf -> slot_none H (rooted r m) k = true).
    { intros k Hk. pose proof (needed_for_entries _ _ _ _ Hnf Hk). apply rooted_slot_none; lia. }
    split; [|rewrite (filter_all _ _ _ Hnf_all); reflexivity].
    destruct (fl + leafnum =? 0) eqn:E.
    - apply Z.eqb_eq in E. rewrite E in *. rewrite needed_for_root in Hnf by lia. inversion Hnf. subst nf.
      cbn [zadd zmem app filter]. assert (slot_none H (rooted r m) 0 = false) as -> by reflexivity. reflexivity.
    - apply Z.eqb_neq in E. rewrite filter_all; [reflexivity|]. intros k Hk. apply in_zadd in Hk.
      destruct Hk as [->|Hk]; [apply rooted_slot_none; lia|apply Hnf_all; exact Hk].
  Qed.

  Lemma zadd_nonempty : forall x s, zadd x s <> [].
  Proof. intros x s. unfold zadd. destruct (zmem x s) eqn:E; [apply zmem_in in E; destruct s; [destruct E|discriminate]|destruct s; discriminate]. Qed.

  (* ---- reading the nodes out of a genuine share ----------------------------------------------------- *)
  Lemma zassoc_map_seq : forall A (g : nat -> A) len start k,
    Z.of_nat start <= k < Z.of_nat (start + len) ->
    zassoc k (map (fun j => (Z.of_nat j, g j)) (seq start len)) = Some (g (Z.to_nat k)).
  Proof.
    intros A g len. induction len as [|len IH]; intros start k Hk; [lia|].
    cbn [seq map zassoc]. destruct (k =? Z.of_nat start) eqn:E.
    - apply Z.eqb_eq in E. subst k. rewrite Nat2Z.id. reflexivity.
    - apply Z.eqb_neq in E. apply IH. lia.
  Qed.

  Lemma zassoc_index_all : forall t k, 0 <= k < zlen t -> zassoc k (index_all H empty_leaf t) = Some (node_of t k).
  Proof.
    intros t k Hk. unfold index_all, ImmVerify.node_of.
    apply (zassoc_map_seq H (fun j => nth j t (empty_leaf 0)) (length t) 0%nat k). unfold zlen in Hk. lia.
  Qed.

  Lemma gather_all : forall src keys (g : Z -> H),
    (forall k, In k keys -> zassoc k src = Some (g k)) -> gather H src keys = Some (map (fun k => (k, g k)) keys).
  Proof.
    intros src keys g. induction keys as [|k r IH]; intros Hk; cbn [gather map]; [reflexivity|].
    rewrite (Hk k (or_introl eq_refl)). rewrite IH by (intros x Hx; apply Hk; right; exact Hx). reflexivity.
  Qed.

  (* the step shared by the block hash tree and the crypttext hash tree: every node the rooted tree asks
     for is read from the genuine share and accepted *)
  Lemma rooted_step : forall (t : list H) m fl leafnum ord,
    zlen t = Z.of_nat (S m) -> Z.odd (Z.of_nat (S m)) = true ->
    merkle H pair_hash (node_of t) (Z.of_nat (S m)) ->
    0 <= fl + leafnum < Z.of_nat (S m) ->
    match needed_hashes H fl (rooted (node_of t 0) m) leafnum true with
    | None => False
    | Some [] => fl + leafnum = 0
    | Some nd =>
        exists hs T1, gather H (index_all H empty_leaf t) nd = Some hs /\
                      set_hashes fl (rooted (node_of t 0) m) hs [] ord = Accepted H T1 /\
                      slot T1 (fl + leafnum) = Some (node_of t (fl + leafnum)) /\ zlen T1 = Z.of_nat (S m)
    end.
  Proof.
    intros t m fl leafnum ord Hz Ho Hm Hl.
    destruct (needed_for_total _ _ Ho Hl) as [nf Hnf].
    destruct (needed_rooted (node_of t 0) m fl leafnum nf Hnf) as [-> _].
    destruct (fl + leafnum =? 0) eqn:E; [apply Z.eqb_eq in E; exact E|]. apply Z.eqb_neq in E.
    destruct (zadd (fl + leafnum) nf) as [|x nd'] eqn:Ez; [exfalso; exact (zadd_nonempty _ _ Ez)|]. rewrite <- Ez.
    assert (Hrange : forall k, In k (zadd (fl + leafnum) nf) -> 0 <= k < zlen t).
    { intros k Hk. apply in_zadd in Hk. rewrite Hz. destruct Hk as [->|Hk]; [exact Hl|]. pose proof (needed_for_entries _ _ _ _ Hnf Hk). lia. }
    exists (map (fun k => (k, node_of t k)) (zadd (fl + leafnum) nf)).
    destruct (rooted_chain_accepted (node_of t) m fl leafnum (map (fun k => (k, node_of t k)) (zadd (fl + leafnum) nf)) nf ord Hm Hnf ltac:(lia)) as [T1 [A1 [A2 A3]]].
    - intros k h Hin. apply in_map_iff in Hin. destruct Hin as [k0 [Hkv Hk0]]. inversion Hkv. subst. split; [apply in_zadd; exact Hk0|reflexivity].
    - intros k Hk. rewrite map_map. cbn [fst]. rewrite map_id. apply in_zadd. exact Hk.
    - exists T1. split; [|split; [exact A1|split; [exact A2|exact A3]]].
      apply gather_all. intros k Hk. apply zassoc_index_all. apply Hrange. exact Hk.
  Qed.

  (* ---- a leaf that is already known ---------------------------------------------------------------- *)
  Lemma run_levels_all_empty : forall k T lv ruf ord,
    (forall L, nth L lv [] = []) ->
    run_levels H H_eqb pair_hash truthy k (mkW H T lv ruf) ord = inl (mkW H T lv ruf).
  Proof.
    induction k as [|L IH]; intros T lv ruf ord Hnil; cbn [run_levels wlv wT wruf]; [reflexivity|].
    rewrite (Hnil L). cbn [length run_level]. rewrite upd_same_nil by apply Hnil. apply IH. exact Hnil.
  Qed.

  Lemma set_hashes_known_leaf : forall fl (T : tree H) j h ord,
    0 <= fl + j < zlen T -> slot T (fl + j) = Some h -> set_hashes fl T [] [(j, h)] ord = Accepted H T.
  Proof.
    intros fl T j h ord Hr Hs. unfold HashTree.set_hashes. cbn [merge_leaves assoc app]. cbv zeta.
    cbn [phaseB]. unfold stepB. cbn [wT wlv wruf].
    assert (Hv : validz (zlen T) (fl + j)) by (unfold validz; lia).
    rewrite (get_valid _ _ _ Hv). rewrite normz_nonneg by lia. rewrite Hs. cbn [is_truthy]. rewrite all_truthy_H.
    assert (H_eqb h h = true) as -> by (apply H_eqb_spec; reflexivity).
    cbn [wlv]. rewrite run_levels_all_empty; [reflexivity|]. intros L. apply nth_repeat_nilZ.
  Qed.

  (* ---- the stages of Share._get_satisfaction on a new node and a genuine share ------------------------ *)
  Notation sh_of ver o i := (g_share H pair_hash empty_leaf block_hash seg_hash UB ser_ueb f ver o i).
  Notation g_sht := (g_sht H pair_hash empty_leaf block_hash f).
  Notation g_cht := (g_cht H pair_hash empty_leaf seg_hash f).
  Notation g_bht := (g_bht H pair_hash empty_leaf block_hash f).
  Notation sht_facts := (sht_facts H pair_hash empty_leaf block_hash f).
  Notation bht_facts := (bht_facts H pair_hash empty_leaf block_hash f Hwf).
  Notation cht_facts := (cht_facts H pair_hash empty_leaf seg_hash f Hwf).

  Lemma odd_tree_size : forall x, Z.odd (2 * roundup_pow2 x - 1) = true.
  Proof.
    intros x. replace (2 * roundup_pow2 x - 1) with (1 + 2 * (roundup_pow2 x - 1)) by lia.
    rewrite Z.odd_add_mul_2. reflexivity.
  Qed.

  Lemma zlen_g_sht : zlen g_sht = ns.
  Proof.
    unfold ImmVerify.g_sht. set (L := map _ _).
    assert (HL : zlen L = nn) by (unfold zlen, L, ImmVerify.nn; rewrite map_length, seq_length; lia).
    destruct (tree_facts H pair_hash empty_leaf L) as [F1 _]. cbv zeta in F1. rewrite HL in F1. exact F1.
  Qed.
  Lemma zlen_g_bht : forall i, zlen (g_bht i) = nc.
  Proof.
    intros i. unfold ImmVerify.g_bht. set (L := map _ _).
    assert (HL : zlen L = nseg) by (unfold zlen, L; rewrite map_length; apply (zlen_blocks f Hwf)).
    destruct (tree_facts H pair_hash empty_leaf L) as [F1 _]. cbv zeta in F1. rewrite HL in F1. exact F1.
  Qed.
  Lemma zlen_g_cht : zlen g_cht = nc.
  Proof.
    unfold ImmVerify.g_cht. set (L := map _ _).
    assert (HL : zlen L = nseg) by (unfold zlen, L; rewrite map_length; apply (zlen_segs f Hwf)).
    destruct (tree_facts H pair_hash empty_leaf L) as [F1 _]. cbv zeta in F1. rewrite HL in F1. exact F1.
  Qed.

  Lemma get_of_slot : forall (T : tree H) k v, 0 <= k < zlen T -> slot T k = v -> get T k = Some v.
  Proof.
    intros T k v Hk Hs. assert (Hv : validz (zlen T) k) by (unfold validz; lia).
    rewrite (get_valid _ _ _ Hv), normz_nonneg by lia. rewrite Hs. reflexivity.
  Qed.

  (* share hash chain *)
  Lemma stage_share_hashes_complete : forall ss cht bht ms ver o i ords,
    Z.of_nat (S ms) = ns -> 0 <= i < nn ->
    exists sht2,
      stage_share_hashes H H_eqb pair_hash truthy UB c (mkDn (Some ss) (rooted (Gs 0) ms) cht bht) i (sh_of ver o i) ords
      = (mkDn (Some ss) sht2 cht bht, None) /\
      get sht2 (first_leaf_num nn + i) = Some (Some (Gs (first_leaf_num nn + i))).
  Proof.
    intros ss cht bht ms ver o i ords Hms Hi.
    unfold stage_share_hashes. cbn [g_cap c_n dn_sht dn_segsize dn_cht dn_bht]. fold nn.
    set (fl := first_leaf_num nn). set (leaf := fl + i).
    assert (Hleaf : 0 <= leaf < Z.of_nat (S ms)) by (rewrite Hms; apply fl_leaf_range; exact Hi).
    assert (Ho : Z.odd (Z.of_nat (S ms)) = true) by (rewrite Hms; apply odd_tree_size).
    destruct (needed_for_total _ _ Ho Hleaf) as [nf Hnf].
    destruct (needed_rooted (Gs 0) ms fl i nf Hnf) as [_ Hfalse]. rewrite Hfalse.
    destruct nf as [|x nf'].
    - (* the only share: its leaf is the root *)
      pose proof (needed_for_nil_root _ _ Hnf) as E0. exists (rooted (Gs 0) ms). split; [reflexivity|].
      fold leaf. rewrite E0. reflexivity.
    - cbn [g_share s_share_hashes]. fold nn. fold fl. rewrite zlen_g_sht, <- Hms. fold leaf. rewrite Hnf.
      set (chain := zadd leaf (x :: nf')).
      set (pairs := map (fun j => (j, node_of g_sht j)) chain).
      assert (Hleaf1 : 1 <= leaf).
      { destruct (Z.eq_dec leaf 0) as [E|E]; [|lia]. rewrite E in Hnf. rewrite needed_for_root in Hnf by lia. discriminate. }
      destruct (rooted_chain_accepted Gs ms fl i (pydict pairs) (x :: nf') (ords 2%nat)) as [T1 [A1 [A2 A3]]].
      + rewrite Hms. apply (proj1 sht_facts).
      + exact Hnf.
      + exact Hleaf1.
      + intros k h Hin. apply pydict_in in Hin. apply in_map_iff in Hin. destruct Hin as [k0 [Hkv Hk0]]. inversion Hkv. subst.
        split; [apply in_zadd; exact Hk0|reflexivity].
      + intros k Hk. apply pydict_keys. unfold pairs. rewrite map_map. cbn [fst]. rewrite map_id. apply in_zadd. exact Hk.
      + destruct pairs as [|p0 pr] eqn:Ep.
        { exfalso. apply map_eq_nil in Ep. exact (zadd_nonempty _ _ Ep). }
        rewrite <- Ep in *.
        assert (Hex : existsb (fun kv => zlen (rooted (Gs 0) ms) <=? fst kv) (pydict pairs) = false).
        { destruct (existsb _ _) eqn:E; [|reflexivity]. apply existsb_exists in E. destruct E as [[k h] [Hin Hle]].
          apply pydict_in in Hin. apply in_map_iff in Hin. destruct Hin as [k0 [Hkv Hk0]]. inversion Hkv. subst.
          apply in_zadd in Hk0. cbn [fst] in Hle. apply Z.leb_le in Hle. rewrite rooted_zlen in Hle.
          destruct Hk0 as [->|Hk0]; [lia|]. pose proof (needed_for_entries _ _ _ _ Hnf Hk0). lia. }
        rewrite Hex. rewrite A1. exists T1. split; [reflexivity|].
        apply get_of_slot; [rewrite A3; exact Hleaf|exact A2].
  Qed.

  (* block hash tree root *)
  Lemma stage_block_root_complete : forall ss sht cht i ords mc,
    Z.of_nat (S mc) = nc -> 0 <= i < nn ->
    get sht (first_leaf_num nn + i) = Some (Some (Gs (first_leaf_num nn + i))) ->
    stage_block_root H H_eqb pair_hash truthy c (mkDn (Some ss) sht cht []) nseg i ords
    = (mkDn (Some ss) sht cht (bht_put H [] i (rooted (Gb i 0) mc)), None).
  Proof.
    intros ss sht cht i ords mc Hmc Hi Hg. unfold stage_block_root, common_bht. cbn [dn_bht bht_get dn_sht dn_segsize dn_cht g_cap c_n].
    rewrite (get0_fresh H). cbn [is_truthy]. fold nn. rewrite Hg.
    unfold seed_root. destruct (fresh_is_repeat H nseg) as [m [Ef Lf]]. rewrite Ef, seed_fresh by assumption.
    assert (m = mc) by (unfold ImmVerify.nc in Hmc; lia). subst m.
    rewrite (proj2 sht_facts i Hi). reflexivity.
  Qed.

  (* block hash tree nodes for segment j *)
  Lemma stage_block_hashes_complete : forall ss sht cht i j ver o ords mc,
    Z.of_nat (S mc) = nc -> 0 <= j < nseg ->
    exists T,
      stage_block_hashes H H_eqb pair_hash truthy UB (mkDn (Some ss) sht cht (bht_put H [] i (rooted (Gb i 0) mc))) nseg i j (sh_of ver o i) ords
      = (mkDn (Some ss) sht cht (bht_put H [] i T), None) /\
      slot T (first_leaf_num nseg + j) = Some (Gb i (first_leaf_num nseg + j)) /\ zlen T = nc.
  Proof.
    intros ss sht cht i j ver o ords mc Hmc Hj. unfold stage_block_hashes, common_bht. cbn [dn_bht dn_sht dn_segsize dn_cht].
    rewrite bht_get_put, Z.eqb_refl.
    assert (Hleaf : 0 <= first_leaf_num nseg + j < Z.of_nat (S mc)) by (rewrite Hmc; apply fl_leaf_range; exact Hj).
    assert (Ho : Z.odd (Z.of_nat (S mc)) = true) by (rewrite Hmc; apply odd_tree_size).
    pose proof (rooted_step (g_bht i) mc (first_leaf_num nseg) j (ords 4%nat)
                  ltac:(rewrite zlen_g_bht; symmetry; exact Hmc) Ho ltac:(rewrite Hmc; apply (proj1 (bht_facts i))) Hleaf) as Hstep.
    fold (Gb i 0) in Hstep.
    destruct (needed_hashes H (first_leaf_num nseg) (rooted (Gb i 0) mc) j true) as [[|x nd]|]; [| |destruct Hstep].
    - exists (rooted (Gb i 0) mc). split; [|split; [rewrite Hstep; reflexivity|rewrite rooted_zlen; exact Hmc]].
      reflexivity.
    - destruct Hstep as [hs [T1 [S1 [S2 [S3 S4]]]]]. cbn [g_share s_block_hashes]. rewrite S1, S2.
      exists T1. split; [|split; [exact S3|rewrite S4; exact Hmc]].
      unfold bht_put. cbn [dict_set]. rewrite Z.eqb_refl. reflexivity.
  Qed.

  (* crypttext hash tree nodes for segment j *)
  Lemma stage_ct_hashes_complete : forall ss sht bht i j ver o ords mc,
    Z.of_nat (S mc) = nc -> 0 <= j < nseg ->
    exists cht2,
      stage_ct_hashes H H_eqb pair_hash truthy UB (mkDn (Some ss) sht (rooted (Gc 0) mc) bht) nseg j (sh_of ver o i) ords
      = (mkDn (Some ss) sht cht2 bht, None).
  Proof.
    intros ss sht bht i j ver o ords mc Hmc Hj. unfold stage_ct_hashes. cbn [dn_bht dn_sht dn_segsize dn_cht].
    assert (Hleaf : 0 <= first_leaf_num nseg + j < Z.of_nat (S mc)) by (rewrite Hmc; apply fl_leaf_range; exact Hj).
    assert (Ho : Z.odd (Z.of_nat (S mc)) = true) by (rewrite Hmc; apply odd_tree_size).
    pose proof (rooted_step g_cht mc (first_leaf_num nseg) j (ords 5%nat)
                  ltac:(rewrite zlen_g_cht; symmetry; exact Hmc) Ho ltac:(rewrite Hmc; apply (proj1 cht_facts)) Hleaf) as Hstep.
    fold (Gc 0) in Hstep.
    destruct (needed_hashes H (first_leaf_num nseg) (rooted (Gc 0) mc) j true) as [[|x nd]|]; [| |destruct Hstep].
    - eexists. reflexivity.
    - destruct Hstep as [hs [T1 [S1 [S2 _]]]]. cbn [g_share s_ct_hashes]. rewrite S1, S2. eexists. reflexivity.
  Qed.

  (* Every block of every genuine share is accepted by a download that starts fresh. *)
  Theorem new_node_accepts_genuine_block : forall ver o i j ords,
    check_offsets H UB (sh_of ver o i) = None ->
    0 <= i < nn -> 0 <= j < nseg ->
    exists dn',
      get_block H H_eqb pair_hash truthy block_hash UB ueb_hash parse_ueb c (node_init H c) i j (sh_of ver o i) ords
      = (dn', GBlock (gblock f i j)).
  Proof.
    intros ver o i j ords Hoff Hi Hj. unfold ImmVerify.get_block. rewrite Hoff.
    (* the UEB *)
    unfold stage_ueb, node_init. cbn [dn_segsize g_share s_ueb].
    unfold store_ueb. cbn [g_cap c_ueb_hash].
    assert (H_eqb (ueb_hash (ser_ueb (g_ueb H pair_hash empty_leaf block_hash seg_hash f)))
                  (ueb_hash (ser_ueb (g_ueb H pair_hash empty_leaf block_hash seg_hash f))) = true) as -> by (apply H_eqb_spec; reflexivity).
    cbn [negb]. rewrite parse_ser. cbn [g_ueb u_segment_size u_crypttext_root u_share_root g_cap c_k c_n dn_sht].
    destruct Hwf as [Wk Ws Wm Wb Wg].
    assert (((ef_segsize f =? 0) || (ef_k f =? 0) || negb (ef_segsize f mod ef_k f =? 0))%N = false) as ->.
    { rewrite Wm. cbn [N.eqb negb]. rewrite orb_false_r. apply orb_false_iff. split; apply N.eqb_neq; lia. }
    change (node_nseg H c (ef_segsize f)) with nseg. fold nn.
    unfold seed_root.
    destruct (fresh_is_repeat H nseg) as [mc [Ec Lc]]. rewrite Ec, seed_fresh by assumption.
    destruct (fresh_is_repeat H nn) as [ms [Es Ls]]. rewrite Es, seed_fresh by assumption.
    cbn [and_then dn_segsize]. change (node_nseg H c (ef_segsize f)) with nseg.
    assert (((j <? 0) || (nseg <=? j)) = false) as -> by (apply orb_false_iff; split; [apply Z.ltb_ge|apply Z.leb_gt]; lia).
    fold (Gs 0). fold (Gc 0). fold (rooted (Gs 0) ms). fold (rooted (Gc 0) mc).
    (* share hash chain *)
    destruct (stage_share_hashes_complete (ef_segsize f) (rooted (Gc 0) mc) [] ms ver o i ords Ls Hi) as [sht2 [E2 G2]].
    rewrite E2. cbn [and_then].
    (* block hash tree root *)
    rewrite (stage_block_root_complete (ef_segsize f) sht2 (rooted (Gc 0) mc) i ords mc Lc Hi G2). cbn [and_then].
    (* block hash tree *)
    destruct (stage_block_hashes_complete (ef_segsize f) sht2 (rooted (Gc 0) mc) i j ver o ords mc Lc Hj) as [T [E4 [S4 Z4]]].
    rewrite E4. cbn [and_then].
    (* crypttext hash tree *)
    destruct (stage_ct_hashes_complete (ef_segsize f) sht2 (bht_put H [] i T) i j ver o ords mc Lc Hj) as [cht2 E5].
    rewrite E5. cbn [and_then].
    (* the block *)
    unfold stage_block, common_bht. cbn [dn_bht dn_sht dn_cht dn_segsize g_share s_blocks].
    rewrite bht_get_put, Z.eqb_refl.
    rewrite (zassoc_map_seq (list N) (fun j0 => gblock f i (Z.of_nat j0)) (length (ef_blocks f)) 0%nat j)
      by (rewrite Wb; unfold ImmVerify.nseg in Hj; lia).
    rewrite Z2Nat.id by lia.
    rewrite (set_hashes_known_leaf (first_leaf_num nseg) T j (block_hash (gblock f i j)) (ords 6%nat)).
    - eexists. reflexivity.
    - rewrite Z4. apply fl_leaf_range. exact Hj.
    - rewrite S4. f_equal. apply (proj2 (bht_facts i) j Hj).
  Qed.
End Complete.
