(* Base lemmas for Model/Dirnode.v: the byte-string order, sorted maps,
   netstring parsing of packed output, lengths of the hash outputs used by the
   write-cap field. *)
From Coq Require Import List NArith ZArith Bool Lia.
From Verif Require Import Lib.Hex Lib.Decimal Lib.DecimalFacts Lib.Netstring Lib.SHA256 Lib.HashPrim Gen.Hashutil Model.Dirnode.
Import ListNotations.
Local Open Scope N_scope.

(* ------------------------------------------------------------------ *)
(* bcmp                                                                *)

Lemma bcmp_refl a : bcmp a a = Eq.
Proof. induction a as [|x a IH]; cbn; [reflexivity|]. rewrite N.compare_refl. exact IH. Qed.

Lemma bcmp_eq a b : bcmp a b = Eq -> a = b.
Proof.
  revert b; induction a as [|x a IH]; destruct b as [|y b]; cbn; intro H; try discriminate; [reflexivity|].
  destruct (N.compare x y) eqn:E; try discriminate.
  apply N.compare_eq in E. subst. f_equal. apply IH. exact H.
Qed.

Lemma bcmp_eq_iff a b : bcmp a b = Eq <-> a = b.
Proof. split; [apply bcmp_eq|intros ->; apply bcmp_refl]. Qed.

Lemma bcmp_antisym a b : bcmp b a = CompOpp (bcmp a b).
Proof.
  revert b; induction a as [|x a IH]; destruct b as [|y b]; cbn; try reflexivity.
  rewrite (N.compare_antisym x y). destruct (N.compare x y); cbn; try reflexivity. apply IH.
Qed.

Lemma bcmp_lt_gt a b : bcmp a b = Lt -> bcmp b a = Gt.
Proof. intro H. rewrite bcmp_antisym, H. reflexivity. Qed.

Lemma bcmp_gt_lt a b : bcmp a b = Gt -> bcmp b a = Lt.
Proof. intro H. rewrite bcmp_antisym, H. reflexivity. Qed.

Lemma bcmp_lt_trans a b c : bcmp a b = Lt -> bcmp b c = Lt -> bcmp a c = Lt.
Proof.
  revert b c; induction a as [|x a IH]; destruct b as [|y b]; destruct c as [|z c]; cbn; intros H1 H2; try discriminate; try reflexivity.
  destruct (N.compare x y) eqn:E1; try discriminate.
  - apply N.compare_eq in E1. subst y.
    destruct (N.compare x z) eqn:E2; try discriminate; try reflexivity.
    eapply IH; eassumption.
  - destruct (N.compare y z) eqn:E2; try discriminate.
    + apply N.compare_eq in E2. subst z. rewrite E1. reflexivity.
    + assert (E3 : (x ?= z) = Lt) by (rewrite N.compare_lt_iff in *; lia).
      rewrite E3. reflexivity.
Qed.

Lemma beqb_eq a b : beqb a b = true <-> a = b.
Proof.
  unfold beqb. split.
  - destruct (bcmp a b) eqn:E; try discriminate. intros _. apply bcmp_eq. exact E.
  - intros ->. rewrite bcmp_refl. reflexivity.
Qed.

Lemma beqb_refl a : beqb a a = true.
Proof. apply beqb_eq. reflexivity. Qed.

Lemma beqb_neq a b : a <> b -> beqb a b = false.
Proof. intro H. destruct (beqb a b) eqn:E; [|reflexivity]. apply beqb_eq in E. contradiction. Qed.

Lemma beqb_false a b : beqb a b = false -> a <> b.
Proof. intros H ->. rewrite beqb_refl in H. discriminate. Qed.

Lemma beqb_sym a b : beqb a b = beqb b a.
Proof.
  destruct (beqb a b) eqn:E.
  - apply beqb_eq in E. subst. symmetry. apply beqb_refl.
  - symmetry. apply beqb_neq. intro H. subst. rewrite beqb_refl in E. discriminate.
Qed.

Lemma beqb_of_lt a b : bcmp a b = Lt -> beqb a b = false.
Proof. unfold beqb. intros ->. reflexivity. Qed.

Lemma beqb_of_gt a b : bcmp a b = Gt -> beqb a b = false.
Proof. unfold beqb. intros ->. reflexivity. Qed.

Lemma obeqb_eq a b : obeqb a b = true <-> a = b.
Proof.
  destruct a, b; cbn; split; intro H; try discriminate; try reflexivity.
  - apply beqb_eq in H. subst. reflexivity.
  - inversion H. apply beqb_refl.
Qed.

Lemma node_eqb_eq a b : node_eqb a b = true <-> a = b.
Proof.
  split.
  - unfold node_eqb. intro H. rewrite !andb_true_iff in H.
    destruct H as [[[[Hk Hw] Hr] Hm] He].
    destruct a as [k1 w1 r1 m1 e1], b as [k2 w2 r2 m2 e2]; cbn in *.
    apply obeqb_eq in Hw. apply obeqb_eq in Hr. apply Bool.eqb_prop in Hm.
    assert (k1 = k2) by (destruct k1, k2; cbn in Hk; congruence).
    assert (e1 = e2).
    { destruct e1 as [x|], e2 as [y|]; try discriminate; try reflexivity.
      destruct x, y; cbn in He; congruence. }
    subst. reflexivity.
  - intros ->. unfold node_eqb.
    assert (Hk : nkind_eqb (n_kind b) (n_kind b) = true) by (destruct (n_kind b); reflexivity).
    rewrite Hk, (proj2 (obeqb_eq _ _) eq_refl), (proj2 (obeqb_eq _ _) eq_refl), Bool.eqb_reflx.
    destruct (n_err b) as [[]|]; reflexivity.
Qed.

(* ------------------------------------------------------------------ *)
(* sorted maps                                                         *)

Section SMapFacts.
  Context {V : Type}.
  Implicit Types m : smap V.

  Lemma sm_get_set_same k v m : sm_get k (sm_set k v m) = Some v.
  Proof.
    induction m as [|[k1 v1] r IH]; cbn.
    - rewrite beqb_refl. reflexivity.
    - destruct (bcmp k k1) eqn:E; cbn.
      + rewrite beqb_refl. reflexivity.
      + rewrite beqb_refl. reflexivity.
      + rewrite (beqb_of_gt _ _ E). exact IH.
  Qed.

  Lemma sm_get_set_other k k' v m : k <> k' -> sm_get k' (sm_set k v m) = sm_get k' m.
  Proof.
    intro Hne. assert (Hb : beqb k' k = false) by (apply beqb_neq; congruence).
    induction m as [|[k1 v1] r IH]; cbn.
    - rewrite Hb. reflexivity.
    - destruct (bcmp k k1) eqn:E; cbn.
      + apply bcmp_eq in E. subst k1. rewrite Hb. reflexivity.
      + rewrite Hb. reflexivity.
      + destruct (beqb k' k1); [reflexivity|]. exact IH.
  Qed.

  (* every key of m is above k *)
  Definition above (k : bytes) m : Prop := forall k' v, In (k', v) m -> bcmp k k' = Lt.

  Lemma sorted_cons_inv k v m : sm_sorted ((k, v) :: m) = true -> sm_sorted m = true /\ above k m.
  Proof.
    revert k v. induction m as [|[k1 v1] r IH]; intros k v H.
    - split; [reflexivity|]. intros ? ? [].
    - cbn [sm_sorted] in H. destruct (bcmp k k1) eqn:E; try discriminate.
      split; [exact H|].
      intros k' v' [Hin|Hin].
      + inversion Hin; subst. exact E.
      + destruct (IH k1 v1 H) as [_ Hab]. eapply bcmp_lt_trans; [exact E|]. eapply Hab. exact Hin.
  Qed.

  Lemma sorted_cons k v m : sm_sorted m = true -> above k m -> sm_sorted ((k, v) :: m) = true.
  Proof.
    intros Hs Hab. destruct m as [|[k1 v1] r]; [reflexivity|].
    cbn [sm_sorted]. rewrite (Hab k1 v1 (or_introl eq_refl)). exact Hs.
  Qed.

  Lemma sm_get_above k m : above k m -> sm_get k m = None.
  Proof.
    induction m as [|[k1 v1] r IH]; intro H; [reflexivity|]. cbn.
    rewrite (beqb_of_lt _ _ (H k1 v1 (or_introl eq_refl))). apply IH.
    intros k' v' Hin. eapply H. right. exact Hin.
  Qed.

  Lemma sm_set_above k k0 v m : above k0 m -> bcmp k0 k = Lt -> above k0 (sm_set k v m).
  Proof.
    induction m as [|[k1 v1] r IH]; intros Hab Hlt; cbn.
    - intros k' v' [Hin|[]]. inversion Hin; subst. exact Hlt.
    - destruct (bcmp k k1) eqn:E.
      + intros k' v' [Hin|Hin]; [inversion Hin; subst; exact Hlt|]. eapply Hab. right. exact Hin.
      + intros k' v' [Hin|Hin]; [inversion Hin; subst; exact Hlt|]. eapply Hab. exact Hin.
      + intros k' v' [Hin|Hin].
        * eapply Hab. left. exact Hin.
        * eapply IH; [|exact Hlt|exact Hin]. intros ? ? ?. eapply Hab. right. eassumption.
  Qed.

  Lemma sm_set_sorted k v m : sm_sorted m = true -> sm_sorted (sm_set k v m) = true.
  Proof.
    induction m as [|[k1 v1] r IH]; intro Hs; [reflexivity|].
    destruct (sorted_cons_inv _ _ _ Hs) as [Hr Hab].
    cbn [sm_set]. destruct (bcmp k k1) eqn:E.
    - apply bcmp_eq in E. subst k1. apply sorted_cons; assumption.
    - cbn [sm_sorted]. rewrite E. exact Hs.
    - apply sorted_cons; [apply IH; exact Hr|].
      apply sm_set_above; [exact Hab|]. apply bcmp_gt_lt. exact E.
  Qed.

  Lemma sm_del_above k k0 m : above k0 m -> above k0 (sm_del k m).
  Proof.
    induction m as [|[k1 v1] r IH]; intro Hab; cbn; [exact Hab|].
    destruct (beqb k k1).
    - intros ? ? ?. eapply Hab. right. eassumption.
    - intros k' v' [Hin|Hin]; [eapply Hab; left; exact Hin|].
      eapply IH; [|exact Hin]. intros ? ? ?. eapply Hab. right. eassumption.
  Qed.

  Lemma sm_del_sorted k m : sm_sorted m = true -> sm_sorted (sm_del k m) = true.
  Proof.
    induction m as [|[k1 v1] r IH]; intro Hs; [reflexivity|].
    destruct (sorted_cons_inv _ _ _ Hs) as [Hr Hab]. cbn.
    destruct (beqb k k1); [exact Hr|].
    apply sorted_cons; [apply IH; exact Hr|]. apply sm_del_above. exact Hab.
  Qed.

  Lemma sm_get_del_same k m : sm_sorted m = true -> sm_get k (sm_del k m) = None.
  Proof.
    induction m as [|[k1 v1] r IH]; intro Hs; [reflexivity|].
    destruct (sorted_cons_inv _ _ _ Hs) as [Hr Hab]. cbn.
    destruct (beqb k k1) eqn:E.
    - apply beqb_eq in E. subst k1. apply sm_get_above. exact Hab.
    - cbn. rewrite E. apply IH. exact Hr.
  Qed.

  Lemma sm_get_del_other k k' m : k <> k' -> sm_get k' (sm_del k m) = sm_get k' m.
  Proof.
    intro Hne. induction m as [|[k1 v1] r IH]; [reflexivity|]. cbn.
    destruct (beqb k k1) eqn:E.
    - apply beqb_eq in E. subst k1. rewrite (beqb_neq k' k) by congruence. reflexivity.
    - cbn. destruct (beqb k' k1); [reflexivity|exact IH].
  Qed.

  (* appending a key above all others *)
  Lemma sm_set_snoc k v m :
    (forall k' v', In (k', v') m -> bcmp k' k = Lt) -> sm_set k v m = m ++ [(k, v)].
  Proof.
    induction m as [|[k1 v1] r IH]; intro H; [reflexivity|]. cbn.
    rewrite (bcmp_lt_gt _ _ (H k1 v1 (or_introl eq_refl))). f_equal. apply IH.
    intros ? ? ?. eapply H. right. eassumption.
  Qed.

  Lemma sorted_app_below (a : smap V) k v (r : smap V) :
    sm_sorted (a ++ (k, v) :: r) = true -> forall k' v', In (k', v') a -> bcmp k' k = Lt.
  Proof.
    induction a as [|[k1 v1] a IH]; intros Hs k' v' Hin; [destruct Hin|].
    cbn [app] in Hs. destruct (sorted_cons_inv _ _ _ Hs) as [Hr Hab].
    destruct Hin as [Hin|Hin].
    - inversion Hin; subst. eapply Hab. apply in_or_app. right. left. reflexivity.
    - eapply IH; eassumption.
  Qed.

  (* d = {}; inserting the entries of a sorted list in order rebuilds it *)
  Lemma fold_set_sorted (l acc : smap V) :
    sm_sorted (acc ++ l) = true ->
    fold_left (fun m kv => sm_set (fst kv) (snd kv) m) l acc = acc ++ l.
  Proof.
    revert acc. induction l as [|[k v] r IH]; intros acc Hs; cbn [fold_left].
    - rewrite app_nil_r. reflexivity.
    - cbn [fst snd]. rewrite sm_set_snoc by (eapply sorted_app_below; exact Hs).
      rewrite IH; rewrite <- app_assoc; cbn [app]; [reflexivity|exact Hs].
  Qed.

  Lemma sm_of_list_sorted (m : smap V) : sm_sorted m = true -> sm_of_list m = m.
  Proof. intro H. unfold sm_of_list. rewrite fold_set_sorted; [reflexivity|exact H]. Qed.

  Lemma fold_set_is_sorted (l : list (bytes * V)) acc :
    sm_sorted acc = true -> sm_sorted (fold_left (fun m kv => sm_set (fst kv) (snd kv) m) l acc) = true.
  Proof.
    revert acc. induction l as [|kv r IH]; intros acc H; cbn [fold_left]; [exact H|].
    apply IH. apply sm_set_sorted. exact H.
  Qed.

  Lemma sm_of_list_is_sorted (l : list (bytes * V)) : sm_sorted (sm_of_list l) = true.
  Proof. apply fold_set_is_sorted. reflexivity. Qed.

  (* the dict semantics of repeated assignment: the last binding of a key wins *)
  Fixpoint last_binding (k : bytes) (l : list (bytes * V)) : option V :=
    match l with
    | [] => None
    | (k', v) :: r => match last_binding k r with
                      | Some v' => Some v'
                      | None => if beqb k k' then Some v else None
                      end
    end.

  Lemma fold_set_get k (l : list (bytes * V)) acc :
    sm_get k (fold_left (fun m kv => sm_set (fst kv) (snd kv) m) l acc)
    = match last_binding k l with Some v => Some v | None => sm_get k acc end.
  Proof.
    revert acc. induction l as [|[k1 v1] r IH]; intro acc; cbn [fold_left last_binding]; [reflexivity|].
    rewrite IH. cbn [fst snd]. destruct (last_binding k r); [reflexivity|].
    destruct (beqb k k1) eqn:E.
    - apply beqb_eq in E. subst k1. apply sm_get_set_same.
    - apply sm_get_set_other. apply beqb_false in E. congruence.
  Qed.

  Lemma sm_of_list_get k (l : list (bytes * V)) : sm_get k (sm_of_list l) = last_binding k l.
  Proof. unfold sm_of_list. rewrite fold_set_get. destruct (last_binding k l); reflexivity. Qed.

  Lemma sm_get_in k v m : sm_get k m = Some v -> In (k, v) m.
  Proof.
    induction m as [|[k1 v1] r IH]; cbn; [discriminate|].
    destruct (beqb k k1) eqn:E.
    - apply beqb_eq in E. subst. intro H. inversion H. left. reflexivity.
    - intro H. right. apply IH. exact H.
  Qed.

  Lemma sm_in_get k v m : sm_sorted m = true -> In (k, v) m -> sm_get k m = Some v.
  Proof.
    induction m as [|[k1 v1] r IH]; intros Hs Hin; [destruct Hin|].
    destruct (sorted_cons_inv _ _ _ Hs) as [Hr Hab]. cbn.
    destruct Hin as [Hin|Hin].
    - inversion Hin; subst. rewrite beqb_refl. reflexivity.
    - rewrite beqb_sym, (beqb_of_lt _ _ (Hab _ _ Hin)). apply IH; assumption.
  Qed.

  Lemma sm_set_in k v k' v' m : In (k', v') (sm_set k v m) -> (k' = k /\ v' = v) \/ In (k', v') m.
  Proof.
    induction m as [|[k1 v1] r IH]; cbn.
    - intros [H|[]]. inversion H. left. split; reflexivity.
    - destruct (bcmp k k1) eqn:E.
      + intros [H|H]; [inversion H; left; split; reflexivity|right; right; exact H].
      + intros [H|H]; [inversion H; left; split; reflexivity|right; exact H].
      + intros [H|H]; [right; left; exact H|]. destruct (IH H) as [?|?]; [left; assumption|right; right; assumption].
  Qed.

  Lemma sm_del_in k k' v' m : In (k', v') (sm_del k m) -> In (k', v') m.
  Proof.
    induction m as [|[k1 v1] r IH]; cbn; [tauto|].
    destruct (beqb k k1); [intro; right; assumption|].
    intros [H|H]; [left; exact H|right; apply IH; exact H].
  Qed.
End SMapFacts.

(* maps on values (possibly looking at the key) commute with the map operations *)
Section SMapMap.
  Context {A B : Type}.
  Variable f : bytes -> A -> B.
  Definition kvmap (m : smap A) : smap B := map (fun kv => (fst kv, f (fst kv) (snd kv))) m.

  Lemma kvmap_get k m : sm_get k (kvmap m) = option_map (f k) (sm_get k m).
  Proof.
    induction m as [|[k1 v1] r IH]; cbn; [reflexivity|].
    destruct (beqb k k1) eqn:E; [|exact IH]. apply beqb_eq in E. subst. reflexivity.
  Qed.

  Lemma kvmap_set k v m : kvmap (sm_set k v m) = sm_set k (f k v) (kvmap m).
  Proof.
    induction m as [|[k1 v1] r IH]; cbn; [reflexivity|].
    destruct (bcmp k k1); cbn; try reflexivity. f_equal. exact IH.
  Qed.

  Lemma kvmap_del k m : kvmap (sm_del k m) = sm_del k (kvmap m).
  Proof.
    induction m as [|[k1 v1] r IH]; cbn; [reflexivity|].
    destruct (beqb k k1); cbn; [reflexivity|]. f_equal. exact IH.
  Qed.

  Lemma kvmap_sorted m : sm_sorted (kvmap m) = sm_sorted m.
  Proof.
    induction m as [|[k1 v1] r IH]; [reflexivity|].
    destruct r as [|[k2 v2] r']; [reflexivity|].
    cbn [kvmap map fst snd sm_sorted] in *. destruct (bcmp k1 k2); try reflexivity. exact IH.
  Qed.

  Lemma kvmap_fold (l : list (bytes * A)) acc :
    kvmap (fold_left (fun m kv => sm_set (fst kv) (snd kv) m) l acc)
    = fold_left (fun m kv => sm_set (fst kv) (snd kv) m) (map (fun kv => (fst kv, f (fst kv) (snd kv))) l) (kvmap acc).
  Proof.
    revert acc. induction l as [|[k v] r IH]; intro acc; cbn [fold_left map]; [reflexivity|].
    rewrite IH. cbn [fst snd]. rewrite kvmap_set. reflexivity.
  Qed.

  Lemma kvmap_of_list (l : list (bytes * A)) :
    kvmap (sm_of_list l) = sm_of_list (map (fun kv => (fst kv, f (fst kv) (snd kv))) l).
  Proof. unfold sm_of_list. rewrite kvmap_fold. reflexivity. Qed.
End SMapMap.

Lemma kvmap_kvmap {A B C} (f : bytes -> A -> B) (g : bytes -> B -> C) m :
  kvmap g (kvmap f m) = kvmap (fun k v => g k (f k v)) m.
Proof. unfold kvmap. rewrite map_map. reflexivity. Qed.

Lemma kvmap_id {A} (f : bytes -> A -> A) (m : smap A) :
  (forall k v, In (k, v) m -> f k v = v) -> kvmap f m = m.
Proof.
  induction m as [|[k v] r IH]; intro H; [reflexivity|]. cbn.
  rewrite (H k v (or_introl eq_refl)). f_equal. apply IH. intros ? ? ?. apply H. right. assumption.
Qed.

Lemma kvmap_ext {A B} (f g : bytes -> A -> B) (m : smap A) :
  (forall k v, In (k, v) m -> f k v = g k v) -> kvmap f m = kvmap g m.
Proof.
  induction m as [|[k v] r IH]; intro H; [reflexivity|]. cbn.
  rewrite (H k v (or_introl eq_refl)). f_equal. apply IH. intros ? ? ?. apply H. right. assumption.
Qed.

Lemma sm_of_list_in {V} (l : list (bytes * V)) k v : In (k, v) (sm_of_list l) -> In (k, v) l.
Proof.
  unfold sm_of_list.
  assert (G : forall acc, In (k, v) (fold_left (fun m kv => sm_set (fst kv) (snd kv) m) l acc) -> In (k, v) l \/ In (k, v) acc).
  { induction l as [|[k1 v1] r IH]; intros acc H; cbn [fold_left] in H; [right; exact H|].
    destruct (IH _ H) as [?|Hin]; [left; right; assumption|].
    cbn [fst snd] in Hin. destruct (sm_set_in _ _ _ _ _ Hin) as [[-> ->]|?]; [left; left; reflexivity|right; assumption]. }
  intro H. destruct (G [] H) as [?|[]]. assumption.
Qed.

Lemma firstn_app_exact {A} (a b : list A) n : List.length a = n -> firstn n (a ++ b) = a.
Proof. intros <-. rewrite firstn_app, firstn_all, Nat.sub_diag. cbn. apply app_nil_r. Qed.

Lemma skipn_app_exact {A} (a b : list A) n : List.length a = n -> skipn n (a ++ b) = b.
Proof. intros <-. rewrite skipn_app, skipn_all, Nat.sub_diag. reflexivity. Qed.

(* ------------------------------------------------------------------ *)
(* netstrings                                                          *)

Lemma split_colon_app l r :
  (forall b, In b l -> b <> 58) -> split_colon (l ++ 58 :: r) = Some (l, r).
Proof.
  induction l as [|b l IH]; intro H; cbn.
  - reflexivity.
  - destruct (b =? 58) eqn:E.
    + apply N.eqb_eq in E. exfalso. apply (H b); [left; reflexivity|exact E].
    + rewrite IH; [reflexivity|]. intros ? ?. apply H. right. assumption.
Qed.

Lemma blen_app a b : blen (a ++ b) = blen a + blen b.
Proof. unfold blen. rewrite app_length. lia. Qed.

Lemma parse_ns_netstring s r : parse_ns (netstring s ++ r) = Some (s, r).
Proof.
  unfold parse_ns, netstring. rewrite <- !app_assoc. cbn [app].
  rewrite split_colon_app.
  2:{ intros b Hb E. subst b. revert Hb. apply dec_no_byte. reflexivity. }
  rewrite undec_dec.
  replace (blen (s ++ 44 :: r) <? blen s) with false.
  2:{ symmetry. apply N.ltb_ge. rewrite blen_app. lia. }
  unfold blen. rewrite Nat2N.id.
  rewrite skipn_app, skipn_all, Nat.sub_diag. cbn [skipn app].
  rewrite firstn_app, firstn_all, Nat.sub_diag. cbn [firstn]. rewrite app_nil_r. reflexivity.
Qed.

Lemma parse_ns_netstring_nil s : parse_ns (netstring s) = Some (s, []).
Proof. rewrite <- (app_nil_r (netstring s)). apply parse_ns_netstring. Qed.

Lemma parse_k4 a b c d r :
  parse_k 4 (netstring a ++ netstring b ++ netstring c ++ netstring d ++ r) = Some ([a; b; c; d], r).
Proof. cbn [parse_k]. rewrite !parse_ns_netstring. reflexivity. Qed.

Lemma netstring_nonempty s : netstring s <> [].
Proof.
  unfold netstring. pose proof (dec_nonempty (blen s)) as H. destruct (dec (blen s)); [congruence|discriminate].
Qed.

Lemma netstring_length_pos s : (1 <= List.length (netstring s))%nat.
Proof. pose proof (netstring_nonempty s). destruct (netstring s); [congruence|cbn; lia]. Qed.

Definition concat_ns (es : list bytes) : bytes := concat (map netstring es).

Lemma parse_all_concat es fuel :
  (List.length es <= fuel)%nat -> parse_all fuel (concat_ns es) = Some es.
Proof.
  revert fuel. induction es as [|e es IH]; intros fuel H.
  - destruct fuel; reflexivity.
  - destruct fuel as [|f]; [cbn in H; lia|].
    unfold concat_ns. cbn [map concat].
    destruct (netstring e ++ concat (map netstring es)) eqn:E.
    { exfalso. apply app_eq_nil in E. destruct E as [E _]. revert E. apply netstring_nonempty. }
    rewrite <- E. cbn [parse_all].
    assert (Hne : exists x y, netstring e ++ concat (map netstring es) = x :: y) by (rewrite E; eauto).
    destruct Hne as (x & y & Hxy). rewrite Hxy. rewrite <- Hxy.
    rewrite parse_ns_netstring. fold (concat_ns es). rewrite IH; [reflexivity|]. cbn in H. lia.
Qed.

Lemma concat_ns_length es : (List.length es <= List.length (concat_ns es))%nat.
Proof.
  induction es as [|e es IH]; [cbn; lia|].
  unfold concat_ns in *. cbn [map concat]. rewrite app_length. cbn [List.length].
  pose proof (netstring_length_pos e). lia.
Qed.

Lemma parse_all_packed es : parse_all (S (List.length (concat_ns es))) (concat_ns es) = Some es.
Proof. apply parse_all_concat. pose proof (concat_ns_length es). lia. Qed.

(* ------------------------------------------------------------------ *)
(* hash output lengths                                                 *)

Lemma be_bytes_length n x : List.length (be_bytes n x) = n.
Proof. revert x. induction n as [|n IH]; intro x; cbn; [reflexivity|]. rewrite app_length, IH. cbn. lia. Qed.

Lemma sha256_length m : List.length (sha256 m) = 32%nat.
Proof.
  unfold sha256.
  destruct (fold_left compress256 _ _) as [[[[[[[a b] c] d] e] f] g] h].
  rewrite !app_length, !be_bytes_length. reflexivity.
Qed.

Lemma hmac_length k d : List.length (hmac k d) = 32%nat.
Proof. unfold hmac. apply sha256_length. Qed.

Lemma salt_length rw : List.length (mutable_rwcap_salt_hash rw) = 16%nat.
Proof.
  unfold mutable_rwcap_salt_hash, tagged_hash, hasher_digest, truncate.
  cbn [h_trunc tagged_hasher mk_hasher hasher_update IVLEN].
  change (IVLEN =? 0) with false. change (N.to_nat IVLEN) with 16%nat. cbv iota.
  rewrite firstn_length. unfold sha256d. rewrite sha256_length. reflexivity.
Qed.
