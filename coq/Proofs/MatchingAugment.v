(* The flow invariant of the bipartite unit-capacity network and its preservation by
   one augmentation along a BFS path. *)
From Coq Require Import List NArith ZArith Bool Arith Lia.
From Verif Require Import Model.Matching Proofs.MatchingLists Proofs.MatchingResidual Proofs.MatchingPath.
Import ListNotations.

(* ---------- the layered network: 0 source, 1..ns servers, ns+1..ns+nsh shares, sink ---- *)

Record Net (g : graph) (ns nsh : nat) : Prop := {
  net_len : length g = ns + nsh + 2;
  net_src : adj g 0 = seq 1 ns;
  net_srv : forall i, 1 <= i <= ns ->
            (forall s, In s (adj g i) -> ns < s <= ns + nsh) /\ NoDup (adj g i);
  net_shr : forall s, ns < s <= ns + nsh -> adj g s = [ns + nsh + 1];
  net_snk : adj g (ns + nsh + 1) = []
}.

Section Network.
Variables (g : graph) (ns nsh : nat).
Hypothesis HN : Net g ns nsh.

Let t := ns + nsh + 1.
Let dim := ns + nsh + 2.
Definition server (i : nat) : Prop := 1 <= i <= ns.
Definition share (s : nat) : Prop := ns < s <= ns + nsh.
Definition E (u v : nat) : Prop := In v (adj g u).

Lemma E_cases : forall u v, E u v ->
  (u = 0 /\ server v) \/ (server u /\ share v) \/ (share u /\ v = t).
Proof.
  intros u v H. unfold E in H.
  destruct (Nat.eq_dec u 0) as [->|H0].
  - left. split; [reflexivity|]. rewrite (net_src _ _ _ HN) in H. apply in_seq in H. unfold server. lia.
  - destruct (Nat.le_gt_cases u ns) as [H1|H1].
    + right. left. assert (Hs : 1 <= u <= ns) by lia. split; [exact Hs|].
      destruct (net_srv _ _ _ HN u Hs) as [Hr _]. apply Hr. exact H.
    + destruct (Nat.le_gt_cases u (ns + nsh)) as [H2|H2].
      * right. right. assert (Hs : ns < u <= ns + nsh) by lia. split; [exact Hs|].
        rewrite (net_shr _ _ _ HN u Hs) in H. destruct H as [H|[]]. subst v. reflexivity.
      * exfalso. destruct (Nat.eq_dec u (ns + nsh + 1)) as [->|H3].
        -- rewrite (net_snk _ _ _ HN) in H. exact H.
        -- unfold adj in H. rewrite nth_overflow in H by (rewrite (net_len _ _ _ HN); lia). exact H.
Qed.

Lemma net_upward : upward g.
Proof.
  split.
  - intros u v H. rewrite (net_len _ _ _ HN).
    destruct (E_cases u v H) as [[-> Hv]|[[Hu Hv]|[Hu ->]]]; unfold server, share, t in *; lia.
  - intros u. destruct (Nat.eq_dec u 0) as [->|H0].
    + rewrite (net_src _ _ _ HN). apply seq_NoDup.
    + destruct (Nat.le_gt_cases u ns) as [H1|H1].
      * apply (net_srv _ _ _ HN u). lia.
      * destruct (Nat.le_gt_cases u (ns + nsh)) as [H2|H2].
        -- rewrite (net_shr _ _ _ HN u) by lia. constructor; [intros [] | constructor].
        -- destruct (Nat.eq_dec u (ns + nsh + 1)) as [->|H3].
           ++ rewrite (net_snk _ _ _ HN). constructor.
           ++ unfold adj. rewrite nth_overflow by (rewrite (net_len _ _ _ HN); lia). constructor.
Qed.

Lemma E_src : forall i, server i -> E 0 i.
Proof. intros i H. unfold E. rewrite (net_src _ _ _ HN). apply in_seq. unfold server in H. lia. Qed.

Lemma E_snk : forall s, share s -> E s t.
Proof. intros s H. unfold E. rewrite (net_shr _ _ _ HN s H). left. reflexivity. Qed.

(* ---------- the invariant ------------------------------------------------------------- *)

Record Inv (f : matrix) : Prop := {
  inv_shape : shape dim f;
  inv_01 : forall u v, E u v -> mget f u v = 0%Z \/ mget f u v = 1%Z;
  inv_out : forall i s s', server i -> E i s -> E i s' -> mget f i s = 1%Z -> mget f i s' = 1%Z -> s = s';
  inv_in : forall s i i', E i s -> E i' s -> server i -> server i' ->
                          mget f i s = 1%Z -> mget f i' s = 1%Z -> i = i';
  inv_srv : forall i, server i -> (mget f 0 i = 1%Z <-> exists s, E i s /\ mget f i s = 1%Z);
  inv_shr : forall s, share s -> (mget f s t = 1%Z <-> exists i, server i /\ E i s /\ mget f i s = 1%Z)
}.

Lemma inv_zero : Inv (zero_matrix dim).
Proof.
  constructor.
  - apply shape_zero.
  - intros. left. apply mget_zero.
  - intros i s s' _ _ _ H. rewrite mget_zero in H. discriminate.
  - intros s i i' _ _ _ _ H. rewrite mget_zero in H. discriminate.
  - intros i _. rewrite mget_zero. split; [discriminate|]. intros [s [_ H]]. rewrite mget_zero in H. discriminate.
  - intros s _. rewrite mget_zero. split; [discriminate|]. intros [i [_ [_ H]]]. rewrite mget_zero in H. discriminate.
Qed.

(* ---------- an augmenting path ---------------------------------------------------------- *)

Record PathOK (f : matrix) (path : list (nat * nat)) : Prop := {
  pk_chain : chain path 0 t;
  pk_lev : exists d, levelled d path;
  pk_res : forall u v, In (u, v) path -> residual_edge g f u v
}.

Section Augment.
Variables (f : matrix) (path : list (nat * nat)).
Hypothesis HI : Inv f.
Hypothesis HP : PathOK f path.

Let f' := augment f 1%Z path.

Lemma res_bounds : forall u v, residual_edge g f u v -> u < dim /\ v < dim /\ u <> v.
Proof.
  intros u v [[H _]|[H _]]; destruct (proj1 net_upward _ _ H) as [H1 H2];
    rewrite (net_len _ _ _ HN) in H2; unfold dim; lia.
Qed.

(* forward use of a graph edge / backward use / untouched *)
Lemma aug_cases : forall a b, E a b ->
  (In (a, b) path /\ mget f a b = 0%Z /\ mget f' a b = 1%Z) \/
  (In (b, a) path /\ mget f a b = 1%Z /\ mget f' a b = 0%Z) \/
  (~ In (a, b) path /\ ~ In (b, a) path /\ mget f' a b = mget f a b).
Proof.
  intros a b Hab. destruct (pk_lev _ _ HP) as [d Hl].
  assert (Hlt : a < b) by (apply (proj1 net_upward _ _ Hab)).
  assert (Hnba : ~ E b a) by (intro H; pose proof (proj1 (proj1 net_upward _ _ H)); lia).
  unfold f'. rewrite (augment_spec dim path f (inv_shape _ HI)).
  - destruct (in_dec edge_eq_dec (a, b) path) as [H1|H1].
    + left. split; [exact H1|]. destruct (pk_res _ _ HP _ _ H1) as [[_ Hf]|[Hba _]]; [|contradiction].
      destruct (inv_01 _ HI _ _ Hab) as [H0|H0]; [|contradiction]. rewrite H0. split; reflexivity.
    + destruct (in_dec edge_eq_dec (b, a) path) as [H2|H2].
      * right. left. split; [exact H2|]. destruct (pk_res _ _ HP _ _ H2) as [[Hba _]|[_ Hf]]; [contradiction|].
        rewrite Hf. split; reflexivity.
      * right. right. split; [exact H1|]. split; [exact H2 | reflexivity].
  - intros u v H. apply res_bounds. apply (pk_res _ _ HP). exact H.
  - eapply levelled_NoDup; [apply (pk_chain _ _ HP) | exact Hl].
  - intros u v. apply (levelled_no_swap d). exact Hl.
Qed.

Lemma no_into_src : forall u, ~ In (u, 0) path.
Proof. destruct (pk_lev _ _ HP) as [d Hl]. apply (chain_no_into_start d _ _ _ (pk_chain _ _ HP) Hl). Qed.

Lemma no_from_snk : forall y, ~ In (t, y) path.
Proof. destruct (pk_lev _ _ HP) as [d Hl]. apply (chain_no_from_end d _ _ _ (pk_chain _ _ HP) Hl). Qed.

Lemma src_unique : forall x y y', In (x, y) path -> In (x, y') path -> y = y'.
Proof. destruct (pk_lev _ _ HP) as [d Hl]. apply (chain_source_unique d _ _ _ (pk_chain _ _ HP) Hl). Qed.

Lemma tgt_unique : forall x x' y, In (x, y) path -> In (x', y) path -> x = x'.
Proof. destruct (pk_lev _ _ HP) as [d Hl]. apply (chain_target_unique d _ _ _ (pk_chain _ _ HP) Hl). Qed.

Lemma f_is0 : forall u v, E u v -> mget f u v <> 1%Z -> mget f u v = 0%Z.
Proof. intros u v H Hn. destruct (inv_01 _ HI _ _ H); [assumption | contradiction]. Qed.

(* the kinds of residual edges a path can use *)
Lemma into_srv : forall u i, In (u, i) path -> server i ->
  (u = 0 /\ mget f 0 i = 0%Z) \/ (share u /\ E i u /\ mget f i u = 1%Z).
Proof.
  intros u i H Hi. destruct (pk_res _ _ HP _ _ H) as [[He Hf]|[He Hf]].
  - left. destruct (E_cases _ _ He) as [[-> _]|[[_ Hs]|[_ Ht]]].
    + split; [reflexivity | apply f_is0; assumption].
    + unfold server, share in *. lia.
    + unfold server, t in *. lia.
  - right. destruct (E_cases _ _ He) as [[E0 _]|[[_ Hs]|[Hs _]]].
    + unfold server in Hi. lia.
    + split; [exact Hs|]. split; assumption.
    + unfold server, share in *. lia.
Qed.

Lemma into_shr : forall u s, In (u, s) path -> share s ->
  server u /\ E u s /\ mget f u s = 0%Z.
Proof.
  intros u s H Hs. destruct (pk_res _ _ HP _ _ H) as [[He Hf]|[He Hf]].
  - destruct (E_cases _ _ He) as [[_ Hv]|[[Hu _]|[_ Ht]]].
    + unfold server, share in *. lia.
    + split; [exact Hu|]. split; [exact He | apply f_is0; assumption].
    + unfold share, t in *. lia.
  - exfalso. destruct (E_cases _ _ He) as [[E0 _]|[[Hu _]|[_ Ht]]].
    + unfold share in Hs. lia.
    + unfold server, share in *. lia.
    + subst u. apply (no_from_snk s). exact H.
Qed.

Lemma from_srv : forall i y, In (i, y) path -> server i -> share y /\ E i y /\ mget f i y = 0%Z.
Proof.
  intros i y H Hi. destruct (pk_res _ _ HP _ _ H) as [[He Hf]|[He Hf]].
  - destruct (E_cases _ _ He) as [[E0 _]|[[_ Hs]|[Hs _]]].
    + unfold server in Hi. lia.
    + split; [exact Hs|]. split; [exact He | apply f_is0; assumption].
    + unfold server, share in *. lia.
  - exfalso. destruct (E_cases _ _ He) as [[-> _]|[[_ Hs]|[_ Ht]]].
    + apply (no_into_src i). exact H.
    + unfold server, share in *. lia.
    + unfold server, t in *. lia.
Qed.

Lemma from_shr : forall s y, In (s, y) path -> share s ->
  (y = t /\ mget f s t = 0%Z) \/ (server y /\ E y s /\ mget f y s = 1%Z).
Proof.
  intros s y H Hs. destruct (pk_res _ _ HP _ _ H) as [[He Hf]|[He Hf]].
  - left. destruct (E_cases _ _ He) as [[E0 _]|[[Hu _]|[_ ->]]].
    + unfold share in Hs. lia.
    + unfold server, share in *. lia.
    + split; [reflexivity | apply f_is0; assumption].
  - right. destruct (E_cases _ _ He) as [[-> _]|[[Hu _]|[Hu Ht]]].
    + exfalso. apply (no_into_src s). exact H.
    + split; [exact Hu|]. split; assumption.
    + unfold share, t in *. lia.
Qed.

Lemma srv_in_out : forall u i, In (u, i) path -> server i -> exists y, In (i, y) path.
Proof.
  intros u i H Hi. apply (chain_in_out _ _ _ (pk_chain _ _ HP) u i H). unfold server, t in *. lia.
Qed.

Lemma srv_out_in : forall i y, In (i, y) path -> server i -> exists u, In (u, i) path.
Proof.
  intros i y H Hi. apply (chain_out_in _ _ _ (pk_chain _ _ HP) i y H). unfold server in *. lia.
Qed.

Lemma shr_in_out : forall u s, In (u, s) path -> share s -> exists y, In (s, y) path.
Proof.
  intros u s H Hs. apply (chain_in_out _ _ _ (pk_chain _ _ HP) u s H). unfold share, t in *. lia.
Qed.

Lemma shr_out_in : forall s y, In (s, y) path -> share s -> exists u, In (u, s) path.
Proof.
  intros s y H Hs. apply (chain_out_in _ _ _ (pk_chain _ _ HP) s y H). unfold share in *. lia.
Qed.

(* new value 1 on a server->share edge: either used forwards, or old and untouched *)
Lemma new_one : forall a b, E a b -> mget f' a b = 1%Z ->
  In (a, b) path \/ (~ In (a, b) path /\ ~ In (b, a) path /\ mget f a b = 1%Z).
Proof.
  intros a b Hab H1. destruct (aug_cases a b Hab) as [[H _]|[[_ [_ H0]]|[Ha [Hb He]]]].
  - left. exact H.
  - rewrite H0 in H1. discriminate.
  - right. split; [exact Ha|]. split; [exact Hb|]. rewrite <- He. exact H1.
Qed.

Theorem augment_preserves : Inv f'.
Proof.
  constructor.
  - apply shape_augment. apply (inv_shape _ HI).
  - intros u v Huv. destruct (aug_cases u v Huv) as [[_ [_ H]]|[[_ [_ H]]|[_ [_ H]]]].
    + right. exact H.
    + left. exact H.
    + rewrite H. apply (inv_01 _ HI). exact Huv.
  - (* at most one unit out of a server *)
    intros i s s' Hi Hs Hs' H1 H2.
    destruct (new_one _ _ Hs H1) as [P1|[N1 [N1' O1]]]; destruct (new_one _ _ Hs' H2) as [P2|[N2 [N2' O2]]].
    + eapply src_unique; eassumption.
    + exfalso. destruct (srv_out_in _ _ P1 Hi) as [u Hu].
      destruct (into_srv _ _ Hu Hi) as [[-> Hf0]|[Hus [Heu Hfu]]].
      * assert (Hx : mget f 0 i = 1%Z) by (apply (inv_srv _ HI i Hi); exists s'; split; assumption).
        rewrite Hf0 in Hx. discriminate.
      * assert (u = s') by (apply (inv_out _ HI i u s' Hi Heu Hs' Hfu O2)). subst u. contradiction.
    + exfalso. destruct (srv_out_in _ _ P2 Hi) as [u Hu].
      destruct (into_srv _ _ Hu Hi) as [[-> Hf0]|[Hus [Heu Hfu]]].
      * assert (Hx : mget f 0 i = 1%Z) by (apply (inv_srv _ HI i Hi); exists s; split; assumption).
        rewrite Hf0 in Hx. discriminate.
      * assert (u = s) by (apply (inv_out _ HI i u s Hi Heu Hs Hfu O1)). subst u. contradiction.
    + apply (inv_out _ HI i s s' Hi Hs Hs' O1 O2).
  - (* at most one unit into a share *)
    intros s i i' Hs Hs' Hi Hi' H1 H2.
    assert (Hsh : share s).
    { destruct (E_cases _ _ Hs) as [[E0 _]|[[_ H]|[H _]]]; [unfold server in Hi; lia | exact H | unfold server, share in *; lia]. }
    destruct (new_one _ _ Hs H1) as [P1|[N1 [N1' O1]]]; destruct (new_one _ _ Hs' H2) as [P2|[N2 [N2' O2]]].
    + eapply tgt_unique; eassumption.
    + exfalso. destruct (shr_in_out _ _ P1 Hsh) as [y Hy].
      destruct (from_shr _ _ Hy Hsh) as [[-> Hf0]|[Hys [Hey Hfy]]].
      * assert (Hx : mget f s t = 1%Z) by (apply (inv_shr _ HI s Hsh); exists i'; (split; [assumption | split; assumption])).
        rewrite Hf0 in Hx. discriminate.
      * assert (y = i') by (apply (inv_in _ HI s y i' Hey Hs' Hys Hi' Hfy O2)). subst y. contradiction.
    + exfalso. destruct (shr_in_out _ _ P2 Hsh) as [y Hy].
      destruct (from_shr _ _ Hy Hsh) as [[-> Hf0]|[Hys [Hey Hfy]]].
      * assert (Hx : mget f s t = 1%Z) by (apply (inv_shr _ HI s Hsh); exists i; (split; [assumption | split; assumption])).
        rewrite Hf0 in Hx. discriminate.
      * assert (y = i) by (apply (inv_in _ HI s y i Hey Hs Hys Hi Hfy O1)). subst y. contradiction.
    + apply (inv_in _ HI s i i' Hs Hs' Hi Hi' O1 O2).
  - (* source edge of a server carries a unit iff one of its share edges does *)
    intros i Hi. pose proof (E_src i Hi) as H0i.
    destruct (aug_cases 0 i H0i) as [[P [_ F1]]|[[P _]|[N1 [N2 Fe]]]].
    + rewrite F1. split; [intros _ | reflexivity].
      destruct (srv_in_out _ _ P Hi) as [y Hy]. destruct (from_srv _ _ Hy Hi) as [_ [Hey _]].
      exists y. split; [exact Hey|].
      destruct (aug_cases i y Hey) as [[_ [_ H]]|[[Q _]|[Q _]]]; [exact H | | contradiction].
      exfalso. destruct (pk_lev _ _ HP) as [d Hl]. apply (levelled_no_swap d _ Hl _ _ Hy Q).
    + exfalso. apply (no_into_src i). exact P.
    + rewrite Fe. split.
      * intros H1. apply (inv_srv _ HI i Hi) in H1. destruct H1 as [s0 [He0 Hf0]].
        destruct (aug_cases i s0 He0) as [[_ [Z _]]|[[Q _]|[_ [_ Fe0]]]].
        -- rewrite Z in Hf0. discriminate.
        -- destruct (srv_in_out _ _ Q Hi) as [y Hy]. destruct (from_srv _ _ Hy Hi) as [_ [Hey _]].
           exists y. split; [exact Hey|].
           destruct (aug_cases i y Hey) as [[_ [_ H]]|[[Q' _]|[Q' _]]]; [exact H | | contradiction].
           exfalso. destruct (pk_lev _ _ HP) as [d Hl]. apply (levelled_no_swap d _ Hl _ _ Hy Q').
        -- exists s0. split; [exact He0|]. rewrite Fe0. exact Hf0.
      * intros [s [Hes Hfs]]. destruct (new_one _ _ Hes Hfs) as [P|[_ [_ O]]].
        -- destruct (srv_out_in _ _ P Hi) as [u Hu].
           destruct (into_srv _ _ Hu Hi) as [[-> _]|[_ [Heu Hfu]]]; [contradiction|].
           apply (inv_srv _ HI i Hi). exists u. split; assumption.
        -- apply (inv_srv _ HI i Hi). exists s. split; assumption.
  - (* sink edge of a share carries a unit iff one of its server edges does *)
    intros s Hs. pose proof (E_snk s Hs) as Hst.
    destruct (aug_cases s t Hst) as [[P [_ F1]]|[[P _]|[N1 [N2 Fe]]]].
    + rewrite F1. split; [intros _ | reflexivity].
      destruct (shr_out_in _ _ P Hs) as [u Hu]. destruct (into_shr _ _ Hu Hs) as [Hus [Heu _]].
      exists u. split; [exact Hus|]. split; [exact Heu|].
      destruct (aug_cases u s Heu) as [[_ [_ H]]|[[Q _]|[Q _]]]; [exact H | | contradiction].
      exfalso. destruct (pk_lev _ _ HP) as [d Hl]. apply (levelled_no_swap d _ Hl _ _ Hu Q).
    + exfalso. apply (no_from_snk s). exact P.
    + rewrite Fe. split.
      * intros H1. apply (inv_shr _ HI s Hs) in H1. destruct H1 as [i0 [Hi0 [He0 Hf0]]].
        destruct (aug_cases i0 s He0) as [[_ [Z _]]|[[Q _]|[_ [_ Fe0]]]].
        -- rewrite Z in Hf0. discriminate.
        -- destruct (shr_out_in _ _ Q Hs) as [u Hu]. destruct (into_shr _ _ Hu Hs) as [Hus [Heu _]].
           exists u. split; [exact Hus|]. split; [exact Heu|].
           destruct (aug_cases u s Heu) as [[_ [_ H]]|[[Q' _]|[Q' _]]]; [exact H | | contradiction].
           exfalso. destruct (pk_lev _ _ HP) as [d Hl]. apply (levelled_no_swap d _ Hl _ _ Hu Q').
        -- exists i0. split; [exact Hi0|]. split; [exact He0|]. rewrite Fe0. exact Hf0.
      * intros [i [Hi [Hei Hfi]]]. destruct (new_one _ _ Hei Hfi) as [P|[_ [_ O]]].
        -- destruct (shr_in_out _ _ P Hs) as [y Hy].
           destruct (from_shr _ _ Hy Hs) as [[-> _]|[Hys [Hey Hfy]]]; [contradiction|].
           apply (inv_shr _ HI s Hs). exists y. (split; [assumption | split; assumption]).
        -- apply (inv_shr _ HI s Hs). exists i. (split; [assumption | split; assumption]).
Qed.

(* the augmentation adds one unit on exactly one source edge *)
Lemma aug_source_row : exists p1, server p1 /\ mget f' 0 p1 = (mget f 0 p1 + 1)%Z /\
  forall i, server i -> i <> p1 -> mget f' 0 i = mget f 0 i.
Proof.
  destruct (chain_first _ _ _ (pk_chain _ _ HP)) as [v Hin]; [unfold t; lia|].
  assert (Hv : server v).
  { destruct (pk_res _ _ HP _ _ Hin) as [[He _]|[He _]].
    - destruct (E_cases _ _ He) as [[_ H]|[[H _]|[H _]]]; [exact H | unfold server in H; lia | unfold share in H; lia].
    - exfalso. pose proof (proj1 (proj1 net_upward _ _ He)). lia. }
  exists v. split; [exact Hv|]. split.
  - destruct (aug_cases 0 v (E_src v Hv)) as [[_ [H0 H1]]|[[P _]|[N _]]].
    + rewrite H0, H1. reflexivity.
    + exfalso. apply (no_into_src v). exact P.
    + contradiction.
  - intros i Hi Hne. destruct (aug_cases 0 i (E_src i Hi)) as [[P _]|[[P _]|[_ [_ H]]]].
    + exfalso. apply Hne. apply (src_unique 0 i v P Hin).
    + exfalso. apply (no_into_src i). exact P.
    + exact H.
Qed.

End Augment.
End Network.
