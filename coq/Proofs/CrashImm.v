(* Immutable container (ShareFile): what each prefix of the lease operations
   does to one well-formed share file. *)
From Coq Require Import List Arith NArith Bool Lia.
From Verif Require Import Lib.Hex Lib.FileSys Model.Crash Proofs.CrashBytes.
Import ListNotations.
Local Open Scope N_scope.

Lemma flen_app a b : flen (a ++ b) = flen a + flen b.
Proof. unfold flen. rewrite app_length. lia. Qed.

Lemma flen_len f : flen f = N.of_nat (length f).
Proof. reflexivity. Qed.

Lemma imm_wf_facts f :
  imm_wf f = true ->
  12 <= flen f /\ imm_version_ok f = true /\ 12 + 72 * imm_count f <= flen f.
Proof.
  unfold imm_wf. rewrite !andb_true_iff, !N.leb_le. tauto.
Qed.

(* a file that agrees with f on the header, the length and the data region *)
Lemma imm_agree f g :
  flen g = flen f ->
  sub 0 4 g = sub 0 4 f ->
  sub 8 4 g = sub 8 4 f ->
  sub 12 (imm_lease_offset f - 12) g = sub 12 (imm_lease_offset f - 12) f ->
  imm_wf g = imm_wf f /\ imm_data g = imm_data f /\ imm_lease_offset g = imm_lease_offset f.
Proof.
  intros Hl H0 H8 Hd.
  assert (Hc : imm_count g = imm_count f) by (unfold imm_count; rewrite H8; reflexivity).
  assert (Hv : imm_version_ok g = imm_version_ok f)
    by (unfold imm_version_ok, imm_version; rewrite H0; reflexivity).
  assert (Ho : imm_lease_offset g = imm_lease_offset f)
    by (unfold imm_lease_offset; rewrite Hl, Hc; reflexivity).
  repeat split.
  - unfold imm_wf. rewrite Hl, Hc, Hv. reflexivity.
  - unfold imm_data. rewrite Ho. exact Hd.
  - exact Ho.
Qed.

(* a write that stays between the lease offset and the end of the file *)
Lemma imm_write_in_leases f off bs :
  imm_wf f = true ->
  imm_lease_offset f <= off ->
  off + flen bs <= flen f ->
  let g := write_at f off bs in
  imm_wf g = true /\ imm_data g = imm_data f.
Proof.
  intros Hwf Hlo Hin g.
  destruct (imm_wf_facts f Hwf) as [H12 [_ Hfit]].
  assert (Hlo12 : 12 <= imm_lease_offset f) by (unfold imm_lease_offset in *; lia).
  assert (Hlen : length g = length f).
  { apply write_at_length_inside. unfold flen in *. lia. }
  destruct (imm_agree f g) as [Hw [Hd _]].
  - unfold flen. rewrite Hlen. reflexivity.
  - apply sub_write_at_before; unfold flen in *; lia.
  - apply sub_write_at_before; unfold flen in *; lia.
  - apply sub_write_at_before; unfold flen in *; lia.
  - rewrite Hw. split; assumption.
Qed.

(* ------------------------------------------------------------- lease list *)
Lemma find_index_spec {A} (pr : A -> bool) l : forall i0 i x,
  find_index pr l i0 = Some (i, x) ->
  exists j, i = i0 + N.of_nat j /\ nth_error l j = Some x.
Proof.
  induction l as [|y l IH]; intros i0 i x H; simpl in H; [discriminate|].
  destruct (pr y).
  - inversion H; subst. exists 0%nat. split; [lia|reflexivity].
  - apply IH in H. destruct H as [j [E Hn]]. exists (S j). split; [lia|exact Hn].
Qed.

Lemma chunks_nth fuel k : forall l j x,
  nth_error (chunks fuel k l) j = Some x ->
  (length x <= k)%nat /\ (j * k < length l)%nat.
Proof.
  induction fuel as [|fuel IH]; intros l j x H; cbn [chunks] in H.
  - destruct j; discriminate.
  - destruct l as [|y l]; [destruct j; discriminate|].
    destruct j as [|j]; cbn [nth_error] in H.
    + inversion H; subst x. split.
      * rewrite firstn_length. lia.
      * cbn [length]. lia.
    + apply IH in H. destruct H as [H1 H2]. split; [exact H1|].
      rewrite skipn_length in H2. cbn [length] in *. lia.
Qed.

Lemma imm_leases_nth f j r :
  imm_wf f = true ->
  nth_error (imm_leases f) j = Some r ->
  (length r <= 72)%nat /\ N.of_nat j < imm_count f.
Proof.
  intros Hwf H. destruct (imm_wf_facts f Hwf) as [_ [_ Hfit]].
  unfold imm_leases in H. apply chunks_nth in H. destruct H as [H1 H2].
  split; [exact H1|].
  rewrite skipn_length in H2. unfold imm_lease_offset, flen in *. lia.
Qed.

Lemma some_inj {A} (a b : A) : Some a = Some b -> a = b.
Proof. congruence. Qed.

Lemma firstn_S_single {A} k (x : A) : firstn (S k) [x] = [x].
Proof. destruct k; reflexivity. Qed.

Lemma firstn_SS_pair {A} k (x y : A) : firstn (S (S k)) [x; y] = [x; y].
Proof. destruct k; reflexivity. Qed.

(* ----------------------------------------------------------------- renew *)
Lemma imm_renew_file f hs e o :
  imm_wf f = true ->
  imm_renew_fops f hs e = Some o ->
  forall k, let g := run_fops (firstn k o) f in
            imm_wf g = true /\ imm_data g = imm_data f.
Proof.
  intros Hwf H k. unfold imm_renew_fops in H.
  destruct (find_index _ (imm_leases f) 0) as [[i r]|] eqn:E; [|discriminate].
  apply find_index_spec in E. destruct E as [j [Ei Hn]].
  destruct (imm_leases_nth f j r Hwf Hn) as [Hr Hj].
  destruct (imm_wf_facts f Hwf) as [_ [_ Hfit]].
  apply some_inj in H. subst o.
  destruct (imm_rec_exp r <? e).
  - destruct k as [|k]; [simpl; auto|].
    rewrite firstn_S_single.
    cbn [run_fops fold_left apply_fop].
    apply imm_write_in_leases; [exact Hwf|lia|].
    unfold flen. rewrite app_length, firstn_length, enc_length.
    unfold imm_lease_offset, flen in *. lia.
  - destruct k; simpl; auto.
Qed.

(* ------------------------------------------------------------------- add *)
Lemma pow256_4 : 256 ^ N.of_nat 4 = 2 ^ 32.
Proof. reflexivity. Qed.

(* both writes of add_lease done *)
Lemma imm_add_complete f rec :
  imm_wf f = true -> length rec = 72%nat -> imm_count f + 1 < 2 ^ 32 ->
  let g := write_at (write_at f (imm_lease_offset f + 72 * imm_count f) rec)
                    8 (enc 4 (imm_count f + 1)) in
  imm_wf g = true /\ imm_data g = imm_data f /\ imm_count g = imm_count f + 1
  /\ flen g = flen f + 72.
Proof.
  intros Hwf Hrec Hn g.
  destruct (imm_wf_facts f Hwf) as [H12 [Hv Hfit]].
  set (n := imm_count f) in *.
  assert (Eoff : imm_lease_offset f + 72 * n = flen f) by (unfold imm_lease_offset; fold n; lia).
  subst g. rewrite Eoff, write_at_end.
  set (h := f ++ rec). set (cnt := enc 4 (n + 1)).
  assert (Hcl : length cnt = 4%nat) by apply enc_length.
  assert (Hh : length h = (length f + 72)%nat) by (unfold h; rewrite app_length; lia).
  assert (Hf12 : (12 <= length f)%nat) by (unfold flen in H12; lia).
  assert (Hlen : length (write_at h 8 cnt) = length h).
  { apply write_at_length_inside. rewrite Hcl. change (N.to_nat 8) with 8%nat. lia. }
  assert (Hcount : imm_count (write_at h 8 cnt) = n + 1).
  { unfold imm_count. replace 4 with (flen cnt) by (unfold flen; rewrite Hcl; reflexivity).
    rewrite sub_write_at_same. unfold cnt. apply be_enc_small. rewrite pow256_4. exact Hn. }
  assert (Hflen : flen (write_at h 8 cnt) = flen f + 72).
  { unfold flen. rewrite Hlen, Hh. lia. }
  assert (H04 : sub 0 4 (write_at h 8 cnt) = sub 0 4 f).
  { rewrite sub_write_at_before.
    - apply sub_app_left. change (N.to_nat 0) with 0%nat. change (N.to_nat 4) with 4%nat. lia.
    - change (N.to_nat 0) with 0%nat. change (N.to_nat 4) with 4%nat. change (N.to_nat 8) with 8%nat. lia.
    - change (N.to_nat 0) with 0%nat. change (N.to_nat 4) with 4%nat. lia. }
  assert (Hlo : imm_lease_offset (write_at h 8 cnt) = imm_lease_offset f).
  { unfold imm_lease_offset. rewrite Hcount, Hflen. fold n. lia. }
  assert (Hdata : imm_data (write_at h 8 cnt) = imm_data f).
  { unfold imm_data. rewrite Hlo.
    assert (Hlo' : imm_lease_offset f <= flen f) by (unfold imm_lease_offset; lia).
    assert (Hlo12 : 12 <= imm_lease_offset f) by (unfold imm_lease_offset; fold n; lia).
    rewrite sub_write_at_after.
    - apply sub_app_left. unfold flen in *. lia.
    - rewrite Hcl. change (N.to_nat 8) with 8%nat. change (N.to_nat 12) with 12%nat. lia.
    - rewrite Hcl, Hh. change (N.to_nat 8) with 8%nat. lia. }
  repeat split; try assumption.
  unfold imm_wf. rewrite Hflen, Hcount.
  unfold imm_version_ok, imm_version in *. rewrite H04, Hv.
  rewrite !andb_true_iff, !N.leb_le. repeat split; lia.
Qed.

(* only the first write of add_lease done: the data region grows by one lease
   record (72 bytes) -- for EVERY well-formed share and every lease *)
Lemma imm_add_window f rec :
  imm_wf f = true -> length rec = 72%nat ->
  let g := write_at f (imm_lease_offset f + 72 * imm_count f) rec in
  length (imm_data g) = (length (imm_data f) + 72)%nat.
Proof.
  intros Hwf Hrec g.
  destruct (imm_wf_facts f Hwf) as [H12 [Hv Hfit]].
  set (n := imm_count f) in *.
  assert (Eoff : imm_lease_offset f + 72 * n = flen f) by (unfold imm_lease_offset; fold n; lia).
  subst g. rewrite Eoff, write_at_end.
  assert (Hc : imm_count (f ++ rec) = n).
  { unfold imm_count. rewrite sub_app_left; [reflexivity|].
    unfold flen in H12. change (N.to_nat 8) with 8%nat. change (N.to_nat 4) with 4%nat. lia. }
  unfold imm_data, imm_lease_offset. rewrite Hc, flen_app. fold n.
  rewrite !sub_length, app_length, Hrec.
  unfold flen in *. lia.
Qed.

(* the alternative order: only the count written.  The data region SHRINKS by
   72 bytes (when it has that many), which loses share data: no better. *)
Lemma imm_add_count_first_window f :
  imm_wf f = true -> imm_count f + 1 < 2 ^ 32 ->
  (72 <= length (imm_data f))%nat ->
  let g := write_at f 8 (enc 4 (imm_count f + 1)) in
  (length (imm_data g) + 72 = length (imm_data f))%nat.
Proof.
  intros Hwf Hn Hbig g.
  destruct (imm_wf_facts f Hwf) as [H12 [Hv Hfit]].
  set (n := imm_count f) in *. set (cnt := enc 4 (n + 1)) in *.
  assert (Hcl : length cnt = 4%nat) by apply enc_length.
  assert (Hf12 : (12 <= length f)%nat) by (unfold flen in H12; lia).
  assert (Hlen : length g = length f).
  { apply write_at_length_inside. rewrite Hcl. change (N.to_nat 8) with 8%nat. lia. }
  assert (Hcount : imm_count g = n + 1).
  { unfold imm_count, g. replace 4 with (flen cnt) by (unfold flen; rewrite Hcl; reflexivity).
    rewrite sub_write_at_same. unfold cnt. apply be_enc_small. rewrite pow256_4. exact Hn. }
  revert Hbig. unfold imm_data, imm_lease_offset. rewrite Hcount. fold n.
  rewrite !sub_length. unfold flen in *. rewrite Hlen. lia.
Qed.

Lemma in_window_unflagged {A} (l : list A) k : in_window (firstn k (unflagged l)) = false.
Proof.
  unfold unflagged. rewrite firstn_map. unfold in_window. rewrite <- map_rev.
  destruct (rev (firstn k l)); reflexivity.
Qed.

Lemma in_window_unflagged_all {A} (l : list A) : in_window (unflagged l) = false.
Proof.
  rewrite <- (firstn_all (unflagged l)). apply in_window_unflagged.
Qed.

Lemma map_fst_unflagged {A} (l : list A) : map fst (unflagged l) = l.
Proof. unfold unflagged. rewrite map_map. simpl. apply map_id. Qed.

(* ------------------------------------------------- add_or_renew, per file *)
Lemma imm_lease_file f rec o :
  imm_wf f = true -> length rec = 72%nat ->
  imm_add_or_renew_fops f rec = Some o ->
  in_window o = false /\
  forall k, in_window (firstn k o) = false ->
            let g := run_fops (map fst (firstn k o)) f in
            imm_wf g = true /\ imm_data g = imm_data f.
Proof.
  intros Hwf Hrec H. unfold imm_add_or_renew_fops in H.
  destruct (imm_renew_fops f (imm_rec_renew rec) (imm_rec_exp rec)) as [o'|] eqn:E.
  - apply some_inj in H. subst o. split; [apply in_window_unflagged_all|].
    intros k _. unfold unflagged. rewrite firstn_map, map_map. simpl. rewrite map_id.
    eapply imm_renew_file; eassumption.
  - unfold imm_add_fops in H.
    destruct (2 ^ 32 <=? imm_count f + 1) eqn:En; [discriminate|].
    apply N.leb_gt in En. apply some_inj in H. subst o.
    split; [reflexivity|].
    intros k Hk.
    destruct k as [|[|k]].
    + simpl. auto.
    + discriminate Hk.
    + rewrite firstn_SS_pair.
      cbn [map fst run_fops fold_left apply_fop].
      destruct (imm_add_complete f rec Hwf Hrec En) as [H1 [H2 _]]. split; assumption.
Qed.

(* --------------------------------------------- mutable magic vs version *)
Lemma sub_0_4_of_32 f : sub 0 4 f = firstn 4 (sub 0 32 f).
Proof.
  unfold sub. change (N.to_nat 0) with 0%nat. simpl skipn.
  change (N.to_nat 4) with 4%nat. change (N.to_nat 32) with 32%nat.
  rewrite firstn_firstn. reflexivity.
Qed.

Lemma magic_not_version f : mut_magic_ok f = true -> imm_version_ok f = false.
Proof.
  unfold mut_magic_ok. rewrite orb_true_iff, !list_N_eqb_eq.
  unfold imm_version_ok, imm_version. rewrite sub_0_4_of_32.
  intros [H|H]; rewrite H; reflexivity.
Qed.

Lemma version_not_magic f : imm_version_ok f = true -> mut_magic_ok f = false.
Proof.
  intro H. destruct (mut_magic_ok f) eqn:E; [|reflexivity].
  apply magic_not_version in E. congruence.
Qed.
