From Coq Require Import List NArith Bool Lia.
From Verif Require Import Model.MutVerify.
Import ListNotations.
Local Open Scope N_scope.

Section Verify.
  Variable V : Type.
  Variable pair : V -> V -> V.
  Variable h_blk : V -> V -> V.
  Variable h_fp : V -> V.
  Variable verify : V -> V -> V -> bool.
  Variable prefix_of : N -> V -> V.
  Variable veq : V -> V -> bool.

  Hypothesis veq_spec : forall a b, veq a b = true <-> a = b.
  (* collision-freeness of SHA-256d on the values hashed in one execution *)
  Hypothesis pair_inj : forall a b c d, pair a b = pair c d -> a = c /\ b = d.
  Hypothesis h_blk_inj : forall a b c d, h_blk a b = h_blk c d -> a = c /\ b = d.
  Hypothesis h_fp_inj : forall a b, h_fp a = h_fp b -> a = b.
  Hypothesis prefix_inj : forall n r m q, prefix_of n r = prefix_of m q -> n = m /\ r = q.
  (* idealised unforgeability: a signature verifies under pk only for messages that the
     holder of pk's private key signed *)
  Variable signed_by : V -> V -> Prop.
  Hypothesis unforgeable : forall pk sig msg, verify pk sig msg = true -> signed_by pk msg.

  Notation root_from := (root_from V pair).

  (* Merkle binding: two authentication paths of the same length to the same root, for the
     same index, start from the same leaf *)
  Lemma root_from_binding : forall p q l l' i,
    length p = length q -> root_from l i p = root_from l' i q -> l = l'.
  Proof.
    induction p as [|s p IH]; intros [|t q] l l' i Hlen H; cbn in *; try discriminate; [exact H|].
    injection Hlen as Hlen.
    destruct (N.even i).
    - apply (IH q _ _ _ Hlen) in H. apply pair_inj in H. tauto.
    - apply (IH q _ _ _ Hlen) in H. apply pair_inj in H. tauto.
  Qed.

  (* the genuine (published) version: what the writer signed and stored *)
  Variable fingerprint : V.
  Variable g : share V.
  Variable shnum : N.
  Hypothesis g_fp : h_fp (s_pubkey V g) = fingerprint.
  Hypothesis g_consistent : forall seg,
    root_from (root_from (h_blk (s_salt V g seg) (s_block V g seg)) seg (s_block_path V g seg)) shnum (s_share_path V g)
    = s_root_hash V g.

  (* 1-2: an accepted version was signed by the key whose hash is in the cap *)
  Lemma accepted_version_signed_ok (s : share V) :
    version_accepted V h_fp verify prefix_of veq fingerprint s = true ->
    s_pubkey V s = s_pubkey V g /\
    signed_by (s_pubkey V g) (prefix_of (s_seqnum V s) (s_root_hash V s)).
  Proof.
    unfold version_accepted. intro H. apply andb_prop in H. destruct H as [H1 H2].
    apply veq_spec in H1. rewrite <- g_fp in H1. apply h_fp_inj in H1.
    split; [exact H1|]. rewrite <- H1. eapply unforgeable, H2.
  Qed.

  (* 3-4: if the accepted share carries the published root hash (same signed prefix as the
     published version) and its paths have the tree's depths, an accepted block and salt
     are the published ones, whatever else the adversary put in the share *)
  Lemma retrieved_block_published_ok (s : share V) seg :
    s_root_hash V s = s_root_hash V g ->
    length (s_share_path V s) = length (s_share_path V g) ->
    length (s_block_path V s seg) = length (s_block_path V g seg) ->
    block_accepted V pair h_blk veq s shnum seg = true ->
    s_block V s seg = s_block V g seg /\ s_salt V s seg = s_salt V g seg.
  Proof.
    intros Hr Hl1 Hl2 H. unfold block_accepted in H. apply veq_spec in H.
    rewrite Hr, <- (g_consistent seg) in H.
    apply (root_from_binding _ _ _ _ _ Hl1) in H.
    apply (root_from_binding _ _ _ _ _ Hl2) in H.
    apply h_blk_inj in H. tauto.
  Qed.

  (* a holder of only the read-cap or verify-cap, or a storage server, has no signature by
     the writer's key on any other prefix: every version a reader accepts is one the writer
     signed -- (seqnum, root_hash) of an accepted share is a published pair *)
  Variable published : N -> V -> Prop.      (* the (seqnum, root hash) pairs the write-cap holder published *)
  Hypothesis signer_only_publishes :
    forall m, signed_by (s_pubkey V g) m -> exists n r, m = prefix_of n r /\ published n r.

  Lemma readcap_cannot_forge_ok (s : share V) :
    version_accepted V h_fp verify prefix_of veq fingerprint s = true ->
    published (s_seqnum V s) (s_root_hash V s).
  Proof.
    intro H. destruct (accepted_version_signed_ok s H) as [_ Hs].
    destruct (signer_only_publishes _ Hs) as [n [r [E P]]].
    apply prefix_inj in E. destruct E; subst. exact P.
  Qed.
End Verify.

(* the symbolic instance satisfies every hypothesis used above (so they are consistent) *)
Lemma sym_eqb_spec a b : sym_eqb a b = true <-> a = b.
Proof.
  revert b; induction a; destruct b; cbn; try (split; [discriminate|intro H; inversion H]);
    rewrite ?andb_true_iff, ?N.eqb_eq, ?IHa, ?IHa1, ?IHa2;
    try (split; [intros; f_equal; tauto | intro H; inversion H; subst; tauto]).
Qed.
