(* C03: statements over finite guarded runs, and a concrete fair run (non-vacuity of
   the fairness hypotheses of Proofs/FetcherLive.v). *)
From Coq Require Import List NArith Bool Arith Lia.
From Verif Require Import Lib.Sched Model.Fetcher Proofs.FetcherBase Proofs.FetcherWorld Proofs.FetcherLive.
Import ListNotations.

Section Runs.
  Variable w : world.
  Variables (k : nat) (seg : N).
  Hypothesis Hw : NoDup (w_shares w).

  Definition grun := run gstep.
  Definition gaccepted := accepted gstep (ev_ok w).

  Definition InvK (g : gst) : Prop := Inv w g /\ f_k (fst g) = k.

  Lemma invk_init : InvK (ginit k seg).
  Proof. split; [apply inv_init|reflexivity]. Qed.

  Lemma invk_step g e : InvK g -> ev_ok w g e -> InvK (fst (gstep g e)).
  Proof.
    intros [I K] Hok. split; [now apply gstep_inv|].
    destruct g as [s added]. unfold gstep. cbn [fst snd] in *.
    pose proof (fstep_k s e) as X. destruct (fstep s e). cbn [fst] in *. congruence.
  Qed.

  Definition out_ok (o : fout) : Prop :=
    match o with
    | OProcessBlocks _ => k <= good_distinct w
    | OFetchFailed e => e <> BadSegmentNumberError /\ good_distinct w < k
    | _ => True
    end.

  Lemma step_out_ok g e : InvK g -> ev_ok w g e -> Forall out_ok (snd (gstep g e)).
  Proof.
    intros [I K] Hok. apply Forall_forall. intros o Ho. destruct o as [sh| |bl|err]; cbn [out_ok]; auto.
    - rewrite <- K. eapply gstep_process_good; eauto.
    - assert (err <> BadSegmentNumberError) as NE.
      { intros E. subst. eapply gstep_no_badseg; eauto. }
      split; [exact NE|]. rewrite <- K. eapply gstep_error_few_good; eauto.
  Qed.

  (* data only with k good shares; the error only with fewer than k good shares *)
  Lemma run_out_ok evs : gaccepted (ginit k seg) evs -> Forall out_ok (snd (grun (ginit k seg) evs)).
  Proof.
    intros A. apply (outputs_run _ _ _ gstep (ev_ok w) InvK out_ok); auto.
    - apply invk_step.
    - apply step_out_ok.
    - apply invk_init.
  Qed.
End Runs.

(* ---- the unconditional statements, in the form Props/C03.v states them --------------- *)
Lemma process_blocks_has_k_distinct_ok :
  forall (k : nat) (seg : N) (evs : list fev) (bl : list (N * N)),
  In (OProcessBlocks bl) (snd (frun (finit k seg) evs)) ->
  NoDup (map fst bl) /\ k <= length bl.
Proof. intros k seg evs bl. apply (process_blocks_k_distinct evs (finit k seg) bl). constructor. Qed.

Lemma error_only_if_fewer_than_k_ok :
  forall (k : nat) (seg : N) (evs : list fev) (e : fev) (err : ferr),
  let s := fst (frun (finit k seg) evs) in
  In (OFetchFailed err) (snd (fstep s e)) -> err <> BadSegmentNumberError ->
  f_no_more s = true /\
  distinct (bnums (f_blocks s) ++ nums (f_active s) ++ nums (f_overdue s) ++ nums (f_shares s)) < k /\
  (err = NoSharesError /\ f_blocks s = [] /\ f_active s = [] /\ f_overdue s = [] /\ f_shares s = [] \/
   err = NotEnoughSharesError /\ all_nums s <> []).
Proof.
  intros k seg evs e err s Hin Hne. destruct (fstep_error s e err Hin Hne) as (A & B & C).
  split; [exact A|]. split; [unfold s in *; rewrite frun_k in B; exact B|].
  destruct C as [[C1 C2]|C]; [left|now right]. split; [exact C1|]. unfold all_nums, bnums, nums in C2.
  destruct (f_blocks s), (f_active s), (f_overdue s), (f_shares s); try discriminate. auto.
Qed.

Lemma loop_fuel_suffices_ok :
  forall s outs, f_max_per_server s >= 1 -> do_while (loop_fuel s) s outs <> None.
Proof. intros s outs H. apply do_while_fuel. now apply loop_fuel_enough. Qed.

(* ---- a concrete fair run ---------------------------------------------------------------- *)
(* one good share, k = 1: add it, loop (request starts), COMPLETE, loop (process_blocks);
   afterwards the finder reports exhaustion and queued loops run, for ever *)
Definition ex_share : share := mk_share 0 0 0 1.
Definition ex_world : world := mk_world [ex_share] (fun _ => true).

Definition ex_run (n : nat) : fev :=
  match n with
  | 0 => EAddShares [ex_share]
  | 1 => ELoop None
  | 2 => EActivity ex_share COMPLETE
  | 3 => ELoop None
  | _ => if Nat.even n then ENoMoreShares else ELoop None
  end.

Lemma ex_run_even j : ex_run (6 + 2 * j) = ENoMoreShares.
Proof.
  unfold ex_run. replace (6 + 2 * j) with (S (S (S (S (2 * (S j)))))) by lia.
  replace (Nat.even (S (S (S (S (2 * S j)))))) with true; [reflexivity|].
  symmetry. rewrite !Nat.even_succ_succ. rewrite Nat.even_mul. reflexivity.
Qed.

Lemma ex_run_odd j : ex_run (7 + 2 * j) = ELoop None.
Proof.
  unfold ex_run. replace (7 + 2 * j) with (S (S (S (S (3 + 2 * j))))) by lia.
  replace (Nat.even (S (S (S (S (3 + 2 * j)))))) with false; [reflexivity|].
  symmetry. rewrite !Nat.even_succ_succ. replace (3 + 2 * j) with (S (2 * (S j))) by lia.
  rewrite Nat.even_succ. rewrite <- Nat.negb_even. rewrite Nat.even_mul. reflexivity.
Qed.

Lemma ex_state_both j :
  gat 1 0 ex_run (6 + 2 * j) = gat 1 0 ex_run 6 /\ gat 1 0 ex_run (7 + 2 * j) = gat 1 0 ex_run 7.
Proof.
  induction j as [|j [IH6 IH7]]; [split; reflexivity|].
  assert (E6 : gat 1 0 ex_run (6 + 2 * S j) = gat 1 0 ex_run 6).
  { replace (6 + 2 * S j) with (S (7 + 2 * j)) by lia. cbn [gat]. rewrite IH7, ex_run_odd. vm_compute. reflexivity. }
  split; [exact E6|].
  replace (7 + 2 * S j) with (S (6 + 2 * S j)) by lia. cbn [gat]. rewrite E6, ex_run_even. vm_compute. reflexivity.
Qed.

Lemma ex_state_even j : gat 1 0 ex_run (6 + 2 * j) = gat 1 0 ex_run 6.
Proof. apply ex_state_both. Qed.
Lemma ex_state_odd j : gat 1 0 ex_run (7 + 2 * j) = gat 1 0 ex_run 7.
Proof. apply ex_state_both. Qed.

Lemma ex_parity n : 6 <= n -> exists j, n = 6 + 2 * j \/ n = 7 + 2 * j.
Proof.
  intros H. exists ((n - 6) / 2). pose proof (Nat.div_mod (n - 6) 2 ltac:(lia)) as D.
  pose proof (Nat.mod_upper_bound (n - 6) 2 ltac:(lia)). lia.
Qed.

Lemma ex_state n : 6 <= n -> gat 1 0 ex_run n = gat 1 0 ex_run 6 \/ gat 1 0 ex_run n = gat 1 0 ex_run 7.
Proof.
  intros H. destruct (ex_parity n H) as (j & [E|E]); subst; [left; apply ex_state_even|right; apply ex_state_odd].
Qed.

Lemma ex_event n : 6 <= n -> (exists j, n = 6 + 2 * j /\ ex_run n = ENoMoreShares) \/ (exists j, n = 7 + 2 * j /\ ex_run n = ELoop None).
Proof.
  intros H. destruct (ex_parity n H) as (j & [E|E]); subst; [left|right]; exists j; (split; [reflexivity|]).
  - apply ex_run_even.
  - apply ex_run_odd.
Qed.

Lemma small_cases (P : nat -> Prop) : P 0 -> P 1 -> P 2 -> P 3 -> P 4 -> P 5 -> (forall n, 6 <= n -> P n) -> forall n, P n.
Proof.
  intros H0 H1 H2 H3 H4 H5 H n.
  destruct n as [|[|[|[|[|[|n]]]]]]; auto. apply H. lia.
Qed.

Lemma ex_fair :
  NoDup (w_shares ex_world) /\ valid ex_world 1 0 ex_run /\ fair_loops 1 0 ex_run /\
  fair_requests 1 0 ex_run /\ fair_finder 1 0 ex_run /\ 1 <= good_distinct ex_world.
Proof.
  split; [repeat constructor; intros []|].
  split.
  { unfold valid. apply small_cases.
    - cbn. split; [repeat constructor; intros []|]. intros x [E|[]]. subst. split; [now left|intros []].
    - vm_compute. split; [lia|exact I].
    - cbn. split; [now left|]. split; [discriminate|]. intros _. split; reflexivity.
    - vm_compute. split; [lia|exact I].
    - cbn. intros x [E|[]]. subst. now left.
    - vm_compute. split; [lia|exact I].
    - intros n H. destruct (ex_event n H) as [(j & E & Ev)|(j & E & Ev)]; rewrite Ev.
      + subst. rewrite ex_state_even. cbn. intros x [X|[]]. subst. now left.
      + subst. rewrite ex_state_odd. vm_compute. split; [lia|exact I]. }
  split.
  { unfold fair_loops. intros n _.
    destruct (Nat.lt_ge_cases n 6) as [L|G].
    - exists 7. split; [lia|]. exists None. reflexivity.
    - destruct (ex_parity n G) as (j & [E|E]).
      + exists (7 + 2 * j). split; [lia|]. exists None. destruct (ex_event (7 + 2 * j) ltac:(lia)) as [(j' & E' & _)|(j' & _ & Ev)]; [lia|exact Ev].
      + exists n. split; [lia|]. exists None. subst. destruct (ex_event (7 + 2 * j) ltac:(lia)) as [(j' & E' & _)|(j' & _ & Ev)]; [lia|exact Ev]. }
  split.
  { unfold fair_requests. intros n x Hx. exists (n + 6). split; [lia|].
    destruct (ex_state (n + 6) ltac:(lia)) as [E|E]; rewrite E; vm_compute; intros []. }
  split.
  { exists 5. vm_compute. reflexivity. }
  vm_compute. lia.
Qed.
