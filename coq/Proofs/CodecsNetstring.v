(* split_netstring: round trip, strict converse, agreement of the strict reader
   with the real one, fuel, and the refutation of the unconditional converse. *)
From Coq Require Import String.
From Coq Require Import List NArith ZArith Bool Lia.
From Verif Require Import Lib.Decimal Lib.DecimalFacts Lib.Hex Lib.Netstring Lib.NetstringFacts
     Model.PyResult Model.PyInt Model.NetstringCodec Proofs.CodecsPyInt.
Import ListNotations.
Local Open Scope N_scope.

(* ---- find_byte ---- *)
Lemma find_byte_app c : forall l r, ~ In c l -> find_byte c (l ++ c :: r) = Some (l, r).
Proof.
  induction l as [|b l IH]; intros r H; cbn [app find_byte].
  - rewrite N.eqb_refl. reflexivity.
  - destruct (b =? c) eqn:E.
    + apply N.eqb_eq in E. exfalso. apply H. left. assumption.
    + rewrite IH; [reflexivity|]. intro Hin. apply H. right. assumption.
Qed.

Lemma find_byte_some c : forall l x y, find_byte c l = Some (x, y) -> l = x ++ c :: y /\ ~ In c x.
Proof.
  induction l as [|b l IH]; intros x y H; cbn [find_byte] in H; [discriminate|].
  destruct (b =? c) eqn:E.
  - injection H as <- <-. apply N.eqb_eq in E. subst. split; [reflexivity|intros []].
  - destruct (find_byte c l) as [[x' y']|] eqn:F; [|discriminate].
    injection H as <- <-. destruct (IH x' y' eq_refl) as [-> Hn]. split; [reflexivity|].
    intros [Hb|Hin]; [apply N.eqb_neq in E; congruence|tauto].
Qed.

Lemma blen_app a b : blen (a ++ b) = blen a + blen b.
Proof. unfold blen. rewrite app_length. lia. Qed.

Lemma to_nat_blen a : N.to_nat (blen a) = length a.
Proof. unfold blen. apply Nat2N.id. Qed.

(* one iteration of the loop on a non-empty remainder *)
Lemma split_loop_S rd f rest pos ns acc : rest <> [] ->
  split_loop rd (S f) rest pos ns acc =
  match find_byte 58 rest with
  | None => Err EValue
  | Some (numeral, after) =>
    match rd numeral with
    | None => Err EValue
    | Some z =>
      if (z <? 0)%Z then Err EAssert
      else
        let n := Z.to_N z in
        if blen after <? n then Err EAssert
        else
          let str := firstn (N.to_nat n) after in
          match skipn (N.to_nat n) after with
          | [] => Err EIndex
          | c :: rest' =>
            if c =? 44 then
              let acc' := acc ++ [str] in
              let pos' := pos + blen numeral + 1 + n + 1 in
              if N.of_nat (length acc') =? ns then Ok (acc', pos', rest')
              else split_loop rd f rest' pos' ns acc'
            else Err EAssert
          end
    end
  end.
Proof. destruct rest; [congruence|reflexivity]. Qed.

Lemma firstn_app_len {A} (a b : list A) : firstn (length a) (a ++ b) = a.
Proof. rewrite firstn_app, Nat.sub_diag, firstn_all. cbn. apply app_nil_r. Qed.

Lemma skipn_app_len {A} (a b : list A) : skipn (length a) (a ++ b) = b.
Proof. rewrite skipn_app, Nat.sub_diag, skipn_all. reflexivity. Qed.

Lemma netstring_blen a : blen (netstring a) = blen (dec (blen a)) + 1 + blen a + 1.
Proof. unfold blen at 1. rewrite netstring_length. unfold blen. lia. Qed.

(* ---- round trip ---- *)
Section Reader.
Variable rd : list N -> option Z.
Hypothesis rd_dec : forall n, rd (dec n) = Some (Z.of_N n).

Lemma split_loop_one f a rest' pos ns acc :
  split_loop rd (S f) (netstring a ++ rest') pos ns acc =
  if N.of_nat (length (acc ++ [a])) =? ns then Ok (acc ++ [a], pos + blen (netstring a), rest')
  else split_loop rd f rest' (pos + blen (netstring a)) ns (acc ++ [a]).
Proof.
  rewrite split_loop_S.
  2:{ intro H. apply app_eq_nil in H. destruct H as [H _]. apply (netstring_nonempty a H). }
  rewrite netstring_unfold, <- !app_assoc. cbn [app]. rewrite <- app_assoc. cbn [app].
  rewrite find_byte_app by apply colon_not_in_dec.
  rewrite rd_dec.
  assert (Hneg : (Z.of_N (blen a) <? 0)%Z = false) by (apply Z.ltb_ge; lia).
  rewrite Hneg, N2Z.id. cbv zeta.
  assert (Hlen : blen (a ++ 44 :: rest') <? blen a = false).
  { apply N.ltb_ge. rewrite blen_app. lia. }
  rewrite Hlen, to_nat_blen, firstn_app_len, skipn_app_len.
  change (44 =? 44) with true. cbv iota.
  replace (pos + blen (dec (blen a)) + 1 + blen a + 1)
    with (pos + blen (dec (blen a) ++ 58 :: a ++ [44])).
  - reflexivity.
  - rewrite <- netstring_unfold, netstring_blen. lia.
Qed.

Lemma split_loop_netstrings : forall l fuel acc pos x numstrings,
  l <> [] -> (length l <= fuel)%nat -> numstrings = N.of_nat (length acc + length l) ->
  split_loop rd fuel (concat (map netstring l) ++ x) pos numstrings acc =
  Ok (acc ++ l, pos + blen (concat (map netstring l)), x).
Proof.
  induction l as [|a l IH]; intros fuel acc pos x ns Hne Hf Hns; [congruence|].
  destruct fuel as [|f]; [cbn in Hf; lia|].
  cbn [map concat]. rewrite <- app_assoc. rewrite split_loop_one.
  destruct l as [|b l].
  - cbn [map concat app]. cbn [length] in Hns.
    assert (E : N.of_nat (length (acc ++ [a])) =? ns = true).
    { apply N.eqb_eq. rewrite app_length. cbn [length]. lia. }
    rewrite E, app_nil_r. reflexivity.
  - assert (E : N.of_nat (length (acc ++ [a])) =? ns = false).
    { apply N.eqb_neq. rewrite app_length. cbn [length] in *. lia. }
    rewrite E. rewrite IH.
    + rewrite <- app_assoc. cbn [app]. rewrite blen_app. f_equal. f_equal. f_equal. lia.
    + discriminate.
    + cbn [length] in *. lia.
    + rewrite app_length. cbn [length] in *. lia.
Qed.

Lemma skipn_N_0 data : skipn_N 0 data = data.
Proof. unfold skipn_N. destruct (blen data <? 0) eqn:E; [apply N.ltb_lt in E; lia|reflexivity]. Qed.

Lemma concat_netstrings_length l : (length l <= length (concat (map netstring l)))%nat.
Proof.
  induction l as [|a l IH]; cbn [map concat length]; [lia|].
  rewrite app_length. pose proof (netstring_length a). lia.
Qed.

(* decode (encode l) = l, all of the data consumed *)
Theorem split_netstring_roundtrip_with l :
  split_netstring_with rd (concat (map netstring l)) (N.of_nat (length l)) 0 (Some []) =
  Ok (l, blen (concat (map netstring l))).
Proof.
  unfold split_netstring_with. rewrite skipn_N_0.
  destruct l as [|a l].
  - reflexivity.
  - rewrite <- (app_nil_r (concat (map netstring (a :: l)))) at 2.
    rewrite split_loop_netstrings with (x := []).
    + cbn [app]. rewrite N.ltb_irrefl. cbn [list_N_eqb]. change (blen []) with 0. f_equal. f_equal. lia.
    + discriminate.
    + pose proof (concat_netstrings_length (a :: l)). lia.
    + reflexivity.
Qed.

(* the same with arbitrary data following and no required trailer *)
Theorem split_netstring_roundtrip_prefix_with l x :
  l <> [] ->
  split_netstring_with rd (concat (map netstring l) ++ x) (N.of_nat (length l)) 0 None =
  Ok (l, blen (concat (map netstring l))).
Proof.
  intro Hne. unfold split_netstring_with. rewrite skipn_N_0.
  rewrite split_loop_netstrings.
  - cbn [app]. rewrite N.ltb_irrefl. f_equal.
  - assumption.
  - pose proof (concat_netstrings_length l). rewrite app_length. lia.
  - reflexivity.
Qed.
End Reader.

(* ---- strict converse ---- *)
Lemma firstn_skipn_cons {A} n (l : list A) c r :
  skipn n l = c :: r -> l = firstn n l ++ c :: r /\ length (firstn n l) = n.
Proof.
  intro H. split.
  - rewrite <- H. symmetry. apply firstn_skipn.
  - apply firstn_length_le.
    assert (length (skipn n l) = length l - n)%nat by apply skipn_length.
    rewrite H in H0. cbn [length] in H0. lia.
Qed.

Lemma split_loop_strict_inv : forall fuel rest pos ns acc els pos' rest',
  split_loop strict_nat fuel rest pos ns acc = Ok (els, pos', rest') ->
  exists l, els = acc ++ l /\ rest = concat (map netstring l) ++ rest'
            /\ pos' = pos + blen (concat (map netstring l)).
Proof.
  induction fuel as [|f IH]; intros rest pos ns acc els pos' rest' H; [discriminate|].
  destruct rest as [|b0 rest0] eqn:Erest.
  - cbn in H. injection H as <- <- <-. exists []. rewrite app_nil_r. cbn. split; [reflexivity|split; [reflexivity|lia]].
  - rewrite <- Erest in *. rewrite split_loop_S in H by (rewrite Erest; discriminate).
    destruct (find_byte 58 rest) as [[numeral after]|] eqn:F; [|discriminate].
    apply find_byte_some in F. destruct F as [Hrest _].
    destruct (strict_nat numeral) as [z|] eqn:R; [|discriminate].
    apply strict_nat_canonical in R. destruct R as [Hz Hnum].
    destruct (z <? 0)%Z; [discriminate|]. cbv zeta in H.
    destruct (blen after <? Z.to_N z) eqn:Hlen; [discriminate|].
    destruct (skipn (N.to_nat (Z.to_N z)) after) as [|c rest''] eqn:Hs; [discriminate|].
    destruct (c =? 44) eqn:Hc; [|discriminate]. apply N.eqb_eq in Hc. subst c.
    apply firstn_skipn_cons in Hs. destruct Hs as [Hafter Hlenstr].
    set (str := firstn (N.to_nat (Z.to_N z)) after) in *.
    assert (Hbl : blen str = Z.to_N z) by (unfold blen; rewrite Hlenstr; apply N2Nat.id).
    assert (Hns : rest = netstring str ++ rest'').
    { rewrite Hrest, Hafter, Hnum, <- Hbl, netstring_unfold, <- !app_assoc. cbn [app].
      rewrite <- app_assoc. reflexivity. }
    assert (Hpos : pos + blen numeral + 1 + Z.to_N z + 1 = pos + blen (netstring str)).
    { rewrite netstring_blen, Hnum, Hbl. lia. }
    rewrite Hpos in H.
    destruct (N.of_nat (length (acc ++ [str])) =? ns).
    + injection H as <- <- <-. exists [str]. cbn [map concat]. rewrite app_nil_r.
      split; [reflexivity|split; [assumption|reflexivity]].
    + apply IH in H. destruct H as (l & -> & Hr & ->).
      exists (str :: l). cbn [map concat]. rewrite <- !app_assoc. cbn [app].
      split; [reflexivity|split].
      * rewrite Hns, Hr. reflexivity.
      * rewrite blen_app. lia.
Qed.

(* whatever the strict reader accepts is exactly the encoding of what it returns *)
Theorem split_netstring_strict_converse data ns els p :
  split_netstring_strict data ns 0 (Some []) = Ok (els, p) ->
  concat (map netstring els) = data /\ p = blen data.
Proof.
  unfold split_netstring_strict, split_netstring_with. rewrite skipn_N_0.
  destruct (split_loop strict_nat (S (length data)) data 0 ns []) as [[[els' pos'] rest']|e] eqn:L; [|discriminate].
  destruct (N.of_nat (length els') <? ns); [discriminate|].
  destruct (list_N_eqb rest' []) eqn:Er; [|discriminate].
  apply list_N_eqb_eq in Er. subst rest'. intro H. injection H as <- <-.
  apply split_loop_strict_inv in L. destruct L as (l & -> & -> & ->).
  cbn [app]. rewrite app_nil_r. split; [reflexivity|]. change (blen []) with 0. lia.
Qed.

(* ---- the strict reader is a restriction of the real one ---- *)
Lemma split_loop_mono (rd1 rd2 : list N -> option Z) :
  (forall l z, rd1 l = Some z -> rd2 l = Some z) ->
  forall fuel rest pos ns acc r,
  split_loop rd1 fuel rest pos ns acc = Ok r -> split_loop rd2 fuel rest pos ns acc = Ok r.
Proof.
  intros Hrd. induction fuel as [|f IH]; intros rest pos ns acc r H; [discriminate|].
  destruct rest as [|b0 rest0] eqn:Erest; [exact H|].
  rewrite <- Erest in *. rewrite split_loop_S in * by (rewrite Erest; discriminate).
  destruct (find_byte 58 rest) as [[numeral after]|]; [|discriminate].
  destruct (rd1 numeral) as [z|] eqn:R; [|discriminate].
  rewrite (Hrd _ _ R).
  destruct (z <? 0)%Z; [discriminate|]. cbv zeta in *.
  destruct (blen after <? Z.to_N z); [discriminate|].
  destruct (skipn (N.to_nat (Z.to_N z)) after) as [|c rest'']; [discriminate|].
  destruct (c =? 44); [|discriminate].
  destruct (N.of_nat (length (acc ++ [firstn (N.to_nat (Z.to_N z)) after])) =? ns); [exact H|].
  apply IH. exact H.
Qed.

Theorem split_netstring_strict_sound data ns pos t r :
  split_netstring_strict data ns pos t = Ok r -> split_netstring data ns pos t = Ok r.
Proof.
  unfold split_netstring_strict, split_netstring, split_netstring_with.
  destruct (split_loop strict_nat (S (length data)) (skipn_N pos data) pos ns []) as [x|e] eqn:L; [|discriminate].
  rewrite (split_loop_mono strict_nat py_int strict_nat_sound _ _ _ _ _ _ L). trivial.
Qed.

(* the real code, on inputs whose numerals are canonical *)
Theorem split_netstring_converse_canonical data ns els p :
  split_netstring data ns 0 (Some []) = Ok (els, p) ->
  is_ok (split_netstring_strict data ns 0 (Some [])) = true ->
  concat (map netstring els) = data /\ p = blen data.
Proof.
  intros H Hc. destruct (split_netstring_strict data ns 0 (Some [])) as [[els' p']|e] eqn:S; [|discriminate].
  pose proof (split_netstring_strict_sound _ _ _ _ _ S) as S'. rewrite H in S'. injection S' as <- <-.
  apply split_netstring_strict_converse with (ns := ns). assumption.
Qed.

(* ---- round trips for the two instances ---- *)
Theorem split_netstring_roundtrip l :
  split_netstring (concat (map netstring l)) (N.of_nat (length l)) 0 (Some []) =
  Ok (l, blen (concat (map netstring l))).
Proof. apply split_netstring_roundtrip_with. exact py_int_dec. Qed.

Theorem split_netstring_roundtrip_prefix l x :
  l <> [] ->
  split_netstring (concat (map netstring l) ++ x) (N.of_nat (length l)) 0 None =
  Ok (l, blen (concat (map netstring l))).
Proof. apply split_netstring_roundtrip_prefix_with. exact py_int_dec. Qed.

Theorem split_netstring_strict_roundtrip l :
  split_netstring_strict (concat (map netstring l)) (N.of_nat (length l)) 0 (Some []) =
  Ok (l, blen (concat (map netstring l))).
Proof. apply split_netstring_roundtrip_with. exact strict_nat_dec. Qed.

(* ---- fuel ---- *)
Lemma skipn_length_le {A} n (l : list A) : (length (skipn n l) <= length l)%nat.
Proof. rewrite skipn_length. lia. Qed.

Lemma split_loop_fuel rd : forall fuel rest pos ns acc,
  (length rest < fuel)%nat -> split_loop rd fuel rest pos ns acc <> Err EFuel.
Proof.
  induction fuel as [|f IH]; intros rest pos ns acc Hf; [lia|].
  destruct rest as [|b0 rest0] eqn:Erest; [discriminate|].
  rewrite <- Erest in *. rewrite split_loop_S by (rewrite Erest; discriminate).
  destruct (find_byte 58 rest) as [[numeral after]|] eqn:F; [|discriminate].
  apply find_byte_some in F. destruct F as [Hrest _].
  destruct (rd numeral) as [z|]; [|discriminate].
  destruct (z <? 0)%Z; [discriminate|]. cbv zeta.
  destruct (blen after <? Z.to_N z); [discriminate|].
  destruct (skipn (N.to_nat (Z.to_N z)) after) as [|c rest''] eqn:Hs; [discriminate|].
  destruct (c =? 44); [|discriminate].
  destruct (N.of_nat (length (acc ++ [firstn (N.to_nat (Z.to_N z)) after])) =? ns); [discriminate|].
  apply IH.
  pose proof (skipn_length_le (N.to_nat (Z.to_N z)) after) as Hl. rewrite Hs in Hl. cbn [length] in Hl.
  rewrite Hrest, app_length in Hf. cbn [length] in Hf. lia.
Qed.

Theorem split_netstring_fuel_suffices rd data ns t :
  split_netstring_with rd data ns 0 t <> Err EFuel.
Proof.
  unfold split_netstring_with. rewrite skipn_N_0.
  pose proof (split_loop_fuel rd (S (length data)) data 0 ns [] ltac:(lia)) as H.
  destruct (split_loop rd (S (length data)) data 0 ns []) as [[[els pos] rest]|e].
  - destruct (N.of_nat (length els) <? ns); [discriminate|]. destruct t; [|discriminate].
    destruct (list_N_eqb rest l); discriminate.
  - intro E. injection E as ->. apply H. reflexivity.
Qed.

(* ---- the unconditional converse is false ---- *)
Theorem split_netstring_converse_refuted :
  exists data els p, split_netstring data 1 0 (Some []) = Ok (els, p) /\ concat (map netstring els) <> data.
Proof.
  exists (bytes_of_string "+3:abc,"%string), [bytes_of_string "abc"%string], 7. split; [vm_compute; reflexivity|vm_compute; discriminate].
Qed.

Definition noncanonical_numeral_witnesses : list (list N) :=
  map bytes_of_string ["+3:abc,"; "03:abc,"; " 3:abc,"; "3 :abc,"; "1_0:abcdefghij,"; "-0:,"]%string.

Theorem split_netstring_noncanonical_accepted :
  forallb (fun data =>
    match split_netstring data 1 0 (Some []) with
    | Ok (els, _) => negb (list_N_eqb (concat (map netstring els)) data)
    | Err _ => false
    end) noncanonical_numeral_witnesses = true.
Proof. vm_compute. reflexivity. Qed.

Theorem split_netstring_strict_rejects_witnesses :
  forallb (fun data => negb (is_ok (split_netstring_strict data 1 0 (Some [])))) noncanonical_numeral_witnesses = true.
Proof. vm_compute. reflexivity. Qed.
