(* C37: Spans.add.  The index-based scan of the model is first rewritten as a
   split  l = pre ++ run ++ post  (no invariant needed), then, under the
   representation invariant, the result is shown wf and to denote the union. *)
From Coq Require Import List Arith NArith Bool Lia ZifyBool ZifyNat ZifyN Permutation Btauto.
From Verif Require Import Model.Spans Proofs.SpansBase.
Import ListNotations.
Local Open Scope N_scope.

(* ---- small list facts -------------------------------------------------------------- *)
Lemma firstn_length_app {A} (p q : list A) : firstn (length p) (p ++ q) = p.
Proof. induction p as [|x p IH]; cbn [length firstn app]; [destruct q; reflexivity|]. rewrite IH. reflexivity. Qed.

Lemma skipn_length_app {A} (p q : list A) : skipn (length p) (p ++ q) = q.
Proof. induction p as [|x p IH]; cbn [length skipn app]; [reflexivity|]. exact IH. Qed.

Lemma nth_length_app {A} (p : list A) x q d : nth (length p) (p ++ x :: q) d = x.
Proof. induction p as [|y p IH]; cbn [length nth app]; [reflexivity|]. exact IH. Qed.

Lemma last_cons {A} (x : A) r d : last (x :: r) d = last r x.
Proof.
  revert x d; induction r as [|y r IH]; intros x d; [reflexivity|].
  change (last (x :: y :: r) d) with (last (y :: r) d). rewrite (IH y d), (IH y x). reflexivity.
Qed.

Lemma last_cons_run {A} (y : A) p cur : last (y :: p) cur = last p y.
Proof. apply last_cons. Qed.

Lemma nth_last_app {A} (x : A) r q d : nth (length r) ((x :: r) ++ q) d = last r x.
Proof.
  revert x; induction r as [|y r IH]; intro x; [reflexivity|].
  cbn [length]. change ((x :: y :: r) ++ q) with (x :: ((y :: r) ++ q)). cbn [nth]. rewrite IH.
  symmetry. apply last_cons.
Qed.

Lemma slice_facts {A} (pre : list A) x run' post d :
  let l := pre ++ x :: run' ++ post in
  nth (length pre) l d = x /\
  nth (length pre + length run') l d = last run' x /\
  firstn (length pre) l = pre /\
  skipn (S (length pre + length run')) l = post.
Proof.
  cbn zeta. repeat split.
  - apply nth_length_app.
  - rewrite app_nth2_plus. change (x :: run' ++ post) with ((x :: run') ++ post). apply nth_last_app.
  - apply firstn_length_app.
  - replace (S (length pre + length run')) with (length (pre ++ x :: run')) by (rewrite app_length; cbn [length]; lia).
    change (x :: run' ++ post) with ((x :: run') ++ post). rewrite app_assoc. apply skipn_length_app.
Qed.

Section Add.
Variables s n : N.

Fixpoint split_pre (l : spans) : spans * spans :=
  match l with
  | [] => ([], [])
  | x :: r => if touches s n x then ([], l) else let '(p, q) := split_pre r in (x :: p, q)
  end.

Fixpoint split_run (l : spans) : spans * spans :=
  match l with
  | [] => ([], [])
  | x :: r => if touches s n x then let '(p, q) := split_run r in (x :: p, q) else ([], l)
  end.

Lemma split_pre_spec l p q : split_pre l = (p, q) ->
  l = p ++ q /\ Forall (fun y => touches s n y = false) p /\
  match q with [] => True | x :: _ => touches s n x = true end.
Proof.
  revert p q; induction l as [|x r IH]; intros p q E; cbn [split_pre] in E.
  - injection E as <- <-. repeat split; constructor.
  - destruct (touches s n x) eqn:T.
    + injection E as <- <-. repeat split; [constructor|assumption].
    + destruct (split_pre r) as [p' q'] eqn:E'. injection E as <- <-.
      destruct (IH _ _ eq_refl) as (H1 & H2 & H3). repeat split.
      * cbn [app]. congruence.
      * constructor; assumption.
      * assumption.
Qed.

Lemma split_run_spec l p q : split_run l = (p, q) ->
  l = p ++ q /\ Forall (fun y => touches s n y = true) p /\
  match q with [] => True | x :: _ => touches s n x = false end.
Proof.
  revert p q; induction l as [|x r IH]; intros p q E; cbn [split_run] in E.
  - injection E as <- <-. repeat split; constructor.
  - destruct (touches s n x) eqn:T.
    + destruct (split_run r) as [p' q'] eqn:E'. injection E as <- <-.
      destruct (IH _ _ eq_refl) as (H1 & H2 & H3). repeat split.
      * cbn [app]. congruence.
      * constructor; assumption.
      * assumption.
    + injection E as <- <-. repeat split; [constructor|assumption].
Qed.

(* the scan, once a first overlap has been seen *)
Lemma add_scan_run l i f la :
  add_scan s n l i (Some f) (Some la) =
  (Some f, Some (match fst (split_run l) with [] => la | _ :: _ => (i + length (fst (split_run l)) - 1)%nat end)).
Proof.
  revert i la; induction l as [|[a b] r IH]; intros i la; [reflexivity|].
  cbn [add_scan split_run]. change (is_some (overlap a b s n) || adjacent a b s n) with (touches s n (a, b)).
  destruct (touches s n (a, b)) eqn:T; [|reflexivity].
  rewrite IH. destruct (split_run r) as [p q] eqn:E. cbn [fst length].
  destruct p as [|y p]; cbn [length]; f_equal; apply f_equal; lia.
Qed.

Lemma add_scan_pre l i :
  add_scan s n l i None None =
  let '(pre, rest) := split_pre l in
  match rest with
  | [] => (None, None)
  | _ :: _ => (Some (i + length pre)%nat, Some (i + length pre + length (fst (split_run rest)) - 1)%nat)
  end.
Proof.
  revert i; induction l as [|[a b] r IH]; intro i; [reflexivity|].
  cbn [add_scan split_pre]. change (is_some (overlap a b s n) || adjacent a b s n) with (touches s n (a, b)).
  destruct (touches s n (a, b)) eqn:T.
  - rewrite add_scan_run. cbn [split_run]. rewrite T.
    destruct (split_run r) as [p q] eqn:E. cbn [fst length].
    destruct p as [|y p]; cbn [length]; f_equal; apply f_equal; lia.
  - rewrite IH. destruct (split_pre r) as [p q] eqn:E.
    destruct q as [|y q]; [reflexivity|]. cbn [length]. f_equal; apply f_equal; lia.
Qed.

(* the structural form of add *)
Definition newspan (x lst : span) : span :=
  (N.min s (fst x), N.max (s + n) (fst lst + snd lst) - N.min s (fst x)).

Lemma add_raw_cases l :
  (Forall (fun y => touches s n y = false) l /\ spans_add_raw s n l = psort ((s, n) :: l))
  \/
  (exists pre x run' post,
      l = pre ++ x :: run' ++ post /\
      Forall (fun y => touches s n y = false) pre /\
      touches s n x = true /\
      split_run (run' ++ post) = (run', post) /\
      spans_add_raw s n l = pre ++ newspan x (last run' x) :: post).
Proof.
  unfold spans_add_raw. rewrite add_scan_pre.
  destruct (split_pre l) as [pre rest] eqn:E.
  destruct (split_pre_spec _ _ _ E) as (H1 & H2 & H3).
  destruct rest as [|x rest'].
  - left. rewrite app_nil_r in H1. subst pre. auto.
  - right.
    assert (ER : split_run (x :: rest') = (x :: fst (split_run rest'), snd (split_run rest'))).
    { cbn [split_run]. rewrite H3. destruct (split_run rest'); reflexivity. }
    destruct (split_run rest') as [run' post'] eqn:ER2. cbn [fst snd] in ER.
    destruct (split_run_spec _ _ _ ER2) as (H4 & H5 & H6).
    exists pre, x, run', post'. subst rest'.
    repeat split; try assumption.
    rewrite ER. cbn [fst length]. rewrite !PeanoNat.Nat.add_0_l.
    replace (length pre + S (length run') - 1)%nat with (length pre + length run')%nat by lia.
    destruct (slice_facts pre x run' post' (0, 0)) as (S1 & S2 & S3 & S4).
    rewrite H1, S1, S2, S3, S4.
    destruct x as [fs fl]. destruct (last run' (fs, fl)) as [ls ll].
    reflexivity.
Qed.

(* ---- semantics under the invariant --------------------------------------------- *)
Hypothesis Hn : 0 < n.

Lemma nontouch_spec sp : 0 < snd sp -> touches s n sp = false ->
  fst sp + snd sp < s \/ s + n < fst sp.
Proof. intros Hb T. rewrite touches_spec in T by assumption. lia. Qed.

Lemma touch_spec sp : 0 < snd sp -> touches s n sp = true ->
  fst sp <= s + n /\ s <= fst sp + snd sp.
Proof. intros Hb T. rewrite touches_spec in T by assumption. lia. Qed.

(* no overlap: insert(0, ...) + sort() puts the span in its place *)
Lemma pinsert_nontouch e l :
  wf_from e l -> e <= s -> Forall (fun y => touches s n y = false) l ->
  wf_from e (pinsert (s, n) l) /\
  forall z, mem z (pinsert (s, n) l) = mem z l || in_iv s n z.
Proof.
  revert e; induction l as [|y r IH]; intros e H He HF.
  - cbn [pinsert wf_from fst snd]. split; [repeat split; lia|].
    intro z. rewrite mem_cons, !mem_nil. cbn [fst snd]. btauto.
  - cbn [wf_from] in H. destruct H as (H1 & H2 & H3).
    inversion HF as [|? ? T HF']; subst.
    destruct (nontouch_spec y H2 T) as [Hb|Ha].
    + assert (E : pleb (s, n) y = false) by (unfold pleb; cbn [fst snd]; lia).
      cbn [pinsert]. rewrite E.
      destruct (IH (fst y + snd y + 1) H3 ltac:(lia) HF') as [W M].
      split.
      * cbn [wf_from]. auto.
      * intro z. rewrite !mem_cons, M. btauto.
    + assert (E : pleb (s, n) y = true) by (unfold pleb; cbn [fst snd]; lia).
      cbn [pinsert]. rewrite E.
      split.
      * cbn [wf_from fst snd]. repeat split; try lia; assumption.
      * intro z. rewrite !mem_cons. cbn [fst snd]. btauto.
Qed.

(* the run of touching spans after the first one (`cur` is the last touching
   span seen so far) *)
Lemma run_phase rest : forall cur run' post,
  wf_from (fst cur + snd cur + 1) rest ->
  fst cur <= s + n -> s <= fst cur + snd cur ->
  split_run rest = (run', post) ->
  let lst := last run' cur in
  wf_from (N.max (s + n) (fst lst + snd lst) + 1) post /\
  forall x0 z, x0 <= fst cur ->
    in_iv (N.min s x0) (N.max (s + n) (fst lst + snd lst) - N.min s x0) z =
    in_iv (N.min s x0) (N.max (s + n) (fst cur + snd cur) - N.min s x0) z || mem z run'.
Proof.
  induction rest as [|y r IH]; intros cur run' post H Hc1 Hc2 E; cbn [split_run] in E.
  - injection E as <- <-. cbn [last]. split; [exact I|]. intros x0 z Hx. rewrite mem_nil. btauto.
  - cbn [wf_from] in H. destruct H as (H1 & H2 & H3).
    destruct (touches s n y) eqn:T.
    + destruct (split_run r) as [p q] eqn:E'. injection E as <- <-.
      destruct (touch_spec y H2 T) as [T1 T2].
      specialize (IH y p q H3 T1 T2 eq_refl). cbn zeta in IH. destruct IH as [W M].
      cbn zeta. rewrite last_cons_run. split; [exact W|].
      intros x0 z Hx. rewrite (M x0 z) by lia. rewrite mem_cons. unfold in_iv. lia.
    + injection E as <- <-. cbn [last]. cbn zeta.
      destruct (nontouch_spec y H2 T) as [Hb|Ha]; [lia|].
      split.
      * cbn [wf_from]. repeat split; try lia; assumption.
      * intros x0 z Hx. rewrite mem_nil. btauto.
Qed.

Lemma wf_from_app_head e p x t : wf_from e (p ++ x :: t) -> e <= fst x.
Proof.
  revert e; induction p as [|y p IH]; intros e H; cbn [app wf_from] in H.
  - destruct H as [H _]; exact H.
  - destruct H as (H1 & H2 & H3). specialize (IH _ H3). lia.
Qed.

Lemma wf_from_app_mid e p x t : wf_from e (p ++ x :: t) ->
  0 < snd x /\ wf_from (fst x + snd x + 1) t.
Proof.
  revert e; induction p as [|y p IH]; intros e H; cbn [app wf_from] in H.
  - destruct H as (_ & H1 & H2). split; assumption.
  - destruct H as (_ & _ & H). exact (IH _ H).
Qed.

(* the spans before the run stay, the run is replaced by one span *)
Lemma pre_phase pre : forall e x tl nw post,
  wf_from e (pre ++ x :: tl) ->
  Forall (fun y => touches s n y = false) pre ->
  fst x <= s + n -> e <= s ->
  fst nw = N.min s (fst x) -> 0 < snd nw ->
  wf_from (fst nw + snd nw + 1) post ->
  wf_from e (pre ++ nw :: post).
Proof.
  induction pre as [|y pre IH]; intros e x tl nw post H HF Hx He N1 N2 W; cbn [app] in *.
  - cbn [wf_from] in *. destruct H as (H1 & H2 & H3). repeat split; try assumption. lia.
  - cbn [wf_from] in H. destruct H as (H1 & H2 & H3).
    inversion HF as [|? ? T HF']; subst.
    pose proof (wf_from_app_head _ _ _ _ H3) as Hyx.
    cbn [wf_from]. repeat split; try assumption.
    apply (IH _ x tl); try assumption.
    destruct (nontouch_spec y H2 T); lia.
Qed.

Theorem spans_add_raw_correct l : wf l ->
  wf (spans_add_raw s n l) /\
  forall z, mem z (spans_add_raw s n l) = mem z l || in_iv s n z.
Proof.
  intro H. destruct (add_raw_cases l) as [[HF E]|(pre & x & run' & post & El & HF & T & ER & E)]; rewrite E.
  - cbn [psort]. rewrite (psort_wf_id _ _ H).
    apply pinsert_nontouch; [exact H|lia|exact HF].
  - subst l. unfold wf in H.
    assert (Hx : 0 < snd x /\ wf_from (fst x + snd x + 1) (run' ++ post)).
    { exact (wf_from_app_mid _ _ _ _ H). }
    destruct Hx as [Hx1 Hx2].
    destruct (touch_spec x Hx1 T) as [T1 T2].
    destruct (run_phase _ x run' post Hx2 T1 T2 ER) as [W M]. cbn zeta in W, M.
    split.
    + unfold wf. apply (pre_phase pre 0 x (run' ++ post)); try assumption; try lia.
      * reflexivity.
      * unfold newspan. cbn [snd]. lia.
      * unfold newspan. cbn [fst snd].
        replace (N.min s (fst x) + (N.max (s + n) (fst (last run' x) + snd (last run' x)) - N.min s (fst x)))
          with (N.max (s + n) (fst (last run' x) + snd (last run' x))) by lia.
        exact W.
    + intro z. rewrite !mem_app, !mem_cons, !mem_app. unfold newspan. cbn [fst snd].
      rewrite (M (fst x) z) by lia.
      assert (EQ : in_iv (N.min s (fst x)) (N.max (s + n) (fst x + snd x) - N.min s (fst x)) z
                   = in_iv (fst x) (snd x) z || in_iv s n z) by (unfold in_iv; lia).
      rewrite EQ. btauto.
Qed.

Theorem spans_add_correct l : wf l ->
  exists l', spans_add s n l = Some l' /\ wf l' /\
             forall z, mem z l' = mem z l || in_iv s n z.
Proof.
  intro H. destruct (spans_add_raw_correct l H) as [W M].
  exists (spans_add_raw s n l). unfold spans_add.
  assert (E : (n =? 0) = false) by lia. rewrite E, (spans_check_wf _ W). auto.
Qed.

End Add.

Lemma spans_add_zero s l : spans_add s 0 l = None.
Proof. reflexivity. Qed.
