(* bfs: the predecessor table it returns describes a set of vertices that contains
   the source, is closed under the edges of the graph, and every predecessor link is
   an edge from a coloured vertex one level closer to the source. *)
From Coq Require Import List NArith ZArith Bool Arith Lia.
From Verif Require Import Model.Matching Proofs.MatchingLists.
Import ListNotations.

Section Bfs.
Variable rg : graph.
Variable dim : nat.
Hypothesis Hlen : length rg = dim.
Hypothesis Hrange : forall u v, In v (adj rg u) -> v < dim.
Hypothesis Hpos : 0 < dim.

Definition col (c : list nat) (v : nat) : nat := nth v c 0.
Definition prd (p : list (option nat)) (v : nat) : option nat := nth v p None.

(* [n] = Some x: the vertex currently being expanded (grey but not in the queue) *)
Record BInv (c : list nat) (p : list (option nat)) (q : list nat) (d : nat -> nat) (n : option nat) : Prop := {
  bi_lc : length c = dim;
  bi_lp : length p = dim;
  bi_le : forall v, col c v <= 2;
  bi_q : forall v, In v q -> col c v = 1 /\ v < dim;
  bi_nd : NoDup q;
  bi_g : forall v, col c v = 1 -> Some v = n \/ In v q;
  bi_n : forall x, n = Some x -> col c x = 1 /\ ~ In x q;
  bi_b : forall u, col c u = 2 -> forall v, In v (adj rg u) -> col c v <> 0;
  bi_c : forall v, col c v <> 0 <-> (v = 0 \/ prd p v <> None);
  bi_z : prd p 0 = None;
  bi_p : forall v u, prd p v = Some u -> In v (adj rg u) /\ col c u <> 0 /\ d v = S (d u)
}.

Lemma col_upd : forall c i x v, col (upd i x c) v = if Nat.eqb i v then (if Nat.ltb i (length c) then x else col c v) else col c v.
Proof. intros. unfold col. apply nth_upd. Qed.

Lemma prd_upd : forall p i x v, prd (upd i x p) v = if Nat.eqb i v then (if Nat.ltb i (length p) then x else prd p v) else prd p v.
Proof. intros. unfold prd. apply nth_upd. Qed.

Lemma visit_step : forall c p q d n v,
  BInv c p q d (Some n) -> In v (adj rg n) -> col c v = 0 ->
  BInv (upd v 1 c) (upd v (Some n) p) (q ++ [v]) (fun x => if Nat.eqb x v then S (d n) else d x) (Some n).
Proof.
  intros c p q d n v I Hv Hw.
  pose proof (Hrange _ _ Hv) as Hvd.
  destruct (bi_n _ _ _ _ _ I n eq_refl) as [Hn1 Hn2].
  assert (Hnv : n <> v) by (intro; subst; lia).
  assert (Lc : Nat.ltb v (length c) = true) by (apply Nat.ltb_lt; rewrite (bi_lc _ _ _ _ _ I); exact Hvd).
  assert (Lp : Nat.ltb v (length p) = true) by (apply Nat.ltb_lt; rewrite (bi_lp _ _ _ _ _ I); exact Hvd).
  assert (H0 : col c 0 <> 0) by (apply (bi_c _ _ _ _ _ I); left; reflexivity).
  assert (Hv0 : v <> 0) by (intro; subst; contradiction).
  assert (Cm : forall x, col c x <> 0 -> col (upd v 1 c) x <> 0).
  { intros x Hx. rewrite col_upd, Lc. destruct (Nat.eqb v x); [lia | exact Hx]. }
  constructor.
  - rewrite length_upd. apply (bi_lc _ _ _ _ _ I).
  - rewrite length_upd. apply (bi_lp _ _ _ _ _ I).
  - intros x. rewrite col_upd, Lc. destruct (Nat.eqb v x); [lia | apply (bi_le _ _ _ _ _ I)].
  - intros x Hx. apply in_app_iff in Hx. destruct Hx as [Hx|[Hx|[]]].
    + destruct (bi_q _ _ _ _ _ I x Hx) as [H1 H2]. split; [|exact H2].
      rewrite col_upd, Lc. destruct (Nat.eqb v x) eqn:E; [reflexivity | exact H1].
    + subst x. split; [|exact Hvd]. rewrite col_upd, Lc, Nat.eqb_refl. reflexivity.
  - apply NoDup_app_intro.
    + apply (bi_nd _ _ _ _ _ I).
    + constructor; [intros [] | constructor].
    + intros x Hx [Hx'|[]]. subst x. destruct (bi_q _ _ _ _ _ I v Hx). lia.
  - intros x Hx. rewrite col_upd, Lc in Hx. destruct (Nat.eqb v x) eqn:E.
    + apply Nat.eqb_eq in E. subst x. right. apply in_app_iff. right. left. reflexivity.
    + destruct (bi_g _ _ _ _ _ I x Hx) as [H|H]; [left; exact H | right; apply in_app_iff; left; exact H].
  - intros x Ex. inversion Ex; subst x. split.
    + rewrite col_upd, Lc. destruct (Nat.eqb v n) eqn:E; [apply Nat.eqb_eq in E; lia | exact Hn1].
    + rewrite in_app_iff. intros [H|[H|[]]]; [contradiction | lia].
  - intros u Hu x Hx. rewrite col_upd, Lc in Hu. destruct (Nat.eqb v u) eqn:E; [lia|].
    apply Cm. apply (bi_b _ _ _ _ _ I u Hu x Hx).
  - intros x. rewrite col_upd, Lc, prd_upd, Lp. destruct (Nat.eqb v x) eqn:E.
    + split; [intros _; right; discriminate | intros _; lia].
    + apply (bi_c _ _ _ _ _ I).
  - rewrite prd_upd, Lp. destruct (Nat.eqb v 0) eqn:E; [apply Nat.eqb_eq in E; lia | apply (bi_z _ _ _ _ _ I)].
  - intros x u Hx. rewrite prd_upd, Lp in Hx. destruct (Nat.eqb v x) eqn:E.
    + apply Nat.eqb_eq in E. subst x. inversion Hx; subst u. split; [exact Hv|]. split.
      * apply Cm. lia.
      * rewrite Nat.eqb_refl. destruct (Nat.eqb n v) eqn:E2; [apply Nat.eqb_eq in E2; lia | reflexivity].
    + destruct (bi_p _ _ _ _ _ I x u Hx) as [P1 [P2 P3]]. split; [exact P1|]. split; [apply Cm; exact P2|].
      rewrite (Nat.eqb_sym x v), E.
      destruct (Nat.eqb u v) eqn:E2; [apply Nat.eqb_eq in E2; subst u; contradiction | exact P3].
Qed.

Lemma visit_spec : forall nbrs c p q d n c' p' q',
  BInv c p q d (Some n) -> (forall v, In v nbrs -> In v (adj rg n)) ->
  bfs_visit nbrs n c p q = (c', p', q') ->
  exists d', BInv c' p' q' d' (Some n) /\
             (forall v, In v nbrs -> col c' v <> 0) /\
             (forall v, col c v <> 0 -> col c' v <> 0).
Proof.
  induction nbrs as [|v r IH]; intros c p q d n c' p' q' I Hsub H; cbn [bfs_visit] in H.
  - inversion H; subst. exists d. split; [exact I|]. split; [intros v [] | auto].
  - assert (Hsub' : forall x, In x r -> In x (adj rg n)) by (intros x Hx; apply Hsub; right; exact Hx).
    fold (col c v) in H. destruct (Nat.eqb (col c v) 0) eqn:E.
    + apply Nat.eqb_eq in E.
      pose proof (visit_step c p q d n v I (Hsub v (or_introl eq_refl)) E) as I1.
      destruct (IH _ _ _ _ _ _ _ _ I1 Hsub' H) as [d' [I' [H1 H2]]].
      assert (Cm : forall x, col c x <> 0 -> col (upd v 1 c) x <> 0).
      { intros x Hx. rewrite col_upd. destruct (Nat.eqb v x); [destruct (Nat.ltb v (length c)); [lia | exact Hx] | exact Hx]. }
      exists d'. split; [exact I'|]. split.
      * intros x [Hx|Hx]; [|apply H1; exact Hx]. subst x. apply H2.
        rewrite col_upd, Nat.eqb_refl.
        assert (L : Nat.ltb v (length c) = true).
        { apply Nat.ltb_lt. rewrite (bi_lc _ _ _ _ _ I). apply (Hrange n). apply Hsub. left. reflexivity. }
        rewrite L. lia.
      * intros x Hx. apply H2. apply Cm. exact Hx.
    + apply Nat.eqb_neq in E.
      destruct (IH _ _ _ _ _ _ _ _ I Hsub' H) as [d' [I' [H1 H2]]].
      exists d'. split; [exact I'|]. split; [|exact H2].
      intros x [Hx|Hx]; [subst x; apply H2; exact E | apply H1; exact Hx].
Qed.

Lemma finish_vertex : forall c p q d n,
  BInv c p q d (Some n) -> (forall v, In v (adj rg n) -> col c v <> 0) ->
  BInv (upd n 2 c) p q d None.
Proof.
  intros c p q d n I Hn.
  destruct (bi_n _ _ _ _ _ I n eq_refl) as [Hn1 Hn2].
  assert (Hnd : n < dim).
  { destruct (Nat.lt_ge_cases n dim) as [H|H]; [exact H|].
    unfold col in Hn1. rewrite nth_overflow in Hn1 by (rewrite (bi_lc _ _ _ _ _ I); exact H). discriminate. }
  assert (Lc : Nat.ltb n (length c) = true) by (apply Nat.ltb_lt; rewrite (bi_lc _ _ _ _ _ I); exact Hnd).
  assert (Cm : forall x, col c x <> 0 <-> col (upd n 2 c) x <> 0).
  { intros x. rewrite col_upd, Lc. destruct (Nat.eqb n x) eqn:E; [|tauto].
    apply Nat.eqb_eq in E. subst x. lia. }
  constructor.
  - rewrite length_upd. apply (bi_lc _ _ _ _ _ I).
  - apply (bi_lp _ _ _ _ _ I).
  - intros x. rewrite col_upd, Lc. destruct (Nat.eqb n x); [lia | apply (bi_le _ _ _ _ _ I)].
  - intros x Hx. destruct (bi_q _ _ _ _ _ I x Hx) as [H1 H2]. split; [|exact H2].
    rewrite col_upd, Lc. destruct (Nat.eqb n x) eqn:E; [|exact H1].
    apply Nat.eqb_eq in E. subst x. contradiction.
  - apply (bi_nd _ _ _ _ _ I).
  - intros x Hx. rewrite col_upd, Lc in Hx. destruct (Nat.eqb n x) eqn:E; [lia|].
    destruct (bi_g _ _ _ _ _ I x Hx) as [H|H]; [|right; exact H].
    inversion H; subst x. rewrite Nat.eqb_refl in E. discriminate.
  - intros x Ex. discriminate.
  - intros u Hu x Hx. apply Cm. rewrite col_upd, Lc in Hu. destruct (Nat.eqb n u) eqn:E.
    + apply Nat.eqb_eq in E. subst u. apply Hn. exact Hx.
    + apply (bi_b _ _ _ _ _ I u Hu x Hx).
  - intros x. rewrite <- Cm. apply (bi_c _ _ _ _ _ I).
  - apply (bi_z _ _ _ _ _ I).
  - intros x u Hx. destruct (bi_p _ _ _ _ _ I x u Hx) as [P1 [P2 P3]].
    split; [exact P1|]. split; [apply Cm; exact P2 | exact P3].
Qed.

Lemma pop_vertex : forall c p n q d, BInv c p (n :: q) d None -> BInv c p q d (Some n).
Proof.
  intros c p n q d I.
  pose proof (bi_nd _ _ _ _ _ I) as Hnd. inversion Hnd as [|x y Hnotin Hnd']; subst.
  constructor; try (apply I).
  - intros v Hv. apply (bi_q _ _ _ _ _ I). right. exact Hv.
  - exact Hnd'.
  - intros v Hv. destruct (bi_g _ _ _ _ _ I v Hv) as [H|[H|H]]; [discriminate | left; subst; reflexivity | right; exact H].
  - intros x Ex. inversion Ex; subst x. split; [|exact Hnotin].
    apply (bi_q _ _ _ _ _ I). left. reflexivity.
Qed.

Lemma loop_spec : forall fuel c p q d tree,
  BInv c p q d None -> bfs_loop fuel rg c p q = Some tree ->
  exists c' d', BInv c' tree [] d' None.
Proof.
  induction fuel as [|fuel IH]; intros c p q d tree I H.
  - destruct q as [|n q]; cbn [bfs_loop] in H; [|discriminate]. inversion H; subst. exists c, d. exact I.
  - destruct q as [|n q]; cbn [bfs_loop] in H.
    + inversion H; subst. exists c, d. exact I.
    + destruct (bfs_visit (adj rg n) n c p q) as [[c1 p1] q1] eqn:Ev.
      pose proof (pop_vertex _ _ _ _ _ I) as I0.
      destruct (visit_spec _ _ _ _ _ _ _ _ _ I0 (fun v Hv => Hv) Ev) as [d1 [I1 [H1 _]]].
      pose proof (finish_vertex _ _ _ _ _ I1 H1) as I2.
      apply (IH _ _ _ _ _ I2 H).
Qed.

Lemma init_inv : BInv (upd 0 1 (repeat 0 dim)) (repeat None dim) [0] (fun _ => 0) None.
Proof.
  assert (L : Nat.ltb 0 (length (repeat 0 dim)) = true) by (apply Nat.ltb_lt; rewrite repeat_length; exact Hpos).
  assert (Hc : forall v, col (upd 0 1 (repeat 0 dim)) v = if Nat.eqb 0 v then 1 else 0).
  { intros v. rewrite col_upd, L. destruct (Nat.eqb 0 v); [reflexivity|].
    unfold col. destruct (Nat.lt_ge_cases v dim) as [H|H].
    - apply nth_repeat_lt. exact H.
    - apply nth_overflow. rewrite repeat_length. exact H. }
  assert (Hp : forall v, prd (repeat None dim) v = None).
  { intros v. unfold prd. destruct (Nat.lt_ge_cases v dim) as [H|H].
    - apply nth_repeat_lt. exact H.
    - apply nth_overflow. rewrite repeat_length. exact H. }
  constructor.
  - rewrite length_upd. apply repeat_length.
  - apply repeat_length.
  - intros v. rewrite Hc. destruct (Nat.eqb 0 v); lia.
  - intros v [Hv|[]]. subst v. split; [rewrite Hc; reflexivity | exact Hpos].
  - constructor; [intros [] | constructor].
  - intros v Hv. rewrite Hc in Hv. destruct (Nat.eqb 0 v) eqn:E; [|discriminate].
    apply Nat.eqb_eq in E. right. left. exact E.
  - intros x Ex. discriminate.
  - intros u Hu. rewrite Hc in Hu. destruct (Nat.eqb 0 u); discriminate.
  - intros v. rewrite Hc, Hp. destruct (Nat.eqb 0 v) eqn:E.
    + apply Nat.eqb_eq in E. split; [intros _; left; symmetry; exact E | intros _; lia].
    + apply Nat.eqb_neq in E. split; [intros H; exfalso; apply H; reflexivity | intros [H|H]; [lia | exfalso; apply H; reflexivity]].
  - apply Hp.
  - intros v u Hv. rewrite Hp in Hv. discriminate.
Qed.

Theorem bfs_spec : forall tree,
  bfs rg 0 = Some tree ->
  length tree = dim /\
  reached tree 0 = true /\
  nth 0 tree None = None /\
  (forall u v, reached tree u = true -> In v (adj rg u) -> reached tree v = true) /\
  (exists d : nat -> nat, forall v u, nth v tree None = Some u ->
      In v (adj rg u) /\ reached tree u = true /\ d v = S (d u)).
Proof.
  intros tree H. unfold bfs in H. rewrite Hlen in H.
  destruct (loop_spec _ _ _ _ _ _ init_inv H) as [c [d I]].
  assert (Hr : forall v, reached tree v = true <-> col c v <> 0).
  { intros v. rewrite (bi_c _ _ _ _ _ I). unfold reached, prd. destruct v as [|v].
    - split; [intros _; left; reflexivity | reflexivity].
    - destruct (nth (S v) tree None); split; try discriminate; try reflexivity.
      + intros _. right. discriminate.
      + intros [H1|H1]; [discriminate | exfalso; apply H1; reflexivity]. }
  split; [apply (bi_lp _ _ _ _ _ I)|]. split; [reflexivity|]. split; [apply (bi_z _ _ _ _ _ I)|]. split.
  - intros u v Hu Hv. apply Hr. apply Hr in Hu.
    assert (Hb : col c u = 2).
    { pose proof (bi_le _ _ _ _ _ I u) as Hle.
      destruct (Nat.eq_dec (col c u) 1) as [E1|E1]; [|lia].
      destruct (bi_g _ _ _ _ _ I u E1) as [Hx|[]]. discriminate. }
    apply (bi_b _ _ _ _ _ I u Hb v Hv).
  - exists d. intros v u Hv. destruct (bi_p _ _ _ _ _ I v u Hv) as [P1 [P2 P3]].
    split; [exact P1|]. split; [apply Hr; exact P2 | exact P3].
Qed.

(* ---------- termination: the fuel of bfs and of walk_back suffices ------------------------ *)

Definition whites (c : list nat) : nat := length (filter (fun x => Nat.eqb x 0) c).

Lemma whites_upd_le : forall c v x, x <> 0 -> whites (upd v x c) <= whites c.
Proof.
  unfold whites. induction c as [|a r IH]; intros v x Hx; [destruct v; cbn; lia|].
  destruct v as [|v]; cbn [upd filter].
  - destruct (Nat.eqb x 0) eqn:E; [apply Nat.eqb_eq in E; contradiction|].
    destruct (Nat.eqb a 0); cbn [length]; lia.
  - specialize (IH v x Hx). destruct (Nat.eqb a 0); cbn [length]; lia.
Qed.

Lemma whites_upd_white : forall c v x, x <> 0 -> v < length c -> nth v c 0 = 0 ->
  S (whites (upd v x c)) = whites c.
Proof.
  unfold whites. induction c as [|a r IH]; intros v x Hx Hv Hw; cbn [length] in Hv; [lia|].
  destruct v as [|v]; cbn [upd filter nth] in *.
  - subst a. cbn [Nat.eqb]. destruct (Nat.eqb x 0) eqn:E; [apply Nat.eqb_eq in E; contradiction|].
    cbn [length]. reflexivity.
  - assert (Hv' : v < length r) by lia. specialize (IH v x Hx Hv' Hw).
    destruct (Nat.eqb a 0); cbn [length]; lia.
Qed.

Lemma visit_measure : forall nbrs n c p q c' p' q',
  (forall v, In v nbrs -> v < length c) ->
  bfs_visit nbrs n c p q = (c', p', q') ->
  whites c' + length q' = whites c + length q /\ length c' = length c.
Proof.
  induction nbrs as [|v r IH]; intros n c p q c' p' q' Hr H; cbn [bfs_visit] in H.
  - inversion H; subst. split; reflexivity.
  - assert (Hv : v < length c) by (apply Hr; left; reflexivity).
    destruct (Nat.eqb (nth v c 0) 0) eqn:E.
    + apply Nat.eqb_eq in E.
      assert (Hr' : forall x, In x r -> x < length (upd v 1 c)) by (intros x Hx; rewrite length_upd; apply Hr; right; exact Hx).
      destruct (IH _ _ _ _ _ _ _ Hr' H) as [H1 H2]. rewrite length_upd in H2. split; [|exact H2].
      rewrite H1, app_length. cbn [length].
      pose proof (whites_upd_white c v 1 (Nat.neq_succ_0 0) Hv E). lia.
    + apply (IH _ _ _ _ _ _ _ (fun x Hx => Hr x (or_intror Hx)) H).
Qed.

Lemma loop_total : forall fuel c p q,
  length c = dim -> whites c + length q <= fuel -> bfs_loop fuel rg c p q <> None.
Proof.
  induction fuel as [|fuel IH]; intros c p q Hc Hm.
  - destruct q as [|n q]; cbn [bfs_loop]; [discriminate | cbn [length] in Hm; lia].
  - destruct q as [|n q]; cbn [bfs_loop]; [discriminate|].
    destruct (bfs_visit (adj rg n) n c p q) as [[c1 p1] q1] eqn:Ev.
    assert (Hr : forall v, In v (adj rg n) -> v < length c) by (intros v Hv; rewrite Hc; apply (Hrange n v Hv)).
    destruct (visit_measure _ _ _ _ _ _ _ _ Hr Ev) as [H1 H2].
    apply IH.
    + rewrite length_upd, H2. exact Hc.
    + pose proof (whites_upd_le c1 n 2 (Nat.neq_succ_0 1)). cbn [length] in Hm. lia.
Qed.

Lemma bfs_total : bfs rg 0 <> None.
Proof.
  unfold bfs. rewrite Hlen. apply loop_total.
  - rewrite length_upd. apply repeat_length.
  - pose proof (whites_upd_le (repeat 0 dim) 0 1 (Nat.neq_succ_0 0)) as H1.
    assert (H2 : whites (repeat 0 dim) <= dim).
    { unfold whites. clear. induction dim as [|k IH]; cbn [repeat filter Nat.eqb length]; lia. }
    cbn [length]. lia.
Qed.

Lemma NoDup_bounded_length : forall (l : list nat) n, NoDup l -> (forall x, In x l -> x < n) -> length l <= n.
Proof.
  intros l n Hnd Hb. rewrite <- (seq_length n 0). apply NoDup_incl_length; [exact Hnd|].
  intros x Hx. apply in_seq. specialize (Hb x Hx). lia.
Qed.

Lemma walk_total : forall c d tree,
  BInv c tree [] d None ->
  forall fuel v seen acc,
    col c v <> 0 -> NoDup seen -> (forall x, In x seen -> x < dim /\ d v < d x) ->
    dim <= fuel + length seen -> walk_back fuel tree v acc <> None.
Proof.
  intros c d tree I. induction fuel as [|fuel IH]; intros v seen acc Hv Hnd Hs Hf.
  - destruct v as [|v]; cbn [walk_back]; [discriminate|]. exfalso.
    assert (Hvd : S v < dim).
    { destruct (Nat.lt_ge_cases (S v) dim) as [H|H]; [exact H|].
      unfold col in Hv. rewrite nth_overflow in Hv by (rewrite (bi_lc _ _ _ _ _ I); exact H). contradiction. }
    assert (Hl : length (S v :: seen) <= dim).
    { apply NoDup_bounded_length.
      - constructor; [|exact Hnd]. intro Hin. destruct (Hs _ Hin). lia.
      - intros x [Hx|Hx]; [subst; exact Hvd | apply (Hs x Hx)]. }
    cbn [length] in Hl. lia.
  - destruct v as [|v]; cbn [walk_back]; [discriminate|].
    assert (Hvd : S v < dim).
    { destruct (Nat.lt_ge_cases (S v) dim) as [H|H]; [exact H|].
      unfold col in Hv. rewrite nth_overflow in Hv by (rewrite (bi_lc _ _ _ _ _ I); exact H). contradiction. }
    destruct (nth (S v) tree None) as [u|] eqn:Eu.
    + destruct (bi_p _ _ _ _ _ I (S v) u Eu) as [_ [Hu Hd]].
      apply (IH u (S v :: seen)).
      * exact Hu.
      * constructor; [|exact Hnd]. intro Hin. destruct (Hs _ Hin). lia.
      * intros x [Hx|Hx]; [subst x; split; [exact Hvd | lia] | destruct (Hs x Hx); split; [assumption | lia]].
      * cbn [length]. lia.
    + exfalso. apply (bi_c _ _ _ _ _ I (S v)) in Hv. destruct Hv as [Hv|Hv]; [discriminate|].
      apply Hv. exact Eu.
Qed.

Theorem bfs_walk_total : forall tree v acc,
  bfs rg 0 = Some tree -> reached tree v = true -> walk_back dim tree v acc <> None.
Proof.
  intros tree v acc H Hv. unfold bfs in H. rewrite Hlen in H.
  destruct (loop_spec _ _ _ _ _ _ init_inv H) as [c [d I]].
  apply (walk_total c d tree I dim v [] acc).
  - apply (bi_c _ _ _ _ _ I). unfold reached in Hv. destruct v as [|v]; [left; reflexivity|].
    right. unfold prd. destruct (nth (S v) tree None); [discriminate | discriminate].
  - constructor.
  - intros x [].
  - cbn [length]. lia.
Qed.

End Bfs.
