(* C06, part 6: with servers that allocate only what they were asked for, no two trackers ever hold a bucket for
   the same share number, so the assertion in CHKUploader.set_shareholders cannot fail (the defect repaired in
   /repo 111e37b: _allocation_for skips a share another tracker already holds). *)
From Coq Require Import List NArith ZArith Bool Lia.
From Verif Require Import Model.Matching Proofs.Matching Model.UploadSel Proofs.UploadSelBase Proofs.UploadSelSelector Proofs.UploadSelEncoder Proofs.UploadSel.
Import ListNotations.
Local Open Scope N_scope.

(* ---------------------------------------------------------------- dm_get after dm_add *)
Lemma dm_get_add_same : forall k v m, dm_get k (dm_add k v m) = set_add v (dm_get k m).
Proof.
  intros k v m. induction m as [|[q l] r IH]; cbn [dm_add dm_get].
  - rewrite N.eqb_refl. reflexivity.
  - destruct (N.eqb k q) eqn:E; cbn [dm_get]; rewrite E; [reflexivity|exact IH].
Qed.

Lemma dm_get_add_other : forall k k' v m, k' <> k -> dm_get k' (dm_add k v m) = dm_get k' m.
Proof.
  intros k k' v m Hne. induction m as [|[q l] r IH]; cbn [dm_add dm_get].
  - destruct (N.eqb k' k) eqn:E; [apply N.eqb_eq in E; congruence|reflexivity].
  - destruct (N.eqb k q) eqn:E; cbn [dm_get].
    + apply N.eqb_eq in E. subst q. destruct (N.eqb k' k) eqn:E'; [apply N.eqb_eq in E'; congruence|reflexivity].
    + destruct (N.eqb k' q); [reflexivity|exact IH].
Qed.

Lemma In_dm_get_add_all : forall k vs m k' x,
  In x (dm_get k' (dm_add_all k vs m)) <-> In x (dm_get k' m) \/ (k' = k /\ In x vs).
Proof.
  intros k vs. unfold dm_add_all. induction vs as [|v vs IH]; intros m k' x; cbn [fold_left].
  - cbn [In]. tauto.
  - rewrite IH. destruct (N.eq_dec k' k) as [->|Hne].
    + rewrite dm_get_add_same, In_set_add. cbn [In]. split; [intros [[->|H]|[_ H]]; auto|intros [H|[_ [->|H]]]; auto].
    + rewrite (dm_get_add_other _ _ _ _ Hne). cbn [In]. tauto.
Qed.

Lemma NoDup_snoc : forall (x : N) l, NoDup l -> ~ In x l -> NoDup (l ++ [x]).
Proof.
  intros x l. induction l as [|a r IH]; intros H Hn; cbn [app].
  - constructor; [intros []|constructor].
  - inversion H as [|? ? Ha Hr]; subst. constructor.
    + intros Hin. apply in_app_or in Hin. destruct Hin as [Hin|[->|[]]]; [exact (Ha Hin)|apply Hn; left; reflexivity].
    + apply IH; [exact Hr|]. intros Hin. apply Hn. right; exact Hin.
Qed.

Lemma NoDup_set_add : forall x l, NoDup l -> NoDup (set_add x l).
Proof.
  intros x l H. unfold set_add. destruct (memN x l) eqn:E; [exact H|].
  apply NoDup_snoc; [exact H|]. intros Hin. apply memN_In in Hin. congruence.
Qed.

Lemma dm_add_all_nodup : forall p alloc bk, (forall q, NoDup (dm_get q bk)) -> forall q, NoDup (dm_get q (dm_add_all p alloc bk)).
Proof.
  intros p alloc. unfold dm_add_all. induction alloc as [|a r IH]; intros bk Hbk; cbn [fold_left]; [exact Hbk|].
  apply IH. intros q'. destruct (N.eq_dec q' p) as [->|Hne'].
  - rewrite dm_get_add_same. apply NoDup_set_add. apply Hbk.
  - rewrite dm_get_add_other by exact Hne'. apply Hbk.
Qed.

Lemma NoDup_app_intro : forall (a b : list N), NoDup a -> NoDup b -> (forall x, In x a -> ~ In x b) -> NoDup (a ++ b).
Proof.
  induction a as [|x a IH]; intros b Ha Hb Hd; cbn [app]; [exact Hb|].
  inversion Ha as [|? ? Hx Hr]; subst. constructor.
  - intros Hin. apply in_app_or in Hin. destruct Hin as [Hin|Hin]; [exact (Hx Hin)|exact (Hd x (or_introl eq_refl) Hin)].
  - apply IH; [exact Hr|exact Hb|]. intros y Hy. apply Hd. right; exact Hy.
Qed.

Lemma NoDup_flat_map : forall (f : N -> list N) (l : list N),
  NoDup l -> (forall p, NoDup (f p)) ->
  (forall p q s, In p l -> In q l -> In s (f p) -> In s (f q) -> p = q) -> NoDup (flat_map f l).
Proof.
  intros f l. induction l as [|a r IH]; intros Hl Hf Hd; cbn [flat_map]; [constructor|].
  inversion Hl as [|? ? Ha Hr]; subst. apply NoDup_app_intro; [apply Hf| |].
  - apply IH; [exact Hr|exact Hf|]. intros p q s Hp Hq. apply Hd; right; assumption.
  - intros s Hs Hin. apply in_flat_map in Hin. destruct Hin as [q [Hq Hsq]].
    assert (a = q) by (apply (Hd a q s); [left; reflexivity|right; exact Hq|exact Hs|exact Hsq]). subst q. exact (Ha Hq).
Qed.

(* ---------------------------------------------------------------- the bucket invariant *)
Definition holds (st : sel) (p s : N) : Prop := In s (dm_get p (s_buckets st)).

Definition bk_inv (st : sel) : Prop :=
  (forall p q s, holds st p s -> holds st q s -> p = q) /\
  (forall p s, holds st p s -> In p (s_use st)) /\
  NoDup (s_use st) /\
  (forall p, NoDup (dm_get p (s_buckets st))).

Lemma map_snd_sel_buckets : forall st, map snd (sel_buckets st) = flat_map (fun p => dm_get p (s_buckets st)) (s_use st).
Proof.
  intros st. unfold sel_buckets. induction (s_use st) as [|p r IH]; cbn [flat_map map]; [reflexivity|].
  rewrite map_app, IH, map_map. cbn [snd]. rewrite map_id. reflexivity.
Qed.

Lemma bk_inv_no_dup_share : forall st, bk_inv st -> has_dup_share st = false.
Proof.
  intros st (U & M & V & S). unfold has_dup_share. rewrite NoDup_nodupN; [reflexivity|].
  rewrite map_snd_sel_buckets. apply NoDup_flat_map; [exact V|exact S|].
  intros p q s _ _ Hp Hq. exact (U p q s Hp Hq).
Qed.

Lemma bk_inv_ext : forall st st', s_use st' = s_use st -> s_buckets st' = s_buckets st -> bk_inv st -> bk_inv st'.
Proof. intros st st' Eu Eb H. unfold bk_inv, holds in *. rewrite Eu, Eb. exact H. Qed.

Lemma bk_inv_init : forall c, bk_inv (sel_init c).
Proof.
  intros c. unfold bk_inv, holds. cbn. split; [intros p q s []|]. split; [intros p s []|]. split; constructor.
Qed.

(* ---------------------------------------------------------------- _allocation_for *)
Lemma held_elsewhere_ext : forall a b p s, s_use a = s_use b -> s_buckets a = s_buckets b -> held_elsewhere a p s = held_elsewhere b p s.
Proof. intros a b p s Eu Eb. unfold held_elsewhere. rewrite Eu, Eb. reflexivity. Qed.

Lemma allocation_for_ext : forall a b plan p, s_use a = s_use b -> s_buckets a = s_buckets b -> allocation_for a plan p = allocation_for b plan p.
Proof.
  intros a b plan p Eu Eb. unfold allocation_for. generalize (@nil N). induction plan as [|e plan IH]; intros acc; cbn [fold_left]; [reflexivity|].
  rewrite (held_elsewhere_ext a b p (fst e) Eu Eb). apply IH.
Qed.

Lemma allocation_for_spec : forall st plan p s,
  In s (allocation_for st plan p) -> In (s, Some p) plan /\ held_elsewhere st p s = false.
Proof.
  intros st plan p s. unfold allocation_for.
  assert (G : forall acc, In s (fold_left (fun acc e => match snd e with
                          | Some q => if N.eqb p q && negb (held_elsewhere st p (fst e)) then set_add (fst e) acc else acc
                          | None => acc end) plan acc) -> In s acc \/ (In (s, Some p) plan /\ held_elsewhere st p s = false)).
  { induction plan as [|[sh o] plan IH]; intros acc H; cbn [fold_left] in H; [left; exact H|]. cbn [fst snd] in H.
    destruct (IH _ H) as [H'|[H1 H2]]; [|right; split; [right; exact H1|exact H2]].
    destruct o as [q|]; [|left; exact H'].
    destruct (N.eqb p q && negb (held_elsewhere st p sh)) eqn:E; [|left; exact H'].
    apply andb_true_iff in E. destruct E as [E1 E2]. apply N.eqb_eq in E1. subst q.
    apply In_set_add in H'. destruct H' as [->|H']; [|left; exact H'].
    right. split; [left; reflexivity|]. destruct (held_elsewhere st p sh); [discriminate|reflexivity]. }
  intros H. destruct (G [] H) as [[]|H']. exact H'.
Qed.

Lemma held_elsewhere_false : forall st p s q, held_elsewhere st p s = false -> In q (s_use st) -> holds st q s -> q = p.
Proof.
  intros st p s q H Hq Hs. unfold held_elsewhere in H. destruct (N.eq_dec q p) as [E|Hne]; [exact E|]. exfalso.
  assert (T : existsb (fun q0 => negb (N.eqb q0 p) && memN s (dm_get q0 (s_buckets st))) (s_use st) = true).
  { apply existsb_exists. exists q. split; [exact Hq|]. apply andb_true_iff. split.
    - destruct (N.eqb q p) eqn:E; [apply N.eqb_eq in E; congruence|reflexivity].
    - apply memN_In. exact Hs. }
  congruence.
Qed.

(* ---------------------------------------------------------------- the queries of a round *)
Lemma send_queries_sent : forall plan ts st sent st' sent',
  send_queries plan ts st sent = (st', sent') ->
  (forall e, In e sent -> snd e = allocation_for st plan (fst e)) ->
  forall e, In e sent' -> snd e = allocation_for st plan (fst e).
Proof.
  intros plan ts. induction ts as [|p ts IH]; intros st sent st' sent' E Hs; cbn [send_queries] in E.
  - inversion E; subst. exact Hs.
  - set (st1 := with_homeless (set_diff (s_homeless st) (allocation_for st plan p)) st) in *.
    assert (X1 : forall q, allocation_for st1 plan q = allocation_for st plan q) by (intros q; apply allocation_for_ext; reflexivity).
    assert (X2 : forall q, allocation_for (count_query st1) plan q = allocation_for st plan q) by (intros q; apply allocation_for_ext; reflexivity).
    match type of E with context [if ?b then _ else _] => destruct b end.
    + intros e He. rewrite <- X2. eapply IH; [exact E| |exact He].
      intros e' He'. rewrite X2. apply in_app_or in He'. destruct He' as [He'|[<-|[]]]; [apply Hs; exact He'|reflexivity].
    + intros e He. rewrite <- X1. eapply IH; [exact E| |exact He].
      intros e' He'. rewrite X1. apply Hs. exact He'.
Qed.

Lemma lookup_ask_In : forall p sent a, lookup_ask p sent = Some a -> In (p, a) sent.
Proof.
  intros p sent a. induction sent as [|[q b] r IH]; cbn [lookup_ask]; [discriminate|].
  destruct (N.eqb p q) eqn:E; [apply N.eqb_eq in E; subst q; intros H; inversion H; left; reflexivity|intros H; right; apply IH; exact H].
Qed.

Lemma NoDup_keys_unique_opt : forall (plan : list (N * option N)) s a b,
  NoDup (map fst plan) -> In (s, a) plan -> In (s, b) plan -> a = b.
Proof.
  induction plan as [|[s0 o0] r IH]; intros s a b Hnd Ha Hb; [destruct Ha|].
  cbn [map fst] in Hnd. inversion Hnd as [|? ? Hn Hr]; subst.
  destruct Ha as [Ea|Ha]; destruct Hb as [Eb|Hb].
  - congruence.
  - inversion Ea; subst. exfalso. apply Hn. apply in_map_iff. exists (s, b). auto.
  - inversion Eb; subst. exfalso. apply Hn. apply in_map_iff. exists (s, a). auto.
  - eapply IH; eassumption.
Qed.

Section Round.
  Variable st0 : sel.
  Variable plan : list (N * option N).
  Hypothesis plan_functional : NoDup (map fst plan).

  Definition round_inv (st : sel) : Prop :=
    (forall q s, holds st q s -> holds st0 q s \/ In s (allocation_for st0 plan q)) /\
    (forall q s, holds st q s -> In q (s_use st)) /\
    NoDup (s_use st) /\
    (forall p, NoDup (dm_get p (s_buckets st))) /\
    (forall q, In q (s_use st0) -> In q (s_use st)).

  Lemma round_inv_ext : forall st st', s_use st' = s_use st -> s_buckets st' = s_buckets st -> round_inv st -> round_inv st'.
  Proof. intros st st' Eu Eb H. unfold round_inv, holds in *. rewrite Eu, Eb. exact H. Qed.

  Lemma alloc_ok_round_inv : forall p ask got alloc st,
    (forall s, In s alloc -> In s (allocation_for st0 plan p)) -> round_inv st -> round_inv (alloc_ok p ask got alloc st).
  Proof.
    intros p ask got alloc st Ha (J1 & J2 & J3 & J4 & J5).
    destruct (alloc_ok_fields p ask got alloc st) as [_ [Eb Eu]]. unfold round_inv, holds. rewrite Eb, Eu.
    split; [|split; [|split; [|split]]].
    - intros q s H. apply In_dm_get_add_all in H. destruct H as [H|[-> H]]; [apply J1; exact H|right; apply Ha; exact H].
    - intros q s H. apply In_dm_get_add_all in H. destruct H as [H|[-> H]].
      + pose proof (J2 _ _ H) as Hq. destruct (is_nil alloc); [exact Hq|apply In_set_add; right; exact Hq].
      + destruct alloc as [|a r]; [destruct H|]. cbn [is_nil]. apply In_set_add. left; reflexivity.
    - destruct (is_nil alloc); [exact J3|apply NoDup_set_add; exact J3].
    - apply dm_add_all_nodup. exact J4.
    - intros q Hq. pose proof (J5 _ Hq) as H. destruct (is_nil alloc); [exact H|apply In_set_add; right; exact H].
  Qed.

  Lemma handle_allocs_round_inv : forall resps pending st st' pending',
    (forall e, In e pending -> snd e = allocation_for st0 plan (fst e)) ->
    allocs_honest resps pending = true ->
    round_inv st -> handle_allocs resps pending st = (st', pending') -> round_inv st'.
  Proof.
    induction resps as [|[p r] rest IH]; intros pending st st' pending' Hp Hh Hi E; cbn [handle_allocs] in E; cbn [allocs_honest] in Hh.
    - inversion E; subst. exact Hi.
    - destruct (lookup_ask p pending) as [ask|] eqn:L; [|eapply IH; eassumption].
      apply andb_true_iff in Hh. destruct Hh as [Hr Hh].
      assert (Hask : ask = allocation_for st0 plan p) by (apply lookup_ask_In in L; apply (Hp _ L)).
      eapply IH; [| exact Hh | | exact E].
      + intros e He. apply Hp. unfold drop_ask in He. apply filter_In in He. tauto.
      + destruct r as [got alloc|].
        * apply alloc_ok_round_inv; [|exact Hi]. intros s Hs. rewrite <- Hask.
          unfold subsetb in Hr. rewrite forallb_forall in Hr. apply memN_In. apply Hr. exact Hs.
        * destruct (alloc_error_keeps p ask st) as [_ [Eb Eu]]. eapply round_inv_ext; eauto.
  Qed.

  (* at the end of the round the buckets are still one per share *)
  Lemma round_inv_bk_inv : forall st, bk_inv st0 -> round_inv st -> bk_inv st.
  Proof.
    intros st (U & M & V & S) (J1 & J2 & J3 & J4 & J5). split; [|split; [exact J2|split; [exact J3|exact J4]]].
    intros p q s Hp Hq. destruct (J1 _ _ Hp) as [Op|Np]; destruct (J1 _ _ Hq) as [Oq|Nq].
    - exact (U p q s Op Oq).
    - apply allocation_for_spec in Nq. destruct Nq as [_ Hh]. apply (held_elsewhere_false st0 q s p Hh); [apply (M p s Op)|exact Op].
    - apply allocation_for_spec in Np. destruct Np as [_ Hh]. symmetry. apply (held_elsewhere_false st0 p s q Hh); [apply (M q s Oq)|exact Oq].
    - apply allocation_for_spec in Np. apply allocation_for_spec in Nq. destruct Np as [Pp _]. destruct Nq as [Pq _].
      assert (Some p = Some q) by (eapply (NoDup_keys_unique_opt plan s); [exact plan_functional|exact Pp|exact Pq]). congruence.
  Qed.
End Round.

(* ---------------------------------------------------------------- the loop *)
Lemma do_round_bk_inv : forall c r st st' sent,
  NoDup (map fst (r_plan r)) -> round_honest c r st = true -> bk_inv st -> do_round c r st = Some (st', sent) -> bk_inv st'.
Proof.
  intros c r st st' sent Hp Hh Hi E. unfold do_round in E. unfold round_honest in Hh.
  destruct (send_queries (r_plan r) (trackers c) st []) as [st1 sent1] eqn:E1.
  destruct (handle_allocs (r_resps r) sent1 st1) as [st2 pending] eqn:E2.
  destruct (is_nil pending); [|discriminate]. inversion E; subst st' sent; clear E.
  destruct (send_queries_keeps _ _ _ _ _ _ E1) as [_ [Eb Eu]].
  apply (round_inv_bk_inv st (r_plan r) Hp st2 Hi).
  eapply (handle_allocs_round_inv st (r_plan r)); [| exact Hh | | exact E2].
  - eapply send_queries_sent; [exact E1|]. intros e [].
  - destruct Hi as (U & M & V & S). unfold round_inv, holds. rewrite Eb, Eu.
    split; [intros q s H; left; exact H|]. split; [exact M|]. split; [exact V|]. split; [exact S|auto].
Qed.

Lemma sel_loop_bk_inv : forall c rounds last st qs st' qs',
  (forall r, In r rounds -> NoDup (map fst (r_plan r))) -> loop_honest c rounds last st = true ->
  bk_inv st -> sel_loop c rounds last st qs = Some (st', qs') -> bk_inv st'.
Proof.
  intros c rounds. induction rounds as [|r rest IH]; intros last st qs st' qs' Hp Hh Hi E; cbn [sel_loop] in E; [discriminate|].
  cbn [loop_honest] in Hh. apply andb_true_iff in Hh. destruct Hh as [Hr Hh].
  destruct (do_round c r st) as [[st1 sent]|] eqn:E1; [|discriminate].
  assert (H1 : bk_inv st1) by (eapply do_round_bk_inv; [apply Hp; left; reflexivity|exact Hr|exact Hi|exact E1]).
  destruct (happiness st1) as [eff|]; [|discriminate].
  destruct (match last with Some l => Z.eqb eff l | None => false end); [inversion E; subst; exact H1|].
  destruct (N.eqb (s_bad st) (s_bad st1)); [inversion E; subst; exact H1|].
  destruct (Z.ltb eff (c_happy c) && negb (is_nil (s_wtrackers st1))); [|inversion E; subst; exact H1].
  eapply IH; [|exact Hh|exact H1|exact E]. intros r' Hin. apply Hp. right; exact Hin.
Qed.

Lemma existing_ro_keeps : forall p r st, s_use (existing_ro p r st) = s_use st /\ s_buckets (existing_ro p r st) = s_buckets st.
Proof. intros p r st. destruct r; cbn [existing_ro]; [cbn; auto|]. destruct (mark_bad_peer_keeps p st) as [_ [B U]]. auto. Qed.

Lemma existing_rw_keeps : forall p r st, s_use (existing_rw p r st) = s_use st /\ s_buckets (existing_rw p r st) = s_buckets st.
Proof.
  intros p r st. destruct r; cbn [existing_rw]; [cbn; auto|].
  destruct (mark_bad_peer_keeps p (make_readonly p st)) as [_ [B U]]. rewrite B, U. cbn. auto.
Qed.

Lemma phase1_keeps : forall c resps pending st st' pending',
  phase1 c resps pending st = (st', pending') -> s_use st' = s_use st /\ s_buckets st' = s_buckets st.
Proof.
  intros c resps. induction resps as [|[p r] rest IH]; intros pending st st' pending' E; cbn [phase1] in E.
  - inversion E; subst. auto.
  - destruct (memN p pending); [|eapply IH; exact E]. apply IH in E. destruct E as [Eu Eb].
    destruct (memN p (c_ro c)).
    + destruct (existing_ro_keeps p r st) as [U B]. rewrite Eu, Eb. auto.
    + destruct (existing_rw_keeps p r st) as [U B]. rewrite Eu, Eb. auto.
Qed.

Theorem honest_upload_never_asserts_full : forall c x,
  plans_functional x -> honest_run c x -> r_verdict (upload_run c x) <> VAssert.
Proof.
  intros c x Hp Hh. unfold honest_run in Hh.
  destruct (Proofs.UploadSel.upload_run_shape c x) as [|st1 st qs eff P1 SL|st1 st qs eff P1 SL HP L D|st1 st qs eff e P1 SL|st1 st qs eff e1 e P1 SL|st1 st qs eff e1 e P1 SL];
    cbn [mk_result r_verdict]; try discriminate.
  exfalso. rewrite P1 in Hh. cbn [fst] in Hh.
  assert (B1 : bk_inv st1).
  { destruct (phase1_keeps _ _ _ _ _ _ P1) as [Eu Eb]. eapply bk_inv_ext; [exact Eu|exact Eb|apply bk_inv_init]. }
  pose proof (sel_loop_bk_inv c (x_rounds x) None st1 [] st qs Hp Hh B1 SL) as B.
  rewrite (bk_inv_no_dup_share st B) in D. discriminate.
Qed.

(* the boolean the driver evaluates on recorded traces implies the two hypotheses *)
Lemma honest_runb_sound : forall c x, honest_runb c x = true -> plans_functional x /\ honest_run c x.
Proof.
  intros c x H. unfold honest_runb in H. apply andb_true_iff in H. destruct H as [H1 H2]. split; [|exact H2].
  intros r Hr. rewrite forallb_forall in H1. apply nodupN_NoDup. apply H1. exact Hr.
Qed.
