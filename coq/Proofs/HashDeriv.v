(* The regenerated derivations (Gen/Hashutil.v, from hashutil.py) equal the
   hand-written specification (Model/HashSpec.v), for all inputs. *)
From Coq Require Import List NArith Bool String.
From Verif Require Import Lib.Hex Lib.Decimal Lib.Netstring Lib.SHA256 Lib.HashPrim Gen.Hashutil Model.HashSpec.
Import ListNotations.
Local Open Scope N_scope.

Local Opaque sha256 sha1 netstring dec.

Ltac crush :=
  intros;
  cbv [storage_index_hash block_hash uri_extension_hash plaintext_hash crypttext_hash
       crypttext_segment_hash plaintext_segment_hash convergence_hash convergence_hasher
       _convergence_hasher_tag my_renewal_secret_hash my_cancel_secret_hash
       file_renewal_secret_hash file_cancel_secret_hash bucket_renewal_secret_hash
       bucket_cancel_secret_hash mutable_rwcap_key_hash mutable_rwcap_salt_hash
       ssk_writekey_hash ssk_write_enabler_master_hash ssk_write_enabler_hash
       ssk_pubkey_fingerprint_hash ssk_readkey_hash ssk_readkey_data_hash ssk_storage_index_hash
       backupdb_dirhash permute_server_hash
       tagged_hash tagged_hasher tagged_pair_hash hasher_digest hasher_update mk_hasher
       h_trunc h_acc truncate sha256d KEYLEN IVLEN
       spec_storage_index spec_block_hash spec_uri_extension_hash spec_plaintext_hash
       spec_crypttext_hash spec_crypttext_segment_hash spec_plaintext_segment_hash
       spec_convergence_key spec_convergence_tag spec_client_renewal_secret
       spec_client_cancel_secret spec_file_renewal_secret spec_file_cancel_secret
       spec_bucket_renewal_secret spec_bucket_cancel_secret spec_writekey spec_readkey
       spec_mutable_storage_index spec_datakey spec_fingerprint spec_write_enabler_master
       spec_write_enabler spec_dirnode_child_key spec_dirnode_child_salt spec_backupdb_dirhash
       spec_permuted_position tagged tagged_pair SHA256d first B
       STORAGE_INDEX_TAG BLOCK_TAG UEB_TAG PLAINTEXT_TAG CIPHERTEXT_TAG CIPHERTEXT_SEGMENT_TAG
       PLAINTEXT_SEGMENT_TAG CONVERGENT_ENCRYPTION_TAG CLIENT_RENEWAL_TAG CLIENT_CANCEL_TAG
       FILE_RENEWAL_TAG FILE_CANCEL_TAG BUCKET_RENEWAL_TAG BUCKET_CANCEL_TAG MUTABLE_WRITEKEY_TAG
       MUTABLE_WRITE_ENABLER_MASTER_TAG MUTABLE_WRITE_ENABLER_TAG MUTABLE_PUBKEY_TAG
       MUTABLE_READKEY_TAG MUTABLE_DATAKEY_TAG MUTABLE_STORAGEINDEX_TAG
       DIRNODE_CHILD_WRITECAP_TAG DIRNODE_CHILD_SALT_TAG BACKUPDB_DIRHASH_TAG];
  change (16 =? 0) with false; cbv iota;
  change (N.to_nat 16) with 16%nat;
  repeat rewrite app_nil_l; repeat rewrite <- app_assoc; reflexivity.

Lemma storage_index_ok key : storage_index_hash key = spec_storage_index key. Proof. crush. Qed.
Lemma block_hash_ok d : block_hash d = spec_block_hash d. Proof. crush. Qed.
Lemma uri_extension_hash_ok d : uri_extension_hash d = spec_uri_extension_hash d. Proof. crush. Qed.
Lemma plaintext_hash_ok d : plaintext_hash d = spec_plaintext_hash d. Proof. crush. Qed.
Lemma crypttext_hash_ok d : crypttext_hash d = spec_crypttext_hash d. Proof. crush. Qed.
Lemma crypttext_segment_hash_ok d : crypttext_segment_hash d = spec_crypttext_segment_hash d. Proof. crush. Qed.
Lemma plaintext_segment_hash_ok d : plaintext_segment_hash d = spec_plaintext_segment_hash d. Proof. crush. Qed.
Lemma convergence_hash_ok k n segsize data secret :
  convergence_hash k n segsize data secret = spec_convergence_key k n segsize data secret.
Proof. crush. Qed.
Lemma convergence_tag_ok k n segsize secret :
  _convergence_hasher_tag k n segsize secret = spec_convergence_tag k n segsize secret.
Proof. crush. Qed.
Lemma my_renewal_ok s : my_renewal_secret_hash s = spec_client_renewal_secret s. Proof. crush. Qed.
Lemma my_cancel_ok s : my_cancel_secret_hash s = spec_client_cancel_secret s. Proof. crush. Qed.
Lemma file_renewal_ok a b : file_renewal_secret_hash a b = spec_file_renewal_secret a b. Proof. crush. Qed.
Lemma file_cancel_ok a b : file_cancel_secret_hash a b = spec_file_cancel_secret a b. Proof. crush. Qed.
Lemma bucket_renewal_ok a b : bucket_renewal_secret_hash a b = spec_bucket_renewal_secret a b. Proof. crush. Qed.
Lemma bucket_cancel_ok a b : bucket_cancel_secret_hash a b = spec_bucket_cancel_secret a b. Proof. crush. Qed.
Lemma rwcap_key_ok iv wk : mutable_rwcap_key_hash iv wk = spec_dirnode_child_key iv wk. Proof. crush. Qed.
Lemma rwcap_salt_ok wk : mutable_rwcap_salt_hash wk = spec_dirnode_child_salt wk. Proof. crush. Qed.
Lemma writekey_ok pk : ssk_writekey_hash pk = spec_writekey pk. Proof. crush. Qed.
Lemma wem_ok wk : ssk_write_enabler_master_hash wk = spec_write_enabler_master wk. Proof. crush. Qed.
Lemma write_enabler_ok wk p : ssk_write_enabler_hash wk p = spec_write_enabler wk p. Proof. crush. Qed.
Lemma fingerprint_ok pk : ssk_pubkey_fingerprint_hash pk = spec_fingerprint pk. Proof. crush. Qed.
Lemma readkey_ok wk : ssk_readkey_hash wk = spec_readkey wk. Proof. crush. Qed.
Lemma datakey_ok iv rk : ssk_readkey_data_hash iv rk = spec_datakey iv rk. Proof. crush. Qed.
Lemma ssk_si_ok rk : ssk_storage_index_hash rk = spec_mutable_storage_index rk. Proof. crush. Qed.
Lemma dirhash_ok c : backupdb_dirhash c = spec_backupdb_dirhash c. Proof. crush. Qed.
Lemma permute_ok a b : permute_server_hash a b = spec_permuted_position a b. Proof. crush. Qed.

Lemma convergence_pre_ok k n :
  _convergence_hasher_tag_pre k n = spec_convergence_params_ok k n.
Proof.
  unfold _convergence_hasher_tag_pre, spec_convergence_params_ok.
  destruct (n <? k) eqn:E1, (k <? 1) eqn:E2, (n <? 1) eqn:E3, (256 <? k) eqn:E4, (256 <? n) eqn:E5,
           (1 <=? k) eqn:E6, (k <=? n) eqn:E7, (n <=? 256) eqn:E8; simpl; try reflexivity;
  repeat match goal with
  | H : (_ <? _) = true |- _ => apply N.ltb_lt in H
  | H : (_ <? _) = false |- _ => apply N.ltb_ge in H
  | H : (_ <=? _) = true |- _ => apply N.leb_le in H
  | H : (_ <=? _) = false |- _ => apply N.leb_gt in H
  end; exfalso; Lia.lia.
Qed.

(* Composed chains as the call sites build them *)
Lemma lease_renewal_chain_ok ls si peer :
  bucket_renewal_secret_hash (file_renewal_secret_hash (my_renewal_secret_hash ls) si) peer
  = spec_renewal_secret_chain ls si peer.
Proof. unfold spec_renewal_secret_chain. crush. Qed.
Lemma lease_cancel_chain_ok ls si peer :
  bucket_cancel_secret_hash (file_cancel_secret_hash (my_cancel_secret_hash ls) si) peer
  = spec_cancel_secret_chain ls si peer.
Proof. unfold spec_cancel_secret_chain. crush. Qed.
Lemma mutable_key_chain_ok pk :
  (ssk_writekey_hash pk, ssk_readkey_hash (ssk_writekey_hash pk),
   ssk_storage_index_hash (ssk_readkey_hash (ssk_writekey_hash pk))) = spec_mutable_key_chain pk.
Proof. unfold spec_mutable_key_chain. crush. Qed.

Definition all_tags : list (list N) :=
  [STORAGE_INDEX_TAG; BLOCK_TAG; UEB_TAG; PLAINTEXT_TAG; CIPHERTEXT_TAG; CIPHERTEXT_SEGMENT_TAG;
   PLAINTEXT_SEGMENT_TAG; CONVERGENT_ENCRYPTION_TAG; CLIENT_RENEWAL_TAG; CLIENT_CANCEL_TAG;
   FILE_RENEWAL_TAG; FILE_CANCEL_TAG; BUCKET_RENEWAL_TAG; BUCKET_CANCEL_TAG; MUTABLE_WRITEKEY_TAG;
   MUTABLE_WRITE_ENABLER_MASTER_TAG; MUTABLE_WRITE_ENABLER_TAG; MUTABLE_PUBKEY_TAG;
   MUTABLE_READKEY_TAG; MUTABLE_DATAKEY_TAG; MUTABLE_STORAGEINDEX_TAG; DIRNODE_CHILD_WRITECAP_TAG;
   DIRNODE_CHILD_SALT_TAG; BACKUPDB_DIRHASH_TAG].

Fixpoint distinctb (l : list (list N)) : bool :=
  match l with
  | [] => true
  | x :: r => negb (existsb (list_N_eqb x) r) && distinctb r
  end.

Lemma tags_distinct_ok : distinctb all_tags = true.
Proof. vm_compute. reflexivity. Qed.

Lemma pins_ok :
  (pin_SHA256d_Hasher, pin_xor, pin_hmac, pin_byteschr, pin_random_key, pin_timing_safe_compare)
  = ("ae444d4361db491e", "a141caf1ee705d02", "d13bb564934984ae", "4c594682cc2e1993",
     "0d5317a3265e56a2", "f0e6cd0f78646430")%string.
Proof. reflexivity. Qed.
