(* C25: the statements about container files (mutable part), from the structured lemmas of
   Proofs/LeaseMutable.v; also the facts about the lease step that C24 needs. *)
From Coq Require Import List NArith Arith Bool Lia.
From Verif Require Import Lib.Hex Gen.MutConsts Model.MutContainer Model.Lease
  Proofs.MutContainerBytes Proofs.MutContainer Proofs.MutContainerRefine Proofs.LeaseMutable Proofs.LeaseImmutable.
Import ListNotations.
Local Open Scope N_scope.

Lemma same_lease_refl l : same_lease l l.
Proof. unfold same_lease. destruct l; reflexivity. Qed.

Lemma same_lease_set_expire l t : same_lease l (set_expire l t).
Proof. unfold same_lease. destruct l; reflexivity. Qed.

Lemma parse_mut_lengths r : length r = 92%nat ->
  length (l_renew (parse_mut r)) = 32%nat /\ length (l_cancel (parse_mut r)) = 32%nat /\ length (l_nodeid (parse_mut r)) = 20%nat.
Proof.
  intro Hl. unfold parse_mut. cbn [l_renew l_cancel l_nodeid]. rewrite !pread_prn.
  change (N.to_nat 8) with 8%nat. change (N.to_nat 32) with 32%nat. change (N.to_nat 40) with 40%nat.
  change (N.to_nat 72) with 72%nat. change (N.to_nat 20) with 20%nat.
  repeat split; apply prn_length_inside; lia.
Qed.

Lemma pack_be_inv n v b : pack_be n v = Ok b -> v < 256 ^ N.of_nat n.
Proof. unfold pack_be. destruct (N.ltb_spec v (256 ^ N.of_nat n)); [auto|discriminate]. Qed.

Lemma ser_mutable_cases l : (exists e, ser_mutable l = Err e) \/ (l_owner l < 2 ^ 32 /\ l_expire l < 2 ^ 32).
Proof.
  unfold ser_mutable. destruct (pack_be 4 (l_owner l)) eqn:Eo; [|left; eexists; reflexivity].
  destruct (pack_be 4 (l_expire l)) eqn:Ee; [|left; eexists; reflexivity].
  right. change (2 ^ 32) with (256 ^ N.of_nat 4). split; eapply pack_be_inv; eassumption.
Qed.

Lemma write_record_err maxsz c i e : wf maxsz c -> i < 4 + c_nx c ->
  write_lease_record (flat c) i (Err e) = Raised (flat c) e.
Proof.
  intros Hw Hi. unfold write_lease_record. rewrite (read_elo_flat _ _ Hw), (read_nx_flat _ _ Hw). consts.
  destruct (N.ltb_spec i 4); [reflexivity|]. destruct (N.ltb_spec (i - 4) (c_nx c)); [reflexivity|lia].
Qed.

Lemma slot_lengths maxsz c i l : wf maxsz c -> i < 4 + c_nx c -> slot c i = Some l ->
  length (l_renew l) = 32%nat /\ length (l_cancel l) = 32%nat /\ length (l_nodeid l) = 20%nat.
Proof.
  intros Hw Hi Hs. unfold slot, slot_of_rec in Hs. destruct (l_owner (parse_mut (rec_of c i)) =? 0); [discriminate|].
  inversion Hs; subst. apply parse_mut_lengths. apply (rec_of_length maxsz); assumption.
Qed.

Section WithHash.
Variable H : list N -> list N.

(* renewing the lease in slot i: either the record cannot be packed (nothing written) or it is written *)
Lemma renew_write_cases maxsz c i l t : wf maxsz c -> i < 4 + c_nx c -> slot c i = Some l ->
  (exists e, write_lease_record (flat c) i (ser_mutable (set_expire l t)) = Raised (flat c) e) \/
  written maxsz c i (set_expire l t) (write_lease_record (flat c) i (ser_mutable (set_expire l t))).
Proof.
  intros Hw Hi Hs. destruct (ser_mutable_cases (set_expire l t)) as [[e Ee]|[Ho Ht]].
  - left. exists e. rewrite Ee. apply (write_record_err maxsz); assumption.
  - right. destruct (slot_lengths maxsz c i l Hw Hi Hs) as (Lr & Lc & Ln).
    apply write_slot_written; auto; try lia.
    + constructor; cbn; auto.
    + cbn. apply (slot_owner c i). exact Hs.
Qed.

Lemma mut_renew_cases maxsz v c s t : wf maxsz c ->
  match first_match H v (enumL (slot c) (nseq (4 + c_nx c))) s with
  | None => mut_renew_lease H v (flat c) s t = Raised (flat c) EIndex
  | Some (i, l) =>
      i < 4 + c_nx c /\ slot c i = Some l /\
      if l_expire l <? t
      then (exists e, mut_renew_lease H v (flat c) s t = Raised (flat c) e /\ e <> EIndex) \/
           written maxsz c i (set_expire l t) (mut_renew_lease H v (flat c) s t)
      else mut_renew_lease H v (flat c) s t = Done (flat c)
  end.
Proof.
  intros Hw. unfold mut_renew_lease. rewrite (mut_enumerate_flat maxsz c Hw).
  rewrite renew_scan_find. destruct (first_match H v _ s) as [[i l]|] eqn:Ef; [|reflexivity].
  apply first_match_in in Ef. destruct Ef as [Hin _]. apply in_enumL in Hin. destruct Hin as [Hi Hs].
  apply in_nseq in Hi. split; [exact Hi|]. split; [exact Hs|].
  destruct (N.ltb_spec (l_expire l) t); [|reflexivity].
  destruct (ser_mutable_cases (set_expire l t)) as [[e Ee]|[Ho Ht]].
  - left. exists EStruct. rewrite Ee.
    assert (e = EStruct).
    { unfold ser_mutable in Ee. destruct (pack_be 4 (l_owner (set_expire l t))); [destruct (pack_be 4 (l_expire (set_expire l t)))|]; congruence. }
    subst. split; [apply (write_record_err maxsz); assumption|discriminate].
  - right. destruct (slot_lengths maxsz c i l Hw Hi Hs) as (Lr & Lc & Ln).
    apply write_slot_written; auto; try lia.
    + constructor; cbn; auto.
    + cbn. apply (slot_owner c i). exact Hs.
Qed.

(* every way add_or_renew_lease can go on a well-formed container *)
Lemma mut_add_or_renew_cases maxsz v c avail li : wf maxsz c ->
  lease_wf (stored_form H v li) -> l_owner li <> 0 ->
  let o := mut_add_or_renew H v (flat c) avail li in
  o = Done (flat c) \/ (exists e, o = Raised (flat c) e) \/
  (exists i l, i < 4 + c_nx c /\ slot c i = Some l /\ l_expire l < l_expire li /\
               first_match H v (enumL (slot c) (nseq (4 + c_nx c))) (l_renew li) = Some (i, l) /\
               written maxsz c i (set_expire l (l_expire li)) o) \/
  (exists i, i <= 4 + c_nx c /\ (i < 4 + c_nx c -> slot c i = None) /\
             first_match H v (enumL (slot c) (nseq (4 + c_nx c))) (l_renew li) = None /\
             written maxsz c i (stored_form H v li) o).
Proof.
  intros Hw Hl Ho o. subst o. unfold mut_add_or_renew. destruct (N.eqb_spec (l_owner li) 0); [congruence|].
  pose proof (mut_renew_cases maxsz v c (l_renew li) (l_expire li) Hw) as Hr.
  destruct (first_match H v _ (l_renew li)) as [[i l]|] eqn:Ef.
  - destruct Hr as (Hi & Hs & Hr). destruct (N.ltb_spec (l_expire l) (l_expire li)).
    + destruct Hr as [(e & Ee & Hne)|Hwr].
      * right. left. exists e. rewrite Ee. destruct e; congruence.
      * right. right. left. exists i, l. destruct Hwr as (c' & E & Hrest). rewrite E.
        split; [exact Hi|]. split; [exact Hs|]. split; [assumption|]. split; [reflexivity|].
        exists c'. split; [reflexivity|exact Hrest].
    + left. rewrite Hr. reflexivity.
  - rewrite Hr. destruct (mut_add_flat H maxsz v c avail li Hw Hl Ho) as (i & Hi & Hnone & [Hwr|Hns]).
    + right. right. right. exists i. auto.
    + right. left. exact Hns.
Qed.

(* consequences, on structured containers *)
Lemma cases_preserve maxsz v c avail li : wf maxsz c ->
  lease_wf (stored_form H v li) -> l_owner li <> 0 ->
  exists c', out_file (mut_add_or_renew H v (flat c) avail li) = flat c' /\ wf maxsz c' /\ same_data c c'.
Proof.
  intros Hw Hl Ho. destruct (mut_add_or_renew_cases maxsz v c avail li Hw Hl Ho) as [E|[(e & E)|[(i & l & _ & _ & _ & _ & Hwr)|(i & _ & _ & _ & Hwr)]]].
  - rewrite E. exists c. split; [reflexivity|]. split; [exact Hw|apply same_data_refl].
  - rewrite E. exists c. split; [reflexivity|]. split; [exact Hw|apply same_data_refl].
  - destruct Hwr as (c' & E & Hw' & Hsd & _). rewrite E. exists c'. auto.
  - destruct Hwr as (c' & E & Hw' & Hsd & _). rewrite E. exists c'. auto.
Qed.


Lemma never_shorter_refl {A} (E : list (A * lease)) : never_shorter E E.
Proof. intros i l Hin. exists l. split; [exact Hin|]. split; [apply same_lease_refl|lia]. Qed.

Lemma never_shorter_update h L i l t : h i = Some l -> l_expire l <= t ->
  never_shorter (enumL h L) (map (fun il => if fst il =? i then (i, set_expire l t) else il) (enumL h L)).
Proof.
  intros Hi Ht j x Hin. destruct (N.eqb_spec j i) as [->|Hne].
  - assert (x = l) by (apply in_enumL in Hin; destruct Hin; congruence). subst x.
    exists (set_expire l t). split.
    + apply in_map_iff. exists (i, l). cbn [fst]. rewrite N.eqb_refl. auto.
    + split; [apply same_lease_set_expire|cbn; exact Ht].
  - exists x. split.
    + apply in_map_iff. exists (j, x). cbn [fst]. destruct (N.eqb_spec j i); [congruence|]. auto.
    + split; [apply same_lease_refl|lia].
Qed.

Lemma cases_never_shorten maxsz v c avail li : wf maxsz c ->
  lease_wf (stored_form H v li) -> l_owner li <> 0 ->
  exists E', mut_enumerate (out_file (mut_add_or_renew H v (flat c) avail li)) = Ok E' /\
             never_shorter (enumL (slot c) (nseq (4 + c_nx c))) E'.
Proof.
  intros Hw Hl Ho. destruct (mut_add_or_renew_cases maxsz v c avail li Hw Hl Ho) as [E|[(e & E)|[(i & l & Hi & Hs & Hlt & _ & Hwr)|(i & Hi & Hnone & _ & Hwr)]]].
  - rewrite E. cbn [out_file]. eexists. split; [apply (mut_enumerate_flat maxsz); exact Hw|apply never_shorter_refl].
  - rewrite E. cbn [out_file]. eexists. split; [apply (mut_enumerate_flat maxsz); exact Hw|apply never_shorter_refl].
  - destruct (written_enum_update maxsz c i l _ _ Hw Hi Hs Hwr) as (c' & E & Hw' & Hsd & Een).
    rewrite E. cbn [out_file]. eexists. split; [exact Een|]. apply never_shorter_update; [exact Hs|lia].
  - destruct (written_enum_incl maxsz c i _ _ Hw Hi Hnone Hwr) as (c' & E & Hw' & Hsd & Hincl).
    rewrite E. cbn [out_file]. eexists. split; [apply (mut_enumerate_flat maxsz); exact Hw'|].
    intros j x Hin. exists x. split; [apply Hincl; exact Hin|]. split; [apply same_lease_refl|lia].
Qed.

Lemma renew_never_shorten maxsz v c s t : wf maxsz c ->
  exists c' E', out_file (mut_renew_lease H v (flat c) s t) = flat c' /\ wf maxsz c' /\ same_data c c' /\
                mut_enumerate (flat c') = Ok E' /\ never_shorter (enumL (slot c) (nseq (4 + c_nx c))) E'.
Proof.
  intros Hw. pose proof (mut_renew_cases maxsz v c s t Hw) as Hr.
  assert (Hsame : forall o, out_file o = flat c ->
            exists c' E', out_file o = flat c' /\ wf maxsz c' /\ same_data c c' /\
                          mut_enumerate (flat c') = Ok E' /\ never_shorter (enumL (slot c) (nseq (4 + c_nx c))) E').
  { intros o Eo. exists c. eexists. split; [exact Eo|]. split; [exact Hw|]. split; [apply same_data_refl|].
    split; [apply (mut_enumerate_flat maxsz); exact Hw|apply never_shorter_refl]. }
  destruct (first_match H v _ s) as [[i l]|].
  - destruct Hr as (Hi & Hs & Hr). destruct (N.ltb_spec (l_expire l) t).
    + destruct Hr as [(e & Ee & _)|Hwr].
      * apply Hsame. rewrite Ee. reflexivity.
      * destruct (written_enum_update maxsz c i l _ _ Hw Hi Hs Hwr) as (c' & E & Hw' & Hsd & Een).
        exists c'. eexists. rewrite E. cbn [out_file]. split; [reflexivity|]. split; [exact Hw'|]. split; [exact Hsd|].
        split; [exact Een|]. apply never_shorter_update; [exact Hs|lia].
    + apply Hsame. rewrite Hr. reflexivity.
  - apply Hsame. rewrite Hr. reflexivity.
Qed.

(* ---- renew_first on the lease list vs first_match on the enumeration ------------------------------- *)
Lemma NoDup_nseq n : NoDup (nseq n).
Proof.
  unfold nseq. generalize (seq_NoDup (N.to_nat n) 0). generalize (seq 0 (N.to_nat n)). intros L Hnd.
  induction Hnd as [|a L Hnin Hnd IH]; [constructor|]. cbn [map]. constructor; [|exact IH].
  intro Hin. apply in_map_iff in Hin. destruct Hin as (b & Eb & Hb). assert (b = a) by lia. subst. contradiction.
Qed.

Lemma enumL_fst_in h L i l : In (i, l) (enumL h L) -> In i L.
Proof. intro Hin. apply in_enumL in Hin. tauto. Qed.

Lemma NoDup_enumL_fst h L : NoDup L -> NoDup (map fst (enumL h L)).
Proof.
  induction L as [|j r IH]; intro Hnd; [constructor|]. inversion Hnd as [|? ? Hnin Hnd']; subst.
  cbn [enumL flat_map]. fold (enumL h r). destruct (h j) as [x|]; [|apply IH; exact Hnd'].
  cbn [app map fst]. constructor; [|apply IH; exact Hnd'].
  intro Hin. apply in_map_iff in Hin. destruct Hin as ([j' x'] & Ej & Hin). cbn in Ej. subst j'.
  apply enumL_fst_in in Hin. contradiction.
Qed.

Lemma renew_first_map v (E : list (N * lease)) s t i l : NoDup (map fst E) ->
  first_match H v E s = Some (i, l) ->
  renew_first H v (map snd E) s t = Some (map snd (map (fun il => if fst il =? i then (i, renewed l t) else il) E)).
Proof.
  unfold first_match. induction E as [|[j x] r IH]; intros Hnd Hf; [discriminate|].
  cbn [map fst] in Hnd. inversion Hnd as [|? ? Hnin Hnd']; subst.
  cbn [find snd] in Hf. cbn [map snd renew_first fst].
  destruct (is_renew_secret H v x s) eqn:Em.
  - inversion Hf; subst. rewrite N.eqb_refl. cbn [snd]. f_equal. f_equal.
    rewrite map_map. apply map_ext_in. intros [j' x'] Hin. cbn [fst snd].
    destruct (N.eqb_spec j' i); [|reflexivity]. subst. exfalso. apply Hnin. apply in_map_iff. exists (i, x'). auto.
  - rewrite (IH Hnd' Hf). cbn [option_map].
    destruct (N.eqb_spec j i) as [->|]; [|reflexivity].
    exfalso. apply find_some in Hf. destruct Hf as [Hin _]. apply Hnin. apply in_map_iff. exists (i, l). auto.
Qed.

Lemma renew_first_some_match v (E : list (N * lease)) s t ls' :
  renew_first H v (map snd E) s t = Some ls' -> exists i l, first_match H v E s = Some (i, l).
Proof.
  intro Hr. destruct (first_match H v E s) as [[i l]|] eqn:Ef; [eauto|].
  apply first_match_none in Ef. apply (renew_first_none H v (map snd E) s t) in Ef. congruence.
Qed.

End WithHash.
