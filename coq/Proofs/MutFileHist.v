(* C09: every operation keeps the version a representation of the reference byte string;
   histories by induction. *)
From Coq Require Import List Arith NArith Bool Lia.
From Verif Require Import Lib.Hex Model.MutFile Proofs.MutFileLists Proofs.MutFileRead Proofs.MutFileTU Proofs.MutFileUpdate.
Import ListNotations.

  Lemma do_overwrite_represents sdmf maxseg k (Hk : 0 < k) (Hm : sdmf = false -> 0 < maxseg) f old new :
    represents sdmf maxseg k f old ->
    exists f', do_overwrite maxseg f new = Some f' /\ represents sdmf maxseg k f' new.
  Proof.
    intros (Hs & Hk' & _). unfold do_overwrite. rewrite Hs, Hk'. apply publish_represents; assumption.
  Qed.

  Lemma do_modify_represents sdmf maxseg k (Hk : 0 < k) (Hm : sdmf = false -> 0 < maxseg) f old m :
    represents sdmf maxseg k f old ->
    exists f', do_modify maxseg f m = Some f' /\
               represents sdmf maxseg k f' (match m old with Some new => new | None => old end).
  Proof.
    intros R. unfold do_modify. rewrite (read_all_represents sdmf maxseg k f old R Hk Hm).
    destruct (m old) as [new|]; [|exists f; split; [reflexivity|exact R]].
    destruct (list_N_eqb new old) eqn:E.
    - apply list_N_eqb_eq in E. subst new. exists f. split; [reflexivity|exact R].
    - destruct R as (Hs & Hk' & _). rewrite Hs, Hk'. apply publish_represents; assumption.
  Qed.

  Lemma do_update_represents sdmf maxseg k (Hk : 0 < k) (Hm : sdmf = false -> 0 < maxseg) f old data off :
    represents sdmf maxseg k f old -> off <= length old ->
    exists f', do_update maxseg f data off = Some f' /\ represents sdmf maxseg k f' (splice old data off).
  Proof.
    intros R Hoff. unfold do_update.
    assert (Hs : mf_sdmf f = sdmf) by (destruct R as (Hs & _); exact Hs).
    rewrite Hs. destruct sdmf.
    - apply (do_modify_represents true maxseg k Hk Hm f old (fun o => Some (splice o data off)) R).
    - assert (Hm0 : 0 < maxseg) by (apply Hm; reflexivity).
      assert (Hseg : mf_segsize f = seg_size_of false maxseg k (length old)) by (destruct R as (_ & _ & H & _); exact H).
      assert (NZ : mf_segsize f <> 0).
      { rewrite Hseg. unfold seg_size_of. pose proof (next_multiple_pos maxseg k Hk Hm0). lia. }
      assert (Hlen : mf_len f = length old) by (destruct R as (_ & _ & _ & H & _); exact H).
      destruct (mf_segsize f =? 0) eqn:E0; [apply Nat.eqb_eq in E0; contradiction|].
      rewrite Hlen.
      destruct ((off =? length old) && (off / mf_segsize f =? div_ceil (length old) (mf_segsize f))) eqn:Ec.
      + apply (do_modify_represents false maxseg k Hk Hm f old (fun o => Some (splice o data off)) R).
      + apply update_in_place_represents; try assumption.
        set (seg := mf_segsize f) in *. set (n := length old) in *.
        destruct (Nat.lt_ge_cases (off / seg) (div_ceil n seg)) as [G|G]; [exact G|exfalso].
        destruct (divmod_eq off seg NZ) as [D1 D2].
        destruct (Nat.eq_dec n 0) as [Z|Z].
        * rewrite Z in *. assert (off = 0) by lia. subst off.
          rewrite div_ceil_0, Nat.div_0_l in Ec by exact NZ. cbn in Ec. discriminate.
        * destruct (div_ceil_bounds n seg NZ) as [B1 B2]; [lia|].
          assert (div_ceil n seg * seg <= off / seg * seg) by (apply Nat.mul_le_mono_r; exact G).
          assert (off = n) by nia.
          assert (off / seg = div_ceil n seg).
          { destruct (div_uniq off seg (div_ceil n seg) 0) as [Q _]; [nia|lia|exact Q]. }
          apply andb_false_iff in Ec. destruct Ec as [Ec|Ec]; apply Nat.eqb_neq in Ec; contradiction.
  Qed.

  Lemma apply_impl_represents sdmf maxseg k (Hk : 0 < k) (Hm : sdmf = false -> 0 < maxseg) f cur o :
    represents sdmf maxseg k f cur -> op_ok cur o ->
    exists f', apply_impl maxseg f o = Some f' /\ represents sdmf maxseg k f' (apply_spec cur o).
  Proof.
    intros R Hok. destruct o as [new|m|data off]; cbn [apply_impl apply_spec].
    - apply (do_overwrite_represents sdmf maxseg k Hk Hm f cur new R).
    - apply (do_modify_represents sdmf maxseg k Hk Hm f cur m R).
    - apply (do_update_represents sdmf maxseg k Hk Hm f cur data off R Hok).
  Qed.

  Lemma run_impl_represents sdmf maxseg k (Hk : 0 < k) (Hm : sdmf = false -> 0 < maxseg) ops : forall f cur,
    represents sdmf maxseg k f cur -> history_ok cur ops ->
    exists f', run_impl maxseg f ops = Some f' /\ represents sdmf maxseg k f' (run_spec cur ops).
  Proof.
    induction ops as [|o r IH]; intros f cur R Hh.
    - exists f. split; [reflexivity|exact R].
    - destruct Hh as [Hok Hr].
      destruct (apply_impl_represents sdmf maxseg k Hk Hm f cur o R Hok) as (f1 & H1 & R1).
      cbn [run_impl]. rewrite H1. unfold run_spec. cbn [fold_left].
      apply (IH f1 (apply_spec cur o) R1 Hr).
  Qed.

Lemma history_ok_app cur a b : history_ok cur (a ++ b) -> history_ok cur a.
Proof.
  revert cur. induction a as [|o r IH]; intros cur H; [exact I|].
  destruct H as [H1 H2]. split; [exact H1|]. apply IH. exact H2.
Qed.
