(* C03: the fetcher in a world.  A world fixes the shares that exist on answering
   servers and which of them are good (their block request ends in COMPLETE).  The
   guard `ev_ok` says what the environment (node, finder, Share objects) may do;
   `Inv` is the invariant of all states reached through guarded events. *)
From Coq Require Import List NArith Bool Arith Lia Permutation.
From Verif Require Import Lib.Sched Model.Fetcher Proofs.FetcherBase.
Import ListNotations.

Record world := mk_world { w_shares : list share; w_good : share -> bool }.

Definition good_nums (w : world) : list N := nums (filter (w_good w) (w_shares w)).
Definition good_distinct (w : world) : nat := distinct (good_nums w).

(* fetcher state + the shares delivered so far by add_shares (ghost) *)
Definition gst := (fstate * list share)%type.

Definition gstep (g : gst) (e : fev) : gst * list fout :=
  let (s', o) := fstep (fst g) e in
  ((s', match e with EAddShares l => snd g ++ l | _ => snd g end), o).

Definition ginit (k : nat) (seg : N) : gst := (finit k seg, []).

Definition ev_ok (w : world) (g : gst) (e : fev) : Prop :=
  match e with
  | EAddShares l =>
      (* the finder hands over each share of the world once *)
      NoDup l /\ forall x, In x l -> In x (w_shares w) /\ ~ In x (snd g)
  | ENoMoreShares =>
      (* exhaustion is reported after every share was delivered (the eventual-send
         queue is FIFO: got_shares precedes no_more_shares) *)
      forall x, In x (w_shares w) -> In x (snd g)
  | EActivity sh st =>
      (* only shares with an outstanding get_block report; OVERDUE comes from the share
         that is active for its number; the terminal state of a good share is COMPLETE
         and only good shares complete *)
      In sh (f_from_server (fst g)) /\
      (st = OVERDUE -> In sh (f_active (fst g))) /\
      (is_terminal st = true -> (st = COMPLETE <-> w_good w sh = true))
  | ELoop ns =>
      f_loops (fst g) > 0 /\ match ns with Some n => (f_segnum (fst g) < n)%N | None => True end
  end.

Record InvF (w : world) (added : list share) (s : fstate) : Prop := {
  i_nodup : NoDup (f_shares s ++ f_from_server s);
  i_added : incl (f_shares s ++ f_from_server s) added;
  i_added_w : incl added (w_shares w);
  i_added_nd : NoDup added;
  i_active : incl (f_active s) (f_from_server s);
  i_overdue : incl (f_overdue s) (f_from_server s);
  i_cover : forall x, In x (f_from_server s) -> In x (f_active s) \/ In x (f_overdue s);
  i_act_nd : NoDup (nums (f_active s));
  i_good : f_running s = true -> forall x, In x added -> w_good w x = true ->
           In x (f_shares s) \/ In x (f_from_server s) \/ In (sh_num x) (bnums (f_blocks s));
  i_blocks : forall p, In p (f_blocks s) ->
             exists x, In x (w_shares w) /\ sh_num x = fst p /\ sh_id x = snd p /\ w_good w x = true;
  i_blocks_nd : NoDup (bnums (f_blocks s));
  i_max : f_max_per_server s >= 1;
  i_nomore : f_no_more s = true -> forall x, In x (w_shares w) -> In x added
}.

(* a running fetcher with no queued loop is waiting for the finder or for a request *)
Definition waiting_ok (s : fstate) : Prop :=
  f_running s = true -> f_loops s = 0 -> f_no_more s = false \/ f_from_server s <> [].

Definition Inv (w : world) (g : gst) : Prop := InvF w (snd g) (fst g) /\ waiting_ok (fst g).

(* ---- list facts ------------------------------------------------------------------ *)
Lemma nodup_app_intro {A} (a b : list A) :
  NoDup a -> NoDup b -> (forall x, In x a -> ~ In x b) -> NoDup (a ++ b).
Proof.
  induction a as [|x r IH]; cbn [app]; intros Ha Hb Hd; [exact Hb|].
  inversion Ha; subst. constructor.
  - intros H. apply in_app_or in H. destruct H as [H|H]; [contradiction|]. apply (Hd x); [now left|exact H].
  - apply IH; auto. intros y Hy. apply Hd. now right.
Qed.

Lemma nodup_app_l {A} (a b : list A) : NoDup (a ++ b) -> NoDup a.
Proof. induction a as [|x r IH]; cbn [app]; intros H; [constructor|]. inversion H; subst. constructor; [|auto]. intros Hx. apply H2. apply in_or_app. now left. Qed.

Lemma nodup_app_r {A} (a b : list A) : NoDup (a ++ b) -> NoDup b.
Proof. induction a as [|x r IH]; cbn [app]; intros H; [exact H|]. inversion H; subst. auto. Qed.

Lemma nodup_app_disj {A} (a b : list A) x : NoDup (a ++ b) -> In x a -> ~ In x b.
Proof.
  induction a as [|y r IH]; cbn [app In]; intros H Hx; [destruct Hx|]. inversion H; subst.
  destruct Hx as [Hx|Hx]; [subst; intros Hb; apply H2; apply in_or_app; now right|auto].
Qed.

Lemma nodup_filter_app {A} (f : A -> bool) (a b : list A) : NoDup (a ++ b) -> NoDup (a ++ filter f b).
Proof.
  intros H. apply nodup_app_intro.
  - eapply nodup_app_l; exact H.
  - apply NoDup_filter. eapply nodup_app_r; exact H.
  - intros x Hx Hb. apply filter_In in Hb. destruct Hb as [Hb _]. eapply nodup_app_disj; eauto.
Qed.

Lemma nodup_map_filter {A B} (g : A -> B) (f : A -> bool) (l : list A) : NoDup (map g l) -> NoDup (map g (filter f l)).
Proof.
  induction l as [|x r IH]; cbn [map filter]; intros H; [constructor|]. inversion H; subst.
  destruct (f x); cbn [map]; [constructor|]; auto.
  intros Hx. apply H2. apply in_map_iff in Hx. destruct Hx as (y & E & Hy). apply filter_In in Hy.
  apply in_map_iff. exists y. tauto.
Qed.

Lemma nodup_nums_inj l x y : NoDup (nums l) -> In x l -> In y l -> sh_num x = sh_num y -> x = y.
Proof.
  unfold nums. induction l as [|z r IH]; cbn [map In]; intros H Hx Hy E; [destruct Hx|]. inversion H; subst.
  destruct Hx as [Hx|Hx], Hy as [Hy|Hy]; subst; auto.
  - exfalso. apply H2. rewrite E. now apply in_map.
  - exfalso. apply H2. rewrite <- E. now apply in_map.
Qed.

Lemma in_nums x l : In x l -> In (sh_num x) (nums l).
Proof. unfold nums. apply in_map. Qed.

(* ---- the three moves of the loop keep InvF ---------------------------------------- *)
Lemma use_share_inv w added s sh d :
  InvF w added s ->
  find_share (f_blocks s) (f_active s) (f_from_server s) (f_max_per_server s) (f_shares s) = (Some sh, d) ->
  InvF w added (use_share s sh).
Proof.
  intros I F. apply find_share_some in F. destruct F as (Hsh & Hb & Ha & _).
  destruct I. assert (Hnf : ~ In sh (f_from_server s)) by (eapply nodup_app_disj; eauto).
  assert (SA : set_add sh (f_from_server s) = f_from_server s ++ [sh]).
  { unfold set_add. now rewrite (proj2 (has_id_false _ _) Hnf). }
  constructor; cbn [use_share f_shares f_from_server f_active f_overdue f_blocks f_max_per_server f_running f_no_more]; auto.
  - rewrite SA. eapply Permutation_NoDup; [|exact i_nodup0].
    eapply perm_trans; [apply Permutation_app_tail, remove_first_perm, Hsh|].
    cbn [app]. rewrite app_assoc. apply Permutation_cons_append.
  - rewrite SA. intros x Hx. apply i_added0. rewrite !in_app_iff in *. cbn [In] in Hx.
    destruct Hx as [Hx|[Hx|[Hx|[]]]]; [left; eapply remove_first_incl; eauto|now right|subst; now left].
  - rewrite SA. intros x Hx. apply in_app_or in Hx. apply in_or_app. destruct Hx as [Hx|[Hx|[]]]; [left; auto|right; subst; now left].
  - rewrite SA. intros x Hx. apply in_or_app. left. auto.
  - rewrite SA. intros x Hx. apply in_app_or in Hx. destruct Hx as [Hx|[Hx|[]]].
    + destruct (i_cover0 x Hx); [left; apply in_or_app; now left|now right].
    + subst. left. apply in_or_app. right. now left.
  - rewrite nums_app. cbn [nums map]. apply NoDup_snoc; [exact i_act_nd0|].
    intros H. apply has_num_In in H. congruence.
  - intros R x Hx G. destruct (i_good0 R x Hx G) as [H|[H|H]]; auto.
    destruct (sid_eqb x sh) eqn:E.
    + apply sid_eqb_eq in E. subst. right. left. rewrite SA. apply in_or_app. right. now left.
    + left. apply remove_first_keeps; [exact H|now apply sid_eqb_neq].
    + right. left. rewrite SA. apply in_or_app. now left.
Qed.

Lemma bump_max_inv w added s : InvF w added s -> InvF w added (bump_max s).
Proof. intros []. constructor; cbn [bump_max f_shares f_from_server f_active f_overdue f_blocks f_max_per_server f_running f_no_more]; auto. Qed.

Lemma stop_inv w added s : InvF w added s -> InvF w added (stop s).
Proof.
  intros []. constructor; cbn [stop f_shares f_from_server f_active f_overdue f_blocks f_max_per_server f_running f_no_more app nums map]; auto;
    try (now constructor); try (intros x []); try discriminate.
Qed.

Lemma do_while_inv w added fuel s outs s' outs' :
  InvF w added s -> do_while fuel s outs = Some (s', outs') -> InvF w added s'.
Proof.
  intros I H. eapply (do_while_preserves (InvF w added)); [| | |exact I|exact H].
  - intros; eapply use_share_inv; eauto.
  - apply bump_max_inv.
  - apply stop_inv.
Qed.

Lemma distinct_app_nil_r a : distinct (a ++ []) = distinct a.
Proof. now rewrite app_nil_r. Qed.

(* how the loop can end while the fetcher keeps running *)
Lemma do_while_wait w added : forall fuel s outs s' outs',
  InvF w added s -> do_while fuel s outs = Some (s', outs') -> f_running s' = true ->
  f_no_more s' = false \/ f_from_server s' <> [].
Proof.
  induction fuel as [|f IH]; intros s outs s' outs' I H R; [discriminate|].
  cbn [do_while] in H. destruct (have_or_active s <? f_k s) eqn:HA.
  - destruct (find_share _ _ _ _ _) as [[sh|] d] eqn:F.
    + eapply IH; [|exact H|exact R]. eapply use_share_inv; eauto.
    + destruct d.
      * eapply IH; [|exact H|exact R]. now apply bump_max_inv.
      * destruct (f_no_more s) eqn:NM.
        -- destruct (have_active_overdue s <? f_k s) eqn:HO; inversion H; subst; [discriminate|].
           right. intros E. apply Nat.ltb_lt in HA. apply Nat.ltb_ge in HO.
           assert (f_overdue s' = []) as EO.
           { destruct (f_overdue s') as [|x r] eqn:EO; [reflexivity|]. exfalso.
             assert (In x (f_from_server s')) by (apply (i_overdue _ _ _ I); rewrite EO; now left).
             rewrite E in H0. destruct H0. }
           unfold have_or_active, have_active_overdue in *. rewrite EO in HO. cbn [nums map] in HO.
           rewrite app_nil_r in HO. lia.
        -- inversion H; subst. now left.
  - destruct (f_k s <=? distinct (bnums (f_blocks s))) eqn:K; inversion H; subst; [discriminate|].
    right. intros E. apply Nat.ltb_ge in HA. apply Nat.leb_gt in K.
    assert (f_active s' = []) as EA.
    { destruct (f_active s') as [|x r] eqn:EA; [reflexivity|]. exfalso.
      assert (In x (f_from_server s')) by (apply (i_active _ _ _ I); rewrite EA; now left).
      rewrite E in H0. destruct H0. }
    unfold have_or_active in HA. rewrite EA in HA. cbn [nums map] in HA. rewrite app_nil_r in HA. lia.
Qed.

(* ---- every guarded step keeps Inv -------------------------------------------------- *)
Lemma inv_init w k seg : Inv w (ginit k seg).
Proof.
  split.
  - constructor; cbn; auto; try (now constructor); try (intros x []); try discriminate.
  - intros _ _. now left.
Qed.

Lemma gstep_inv w g e : NoDup (w_shares w) -> Inv w g -> ev_ok w g e -> Inv w (fst (gstep g e)).
Proof.
  intros Hw [I W] Hok. destruct g as [s added]. cbn [fst snd] in *. unfold gstep. cbn [fst snd].
  destruct e as [l| |sh st|ns]; cbn [fstep ev_ok fst snd] in *.
  - (* add_shares *)
    destruct Hok as [Hnd Hl]. destruct (f_running s) eqn:R; cbn [fst snd].
    + split.
      * destruct I. constructor; cbn [fst snd set_loops set_shares f_shares f_from_server f_active f_overdue f_blocks f_max_per_server f_running f_no_more]; auto.
        -- eapply Permutation_NoDup.
           { apply Permutation_app_tail. apply Permutation_sym. apply sort_shares_perm. }
           rewrite <- app_assoc. eapply Permutation_NoDup; [apply Permutation_app_head, Permutation_app_comm|].
           rewrite app_assoc. apply nodup_app_intro; [exact i_nodup0|exact Hnd|].
           intros x Hx Hxl. apply (proj2 (Hl x Hxl)). now apply i_added0.
        -- intros x Hx. apply in_app_or in Hx. apply in_or_app. destruct Hx as [Hx|Hx].
           ++ apply (proj1 (sort_shares_In _ _)) in Hx. apply in_app_or in Hx. destruct Hx as [Hx|Hx]; [left; apply i_added0; apply in_or_app; now left|now right].
           ++ left. apply i_added0. apply in_or_app. now right.
        -- intros x Hx. apply in_app_or in Hx. destruct Hx as [Hx|Hx]; [auto|apply (Hl x Hx)].
        -- apply nodup_app_intro; auto. intros x Hx Hxl. now apply (proj2 (Hl x Hxl)).
        -- intros _ x Hx G. apply in_app_or in Hx. destruct Hx as [Hx|Hx].
           ++ destruct (i_good0 R x Hx G) as [H|[H|H]]; auto. left. apply sort_shares_In. apply in_or_app. now left.
           ++ left. apply sort_shares_In. apply in_or_app. now right.
        -- intros NM x Hx. apply in_or_app. left. auto.
      * intros _ E. cbn [set_loops f_loops] in E. discriminate.
    + split.
      * destruct I. constructor; cbn [fst snd]; auto.
        -- intros x Hx. apply in_or_app. left. auto.
        -- intros x Hx. apply in_app_or in Hx. destruct Hx as [Hx|Hx]; [auto|apply (Hl x Hx)].
        -- apply nodup_app_intro; auto. intros x Hx Hxl. now apply (proj2 (Hl x Hxl)).
        -- intros R'. congruence.
        -- intros NM x Hx. apply in_or_app. left. auto.
      * intros R'. cbn [fst] in R'. congruence.
  - (* no_more_shares *)
    split.
    + destruct I. constructor; cbn [fst snd set_loops set_no_more f_shares f_from_server f_active f_overdue f_blocks f_max_per_server f_running f_no_more]; auto.
    + intros _ E. cbn [set_loops f_loops] in E. discriminate.
  - (* activity *)
    destruct Hok as (Hfs & Hov & Hterm).
    destruct (activity_raises s sh st) eqn:AR; cbn [fst snd]; [split; assumption|].
    unfold activity. destruct (f_running s) eqn:R; cbn [negb]; [|split; assumption].
    assert (Hsh_w : In sh (w_shares w)).
    { destruct I. apply i_added_w0, i_added0. apply in_or_app. now right. }
    split; [|intros _ E; destruct st; cbn [set_loops f_loops] in E; discriminate].
    destruct st; cbn [is_terminal].
    + (* COMPLETE *)
      assert (G : w_good w sh = true) by (apply (proj1 (Hterm eq_refl)); reflexivity).
      destruct I. constructor; cbn [fst snd set_loops f_shares f_from_server f_active f_overdue f_blocks f_max_per_server f_running f_no_more]; auto.
      * now apply nodup_filter_app.
      * intros x Hx. apply i_added0. apply in_app_or in Hx. apply in_or_app. destruct Hx as [Hx|Hx]; [now left|right; now apply remove_id_In in Hx].
      * intros x Hx. apply remove_id_In in Hx. apply remove_id_In. split; [apply i_active0|]; tauto.
      * intros x Hx. apply remove_id_In in Hx. apply remove_id_In. split; [apply i_overdue0|]; tauto.
      * intros x Hx. apply remove_id_In in Hx. destruct Hx as [Hx Hne].
        destruct (i_cover0 x Hx); [left|right]; apply remove_id_In; tauto.
      * unfold remove_id, nums. now apply nodup_map_filter.
      * intros _ x Hx Gx. destruct (i_good0 R x Hx Gx) as [H|[H|H]]; auto.
        -- destruct (sid_eqb x sh) eqn:E.
           ++ apply sid_eqb_eq in E. subst. right. right. apply blk_set_has.
           ++ right. left. apply remove_id_In. split; [exact H|now apply sid_eqb_neq].
        -- right. right. now apply blk_set_incl.
      * intros p Hp. apply blk_set_In in Hp. destruct Hp as [Hp|Hp]; [|auto].
        subst p. exists sh. cbn [fst snd]. auto.
      * now apply blk_set_nodup.
    + (* CORRUPT *)
      assert (G : w_good w sh = false).
      { destruct (w_good w sh) eqn:G; [|reflexivity]. exfalso.
        pose proof (proj2 (Hterm eq_refl) eq_refl) as X. discriminate X. }
      destruct I. constructor; cbn [fst snd set_loops f_shares f_from_server f_active f_overdue f_blocks f_max_per_server f_running f_no_more]; auto.
      * now apply nodup_filter_app.
      * intros x Hx. apply i_added0. apply in_app_or in Hx. apply in_or_app. destruct Hx as [Hx|Hx]; [now left|right; now apply remove_id_In in Hx].
      * intros x Hx. apply remove_id_In in Hx. apply remove_id_In. split; [apply i_active0|]; tauto.
      * intros x Hx. apply remove_id_In in Hx. apply remove_id_In. split; [apply i_overdue0|]; tauto.
      * intros x Hx. apply remove_id_In in Hx. destruct Hx as [Hx Hne].
        destruct (i_cover0 x Hx); [left|right]; apply remove_id_In; tauto.
      * unfold remove_id, nums. now apply nodup_map_filter.
      * intros _ x Hx Gx. destruct (i_good0 R x Hx Gx) as [H|[H|H]]; auto.
        right. left. apply remove_id_In. split; [exact H|]. intros E. subst. congruence.
    + (* DEAD *)
      assert (G : w_good w sh = false).
      { destruct (w_good w sh) eqn:G; [|reflexivity]. exfalso.
        pose proof (proj2 (Hterm eq_refl) eq_refl) as X. discriminate X. }
      destruct I. constructor; cbn [fst snd set_loops f_shares f_from_server f_active f_overdue f_blocks f_max_per_server f_running f_no_more]; auto.
      * now apply nodup_filter_app.
      * intros x Hx. apply i_added0. apply in_app_or in Hx. apply in_or_app. destruct Hx as [Hx|Hx]; [now left|right; now apply remove_id_In in Hx].
      * intros x Hx. apply remove_id_In in Hx. apply remove_id_In. split; [apply i_active0|]; tauto.
      * intros x Hx. apply remove_id_In in Hx. apply remove_id_In. split; [apply i_overdue0|]; tauto.
      * intros x Hx. apply remove_id_In in Hx. destruct Hx as [Hx Hne].
        destruct (i_cover0 x Hx); [left|right]; apply remove_id_In; tauto.
      * unfold remove_id, nums. now apply nodup_map_filter.
      * intros _ x Hx Gx. destruct (i_good0 R x Hx Gx) as [H|[H|H]]; auto.
        right. left. apply remove_id_In. split; [exact H|]. intros E. subst. congruence.
    + (* OVERDUE *)
      specialize (Hov eq_refl).
      destruct I. constructor; cbn [fst snd set_loops f_shares f_from_server f_active f_overdue f_blocks f_max_per_server f_running f_no_more]; auto.
      * intros x Hx. apply remove_num_In in Hx. apply i_active0. tauto.
      * intros x Hx. apply set_add_In in Hx. destruct Hx as [Hx|Hx]; [auto|now subst].
      * intros x Hx. destruct (i_cover0 x Hx) as [H|H].
        -- destruct (N.eq_dec (sh_num x) (sh_num sh)) as [e|ne].
           ++ right. apply set_add_In. right. eapply nodup_nums_inj; eauto.
           ++ left. apply remove_num_In. now split.
        -- right. apply set_add_In. now left.
      * unfold remove_num, nums. now apply nodup_map_filter.
    + (* BADSEGNUM *)
      assert (G : w_good w sh = false).
      { destruct (w_good w sh) eqn:G; [|reflexivity]. exfalso.
        pose proof (proj2 (Hterm eq_refl) eq_refl) as X. discriminate X. }
      destruct I. constructor; cbn [fst snd set_loops f_shares f_from_server f_active f_overdue f_blocks f_max_per_server f_running f_no_more]; auto.
      * now apply nodup_filter_app.
      * intros x Hx. apply i_added0. apply in_app_or in Hx. apply in_or_app. destruct Hx as [Hx|Hx]; [now left|right; now apply remove_id_In in Hx].
      * intros x Hx. apply remove_id_In in Hx. apply remove_id_In. split; [apply i_active0|]; tauto.
      * intros x Hx. apply remove_id_In in Hx. apply remove_id_In. split; [apply i_overdue0|]; tauto.
      * intros x Hx. apply remove_id_In in Hx. destruct Hx as [Hx Hne].
        destruct (i_cover0 x Hx); [left|right]; apply remove_id_In; tauto.
      * unfold remove_id, nums. now apply nodup_map_filter.
      * intros _ x Hx Gx. destruct (i_good0 R x Hx Gx) as [H|[H|H]]; auto.
        right. left. apply remove_id_In. split; [exact H|]. intros E. subst. congruence.
  - (* loop *)
    destruct Hok as [Hl Hns]. destruct (f_loops s) as [|n] eqn:L; [lia|].
    assert (I' : InvF w added (set_loops s n)) by (destruct I; constructor; auto).
    unfold do_loop. cbn [set_loops f_running f_segnum].
    destruct (f_running s) eqn:R; cbn [negb fst snd].
    + assert ((match ns with Some n0 => N.leb n0 (f_segnum s) | None => false end) = false) as B.
      { destruct ns as [m|]; [|reflexivity]. apply N.leb_gt. exact Hns. }
      rewrite B. destruct (do_while _ _ _) as [[s' o]|] eqn:D; cbn [fst snd].
      * split; [eapply do_while_inv; eauto|]. intros R' _. eapply do_while_wait; eauto.
      * exfalso. revert D. apply do_while_fuel. apply loop_fuel_enough. apply (i_max _ _ _ I').
    + split; [exact I'|]. intros R'. cbn [fst set_loops f_running] in R'. congruence.
Qed.

(* ---- consequences ------------------------------------------------------------------ *)
(* blocks come from good shares of the world: fewer than k distinct good share numbers
   means process_blocks is never called *)
Lemma blocks_good w added s : InvF w added s -> incl (bnums (f_blocks s)) (good_nums w).
Proof.
  intros I n Hn. unfold bnums in Hn. apply in_map_iff in Hn. destruct Hn as (p & E & Hp).
  destruct (i_blocks _ _ _ I p Hp) as (x & Hx & E1 & _ & G). subst n. rewrite <- E1.
  unfold good_nums. apply in_nums. apply filter_In. now split.
Qed.

Lemma gstep_process_good w g e bl :
  Inv w g -> In (OProcessBlocks bl) (snd (gstep g e)) -> f_k (fst g) <= good_distinct w.
Proof.
  intros [I _] Hin. destruct g as [s added]. unfold gstep in Hin. cbn [fst snd] in *.
  destruct (fstep s e) as [s' o] eqn:F. cbn [snd] in Hin.
  pose proof (fstep_process s e bl (i_blocks_nd _ _ _ I)) as P. rewrite F in P. cbn [snd] in P.
  destruct (P Hin) as [Hnd Hk].
  (* bl is the block map of s at the time of the call = f_blocks of the final state *)
  assert (bl = f_blocks s') as E.
  { destruct e as [l| |sh st|ns]; cbn [fstep] in F.
    - destruct (f_running s); inversion F; subst; destruct Hin.
    - inversion F; subst; destruct Hin.
    - destruct (activity_raises s sh st); inversion F; subst; destruct Hin.
    - destruct (f_loops s) as [|n]; [inversion F; subst; destruct Hin|]. unfold do_loop in F.
      destruct (negb (f_running (set_loops s n))); [inversion F; subst; destruct Hin|].
      destruct (match ns with Some n0 => N.leb n0 (f_segnum (set_loops s n)) | None => false end).
      { inversion F; subst. destruct Hin as [Hin|[]]; discriminate. }
      destruct (do_while _ _ _) as [[s2 o2]|] eqn:D; [|inversion F; subst; destruct Hin].
      inversion F; subst. clear F P.
      assert (forall fuel s0 outs, (forall b, ~ In (OProcessBlocks b) outs) ->
              do_while fuel s0 outs = Some (s', o) -> In (OProcessBlocks bl) o -> bl = f_blocks s') as X.
      { induction fuel as [|f IH]; intros s0 outs Hno H Hi; [discriminate|].
        cbn [do_while] in H. destruct (have_or_active s0 <? f_k s0).
        - destruct (find_share _ _ _ _ _) as [[sh|] d].
          + eapply IH; [|exact H|exact Hi]. intros b Hb. apply in_app_or in Hb.
            destruct Hb as [Hb|[Hb|[]]]; [now apply (Hno b)|discriminate].
          + destruct d.
            * eapply IH; [|exact H|exact Hi]. intros b Hb. apply in_app_or in Hb.
              destruct Hb as [Hb|Hb]; [now apply (Hno b)|]. unfold ask in Hb.
              destruct (f_no_more s0); [destruct Hb|destruct Hb as [Hb|[]]; discriminate].
            * destruct (f_no_more s0); [destruct (have_active_overdue s0 <? f_k s0)|]; inversion H; subst;
                try (exfalso; now apply (Hno bl));
                apply in_app_or in Hi; destruct Hi as [Hi|[Hi|[]]]; try (exfalso; now apply (Hno bl)); discriminate.
        - destruct (f_k s0 <=? distinct (bnums (f_blocks s0))); inversion H; subst; [|exfalso; now apply (Hno bl)].
          apply in_app_or in Hi. destruct Hi as [Hi|[Hi|[]]]; [exfalso; now apply (Hno bl)|].
          inversion Hi; subst. reflexivity. }
      eapply X; [|exact D|exact Hin]. intros b []. }
  subst bl.
  assert (I' : InvF w added s' \/ True) by now right. clear I'.
  (* the blocks of s' are those of a state satisfying InvF: use the blocks of s, which the loop does not change *)
  assert (incl (bnums (f_blocks s')) (good_nums w)) as G.
  { destruct e as [l| |sh st|ns]; cbn [fstep] in F.
    - destruct (f_running s); inversion F; subst; destruct Hin.
    - inversion F; subst; destruct Hin.
    - destruct (activity_raises s sh st); inversion F; subst; destruct Hin.
    - destruct (f_loops s) as [|n]; [inversion F; subst; destruct Hin|]. unfold do_loop in F.
      destruct (negb (f_running (set_loops s n))); [inversion F; subst; destruct Hin|].
      destruct (match ns with Some n0 => N.leb n0 (f_segnum (set_loops s n)) | None => false end).
      { inversion F; subst. destruct Hin as [Hin|[]]; discriminate. }
      destruct (do_while _ _ _) as [[s2 o2]|] eqn:D; [|inversion F; subst; destruct Hin].
      inversion F; subst.
      eapply blocks_good. eapply (do_while_inv w added); [|exact D]. destruct I; constructor; auto. }
  unfold good_distinct. eapply Nat.le_trans; [exact Hk|].
  rewrite <- (map_length fst). fold (bnums (f_blocks s')). rewrite <- distinct_nodup by exact Hnd.
  now apply distinct_incl.
Qed.

(* the error is raised only when the world has fewer than k distinct good share numbers *)
Lemma gstep_error_few_good w g ev e :
  Inv w g -> In (OFetchFailed e) (snd (gstep g ev)) -> e <> BadSegmentNumberError ->
  good_distinct w < f_k (fst g).
Proof.
  intros [I _] Hin Hne. destruct g as [s added]. unfold gstep in Hin. cbn [fst snd] in *.
  destruct (fstep s ev) as [s' o] eqn:F. cbn [snd] in Hin.
  pose proof (fstep_error s ev e) as P. rewrite F in P. cbn [snd] in P.
  destruct (P Hin Hne) as (NM & Hlt & _).
  assert (R : f_running s = true).
  { destruct (f_running s) eqn:R; [reflexivity|]. destruct (fstep_stopped s ev R) as [E _]. rewrite F in E. cbn [snd] in E. subst o. destruct Hin. }
  eapply Nat.le_lt_trans; [|exact Hlt]. apply distinct_incl.
  intros n Hn. unfold good_nums, nums in Hn. apply in_map_iff in Hn. destruct Hn as (x & E & Hx). subst n.
  apply filter_In in Hx. destruct Hx as [Hx G].
  pose proof (i_nomore _ _ _ I NM x Hx) as Ha.
  unfold all_nums. rewrite !in_app_iff.
  destruct (i_good _ _ _ I R x Ha G) as [H|[H|H]].
  - right. right. right. now apply in_nums.
  - destruct (i_cover _ _ _ I x H); [right; left|right; right; left]; now apply in_nums.
  - now left.
Qed.
