(* C29: concrete witnesses.  (1) The refutation witness of
   "lease-only operations never change share data": the crash point between the
   two writes of the immutable ShareFile.add_lease (replayed on the
   implementation by harness/props/c29.py on every run).  (2) What a crash does
   to the mutable share that is being written / lease-written (excluded by the
   property, stated for the record). *)
From Coq Require Import String.
From Coq Require Import List Arith NArith Bool Lia.
From Verif Require Import Lib.Hex Lib.FileSys Model.Crash
  Proofs.CrashBytes Proofs.CrashImm Proofs.CrashMut Proofs.Crash.
Import ListNotations.
Local Open Scope N_scope.

Lemma wit_state_final si sh :
  wit_state (Final si sh) = if (si =? 0) && (sh =? 0) then wit_state (Final 0 0) else None.
Proof.
  destruct ((si =? 0) && (sh =? 0)) eqn:E.
  - apply andb_true_iff in E. destruct E as [E1 E2]. apply N.eqb_eq in E1, E2. subst. reflexivity.
  - unfold wit_state, run_sops, wit_hist. cbn [fold_left].
    unfold plain_ops. cbn [ops_of].
    vm_compute. vm_compute in E. rewrite E. reflexivity.
Qed.

Lemma wit_inv : Inv wit_state.
Proof.
  intros si sh f H. rewrite wit_state_final in H.
  destruct ((si =? 0) && (sh =? 0)); [|discriminate].
  vm_compute in H. apply some_inj in H. subst f. vm_compute. reflexivity.
Qed.

Lemma lease_ops_preserve_data_refuted_proof :
  exists o s k si sh,
    lease_only o = true /\ recs_ok o /\ Inv s /\
    in_window (firstn k (ops_of o s)) = true /\
    data_of (recover (run_p (map fst (firstn k (ops_of o s))) s) (Final si sh))
    <> data_of (s (Final si sh)).
Proof.
  exists wit_op, wit_state, 1%nat, 0, 0.
  split; [reflexivity|]. split; [split; reflexivity|]. split; [exact wit_inv|].
  split; [vm_compute; reflexivity|]. vm_compute. discriminate.
Qed.

(* the same state, spelled out: 5 data bytes before, 77 after (the old first
   lease record appended), and the lease list lost its first entry *)
Lemma wit_window_state :
  view_of (wit_state (Final 0 0)) = VImm (unhex "68656c6c6f"%string) [wit_rec0] /\
  view_of (recover (run_p (firstn 1 (plain_ops wit_op wit_state)) wit_state) (Final 0 0))
  = VImm (unhex "68656c6c6f"%string ++ wit_rec0) [wit_rec1] /\
  view_of (recover (run_p (firstn 2 (plain_ops wit_op wit_state)) wit_state) (Final 0 0))
  = VImm (unhex "68656c6c6f"%string) [wit_rec0; wit_rec1].
Proof. vm_compute. repeat split. Qed.

(* ------------------------------------------------------------------ mutable *)
(* container growth with two extra leases: after the first and the second of
   the six calls the two extra leases are gone, after the third they are back;
   the data is intact until the new data length is written (fifth call), which
   exposes zeros where the new bytes are not yet written *)
Lemma mutable_growth_window_proof :
  map (fun k => lease_count (mut_view_after mw_grow k)) (seq 0 7)
  = [Some 6; Some 4; Some 4; Some 6; Some 6; Some 6; Some 6]%nat /\
  (forall k, (k <= 4)%nat -> data_of (Some (match mw_state (Final 2 0) with Some f => f | None => [] end))
                           = match mut_view_after mw_grow k with VMut d _ => Some d | _ => None end) /\
  mut_view_after mw_grow 5 <> mut_view_after mw_grow 0 /\
  mut_view_after mw_grow 5 <> mut_view_after mw_grow 6.
Proof.
  split; [vm_compute; reflexivity|]. split.
  - intros k Hk. do 5 (destruct k as [|k]; [vm_compute; reflexivity|]). lia.
  - split; vm_compute; discriminate.
Qed.

(* a lease that needs a new extra slot: between the count write and the record
   write the lease list of that share cannot be read (struct.error in
   _read_lease_record); the share data is unaffected *)
Lemma mutable_add_lease_window_proof :
  map (fun k => lease_count (mut_view_after mw_add7 k)) (seq 0 3) = [Some 6; None; Some 7]%nat /\
  forall k, data_of (recover (run_p (firstn k (plain_ops mw_add7 mw_state)) mw_state) (Final 2 0))
            = data_of (mw_state (Final 2 0)).
Proof.
  split; [vm_compute; reflexivity|].
  intro k. do 3 (destruct k as [|k]; [vm_compute; reflexivity|]).
  vm_compute. reflexivity.
Qed.

(* non-vacuity computations used by Props/C29.v *)
Lemma wit_window_points :
  map (fun k => in_window (firstn k (ops_of wit_op wit_state))) [0; 1; 2]%nat = [false; true; false]
  /\ lease_only wit_op = true /\ length (ops_of wit_op wit_state) = 2%nat.
Proof. vm_compute. repeat split. Qed.

Lemma wit_upload :
  let ops := upload_ops 0 0 5 wit_rec0 [(0, unhex "68656c6c6f"%string)] in
  length ops = 6%nat /\
  view_of (recover (run_p ops empty_fs) (Final 0 0)) = VImm (unhex "68656c6c6f"%string) [wit_rec0] /\
  view_of (recover (run_p (firstn 5 ops) empty_fs) (Final 0 0)) = VAbsent /\
  run_p (firstn 5 ops) empty_fs (Incoming 0 0) <> None /\
  recover (run_p (firstn 5 ops) empty_fs) (Incoming 0 0) = None.
Proof. vm_compute. repeat split. discriminate. Qed.

Lemma wit_http_resent :
  let c0 := (0, [1; 2; 3]) in let c1 := (3, [4; 5; 6]) in let c2 := (6, [7; 8; 9]) in
  covered 9 (write_ranges 9 [c0; c0; c1]) = false /\
  view_of (recover (run_p (http_upload_ops 0 0 9 wit_rec0 [c0; c0; c1]) empty_fs) (Final 0 0)) = VAbsent /\
  covered 9 (write_ranges 9 [c0; c0; c1; c2]) = true /\
  view_of (recover (run_p (http_upload_ops 0 0 9 wit_rec0 [c0; c0; c1; c2]) empty_fs) (Final 0 0))
  = VImm [1; 2; 3; 4; 5; 6; 7; 8; 9] [wit_rec0].
Proof. vm_compute. repeat split. Qed.
